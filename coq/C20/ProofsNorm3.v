(* C20 — normpath and relative abspath against the component algebra. *)
From MV Require Import C20.Model C20.ProofsStr C20.ProofsPath C20.ProofsAlg2 C20.ProofsAlg3 C20.ProofsAlg4
  C20.ProofsNorm C20.ProofsNorm2.
Local Open Scope Z_scope.

(* the three shapes of a path: relative, relative with a leading "./" (or ".\"), absolute *)
Definition pre_ok (pre : list Z) (abs : bool) : Prop :=
  (pre = [] /\ abs = false) \/
  ((pre = [46; 47] \/ pre = [46; 92]) /\ abs = false) \/
  (pre = [47] /\ abs = true).

Lemma render_no_dot_prefix cs x : wf_comps cs -> is_sep x = true -> startswith (render cs) [46; x] = false.
Proof.
  intros W Hx. destruct (startswith (render cs) [46; x]) eqn:S; [|reflexivity]. exfalso.
  apply startswith_spec_l in S. destruct S as [[r E] _].
  destruct cs as [|[c s] cs']; [discriminate|]. rewrite render_cons in E. destruct W as (Hc & _ & _).
  destruct c as [nm|]; cbn [text app] in E.
  - destruct Hc as (Hne & Hns & _ & Hd).
    destruct nm as [|a [|b nm']]; [congruence| |].
    + cbn [app] in E. inversion E; subst. congruence.
    + cbn [app] in E. inversion E; subst. inversion Hns as [|? ? _ H2]; subst. inversion H2; subst. congruence.
  - inversion E; subst. discriminate.
Qed.

Lemma cursor_of pre abs cs : pre_ok pre abs -> wf_comps cs -> np_cursor (pre ++ render cs) = root abs ++ render cs.
Proof.
  intros [[-> ->]|[[[-> | ->] ->]|[-> ->]]] W; unfold np_cursor, root; cbn [app].
  - rewrite (render_no_dot_prefix cs 47 W eq_refl), (render_no_dot_prefix cs 92 W eq_refl).
    rewrite andb_false_r. reflexivity.
  - assert (A : isabs (46 :: 47 :: render cs) = false).
    { unfold isabs. cbn [nth]. destruct (1 <? zlen (46 :: 47 :: render cs)); destruct (2 <? zlen (46 :: 47 :: render cs)); reflexivity. }
    assert (S : startswith (46 :: 47 :: render cs) [46; 47] = true).
    { apply startswith_spec_l. split; [exists (render cs); reflexivity|discriminate]. }
    rewrite A, S. reflexivity.
  - assert (A : isabs (46 :: 92 :: render cs) = false).
    { unfold isabs. cbn [nth]. destruct (1 <? zlen (46 :: 92 :: render cs)); destruct (2 <? zlen (46 :: 92 :: render cs)); reflexivity. }
    assert (S : startswith (46 :: 92 :: render cs) [46; 92] = true).
    { apply startswith_spec_l. split; [exists (render cs); reflexivity|discriminate]. }
    rewrite A, S, orb_true_r. reflexivity.
  - assert (S : forall x, startswith (47 :: render cs) [46; x] = false).
    { intro x. destruct (startswith (47 :: render cs) [46; x]) eqn:S; [|reflexivity].
      apply startswith_spec_l in S. destruct S as [[r E] _]. discriminate. }
    rewrite !S, andb_false_r. reflexivity.
Qed.

Lemma np_pure_root abs rc : np_pure (root abs ++ rc) [] = np_pure rc (out_of abs []).
Proof. destruct abs; reflexivity. Qed.

(* normpath = the component algebra, for every size *)
Lemma normpath_algebra_l : forall pre abs cs size m,
  pre_ok pre abs -> wf_comps cs -> ok m size -> nonzero (pre ++ render cs) ->
  let p := pre ++ render cs in
  match resolve abs [] cs with
  | None => fst (normpath p size m) <> 0                      (* above the root *)
  | Some k =>
      let res := out_of abs k in
      (fst (normpath p size m) = 0 <-> zlen p < size /\ (res = [] -> 2 < size)) /\
      (fst (normpath p size m) = 0 ->
         cstr (cells (snd (normpath p size m))) = if (length res =? 0)%nat then [46; 47] else res)
  end.
Proof.
  intros pre abs cs size m Hpre W Hok Hnz. cbn zeta.
  pose proof (normpath_pure_l (pre ++ render cs) size m Hok Hnz) as N.
  rewrite (cursor_of pre abs cs Hpre W), np_pure_root in N.
  rewrite (np_pure_resolve abs cs [] W ltac:(constructor)) in N.
  destruct (resolve abs [] cs); exact N.
Qed.

(* abspath of a relative path is normpath of the joined path (cwd a parameter) *)
Lemma abspath_rel_l : forall cwd p size junk m,
  ok m size -> zlen junk = MAX_PATH -> nonzero cwd -> nonzero p -> isabs p = false -> 1 < size ->
  let j := join_ref cwd p in
  let joins := cwd <> [] /\ p <> [] /\ p <> [47] /\ zlen j < MAX_PATH in
  (~ joins -> fst (abspath cwd p size junk m) <> 0) /\
  (joins -> fst (abspath cwd p size junk m) = fst (normpath j size m) /\
            cells (snd (abspath cwd p size junk m)) = cells (snd (normpath j size m))).
Proof.
  intros cwd p size junk m Hok Hj Hzc Hzp Ha Hs. cbn zeta.
  assert (Hfb : ok (mkbuf junk false) MAX_PATH) by (split; [exact Hj|reflexivity]).
  destruct (join_algebra_l cwd p MAX_PATH _ Hfb Hzc Hzp) as [J1 J2].
  unfold abspath, abspath_with. rewrite Ha.
  assert (S1 : (size <=? 1) = false) by (apply Z.leb_gt; exact Hs). rewrite S1.
  destruct (join cwd p MAX_PATH (mkbuf junk false)) as [r fb] eqn:Ej. cbn [fst snd] in J1, J2.
  split.
  - intros NJ. destruct (negb (r =? 0)) eqn:R0.
    + cbn [fst]. breflect. exact R0.
    + exfalso. breflect. apply NJ. apply J1 in R0. tauto.
  - intros HJ. assert (r = 0) by (apply J1; destruct HJ as (A & B & C & D); repeat split; try assumption). subst r.
    cbn [Z.eqb negb]. rewrite (J2 eq_refl).
    destruct (normpath (join_ref cwd p) size m) as [r2 m2]. split; reflexivity.
Qed.

(* ---------- abspath of a relative path on the plain class ---------- *)
Lemma render_app a b : render (a ++ b) = render a ++ render b.
Proof. unfold render. rewrite map_app, concat_app. reflexivity. Qed.

Lemma wf_app a : forall b, kinv a -> wf_comps b -> wf_comps (a ++ b).
Proof.
  induction a as [|[c s] a IH]; intros b K W; [exact W|].
  inversion K as [|? ? [Hc Hs] K']; subst. cbn [fst snd] in *. cbn [app wf_comps].
  split; [exact Hc|]. split; [left; exact Hs|apply IH; assumption].
Qed.

Lemma text_last_not_sep c : comp_ok c -> exists t z, text c = t ++ [z] /\ is_sep z = false.
Proof.
  destruct c as [nm|]; cbn [comp_ok text].
  - intros (Hne & Hns & _). destruct (exists_last Hne) as (t & z & E). exists t, z. split; [exact E|].
    rewrite E in Hns. unfold nosep in Hns. apply Forall_app in Hns. destruct Hns as [_ H]. inversion H; assumption.
  - intros _. exists [46], 46. split; reflexivity.
Qed.

Lemma render_head_not_sep cs : wf_comps cs -> cs <> [] -> render cs <> [] /\ is_sep (nth 0 (render cs) 0) = false.
Proof.
  intros W Hne. destruct cs as [|[c s] r]; [congruence|]. destruct W as (Hc & _ & _). rewrite render_cons.
  destruct c as [nm|]; cbn [text comp_ok] in *.
  - destruct Hc as (Hn & Hns & _). destruct nm as [|a nm']; [congruence|]. cbn [app nth].
    split; [discriminate|]. inversion Hns; assumption.
  - cbn [app nth]. split; [discriminate|reflexivity].
Qed.

(* cwd = "/" comps1 c (no trailing separator), p = comps2 (relative):
   abspath cwd p = the algebra on "/" comps1 c "/" comps2 *)
Lemma abspath_plain_l : forall cs1 c cs2 size junk m,
  ok m size -> zlen junk = MAX_PATH -> 1 < size ->
  kinv cs1 -> comp_ok c -> wf_comps cs2 -> cs2 <> [] ->
  let cwd := [47] ++ render cs1 ++ text c in
  let p := render cs2 in
  let cs := cs1 ++ (c, [47]) :: cs2 in
  nonzero cwd -> nonzero p -> isabs p = false -> zlen ([47] ++ render cs) < MAX_PATH ->
  match resolve true [] cs with
  | None => fst (abspath cwd p size junk m) <> 0
  | Some k =>
      (fst (abspath cwd p size junk m) = 0 <-> zlen ([47] ++ render cs) < size) /\
      (fst (abspath cwd p size junk m) = 0 ->
         cstr (cells (snd (abspath cwd p size junk m))) = out_of true k)
  end.
Proof.
  intros cs1 c cs2 size junk m Hok Hj Hs K1 Hc W2 Hne. cbn zeta. intros Hzc Hzp Ha Hfit.
  destruct (render_head_not_sep cs2 W2 Hne) as [Hpne Hph].
  (* the joined path *)
  assert (Hends : ends_sep ([47] ++ render cs1 ++ text c) = false).
  { destruct (ends_sep ([47] ++ render cs1 ++ text c)) eqn:E; [|reflexivity]. exfalso.
    apply ends_sep_spec in E. destruct E as (r & ch & E & Hch).
    destruct (text_last_not_sep c Hc) as (t & z & Et & Hz). rewrite Et in E.
    replace ([47] ++ render cs1 ++ t ++ [z]) with (([47] ++ render cs1 ++ t) ++ [z]) in E by (rewrite <- !app_assoc; reflexivity).
    apply app_inj_tail in E. destruct E as [_ E]. subst z. congruence. }
  assert (Hp47 : (nth 0 (render cs2) 0 =? 47) = false).
  { apply Z.eqb_neq. intro E. rewrite E in Hph. discriminate. }
  assert (Hjr : join_ref ([47] ++ render cs1 ++ text c) (render cs2) = [47] ++ render (cs1 ++ (c, [47]) :: cs2)).
  { unfold join_ref. rewrite Hends, Hp47, render_app, render_cons. rewrite <- !app_assoc. reflexivity. }
  assert (Wcs : wf_comps (cs1 ++ (c, [47]) :: cs2)).
  { apply wf_app; [exact K1|]. cbn [wf_comps]. split; [exact Hc|]. split; [left; exists 47; split; reflexivity|exact W2]. }
  assert (Hnzj : nonzero ([47] ++ render (cs1 ++ (c, [47]) :: cs2))).
  { rewrite <- Hjr. unfold join_ref. rewrite Hends, Hp47. apply Forall_app. split; [exact Hzc|].
    apply Forall_app. split; [constructor; [lia|constructor]|exact Hzp]. }
  destruct (abspath_rel_l _ _ size junk m Hok Hj Hzc Hzp Ha Hs) as [_ R]. cbn zeta in R. rewrite Hjr in R.
  assert (J : [47] ++ render cs1 ++ text c <> [] /\ render cs2 <> [] /\ render cs2 <> [47] /\
              zlen ([47] ++ render (cs1 ++ (c, [47]) :: cs2)) < MAX_PATH).
  { split; [discriminate|]. split; [exact Hpne|]. split; [|exact Hfit].
    intro E. rewrite E in Hp47. discriminate. }
  destruct (R J) as [R1 R2]. rewrite R1, R2.
  pose proof (normpath_algebra_l [47] true (cs1 ++ (c, [47]) :: cs2) size m
                ltac:(right; right; split; reflexivity) Wcs Hok Hnzj) as N. cbn zeta in N.
  destruct (resolve true [] (cs1 ++ (c, [47]) :: cs2)) as [k|]; [|exact N].
  destruct N as [N1 N2].
  assert (Hout : out_of true k <> []) by (unfold out_of, root; discriminate).
  assert (Hlen : (length (out_of true k) =? 0)%nat = false)
    by (apply Nat.eqb_neq; destruct (out_of true k); [congruence|discriminate]).
  rewrite Hlen in N2. split; [|exact N2].
  rewrite N1. split; [intros [A _]; exact A|intro A; split; [exact A|intro E; congruence]].
Qed.

(* non-vacuity: "a/bc/../../../x" -> "../x";  "/a/../.." is an error;  "./a/.." -> "./" *)
Example resolve_witness :
  let a := Name [97] in let bc := Name [98; 99] in let x := Name [120] in
  let sl := [47] in
  (match resolve false [] [(a, sl); (bc, sl); (Up, sl); (Up, sl); (Up, sl); (x, [])] with
   | Some k => out_of false k = [46; 46; 47; 120] | None => False end) /\
  resolve true [] [(a, sl); (Up, sl); (Up, [])] = None /\
  (match resolve false [] [(a, sl); (Up, [])] with Some k => out_of false k = [] | None => False end) /\
  fst (normpath [97; 47; 98; 99; 47; 46; 46; 47; 46; 46; 47; 46; 46; 47; 120] 16 (mkbuf (repeat 170 16%nat) false)) = 0 /\
  cstr (cells (snd (normpath [97; 47; 98; 99; 47; 46; 46; 47; 46; 46; 47; 46; 46; 47; 120] 16
                      (mkbuf (repeat 170 16%nat) false)))) = [46; 46; 47; 120].
Proof. vm_compute. repeat split; reflexivity. Qed.
