(* C20 — isabs against its reference; degenerate cases of count. *)
From MV Require Import C20.Model C20.ProofsStr.
Local Open Scope Z_scope.

Lemma isabs_spec_l : forall p,
  isabs p = true <->
  (1 < zlen p /\ nth 0 p 0 = 47) \/
  (2 < zlen p /\ is_alpha (nth 0 p 0) = true /\ nth 1 p 0 = 58 /\ is_sep (nth 2 p 0) = true).
Proof.
  intro p. unfold isabs.
  destruct ((1 <? zlen p) && (nth 0 p 0 =? 47)) eqn:A.
  - breflect. split; [intros _; left; split; assumption|reflexivity].
  - destruct ((2 <? zlen p) && is_alpha (nth 0 p 0) && (nth 1 p 0 =? 58) && is_sep (nth 2 p 0)) eqn:B.
    + breflect. split; [intros _; right; repeat split; assumption|reflexivity].
    + split; [discriminate|]. intros [[H1 H2]|(H1 & H2 & H3 & H4)].
      * apply Z.ltb_lt in H1. apply Z.eqb_eq in H2. rewrite H1, H2 in A. discriminate.
      * apply Z.ltb_lt in H1. apply Z.eqb_eq in H3. rewrite H1, H2, H3, H4 in B. discriminate.
Qed.

Lemma count_degenerate_l : forall s sub start end_,
  (sub = [] \/ start < 0 \/ end_ < 0 \/ zlen s <= start \/ norm_end (zlen s) end_ <= start) ->
  str_count s sub start end_ = 0.
Proof.
  intros s sub start end_ H. unfold str_count.
  destruct ((start <? 0) || (end_ <? 0)) eqn:A; [reflexivity|].
  destruct (start >=? zlen s) eqn:B; [reflexivity|].
  destruct (norm_end (zlen s) end_ <=? start) eqn:C; [reflexivity|].
  destruct (zlen sub =? 0) eqn:D; [reflexivity|]. breflect.
  destruct H as [->|[H|[H|[H|H]]]]; try lia. rewrite zlen_nil in D. lia.
Qed.
