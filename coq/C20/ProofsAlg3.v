(* C20 — join against its reference: p1, exactly one separator, p2 without its leading '/'. *)
From MV Require Import C20.Model C20.ProofsStr C20.ProofsPath C20.ProofsAlg2.
Local Open Scope Z_scope.

Definition ends_sep (p : list Z) : bool := endswith p [47] || endswith p [92].
Definition join_ref (p1 p2 : list Z) : list Z :=
  p1 ++ (if ends_sep p1 then [] else [47]) ++ (if nth 0 p2 0 =? 47 then tl p2 else p2).

(* ends_sep says: the last character is '/' or '\' *)
Lemma ends_sep_spec p : ends_sep p = true <-> exists r c, p = r ++ [c] /\ is_sep c = true.
Proof.
  unfold ends_sep. rewrite orb_true_iff, !endswith_spec_l. split.
  - intros [[[r H] _]|[[r H] _]]; exists r; [exists 47|exists 92]; split; try exact H; reflexivity.
  - intros (r & c & H & Hc). unfold is_sep in Hc. apply orb_true_iff in Hc.
    destruct Hc as [Hc|Hc]; apply Z.eqb_eq in Hc; subst c; [left|right];
      (split; [exists r; exact H|discriminate]).
Qed.

Lemma skipn_nonempty (l : list Z) n : (n < length l)%nat -> exists y r, skipn n l = y :: r.
Proof.
  intro H. destruct (skipn n l) as [|y r] eqn:E; [|exists y, r; reflexivity].
  apply (f_equal (@length Z)) in E. rewrite skipn_length in E. cbn in E. lia.
Qed.

Lemma nonzero_app (a b : list Z) : nonzero a -> nonzero b -> nonzero (a ++ b).
Proof. intros. apply Forall_app. split; assumption. Qed.

Lemma join_algebra_l : forall p1 p2 size m, ok m size -> nonzero p1 -> nonzero p2 ->
  (fst (join p1 p2 size m) = 0 <->
     p1 <> [] /\ p2 <> [] /\ p2 <> [47] /\ zlen (join_ref p1 p2) < size /\ 1 < size) /\
  (fst (join p1 p2 size m) = 0 -> cstr (cells (snd (join p1 p2 size m))) = join_ref p1 p2).
Proof.
  intros p1 p2 size m Hok Hz1 Hz2.
  pose proof (zlen_nonneg p1) as H10. pose proof (zlen_nonneg p2) as H20.
  set (p := if nth 0 p2 0 =? 47 then tl p2 else p2).
  set (sp := if ends_sep p1 then @nil Z else [47]).
  assert (Hjr : join_ref p1 p2 = p1 ++ sp ++ p) by reflexivity.
  assert (Hp : zlen p = if nth 0 p2 0 =? 47 then zlen p2 - 1 else zlen p2).
  { subst p. destruct (nth 0 p2 0 =? 47) eqn:E; [|reflexivity].
    destruct p2 as [|x r]; [cbn in E; discriminate|]. cbn [tl]. rewrite zlen_cons. lia. }
  assert (Hsp : zlen sp = if ends_sep p1 then 0 else 1) by (subst sp; destruct (ends_sep p1); reflexivity).
  assert (Hzp : nonzero p).
  { subst p. destruct (nth 0 p2 0 =? 47); [|exact Hz2]. destruct p2; [constructor|inversion Hz2; assumption]. }
  assert (Err : forall mm, (fst (EINVAL, mm) = 0 <-> False) /\ (fst (EINVAL, mm : buf) = 0 -> False))
    by (intro mm; cbn [fst]; unfold EINVAL; split; [split; [lia|tauto]|lia]).
  unfold join.
  destruct (size <=? 1) eqn:S1.
  { breflect. split; [split; [intro E; apply (Err m) in E; tauto|intros (_ & _ & _ & _ & HH); lia]|intro E; apply (Err m) in E; tauto]. }
  destruct ((zlen p1 <=? 0) || (zlen p2 <=? 0)) eqn:L0.
  { apply orb_true_iff in L0. split; [split; [intro E; apply (Err m) in E; tauto|]|intro E; apply (Err m) in E; tauto].
    intros (A & B & _). exfalso. destruct L0 as [L|L]; breflect; [apply A|apply B]; apply zlen_0; lia. }
  destruct (zlen p1 >? size - 1) eqn:G1.
  { breflect. split; [split; [intro E; apply (Err m) in E; tauto|]|intro E; apply (Err m) in E; tauto].
    intros (_ & _ & _ & HH & _). rewrite Hjr, !zlen_app in HH. pose proof (zlen_nonneg sp). pose proof (zlen_nonneg p). lia. }
  breflect.
  (* first copy and terminator *)
  set (m1 := strncpy_to m 0 p1 (Z.to_nat (size - 1))).
  assert (Hm1 : ok m1 size) by (apply strncpy_ok; [exact Hok|lia|lia]).
  assert (Hcm : length (cells m) = Z.to_nat size) by (destruct Hok as [Hs _]; unfold bsize, zlen in Hs; lia).
  assert (C1 : exists y r, cells m1 = p1 ++ y :: r).
  { subst m1. unfold strncpy_to.
    set (l := firstn (Z.to_nat (size - 1)) (p1 ++ repeat 0 (Z.to_nat (size - 1)))).
    assert (Hl : length l = Z.to_nat (size - 1)) by apply strncpy_len.
    rewrite (cells_wr_list l m size 0 Hok ltac:(lia) ltac:(unfold zlen; lia)).
    cbn [Z.to_nat firstn app Nat.add].
    assert (El : l = p1 ++ repeat 0 (Z.to_nat (size - 1) - length p1)).
    { subst l. rewrite firstn_app. rewrite firstn_all2 by (unfold zlen in *; lia). f_equal.
      rewrite firstn_repeat_z. f_equal. lia. }
    destruct (skipn_nonempty (cells m) (length l) ltac:(lia)) as (y & r & E). rewrite E, El, <- app_assoc.
    destruct (Z.to_nat (size - 1) - length p1)%nat; cbn [repeat app]; eexists; eexists; reflexivity. }
  destruct C1 as (y1 & r1 & C1).
  set (m2 := wr (zlen p1) 0 m1).
  assert (Hm2 : ok m2 size) by (apply wr_ok; [exact Hm1|lia]).
  assert (C2 : cells m2 = p1 ++ 0 :: r1).
  { subst m2. rewrite (cells_wr m1 size (zlen p1) 0 Hm1 ltac:(lia)), C1. unfold zlen. rewrite Nat2Z.id. apply upd_at_len. }
  assert (Hn2 : has_nul (cells m2) = true) by (eapply wr0_nul; [exact Hm1|lia|reflexivity]).
  rewrite (scan_ok m2 Hn2).
  assert (Hcs : cstr (cells m2) = p1) by (rewrite C2; apply cstr_app_nul; exact Hz1).
  rewrite Hcs. fold (ends_sep p1).
  assert (E1 : negb (ends_sep p1) && (zlen p1 >=? size) = false).
  { apply andb_false_iff. right. rewrite Z.geb_leb. apply Z.leb_gt. lia. }
  rewrite E1.
  set (m3 := if ends_sep p1 then m2 else wr (zlen p1) 47 m2).
  assert (Hm3 : ok m3 size) by (unfold m3; destruct (ends_sep p1); [exact Hm2|apply wr_ok; [exact Hm2|lia]]).
  set (pos := if ends_sep p1 then zlen p1 else zlen p1 + 1).
  assert (Hpos : pos = zlen p1 + zlen sp) by (unfold pos; rewrite Hsp; destruct (ends_sep p1); lia).
  destruct ((nth 0 p2 0 =? 47) && (zlen p2 =? 1)) eqn:E2.
  { breflect. split; [split; [intro E; apply (Err m3) in E; tauto|]|intro E; apply (Err m3) in E; tauto].
    intros (_ & _ & C & _). exfalso. apply C. destruct p2 as [|x [|x' r]]; cbn [nth] in *;
      [rewrite zlen_nil in *; lia|subst x; reflexivity|rewrite !zlen_cons in *; pose proof (zlen_nonneg r); lia]. }
  fold p. rewrite <- Hp.
  destruct (pos + zlen p >? size - 1) eqn:G2.
  { breflect. split; [split; [intro E; apply (Err m3) in E; tauto|]|intro E; apply (Err m3) in E; tauto].
    intros (_ & _ & _ & HH & _). rewrite Hjr, !zlen_app in HH. lia. }
  breflect. cbn [fst snd]. pose proof (zlen_nonneg p) as Hp0. pose proof (zlen_nonneg sp) as Hsp0.
  assert (Hne1 : p1 <> []) by (intro HH; apply (f_equal zlen) in HH; rewrite zlen_nil in HH; lia).
  assert (Hne2 : p2 <> []) by (intro HH; apply (f_equal zlen) in HH; rewrite zlen_nil in HH; lia).
  assert (Hne3 : p2 <> [47]) by (intro HH; rewrite HH in E2; vm_compute in E2; discriminate).
  split; [split; [intros _|reflexivity]|intros _].
  { split; [exact Hne1|split; [exact Hne2|split; [exact Hne3|split; [rewrite Hjr, !zlen_app; lia|lia]]]]. }
  (* the cells after the optional separator *)
  assert (Hc3 : length (cells m3) = Z.to_nat size) by (destruct Hm3 as [Hs _]; unfold bsize, zlen in Hs; lia).
  assert (C3 : firstn (Z.to_nat pos) (cells m3) = p1 ++ sp).
  { unfold m3, pos, sp. destruct (ends_sep p1).
    - rewrite C2, app_nil_r. unfold zlen. rewrite Nat2Z.id. apply firstn_app_len.
    - rewrite (cells_wr m2 size (zlen p1) 47 Hm2 ltac:(lia)), C2. unfold zlen. rewrite Nat2Z.id, upd_at_len.
      replace (Z.to_nat (Z.of_nat (length p1) + 1)) with (length (p1 ++ [47])) by (rewrite app_length; cbn [length]; lia).
      replace (p1 ++ 47 :: r1) with ((p1 ++ [47]) ++ r1) by (rewrite <- app_assoc; reflexivity). apply firstn_app_len. }
  assert (Hcp : firstn (Z.to_nat (zlen p)) (p ++ repeat 0 (Z.to_nat (zlen p))) = p).
  { unfold zlen. rewrite Nat2Z.id. apply firstn_app_len. }
  unfold strncpy_to. rewrite Hcp.
  assert (Hm4 : ok (wr_list pos p m3) size) by (apply wr_list_ok; [exact Hm3|lia|lia]).
  rewrite (cells_wr _ size (pos + zlen p) 0 Hm4 ltac:(lia)).
  rewrite (cells_wr_list p m3 size pos Hm3 ltac:(lia) ltac:(lia)), C3.
  destruct (skipn_nonempty (cells m3) (Z.to_nat pos + length p) ltac:(unfold zlen in *; lia)) as (y & r & E). rewrite E.
  replace ((p1 ++ sp) ++ p ++ y :: r) with ((p1 ++ sp ++ p) ++ y :: r) by (rewrite <- !app_assoc; reflexivity).
  replace (Z.to_nat (pos + zlen p)) with (length (p1 ++ sp ++ p)) by (rewrite !app_length; unfold zlen in *; lia).
  rewrite upd_at_len, Hjr. apply cstr_app_nul.
  apply nonzero_app; [exact Hz1|apply nonzero_app; [|exact Hzp]].
  unfold sp. destruct (ends_sep p1); constructor; [discriminate|constructor].
Qed.
