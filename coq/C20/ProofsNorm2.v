(* C20 — the component algebra: np_pure on a rendered component list resolves ".." against
   the preceding name, keeps a leading "../" chain, and fails above the root. *)
From MV Require Import C20.Model C20.ProofsStr C20.ProofsPath C20.ProofsAlg2 C20.ProofsAlg3 C20.ProofsAlg4 C20.ProofsNorm.
Local Open Scope Z_scope.

(* ---------- components ---------- *)
Inductive comp := Name (n : list Z) | Up.
Definition text (c : comp) : list Z := match c with Name n => n | Up => [46; 46] end.
Definition item := (comp * list Z)%type.          (* component and the separator behind it *)
Definition render (cs : list item) : list Z := concat (map (fun it : item => text (fst it) ++ snd it) cs).

(* a name: non-empty, no separator, no two adjacent dots (so it is not ".."), not "." *)
Definition name_ok (n : list Z) : Prop := n <> [] /\ nosep n /\ no_dd n /\ n <> [46].
Definition comp_ok (c : comp) : Prop := match c with Name n => name_ok n | Up => True end.
Definition sep_ok (s : list Z) : Prop := exists ch, s = [ch] /\ is_sep ch = true.

(* every component is followed by one separator, except possibly the last *)
Fixpoint wf_comps (cs : list item) : Prop :=
  match cs with
  | [] => True
  | (c, s) :: r => comp_ok c /\ (sep_ok s \/ (s = [] /\ r = [])) /\ wf_comps r
  end.

(* the reference algebra; kept is a stack (most recent first) *)
Fixpoint resolve (abs : bool) (kept : list item) (cs : list item) : option (list item) :=
  match cs with
  | [] => Some kept
  | (Name n, s) :: r => resolve abs ((Name n, s) :: kept) r
  | (Up, s) :: r =>
      match kept with
      | (Name _, _) :: k' => resolve abs k' r               (* ".." removes the preceding name *)
      | (Up, _) :: _ => resolve abs ((Up, s) :: kept) r      (* leading "../" chain grows *)
      | [] => if abs then None                               (* above the root *)
              else resolve abs [(Up, s)] r
      end
  end.

Definition root (abs : bool) : list Z := if abs then [47] else [].
Definition out_of (abs : bool) (kept : list item) : list Z := root abs ++ render (rev kept).
Definition kinv (kept : list item) : Prop := Forall (fun it : item => comp_ok (fst it) /\ sep_ok (snd it)) kept.

Lemma render_cons c s r : render ((c, s) :: r) = text c ++ s ++ render r.
Proof. unfold render. cbn [map concat fst snd]. rewrite <- app_assoc. reflexivity. Qed.

Lemma render_snoc l c s : render (l ++ [(c, s)]) = render l ++ text c ++ s.
Proof.
  unfold render. rewrite map_app, concat_app. cbn [map concat fst snd]. rewrite app_nil_r. reflexivity.
Qed.

Lemma out_of_cons abs c s k : out_of abs ((c, s) :: k) = out_of abs k ++ text c ++ s.
Proof. unfold out_of. cbn [rev]. rewrite render_snoc, <- app_assoc. reflexivity. Qed.

(* ---------- copying ---------- *)
Lemma np_pure_copy : forall l rest out, no_dd (l ++ [nth 0 rest 0]) ->
  np_pure (l ++ rest) out = np_pure rest (out ++ l).
Proof.
  induction l as [|c l IH]; intros rest out H; cbn [app].
  - rewrite app_nil_r. reflexivity.
  - cbn [app no_dd] in H. destruct H as [H1 H2]. cbn [np_pure].
    assert (E : nth 0 (l ++ rest) 0 = nth 0 (l ++ [nth 0 rest 0]) 0) by (destruct l; reflexivity).
    rewrite E, H1. rewrite (IH rest (out ++ [c]) H2), <- app_assoc. reflexivity.
Qed.

Lemma no_dd_app a : forall b, no_dd a -> no_dd b -> nth 0 b 0 <> 46 -> no_dd (a ++ b).
Proof.
  induction a as [|c a IH]; intros b Ha Hb Hn; cbn [app]; [exact Hb|].
  cbn [no_dd] in *. destruct Ha as [H1 H2]. split; [|apply IH; assumption].
  destruct a as [|c' a']; cbn [app nth] in *; [|exact H1].
  apply andb_false_iff. right. apply Z.eqb_neq. exact Hn.
Qed.

Lemma sep_not_dot ch : is_sep ch = true -> ch <> 46 /\ ch <> 0.
Proof. unfold is_sep. intro H. apply orb_true_iff in H. destruct H as [H|H]; apply Z.eqb_eq in H; lia. Qed.

Lemma no_dd_two_dots a : no_dd (a ++ [46; 46]) -> False.
Proof.
  induction a as [|c a IH]; cbn [app no_dd]; intros [H1 H2]; [cbn in H1; discriminate|exact (IH H2)].
Qed.

(* ---------- last_sep over an appended list ---------- *)
Lemma lsf_app a : forall b i acc,
  last_sep_from (a ++ b) i acc = last_sep_from b (i + zlen a) (last_sep_from a i acc).
Proof.
  induction a as [|c a IH]; intros b i acc; cbn [app last_sep_from].
  - rewrite zlen_nil, Z.add_0_r. reflexivity.
  - rewrite IH, zlen_cons. f_equal. lia.
Qed.

Lemma lsf_nosep b : forall i acc, nosep b -> last_sep_from b i acc = acc.
Proof.
  induction b as [|c b IH]; intros i acc H; cbn [last_sep_from]; [reflexivity|].
  inversion H as [|? ? Hc Hb']; subst. rewrite Hc. apply IH. exact Hb'.
Qed.

(* P is empty or ends with a separator *)
Definition ends_ok (P : list Z) : Prop := P = [] \/ exists P' ch, P = P' ++ [ch] /\ is_sep ch = true.

Lemma last_sep_behind P nm : ends_ok P -> nosep nm -> last_sep (P ++ nm) = zlen P - 1.
Proof.
  intros HP Hn. unfold last_sep. rewrite lsf_app, lsf_nosep by exact Hn.
  destruct HP as [->|(P' & ch & -> & Hc)]; [reflexivity|].
  rewrite lsf_app. cbn [last_sep_from]. rewrite Hc, zlen_app, zlen_cons, zlen_nil. lia.
Qed.

Lemma out_ends_ok abs kept : kinv kept -> ends_ok (out_of abs kept).
Proof.
  intro K. destruct kept as [|[c s] k].
  - unfold out_of, root. cbn. destruct abs; [right; exists [], 47; split; reflexivity|left; reflexivity].
  - inversion K as [|? ? HH _]; subst. destruct HH as [_ (ch & Hs & Hc)]. cbn [snd] in Hs. subst s.
    rewrite out_of_cons. right.
    exists (out_of abs k ++ text c), ch. split; [rewrite <- app_assoc; reflexivity|exact Hc].
Qed.

Lemma gz_app_r (P l : list Z) i : 0 <= i -> gz (P ++ l) (zlen P + i) = gz l i.
Proof.
  intro Hi. unfold gz, zlen. rewrite app_nth2 by lia. f_equal. lia.
Qed.

(* ---------- the ".." step on a rendered stack ---------- *)
Lemma dd_top_up abs k ch c2 : is_sep ch = true ->
  dd_pure (out_of abs ((Up, [ch]) :: k)) c2 =
  Some (out_of abs ((Up, [ch]) :: k) ++ 46 :: 46 :: (if c2 =? 0 then [] else [c2])).
Proof.
  intro Hc. rewrite out_of_cons. cbn [text app]. set (P := out_of abs k).
  unfold dd_pure. pose proof (zlen_nonneg P) as HP.
  assert (Hn : zlen (P ++ [46; 46; ch]) = zlen P + 3) by (rewrite zlen_app, !zlen_cons, zlen_nil; lia).
  rewrite Hn.
  assert (E0 : (zlen P + 3 =? 0) = false) by (apply Z.eqb_neq; lia). rewrite E0.
  replace (zlen P + 3 - 3) with (zlen P + 0) by lia. replace (zlen P + 3 - 2) with (zlen P + 1) by lia.
  replace (zlen P + 3 - 1) with (zlen P + 2) by lia. rewrite !gz_app_r by lia.
  assert (E3 : (zlen P + 3 >=? 3) = true) by (rewrite Z.geb_leb; apply Z.leb_le; lia). rewrite E3.
  change (gz [46; 46; ch] 0) with 46. change (gz [46; 46; ch] 1) with 46. change (gz [46; 46; ch] 2) with ch.
  rewrite Hc. reflexivity.
Qed.

Lemma dd_top_name abs k nm ch c2 : kinv k -> name_ok nm -> is_sep ch = true ->
  dd_pure (out_of abs ((Name nm, [ch]) :: k)) c2 = Some (out_of abs k).
Proof.
  intros K (Hne & Hns & Hdd & _) Hc. rewrite out_of_cons. cbn [text]. set (P := out_of abs k).
  pose proof (out_ends_ok abs k K) as HP. fold P in HP.
  pose proof (zlen_nonneg P) as HP0. pose proof (zlen_nonneg nm) as Hn0.
  assert (Hnm : 0 < zlen nm) by (destruct nm; [congruence|rewrite zlen_cons; pose proof (zlen_nonneg nm); lia]).
  set (Q := P ++ nm).
  assert (HQ : P ++ nm ++ [ch] = Q ++ [ch]) by (subst Q; rewrite <- app_assoc; reflexivity).
  rewrite HQ. unfold dd_pure.
  assert (HzQ : zlen Q = zlen P + zlen nm) by (subst Q; apply zlen_app).
  assert (Hn : zlen (Q ++ [ch]) = zlen Q + 1) by (rewrite zlen_app, zlen_cons, zlen_nil; lia).
  rewrite Hn.
  assert (E0 : (zlen Q + 1 =? 0) = false) by (apply Z.eqb_neq; lia). rewrite E0.
  (* the "../" test fails: the two characters before the separator are not both dots *)
  assert (T : (zlen Q + 1 >=? 3) && (gz (Q ++ [ch]) (zlen Q + 1 - 3) =? 46) && (gz (Q ++ [ch]) (zlen Q + 1 - 2) =? 46)
              && is_sep (gz (Q ++ [ch]) (zlen Q + 1 - 1)) = false).
  { destruct (zlen Q + 1 >=? 3) eqn:G3; [|reflexivity]. breflect. cbn [andb].
    destruct (gz (Q ++ [ch]) (zlen Q + 1 - 3) =? 46) eqn:A; [|reflexivity].
    destruct (gz (Q ++ [ch]) (zlen Q + 1 - 2) =? 46) eqn:B; [|reflexivity]. exfalso. breflect.
    destruct (exists_last Hne) as (nm' & z & Enm).
    assert (Bz : z = 46).
    { rewrite <- B. subst Q. rewrite Enm.
      replace ((P ++ nm' ++ [z]) ++ [ch]) with ((P ++ nm') ++ [z; ch]) by (rewrite <- !app_assoc; reflexivity).
      replace (zlen (P ++ nm' ++ [z]) + 1 - 2) with (zlen (P ++ nm') + 0)
        by (rewrite !zlen_app, zlen_cons, zlen_nil; lia).
      rewrite gz_app_r by lia. reflexivity. }
    destruct nm' as [|y0 nm0] eqn:En'.
    - (* one-character name: the character before it ends P, a separator *)
      cbn [app] in Enm. subst nm. rewrite zlen_cons, zlen_nil in HzQ.
      destruct HP as [HP|(P' & c' & HP & Hc')]; [rewrite HP, zlen_nil in HzQ; lia|].
      assert (c' = 46).
      { rewrite <- A. subst Q. rewrite HP.
        replace (((P' ++ [c']) ++ [z]) ++ [ch]) with (P' ++ [c'; z; ch]) by (rewrite <- !app_assoc; reflexivity).
        replace (zlen ((P' ++ [c']) ++ [z]) + 1 - 3) with (zlen P' + 0) by (rewrite !zlen_app, !zlen_cons, zlen_nil; lia).
        rewrite gz_app_r by lia. reflexivity. }
      subst c'. cbn in Hc'. discriminate.
    - (* longer name: its last two characters would be dots *)
      rewrite <- En' in *. assert (Hne' : nm' <> []) by (rewrite En'; discriminate).
      destruct (exists_last Hne') as (nm'' & y & Enm').
      assert (y = 46).
      { rewrite <- A. subst Q. rewrite Enm, Enm'.
        replace ((P ++ (nm'' ++ [y]) ++ [z]) ++ [ch]) with ((P ++ nm'') ++ [y; z; ch]) by (rewrite <- !app_assoc; reflexivity).
        replace (zlen (P ++ (nm'' ++ [y]) ++ [z]) + 1 - 3) with (zlen (P ++ nm'') + 0)
          by (rewrite !zlen_app, !zlen_cons, zlen_nil; lia).
        rewrite gz_app_r by lia. reflexivity. }
      subst y z. rewrite Enm, Enm', <- app_assoc in Hdd. cbn [app] in Hdd. exact (no_dd_two_dots _ Hdd). }
  rewrite T.
  replace (zlen Q + 1 - 1) with (zlen Q + 0) by lia. rewrite gz_app_r by lia.
  change (gz [ch] 0) with ch. rewrite Hc. cbn [negb].
  assert (E2 : (zlen Q + 1 - 2 <? 0) = false) by (apply Z.ltb_ge; lia). rewrite E2.
  replace (Z.to_nat (zlen Q + 1 - 2 + 1)) with (length Q) by (unfold zlen in *; lia).
  rewrite firstn_app_len. subst Q. rewrite (last_sep_behind P nm HP Hns).
  replace (Z.to_nat (zlen P - 1 + 1)) with (length P) by (unfold zlen; lia).
  rewrite <- app_assoc, firstn_app_len. reflexivity.
Qed.

Lemma dd_bottom abs c2 :
  dd_pure (out_of abs []) c2 =
  if abs then None else Some (out_of abs [] ++ 46 :: 46 :: (if c2 =? 0 then [] else [c2])).
Proof. destruct abs; reflexivity. Qed.

(* ---------- the algebra ---------- *)
Lemma np_pure_resolve abs : forall cs kept, wf_comps cs -> kinv kept ->
  np_pure (render cs) (out_of abs kept) =
  match resolve abs kept cs with Some k => Some (out_of abs k) | None => None end.
Proof.
  induction cs as [|[c s] r IH]; intros kept W K; [reflexivity|].
  destruct W as (Hc & Hs & Wr). rewrite render_cons.
  assert (Hx : nth 0 (s ++ render r) 0 <> 46 /\ (nth 0 (s ++ render r) 0 = 0 \/ is_sep (nth 0 (s ++ render r) 0) = true)).
  { destruct Hs as [(ch & -> & Hch)|[-> ->]]; cbn [app nth].
    - destruct (sep_not_dot ch Hch). split; [assumption|right; exact Hch].
    - cbn. split; [lia|left; reflexivity]. }
  destruct c as [nm|].
  - (* a name is copied with its separator *)
    cbn [text resolve].
    assert (Hcopy : np_pure (nm ++ s ++ render r) (out_of abs kept) =
                    np_pure (render r) (out_of abs kept ++ nm ++ s)).
    { replace (nm ++ s ++ render r) with ((nm ++ s) ++ render r) by (rewrite <- app_assoc; reflexivity).
      apply np_pure_copy.
      destruct Hc as (_ & _ & Hdd & _). rewrite <- app_assoc. apply no_dd_app; [exact Hdd| |].
      - destruct Hs as [(ch & -> & Hch)|[-> ->]]; cbn [app].
        + destruct (sep_not_dot ch Hch). cbn [no_dd nth]. split; [apply andb_false_iff; left; apply Z.eqb_neq; assumption|].
          split; [|exact I]. apply andb_false_iff. right. reflexivity.
        + cbn. split; [reflexivity|exact I].
      - destruct Hs as [(ch & -> & Hch)|[-> ->]]; cbn [app nth]; [destruct (sep_not_dot ch Hch); assumption|cbn; lia]. }
    rewrite Hcopy. replace (out_of abs kept ++ nm ++ s) with (out_of abs ((Name nm, s) :: kept)) by (rewrite out_of_cons; reflexivity).
    destruct Hs as [Hs|[-> ->]].
    + apply IH; [exact Wr|]. constructor; [split; [exact Hc|exact Hs]|exact K].
    + reflexivity.
  - (* ".." *)
    cbn [text app]. cbn [np_pure nth]. cbn [Z.eqb Pos.eqb andb].
    destruct Hx as [Hx1 Hx2].
    assert (Hchk : negb (nth 0 (s ++ render r) 0 =? 0) && negb (is_sep (nth 0 (s ++ render r) 0)) = false).
    { destruct Hx2 as [E|E]; rewrite E; [reflexivity|apply andb_false_r]. }
    rewrite Hchk.
    assert (Hc2 : (if nth 0 (s ++ render r) 0 =? 0 then @nil Z else [nth 0 (s ++ render r) 0]) = s).
    { destruct Hs as [(ch & -> & Hch)|[-> ->]]; cbn [app nth].
      - destruct (sep_not_dot ch Hch) as [_ N0]. apply Z.eqb_neq in N0. rewrite N0. reflexivity.
      - reflexivity. }
    assert (Push : forall k0, kinv k0 ->
        match (match s ++ render r with [] => Some (out_of abs ((Up, s) :: k0))
               | _ :: t2 => np_pure t2 (out_of abs ((Up, s) :: k0)) end) with
        | Some o => Some o | None => None end =
        match resolve abs ((Up, s) :: k0) r with Some k => Some (out_of abs k) | None => None end).
    { intros k0 K0. destruct Hs as [(ch & -> & Hch)|[-> ->]]; cbn [app].
      - rewrite IH; [destruct (resolve abs ((Up, [ch]) :: k0) r); reflexivity|exact Wr|].
        constructor; [split; [exact I|exists ch; split; [reflexivity|exact Hch]]|exact K0].
      - reflexivity. }
    assert (Tail : forall o, (match s ++ render r with [] => Some o | _ :: t2 => np_pure t2 o end) =
                             match s with [] => Some o | _ => np_pure (render r) o end).
    { intro o. destruct Hs as [(ch & -> & Hch)|[-> ->]]; reflexivity. }
    destruct kept as [|[[nm'|] s'] k'].
    + rewrite dd_bottom. cbn [resolve]. destruct abs; [reflexivity|].
      rewrite Hc2. replace (out_of false [] ++ 46 :: 46 :: s) with (out_of false [(Up, s)]) by (rewrite out_of_cons; reflexivity).
      specialize (Push [] ltac:(constructor)).
      destruct (s ++ render r) eqn:E.
      * exact Push.
      * transitivity (match np_pure l (out_of false [(Up, s)]) with Some o => Some o | None => None end);
          [destruct (np_pure l (out_of false [(Up, s)])); reflexivity|exact Push].
    + inversion K as [|? ? HH K']; subst. destruct HH as [Hn' (ch' & Hs' & Hch')]. cbn [fst snd] in *. subst s'.
      rewrite (dd_top_name abs k' nm' ch' _ K' Hn' Hch'). cbn [resolve].
      rewrite Tail. destruct Hs as [(ch & -> & Hch)|[-> ->]].
      * apply IH; [exact Wr|exact K'].
      * reflexivity.
    + inversion K as [|? ? HH K']; subst. destruct HH as [_ (ch' & Hs' & Hch')]. cbn [fst snd] in *. subst s'.
      rewrite (dd_top_up abs k' ch' _ Hch'). cbn [resolve].
      rewrite Hc2. replace (out_of abs ((Up, [ch']) :: k') ++ 46 :: 46 :: s) with (out_of abs ((Up, s) :: (Up, [ch']) :: k')) by (rewrite (out_of_cons abs Up s); reflexivity).
      specialize (Push ((Up, [ch']) :: k') K).
      destruct (s ++ render r) eqn:E.
      * exact Push.
      * transitivity (match np_pure l (out_of abs ((Up, s) :: (Up, [ch']) :: k')) with Some o => Some o | None => None end);
          [destruct (np_pure l (out_of abs ((Up, s) :: (Up, [ch']) :: k'))); reflexivity|exact Push].
Qed.
