From MV Require Import Lib.ExtractBase C20.Model.
From Coq Require Import ExtrOcamlBasic.
Extraction Language OCaml.
Extraction "c20_model" force_types model_npo2 swap16 swap32 swap64 operand as_int64
  strtol_model strtoul_model toi tou tol toul toll toull tofloat parse_c
  startswith endswith lstrip_idx rstrip_idx str_find str_count
  startswith_c endswith_c lstrip_idx_c rstrip_idx_c str_find_c str_count_c
  hex_to_byte hex_to_bytes hex_from_bytes
  mkbuf cstr has_nul isabs basename dirname join normpath abspath abspath_with.
