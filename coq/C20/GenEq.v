(* C20 — the functions regenerated from the C text by the leaf translator
   (coq/gen/Params_C20.v, rewritten on every run) equal the hand-written model.
   An edit of the C text of muggle_next_pow_of_2 / muggle_hex_to_byte / muggle_path_isabs breaks
   these lemmas directly. *)
From MV Require Import C20.Model gen.Params_C20.

Lemma gen_npo2_eq_l : forall x : N, gen_npo2 x = model_npo2 x.
Proof. intro x. reflexivity. Qed.

Lemma gen_hex_to_byte_eq_l : forall c : Z, gen_hex_to_byte c = hex_to_byte c.
Proof. intro c. reflexivity. Qed.

Lemma gen_isabs_eq_l : forall p : list Z, gen_isabs p = if isabs p then 1%Z else 0%Z.
Proof.
  intro p. unfold gen_isabs, isabs, is_alpha, is_sep, zlen. cbv zeta.
  match goal with |- context [if ?c then _ else _] => destruct c end; [reflexivity|].
  match goal with |- context [if ?c then _ else _] => destruct c end; reflexivity.
Qed.

(* the character test of the backwards separator scan in basename and in dirname *)
Lemma gen_basename_sep_eq_l : forall c : Z, gen_basename_sep c = is_sep c.
Proof. intro c. reflexivity. Qed.

Lemma gen_dirname_sep_eq_l : forall c : Z, gen_dirname_sep c = is_sep c.
Proof. intro c. reflexivity. Qed.
