(* C20 — the functions regenerated from the C text by the leaf translator
   (coq/gen/Params_C20.v, rewritten on every run) equal the hand-written model.
   An edit of the C text of muggle_next_pow_of_2 / muggle_hex_to_byte / muggle_path_isabs breaks
   these lemmas directly. *)
From MV Require Import C20.Model gen.Params_C20.

(* ---------- shape-independent treatment of the smearing chain ----------
   A chain  x |= x >> k1; x |= x >> k2; ...  (in any order, with any shifts, any number of
   statements) sets bit i iff some bit i+s of the argument is set, s ranging over the subset sums
   of the shifts.  Two chains with the same SET of subset sums compute the same function, for every
   x; the sets are compared by computation. *)
Section Smear.
Local Open Scope N_scope.

Definition smear_list (ks : list N) (x : N) : N := fold_left (fun y k => N.lor y (N.shiftr y k)) ks x.
Definition offs_step (S : list N) (k : N) : list N := S ++ map (N.add k) S.
Definition offsets (ks : list N) : list N := fold_left offs_step ks [0].
Definition hits (x i : N) (S : list N) : bool := existsb (fun s => N.testbit x (i + s)) S.
Definition subset (A B : list N) : bool := forallb (fun a => existsb (N.eqb a) B) A.

Lemma hits_step x i k S : hits x i (offs_step S k) = hits x i S || hits x (i + k) S.
Proof.
  unfold hits, offs_step. rewrite existsb_app. f_equal.
  induction S as [|s S IH]; cbn [map existsb]; [reflexivity|]. rewrite IH. f_equal. f_equal. lia.
Qed.

Lemma smear_bits_gen x ks : forall y S, (forall i, N.testbit y i = hits x i S) ->
  forall i, N.testbit (fold_left (fun y k => N.lor y (N.shiftr y k)) ks y) i = hits x i (fold_left offs_step ks S).
Proof.
  induction ks as [|k ks IH]; intros y S H i; cbn [fold_left]; [apply H|].
  apply IH. intro j. rewrite N.lor_spec, N.shiftr_spec', !H, hits_step. reflexivity.
Qed.

Lemma smear_bits ks x i : N.testbit (smear_list ks x) i = hits x i (offsets ks).
Proof.
  apply smear_bits_gen. intro j. unfold hits. cbn [existsb]. rewrite N.add_0_r, orb_false_r. reflexivity.
Qed.

Lemma hits_subset x i A B : subset A B = true -> hits x i A = true -> hits x i B = true.
Proof.
  unfold subset, hits. rewrite forallb_forall. intros H HA.
  apply existsb_exists in HA. destruct HA as (a & Ha & Hb).
  specialize (H a Ha). apply existsb_exists in H. destruct H as (b & Hb1 & Hb2). apply N.eqb_eq in Hb2. subst b.
  apply existsb_exists. exists a. split; assumption.
Qed.

Lemma smear_list_ext ks ks' x :
  subset (offsets ks) (offsets ks') && subset (offsets ks') (offsets ks) = true ->
  smear_list ks x = smear_list ks' x.
Proof.
  intro H. apply andb_true_iff in H. destruct H as [H1 H2].
  apply N.bits_inj. intro i. rewrite !smear_bits.
  destruct (hits x i (offsets ks)) eqn:A; destruct (hits x i (offsets ks')) eqn:B; try reflexivity.
  - rewrite (hits_subset x i _ _ H1 A) in B. discriminate.
  - rewrite (hits_subset x i _ _ H2 B) in A. discriminate.
Qed.
End Smear.

Ltac reify_smear t x :=
  lazymatch t with
  | x => constr:(@nil N)
  | N.lor ?a (N.shiftr ?a ?k) => let r := reify_smear a x in constr:((r ++ [k])%list)
  end.

(* both sides are  if <test> then x else (<smearing chain> + 1) mod 2^64  with the same test *)
Ltac npo2_semantic x :=
  cbv zeta;
  lazymatch goal with
  | |- (if ?t then _ else (?c + 1) mod _)%N = (if _ then _ else (?c' + 1) mod _)%N =>
      let ks := reify_smear c x in
      let ks' := reify_smear c' x in
      replace c with c'; [reflexivity|];
      change c' with (smear_list ks' x); change c with (smear_list ks x);
      apply smear_list_ext; vm_compute; reflexivity
  end.

Lemma gen_npo2_eq_l : forall x : N, gen_npo2 x = model_npo2 x.
Proof.
  intro x. first [reflexivity | unfold gen_npo2, model_npo2; npo2_semantic x].
Qed.

(* the semantic route exercised on every build: statements permuted, one shift split in two *)
Example npo2_shape_independent : forall x : N,
  (if (N.land x ((x + 18446744073709551616 - 1) mod 18446744073709551616) =? 0)
   then x
   else
     let x := N.lor x (N.shiftr x 32) in
     let x := N.lor x (N.shiftr x 1) in
     let x := N.lor x (N.shiftr x 8) in
     let x := N.lor x (N.shiftr x 1) in
     let x := N.lor x (N.shiftr x 16) in
     let x := N.lor x (N.shiftr x 4) in
     let x := N.lor x (N.shiftr x 1) in
     (x + 1) mod 18446744073709551616)%N = model_npo2 x.
Proof. intro x. unfold model_npo2. npo2_semantic x. Qed.

(* ---------- shape-independent treatment of the comparison chains ----------
   gen_hex_to_byte and gen_isabs only COMPARE their inputs (one character; the length and the first
   three characters) with constants.  The fallback proofs split the inputs into the regions delimited
   by the model's own constants (a fixed, small number of cases chosen here, not a case split driven
   by the generated term), decide every comparison atom of either side inside a region with lia, and
   finish by computation.  Any generated shape whose atoms compare the same quantities with the same
   constants is accepted: reordered tests, early returns, locals holding truth values (b2z / z2b). *)
Ltac decide_cmpZ :=
  repeat match goal with
  | |- context [(?a <=? ?b)%Z] => first
      [ replace (a <=? b)%Z with true by (symmetry; apply Z.leb_le; lia)
      | replace (a <=? b)%Z with false by (symmetry; apply Z.leb_gt; lia) ]
  | |- context [(?a <? ?b)%Z] => first
      [ replace (a <? b)%Z with true by (symmetry; apply Z.ltb_lt; lia)
      | replace (a <? b)%Z with false by (symmetry; apply Z.ltb_ge; lia) ]
  | |- context [(?a =? ?b)%Z] => first
      [ replace (a =? b)%Z with true by (symmetry; apply Z.eqb_eq; lia)
      | replace (a =? b)%Z with false by (symmetry; apply Z.eqb_neq; lia) ]
  | |- context [(?a >=? ?b)%Z] => rewrite (Z.geb_leb a b)
  | |- context [(?a >? ?b)%Z] => rewrite (Z.gtb_ltb a b)
  end.

Ltac hex_regions c :=
  let R := fresh "R" in
  assert (R : (c < 48 \/ 48 <= c <= 57 \/ 57 < c < 65 \/ 65 <= c <= 70 \/ 70 < c < 97 \/
               97 <= c <= 102 \/ 102 < c)%Z) by lia;
  destruct R as [R|[R|[R|[R|[R|[R|R]]]]]].

Ltac isabs_regions len c0 c1 c2 :=
  let RL := fresh "RL" in let R0 := fresh "R0" in let R1 := fresh "R1" in let R2 := fresh "R2" in
  assert (RL : (len <= 1 \/ len = 2 \/ 3 <= len)%Z) by lia;
  assert (R0 : (c0 < 47 \/ c0 = 47 \/ 47 < c0 < 65 \/ 65 <= c0 <= 90 \/ 90 < c0 < 97 \/
                97 <= c0 <= 122 \/ 122 < c0)%Z) by lia;
  assert (R1 : (c1 = 58 \/ c1 <> 58)%Z) by lia;
  assert (R2 : (c2 = 47 \/ c2 = 92 \/ (c2 <> 47 /\ c2 <> 92))%Z) by lia;
  destruct RL as [RL|[RL|RL]]; destruct R0 as [R0|[R0|[R0|[R0|[R0|[R0|R0]]]]]];
  destruct R1 as [R1|R1]; destruct R2 as [R2|[R2|R2]].

Lemma gen_hex_to_byte_eq_l : forall c : Z, gen_hex_to_byte c = hex_to_byte c.
Proof.
  intro c. first
  [ reflexivity
  | unfold gen_hex_to_byte, hex_to_byte; cbv zeta; hex_regions c; decide_cmpZ; cbv beta iota delta [andb orb negb];
    first [reflexivity | f_equal; lia] ].
Qed.

Lemma gen_isabs_eq_l : forall p : list Z, gen_isabs p = if isabs p then 1%Z else 0%Z.
Proof.
  intro p. first
  [ unfold gen_isabs, isabs, is_alpha, is_sep, zlen; cbv zeta;
    match goal with |- context [if ?c then _ else _] => destruct c end; [reflexivity|];
    match goal with |- context [if ?c then _ else _] => destruct c end; reflexivity
  | unfold gen_isabs, isabs, is_alpha, is_sep, zlen; cbv zeta;
    generalize (Z.of_nat (length p)) (nth 0 p 0%Z) (nth 1 p 0%Z) (nth 2 p 0%Z); intros len c0 c1 c2;
    isabs_regions len c0 c1 c2; decide_cmpZ; reflexivity ].
Qed.

(* the fallback routes exercised on every build: early return on the length, a local holding a
   truth value, the letter and separator tests written the other way round; a hex digit test with
   the branches reordered *)
Example isabs_shape_independent : forall p : list Z,
  (let len := Z.of_nat (length p) in
   if (1 <? len) && (nth 0 p 0 =? 47) then 1
   else if len <=? 2 then 0
   else let drive := nth 0 p 0 in
        let is_letter := if ((65 <=? drive) && (drive <=? 90)) || ((97 <=? drive) && (drive <=? 122)) then 1 else 0 in
        if (negb (is_letter =? 0)) && (nth 1 p 0 =? 58) && ((nth 2 p 0 =? 92) || (nth 2 p 0 =? 47)) then 1 else 0)%Z
  = if isabs p then 1%Z else 0%Z.
Proof.
  intro p. unfold isabs, is_alpha, is_sep, zlen; cbv zeta.
  generalize (Z.of_nat (length p)) (nth 0 p 0%Z) (nth 1 p 0%Z) (nth 2 p 0%Z); intros len c0 c1 c2.
  isabs_regions len c0 c1 c2; decide_cmpZ; reflexivity.
Qed.

Example hex_shape_independent : forall c : Z,
  (if (97 <=? c) && (c <=? 102) then (c - 87) mod 256
   else if (c <? 48) || (102 <? c) then 255
   else if c <=? 57 then (c - 48) mod 256
   else if (65 <=? c) && (c <=? 70) then (c - 55) mod 256 else 255)%Z = hex_to_byte c.
Proof.
  intro c. unfold hex_to_byte. hex_regions c; decide_cmpZ; cbv beta iota delta [andb orb negb]; first [reflexivity | f_equal; lia].
Qed.

(* the character test of the backwards separator scan in basename and in dirname *)
Lemma gen_basename_sep_eq_l : forall c : Z, gen_basename_sep c = is_sep c.
Proof. intro c. reflexivity. Qed.

Lemma gen_dirname_sep_eq_l : forall c : Z, gen_dirname_sep c = is_sep c.
Proof. intro c. reflexivity. Qed.
