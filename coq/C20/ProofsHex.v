(* C20 — hex encode/decode round trip and rejection; endian swaps are involutions. *)
From MV Require Import C20.Model C20.ProofsStr.

(* ================= hex ================= *)
Local Open Scope Z_scope.

Definition is_hex (c : Z) : Prop := 48 <= c <= 57 \/ 65 <= c <= 70 \/ 97 <= c <= 102.

Lemma hex_to_byte_valid c : is_hex c -> 0 <= hex_to_byte c < 16.
Proof.
  unfold is_hex, hex_to_byte. intros H.
  destruct ((48 <=? c) && (c <=? 57)) eqn:A; [breflect; rewrite Z.mod_small; lia|].
  destruct ((65 <=? c) && (c <=? 70)) eqn:B; [breflect; rewrite Z.mod_small; lia|].
  destruct ((97 <=? c) && (c <=? 102)) eqn:C; [breflect; rewrite Z.mod_small; lia|].
  exfalso. apply andb_false_iff in A, B, C.
  destruct H as [H|[H|H]]; [destruct A as [A|A]|destruct B as [B|B]|destruct C as [C|C]]; breflect; lia.
Qed.

Lemma hex_to_byte_invalid c : ~ is_hex c -> hex_to_byte c = 255.
Proof.
  unfold is_hex, hex_to_byte. intros H.
  destruct ((48 <=? c) && (c <=? 57)) eqn:A; [breflect; exfalso; apply H; lia|].
  destruct ((65 <=? c) && (c <=? 70)) eqn:B; [breflect; exfalso; apply H; lia|].
  destruct ((97 <=? c) && (c <=? 102)) eqn:C; [breflect; exfalso; apply H; lia|].
  reflexivity.
Qed.

Lemma is_hex_dec c : {is_hex c} + {~ is_hex c}.
Proof.
  unfold is_hex.
  destruct (Z_le_dec 48 c), (Z_le_dec c 57), (Z_le_dec 65 c), (Z_le_dec c 70), (Z_le_dec 97 c), (Z_le_dec c 102);
    try (left; lia); right; lia.
Qed.

(* decoding succeeds exactly when the first 2n characters are hex digits (rejection of non-hex) *)
Lemma hex_to_bytes_accepts_l : forall n hex, (2 * n <= length hex)%nat ->
  ((exists out, hex_to_bytes hex n = Some out /\ length out = n) <-> Forall is_hex (firstn (2 * n) hex)).
Proof.
  induction n as [|n IH]; intros hex Hl.
  - change (2 * 0)%nat with 0%nat. destruct hex; cbn [firstn hex_to_bytes]; (split; [intros _; apply Forall_nil|intros _; exists []; split; reflexivity]).
  - destruct hex as [|h [|l r]]; cbn [length] in Hl; try lia.
    replace (2 * S n)%nat with (S (S (2 * n))) by lia. cbn [firstn hex_to_bytes].
    specialize (IH r ltac:(lia)).
    destruct (is_hex_dec h) as [Hh|Hh]; destruct (is_hex_dec l) as [Hl'|Hl'].
    + pose proof (hex_to_byte_valid h Hh). pose proof (hex_to_byte_valid l Hl').
      assert (E : (hex_to_byte h =? 255) || (hex_to_byte l =? 255) = false)
        by (apply orb_false_iff; split; apply Z.eqb_neq; lia).
      rewrite E. split.
      * intros (out & Ho & Hlen). destruct (hex_to_bytes r n) as [o|] eqn:R; [|discriminate].
        inversion Ho; subst out. cbn [length] in Hlen.
        constructor; [exact Hh|]. constructor; [exact Hl'|]. apply IH. exists o. split; [reflexivity|lia].
      * intro F. inversion F as [|? ? _ F1]; subst. inversion F1 as [|? ? _ F2]; subst.
        apply IH in F2. destruct F2 as (o & Ho & Hlen). rewrite Ho. eexists. split; [reflexivity|]. cbn [length]. lia.
    + rewrite (hex_to_byte_invalid l Hl'), Z.eqb_refl, orb_true_r. split.
      * intros (out & Ho & _). discriminate.
      * intro F. inversion F as [|? ? _ F1]; subst. inversion F1; subst. contradiction.
    + rewrite (hex_to_byte_invalid h Hh), Z.eqb_refl. cbn [orb]. split.
      * intros (out & Ho & _). discriminate.
      * intro F. inversion F; subst. contradiction.
    + rewrite (hex_to_byte_invalid h Hh), Z.eqb_refl. cbn [orb]. split.
      * intros (out & Ho & _). discriminate.
      * intro F. inversion F; subst. contradiction.
Qed.

(* per byte: a complete sweep over 0..255, lifted *)
Definition byte_rt (x : Z) : bool :=
  let h := hex_digit (x / 16) in
  let l := hex_digit (x mod 16) in
  negb ((hex_to_byte h =? 255) || (hex_to_byte l =? 255))
  && ((Z.lor (Z.shiftl (hex_to_byte h) 4) (hex_to_byte l)) mod 256 =? x).

Lemma byte_rt_sweep : forallb byte_rt (map Z.of_nat (seq 0 256)) = true.
Proof. vm_compute. reflexivity. Qed.

Lemma byte_rt_all x : 0 <= x < 256 -> byte_rt x = true.
Proof.
  intro H. pose proof byte_rt_sweep as S. rewrite forallb_forall in S. apply S.
  apply in_map_iff. exists (Z.to_nat x). split; [lia|]. apply in_seq. lia.
Qed.

Lemma hex_roundtrip_l : forall b, Forall (fun x => 0 <= x < 256) b ->
  hex_to_bytes (hex_from_bytes b) (length b) = Some b.
Proof.
  induction b as [|x b IH]; intro F; [reflexivity|].
  inversion F as [|? ? Hx Fb]; subst. cbn [hex_from_bytes length hex_to_bytes].
  pose proof (byte_rt_all x Hx) as R. unfold byte_rt in R. cbv zeta in R.
  apply andb_true_iff in R. destruct R as [R1 R2]. apply negb_true_iff in R1. rewrite R1.
  rewrite (IH Fb). apply Z.eqb_eq in R2. rewrite R2. reflexivity.
Qed.

Lemma hex_from_bytes_length b : length (hex_from_bytes b) = (2 * length b)%nat.
Proof. induction b as [|x b IH]; [reflexivity|]. cbn [hex_from_bytes length]. lia. Qed.

(* ================= endian swaps ================= *)
Local Open Scope N_scope.

Lemma ones_bits n k : N.testbit (N.ones n) k = (k <? n).
Proof.
  destruct (N.ltb_spec k n); [apply N.ones_spec_low|apply N.ones_spec_high]; lia.
Qed.

Lemma mask_bits a j : N.testbit (N.shiftl 255 a) j = (a <=? j) && (j - a <? 8).
Proof.
  destruct (N.leb_spec a j).
  - rewrite N.shiftl_spec_high' by lia. change 255 with (N.ones 8). rewrite ones_bits. reflexivity.
  - rewrite N.shiftl_spec_low by lia. reflexivity.
Qed.

Lemma bit_shl v a k i :
  N.testbit (N.shiftl (N.land v (N.shiftl 255 a)) k) i =
  (k <=? i) && (N.testbit v (i - k) && ((a <=? i - k) && (i - k - a <? 8))).
Proof.
  destruct (N.leb_spec k i).
  - rewrite N.shiftl_spec_high' by lia. rewrite N.land_spec, mask_bits. reflexivity.
  - rewrite N.shiftl_spec_low by lia. reflexivity.
Qed.

Lemma bit_shr v a k i :
  N.testbit (N.shiftr (N.land v (N.shiftl 255 a)) k) i =
  N.testbit v (i + k) && ((a <=? i + k) && (i + k - a <? 8)).
Proof. rewrite N.shiftr_spec', N.land_spec, mask_bits. reflexivity. Qed.

Lemma high_bits v n i : v < 2 ^ n -> n <= i -> N.testbit v i = false.
Proof.
  intros Hv Hi. destruct (N.eq_dec v 0) as [->|NZ]; [apply N.bits_0|].
  apply N.bits_above_log2. assert (N.log2 v < n) by (apply N.log2_lt_pow2; lia). lia.
Qed.

Ltac decide_cmp :=
  repeat match goal with
  | |- context [(?a <=? ?b)] => first
      [ replace (a <=? b) with true by (symmetry; apply N.leb_le; lia)
      | replace (a <=? b) with false by (symmetry; apply N.leb_gt; lia) ]
  | |- context [(?a <? ?b)] => first
      [ replace (a <? b) with true by (symmetry; apply N.ltb_lt; lia)
      | replace (a <? b) with false by (symmetry; apply N.ltb_ge; lia) ]
  end.

Ltac simp_bool :=
  cbv beta iota;
  repeat rewrite ?andb_true_r, ?andb_true_l, ?andb_false_r, ?andb_false_l,
                 ?orb_false_r, ?orb_false_l, ?orb_true_r, ?orb_true_l.

Ltac finish_bits := decide_cmp; simp_bool; try reflexivity; try (f_equal; lia).

(* ----- 16 ----- *)
Definition sigma16 (i : N) : N := if i <? 8 then i + 8 else i - 8.

Lemma swap16_norm v : swap16 v =
  N.lor (N.shiftl (N.land v (N.shiftl 255 0)) 8) (N.shiftr (N.land v (N.shiftl 255 8)) 8).
Proof. reflexivity. Qed.

Lemma swap16_bits v i : N.testbit (swap16 v) i = (i <? 16) && N.testbit v (sigma16 i).
Proof.
  rewrite swap16_norm, N.lor_spec, bit_shl, bit_shr. unfold sigma16.
  destruct (N.ltb_spec i 8); [|destruct (N.ltb_spec i 16)]; finish_bits.
Qed.

Lemma swap16_involutive_l : forall v, v < 2 ^ 16 -> swap16 (swap16 v) = v.
Proof.
  intros v Hv. apply N.bits_inj; intro i. rewrite !swap16_bits.
  destruct (N.ltb_spec i 16) as [Hi|Hi]; cbn [andb].
  - unfold sigma16. destruct (N.ltb_spec i 8); finish_bits.
  - symmetry. apply (high_bits v 16); assumption.
Qed.

(* ----- 32 ----- *)
Definition sigma32 (i : N) : N :=
  if i <? 8 then i + 24 else if i <? 16 then i + 8 else if i <? 24 then i - 8 else i - 24.

Lemma swap32_norm v : swap32 v =
  N.lor (N.lor (N.lor
    (N.shiftl (N.land v (N.shiftl 255 0)) 24)
    (N.shiftl (N.land v (N.shiftl 255 8)) 8))
    (N.shiftr (N.land v (N.shiftl 255 16)) 8))
    (N.shiftr (N.land v (N.shiftl 255 24)) 24).
Proof. reflexivity. Qed.

Lemma swap32_bits v i : N.testbit (swap32 v) i = (i <? 32) && N.testbit v (sigma32 i).
Proof.
  rewrite swap32_norm, !N.lor_spec, !bit_shl, !bit_shr. unfold sigma32.
  destruct (N.ltb_spec i 8); [|destruct (N.ltb_spec i 16); [|destruct (N.ltb_spec i 24); [|destruct (N.ltb_spec i 32)]]];
    finish_bits.
Qed.

Lemma swap32_involutive_l : forall v, v < 2 ^ 32 -> swap32 (swap32 v) = v.
Proof.
  intros v Hv. apply N.bits_inj; intro i. rewrite !swap32_bits.
  destruct (N.ltb_spec i 32) as [Hi|Hi]; cbn [andb].
  - unfold sigma32.
    destruct (N.ltb_spec i 8); [|destruct (N.ltb_spec i 16); [|destruct (N.ltb_spec i 24)]]; finish_bits.
  - symmetry. apply (high_bits v 32); assumption.
Qed.

(* ----- 64 ----- *)
Definition sigma64 (i : N) : N :=
  if i <? 8 then i + 56 else if i <? 16 then i + 40 else if i <? 24 then i + 24 else if i <? 32 then i + 8
  else if i <? 40 then i - 8 else if i <? 48 then i - 24 else if i <? 56 then i - 40 else i - 56.

Lemma swap64_norm v : swap64 v =
  N.lor (N.lor (N.lor (N.lor (N.lor (N.lor (N.lor
    (N.shiftl (N.land v (N.shiftl 255 0)) 56)
    (N.shiftl (N.land v (N.shiftl 255 8)) 40))
    (N.shiftl (N.land v (N.shiftl 255 16)) 24))
    (N.shiftl (N.land v (N.shiftl 255 24)) 8))
    (N.shiftr (N.land v (N.shiftl 255 32)) 8))
    (N.shiftr (N.land v (N.shiftl 255 40)) 24))
    (N.shiftr (N.land v (N.shiftl 255 48)) 40))
    (N.shiftr (N.land v (N.shiftl 255 56)) 56).
Proof. reflexivity. Qed.

Lemma swap64_bits v i : N.testbit (swap64 v) i = (i <? 64) && N.testbit v (sigma64 i).
Proof.
  rewrite swap64_norm, !N.lor_spec, !bit_shl, !bit_shr. unfold sigma64.
  destruct (N.ltb_spec i 8); [|destruct (N.ltb_spec i 16); [|destruct (N.ltb_spec i 24); [|destruct (N.ltb_spec i 32);
   [|destruct (N.ltb_spec i 40); [|destruct (N.ltb_spec i 48); [|destruct (N.ltb_spec i 56); [|destruct (N.ltb_spec i 64)]]]]]]];
    finish_bits.
Qed.

Lemma swap64_involutive_l : forall v, v < 2 ^ 64 -> swap64 (swap64 v) = v.
Proof.
  intros v Hv. apply N.bits_inj; intro i. rewrite !swap64_bits.
  destruct (N.ltb_spec i 64) as [Hi|Hi]; cbn [andb].
  - unfold sigma64.
    destruct (N.ltb_spec i 8); [|destruct (N.ltb_spec i 16); [|destruct (N.ltb_spec i 24); [|destruct (N.ltb_spec i 32);
     [|destruct (N.ltb_spec i 40); [|destruct (N.ltb_spec i 48); [|destruct (N.ltb_spec i 56)]]]]]];
      finish_bits.
  - symmetry. apply (high_bits v 64); assumption.
Qed.

(* the swaps are functions INTO [0, 2^n), for every argument (no high bits survive the masks) *)
Lemma below_pow2_of_bits a n : (forall i, n <= i -> N.testbit a i = false) -> a < 2 ^ n.
Proof.
  intro H. destruct (N.eq_dec a 0) as [->|NZ].
  - assert (2 ^ n <> 0) by (apply N.pow_nonzero; lia). lia.
  - apply N.log2_lt_pow2; [lia|].
    destruct (N.lt_ge_cases (N.log2 a) n) as [L|G]; [exact L|].
    pose proof (N.bit_log2 a NZ) as B. rewrite (H _ G) in B. discriminate.
Qed.

Lemma swap16_range_l : forall v, swap16 v < 2 ^ 16.
Proof.
  intro v. apply below_pow2_of_bits. intros i Hi. rewrite swap16_bits.
  replace (i <? 16) with false by (symmetry; apply N.ltb_ge; exact Hi). reflexivity.
Qed.

Lemma swap32_range_l : forall v, swap32 v < 2 ^ 32.
Proof.
  intro v. apply below_pow2_of_bits. intros i Hi. rewrite swap32_bits.
  replace (i <? 32) with false by (symmetry; apply N.ltb_ge; exact Hi). reflexivity.
Qed.

Lemma swap64_range_l : forall v, swap64 v < 2 ^ 64.
Proof.
  intro v. apply below_pow2_of_bits. intros i Hi. rewrite swap64_bits.
  replace (i <? 64) with false by (symmetry; apply N.ltb_ge; exact Hi). reflexivity.
Qed.

Example swap_witnesses :
  swap16 258 = 513 /\ swap32 16909060 = 67305985 /\ swap64 72623859790382856 = 578437695752307201.
Proof. vm_compute. repeat split; reflexivity. Qed.
