(* C20 — path functions: no cell outside the caller's buffer is written or read
   (path_no_overflow) and every success leaves a NUL inside the buffer
   (path_terminated), for ALL inputs and ALL sizes. *)
From MV Require Import C20.Model C20.ProofsStr.
Local Open Scope Z_scope.

(* the buffer has exactly [size] cells and nothing outside has been touched *)
Definition ok (m : buf) (size : Z) : Prop := bsize m = size /\ oob m = false.

Lemma upd_length i x l : length (upd i x l) = length l.
Proof. revert i; induction l as [|a l IH]; intros [|i]; cbn [upd length]; auto. Qed.

Lemma wr_ok m size i x : ok m size -> 0 <= i < size -> ok (wr i x m) size.
Proof.
  intros [Hs Ho] Hi. unfold wr, inb. rewrite Hs.
  assert (E : (0 <=? i) && (i <? size) = true) by (apply andb_true_iff; split; [apply Z.leb_le|apply Z.ltb_lt]; lia).
  rewrite E. split; [|exact Ho]. unfold bsize, zlen in *. cbn [cells]. rewrite upd_length. exact Hs.
Qed.

Lemma rdchk_ok m size i : ok m size -> 0 <= i < size -> rdchk i m = m.
Proof.
  intros [Hs Ho] Hi. unfold rdchk, inb. rewrite Hs.
  assert (E : (0 <=? i) && (i <? size) = true) by (apply andb_true_iff; split; [apply Z.leb_le|apply Z.ltb_lt]; lia).
  rewrite E. reflexivity.
Qed.

Lemma wr_list_ok l : forall m size off, ok m size -> 0 <= off -> off + zlen l <= size -> ok (wr_list off l m) size.
Proof.
  induction l as [|x l IH]; intros m size off Hok Hoff Hle; cbn [wr_list]; [exact Hok|].
  rewrite zlen_cons in Hle. pose proof (zlen_nonneg l).
  apply IH; [apply wr_ok; [exact Hok|lia]|lia|lia].
Qed.

Lemma strncpy_len (src : list Z) n : length (firstn n (src ++ repeat 0 n)) = n.
Proof. rewrite firstn_length, app_length, repeat_length. lia. Qed.

Lemma strncpy_ok m size off src n : ok m size -> 0 <= off -> off + Z.of_nat n <= size ->
  ok (strncpy_to m off src n) size.
Proof.
  intros Hok Hoff Hle. unfold strncpy_to. apply wr_list_ok; [exact Hok|exact Hoff|].
  unfold zlen. rewrite strncpy_len. exact Hle.
Qed.

Lemma upd_nul i l : (i < length l)%nat -> has_nul (upd i 0 l) = true.
Proof.
  revert i; induction l as [|a l IH]; intros [|i] H; cbn [length] in H; try lia; cbn [upd has_nul existsb].
  - reflexivity.
  - apply orb_true_iff. right. apply IH. lia.
Qed.

Lemma wr0_nul m size i x : ok m size -> 0 <= i < size -> x = 0 -> has_nul (cells (wr i x m)) = true.
Proof.
  intros [Hs Ho] Hi ->. unfold wr, inb. rewrite Hs.
  assert (E : (0 <=? i) && (i <? size) = true) by (apply andb_true_iff; split; [apply Z.leb_le|apply Z.ltb_lt]; lia).
  rewrite E. cbn [cells]. apply upd_nul. unfold bsize, zlen in Hs. lia.
Qed.

Lemma scan_ok m : has_nul (cells m) = true -> scan_nul m = m.
Proof. intro H. unfold scan_nul. rewrite H. reflexivity. Qed.

Definition safe (r : Z * buf) (size : Z) : Prop :=
  ok (snd r) size /\ (fst r = 0 -> has_nul (cells (snd r)) = true).

Lemma safe_err m size : ok m size -> safe (EINVAL, m) size.
Proof. intro H. split; [exact H|]. cbn [fst]. unfold EINVAL. discriminate. Qed.

Lemma safe_nul m size i : ok m size -> 0 <= i < size -> safe (0, wr i 0 m) size.
Proof.
  intros H Hi. split; cbn [fst snd]; [apply wr_ok; assumption|]. intros _. eapply wr0_nul; eauto.
Qed.

Lemma last_sep_from_bounds p : forall i acc, -1 <= acc < i -> -1 <= last_sep_from p i acc < i + zlen p.
Proof.
  induction p as [|c p IH]; intros i acc H; cbn [last_sep_from].
  - rewrite zlen_nil. lia.
  - rewrite zlen_cons. destruct (is_sep c); [specialize (IH (i + 1) i)|specialize (IH (i + 1) acc)]; lia.
Qed.

Lemma last_sep_bounds p : -1 <= last_sep p < zlen p.
Proof. unfold last_sep. pose proof (last_sep_from_bounds p 0 (-1)). lia. Qed.

(* ---------- basename ---------- *)
Lemma basename_safe p size m : ok m size -> safe (basename p size m) size.
Proof.
  intro Hok. unfold basename.
  destruct (size <=? 1) eqn:S1; [apply safe_err; exact Hok|].
  destruct (zlen p <=? 0) eqn:T0; [apply safe_err; exact Hok|].
  pose proof (last_sep_bounds p) as LB. breflect.
  destruct (last_sep p <? 0) eqn:P0.
  - destruct (zlen p >? size - 1) eqn:G; [apply safe_err; exact Hok|]. breflect.
    apply safe_nul; [|lia]. apply strncpy_ok; [exact Hok|lia|lia].
  - destruct (zlen p - 1 - last_sep p <=? 0) eqn:L0; [apply safe_err; exact Hok|].
    destruct (zlen p - 1 - last_sep p >=? size) eqn:L1; [apply safe_err; exact Hok|]. breflect.
    apply safe_nul; [|lia]. apply wr_list_ok; [exact Hok|lia|].
    unfold zlen in *. rewrite firstn_length. lia.
Qed.

(* ---------- dirname ---------- *)
Lemma dirname_safe p size m : ok m size -> safe (dirname p size m) size.
Proof.
  intro Hok. unfold dirname.
  destruct (size <=? 1) eqn:S1; [apply safe_err; exact Hok|].
  destruct (zlen p <=? 0) eqn:T0; [apply safe_err; exact Hok|].
  pose proof (last_sep_bounds p) as LB. breflect.
  destruct (last_sep p <? 0) eqn:P0; [apply safe_err; exact Hok|]. breflect.
  set (pos1 := if last_sep p =? 0 then 1 else last_sep p).
  set (pos2 := if (pos1 - 1 >? 0) && (nth (Z.to_nat (pos1 - 1)) p 0 =? 58) then pos1 + 1 else pos1).
  assert (0 <= pos2).
  { subst pos2 pos1. destruct (last_sep p =? 0) eqn:E; breflect;
      destruct ((_ - 1 >? 0) && _); lia. }
  destruct (pos2 >=? size) eqn:G; [apply safe_err; exact Hok|]. breflect.
  apply safe_nul; [|lia]. apply wr_list_ok; [exact Hok|lia|].
  unfold zlen in *. rewrite firstn_length. lia.
Qed.

(* ---------- join ---------- *)
Lemma join_safe p1 p2 size m : ok m size -> safe (join p1 p2 size m) size.
Proof.
  intro Hok. unfold join.
  destruct (size <=? 1) eqn:S1; [apply safe_err; exact Hok|].
  destruct ((zlen p1 <=? 0) || (zlen p2 <=? 0)) eqn:L0; [apply safe_err; exact Hok|].
  destruct (zlen p1 >? size - 1) eqn:G1; [apply safe_err; exact Hok|]. breflect.
  set (m1 := strncpy_to m 0 p1 (Z.to_nat (size - 1))).
  assert (Hm1 : ok m1 size) by (apply strncpy_ok; [exact Hok|lia|lia]).
  set (m2 := wr (zlen p1) 0 m1).
  assert (Hm2 : ok m2 size) by (apply wr_ok; [exact Hm1|lia]).
  assert (Hn2 : has_nul (cells m2) = true) by (eapply wr0_nul; [exact Hm1|lia|reflexivity]).
  rewrite (scan_ok m2 Hn2).
  set (ends := endswith (cstr (cells m2)) [47] || endswith (cstr (cells m2)) [92]).
  destruct (negb ends && (zlen p1 >=? size)) eqn:E1; [apply safe_err; exact Hm2|].
  set (m3 := if ends then m2 else wr (zlen p1) 47 m2).
  assert (Hm3 : ok m3 size) by (subst m3; destruct ends; [exact Hm2|apply wr_ok; [exact Hm2|lia]]).
  set (pos := if ends then zlen p1 else zlen p1 + 1).
  assert (Hpos : zlen p1 <= pos <= zlen p1 + 1) by (subst pos; destruct ends; lia).
  destruct ((nth 0 p2 0 =? 47) && (zlen p2 =? 1)) eqn:E2; [apply safe_err; exact Hm3|].
  set (l2 := if nth 0 p2 0 =? 47 then zlen p2 - 1 else zlen p2).
  assert (Hl2 : 0 <= l2) by (subst l2; destruct (nth 0 p2 0 =? 47); lia).
  destruct (pos + l2 >? size - 1) eqn:G2; [apply safe_err; exact Hm3|]. breflect.
  apply safe_nul; [|lia]. apply strncpy_ok; [exact Hm3|lia|lia].
Qed.

(* ---------- normpath ---------- *)
Lemma np_finish_safe size pos m : ok m size -> 0 <= pos < size -> safe (np_finish size pos m) size.
Proof.
  intros Hok Hp. unfold np_finish.
  destruct (pos =? 0) eqn:P0.
  - destruct (size <=? 2) eqn:S2; [apply safe_err; exact Hok|]. breflect.
    apply safe_nul; [|lia]. apply wr_ok; [apply wr_ok; [exact Hok|lia]|lia].
  - apply safe_nul; assumption.
Qed.

Lemma np_dotdot_ok pos c2 m size pos' m' :
  np_dotdot pos c2 m = Some (pos', m') -> ok m size -> 0 <= pos ->
  pos + (if c2 =? 0 then 2 else 3) <= size ->
  ok m' size /\ 0 <= pos' <= pos + (if c2 =? 0 then 2 else 3).
Proof.
  intros H Hok Hp Hb. unfold np_dotdot in H.
  assert (App : forall m0, ok m0 size ->
            (if c2 =? 0 then Some (pos + 2, wr (pos + 1) 46 (wr pos 46 m0))
             else Some (pos + 3, wr (pos + 2) c2 (wr (pos + 1) 46 (wr pos 46 m0)))) = Some (pos', m') ->
            ok m' size /\ 0 <= pos' <= pos + (if c2 =? 0 then 2 else 3)).
  { intros m0 H0 E. destruct (c2 =? 0); inversion E; subst; (split; [|lia]).
    - apply wr_ok; [apply wr_ok; [exact H0|lia]|lia].
    - apply wr_ok; [apply wr_ok; [apply wr_ok; [exact H0|lia]|lia]|lia]. }
  destruct (pos =? 0) eqn:P0; [apply (App m Hok); exact H|]. breflect.
  assert (Hm1 : (if pos >=? 3 then rdchk (pos - 1) (rdchk (pos - 2) (rdchk (pos - 3) m)) else m) = m).
  { destruct (pos >=? 3) eqn:P3; [|reflexivity]. breflect.
    assert (c2size : pos < size) by (destruct (c2 =? 0); lia).
    rewrite (rdchk_ok m size (pos - 3) Hok) by lia. rewrite (rdchk_ok m size (pos - 2) Hok) by lia.
    apply (rdchk_ok m size); [exact Hok|lia]. }
  rewrite Hm1 in H.
  destruct ((pos >=? 3) && (get (pos - 3) m =? 46) && (get (pos - 2) m =? 46) && is_sep (get (pos - 1) m)) eqn:C3;
    [apply (App m Hok); exact H|].
  assert (c2size : pos < size) by (destruct (c2 =? 0); lia).
  rewrite (rdchk_ok m size (pos - 1) Hok) in H by lia.
  destruct (negb (is_sep (get (pos - 1) m))); [discriminate|].
  destruct (pos - 2 <? 0) eqn:P2; [discriminate|]. breflect.
  rewrite (rdchk_ok m size (pos - 2) Hok) in H by lia.
  injection H as Hpos' Hm'. subst pos' m'. split; [exact Hok|].
  pose proof (last_sep_bounds (firstn (Z.to_nat (pos - 2 + 1)) (cells m))) as LB.
  unfold zlen in LB. rewrite firstn_length in LB.
  destruct (c2 =? 0); lia.
Qed.

Lemma np_loop_safe size : forall n cur pos m, (length cur <= n)%nat ->
  ok m size -> 0 <= pos -> pos + zlen cur < size -> safe (np_loop size cur pos m) size.
Proof.
  induction n as [|n IH]; intros cur pos m Hn Hok Hp Hb.
  - destruct cur; [|cbn in Hn; lia]. cbn [np_loop]. rewrite zlen_nil in Hb. apply np_finish_safe; [exact Hok|lia].
  - destruct cur as [|c0 t0]; cbn [np_loop].
    + rewrite zlen_nil in Hb. apply np_finish_safe; [exact Hok|lia].
    + rewrite zlen_cons in Hb. pose proof (zlen_nonneg t0). cbn [length] in Hn.
      destruct ((c0 =? 46) && (nth 0 t0 0 =? 46)) eqn:DD.
      * destruct t0 as [|c1 t1]; [apply safe_err; exact Hok|].
        rewrite zlen_cons in Hb. pose proof (zlen_nonneg t1). cbn [length] in Hn.
        set (c2 := nth 0 t1 0).
        destruct (negb (c2 =? 0) && negb (is_sep c2)); [apply safe_err; exact Hok|].
        destruct (np_dotdot pos c2 m) as [[pos' m']|] eqn:D; [|apply safe_err; exact Hok].
        assert (Hc2 : pos + (if c2 =? 0 then 2 else 3) <= size).
        { destruct (c2 =? 0) eqn:Z0; [lia|]. destruct t1 as [|x t1']; [subst c2; cbn in Z0; discriminate|].
          rewrite zlen_cons in Hb. pose proof (zlen_nonneg t1'). lia. }
        destruct (np_dotdot_ok pos c2 m size pos' m' D Hok Hp Hc2) as [Hok' Hp'].
        destruct t1 as [|x t2].
        -- subst c2. cbn [nth Z.eqb] in Hp'. rewrite zlen_nil in Hb. apply np_finish_safe; [exact Hok'|lia].
        -- rewrite zlen_cons in Hb. pose proof (zlen_nonneg t2). cbn [length] in Hn.
           apply IH; [lia|exact Hok'|lia|]. destruct (c2 =? 0); lia.
      * apply IH; [lia|apply wr_ok; [exact Hok|lia]|lia|lia].
Qed.

Lemma normpath_safe p size m : ok m size -> safe (normpath p size m) size.
Proof.
  intro Hok. unfold normpath.
  destruct (zlen p >=? size) eqn:G; [apply safe_err; exact Hok|]. breflect.
  set (cur := if negb (isabs p) && (startswith p [46; 47] || startswith p [46; 92]) then skipn 2 p else p).
  assert (zlen cur <= zlen p).
  { subst cur. destruct (negb (isabs p) && (startswith p [46; 47] || startswith p [46; 92])); [|lia]. unfold zlen in *. rewrite skipn_length. lia. }
  apply (np_loop_safe size (length cur)); [lia|exact Hok|lia|lia].
Qed.

(* ---------- abspath ---------- *)
Lemma abspath_safe cwd p size junk m : ok m size -> zlen junk = MAX_PATH ->
  safe (abspath cwd p size junk m) size /\
  (* the internal 1024-byte buffer full_path is not overrun either *)
  oob (snd (join cwd p MAX_PATH (mkbuf junk false))) = false.
Proof.
  intros Hok Hj.
  assert (Hfb : ok (mkbuf junk false) MAX_PATH) by (split; [exact Hj|reflexivity]).
  pose proof (join_safe cwd p MAX_PATH _ Hfb) as [[_ J1] _].
  split; [|exact J1].
  unfold abspath, abspath_with.
  destruct (size <=? 1) eqn:S1; [apply safe_err; exact Hok|]. breflect.
  destruct (isabs p).
  - destruct (zlen p >? size - 1) eqn:G; [apply safe_err; exact Hok|]. breflect.
    apply safe_nul; [|lia]. apply strncpy_ok; [exact Hok|lia|lia].
  - destruct (join cwd p MAX_PATH (mkbuf junk false)) as [r fb] eqn:Ej. cbn [snd] in J1.
    destruct (negb (r =? 0)) eqn:R0.
    + split; cbn [fst snd].
      * destruct Hok as [A B]. split; [exact A|]. cbn [oob]. rewrite B, J1. reflexivity.
      * intro E. subst r. discriminate.
    + pose proof (normpath_safe (cstr (cells fb)) size m Hok) as [[A B] C].
      destruct (normpath (cstr (cells fb)) size m) as [r2 m2]. cbn [fst snd] in *.
      split; cbn [fst snd].
      * split; [exact A|]. cbn [oob]. rewrite B, J1. reflexivity.
      * exact C.
Qed.

(* ---------- the two safety theorems, for all five functions ---------- *)
Inductive pathcall :=
| CBasename (p : list Z) | CDirname (p : list Z) | CNormpath (p : list Z)
| CJoin (p1 p2 : list Z) | CAbspath (cwd p junk : list Z).

Definition run_call (c : pathcall) (size : Z) (m : buf) : Z * buf :=
  match c with
  | CBasename p => basename p size m
  | CDirname p => dirname p size m
  | CNormpath p => normpath p size m
  | CJoin a b => join a b size m
  | CAbspath cwd p junk => abspath cwd p size junk m
  end.

Definition call_wf (c : pathcall) : Prop :=
  match c with CAbspath _ _ junk => zlen junk = MAX_PATH | _ => True end.

Lemma run_call_safe c size m : call_wf c -> ok m size -> safe (run_call c size m) size.
Proof.
  intros W Hok. destruct c; cbn [run_call call_wf] in *.
  - apply basename_safe; exact Hok.
  - apply dirname_safe; exact Hok.
  - apply normpath_safe; exact Hok.
  - apply join_safe; exact Hok.
  - apply abspath_safe; assumption.
Qed.

Lemma path_no_overflow_l : forall c size init,
  call_wf c -> zlen init = size ->
  oob (snd (run_call c size (mkbuf init false))) = false /\
  zlen (cells (snd (run_call c size (mkbuf init false)))) = size.
Proof.
  intros c size init W Hs.
  assert (Hok : ok (mkbuf init false) size) by (split; [exact Hs|reflexivity]).
  destruct (run_call_safe c size _ W Hok) as [[A B] _]. split; [exact B|exact A].
Qed.

Lemma path_terminated_l : forall c size init,
  call_wf c -> zlen init = size ->
  fst (run_call c size (mkbuf init false)) = 0 ->
  has_nul (cells (snd (run_call c size (mkbuf init false)))) = true.
Proof.
  intros c size init W Hs.
  assert (Hok : ok (mkbuf init false) size) by (split; [exact Hs|reflexivity]).
  destruct (run_call_safe c size _ W Hok) as [_ C]. exact C.
Qed.

(* non-vacuity: the cases the unchanged code got wrong, on the guard pattern 0xAA *)
Example path_witnesses :
  let g n := mkbuf (repeat 170 n) false in
  fst (normpath [46; 46] 3 (g 3%nat)) = 0 /\ cstr (cells (snd (normpath [46; 46] 3 (g 3%nat)))) = [46; 46] /\
  fst (basename [97; 98; 99] 4 (g 4%nat)) = 0 /\ has_nul (cells (snd (basename [97; 98; 99] 4 (g 4%nat)))) = true /\
  fst (join [97] [98] 0 (g 0%nat)) = EINVAL /\ fst (join [97] [98] 4 (g 4%nat)) = 0 /\
  cstr (cells (snd (join [97] [98] 4 (g 4%nat)))) = [97; 47; 98].
Proof. vm_compute. repeat split; reflexivity. Qed.
