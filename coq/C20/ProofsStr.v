(* C20 — strings: blanks, lstrip/rstrip, startswith/endswith, strstr/find/count
   against reference list definitions. *)
From MV Require Import C20.Model.
Local Open Scope Z_scope.

Definition blank (c : Z) : Prop := is_space c = true.

Ltac breflect :=
  repeat match goal with
  | H : _ && _ = true |- _ => apply andb_true_iff in H; destruct H
  | H : _ || _ = false |- _ => apply orb_false_iff in H; destruct H
  | H : negb _ = true |- _ => apply negb_true_iff in H
  | H : negb _ = false |- _ => apply negb_false_iff in H
  | H : (_ <=? _) = true |- _ => apply Z.leb_le in H
  | H : (_ <=? _) = false |- _ => apply Z.leb_gt in H
  | H : (_ <? _) = true |- _ => apply Z.ltb_lt in H
  | H : (_ <? _) = false |- _ => apply Z.ltb_ge in H
  | H : (_ =? _) = true |- _ => apply Z.eqb_eq in H
  | H : (_ =? _) = false |- _ => apply Z.eqb_neq in H
  | H : (_ >=? _) = true |- _ => rewrite Z.geb_leb in H
  | H : (_ >=? _) = false |- _ => rewrite Z.geb_leb in H
  | H : (_ >? _) = true |- _ => rewrite Z.gtb_ltb in H
  | H : (_ >? _) = false |- _ => rewrite Z.gtb_ltb in H
  end.

Lemma zlen_cons c (r : list Z) : zlen (c :: r) = zlen r + 1.
Proof. unfold zlen. cbn [length]. lia. Qed.
Lemma zlen_nil : zlen [] = 0.
Proof. reflexivity. Qed.
Lemma zlen_nonneg (s : list Z) : 0 <= zlen s.
Proof. unfold zlen. lia. Qed.
Lemma zlen_app (a b : list Z) : zlen (a ++ b) = zlen a + zlen b.
Proof. unfold zlen. rewrite app_length. lia. Qed.
Lemma zlen_0 (s : list Z) : zlen s = 0 -> s = [].
Proof. destruct s; [reflexivity|rewrite zlen_cons; pose proof (zlen_nonneg s); lia]. Qed.

Lemma is_space_0 : is_space 0 = false.
Proof. reflexivity. Qed.

(* ---------- lstrip ---------- *)
(* reference: number of leading blanks; -1 when the string is non-empty and all blank *)
Fixpoint lead_blanks (s : list Z) : list Z :=
  match s with c :: r => if is_space c then c :: lead_blanks r else [] | [] => [] end.

Lemma lead_blanks_split s : exists r, s = lead_blanks s ++ r /\ Forall blank (lead_blanks s)
  /\ is_space (nth 0 r 0) = false.
Proof.
  induction s as [|c s IH]; cbn [lead_blanks].
  - exists []. split; [reflexivity|split; [constructor|reflexivity]].
  - destruct (is_space c) eqn:E.
    + destruct IH as (r & H1 & H2 & H3). exists r. split; [|split].
      * cbn [app]. f_equal. exact H1.
      * constructor; [exact E|exact H2].
      * exact H3.
    + exists (c :: s). split; [reflexivity|split; [constructor|exact E]].
Qed.

Lemma lead_blanks_app ws r : Forall blank ws -> is_space (nth 0 r 0) = false -> lead_blanks (ws ++ r) = ws.
Proof.
  intros Hws Hr. induction Hws as [|c ws Hc _ IH]; cbn [app lead_blanks].
  - destruct r as [|c r]; [reflexivity|]. cbn [lead_blanks]. cbn [nth] in Hr. rewrite Hr. reflexivity.
  - rewrite Hc, IH. reflexivity.
Qed.

Lemma lstrip_loop_spec s : forall idx, 0 <= idx ->
  lstrip_loop s idx (idx + zlen s) =
    if (negb (length s =? 0)%nat && (length (lead_blanks s) =? length s)%nat) then -1
    else idx + zlen (lead_blanks s).
Proof.
  induction s as [|c s IH]; intros idx Hidx; cbn [lstrip_loop lead_blanks].
  - cbn. lia.
  - destruct (is_space c) eqn:E.
    + rewrite zlen_cons.
      destruct (idx + 1 >=? idx + (zlen s + 1)) eqn:G.
      * breflect. assert (zlen s = 0) by (pose proof (zlen_nonneg s); lia).
        apply zlen_0 in H. subst s. reflexivity.
      * breflect. replace (idx + (zlen s + 1)) with ((idx + 1) + zlen s) by lia.
        rewrite IH by lia. cbn [length]. rewrite zlen_cons.
        assert (s <> []) by (intro; subst s; rewrite zlen_nil in G; lia).
        destruct s as [|c' s']; [congruence|].
        cbn [length Nat.eqb negb andb].
        destruct (length (lead_blanks (c' :: s')) =? S (length s'))%nat; lia.
    + cbn [length Nat.eqb negb andb]. rewrite zlen_nil. lia.
Qed.

Lemma lead_blanks_all s : (length (lead_blanks s) =? length s)%nat = true <-> Forall blank s.
Proof.
  induction s as [|c s IH]; cbn [lead_blanks].
  - split; [constructor|reflexivity].
  - destruct (is_space c) eqn:E; cbn [length].
    + rewrite Nat.eqb_eq in *. split.
      * intro H. constructor; [exact E|]. apply IH. lia.
      * intro H. inversion H; subst. apply IH in H3. lia.
    + split; [discriminate|]. intro H. inversion H; subst. unfold blank in H2. congruence.
Qed.

(* lstrip_idx against the reference: -1 iff non-empty and all blank; otherwise the number of
   leading blanks (the index of the first non-blank character, or 0 for the empty string) *)
Lemma lstrip_idx_spec_l : forall s,
  (lstrip_idx s = -1 <-> s <> [] /\ Forall blank s) /\
  (lstrip_idx s <> -1 -> lstrip_idx s = zlen (lead_blanks s)
                         /\ is_space (nth (Z.to_nat (lstrip_idx s)) s 0) = false).
Proof.
  intro s. unfold lstrip_idx.
  pose proof (lstrip_loop_spec s 0 ltac:(lia)) as H. rewrite Z.add_0_l in H. rewrite H. clear H.
  pose proof (lead_blanks_all s) as A.
  destruct (length s =? 0)%nat eqn:L; cbn [negb andb].
  - apply Nat.eqb_eq in L. destruct s; [|discriminate]. cbn. split.
    + split; [lia|]. intros [X _]. congruence.
    + intros _. split; reflexivity.
  - apply Nat.eqb_neq in L.
    destruct (length (lead_blanks s) =? length s)%nat eqn:M.
    + split; [|congruence]. split; [|reflexivity]. intros _. split; [destruct s; cbn in L; congruence|apply A; reflexivity].
    + pose proof (zlen_nonneg (lead_blanks s)). split.
      * split; [lia|]. intros [_ X]. apply A in X. congruence.
      * intros _. split; [lia|].
        destruct (lead_blanks_split s) as (r & H1 & H2 & H3).
        rewrite Z.add_0_l. unfold zlen. rewrite Nat2Z.id.
        rewrite H1 at 2. rewrite app_nth2 by lia. rewrite Nat.sub_diag. exact H3.
Qed.

Lemma lstrip_m1 s : lstrip_idx s = -1 <-> s <> [] /\ Forall blank s.
Proof. apply lstrip_idx_spec_l. Qed.

Lemma lstrip_app ws r : Forall blank ws -> r <> [] -> is_space (nth 0 r 0) = false ->
  lstrip_idx (ws ++ r) = zlen ws.
Proof.
  intros Hws Hr Hc.
  destruct (lstrip_idx_spec_l (ws ++ r)) as [A B].
  assert (N : lstrip_idx (ws ++ r) <> -1).
  { intro E. apply A in E. destruct E as [_ E]. apply Forall_app in E. destruct E as [_ E].
    destruct r as [|c r]; [congruence|]. inversion E; subst. cbn [nth] in Hc. unfold blank in H1. congruence. }
  destruct (B N) as [B1 _]. rewrite B1, lead_blanks_app by assumption. reflexivity.
Qed.

(* tail_ok: everything after the converted numeral is blank *)
Lemma tail_ok_spec s e : tail_ok s e = true <-> Forall blank (skipn e s).
Proof.
  unfold tail_ok. destruct (skipn e s) as [|c t] eqn:E.
  - split; [constructor|reflexivity].
  - rewrite Z.eqb_eq, lstrip_m1. split; [intros [_ H]; exact H|intro H; split; [discriminate|exact H]].
Qed.

(* ---------- rstrip ---------- *)
Lemma rstrip_loop_spec s : forall n, (n <= length s)%nat ->
  let r := rstrip_loop s n in
  -1 <= r < Z.of_nat n /\
  (forall j, r < Z.of_nat j -> (j < n)%nat -> is_space (nth j s 0) = true) /\
  (0 <= r -> is_space (nth (Z.to_nat r) s 0) = false).
Proof.
  induction n as [|k IH]; intros Hn; cbn [rstrip_loop].
  - cbn zeta. split; [lia|]. split; [intros; lia|intros; lia].
  - cbn zeta. destruct (is_space (nth k s 0)) eqn:E.
    + destruct k as [|k'].
      * split; [lia|]. split; [|intros; lia]. intros j _ Hj. replace j with O by lia. exact E.
      * specialize (IH ltac:(lia)). cbn zeta in IH. destruct IH as (I1 & I2 & I3).
        split; [lia|]. split; [|exact I3].
        intros j Hj1 Hj2. destruct (Nat.eq_dec j (S k')) as [->|Hne]; [exact E|].
        apply I2; lia.
    + split; [lia|]. split; [intros; lia|]. intros _. rewrite Nat2Z.id. exact E.
Qed.

(* rstrip_idx is the index of the last non-blank character, -1 when there is none
   (the empty string included) *)
Lemma rstrip_idx_spec_l : forall s,
  let r := rstrip_idx s in
  -1 <= r < zlen s /\
  (forall j, r < Z.of_nat j -> (j < length s)%nat -> blank (nth j s 0)) /\
  (0 <= r -> is_space (nth (Z.to_nat r) s 0) = false).
Proof.
  intro s. unfold rstrip_idx. destruct (length s =? 0)%nat eqn:L.
  - apply Nat.eqb_eq in L. cbn zeta. unfold zlen. rewrite L. split; [lia|]. split; [intros; lia|intros; lia].
  - exact (rstrip_loop_spec s (length s) (le_n _)).
Qed.

(* ---------- startswith / endswith ---------- *)
Lemma prefix_eq_spec p : forall s, prefix_eq p s = true <-> exists r, s = p ++ r.
Proof.
  induction p as [|a p IH]; intro s; cbn [prefix_eq].
  - split; [intros _; exists s; reflexivity|reflexivity].
  - destruct s as [|b s].
    + split; [discriminate|intros [r H]; discriminate].
    + rewrite andb_true_iff, Z.eqb_eq, IH. split.
      * intros [-> [r ->]]. exists r. reflexivity.
      * intros [r H]. cbn [app] in H. inversion H; subst. split; [reflexivity|exists r; reflexivity].
Qed.

(* reference: p is a prefix of s, and an empty pattern only matches the empty string *)
Lemma startswith_spec_l : forall s p,
  startswith s p = true <-> (exists r, s = p ++ r) /\ (p = [] -> s = []).
Proof.
  intros s p. unfold startswith.
  destruct (length s <? length p)%nat eqn:L.
  - apply Nat.ltb_lt in L. split; [discriminate|].
    intros [[r ->] _]. rewrite app_length in L. lia.
  - destruct (prefix_eq p s) eqn:P; cbn [negb].
    + apply prefix_eq_spec in P.
      destruct s as [|c s]; destruct p as [|a p]; cbn [length Nat.eqb negb andb].
      * split; [|reflexivity]. intros _. split; [exact P|reflexivity].
      * destruct P as [r P]; discriminate.
      * split; [discriminate|]. intros [_ H]. specialize (H eq_refl). discriminate.
      * split; [|reflexivity]. intros _. split; [exact P|discriminate].
    + split; [discriminate|]. intros [H _]. apply prefix_eq_spec in H. congruence.
Qed.

Lemma endswith_spec_l : forall s p,
  endswith s p = true <-> (exists r, s = r ++ p) /\ (p = [] -> s = []).
Proof.
  intros s p.
  assert (R : endswith s p = startswith (rev s) (rev p)).
  { unfold endswith, startswith. rewrite !rev_length. reflexivity. }
  rewrite R, startswith_spec_l. split.
  - intros [[r H] E]. split.
    + exists (rev r). apply (f_equal (@rev Z)) in H. rewrite rev_involutive, rev_app_distr, rev_involutive in H. exact H.
    + intros ->. specialize (E eq_refl). destruct s; [reflexivity|]. cbn in E. destruct (rev s); discriminate.
  - intros [[r H] E]. split.
    + exists (rev r). rewrite H, rev_app_distr. reflexivity.
    + intro H0. assert (p = []) by (destruct p; [reflexivity|cbn in H0; destruct (rev p); discriminate]).
      rewrite (E H1). reflexivity.
Qed.

(* ---------- strstr / find ---------- *)
(* occurrence of sub at offset k of s *)
Definition occurs (s sub : list Z) (k : nat) : Prop := exists a b, s = a ++ sub ++ b /\ length a = k.

Lemma occurs_0 s sub : occurs s sub 0 <-> prefix_eq sub s = true.
Proof.
  rewrite prefix_eq_spec. split.
  - intros (a & b & H & L). destruct a; [|discriminate]. exists b. exact H.
  - intros [r H]. exists [], r. split; [exact H|reflexivity].
Qed.

Lemma occurs_S c s sub k : occurs (c :: s) sub (S k) <-> occurs s sub k.
Proof.
  split.
  - intros (a & b & H & L). destruct a as [|a0 a]; [discriminate|]. cbn [app] in H. inversion H; subst.
    exists a, b. split; [reflexivity|]. cbn in L. lia.
  - intros (a & b & H & L). exists (c :: a), b. split; [cbn [app]; f_equal; exact H|cbn; lia].
Qed.

(* strstr returns the least offset at which sub occurs, None when there is none *)
Lemma strstr_spec sub : forall s,
  match strstr s sub with
  | Some k => occurs s sub k /\ forall j, (j < k)%nat -> ~ occurs s sub j
  | None => forall j, ~ occurs s sub j
  end.
Proof.
  induction s as [|c s IH]; cbn [strstr].
  - destruct (prefix_eq sub []) eqn:P.
    + split; [apply occurs_0; exact P|intros; lia].
    + intros j (a & b & H & L). destruct a; cbn in H.
      * assert (occurs [] sub 0) by (exists [], b; split; [exact H|reflexivity]). apply occurs_0 in H0. congruence.
      * discriminate.
  - destruct (prefix_eq sub (c :: s)) eqn:P.
    + split; [apply occurs_0; exact P|intros; lia].
    + destruct (strstr s sub) as [k|].
      * destruct IH as [I1 I2]. split; [apply occurs_S; exact I1|].
        intros j Hj. destruct j as [|j]; [rewrite occurs_0; congruence|]. rewrite occurs_S. apply I2. lia.
      * intros j. destruct j as [|j]; [rewrite occurs_0; congruence|]. rewrite occurs_S. apply IH.
Qed.

(* reference for find: with the code's normalisation of the window [start, e),
   the result is the least position >= start where sub occurs entirely before e, else -1 *)
Definition find_ref (s sub : list Z) (start e : Z) (r : Z) : Prop :=
  (r = -1 /\ forall k, start <= Z.of_nat k -> Z.of_nat k + zlen sub <= e -> ~ occurs s sub k) \/
  (start <= r /\ r + zlen sub <= e /\ occurs s sub (Z.to_nat r) /\
   forall k, start <= Z.of_nat k -> Z.of_nat k < r -> ~ occurs s sub k).

Lemma occurs_skipn s sub n k : (n <= length s)%nat -> occurs (skipn n s) sub k <-> occurs s sub (n + k).
Proof.
  revert s. induction n as [|n IH]; intros s Hn.
  - cbn. reflexivity.
  - destruct s as [|c s]; [cbn in Hn; lia|]. cbn [skipn]. cbn in Hn.
    rewrite IH by lia. cbn [Nat.add]. symmetry. apply occurs_S.
Qed.

Lemma str_find_spec_l : forall s sub start end_,
  let len := zlen s in
  let r := str_find s sub start end_ in
  if (start <? 0) || (end_ <? 0) || (start >=? len) || (norm_end len end_ <=? start)
  then r = -1
  else find_ref s sub start (norm_end len end_) r.
Proof.
  intros s sub start end_. cbn zeta. unfold str_find.
  destruct ((start <? 0) || (end_ <? 0)) eqn:A; cbn [orb]; [reflexivity|].
  destruct (start >=? zlen s) eqn:B; cbn [orb]; [reflexivity|].
  destruct (norm_end (zlen s) end_ <=? start) eqn:C; [reflexivity|].
  breflect.
  assert (Hn : (Z.to_nat start <= length s)%nat) by (unfold zlen in *; lia).
  pose proof (strstr_spec sub (skipn (Z.to_nat start) s)) as S.
  destruct (strstr (skipn (Z.to_nat start) s) sub) as [off|].
  - destruct S as [S1 S2]. rewrite occurs_skipn in S1 by exact Hn.
    destruct (start + Z.of_nat off + zlen sub >? norm_end (zlen s) end_) eqn:D; breflect.
    + left. split; [reflexivity|]. intros k K1 K2 O.
      destruct (Nat.lt_ge_cases (k - Z.to_nat start) off) as [Lt|Ge].
      * apply (S2 (k - Z.to_nat start)%nat Lt). rewrite occurs_skipn by exact Hn.
        replace (Z.to_nat start + (k - Z.to_nat start))%nat with k by lia. exact O.
      * lia.
    + right. split; [lia|]. split; [lia|]. split.
      * replace (Z.to_nat (start + Z.of_nat off)) with (Z.to_nat start + off)%nat by lia. exact S1.
      * intros k K1 K2 O. apply (S2 (k - Z.to_nat start)%nat); [lia|].
        rewrite occurs_skipn by exact Hn.
        replace (Z.to_nat start + (k - Z.to_nat start))%nat with k by lia. exact O.
  - left. split; [reflexivity|]. intros k K1 K2 O. apply (S (k - Z.to_nat start)%nat).
    rewrite occurs_skipn by exact Hn.
    replace (Z.to_nat start + (k - Z.to_nat start))%nat with k by lia. exact O.
Qed.
