(* C20 — normpath on paths without two adjacent dots (hence without ".." components) is the
   identity up to the "./" prefix; abspath of an absolute path is the path itself. *)
From MV Require Import C20.Model C20.ProofsStr C20.ProofsPath C20.ProofsAlg2.
Local Open Scope Z_scope.

Fixpoint no_dd (p : list Z) : Prop :=
  match p with
  | [] => True
  | c0 :: t0 => (c0 =? 46) && (nth 0 t0 0 =? 46) = false /\ no_dd t0
  end.

Lemma no_dd_skipn n : forall p, no_dd p -> no_dd (skipn n p).
Proof.
  induction n as [|n IH]; intros [|c p] H; cbn [skipn]; try exact H; try exact I.
  apply IH. exact (proj2 H).
Qed.

(* a NUL written behind a known prefix: the C string is that prefix *)
Lemma cstr_upd_after (c l : list Z) n : firstn n c = l -> (n < length c)%nat -> nonzero l ->
  cstr (upd n 0 c) = l.
Proof.
  intros Hf Hn Hz. assert (Hl : length l = n) by (rewrite <- Hf, firstn_length; lia).
  rewrite <- (firstn_skipn n c), Hf.
  destruct (skipn n c) as [|y r] eqn:E.
  - apply (f_equal (@length Z)) in E. rewrite skipn_length in E. cbn in E. lia.
  - rewrite <- Hl, upd_at_len. apply cstr_app_nul. exact Hz.
Qed.

(* the loop copies a cursor without adjacent dots verbatim *)
Lemma np_loop_copy size : forall cur pos m out,
  ok m size -> no_dd cur -> 0 <= pos -> pos + zlen cur < size ->
  firstn (Z.to_nat pos) (cells m) = out ->
  exists m', np_loop size cur pos m = np_finish size (pos + zlen cur) m' /\ ok m' size /\
             firstn (Z.to_nat (pos + zlen cur)) (cells m') = out ++ cur.
Proof.
  induction cur as [|c0 t0 IH]; intros pos m out Hok Hdd Hp Hb Hf.
  - exists m. rewrite zlen_nil, Z.add_0_r, app_nil_r. cbn [np_loop]. repeat split; try assumption; apply Hok.
  - cbn [np_loop]. destruct Hdd as [Hd Hdd]. rewrite Hd.
    rewrite zlen_cons in Hb. pose proof (zlen_nonneg t0).
    assert (Hok' : ok (wr pos c0 m) size) by (apply wr_ok; [exact Hok|lia]).
    assert (Hlen : (Z.to_nat pos < length (cells m))%nat) by (destruct Hok as [Hs _]; unfold bsize, zlen in Hs; lia).
    destruct (IH (pos + 1) (wr pos c0 m) (out ++ [c0]) Hok' Hdd ltac:(lia) ltac:(lia)) as (m' & E & Hm' & Hf').
    { rewrite (cells_wr m size pos c0 Hok ltac:(lia)).
      replace (Z.to_nat (pos + 1)) with (S (Z.to_nat pos)) by lia.
      rewrite firstn_S_upd by exact Hlen. rewrite Hf. reflexivity. }
    exists m'. rewrite zlen_cons. replace (pos + (zlen t0 + 1)) with (pos + 1 + zlen t0) by lia.
    split; [exact E|]. split; [exact Hm'|]. rewrite Hf', <- app_assoc. reflexivity.
Qed.

Definition np_cursor (p : list Z) : list Z :=
  if negb (isabs p) && (startswith p [46; 47] || startswith p [46; 92]) then skipn 2 p else p.

Lemma normpath_nodd_l : forall p size m, ok m size -> nonzero p -> no_dd p ->
  let q := np_cursor p in
  (fst (normpath p size m) = 0 <-> zlen p < size /\ (q = [] -> 2 < size)) /\
  (fst (normpath p size m) = 0 ->
     cstr (cells (snd (normpath p size m))) = if (length q =? 0)%nat then [46; 47] else q).
Proof.
  intros p size m Hok Hnz Hdd q. unfold normpath. fold (np_cursor p). fold q.
  destruct (zlen p >=? size) eqn:G; breflect.
  { cbn [fst]. unfold EINVAL. split; [split; [lia|intros [H _]; lia]|lia]. }
  assert (Hq : zlen q <= zlen p).
  { subst q. unfold np_cursor. destruct (_ && _); [|lia]. unfold zlen. rewrite skipn_length. lia. }
  assert (Hqz : nonzero q).
  { subst q. unfold np_cursor. destruct (_ && _); [|exact Hnz].
    unfold nonzero in *. rewrite Forall_forall in *. intros x Hx. apply Hnz.
    rewrite <- (firstn_skipn 2 p). apply in_or_app. right. exact Hx. }
  assert (Hqd : no_dd q) by (subst q; unfold np_cursor; destruct (_ && _); [apply no_dd_skipn|]; exact Hdd).
  pose proof (zlen_nonneg q) as Hq0.
  destruct (np_loop_copy size q 0 m [] Hok Hqd ltac:(lia) ltac:(lia) eq_refl) as (m' & E & Hm' & Hf).
  rewrite E. rewrite Z.add_0_l in *. cbn [app] in Hf. unfold np_finish.
  assert (Hc' : length (cells m') = Z.to_nat size) by (destruct Hm' as [Hs _]; unfold bsize, zlen in Hs; lia).
  destruct (zlen q =? 0) eqn:Z0; breflect.
  - assert (q = []) by (apply zlen_0; exact Z0). rewrite H in *. cbn [length Nat.eqb].
    destruct (size <=? 2) eqn:S2; breflect.
    + cbn [fst]. unfold EINVAL. split; [split; [lia|intros [_ X]; specialize (X eq_refl); lia]|lia].
    + cbn [fst snd]. split; [split; [intros _; split; [lia|intros _; lia]|reflexivity]|]. intros _.
      assert (O1 : ok (wr 0 46 m') size) by (apply wr_ok; [exact Hm'|lia]).
      assert (O2 : ok (wr 1 47 (wr 0 46 m')) size) by (apply wr_ok; [exact O1|lia]).
      rewrite (cells_wr _ size 2 0 O2 ltac:(lia)), (cells_wr _ size 1 47 O1 ltac:(lia)), (cells_wr _ size 0 46 Hm' ltac:(lia)).
      destruct (cells m') as [|a0 [|a1 [|a2 r]]]; cbn [length] in Hc'; try lia. reflexivity.
  - assert (Hqn : (length q =? 0)%nat = false) by (apply Nat.eqb_neq; unfold zlen in Z0; lia). rewrite Hqn.
    cbn [fst snd]. split; [split; [intros _; split; [lia|intro X; rewrite X, zlen_nil in Z0; lia]|reflexivity]|].
    intros _. rewrite (cells_wr m' size (zlen q) 0 Hm' ltac:(lia)).
    apply cstr_upd_after; [exact Hf|lia|exact Hqz].
Qed.

(* abspath of an absolute path copies it *)
Lemma abspath_abs_l : forall cwd p size junk m, ok m size -> nonzero p -> isabs p = true ->
  (fst (abspath cwd p size junk m) = 0 <-> zlen p < size /\ 1 < size) /\
  (fst (abspath cwd p size junk m) = 0 -> cstr (cells (snd (abspath cwd p size junk m))) = p).
Proof.
  intros cwd p size junk m Hok Hnz Ha. unfold abspath, abspath_with. rewrite Ha.
  pose proof (zlen_nonneg p) as Hp0.
  destruct (size <=? 1) eqn:S1; breflect.
  { cbn [fst]. unfold EINVAL. split; [split; [lia|intros [_ X]; lia]|lia]. }
  destruct (zlen p >? size - 1) eqn:G; breflect.
  { cbn [fst]. unfold EINVAL. split; [split; [lia|intros [X _]; lia]|lia]. }
  cbn [fst snd]. split; [split; [intros _; lia|reflexivity]|]. intros _.
  unfold strncpy_to.
  set (l := firstn (Z.to_nat (size - 1)) (p ++ repeat 0 (Z.to_nat (size - 1)))).
  assert (Hl : length l = Z.to_nat (size - 1)) by apply strncpy_len.
  assert (Hok' : ok (wr_list 0 l m) size) by (apply wr_list_ok; [exact Hok|lia|unfold zlen; lia]).
  rewrite (cells_wr _ size (size - 1) 0 Hok' ltac:(lia)).
  rewrite (cells_wr_list l m size 0 Hok ltac:(lia) ltac:(unfold zlen; lia)).
  cbn [Z.to_nat firstn app Nat.add].
  assert (El : l = p ++ repeat 0 (Z.to_nat (size - 1) - length p)).
  { subst l. rewrite firstn_app. rewrite firstn_all2 by (unfold zlen in *; lia). f_equal.
    rewrite firstn_repeat_z. f_equal. lia. }
  assert (Hcm : (length (cells m) = Z.to_nat size)%nat) by (destruct Hok as [Hs _]; unfold bsize, zlen in Hs; lia).
  destruct (skipn (length l) (cells m)) as [|y r] eqn:E.
  { apply (f_equal (@length Z)) in E. rewrite skipn_length in E. cbn in E. lia. }
  replace (Z.to_nat (size - 1)) with (length l) by lia. rewrite upd_at_len.
  rewrite El, <- app_assoc. destruct (Z.to_nat (size - 1) - length p)%nat; cbn [repeat app]; apply cstr_app_nul; exact Hnz.
Qed.
