(* C20 — NULL arguments of the str.c functions (None = a NULL pointer): every function returns its failure
   value without touching the other argument, and with two real strings it is the list function the
   specifications of ProofsStr / ProofsCount / ProofsParse are about. *)
From MV Require Import C20.Model.
Local Open Scope Z_scope.

Lemma null_arguments_refused_l :
  (forall p, startswith_c None p = false) /\ (forall s, startswith_c s None = false) /\
  (forall p, endswith_c None p = false) /\ (forall s, endswith_c s None = false) /\
  lstrip_idx_c None = -1 /\ rstrip_idx_c None = -1 /\
  (forall sub a b, str_find_c None sub a b = -1) /\ (forall s a b, str_find_c s None a b = -1) /\
  (forall sub a b, str_count_c None sub a b = 0) /\ (forall s a b, str_count_c s None a b = 0) /\
  (forall A (f : list Z -> option A) p0, parse_c f None p0 = None) /\
  (forall A (f : list Z -> option A) s, parse_c f s true = None).
Proof.
  repeat split; intros; try reflexivity;
    try (destruct s; reflexivity); try (destruct s as [s|]; reflexivity).
Qed.

Lemma non_null_arguments_l :
  (forall s p, startswith_c (Some s) (Some p) = startswith s p) /\
  (forall s p, endswith_c (Some s) (Some p) = endswith s p) /\
  (forall s, lstrip_idx_c (Some s) = lstrip_idx s) /\ (forall s, rstrip_idx_c (Some s) = rstrip_idx s) /\
  (forall s sub a b, str_find_c (Some s) (Some sub) a b = str_find s sub a b) /\
  (forall s sub a b, str_count_c (Some s) (Some sub) a b = str_count s sub a b) /\
  (forall A (f : list Z -> option A) s, parse_c f (Some s) false = f s).
Proof. repeat split; intros; reflexivity. Qed.

Example null_witnesses :
  startswith_c (Some [97]) None = false /\ str_find_c None (Some [97]) 0 0 = -1 /\
  parse_c (toi 10) (Some [53]) false = Some 5 /\ parse_c (toi 10) (Some [53]) true = None /\
  parse_c (toi 10) None false = None.
Proof. vm_compute. repeat split; reflexivity. Qed.
