(* C20 — str_count equals the greedy left-to-right count of non-overlapping occurrences. *)
From MV Require Import C20.Model C20.ProofsStr.
Local Open Scope Z_scope.

(* reference: starting at pos, take the first occurrence that ends at or before e, count it,
   continue behind it; n is the number taken *)
Inductive greedy (s sub : list Z) (e : Z) : Z -> Z -> Prop :=
| g_none : forall pos,
    (forall k, pos <= Z.of_nat k -> Z.of_nat k + zlen sub <= e -> ~ occurs s sub k) ->
    greedy s sub e pos 0
| g_some : forall pos k n,
    pos <= Z.of_nat k -> Z.of_nat k + zlen sub <= e -> occurs s sub k ->
    (forall j, pos <= Z.of_nat j -> (j < k)%nat -> ~ occurs s sub j) ->
    greedy s sub e (Z.of_nat k + zlen sub) n ->
    greedy s sub e pos (n + 1).

Lemma count_loop_greedy s sub e : 0 < zlen sub -> e <= zlen s ->
  forall fuel pos cnt, 0 <= pos -> pos < e -> zlen s - pos < Z.of_nat fuel ->
  exists n, count_loop fuel s sub pos e cnt = cnt + n /\ greedy s sub e pos n.
Proof.
  intros Hsub He. induction fuel as [|f IH]; intros pos cnt Hp Hpe Hf; [lia|].
  cbn [count_loop].
  assert (Hn : (Z.to_nat pos <= length s)%nat) by (unfold zlen in *; lia).
  pose proof (strstr_spec sub (skipn (Z.to_nat pos) s)) as S.
  destruct (strstr (skipn (Z.to_nat pos) s) sub) as [off|].
  - destruct S as [S1 S2]. rewrite occurs_skipn in S1 by exact Hn.
    assert (Least : forall j, pos <= Z.of_nat j -> (j < Z.to_nat pos + off)%nat -> ~ occurs s sub j).
    { intros j J1 J2 O. apply (S2 (j - Z.to_nat pos)%nat); [lia|].
      rewrite occurs_skipn by exact Hn. replace (Z.to_nat pos + (j - Z.to_nat pos))%nat with j by lia. exact O. }
    destruct (pos + Z.of_nat off + zlen sub >? e) eqn:D; breflect.
    + exists 0. split; [lia|]. apply g_none. intros k K1 K2 O.
      destruct (Nat.lt_ge_cases k (Z.to_nat pos + off)) as [Lt|Ge]; [exact (Least k K1 Lt O)|lia].
    + set (k := (Z.to_nat pos + off)%nat) in *.
      assert (Hk : Z.of_nat k = pos + Z.of_nat off) by (subst k; lia).
      destruct (pos + Z.of_nat off + zlen sub >=? e) eqn:G; breflect.
      * exists 1. split; [lia|]. apply (g_some s sub e pos k 0); try lia; try assumption.
        apply g_none. intros j J1 J2 O. lia.
      * destruct (IH (pos + Z.of_nat off + zlen sub) (cnt + 1)) as (n & E & Gn); try lia.
        exists (n + 1). split; [rewrite E; lia|].
        apply (g_some s sub e pos k n); try lia; try assumption.
        rewrite Hk. exact Gn.
  - exists 0. split; [lia|]. apply g_none. intros k K1 K2 O. apply (S (k - Z.to_nat pos)%nat).
    rewrite occurs_skipn by exact Hn. replace (Z.to_nat pos + (k - Z.to_nat pos))%nat with k by lia. exact O.
Qed.

Lemma norm_end_le len end_ : 0 <= len -> norm_end len end_ <= len.
Proof.
  intro H. unfold norm_end. destruct (end_ =? 0); destruct (_ >? len) eqn:G; breflect; lia.
Qed.

(* str_count: 0 for a degenerate window or an empty pattern; otherwise the greedy count
   inside the normalised window [start, e) *)
Lemma str_count_spec_l : forall s sub start end_,
  let len := zlen s in
  let r := str_count s sub start end_ in
  if ((start <? 0) || (end_ <? 0) || (start >=? len) || (norm_end len end_ <=? start) || (zlen sub =? 0))
  then r = 0
  else greedy s sub (norm_end len end_) start r.
Proof.
  intros s sub start end_. cbn zeta. unfold str_count.
  destruct ((start <? 0) || (end_ <? 0)) eqn:A; cbn [orb]; [reflexivity|].
  destruct (start >=? zlen s) eqn:B; cbn [orb]; [reflexivity|].
  destruct (norm_end (zlen s) end_ <=? start) eqn:C; cbn [orb]; [reflexivity|].
  destruct (zlen sub =? 0) eqn:D; [reflexivity|]. breflect.
  pose proof (zlen_nonneg sub). pose proof (zlen_nonneg s).
  destruct (count_loop_greedy s sub (norm_end (zlen s) end_) ltac:(lia) (norm_end_le (zlen s) end_ ltac:(lia))
              (S (length s)) start 0 ltac:(lia) ltac:(lia) ltac:(unfold zlen; lia)) as (n & E & G).
  rewrite E. exact G.
Qed.

(* the reference is deterministic, so the theorem pins the value down *)
Lemma greedy_unique s sub e : 0 < zlen sub -> forall pos n1, greedy s sub e pos n1 ->
  forall n2, greedy s sub e pos n2 -> n1 = n2.
Proof.
  intros Hsub pos n1 G1. induction G1 as [pos N|pos k n K1 K2 O L G IH]; intros n2 G2.
  - inversion G2 as [|? k2 n' A1 A2 A3 A4 A5]; subst; [reflexivity|]. exfalso. exact (N k2 A1 A2 A3).
  - inversion G2 as [? N|? k2 n' A1 A2 A3 A4 A5]; subst.
    + exfalso. exact (N k K1 K2 O).
    + assert (k = k2).
      { destruct (Nat.lt_trichotomy k k2) as [Lt|[E|Gt]]; [|exact E|].
        - exfalso. exact (A4 k K1 Lt O).
        - exfalso. exact (L k2 A1 Gt A3). }
      subst k2. rewrite (IH n' A5). reflexivity.
Qed.

Example count_witness :
  str_count [111;111;111;111;111] [111;111] 0 0 = 2 /\ str_count [111;111;111;111;111] [111;111] 1 4 = 1 /\
  str_count [97;98;99] [] 0 0 = 0.
Proof. vm_compute. repeat split; reflexivity. Qed.
