(* C20 — property theorems only. *)
From MV Require Import C20.Model C20.GenEq gen.Params_C20.

Theorem gen_npo2_eq : forall x : N, gen_npo2 x = model_npo2 x.
Proof. exact gen_npo2_eq_l. Qed.
Print Assumptions gen_npo2_eq.

Theorem gen_hex_to_byte_eq : forall c : Z, gen_hex_to_byte c = hex_to_byte c.
Proof. exact gen_hex_to_byte_eq_l. Qed.
Print Assumptions gen_hex_to_byte_eq.
