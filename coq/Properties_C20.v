(* C20 — pure utilities: property theorems only.  Each is closed by [exact] of a lemma
   proved under coq/C20/ and followed by Print Assumptions.

   The model (C20/Model.v) transcribes the REPAIRED code (fixes/C20-*.patch).
   What is proved here and what is not:
   - next_pow_of_2: full statement on [1, 2^63], behaviour outside stated; tied to the
     C text by the leaf translator (gen_npo2_eq).
   - integer parsers: full iff statements for EVERY base (an invalid base is refused), RELATIVE to the
     Gallina model of the strtol family (Model.strto_core / strtos / strtou), which is assumed libc
     behaviour and is compared with the real libc on every run of the check; the wrappers' C text is
     tied to the model by gen_parsers_eq (leaf translator, regenerated on every run).
   - float parsers: only the wrapper logic over an abstract libc result (tofloat_exact): every range
     error libc reports (overflow AND underflow) is a failure; values never enter Coq.
   - lstrip/rstrip/startswith/endswith: the C text is tied to the model by gen_strip_eq and
     gen_startswith_endswith_eq (loops translated as iteration functions).
   - path functions: path_no_overflow and path_terminated in full (all inputs, all sizes,
     reads of the output buffer included).  path_algebra in full: normpath equals the
     component algebra (names, "..", optional leading "/" or "./"; ".." removes the preceding
     name, a leading "../" chain is kept, "./" for the empty result, above the root is an
     error) for every size, abspath of a relative path is normpath of join(cwd, path) and
     hence the algebra on "/" cwd-components "/" path-components; path_algebra_leaf: isabs,
     basename, dirname, join, normpath without adjacent dots, abspath of absolute paths
     against their references for EVERY NUL-free input.  The class of path_algebra is wider
     than the plain class of the design: '\' also separates, names may contain any bytes
     other than separators, NUL and two adjacent dots.
   - strip/startswith/endswith/find/count: full statements against list specifications
     (count: the greedy left-to-right count of non-overlapping occurrences, which is unique).
   - hex round trip and rejection, endian swap involutions: full; the swap macros on operands of every
     integer type (endian_swap_any_operand).
   - NULL arguments where str.c checks them (null_arguments_refused). *)
From MV Require Import C20.Model C20.Loop C20.GenEq C20.GenParse C20.GenLoop gen.Params_C20
  C20.ProofsNpo2 C20.ProofsStr C20.ProofsCount C20.ProofsParse C20.ProofsPath C20.ProofsHex C20.ProofsSwapT C20.ProofsNull
  C20.ProofsAlg C20.ProofsAlg2 C20.ProofsAlg3 C20.ProofsAlg4 C20.ProofsNorm C20.ProofsNorm2 C20.ProofsNorm3.

(* ---------------- leaf translator obligations (DESIGN.md 4.4) ---------------- *)
Theorem gen_npo2_eq : forall x : N, gen_npo2 x = model_npo2 x.
Proof. exact gen_npo2_eq_l. Qed.
Print Assumptions gen_npo2_eq.

Theorem gen_hex_to_byte_eq : forall c : Z, gen_hex_to_byte c = hex_to_byte c.
Proof. exact gen_hex_to_byte_eq_l. Qed.
Print Assumptions gen_hex_to_byte_eq.

Theorem gen_isabs_eq : forall p : list Z, gen_isabs p = if isabs p then 1%Z else 0%Z.
Proof. exact gen_isabs_eq_l. Qed.
Print Assumptions gen_isabs_eq.

(* the backwards scan `while (pos >= 0) { if (C(path[pos])) break; --pos; }` of basename and of
   dirname (loop shape recognised by the translator) tests exactly the model's separator predicate;
   last_sep of the model is the index of the last character satisfying it (ProofsAlg2.last_sep_spec) *)
Theorem gen_last_sep_scan_eq :
  (forall c : Z, gen_basename_sep c = is_sep c) /\ (forall c : Z, gen_dirname_sep c = is_sep c).
Proof. exact (conj gen_basename_sep_eq_l gen_dirname_sep_eq_l). Qed.
Print Assumptions gen_last_sep_scan_eq.

(* the six integer parsers: the WHOLE wrapper body as written in str.c (NULL checks, base check, errno reset,
   the strtol-family call, end-pointer tests, range / sign chain, store through pval, return codes), translated on
   every run into gen_toX over an abstract libc result, and run with the Gallina libc model on an arbitrary
   NUL-free string (None = NULL pointer), arbitrary errno and *pval on entry, is the model's parser *)
Theorem gen_parsers_eq : forall s p0 base errno0 pval0, nonzero_opt s ->
  run_gen gen_toi strtol_model s p0 base errno0 pval0 = parse_c (toi base) s p0 /\
  run_gen gen_tou strtoul_model s p0 base errno0 pval0 = parse_c (tou base) s p0 /\
  run_gen gen_tol strtol_model s p0 base errno0 pval0 = parse_c (tol base) s p0 /\
  run_gen gen_toul strtoul_model s p0 base errno0 pval0 = parse_c (toul base) s p0 /\
  run_gen gen_toll strtol_model s p0 base errno0 pval0 = parse_c (toll base) s p0 /\
  run_gen gen_toull strtoul_model s p0 base errno0 pval0 = parse_c (toull base) s p0.
Proof. exact gen_parsers_eq_l. Qed.
Print Assumptions gen_parsers_eq.

(* ... and each wrapper calls the member of the family its type needs (1 strtol, 2 strtoul, 3 strtoll, 4 strtoull) *)
Theorem gen_parser_libc :
  gen_toi_libc = 1%Z /\ gen_tou_libc = 2%Z /\ gen_tol_libc = 1%Z /\ gen_toul_libc = 2%Z /\
  gen_toll_libc = 3%Z /\ gen_toull_libc = 4%Z.
Proof. exact gen_parser_libc_l. Qed.
Print Assumptions gen_parser_libc.

(* muggle_str_lstrip_idx / rstrip_idx / startswith / endswith: the C text, translated on every run into
   <prelude> ; run_loop (one iteration as a function, the epilogue folded in) - or into a loop-free term over
   mem_eq when the text uses memcmp - returns exactly the model's value, NULL pointers (None) included, for
   every string shorter than 2^31 (the strip functions hold the length in an int) resp. 2^63 *)
Theorem gen_strip_eq :
  (forall so, (zlen (str_of so) < 2 ^ 31)%Z -> gen_lstrip_idx (is_null so) (str_of so) = Some (lstrip_idx_c so)) /\
  (forall so, (zlen (str_of so) < 2 ^ 31)%Z -> gen_rstrip_idx (is_null so) (str_of so) = Some (rstrip_idx_c so)).
Proof. exact (conj gen_lstrip_eq_l gen_rstrip_eq_l). Qed.
Print Assumptions gen_strip_eq.

Theorem gen_startswith_endswith_eq :
  (forall so po, (zlen (str_of so) < 2 ^ 63)%Z -> (zlen (str_of po) < 2 ^ 63)%Z ->
     gen_startswith (is_null so) (is_null po) (str_of so) (str_of po) = Some (b2z (startswith_c so po))) /\
  (forall so po, (zlen (str_of so) < 2 ^ 63)%Z -> (zlen (str_of po) < 2 ^ 63)%Z ->
     gen_endswith (is_null so) (is_null po) (str_of so) (str_of po) = Some (b2z (endswith_c so po))).
Proof. exact (conj gen_startswith_eq_l gen_endswith_eq_l). Qed.
Print Assumptions gen_startswith_endswith_eq.

(* ---------------- next_pow_of_2 ---------------- *)
(* On 1 <= x <= 2^63 the result is a power of two, not below x, and the least such. *)
Theorem npo2_least_pow2 : forall x : N, (1 <= x)%N -> (x <= 2 ^ 63)%N ->
  is_pow2 (model_npo2 x) /\ (x <= model_npo2 x)%N /\
  (forall p, is_pow2 p -> (x <= p)%N -> (model_npo2 x <= p)%N).
Proof. exact npo2_least_pow2_l. Qed.
Print Assumptions npo2_least_pow2.

(* Outside that domain (no 64-bit answer exists above 2^63) the function returns 0. *)
Theorem npo2_outside_domain :
  model_npo2 0 = 0%N /\ forall x : N, (2 ^ 63 < x)%N -> (x < 2 ^ 64)%N -> model_npo2 x = 0%N.
Proof. exact (conj npo2_zero_l npo2_above_l). Qed.
Print Assumptions npo2_outside_domain.

(* ---------------- integer parsers ---------------- *)
(* success with value v  <->  the base is one the strtol family accepts (0 or 2..36), the string is
   blanks, optional sign, one numeral of the base (0x / 0 prefixes as in C), blanks, and v is in the
   type's range.  EVERY base: any other base is refused (repaired: the unchanged wrappers read the
   end pointer glibc leaves unset for such a base). *)
Theorem toi_exact : forall base s v,
  toi base s = Some v <-> valid_base base /\ well_formed base s v /\ (INT_MIN <= v <= INT_MAX)%Z.
Proof. exact toi_exact_l. Qed.
Print Assumptions toi_exact.

Theorem tou_exact : forall base s v,
  tou base s = Some v <-> valid_base base /\ well_formed base s v /\ (0 <= v <= UINT_MAX)%Z.
Proof. exact tou_exact_l. Qed.
Print Assumptions tou_exact.

Theorem tol_exact : forall base s v,
  tol base s = Some v <-> valid_base base /\ well_formed base s v /\ (LONG_MIN <= v <= LONG_MAX)%Z.
Proof. exact tol_exact_l. Qed.
Print Assumptions tol_exact.

Theorem toul_exact : forall base s v,
  toul base s = Some v <-> valid_base base /\ well_formed base s v /\ (0 <= v <= ULONG_MAX)%Z.
Proof. exact toul_exact_l. Qed.
Print Assumptions toul_exact.

Theorem toll_exact : forall base s v,
  toll base s = Some v <-> valid_base base /\ well_formed base s v /\ (LONG_MIN <= v <= LONG_MAX)%Z.
Proof. exact tol_exact_l. Qed.
Print Assumptions toll_exact.

Theorem toull_exact : forall base s v,
  toull base s = Some v <-> valid_base base /\ well_formed base s v /\ (0 <= v <= ULONG_MAX)%Z.
Proof. exact toul_exact_l. Qed.
Print Assumptions toull_exact.

(* float parsers: wrapper logic only, over the abstract libc result (characters consumed, ERANGE was
   reported).  Success <-> something was converted, only blanks follow, and libc reported NO range error:
   neither overflow nor underflow (repaired: the unchanged wrappers accepted a numeral that underflowed,
   storing 0.0 or a subnormal that lost precision - "never a silently truncated value") *)
Theorem tofloat_exact : forall s consumed er,
  tofloat s consumed er = true <->
  consumed <> 0%nat /\ Forall blank (skipn consumed s) /\ er = false.
Proof. exact tofloat_exact_l. Qed.
Print Assumptions tofloat_exact.

(* ---------------- path functions ---------------- *)
(* for basename, dirname, normpath, join, abspath (cwd a parameter), every input and
   every size: no cell outside the size-cell buffer is written or read *)
Theorem path_no_overflow : forall c size init,
  call_wf c -> zlen init = size ->
  oob (snd (run_call c size (mkbuf init false))) = false /\
  zlen (cells (snd (run_call c size (mkbuf init false)))) = size.
Proof. exact path_no_overflow_l. Qed.
Print Assumptions path_no_overflow.

(* ... and whatever is reported as success has a NUL inside the buffer *)
Theorem path_terminated : forall c size init,
  call_wf c -> zlen init = size ->
  fst (run_call c size (mkbuf init false)) = 0%Z ->
  has_nul (cells (snd (run_call c size (mkbuf init false)))) = true.
Proof. exact path_terminated_l. Qed.
Print Assumptions path_terminated.

(* path_algebra, part 1: normpath and abspath against the component algebra.
   A path is  pre ++ render cs : pre is "", "./" (".\") or "/", cs a list of components (a name or
   "..") each followed by one separator, the last one optionally without (wf_comps).  [resolve]
   is the reference: ".." removes the preceding name, is kept while the stack is empty or holds
   only "..", and is an error at the root of an absolute path; the result is rendered with the
   separators the kept components had, "./" when nothing is left. *)
Theorem path_algebra :
  (* normpath, every size: error above the root; otherwise success exactly when the input
     (not only the result) fits, and then the result is the algebra's *)
  (forall pre abs cs size m,
     pre_ok pre abs -> wf_comps cs -> ok m size -> nonzero (pre ++ render cs) ->
     let p := pre ++ render cs in
     match resolve abs [] cs with
     | None => fst (normpath p size m) <> 0%Z
     | Some k =>
         let res := out_of abs k in
         (fst (normpath p size m) = 0%Z <-> (zlen p < size)%Z /\ (res = [] -> (2 < size)%Z)) /\
         (fst (normpath p size m) = 0%Z ->
            cstr (cells (snd (normpath p size m))) = if (length res =? 0)%nat then [46%Z; 47%Z] else res)
     end) /\
  (* abspath of a relative path = normpath of join(cwd, path), for EVERY NUL-free cwd and path *)
  (forall cwd p size junk m,
     ok m size -> zlen junk = MAX_PATH -> nonzero cwd -> nonzero p -> isabs p = false -> (1 < size)%Z ->
     let j := join_ref cwd p in
     let joins := cwd <> [] /\ p <> [] /\ p <> [47%Z] /\ (zlen j < MAX_PATH)%Z in
     (~ joins -> fst (abspath cwd p size junk m) <> 0%Z) /\
     (joins -> fst (abspath cwd p size junk m) = fst (normpath j size m) /\
               cells (snd (abspath cwd p size junk m)) = cells (snd (normpath j size m)))) /\
  (* hence: cwd = "/" comps1 c, path = comps2 (relative)  =>  the algebra on "/" comps1 c "/" comps2 *)
  (forall cs1 c cs2 size junk m,
     ok m size -> zlen junk = MAX_PATH -> (1 < size)%Z ->
     kinv cs1 -> comp_ok c -> wf_comps cs2 -> cs2 <> [] ->
     let cwd := [47%Z] ++ render cs1 ++ text c in
     let p := render cs2 in
     let cs := cs1 ++ (c, [47%Z]) :: cs2 in
     nonzero cwd -> nonzero p -> isabs p = false -> (zlen ([47%Z] ++ render cs) < MAX_PATH)%Z ->
     match resolve true [] cs with
     | None => fst (abspath cwd p size junk m) <> 0%Z
     | Some k =>
         (fst (abspath cwd p size junk m) = 0%Z <-> (zlen ([47%Z] ++ render cs) < size)%Z) /\
         (fst (abspath cwd p size junk m) = 0%Z ->
            cstr (cells (snd (abspath cwd p size junk m))) = out_of true k)
     end).
Proof. exact (conj normpath_algebra_l (conj abspath_rel_l abspath_plain_l)). Qed.
Print Assumptions path_algebra.

(* path_algebra, part 2: the functions without ".." logic against their references, for every
   NUL-free input and every size (success exactly when the result fits) *)
Theorem path_algebra_leaf :
  (* isabs *)
  (forall p, isabs p = true <->
     ((1 < zlen p)%Z /\ nth 0 p 0%Z = 47%Z) \/
     ((2 < zlen p)%Z /\ is_alpha (nth 0 p 0%Z) = true /\ nth 1 p 0%Z = 58%Z /\ is_sep (nth 2 p 0%Z) = true)) /\
  (* base_of p is p when p has no separator, else the part behind the last separator *)
  (forall p, (nosep p /\ base_of p = p) \/
             (exists a c b, p = a ++ c :: b /\ is_sep c = true /\ nosep b /\ base_of p = b)) /\
  (* basename succeeds exactly when that part is non-empty and fits, and then returns it *)
  (forall p size m, ok m size -> nonzero p ->
     (fst (basename p size m) = 0%Z <-> base_of p <> [] /\ (zlen (base_of p) < size)%Z /\ (1 < size)%Z) /\
     (fst (basename p size m) = 0%Z -> cstr (cells (snd (basename p size m))) = base_of p)) /\
  (* dirname of a ++ sep :: b (no separator in b) is a, the separator kept for the root and "c:/" *)
  (forall a c b size m, ok m size -> nonzero (a ++ c :: b) -> is_sep c = true -> nosep b ->
     let p := a ++ c :: b in
     (fst (dirname p size m) = 0%Z <-> (zlen (dir_ref a c) < size)%Z /\ (1 < size)%Z) /\
     (fst (dirname p size m) = 0%Z -> cstr (cells (snd (dirname p size m))) = dir_ref a c)) /\
  (* join = p1, one separator unless p1 already ends with one, p2 without its leading '/' *)
  (forall p1 p2 size m, ok m size -> nonzero p1 -> nonzero p2 ->
     (fst (join p1 p2 size m) = 0%Z <->
        p1 <> [] /\ p2 <> [] /\ p2 <> [47%Z] /\ (zlen (join_ref p1 p2) < size)%Z /\ (1 < size)%Z) /\
     (fst (join p1 p2 size m) = 0%Z -> cstr (cells (snd (join p1 p2 size m))) = join_ref p1 p2)) /\
  (* normpath without two adjacent dots: the path itself minus a leading "./" (".\\"), "./" when empty *)
  (forall p size m, ok m size -> nonzero p -> no_dd p ->
     let q := np_cursor p in
     (fst (normpath p size m) = 0%Z <-> (zlen p < size)%Z /\ (q = [] -> (2 < size)%Z)) /\
     (fst (normpath p size m) = 0%Z ->
        cstr (cells (snd (normpath p size m))) = if (length q =? 0)%nat then [46%Z; 47%Z] else q)) /\
  (* abspath of an absolute path *)
  (forall cwd p size junk m, ok m size -> nonzero p -> isabs p = true ->
     (fst (abspath cwd p size junk m) = 0%Z <-> (zlen p < size)%Z /\ (1 < size)%Z) /\
     (fst (abspath cwd p size junk m) = 0%Z -> cstr (cells (snd (abspath cwd p size junk m))) = p)).
Proof.
  exact (conj isabs_spec_l (conj base_of_ref (conj basename_algebra_l (conj dirname_algebra_l
         (conj join_algebra_l (conj normpath_nodd_l abspath_abs_l)))))).
Qed.
Print Assumptions path_algebra_leaf.

(* ---------------- strip / startswith / endswith / find / count ---------------- *)
Theorem lstrip_idx_spec : forall s,
  (lstrip_idx s = (-1)%Z <-> s <> [] /\ Forall blank s) /\
  (lstrip_idx s <> (-1)%Z -> lstrip_idx s = zlen (lead_blanks s)
                            /\ is_space (nth (Z.to_nat (lstrip_idx s)) s 0%Z) = false).
Proof. exact lstrip_idx_spec_l. Qed.
Print Assumptions lstrip_idx_spec.

Theorem rstrip_idx_spec : forall s,
  let r := rstrip_idx s in
  (-1 <= r < zlen s)%Z /\
  (forall j, (r < Z.of_nat j)%Z -> (j < length s)%nat -> blank (nth j s 0%Z)) /\
  ((0 <= r)%Z -> is_space (nth (Z.to_nat r) s 0%Z) = false).
Proof. exact rstrip_idx_spec_l. Qed.
Print Assumptions rstrip_idx_spec.

Theorem startswith_spec : forall s p,
  startswith s p = true <-> (exists r, s = p ++ r) /\ (p = [] -> s = []).
Proof. exact startswith_spec_l. Qed.
Print Assumptions startswith_spec.

Theorem endswith_spec : forall s p,
  endswith s p = true <-> (exists r, s = r ++ p) /\ (p = [] -> s = []).
Proof. exact endswith_spec_l. Qed.
Print Assumptions endswith_spec.

Theorem str_find_spec : forall s sub start end_,
  let len := zlen s in
  let r := str_find s sub start end_ in
  if ((start <? 0) || (end_ <? 0) || (start >=? len) || (norm_end len end_ <=? start))%Z
  then r = (-1)%Z
  else find_ref s sub start (norm_end len end_) r.
Proof. exact str_find_spec_l. Qed.
Print Assumptions str_find_spec.

(* str_count is 0 for a degenerate window or an empty pattern; otherwise it is the greedy
   left-to-right number of non-overlapping occurrences inside the normalised window *)
Theorem str_count_spec : forall s sub start end_,
  let len := zlen s in
  let r := str_count s sub start end_ in
  if ((start <? 0) || (end_ <? 0) || (start >=? len) || (norm_end len end_ <=? start) || (zlen sub =? 0))%Z
  then r = 0%Z
  else greedy s sub (norm_end len end_) start r.
Proof. exact str_count_spec_l. Qed.
Print Assumptions str_count_spec.

(* the greedy count is a function of its arguments, so str_count_spec determines the value *)
Theorem greedy_count_unique : forall s sub e, (0 < zlen sub)%Z -> forall pos n1, greedy s sub e pos n1 ->
  forall n2, greedy s sub e pos n2 -> n1 = n2.
Proof. exact greedy_unique. Qed.
Print Assumptions greedy_count_unique.

(* NULL pointers (None) where str.c checks for them: the failure value, whatever the other arguments;
   with real strings the *_c functions are the list functions specified above and in the parser theorems *)
Theorem null_arguments_refused :
  (forall p, startswith_c None p = false) /\ (forall s, startswith_c s None = false) /\
  (forall p, endswith_c None p = false) /\ (forall s, endswith_c s None = false) /\
  lstrip_idx_c None = (-1)%Z /\ rstrip_idx_c None = (-1)%Z /\
  (forall sub a b, str_find_c None sub a b = (-1)%Z) /\ (forall s a b, str_find_c s None a b = (-1)%Z) /\
  (forall sub a b, str_count_c None sub a b = 0%Z) /\ (forall s a b, str_count_c s None a b = 0%Z) /\
  (forall A (f : list Z -> option A) p0, parse_c f None p0 = None) /\
  (forall A (f : list Z -> option A) s, parse_c f s true = None).
Proof. exact null_arguments_refused_l. Qed.
Print Assumptions null_arguments_refused.

(* ---------------- hex, endian ---------------- *)
Theorem hex_roundtrip : forall b, Forall (fun x => (0 <= x < 256)%Z) b ->
  hex_to_bytes (hex_from_bytes b) (length b) = Some b.
Proof. exact hex_roundtrip_l. Qed.
Print Assumptions hex_roundtrip.

Theorem hex_rejects_non_hex : forall n hex, (2 * n <= length hex)%nat ->
  ((exists out, hex_to_bytes hex n = Some out /\ length out = n) <-> Forall is_hex (firstn (2 * n) hex)).
Proof. exact hex_to_bytes_accepts_l. Qed.
Print Assumptions hex_rejects_non_hex.

Theorem endian_swap_involutive :
  (forall v, (v < 2 ^ 16)%N -> swap16 (swap16 v) = v) /\
  (forall v, (v < 2 ^ 32)%N -> swap32 (swap32 v) = v) /\
  (forall v, (v < 2 ^ 64)%N -> swap64 (swap64 v) = v).
Proof. exact (conj swap16_involutive_l (conj swap32_involutive_l swap64_involutive_l)). Qed.
Print Assumptions endian_swap_involutive.

(* the swap macros are functions into [0, 2^n) for EVERY argument: no bit above n-1 survives, so the
   value does not depend on the integer type in which the macro's result is consumed *)
Theorem endian_swap_range :
  (forall v, (swap16 v < 2 ^ 16)%N) /\ (forall v, (swap32 v < 2 ^ 32)%N) /\ (forall v, (swap64 v < 2 ^ 64)%N).
Proof. exact (conj swap16_range_l (conj swap32_range_l swap64_range_l)). Qed.
Print Assumptions endian_swap_range.

(* operands of EVERY integer type: the macro's value depends only on the low N bits of the operand's two's
   complement pattern (so it is the same for int8..int64 / uint8..uint64 operands that agree on those bits,
   negative values and INT_MIN included) and the nested round trip returns exactly those N bits; [operand]
   is the 64-bit pattern of an object of the given width and signedness, and an intN_t / uintN_t object is
   restored bit for bit by the round trip of its own macro *)
Theorem endian_swap_any_operand :
  (forall x, swap16 x = swap16 (x mod 2 ^ 16) /\ swap16 (swap16 x) = x mod 2 ^ 16)%N /\
  (forall x, swap32 x = swap32 (x mod 2 ^ 32) /\ swap32 (swap32 x) = x mod 2 ^ 32)%N /\
  (forall x, swap64 x = swap64 (x mod 2 ^ 64) /\ swap64 (swap64 x) = x mod 2 ^ 64)%N /\
  (forall bits sg v, (0 < bits)%N -> (bits <= 64)%N ->
     (operand bits sg v < 2 ^ 64)%N /\ (operand bits sg v mod 2 ^ bits = v mod 2 ^ bits)%N) /\
  (forall sg v, (swap16 (swap16 (operand 16 sg v)) = v mod 2 ^ 16)%N /\
                (swap32 (swap32 (operand 32 sg v)) = v mod 2 ^ 32)%N /\
                (swap64 (swap64 (operand 64 sg v)) = v mod 2 ^ 64)%N).
Proof. exact endian_swap_any_operand_l. Qed.
Print Assumptions endian_swap_any_operand.
