(* C18 — property theorems only.  Each is closed by [exact] of a lemma proved in
   C18/Proofs.v or C18/ProofsInst.v and followed by Print Assumptions. *)
From MV Require Import C18.Model C18.Proofs C18.Instances C18.ProofsInst gen.Params_C18 C18.Coverage C18.ProofsGen.

(* A scenario (constructor / grower / inserter + its destroy) accepted by the
   decidable checker satisfies the property under EVERY fault function, single or
   multiple: no fault hit -> success, the object owns exactly what it should, and
   destroy releases everything; a fault hit -> failure is reported, nothing is
   leaked (live = what was live before the call), no crash/hang/double free, the failed
   call changed nothing (every resource live before is still live and still pointed to),
   the object is safe to destroy (future A: destroy runs cleanly, leaves nothing live,
   releases every stored value) AND safe to retry (future B: the retried operation
   succeeds, the object is used further - s_cont: more operations up to and beyond the
   old capacity -, destroy then leaves nothing live). *)
Theorem alloc_failure_reported_leak_free_crash_free : forall sc,
  wf_scn sc = true -> forall f, holds sc f.
Proof. exact wf_sound. Qed.
Print Assumptions alloc_failure_reported_leak_free_crash_free.

(* Behaviour under any fault set equals behaviour under its first hit alone
   (the unbounded fault_sequences quantifier). *)
Theorem multi_fault_reduces_to_first : forall sc,
  wf_scn sc = true -> forall f k,
  first_hit f (o_att (run_scn sc f)) = Some k -> run_scn sc f = run_scn sc (single k).
Proof. exact wf_multi_fault. Qed.
Print Assumptions multi_fault_reduces_to_first.

(* Whatever happened to the operation, the following destroy neither crashes nor
   leaves anything live. *)
Theorem destroy_releases_all : forall sc,
  wf_scn sc = true -> forall f,
  o_dbad (run_scn sc f) = false /\ o_dlive (run_scn sc f) = [].
Proof. exact wf_destroy_releases_all. Qed.
Print Assumptions destroy_releases_all.

(* The outcome depends only on the oracle positions the run actually consulted. *)
Theorem outcome_depends_only_on_consulted_faults : forall sc f g,
  agree f g 0 (o_att (run_scn sc f)) -> run_scn sc g = run_scn sc f.
Proof. exact run_scn_local. Qed.
Print Assumptions outcome_depends_only_on_consulted_faults.

(* Every transcribed instance of the code as it is (ids outside 100..199) is accepted by the
   checker, except the recorded known finding (void muggle_socket_evloop_add_ctx). *)
Theorem all_instances_wf : forall id sc,
  inst_by_id id = Some sc -> orig_id id = false -> in_known_class id = false -> wf_scn sc = true.
Proof. exact instances_wf. Qed.
Print Assumptions all_instances_wf.

(* ... hence every instance satisfies the property under every fault function (P_partial of
   the known-finding pattern).  The instances INSIDE a known class are not dropped: they
   satisfy the property with only its "reports failure" clause removed (no_report). *)
Theorem all_instances_hold_partial : forall id sc f,
  inst_by_id id = Some sc -> orig_id id = false ->
  holds (if in_known_class id then no_report sc else sc) f.
Proof. exact instances_hold_gen. Qed.
Print Assumptions all_instances_hold_partial.

(* The same, spelled out for the known-class instances: under EVERY fault function no
   crash / hang / double free, destroy releases all, success when no fault is hit, and a
   hit fault leaks nothing (live = what was live before the call). *)
Theorem known_class_instances_leak_free_crash_free : forall id sc f,
  inst_by_id id = Some sc -> in_known_class id = true ->
  let o := run_scn sc f in
  o_bad o = false /\ o_dbad o = false /\ o_dlive o = [] /\
  (hit f (o_att o) = false -> o_rc o = Ok /\ (forall r, In r (o_live o) <-> In r (s_owns sc))) /\
  (hit f (o_att o) = true -> forall r, In r (o_live o) <-> In r (o_base o)).
Proof. exact known_class_instances_hold. Qed.
Print Assumptions known_class_instances_leak_free_crash_free.

(* Every cleanup block / failure handler of every instance's operation is entered by the
   no-fault run or by some single-fault run (so the complete k enumeration compares each
   transcribed block with the code at least once); the listed dead labels guard callees
   that make no acquisition for the arguments used. *)
Theorem every_cleanup_label_reached : forall id sc l,
  inst_by_id id = Some sc -> In l (op_labels sc) ->
  In l dead_labels \/ exists f, In f single_runs /\ In l (o_labels (run_scn sc f)).
Proof. exact labels_all_reached. Qed.
Print Assumptions every_cleanup_label_reached.

(* P_refuted of the known finding: a failed queue-node allocation inside the void
   muggle_socket_evloop_add_ctx cannot be reported. *)
Theorem void_socket_evloop_add_ctx_refuted :
  exists id sc k, in_known_class_void_add_ctx id = true /\ inst_by_id id = Some sc /\
                  ~ holds sc (single k).
Proof. exact void_add_ctx_refuted. Qed.
Print Assumptions void_socket_evloop_add_ctx_refuted.

(* Every transcription of the UNCHANGED defective code (ids 100..199) violates the
   property at a concrete single-fault position. *)
Theorem unchanged_code_instances_refuted : forall id sc,
  inst_by_id id = Some sc -> orig_id id = true -> exists k, ~ holds sc (single k).
Proof. exact orig_instances_refuted. Qed.
Print Assumptions unchanged_code_instances_refuted.

(* muggle_channel_init of the unchanged tree: first allocation fails, 0 is returned. *)
Theorem channel_init_unchanged_returns_success_on_failed_alloc :
  let o := run_scn i_chan_mutex_orig (single 0) in
  hit (single 0) (o_att o) = true /\ o_rc o = Ok.
Proof. exact channel_init_orig_returns_success_on_failed_alloc. Qed.
Print Assumptions channel_init_unchanged_returns_success_on_failed_alloc.

(* ---- the TRANSLATOR tie: programs regenerated from the C text on every run (gen/Params_C18.v) ---- *)

(* Every init / grow / destroy function in the translator's scope was translated (no unsupported
   construct, no scenario dropped). *)
Theorem generated_programs_complete :
  gen_errors = [] /\ forallb (fun id => existsb (Nat.eqb id) (map fst gen_table)) gen_required = true.
Proof. exact (conj gen_no_errors gen_all_required). Qed.
Print Assumptions generated_programs_complete.

(* Every generated scenario (constructor / grower generated from the C text + generated destroy)
   satisfies the property under EVERY fault function: failure reported, nothing leaked, no double
   release, safe to destroy, destroy releases all. *)
Theorem generated_programs_satisfy_property : forall id t f,
  glookup id gen_table = Some t -> holds (gen_scn t) f.
Proof. exact generated_hold. Qed.
Print Assumptions generated_programs_satisfy_property.

(* ... and behaves, for the no-fault run and every single fault (hence, by
   multi_fault_reduces_to_first, for every fault set), exactly like the hand-written instance that the
   differential run compares with the implementation (return class, calls attempted, number of live
   resources after the call and after destroy, crash flags). *)
Theorem generated_programs_agree_with_instances :
  forallb (fun p => match inst_by_id (fst p) with
                    | Some h => agrees (gen_scn (snd p)) h
                    | None => 200 <=? fst p
                    end) gen_table = true.
Proof. exact gen_table_agrees. Qed.
Print Assumptions generated_programs_agree_with_instances.

(* ---- the COVERAGE tie: allocating entry points of the whole library (gen/Params_C18.v) ---- *)

(* Every function with external linkage under muggle/c from which an acquisition primitive is reachable
   (clang AST of all .c files, regenerated on every run) is driven by the instance table with the faults
   armed, or reached from a driven function through direct calls, or excluded with a written reason
   (C18/Coverage.v); every acquiring callback has a driving instance; no exclusion is stale; no source
   file failed to parse. *)
Theorem every_allocating_entry_point_accounted_for : coverage_ok = true.
Proof. exact coverage_holds. Qed.
Print Assumptions every_allocating_entry_point_accounted_for.

Theorem allocating_entry_points_driven_or_excluded : forall n,
  In n (map fst alloc_entry_points) ->
  In n driven_under_faults \/
  (exists d, In (n, d) reached_through /\ In d driven_under_faults) \/
  In n (map fst excluded).
Proof. exact entry_points_accounted. Qed.
Print Assumptions allocating_entry_points_driven_or_excluded.
