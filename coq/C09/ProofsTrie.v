(* C09 — trie (repaired index computation): byte-string keys over 1..255,
   including the empty key, prefixes and bytes >= 0x80, behave like a map with
   overwrite on insertion. *)
From MV Require Import C09.Model C09.Spec.
Local Open Scope Z_scope.

Definition valid_key (key : list Z) : Prop := Forall (fun c => 1 <= c <= 255) key.
Definition key_eq_dec : forall a b : list Z, {a = b} + {a <> b} := list_eq_dec Z.eq_dec.

(* ---------- the index computation ---------- *)

(* after the repair every key byte selects one of the 256 slots, and never slot 0 *)
Lemma byte_index_in_range c : 1 <= c <= 255 ->
  index_in_range (byte_index c) = true /\ byte_index c <> 0.
Proof. intros H. unfold index_in_range, byte_index. split; lia. Qed.

Lemma byte_index_inj c d : byte_index c = byte_index d -> c = d.
Proof. unfold byte_index. auto. Qed.

(* the unchanged code ((int) of a signed char) leaves the array for every byte >= 0x80 *)
Lemma byte_index_unrepaired_oob c : 128 <= c <= 255 -> index_in_range (byte_index_unrepaired c) = false.
Proof. intros H. unfold index_in_range, byte_index_unrepaired, schar. destruct (Z.leb_spec 128 c); lia. Qed.

(* ---------- children maps ---------- *)

Lemma cget_cset_same i x c : cget i (cset i x c) = Some x.
Proof.
  induction c as [|[j y] c IH]; simpl.
  - rewrite Z.eqb_refl. reflexivity.
  - destruct (Z.eqb_spec j i) as [->|H]; simpl.
    + rewrite Z.eqb_refl. reflexivity.
    + destruct (Z.eqb_spec j i); [congruence|exact IH].
Qed.

Lemma cget_cset_other i j x c : i <> j -> cget j (cset i x c) = cget j c.
Proof.
  intros H. induction c as [|[a y] c IH]; simpl.
  - destruct (Z.eqb_spec i j); [congruence|reflexivity].
  - destruct (Z.eqb_spec a i) as [Ea|Ea]; simpl.
    + subst a. destruct (Z.eqb_spec i j); [congruence|reflexivity].
    + destruct (Z.eqb_spec a j); [reflexivity|exact IH].
Qed.

(* ---------- walking below one node ---------- *)

Definition wl (t : trie) (key : list Z) : option Z :=
  match walk t key with Some n => t_data n | None => None end.

Lemma wl_empty key : wl trie_empty key = None.
Proof. destruct key; reflexivity. Qed.

Lemma wl_cons t c rest :
  wl t (c :: rest) = match cget (byte_index c) (t_children t) with Some ch => wl ch rest | None => None end.
Proof. unfold wl. cbn [walk]. destruct (cget (byte_index c) (t_children t)); reflexivity. Qed.

Lemma wl_ins_same key : forall t v, wl (ins_walk t key v) key = Some v.
Proof.
  induction key as [|c rest IH]; intros t v.
  - reflexivity.
  - cbn [ins_walk]. rewrite wl_cons. cbn [t_children]. rewrite cget_cset_same. apply IH.
Qed.

Lemma wl_ins_other key : forall t v key', key' <> key -> wl (ins_walk t key v) key' = wl t key'.
Proof.
  induction key as [|c rest IH]; intros t v key' Hne.
  - destruct key' as [|c' rest']; [congruence|]. cbn [ins_walk]. rewrite !wl_cons. reflexivity.
  - destruct key' as [|c' rest'].
    + cbn [ins_walk]. unfold wl. cbn [walk t_data]. reflexivity.
    + cbn [ins_walk]. rewrite !wl_cons. cbn [t_children].
      destruct (Z.eq_dec c c') as [->|Hc].
      * rewrite cget_cset_same. rewrite IH by congruence.
        destruct (cget (byte_index c') (t_children t)); [reflexivity|apply wl_empty].
      * rewrite cget_cset_other; [reflexivity|]. intros E. apply byte_index_inj in E. congruence.
Qed.

Lemma wl_clear_same key : forall t, wl (clear_walk t key) key = None.
Proof.
  induction key as [|c rest IH]; intros t.
  - reflexivity.
  - cbn [clear_walk]. destruct (cget (byte_index c) (t_children t)) eqn:E.
    + rewrite wl_cons. cbn [t_children]. rewrite cget_cset_same. apply IH.
    + rewrite wl_cons, E. reflexivity.
Qed.

Lemma wl_clear_other key : forall t key', key' <> key -> wl (clear_walk t key) key' = wl t key'.
Proof.
  induction key as [|c rest IH]; intros t key' Hne.
  - destruct key' as [|c' rest']; [congruence|]. cbn [clear_walk]. rewrite !wl_cons. reflexivity.
  - cbn [clear_walk]. destruct (cget (byte_index c) (t_children t)) as [ch|] eqn:E; [|reflexivity].
    destruct key' as [|c' rest'].
    + unfold wl. cbn [walk t_data]. reflexivity.
    + rewrite !wl_cons. cbn [t_children].
      destruct (Z.eq_dec c c') as [->|Hc].
      * rewrite cget_cset_same, E. apply IH. congruence.
      * rewrite cget_cset_other; [reflexivity|]. intros E'. apply byte_index_inj in E'. congruence.
Qed.

(* ---------- the public operations ---------- *)

Definition slot0 (root : trie) : option Z :=
  match cget 0 (t_children root) with Some n => t_data n | None => None end.

Lemma trie_lookup_unfold root key :
  trie_lookup root key = match key with [] => slot0 root | _ => wl root key end.
Proof. destruct key; reflexivity. Qed.

Lemma head_nonzero c rest : valid_key (c :: rest) -> byte_index c <> 0.
Proof. intros H. inversion H; subst. apply byte_index_in_range. assumption. Qed.

Lemma trie_insert_lookup root key v key' : valid_key key -> valid_key key' ->
  trie_lookup (trie_insert root key v) key' = if key_eq_dec key' key then Some v else trie_lookup root key'.
Proof.
  intros Hk Hk'. rewrite !trie_lookup_unfold.
  destruct key as [|c rest].
  - (* the empty key: stored in root.children[0] *)
    cbn [trie_insert]. destruct key' as [|c' rest'].
    + destruct (key_eq_dec [] []); [|congruence]. unfold slot0. cbn [t_children]. rewrite cget_cset_same. reflexivity.
    + destruct (key_eq_dec (c' :: rest') []); [congruence|].
      rewrite !wl_cons. cbn [t_children]. rewrite cget_cset_other; [reflexivity|].
      intros E. symmetry in E. revert E. apply (head_nonzero c' rest' Hk').
  - change (trie_insert root (c :: rest) v) with (ins_walk root (c :: rest) v).
    destruct key' as [|c' rest'].
    + destruct (key_eq_dec [] (c :: rest)); [congruence|].
      unfold slot0. cbn [ins_walk t_children]. rewrite cget_cset_other; [reflexivity|].
      apply (head_nonzero c rest Hk).
    + destruct (key_eq_dec (c' :: rest') (c :: rest)) as [E|E].
      * rewrite E. apply wl_ins_same.
      * apply wl_ins_other. exact E.
Qed.

Lemma trie_remove_lookup root key key' : valid_key key -> valid_key key' ->
  trie_lookup (fst (trie_remove root key)) key' = if key_eq_dec key' key then None else trie_lookup root key'.
Proof.
  intros Hk Hk'. unfold trie_remove.
  destruct (trie_find_node root key) as [n|] eqn:En; cbn [fst].
  - rewrite !trie_lookup_unfold. destruct key as [|c rest].
    + cbn [trie_find_node] in En. rewrite En. destruct key' as [|c' rest'].
      * destruct (key_eq_dec [] []); [|congruence]. unfold slot0. cbn [t_children]. rewrite cget_cset_same. reflexivity.
      * destruct (key_eq_dec (c' :: rest') []); [congruence|].
        rewrite !wl_cons. cbn [t_children]. rewrite cget_cset_other; [reflexivity|].
        intros E. symmetry in E. revert E. apply (head_nonzero c' rest' Hk').
    + destruct key' as [|c' rest'].
      * destruct (key_eq_dec [] (c :: rest)); [congruence|].
        unfold slot0. cbn [clear_walk]. destruct (cget (byte_index c) (t_children root)); [|reflexivity].
        cbn [t_children]. rewrite cget_cset_other; [reflexivity|]. apply (head_nonzero c rest Hk).
      * destruct (key_eq_dec (c' :: rest') (c :: rest)) as [E|E].
        -- rewrite E. apply wl_clear_same.
        -- apply wl_clear_other. exact E.
  - (* no node: nothing stored under this key, nothing changes *)
    destruct (key_eq_dec key' key) as [->|]; [|reflexivity].
    unfold trie_lookup. rewrite En. reflexivity.
Qed.

(* removing a stored key reports success *)
Lemma trie_remove_present root key v : trie_lookup root key = Some v -> snd (trie_remove root key) = true.
Proof.
  unfold trie_lookup, trie_remove. destruct (trie_find_node root key); [reflexivity|discriminate].
Qed.

(* ---------- histories ---------- *)

Definition op_key {K} (o : op K) : K := match o with Ins k _ | Find k | Rem k => k end.
Definition valid_op (o : op (list Z)) : Prop := valid_key (op_key o).

(* reference: a map with overwrite; the boolean of a removal of an absent key is
   left open by the API, so removals are observed as [RRem true] on both sides *)
Definition obs (r : res) : res := match r with RRem _ => RRem true | x => x end.

Definition map_step_trie (m : @fmap (list Z)) (o : op (list Z)) : @fmap (list Z) * res :=
  match o with
  | Ins k v => (upd key_eq_dec m k (Some v), RIns true)
  | Find k => (m, RFind (m k))
  | Rem k => (upd key_eq_dec m k None, RRem true)
  end.

Definition trie_step_obs (t : trie) (o : op (list Z)) : trie * res :=
  let (t', r) := trie_step t o in (t', obs r).

Definition trie_agree (t : trie) (m : @fmap (list Z)) : Prop :=
  forall key, valid_key key -> trie_lookup t key = m key.

Lemma trie_step_agree t m o : valid_op o -> trie_agree t m ->
  trie_agree (fst (trie_step_obs t o)) (fst (map_step_trie m o)) /\
  snd (trie_step_obs t o) = snd (map_step_trie m o).
Proof.
  intros Hv Ha. destruct o as [k v|k|k]; unfold trie_step_obs; cbn [trie_step map_step_trie fst snd obs]; unfold valid_op in Hv; cbn [op_key] in Hv.
  - split; [|reflexivity]. intros key Hkey. rewrite trie_insert_lookup by assumption.
    unfold upd. destruct (key_eq_dec key k); [reflexivity|apply Ha; assumption].
  - split; [exact Ha|]. rewrite (Ha k Hv). reflexivity.
  - pose proof (fun key' => trie_remove_lookup t k key' Hv) as Hr.
    destruct (trie_remove t k) as [t' ok]. cbn [fst snd obs] in *.
    split; [|reflexivity]. intros key Hkey. rewrite Hr by assumption.
    unfold upd. destruct (key_eq_dec key k); [reflexivity|apply Ha; assumption].
Qed.

Lemma run_obs ops : forall t,
  run trie_step_obs t ops = (fst (run trie_step t ops), map obs (snd (run trie_step t ops))).
Proof.
  induction ops as [|o ops IH]; intros t; cbn [run]; [reflexivity|].
  unfold trie_step_obs at 1. destruct (trie_step t o) as [t1 r]. rewrite IH.
  destruct (run trie_step t1 ops) as [t2 rs]. reflexivity.
Qed.

Lemma trie_refines ops : Forall valid_op ops ->
  map obs (snd (run trie_step trie_empty ops)) = snd (run map_step_trie empty_map ops) /\
  forall key, valid_key key ->
    trie_lookup (fst (run trie_step trie_empty ops)) key = fst (run map_step_trie empty_map ops) key.
Proof.
  intros Hv.
  assert (H0 : trie_agree trie_empty (@empty_map (list Z))).
  { intros key _. destruct key; reflexivity. }
  pose proof (run_sim_P valid_op trie_agree trie_step_obs map_step_trie trie_step_agree ops _ _ Hv H0) as (Ha & Ho).
  rewrite run_obs in Ha, Ho. cbn [fst snd] in Ha, Ho. split; [exact Ho|exact Ha].
Qed.

(* every removal of a key that is stored answers true *)
Lemma trie_rem_present_true t k v : trie_lookup t k = Some v -> snd (trie_step t (Rem k)) = RRem true.
Proof.
  intros H. cbn [trie_step]. pose proof (trie_remove_present t k v H).
  destruct (trie_remove t k). cbn [snd] in *. subst. reflexivity.
Qed.

(* non-vacuity: empty key, prefixes, bytes >= 0x80, overwrite, lazy removal *)
Example trie_example :
  snd (run trie_step trie_empty
         [Ins [97; 98] 1; Ins [97] 2; Ins [] 3; Ins [195; 169] 4; Ins [255] 5; Find [97; 98]; Find [97]; Find [];
          Find [195]; Find [195; 169]; Ins [97; 98] 6; Rem [97]; Find [97]; Find [97; 98]; Rem [255]; Find [255];
          Rem [122]]) =
  [RIns true; RIns true; RIns true; RIns true; RIns true; RFind (Some 1); RFind (Some 2); RFind (Some 3);
   RFind None; RFind (Some 4); RIns true; RRem true; RFind None; RFind (Some 6); RRem true; RFind None; RRem false].
Proof. vm_compute. reflexivity. Qed.
