(* C09 — AVL tree: invariants, rotations, insertion. *)
From MV Require Import C09.Model C09.Spec.
Local Open Scope Z_scope.

(* ---------- invariants ---------- *)

(* recorded balance factor exact and within [-1,1] at every node *)
Fixpoint bal (t : tree) : Prop :=
  match t with
  | Leaf => True
  | Node l _ _ b r => bal l /\ bal r /\ b = height r - height l /\ -1 <= b <= 1
  end.

(* search-tree order, textbook form *)
Fixpoint all_keys (P : Z -> Prop) (t : tree) : Prop :=
  match t with
  | Leaf => True
  | Node l k _ _ r => P k /\ all_keys P l /\ all_keys P r
  end.

Fixpoint search_tree (t : tree) : Prop :=
  match t with
  | Leaf => True
  | Node l k _ _ r =>
      all_keys (fun x => x < k) l /\ all_keys (fun x => k < x) r /\ search_tree l /\ search_tree r
  end.

Definition avl_inv (t : tree) : Prop := search_tree t /\ bal t.

(* the same order with explicit bounds (convenient for rotations) *)
Fixpoint bst (lo hi : Z) (t : tree) : Prop :=
  match t with
  | Leaf => True
  | Node l k _ _ r => lo < k < hi /\ bst lo k l /\ bst k hi r
  end.

Definition root_bal (t : tree) : Z := match t with Leaf => 0 | Node _ _ _ b _ => b end.

Lemma height_nonneg t : 0 <= height t.
Proof. induction t; cbn [height]; lia. Qed.

Lemma all_keys_impl (P Q : Z -> Prop) t : (forall x, P x -> Q x) -> all_keys P t -> all_keys Q t.
Proof. intros H. induction t; simpl; intuition. Qed.

Lemma all_keys_and (P Q : Z -> Prop) t : all_keys P t -> all_keys Q t -> all_keys (fun x => P x /\ Q x) t.
Proof. induction t; simpl; intuition. Qed.

Lemma bst_weaken lo hi lo' hi' t : bst lo hi t -> lo' <= lo -> hi <= hi' -> bst lo' hi' t.
Proof.
  revert lo hi lo' hi'. induction t as [|l IHl k v b r IHr]; simpl; intros; auto.
  destruct H as (Hk & Hl & Hr). repeat split; try lia.
  - eapply IHl; eauto; lia.
  - eapply IHr; eauto; lia.
Qed.

Lemma bst_all_keys lo hi t : bst lo hi t -> all_keys (fun x => lo < x < hi) t.
Proof.
  revert lo hi. induction t as [|l IHl k v b r IHr]; simpl; intros lo hi H; auto.
  destruct H as (Hk & Hl & Hr). repeat split; try lia.
  - eapply all_keys_impl; [|apply IHl; eauto]. simpl; intros; lia.
  - eapply all_keys_impl; [|apply IHr; eauto]. simpl; intros; lia.
Qed.

Lemma bst_search_tree lo hi t : bst lo hi t -> search_tree t.
Proof.
  revert lo hi. induction t as [|l IHl k v b r IHr]; simpl; intros lo hi H; auto.
  destruct H as (Hk & Hl & Hr). repeat split; eauto.
  - eapply all_keys_impl; [|apply bst_all_keys; eauto]. simpl; intros; lia.
  - eapply all_keys_impl; [|apply bst_all_keys; eauto]. simpl; intros; lia.
Qed.

Lemma search_tree_bst t : search_tree t -> forall lo hi, all_keys (fun x => lo < x < hi) t -> bst lo hi t.
Proof.
  induction t as [|l IHl k v b r IHr]; simpl; intros H lo hi Hb; auto.
  destruct H as (Hlk & Hrk & Hl & Hr). destruct Hb as (Hk & Hbl & Hbr).
  repeat split; try lia.
  - apply IHl; auto. eapply all_keys_impl; [|apply (all_keys_and _ _ _ Hbl Hlk)]. simpl; intros; lia.
  - apply IHr; auto. eapply all_keys_impl; [|apply (all_keys_and _ _ _ Hbr Hrk)]. simpl; intros; lia.
Qed.

Lemma keys_bounded t : exists lo hi, all_keys (fun x => lo < x < hi) t.
Proof.
  induction t as [|l (lo1 & hi1 & H1) k v b r (lo2 & hi2 & H2)]; simpl.
  - exists 0, 0; exact I.
  - exists (Z.min (k - 1) (Z.min lo1 lo2)), (Z.max (k + 1) (Z.max hi1 hi2)).
    repeat split; try lia.
    + eapply all_keys_impl; [|exact H1]. simpl; intros; lia.
    + eapply all_keys_impl; [|exact H2]. simpl; intros; lia.
Qed.

Lemma search_tree_iff_bst t : search_tree t <-> exists lo hi, bst lo hi t.
Proof.
  split.
  - intros H. destruct (keys_bounded t) as (lo & hi & Hb). exists lo, hi. apply search_tree_bst; auto.
  - intros (lo & hi & H). eapply bst_search_tree; eauto.
Qed.

(* a bounded search tree holds no key outside its bounds *)
Lemma find_above lo hi t y : bst lo hi t -> hi <= y -> avl_find y t = None.
Proof.
  revert lo hi. induction t as [|l IHl k v b r IHr]; simpl; intros lo hi H Hy; auto.
  destruct H as (Hk & Hl & Hr).
  destruct (Z.ltb_spec y k); [lia|]. destruct (Z.ltb_spec k y); [|lia]. eapply IHr; eauto.
Qed.

Lemma find_below lo hi t y : bst lo hi t -> y <= lo -> avl_find y t = None.
Proof.
  revert lo hi. induction t as [|l IHl k v b r IHr]; simpl; intros lo hi H Hy; auto.
  destruct H as (Hk & Hl & Hr).
  destruct (Z.ltb_spec y k); [eapply IHl; eauto|lia].
Qed.

(* ---------- rotations: shape ---------- *)

(* the executable check of the model driver is exactly the invariant *)
Lemma balanced_b_iff t : balanced_b t = true <-> bal t.
Proof.
  induction t as [|l IHl k v b r IHr]; simpl.
  - tauto.
  - rewrite !andb_true_iff, IHl, IHr, Z.eqb_eq, !Z.leb_le. tauto.
Qed.

Lemma rebalance_ok l k v b r :
  bal l -> bal r -> b = height r - height l -> (b = 2 \/ b = -2) ->
  let n := Node l k v b r in
  bal (fst (rebalance n)) /\
  height (fst (rebalance n)) = height n - (if snd (rebalance n) then 1 else 0) /\
  (b = 2 -> root_bal r <> 0 -> snd (rebalance n) = true) /\
  (b = -2 -> root_bal l <> 0 -> snd (rebalance n) = true).
Proof.
  intros Hl Hr Hb H2 n. subst n. unfold rebalance.
  destruct (Z.ltb_spec b (-1)) as [Hlt|Hge].
  - (* left heavy *)
    assert (b = -2) by lia. clear H2.
    destruct l as [|t4 zk zv zb lr]; [cbn [height bal fst snd root_bal] in *; pose proof (height_nonneg r); lia|].
    cbn [bal] in Hl. destruct Hl as (Ht4 & Hlr & Hzb & Hzr).
    destruct (Z.leb_spec zb 0) as [Hz|Hz].
    + (* rotate_right *)
      unfold rotate_right. destruct (Z.eqb_spec zb 0) as [Hz0|Hz0]; cbn [height bal fst snd root_bal] in *.
      * repeat split; auto; try lia.
      * repeat split; auto; try lia.
    + (* rotate_left_right *)
      assert (zb = 1) by lia.
      destruct lr as [|t3 yk yv yb t2]; [cbn [height bal fst snd root_bal] in *; pose proof (height_nonneg t4); lia|].
      cbn [bal] in Hlr. destruct Hlr as (Ht3 & Ht2 & Hyb & Hyr).
      unfold rotate_left_right.
      destruct (Z.ltb_spec 0 yb) as [Hy|Hy]; [|destruct (Z.eqb_spec yb 0) as [Hy0|Hy0]]; cbn [height bal fst snd root_bal] in *;
        repeat split; auto; try lia.
  - destruct (Z.ltb_spec 1 b) as [Hgt|Hle]; [|lia].
    assert (b = 2) by lia. clear H2.
    destruct r as [|rl zk zv zb t4]; [cbn [height bal fst snd root_bal] in *; pose proof (height_nonneg l); lia|].
    cbn [bal] in Hr. destruct Hr as (Hrl & Ht4 & Hzb & Hzr).
    destruct (Z.leb_spec 0 zb) as [Hz|Hz].
    + unfold rotate_left. destruct (Z.eqb_spec zb 0) as [Hz0|Hz0]; cbn [height bal fst snd root_bal] in *.
      * repeat split; auto; try lia.
      * repeat split; auto; try lia.
    + assert (zb = -1) by lia.
      destruct rl as [|t2 yk yv yb t3]; [cbn [height bal fst snd root_bal] in *; pose proof (height_nonneg t4); lia|].
      cbn [bal] in Hrl. destruct Hrl as (Ht2 & Ht3 & Hyb & Hyr).
      unfold rotate_right_left.
      destruct (Z.ltb_spec 0 yb) as [Hy|Hy]; [|destruct (Z.eqb_spec yb 0) as [Hy0|Hy0]]; cbn [height bal fst snd root_bal] in *;
        repeat split; auto; try lia.
Qed.

(* ---------- rotations: order and contents ---------- *)

Lemma rebalance_bst lo hi t : bst lo hi t -> bst lo hi (fst (rebalance t)).
Proof.
  destruct t as [|l k v b r]; [auto|]. unfold rebalance. intros H.
  destruct (b <? -1).
  - destruct l as [|t4 zk zv zb lr]; [exact H|].
    destruct (zb <=? 0).
    + unfold rotate_right. destruct (zb =? 0); cbn [fst bst] in *; intuition lia.
    + destruct lr as [|t3 yk yv yb t2]; [exact H|].
      unfold rotate_left_right. destruct (0 <? yb); [|destruct (yb =? 0)]; cbn [fst bst] in *; intuition lia.
  - destruct (1 <? b); [|exact H].
    destruct r as [|rl zk zv zb t4]; [exact H|].
    destruct (0 <=? zb).
    + unfold rotate_left. destruct (zb =? 0); cbn [fst bst] in *; intuition lia.
    + destruct rl as [|t2 yk yv yb t3]; [exact H|].
      unfold rotate_right_left. destruct (0 <? yb); [|destruct (yb =? 0)]; cbn [fst bst] in *; intuition lia.
Qed.

Ltac cmp2 y k := destruct (Z.ltb_spec y k); destruct (Z.ltb_spec k y); try lia.

Lemma rebalance_find lo hi t y : bst lo hi t -> avl_find y (fst (rebalance t)) = avl_find y t.
Proof.
  destruct t as [|l k v b r]; [auto|]. unfold rebalance. intros H.
  destruct (b <? -1).
  - destruct l as [|t4 zk zv zb lr]; [reflexivity|].
    destruct (zb <=? 0).
    + unfold rotate_right. cbn [bst] in H.
      destruct (zb =? 0); cbn [fst avl_find]; cmp2 y zk; cmp2 y k; reflexivity.
    + destruct lr as [|t3 yk yv yb t2]; [reflexivity|]. cbn [bst] in H.
      unfold rotate_left_right.
      destruct (0 <? yb); [|destruct (yb =? 0)]; cbn [fst avl_find];
        cmp2 y yk; cmp2 y zk; cmp2 y k; reflexivity.
  - destruct (1 <? b); [|reflexivity].
    destruct r as [|rl zk zv zb t4]; [reflexivity|].
    destruct (0 <=? zb).
    + unfold rotate_left. cbn [bst] in H.
      destruct (zb =? 0); cbn [fst avl_find]; cmp2 y zk; cmp2 y k; reflexivity.
    + destruct rl as [|t2 yk yv yb t3]; [reflexivity|]. cbn [bst] in H.
      unfold rotate_right_left.
      destruct (0 <? yb); [|destruct (yb =? 0)]; cbn [fst avl_find];
        cmp2 y yk; cmp2 y zk; cmp2 y k; reflexivity.
Qed.

(* ---------- insertion ---------- *)

Definition tree_of (x : tree * bool * bool) : tree := fst (fst x).

(* retracing step on the side that grew *)
Lemma grow_left_ok l l' k v b r :
  bal l' -> bal r -> b = height r - height l -> -1 <= b <= 1 ->
  height l' = height l + 1 -> (l = Leaf \/ root_bal l' <> 0) ->
  let res := grow true (Node l' k v b r) in
  bal (fst res) /\
  height (fst res) = height (Node l k v b r) + (if snd res then 1 else 0) /\
  (snd res = true -> root_bal (fst res) <> 0).
Proof.
  intros Hl' Hr Hb Hbr Hh Hnz. unfold grow.
  destruct (Z.eqb_spec (b - 1) 0) as [E0|E0].
  - cbn [fst snd bal height root_bal]. repeat split; auto; try lia; try discriminate.
  - destruct (Z.eqb_spec (b - 1) 1) as [E1|E1]; [lia|].
    destruct (Z.eqb_spec (b - 1) (-1)) as [E2|E2]; cbn [orb].
    + cbn [fst snd bal height root_bal]. repeat split; auto; lia.
    + assert (Hb2 : b - 1 = -2) by lia.
      destruct (rebalance_ok l' k v (b - 1) r Hl' Hr ltac:(lia) ltac:(lia)) as (B & Hgt & _ & Hdec).
      cbn [fst snd]. split; [exact B|]. split; [|discriminate].
      rewrite Hgt. rewrite Hdec; auto.
      * cbn [height]. lia.
      * destruct Hnz as [->|Hnz]; [|exact Hnz]. cbn [height] in *. pose proof (height_nonneg r). lia.
Qed.

Lemma grow_right_ok l r r' k v b :
  bal l -> bal r' -> b = height r - height l -> -1 <= b <= 1 ->
  height r' = height r + 1 -> (r = Leaf \/ root_bal r' <> 0) ->
  let res := grow false (Node l k v b r') in
  bal (fst res) /\
  height (fst res) = height (Node l k v b r) + (if snd res then 1 else 0) /\
  (snd res = true -> root_bal (fst res) <> 0).
Proof.
  intros Hl Hr' Hb Hbr Hh Hnz. unfold grow.
  destruct (Z.eqb_spec (b + 1) 0) as [E0|E0].
  - cbn [fst snd bal height root_bal]. repeat split; auto; try lia; try discriminate.
  - destruct (Z.eqb_spec (b + 1) 1) as [E1|E1]; cbn [orb].
    + cbn [fst snd bal height root_bal]. repeat split; auto; lia.
    + destruct (Z.eqb_spec (b + 1) (-1)) as [E2|E2]; [lia|].
      assert (Hb2 : b + 1 = 2) by lia.
      destruct (rebalance_ok l k v (b + 1) r' Hl Hr' ltac:(lia) ltac:(lia)) as (B & Hgt & Hdec & _).
      cbn [fst snd]. split; [exact B|]. split; [|discriminate].
      rewrite Hgt. rewrite Hdec; auto.
      * cbn [height]. lia.
      * destruct Hnz as [->|Hnz]; [|exact Hnz]. cbn [height] in *. pose proof (height_nonneg l). lia.
Qed.

Lemma ins_ok x xv t :
  bal t ->
  bal (tree_of (ins x xv t)) /\
  height (tree_of (ins x xv t)) = height t + (if snd (fst (ins x xv t)) then 1 else 0) /\
  (snd (fst (ins x xv t)) = true -> t = Leaf \/ root_bal (tree_of (ins x xv t)) <> 0).
Proof.
  unfold tree_of. induction t as [|l IHl k v b r IHr]; intros Hb.
  - cbn [ins fst snd bal height]. repeat split; auto; lia.
  - cbn [bal] in Hb. destruct Hb as (Hl & Hr & Hbe & Hbr).
    cbn [ins]. destruct (x <? k).
    + specialize (IHl Hl). destruct (ins x xv l) as [[l' g] i]. cbn [fst snd] in IHl.
      destruct IHl as (Bl' & Hh & Hnz). destruct g.
      * pose proof (grow_left_ok l l' k v b r Bl' Hr Hbe Hbr Hh (Hnz eq_refl)) as G.
        destruct (grow true (Node l' k v b r)) as [t' g']. cbn [fst snd] in *.
        destruct G as (G1 & G2 & G3). repeat split; auto.
      * cbn [fst snd bal height] in *. repeat split; auto; try lia; try discriminate.
    + destruct (k <? x).
      * specialize (IHr Hr). destruct (ins x xv r) as [[r' g] i]. cbn [fst snd] in IHr.
        destruct IHr as (Br' & Hh & Hnz). destruct g.
        -- pose proof (grow_right_ok l r r' k v b Hl Br' Hbe Hbr Hh (Hnz eq_refl)) as G.
           destruct (grow false (Node l k v b r')) as [t' g']. cbn [fst snd] in *.
           destruct G as (G1 & G2 & G3). repeat split; auto.
        -- cbn [fst snd bal height] in *. repeat split; auto; try lia; try discriminate.
      * cbn [fst snd bal height]. repeat split; auto; try lia; try discriminate.
Qed.

Lemma grow_bst lo hi s t : bst lo hi t -> bst lo hi (fst (grow s t)).
Proof.
  destruct t as [|l k v b r]; [auto|]. intros H. unfold grow.
  destruct ((if s then b - 1 else b + 1) =? 0); [exact H|].
  destruct (((if s then b - 1 else b + 1) =? 1) || ((if s then b - 1 else b + 1) =? -1)); [exact H|].
  cbn [fst]. apply rebalance_bst. exact H.
Qed.

Lemma grow_find lo hi s t y : bst lo hi t -> avl_find y (fst (grow s t)) = avl_find y t.
Proof.
  destruct t as [|l k v b r]; [auto|]. intros H. unfold grow.
  destruct ((if s then b - 1 else b + 1) =? 0); [reflexivity|].
  destruct (((if s then b - 1 else b + 1) =? 1) || ((if s then b - 1 else b + 1) =? -1)); [reflexivity|].
  cbn [fst]. erewrite rebalance_find; [reflexivity|exact H].
Qed.

Lemma ins_bst x xv t : forall lo hi, bst lo hi t -> lo < x < hi -> bst lo hi (tree_of (ins x xv t)).
Proof.
  unfold tree_of. induction t as [|l IHl k v b r IHr]; intros lo hi H Hx.
  - cbn [ins fst bst]. auto.
  - cbn [bst] in H. destruct H as (Hk & Hl & Hr). cbn [ins].
    destruct (Z.ltb_spec x k).
    + specialize (IHl lo k Hl ltac:(lia)). destruct (ins x xv l) as [[l' g] i]. cbn [fst] in IHl.
      assert (Hn : bst lo hi (Node l' k v b r)) by (cbn [bst]; auto).
      destruct g.
      * pose proof (grow_bst lo hi true _ Hn). destruct (grow true (Node l' k v b r)). exact H0.
      * exact Hn.
    + destruct (Z.ltb_spec k x).
      * specialize (IHr k hi Hr ltac:(lia)). destruct (ins x xv r) as [[r' g] i]. cbn [fst] in IHr.
        assert (Hn : bst lo hi (Node l k v b r')) by (cbn [bst]; auto).
        destruct g.
        -- pose proof (grow_bst lo hi false _ Hn). destruct (grow false (Node l k v b r')). exact H1.
        -- exact Hn.
      * cbn [fst bst]. auto.
Qed.

(* a duplicate key is rejected and the tree is left exactly as it was *)
Lemma ins_dup x xv t w : avl_find x t = Some w -> ins x xv t = (t, false, false).
Proof.
  induction t as [|l IHl k v b r IHr]; cbn [avl_find ins]; intros H; [discriminate|].
  destruct (x <? k).
  - rewrite (IHl H). reflexivity.
  - destruct (k <? x).
    + rewrite (IHr H). reflexivity.
    + reflexivity.
Qed.

Lemma ins_new x xv t : forall lo hi, bst lo hi t -> lo < x < hi -> avl_find x t = None ->
  snd (ins x xv t) = true /\
  forall y, avl_find y (tree_of (ins x xv t)) = if y =? x then Some xv else avl_find y t.
Proof.
  unfold tree_of. induction t as [|l IHl k v b r IHr]; intros lo hi H Hx Hf.
  - cbn [ins fst snd avl_find]. split; auto. intros y.
    destruct (Z.eqb_spec y x); cmp2 y x; reflexivity.
  - cbn [bst] in H. destruct H as (Hk & Hl & Hr). cbn [avl_find] in Hf. cbn [ins].
    destruct (Z.ltb_spec x k).
    + destruct (IHl lo k Hl ltac:(lia) Hf) as (Hi & Hy).
      pose proof (ins_bst x xv l lo k Hl ltac:(lia)) as Hb'. unfold tree_of in Hb'.
      destruct (ins x xv l) as [[l' g] i]. cbn [fst snd] in *.
      assert (Hn : bst lo hi (Node l' k v b r)) by (cbn [bst]; auto).
      assert (Hfy : forall y, avl_find y (Node l' k v b r) = if y =? x then Some xv else avl_find y (Node l k v b r)).
      { intros y. cbn [avl_find]. rewrite Hy. destruct (Z.eqb_spec y x); [|reflexivity].
        subst y. destruct (Z.ltb_spec x k); [reflexivity|lia]. }
      destruct g.
      * pose proof (fun y => grow_find lo hi true _ y Hn) as Hg.
        destruct (grow true (Node l' k v b r)) as [t' g']. cbn [fst snd] in *.
        split; auto. intros y. rewrite Hg. apply Hfy.
      * cbn [fst snd]. split; auto.
    + destruct (Z.ltb_spec k x); [|discriminate].
      destruct (IHr k hi Hr ltac:(lia) Hf) as (Hi & Hy).
      pose proof (ins_bst x xv r k hi Hr ltac:(lia)) as Hb'. unfold tree_of in Hb'.
      destruct (ins x xv r) as [[r' g] i]. cbn [fst snd] in *.
      assert (Hn : bst lo hi (Node l k v b r')) by (cbn [bst]; auto).
      assert (Hfy : forall y, avl_find y (Node l k v b r') = if y =? x then Some xv else avl_find y (Node l k v b r)).
      { intros y. cbn [avl_find]. rewrite Hy. destruct (Z.eqb_spec y x); [|reflexivity].
        subst y. destruct (Z.ltb_spec x k); [lia|]. destruct (Z.ltb_spec k x); [reflexivity|lia]. }
      destruct g.
      * pose proof (fun y => grow_find lo hi false _ y Hn) as Hg.
        destruct (grow false (Node l k v b r')) as [t' g']. cbn [fst snd] in *.
        split; auto. intros y. rewrite Hg. apply Hfy.
      * cbn [fst snd]. split; auto.
Qed.

Lemma avl_insert_inv k v t : avl_inv t -> avl_inv (fst (avl_insert k v t)).
Proof.
  intros (Hs & Hb). unfold avl_insert.
  pose proof (ins_ok k v t Hb) as (B & _ & _).
  apply search_tree_iff_bst in Hs. destruct Hs as (lo & hi & Hs).
  assert (Hw : bst (Z.min lo (k - 1)) (Z.max hi (k + 1)) t) by (eapply bst_weaken; eauto; lia).
  pose proof (ins_bst k v t _ _ Hw ltac:(lia)) as S.
  unfold tree_of in *. destruct (ins k v t) as [[t' g] i]. cbn [fst] in *.
  split; [|exact B]. apply search_tree_iff_bst. eauto.
Qed.

(* ---------- removal ---------- *)

Lemma shrink_left_ok l l' k v b r :
  bal l' -> bal r -> b = height r - height l -> -1 <= b <= 1 -> height l' = height l - 1 ->
  let res := shrink true (Node l' k v b r) in
  bal (fst res) /\ height (fst res) = height (Node l k v b r) - (if snd res then 1 else 0).
Proof.
  intros Hl' Hr Hb Hbr Hh. unfold shrink.
  destruct (Z.eqb_spec (b + 1) 1) as [E1|E1]; cbn [orb].
  - cbn [fst snd bal height]. repeat split; auto; lia.
  - destruct (Z.eqb_spec (b + 1) (-1)) as [E2|E2]; [lia|].
    destruct (Z.eqb_spec (b + 1) 0) as [E0|E0].
    + cbn [fst snd bal height]. repeat split; auto; lia.
    + destruct (rebalance_ok l' k v (b + 1) r Hl' Hr ltac:(lia) ltac:(lia)) as (B & Hgt & _ & _).
      split; [exact B|]. rewrite Hgt. cbn [height]. lia.
Qed.

Lemma shrink_right_ok l r r' k v b :
  bal l -> bal r' -> b = height r - height l -> -1 <= b <= 1 -> height r' = height r - 1 ->
  let res := shrink false (Node l k v b r') in
  bal (fst res) /\ height (fst res) = height (Node l k v b r) - (if snd res then 1 else 0).
Proof.
  intros Hl Hr' Hb Hbr Hh. unfold shrink.
  destruct (Z.eqb_spec (b - 1) 1) as [E1|E1]; [lia|].
  destruct (Z.eqb_spec (b - 1) (-1)) as [E2|E2]; cbn [orb].
  - cbn [fst snd bal height]. repeat split; auto; lia.
  - destruct (Z.eqb_spec (b - 1) 0) as [E0|E0].
    + cbn [fst snd bal height]. repeat split; auto; lia.
    + destruct (rebalance_ok l k v (b - 1) r' Hl Hr' ltac:(lia) ltac:(lia)) as (B & Hgt & _ & _).
      split; [exact B|]. rewrite Hgt. cbn [height]. lia.
Qed.

Lemma shrink_if_left_ok (dec : bool) l l' k v b r :
  bal l' -> bal r -> b = height r - height l -> -1 <= b <= 1 ->
  height l' = height l - (if dec then 1 else 0) ->
  let res := shrink_if dec true (Node l' k v b r) in
  bal (fst res) /\ height (fst res) = height (Node l k v b r) - (if snd res then 1 else 0).
Proof.
  intros Hl' Hr Hb Hbr Hh. unfold shrink_if. destruct dec.
  - apply shrink_left_ok; auto.
  - cbn [fst snd bal height]. repeat split; auto; lia.
Qed.

Lemma shrink_if_right_ok (dec : bool) l r r' k v b :
  bal l -> bal r' -> b = height r - height l -> -1 <= b <= 1 ->
  height r' = height r - (if dec then 1 else 0) ->
  let res := shrink_if dec false (Node l k v b r') in
  bal (fst res) /\ height (fst res) = height (Node l k v b r) - (if snd res then 1 else 0).
Proof.
  intros Hl Hr' Hb Hbr Hh. unfold shrink_if. destruct dec.
  - apply shrink_right_ok; auto.
  - cbn [fst snd bal height]. repeat split; auto; lia.
Qed.

Lemma shrink_if_bst lo hi d s t : bst lo hi t -> bst lo hi (fst (shrink_if d s t)).
Proof.
  intros H. unfold shrink_if. destruct d; [|exact H].
  destruct t as [|l k v b r]; [exact H|]. unfold shrink.
  destruct (((if s then b + 1 else b - 1) =? 1) || ((if s then b + 1 else b - 1) =? -1)); [exact H|].
  destruct ((if s then b + 1 else b - 1) =? 0); [exact H|].
  apply rebalance_bst. exact H.
Qed.

Lemma shrink_if_find lo hi d s t y : bst lo hi t -> avl_find y (fst (shrink_if d s t)) = avl_find y t.
Proof.
  intros H. unfold shrink_if. destruct d; [|reflexivity].
  destruct t as [|l k v b r]; [reflexivity|]. unfold shrink.
  destruct (((if s then b + 1 else b - 1) =? 1) || ((if s then b + 1 else b - 1) =? -1)); [reflexivity|].
  destruct ((if s then b + 1 else b - 1) =? 0); [reflexivity|].
  erewrite rebalance_find; [reflexivity|exact H].
Qed.

(* what a (partial) removal returns, per mode *)
Definition rem_post (m : mode) (lo hi : Z) (t : tree) (res : rem_result) : Prop :=
  let t' := fst (fst res) in
  bal t' /\ height t' = height t - (if snd (fst res) then 1 else 0) /\
  match m with
  | ByKey x =>
      bst lo hi t' /\ forall y, avl_find y t' = if y =? x then None else avl_find y t
  | GoMax =>
      t <> Leaf -> exists km vm, snd res = Some (km, vm) /\ lo < km < hi /\ bst lo km t' /\
        avl_find km t = Some vm /\
        (forall y, y < km -> avl_find y t' = avl_find y t) /\
        (forall y, km < y -> avl_find y t = None)
  | GoMin =>
      t <> Leaf -> exists km vm, snd res = Some (km, vm) /\ lo < km < hi /\ bst km hi t' /\
        avl_find km t = Some vm /\
        (forall y, km < y -> avl_find y t' = avl_find y t) /\
        (forall y, y < km -> avl_find y t = None)
  end.

Lemma rem_here_ok l k v b r lo hi gl gr :
  bal (Node l k v b r) -> bst lo hi (Node l k v b r) ->
  rem_post GoMax lo k l (gl tt) -> rem_post GoMin k hi r (gr tt) ->
  let res := rem_here (Node l k v b r) l b r gl gr in
  bal (fst res) /\ height (fst res) = height (Node l k v b r) - (if snd res then 1 else 0) /\
  bst lo hi (fst res) /\ (r = Leaf -> bst lo k (fst res)) /\ (l = Leaf -> bst k hi (fst res)) /\
  forall y, avl_find y (fst res) = if y =? k then None else avl_find y (Node l k v b r).
Proof.
  intros Hbal Hbst HL HR. cbn [bal] in Hbal. destruct Hbal as (Bl & Br & Hb & Hbr).
  cbn [bst] in Hbst. destruct Hbst as (Hk & Sl & Sr).
  unfold rem_here. destruct l as [|ll lk lv lb lr].
  - destruct r as [|rl rk rv rb rr].
    + cbn [fst snd bal height bst avl_find]. repeat split; auto; try lia.
      intros y. destruct (Z.eqb_spec y k); [reflexivity|]. cmp2 y k; reflexivity.
    + destruct (gr tt) as [[r' dec] kv]. unfold rem_post in HR. cbn [fst snd] in HR.
      destruct HR as (Br' & Hh & HR). destruct (HR ltac:(discriminate)) as (km & vm & -> & Hkm & Sr' & Fkm & Fgt & Flt).
      pose proof (shrink_if_right_ok dec Leaf _ r' km vm b Bl Br' Hb Hbr Hh) as (B1 & B2).
      assert (Hn : bst lo hi (Node Leaf km vm b r')) by (cbn [bst]; repeat split; auto; lia).
      assert (Hn2 : bst k hi (Node Leaf km vm b r')) by (cbn [bst]; repeat split; auto; lia).
      split; [exact B1|]. split; [rewrite B2; cbn [height]; lia|].
      split; [apply shrink_if_bst; exact Hn|]. split; [discriminate|].
      split; [intros _; apply shrink_if_bst; exact Hn2|].
      intros y. rewrite (shrink_if_find lo hi) by exact Hn. cbn [avl_find].
      destruct (Z.eqb_spec y k) as [->|Hyk].
      * destruct (Z.ltb_spec k km); [reflexivity|lia].
      * fold (avl_find y (Node rl rk rv rb rr)).
        destruct (Z.ltb_spec y k).
        -- destruct (Z.ltb_spec y km); [reflexivity|lia].
        -- destruct (Z.ltb_spec k y); [|lia].
           destruct (Z.ltb_spec y km).
           ++ symmetry. apply Flt. lia.
           ++ destruct (Z.ltb_spec km y).
              ** apply Fgt. lia.
              ** assert (y = km) by lia. subst y. symmetry. exact Fkm.
  - destruct (gl tt) as [[l' dec] kv]. unfold rem_post in HL. cbn [fst snd] in HL.
    destruct HL as (Bl' & Hh & HL). destruct (HL ltac:(discriminate)) as (km & vm & -> & Hkm & Sl' & Fkm & Flt & Fgt).
    pose proof (shrink_if_left_ok dec _ l' km vm b r Bl' Br Hb Hbr Hh) as (B1 & B2).
    assert (Sr2 : bst km hi r) by (eapply bst_weaken; eauto; lia).
    assert (Hn : bst lo hi (Node l' km vm b r)) by (cbn [bst]; repeat split; auto; lia).
    split; [exact B1|]. split; [rewrite B2; cbn [height]; lia|].
    split; [apply shrink_if_bst; exact Hn|].
    split; [intros ->; apply shrink_if_bst; cbn [bst]; repeat split; auto; lia|].
    split; [discriminate|].
    intros y. rewrite (shrink_if_find lo hi) by exact Hn.
    set (L := Node ll lk lv lb lr) in *. cbn [avl_find].
    destruct (Z.eqb_spec y k) as [->|Hyk].
    + destruct (Z.ltb_spec k km); [lia|]. destruct (Z.ltb_spec km k); [|lia].
      apply (find_below k hi r k Sr). lia.
    + destruct (Z.ltb_spec y km).
      * destruct (Z.ltb_spec y k); [|lia]. apply Flt. lia.
      * destruct (Z.ltb_spec km y).
        -- destruct (Z.ltb_spec y k).
           ++ rewrite (Fgt y) by lia. apply (find_below k hi r y Sr). lia.
           ++ destruct (Z.ltb_spec k y); [reflexivity|lia].
        -- assert (y = km) by lia. subst y. destruct (Z.ltb_spec km k); [|lia]. symmetry. exact Fkm.
Qed.

Lemma rem_node m l k v b r :
  rem m (Node l k v b r) =
  let here := rem_here (Node l k v b r) l b r (fun _ => rem GoMax l) (fun _ => rem GoMin r) in
  match m with
  | ByKey x =>
      if x <? k then
        let '(l', dec, _) := rem m l in
        let (t', d') := shrink_if dec true (Node l' k v b r) in (t', d', None)
      else if k <? x then
        let '(r', dec, _) := rem m r in
        let (t', d') := shrink_if dec false (Node l k v b r') in (t', d', None)
      else let (t', d') := here in (t', d', None)
  | GoMax =>
      match r with
      | Leaf => let (t', d') := here in (t', d', Some (k, v))
      | Node _ _ _ _ _ =>
          let '(r', dec, kv) := rem GoMax r in
          let (t', d') := shrink_if dec false (Node l k v b r') in (t', d', kv)
      end
  | GoMin =>
      match l with
      | Leaf => let (t', d') := here in (t', d', Some (k, v))
      | Node _ _ _ _ _ =>
          let '(l', dec, kv) := rem GoMin l in
          let (t', d') := shrink_if dec true (Node l' k v b r) in (t', d', kv)
      end
  end.
Proof. reflexivity. Qed.

Lemma rem_spec t : forall m lo hi, bal t -> bst lo hi t -> rem_post m lo hi t (rem m t).
Proof.
  induction t as [|l IHl k v b r IHr]; intros m lo hi Hbal Hbst.
  - unfold rem_post. cbn [rem fst snd bal height]. split; auto. split; [lia|].
    destruct m; try (intros H; congruence).
    split; [exact I|]. intros y. cbn [avl_find]. destruct (y =? x); reflexivity.
  - pose proof Hbal as Hbal0. pose proof Hbst as Hbst0.
    cbn [bal] in Hbal. destruct Hbal as (Bl & Br & Hb & Hbr).
    cbn [bst] in Hbst. destruct Hbst as (Hk & Sl & Sr).
    pose proof (rem_here_ok l k v b r lo hi (fun _ => rem GoMax l) (fun _ => rem GoMin r)
                  Hbal0 Hbst0 (IHl GoMax lo k Bl Sl) (IHr GoMin k hi Br Sr)) as Hhere.
    rewrite rem_node. cbv zeta.
    destruct (rem_here (Node l k v b r) l b r (fun _ => rem GoMax l) (fun _ => rem GoMin r)) as [th dh].
    cbn [fst snd] in Hhere. destruct Hhere as (H1 & H2 & H3 & H4 & H5 & H6).
    destruct m as [x| |].
    + (* ByKey *)
      destruct (Z.ltb_spec x k).
      * pose proof (IHl (ByKey x) lo k Bl Sl) as P. destruct (rem (ByKey x) l) as [[l' dec] kv].
        unfold rem_post in P. cbn [fst snd] in P. destruct P as (Bl' & Hh & Sl' & Fl').
        pose proof (shrink_if_left_ok dec l l' k v b r Bl' Br Hb Hbr Hh) as (B1 & B2).
        assert (Hn : bst lo hi (Node l' k v b r)) by (cbn [bst]; auto).
        pose proof (shrink_if_bst lo hi dec true _ Hn) as B3.
        pose proof (fun y => shrink_if_find lo hi dec true _ y Hn) as B4.
        destruct (shrink_if dec true (Node l' k v b r)) as [t' d']. unfold rem_post. cbn [fst snd] in *.
        split; [exact B1|]. split; [exact B2|]. split; [exact B3|].
        intros y. rewrite B4. cbn [avl_find]. rewrite Fl'.
        destruct (Z.eqb_spec y x) as [->|]; [|reflexivity].
        destruct (Z.ltb_spec x k); [reflexivity|lia].
      * destruct (Z.ltb_spec k x).
        -- pose proof (IHr (ByKey x) k hi Br Sr) as P. destruct (rem (ByKey x) r) as [[r' dec] kv].
           unfold rem_post in P. cbn [fst snd] in P. destruct P as (Br' & Hh & Sr' & Fr').
           pose proof (shrink_if_right_ok dec l r r' k v b Bl Br' Hb Hbr Hh) as (B1 & B2).
           assert (Hn : bst lo hi (Node l k v b r')) by (cbn [bst]; auto).
           pose proof (shrink_if_bst lo hi dec false _ Hn) as B3.
           pose proof (fun y => shrink_if_find lo hi dec false _ y Hn) as B4.
           destruct (shrink_if dec false (Node l k v b r')) as [t' d']. unfold rem_post. cbn [fst snd] in *.
           split; [exact B1|]. split; [exact B2|]. split; [exact B3|].
           intros y. rewrite B4. cbn [avl_find]. rewrite Fr'.
           destruct (Z.eqb_spec y x) as [->|]; [|reflexivity].
           destruct (Z.ltb_spec x k); [lia|]. destruct (Z.ltb_spec k x); [reflexivity|lia].
        -- assert (x = k) by lia. subst x.
           unfold rem_post. cbn [fst snd]. repeat split; auto.
    + (* GoMax *)
      destruct r as [|rl rk rv rb rr].
      * unfold rem_post. cbn [fst snd]. split; [exact H1|]. split; [exact H2|].
        intros _. exists k, v. split; [reflexivity|]. split; [lia|]. split; [apply H4; reflexivity|].
        split; [cbn [avl_find]; cmp2 k k; reflexivity|].
        split.
        -- intros y Hy. rewrite H6. destruct (Z.eqb_spec y k); [lia|reflexivity].
        -- intros y Hy. cbn [avl_find]. cmp2 y k. reflexivity.
      * set (R := Node rl rk rv rb rr) in *.
        pose proof (IHr GoMax k hi Br Sr) as P. destruct (rem GoMax R) as [[r' dec] kv].
        unfold rem_post in P. cbn [fst snd] in P. destruct P as (Br' & Hh & P).
        destruct (P ltac:(subst R; discriminate)) as (km & vm & -> & Hkm & Sr' & Fkm & Flt & Fgt).
        pose proof (shrink_if_right_ok dec l R r' k v b Bl Br' Hb Hbr Hh) as (B1 & B2).
        assert (Hn : bst lo km (Node l k v b r')) by (cbn [bst]; repeat split; auto; lia).
        pose proof (shrink_if_bst lo km dec false _ Hn) as B3.
        pose proof (fun y => shrink_if_find lo km dec false _ y Hn) as B4.
        destruct (shrink_if dec false (Node l k v b r')) as [t' d']. unfold rem_post. cbn [fst snd] in *.
        split; [exact B1|]. split; [exact B2|].
        intros _. exists km, vm. split; [reflexivity|]. split; [lia|]. split; [exact B3|].
        split; [cbn [avl_find]; cmp2 km k; exact Fkm|].
        split.
        -- intros y Hy. rewrite B4. cbn [avl_find].
           destruct (y <? k); [reflexivity|]. destruct (k <? y); [|reflexivity]. apply Flt. exact Hy.
        -- intros y Hy. cbn [avl_find]. cmp2 y k. apply Fgt. exact Hy.
    + (* GoMin *)
      destruct l as [|ll lk lv lb lr].
      * unfold rem_post. cbn [fst snd]. split; [exact H1|]. split; [exact H2|].
        intros _. exists k, v. split; [reflexivity|]. split; [lia|]. split; [apply H5; reflexivity|].
        split; [cbn [avl_find]; cmp2 k k; reflexivity|].
        split.
        -- intros y Hy. rewrite H6. destruct (Z.eqb_spec y k); [lia|reflexivity].
        -- intros y Hy. cbn [avl_find]. cmp2 y k. reflexivity.
      * set (L := Node ll lk lv lb lr) in *.
        pose proof (IHl GoMin lo k Bl Sl) as P. destruct (rem GoMin L) as [[l' dec] kv].
        unfold rem_post in P. cbn [fst snd] in P. destruct P as (Bl' & Hh & P).
        destruct (P ltac:(subst L; discriminate)) as (km & vm & -> & Hkm & Sl' & Fkm & Fgt & Flt).
        pose proof (shrink_if_left_ok dec L l' k v b r Bl' Br Hb Hbr Hh) as (B1 & B2).
        assert (Hn : bst km hi (Node l' k v b r)) by (cbn [bst]; repeat split; auto; lia).
        pose proof (shrink_if_bst km hi dec true _ Hn) as B3.
        pose proof (fun y => shrink_if_find km hi dec true _ y Hn) as B4.
        destruct (shrink_if dec true (Node l' k v b r)) as [t' d']. unfold rem_post. cbn [fst snd] in *.
        split; [exact B1|]. split; [exact B2|].
        intros _. exists km, vm. split; [reflexivity|]. split; [lia|]. split; [exact B3|].
        split; [cbn [avl_find]; cmp2 km k; exact Fkm|].
        split.
        -- intros y Hy. rewrite B4. cbn [avl_find].
           destruct (y <? k); [|reflexivity]. apply Fgt. exact Hy.
        -- intros y Hy. cbn [avl_find]. cmp2 y k. apply Flt. exact Hy.
Qed.

Lemma avl_remove_inv k t : avl_inv t -> avl_inv (fst (avl_remove k t)).
Proof.
  intros (Hs & Hb). unfold avl_remove. destruct (avl_find k t); [|split; assumption].
  cbn [fst]. apply search_tree_iff_bst in Hs. destruct Hs as (lo & hi & Hs).
  pose proof (rem_spec t (ByKey k) lo hi Hb Hs) as P. unfold rem_post in P.
  destruct P as (B & _ & S & _). split; [|exact B]. apply search_tree_iff_bst. eauto.
Qed.

Lemma avl_remove_find k t : avl_inv t ->
  snd (avl_remove k t) = (if avl_find k t then true else false) /\
  forall y, avl_find y (fst (avl_remove k t)) = if y =? k then None else avl_find y t.
Proof.
  intros (Hs & Hb). unfold avl_remove. destruct (avl_find k t) eqn:E; cbn [fst snd].
  - split; [reflexivity|]. apply search_tree_iff_bst in Hs. destruct Hs as (lo & hi & Hs).
    pose proof (rem_spec t (ByKey k) lo hi Hb Hs) as P. unfold rem_post in P.
    destruct P as (_ & _ & _ & F). exact F.
  - split; [reflexivity|]. intros y. destruct (Z.eqb_spec y k); [subst; exact E|reflexivity].
Qed.

Lemma avl_insert_dup k v t w : avl_find k t = Some w -> avl_insert k v t = (t, false).
Proof. intros H. unfold avl_insert. rewrite (ins_dup k v t w H). reflexivity. Qed.

Lemma avl_insert_new k v t : avl_inv t -> avl_find k t = None ->
  snd (avl_insert k v t) = true /\
  forall y, avl_find y (fst (avl_insert k v t)) = if y =? k then Some v else avl_find y t.
Proof.
  intros (Hs & Hb) Hf. apply search_tree_iff_bst in Hs. destruct Hs as (lo & hi & Hs).
  assert (Hw : bst (Z.min lo (k - 1)) (Z.max hi (k + 1)) t) by (eapply bst_weaken; eauto; lia).
  pose proof (ins_new k v t _ _ Hw ltac:(lia) Hf) as (Hi & Hy).
  unfold avl_insert, tree_of in *. destruct (ins k v t) as [[t' g] i]. cbn [fst snd] in *. auto.
Qed.

(* ---------- the tree answers every history like a map ---------- *)

Definition avl_agree (t : tree) (m : @fmap Z) : Prop :=
  avl_inv t /\ forall y, avl_find y t = m y.

Lemma avl_step_agree t m o : avl_agree t m ->
  avl_agree (fst (avl_step t o)) (fst (map_step_reject Z.eq_dec m o)) /\
  snd (avl_step t o) = snd (map_step_reject Z.eq_dec m o).
Proof.
  intros (Hinv & Hf). destruct o as [k v|k|k]; cbn [avl_step map_step_reject].
  - rewrite <- (Hf k). destruct (avl_find k t) as [w|] eqn:E.
    + rewrite (avl_insert_dup k v t w E). cbn [fst snd]. split; [split; assumption|reflexivity].
    + pose proof (avl_insert_new k v t Hinv E) as (Hi & Hy).
      pose proof (avl_insert_inv k v t Hinv) as Hinv'.
      destruct (avl_insert k v t) as [t' ok]. cbn [fst snd] in *. subst ok.
      split; [|reflexivity]. split; [exact Hinv'|].
      intros y. rewrite Hy. unfold upd. destruct (Z.eqb_spec y k); destruct (Z.eq_dec y k); try congruence; try apply Hf.
  - cbn [fst snd]. rewrite Hf. split; [split; assumption|reflexivity].
  - pose proof (avl_remove_find k t Hinv) as (Hr & Hy).
    pose proof (avl_remove_inv k t Hinv) as Hinv'.
    destruct (avl_remove k t) as [t' ok]. cbn [fst snd] in *. subst ok.
    rewrite <- (Hf k). destruct (avl_find k t) eqn:E; cbn [fst snd].
    + split; [|reflexivity]. split; [exact Hinv'|].
      intros y. rewrite Hy. unfold upd. destruct (Z.eqb_spec y k); destruct (Z.eq_dec y k); try congruence; try apply Hf.
    + split; [|reflexivity]. split; [exact Hinv'|].
      intros y. rewrite Hy. destruct (Z.eqb_spec y k); [subst; rewrite <- Hf; auto|apply Hf].
Qed.

Lemma avl_refines ops :
  snd (run avl_step Leaf ops) = snd (run (map_step_reject Z.eq_dec) empty_map ops) /\
  avl_inv (fst (run avl_step Leaf ops)) /\
  forall y, avl_find y (fst (run avl_step Leaf ops)) = fst (run (map_step_reject Z.eq_dec) empty_map ops) y.
Proof.
  assert (H0 : avl_agree Leaf (@empty_map Z)).
  { split; [split; exact I|]. intros y. reflexivity. }
  pose proof (run_sim avl_agree avl_step (map_step_reject Z.eq_dec) avl_step_agree ops Leaf empty_map H0) as ((Hi & Hf) & Ho).
  auto.
Qed.

(* the invariant holds after every history (also a corollary of the above) *)
Lemma avl_inv_run ops t : avl_inv t -> avl_inv (fst (run avl_step t ops)).
Proof.
  revert t. induction ops as [|o ops IH]; intros t H; cbn [run]; [exact H|].
  destruct (avl_step t o) as [t1 x] eqn:E.
  assert (H1 : avl_inv t1).
  { destruct o as [k v|k|k]; cbn [avl_step] in E.
    - pose proof (avl_insert_inv k v t H). destruct (avl_insert k v t). inversion E; subst. exact H0.
    - inversion E; subst. exact H.
    - pose proof (avl_remove_inv k t H). destruct (avl_remove k t). inversion E; subst. exact H0. }
  specialize (IH t1 H1). destruct (run avl_step t1 ops). exact IH.
Qed.

(* the executable check printed by the model driver decides the invariant *)
Lemma bst_b_sound t : forall lo hi, bst_b lo hi t = true ->
  all_keys (fun x => lt_opt_l lo x = true /\ lt_opt_r x hi = true) t /\ search_tree t.
Proof.
  induction t as [|l IHl k v b r IHr]; cbn [bst_b all_keys search_tree]; intros lo hi H; [auto|].
  rewrite !andb_true_iff in H. destruct H as (((H1 & H2) & H3) & H4).
  destruct (IHl _ _ H3) as (A1 & S1). destruct (IHr _ _ H4) as (A2 & S2).
  repeat split; auto.
  - eapply all_keys_impl; [|exact A1]. cbn. intros x (Hx1 & Hx2). split; auto.
    apply Z.ltb_lt in Hx2. destruct hi; cbn in *; auto. apply Z.ltb_lt in H2. apply Z.ltb_lt. lia.
  - eapply all_keys_impl; [|exact A2]. cbn. intros x (Hx1 & Hx2). split; auto.
    apply Z.ltb_lt in Hx1. destruct lo; cbn in *; auto. apply Z.ltb_lt in H1. apply Z.ltb_lt. lia.
  - eapply all_keys_impl; [|exact A1]. cbn. intros x (_ & Hx). apply Z.ltb_lt. exact Hx.
  - eapply all_keys_impl; [|exact A2]. cbn. intros x (Hx & _). apply Z.ltb_lt. exact Hx.
Qed.

Lemma avl_okb_sound t : avl_okb t = true -> avl_inv t.
Proof.
  unfold avl_okb. rewrite andb_true_iff. intros (H1 & H2). split.
  - apply (bst_b_sound t None None H2).
  - apply balanced_b_iff. exact H1.
Qed.

(* non-vacuity: a concrete history with a right-left double rotation on insert
   and a rebalancing removal; the final tree satisfies the invariant by computation *)
Example avl_example :
  let ops := [Ins 10 1; Ins 30 2; Ins 20 3; Ins 40 4; Ins 25 5; Ins 22 6; Ins 22 7; Rem 10; Rem 40; Find 22; Find 10] in
  snd (run avl_step Leaf ops) =
    [RIns true; RIns true; RIns true; RIns true; RIns true; RIns true; RIns false; RRem true; RRem true;
     RFind (Some 6); RFind None] /\
  fst (run avl_step Leaf ops) = Node (Node Leaf 20 3 1 (Node Leaf 22 6 0 Leaf)) 25 5 (-1) (Node Leaf 30 2 0 Leaf) /\
  avl_okb (fst (run avl_step Leaf ops)) = true.
Proof. vm_compute. repeat split. Qed.
