(* C09 — the reference map every structure is compared with, and the
   simulation lemma that lifts a per-operation agreement to whole histories. *)
From MV Require Import C09.Model.
Local Open Scope Z_scope.

Section RefMap.
  Context {K : Type} (eq_dec : forall a b : K, {a = b} + {a <> b}).

  Definition fmap := K -> option Z.
  Definition empty_map : fmap := fun _ => None.
  Definition upd (m : fmap) (k : K) (x : option Z) : fmap :=
    fun y => if eq_dec y k then x else m y.

  (* tree and table: a duplicate key is rejected and nothing changes *)
  Definition map_step_reject (m : fmap) (o : op K) : fmap * res :=
    match o with
    | Ins k v => match m k with
                 | Some _ => (m, RIns false)
                 | None => (upd m k (Some v), RIns true)
                 end
    | Find k => (m, RFind (m k))
    | Rem k => match m k with
               | Some _ => (upd m k None, RRem true)
               | None => (m, RRem false)
               end
    end.

  (* trie: an insertion overwrites *)
  Definition map_step_overwrite (m : fmap) (o : op K) : fmap :=
    match o with
    | Ins k v => upd m k (Some v)
    | Find k => m
    | Rem k => upd m k None
    end.

  Lemma upd_same m k x : upd m k x k = x.
  Proof. unfold upd. destruct (eq_dec k k); congruence. Qed.
  Lemma upd_other m k x y : y <> k -> upd m k x y = m y.
  Proof. unfold upd. destruct (eq_dec y k); congruence. Qed.
End RefMap.

(* outputs of two state machines agree on every history when a relation between
   their states is preserved by every step and forces equal outputs *)
Lemma run_sim {S1 S2 K} (R : S1 -> S2 -> Prop)
      (step1 : S1 -> op K -> S1 * res) (step2 : S2 -> op K -> S2 * res) :
  (forall s1 s2 o, R s1 s2 ->
      R (fst (step1 s1 o)) (fst (step2 s2 o)) /\ snd (step1 s1 o) = snd (step2 s2 o)) ->
  forall ops s1 s2, R s1 s2 ->
    R (fst (run step1 s1 ops)) (fst (run step2 s2 ops)) /\
    snd (run step1 s1 ops) = snd (run step2 s2 ops).
Proof.
  intros Hstep ops. induction ops as [|o ops IH]; intros s1 s2 HR; simpl.
  - split; [exact HR | reflexivity].
  - destruct (Hstep s1 s2 o HR) as [HR' Hout].
    destruct (step1 s1 o) as [s1' x1]. destruct (step2 s2 o) as [s2' x2]. simpl in *.
    destruct (IH s1' s2' HR') as [HR'' Houts].
    destruct (run step1 s1' ops) as [s1'' xs1]. destruct (run step2 s2' ops) as [s2'' xs2]. simpl in *.
    split; [exact HR'' | congruence].
Qed.

(* the same, restricted to histories whose operations satisfy a predicate
   (used for key well-formedness) *)
Lemma run_sim_P {S1 S2 K} (P : op K -> Prop) (R : S1 -> S2 -> Prop)
      (step1 : S1 -> op K -> S1 * res) (step2 : S2 -> op K -> S2 * res) :
  (forall s1 s2 o, P o -> R s1 s2 ->
      R (fst (step1 s1 o)) (fst (step2 s2 o)) /\ snd (step1 s1 o) = snd (step2 s2 o)) ->
  forall ops s1 s2, Forall P ops -> R s1 s2 ->
    R (fst (run step1 s1 ops)) (fst (run step2 s2 ops)) /\
    snd (run step1 s1 ops) = snd (run step2 s2 ops).
Proof.
  intros Hstep ops. induction ops as [|o ops IH]; intros s1 s2 HP HR; simpl.
  - split; [exact HR | reflexivity].
  - inversion HP as [|? ? Po Pops]; subst.
    destruct (Hstep s1 s2 o Po HR) as [HR' Hout].
    destruct (step1 s1 o) as [s1' x1]. destruct (step2 s2 o) as [s2' x2]. simpl in *.
    destruct (IH s1' s2' Pops HR') as [HR'' Houts].
    destruct (run step1 s1' ops) as [s1'' xs1]. destruct (run step2 s2' ops) as [s2'' xs2]. simpl in *.
    split; [exact HR'' | congruence].
Qed.
