(* C09 — allocation failure inside insert / put (exhausted constant-size node pool, malloc returning NULL).
   Contract: a failed insert reports failure and the structure still answers like the reference map for
   every later operation; without an injected failure nothing fails.  Tree and table: a failed insert
   changes nothing.  Trie: the unchanged code leaves the nodes it created before the failing allocation in
   place; they carry no data, so the MAP VIEW (every lookup) is unchanged -- that is what is proved. *)
From MV Require Import C09.Model C09.Spec C09.ProofsAvl C09.ProofsHt C09.ProofsTrie.
Local Open Scope Z_scope.

Lemma rung_sim_P {S1 S2 O X} (P : O -> Prop) (R : S1 -> S2 -> Prop)
      (step1 : S1 -> O -> S1 * X) (step2 : S2 -> O -> S2 * X) :
  (forall s1 s2 o, P o -> R s1 s2 ->
      R (fst (step1 s1 o)) (fst (step2 s2 o)) /\ snd (step1 s1 o) = snd (step2 s2 o)) ->
  forall ops s1 s2, Forall P ops -> R s1 s2 ->
    R (fst (rung step1 s1 ops)) (fst (rung step2 s2 ops)) /\
    snd (rung step1 s1 ops) = snd (rung step2 s2 ops).
Proof.
  intros Hstep ops. induction ops as [|o ops IH]; intros s1 s2 HP HR; simpl.
  - split; [exact HR | reflexivity].
  - inversion HP as [|? ? Po Pops]; subst.
    destruct (Hstep s1 s2 o Po HR) as [HR' Hout].
    destruct (step1 s1 o) as [s1' x1]. destruct (step2 s2 o) as [s2' x2]. simpl in *.
    destruct (IH s1' s2' Pops HR') as [HR'' Houts].
    destruct (rung step1 s1' ops) as [s1'' xs1]. destruct (rung step2 s2' ops) as [s2'' xs2]. simpl in *.
    split; [exact HR'' | congruence].
Qed.

Lemma Forall_True' {A} (l : list A) : Forall (fun _ => True) l.
Proof. induction l; constructor; auto. Qed.

(* the reference: an insert whose allocation fails reports failure and leaves the map alone *)
Definition map_step_o (m : @fmap Z) (a : opa Z) : @fmap Z * res :=
  match a with
  | OpA (Ins k v) b => if alloc_ok b then map_step_reject Z.eq_dec m (Ins k v) else (m, RIns false)
  | OpA o _ => map_step_reject Z.eq_dec m o
  end.

(* ---------------------------------------------------------------------- *)
Lemma avl_step_o_agree t m a : avl_agree t m ->
  avl_agree (fst (avl_step_o t a)) (fst (map_step_o m a)) /\ snd (avl_step_o t a) = snd (map_step_o m a).
Proof.
  intros Ha. destruct a as [o b].
  destruct o as [k v|k|k]; try (exact (avl_step_agree t m _ Ha)).
  unfold avl_step_o, map_step_o, avl_insert_o. destruct (alloc_ok b).
  - exact (avl_step_agree t m (Ins k v) Ha).
  - cbn [fst snd]. split; [exact Ha|reflexivity].
Qed.

Lemma avl_refines_alloc ops :
  snd (rung avl_step_o Leaf ops) = snd (rung map_step_o empty_map ops) /\
  avl_inv (fst (rung avl_step_o Leaf ops)) /\
  forall y, avl_find y (fst (rung avl_step_o Leaf ops)) = fst (rung map_step_o empty_map ops) y.
Proof.
  assert (H0 : avl_agree Leaf (@empty_map Z)).
  { split; [split; exact I|]. intros y. reflexivity. }
  pose proof (rung_sim_P (fun _ => True) avl_agree avl_step_o map_step_o
                (fun s1 s2 o _ => avl_step_o_agree s1 s2 o) ops _ _ (Forall_True' ops) H0) as ((Hi & Hf) & Ho).
  auto.
Qed.

Lemma ht_step_o_agree hash t m a : ht_agree hash t m ->
  ht_agree hash (fst (ht_step_o hash t a)) (fst (map_step_o m a)) /\ snd (ht_step_o hash t a) = snd (map_step_o m a).
Proof.
  intros Ha. destruct a as [o b].
  destruct o as [k v|k|k]; try (exact (ht_step_agree hash t m _ Ha)).
  unfold ht_step_o, map_step_o, ht_put_o. destruct (alloc_ok b).
  - exact (ht_step_agree hash t m (Ins k v) Ha).
  - cbn [fst snd]. split; [exact Ha|reflexivity].
Qed.

Lemma ht_refines_alloc hash ts ops :
  snd (rung (ht_step_o hash) (ht_init ts) ops) = snd (rung map_step_o empty_map ops) /\
  forall y, ht_find hash (fst (rung (ht_step_o hash) (ht_init ts) ops)) y = fst (rung map_step_o empty_map ops) y.
Proof.
  assert (H0 : ht_agree hash (ht_init ts) (@empty_map Z)).
  { split; [apply ht_init_wf|]. intros y. apply ht_init_empty. }
  pose proof (rung_sim_P (fun _ => True) (ht_agree hash) (ht_step_o hash) map_step_o
                (fun s1 s2 o _ => ht_step_o_agree hash s1 s2 o) ops _ _ (Forall_True' ops) H0) as ((_ & Hf) & Ho).
  auto.
Qed.

(* ---------------------------------------------------------------------- *)
(* trie *)
Lemma ins_walk_o_ok key : forall b t v,
  snd (ins_walk_o b t key v) = true -> fst (ins_walk_o b t key v) = ins_walk t key v.
Proof.
  induction key as [|c rest IH]; intros b t v H; [reflexivity|].
  cbn [ins_walk_o ins_walk] in *.
  destruct (cget (byte_index c) (t_children t)) as [ch|].
  - specialize (IH b ch v). destruct (ins_walk_o b ch rest v) as [ch' ok]. cbn [fst snd] in *. rewrite IH by exact H. reflexivity.
  - destruct b as [|b']; [discriminate H|].
    specialize (IH b' trie_empty v). destruct (ins_walk_o b' trie_empty rest v) as [ch' ok]. cbn [fst snd] in *.
    rewrite IH by exact H. reflexivity.
Qed.

(* a failed walk leaves every lookup below the node as it was: the new nodes carry no data *)
Lemma ins_walk_o_fail key : forall b t v,
  snd (ins_walk_o b t key v) = false ->
  t_data (fst (ins_walk_o b t key v)) = t_data t /\
  (forall key', wl (fst (ins_walk_o b t key v)) key' = wl t key').
Proof.
  induction key as [|c rest IH]; intros b t v H; [discriminate H|].
  cbn [ins_walk_o] in *.
  destruct (cget (byte_index c) (t_children t)) as [ch|] eqn:E.
  - specialize (IH b ch v). destruct (ins_walk_o b ch rest v) as [ch' ok]. cbn [fst snd] in *.
    destruct (IH H) as (_ & Hw). split; [reflexivity|].
    intros [|c' rest']; [reflexivity|]. rewrite !wl_cons. cbn [t_children].
    destruct (Z.eq_dec c c') as [->|Hc].
    + rewrite cget_cset_same, E. apply Hw.
    + rewrite cget_cset_other; [reflexivity|]. intros E'. apply byte_index_inj in E'. congruence.
  - destruct b as [|b']; [cbn [fst]; split; auto|].
    specialize (IH b' trie_empty v). destruct (ins_walk_o b' trie_empty rest v) as [ch' ok]. cbn [fst snd] in *.
    destruct (IH H) as (_ & Hw). split; [reflexivity|].
    intros [|c' rest']; [reflexivity|]. rewrite !wl_cons. cbn [t_children].
    destruct (Z.eq_dec c c') as [->|Hc].
    + rewrite cget_cset_same, E, Hw. apply wl_empty.
    + rewrite cget_cset_other; [reflexivity|]. intros E'. apply byte_index_inj in E'. congruence.
Qed.

Lemma ins_walk_o_slot0 c rest b t v : byte_index c <> 0 ->
  cget 0 (t_children (fst (ins_walk_o b t (c :: rest) v))) = cget 0 (t_children t).
Proof.
  intros Hc. cbn [ins_walk_o]. destruct (cget (byte_index c) (t_children t)) as [ch|].
  - destruct (ins_walk_o b ch rest v). cbn [fst t_children]. apply cget_cset_other. exact Hc.
  - destruct b as [|b']; [reflexivity|]. destruct (ins_walk_o b' trie_empty rest v). cbn [fst t_children].
    apply cget_cset_other. exact Hc.
Qed.

Lemma ins_walk_o_enough key : forall b t v, (length key <= b)%nat -> snd (ins_walk_o b t key v) = true.
Proof.
  induction key as [|c rest IH]; intros b t v H; [reflexivity|].
  cbn [ins_walk_o]. cbn [length] in H. destruct (cget (byte_index c) (t_children t)) as [ch|].
  - specialize (IH b ch v). destruct (ins_walk_o b ch rest v). cbn [snd] in *. apply IH. lia.
  - destruct b as [|b']; [lia|]. specialize (IH b' trie_empty v). destruct (ins_walk_o b' trie_empty rest v).
    cbn [snd] in *. apply IH. lia.
Qed.

(* muggle_trie_insert with b allocations left: success = the insert of the model without failures; failure =
   every lookup unchanged; and it cannot fail when the budget covers the key *)
Lemma trie_insert_o_spec b root key v : valid_key key ->
  (snd (trie_insert_o b root key v) = true -> fst (trie_insert_o b root key v) = trie_insert root key v) /\
  (snd (trie_insert_o b root key v) = false ->
     forall key', trie_lookup (fst (trie_insert_o b root key v)) key' = trie_lookup root key') /\
  ((length key < b)%nat -> snd (trie_insert_o b root key v) = true).
Proof.
  intros Hk. destruct key as [|c rest].
  - cbn [trie_insert_o trie_insert]. destruct (cget 0 (t_children root)) as [ch|].
    + cbn [fst snd]. repeat split; auto; discriminate.
    + destruct b as [|b']; cbn [fst snd length].
      * repeat split; auto; try discriminate. lia.
      * repeat split; auto; discriminate.
  - change (trie_insert_o b root (c :: rest) v) with (ins_walk_o b root (c :: rest) v).
    change (trie_insert root (c :: rest) v) with (ins_walk root (c :: rest) v).
    split; [apply ins_walk_o_ok|]. split.
    + intros Hf key'. destruct (ins_walk_o_fail (c :: rest) b root v Hf) as (_ & Hw).
      rewrite !trie_lookup_unfold. destruct key' as [|c' rest'].
      * unfold slot0. rewrite ins_walk_o_slot0; [reflexivity|]. apply (head_nonzero c rest Hk).
      * apply Hw.
    + intros Hl. apply ins_walk_o_enough. lia.
Qed.

(* the reference follows the REPORTED results: a reported failure leaves the map alone, every other step is
   the map step of the callback-free statement (removals observed as true, [obs]) *)
Fixpoint ref_run (m : @fmap (list Z)) (ops : list (opa (list Z))) (rs : list res) : @fmap (list Z) * list res :=
  match ops, rs with
  | OpA o _ :: ops', r :: rs' =>
      let (m', x) := match o, r with
                     | Ins _ _, RIns false => (m, RIns false)
                     | _, _ => map_step_trie m o
                     end in
      let (m'', xs) := ref_run m' ops' rs' in (m'', x :: xs)
  | _, _ => (m, [])
  end.

Definition valid_opa (a : opa (list Z)) : Prop := match a with OpA o _ => valid_op o end.
Definition no_failure_injected (a : opa (list Z)) : Prop := match a with OpA _ b => b = None end.
Definition reports_success (a : opa (list Z)) (r : res) : Prop :=
  match a with OpA (Ins _ _) _ => r = RIns true | _ => True end.

Lemma trie_refines_alloc_from ops : forall t m, Forall valid_opa ops -> trie_agree t m ->
  let rs := snd (rung trie_step_o t ops) in
  map obs rs = snd (ref_run m ops rs) /\
  trie_agree (fst (rung trie_step_o t ops)) (fst (ref_run m ops rs)) /\
  Forall2 (fun a r => no_failure_injected a -> reports_success a r) ops rs.
Proof.
  induction ops as [|a ops IH]; intros t m Hv Ha; cbn [rung].
  - cbn. repeat split; auto.
  - inversion Hv as [|? ? Va Vops]; subst. destruct a as [o b]. cbn [valid_opa] in Va.
    assert (Hstep : exists t1 r1 m1 x1,
               trie_step_o t (OpA o b) = (t1, r1) /\
               (match o, r1 with Ins _ _, RIns false => (m, RIns false) | _, _ => map_step_trie m o end) = (m1, x1) /\
               obs r1 = x1 /\ trie_agree t1 m1 /\ (b = None -> reports_success (OpA o b) r1)).
    { destruct o as [k v|k|k].
      - cbn [trie_step_o]. unfold valid_op in Va. cbn [op_key] in Va.
        destruct (trie_insert_o_spec (budget_of b k) t k v Va) as (Hok & Hfail & Hen).
        destruct (trie_insert_o (budget_of b k) t k v) as [t1 ok]. cbn [fst snd] in *. destruct ok.
        + eexists _, _, _, _. split; [reflexivity|]. split; [reflexivity|]. split; [reflexivity|]. split.
          * rewrite (Hok eq_refl). intros key Hkey. rewrite trie_insert_lookup by assumption.
            unfold upd. destruct (key_eq_dec key k); [reflexivity|apply Ha; assumption].
          * intros _. reflexivity.
        + eexists _, _, _, _. split; [reflexivity|]. split; [reflexivity|]. split; [reflexivity|]. split.
          * intros key Hkey. rewrite (Hfail eq_refl). apply Ha. exact Hkey.
          * intros ->. cbn [budget_of] in Hen. cbn [reports_success]. rewrite Hen; [reflexivity|lia].
      - pose proof (trie_step_agree t m (Find k) Va Ha) as [H1 H2]. unfold trie_step_obs in *.
        cbn [trie_step_o]. destruct (trie_step t (Find k)) as [t1 r1] eqn:E. cbn [trie_step] in E. inversion E; subst.
        eexists _, _, _, _. split; [reflexivity|]. split; [reflexivity|]. cbn [fst snd obs] in *. repeat split; auto.
      - pose proof (trie_step_agree t m (Rem k) Va Ha) as [H1 H2]. unfold trie_step_obs in *.
        cbn [trie_step_o]. destruct (trie_step t (Rem k)) as [t1 r1] eqn:E.
        assert (exists ok, r1 = RRem ok) as [ok ->].
        { cbn [trie_step] in E. destruct (trie_remove t k). inversion E. eexists. reflexivity. }
        eexists _, _, _, _. split; [reflexivity|]. split; [reflexivity|]. cbn [fst snd obs] in *. repeat split; auto. }
    destruct Hstep as (t1 & r1 & m1 & x1 & E1 & E2 & Hx & Ha1 & Hrep).
    rewrite E1. specialize (IH t1 m1 Vops Ha1). cbv zeta in IH.
    destruct (rung trie_step_o t1 ops) as [t2 rs]. cbn [fst snd] in *.
    cbn [ref_run]. rewrite E2. destruct (ref_run m1 ops rs) as [m2 xs]. cbn [fst snd map] in *.
    destruct IH as (I1 & I2 & I3). repeat split; [congruence|exact I2|]. constructor; [exact Hrep|exact I3].
Qed.

Lemma trie_refines_alloc ops : Forall valid_opa ops ->
  let rs := snd (rung trie_step_o trie_empty ops) in
  map obs rs = snd (ref_run empty_map ops rs) /\
  (forall key, valid_key key ->
     trie_lookup (fst (rung trie_step_o trie_empty ops)) key = fst (ref_run empty_map ops rs) key) /\
  Forall2 (fun a r => no_failure_injected a -> reports_success a r) ops rs.
Proof.
  intros Hv. apply trie_refines_alloc_from; [exact Hv|]. intros key _. destruct key; reflexivity.
Qed.

(* ---------------------------------------------------------------------- *)
(* non-vacuity: the third new node of "abxyz" cannot be allocated; "ab" and "abx" exist as empty nodes only *)
Example trie_alloc_example :
  snd (rung trie_step_o trie_empty
         [OpA (Ins [97; 98] 1) None; OpA (Ins [97; 98; 120; 121; 122] 2) (Some 2%nat); OpA (Find [97; 98; 120]) None;
          OpA (Ins [114] 3) None; OpA (Find [97; 98; 120]) None; OpA (Find [114]) None; OpA (Find [97; 98]) None;
          OpA (Ins [97; 98; 120; 121; 122] 4) (Some 1%nat); OpA (Find [97; 98; 120; 121; 122]) None]) =
  [RIns true; RIns false; RFind None; RIns true; RFind None; RFind (Some 3); RFind (Some 1); RIns true; RFind (Some 4)].
Proof. vm_compute. reflexivity. Qed.

Example avl_alloc_example :
  snd (rung avl_step_o Leaf [OpA (Ins 1 11) None; OpA (Ins 2 12) (Some O); OpA (Find 2) None; OpA (Ins 1 13) (Some O);
                             OpA (Ins 2 14) None; OpA (Find 2) None]) =
  [RIns true; RIns false; RFind None; RIns false; RIns true; RFind (Some 14)].
Proof. vm_compute. reflexivity. Qed.
