(* C09 — heap-level AVL tree (ModelHeap.v): the pointer program refines the
   functional tree model and keeps parent links consistent. *)
From MV Require Import C09.Model C09.ModelHeap C09.Spec C09.ProofsAvl.
From Coq Require Import Arith.
Local Open Scope Z_scope.

(* ---------- trees decorated with node ids: what the heap represents ---------- *)

Inductive ptree := PLeaf | PNode (x : nat) (l : ptree) (k v b : Z) (r : ptree).

Fixpoint erase (t : ptree) : tree :=
  match t with PLeaf => Leaf | PNode _ l k v b r => Node (erase l) k v b (erase r) end.
Definition pptr (t : ptree) : ptr := match t with PLeaf => None | PNode x _ _ _ _ _ => Some x end.
Fixpoint ids (t : ptree) : list nat :=
  match t with PLeaf => [] | PNode x l _ _ _ r => x :: ids l ++ ids r end.

(* the heap holds exactly the records of t below a parent pointer [par]:
   left/right are the children's ids, parent is the id one level up *)
Fixpoint wf_at (h : heap) (t : ptree) (par : ptr) : Prop :=
  match t with
  | PLeaf => True
  | PNode x l k v b r =>
      h x = mkn (pptr l) (pptr r) par b k v /\ wf_at h l (Some x) /\ wf_at h r (Some x)
  end.

(* no id occurs twice (count_occ form of NoDup: linear arithmetic decides it) *)
Definition nodup (l : list nat) : Prop := forall a, (count_occ Nat.eq_dec l a <= 1)%nat.

Lemma nodup_NoDup l : nodup l <-> NoDup l.
Proof. unfold nodup. symmetry. apply NoDup_count_occ. Qed.

Lemma in_count (l : list nat) a : In a l <-> (count_occ Nat.eq_dec l a > 0)%nat.
Proof. apply count_occ_In. Qed.
Lemma notin_count (l : list nat) a : ~ In a l <-> count_occ Nat.eq_dec l a = 0%nat.
Proof. apply count_occ_not_In. Qed.

(* turn membership facts about [a] into counts, split the counts, decide *)
Ltac cnt_hyps a :=
  repeat match goal with
  | H : In a _ |- _ => apply in_count in H
  | H : ~ In a _ |- _ => apply notin_count in H
  | H : nodup _ |- _ => let N := fresh "N" in pose proof (H a) as N; revert H
  end; intros.
Ltac cnt_norm :=
  repeat (progress (cbn [ids count_occ app] in *) || rewrite count_occ_app in *).
Ltac cnt_dec :=
  repeat match goal with
  | |- context [Nat.eq_dec ?p ?q] => destruct (Nat.eq_dec p q)
  | H : context [Nat.eq_dec ?p ?q] |- _ => destruct (Nat.eq_dec p q)
  end.
Ltac cnt a := cnt_hyps a; try (apply notin_count); try (apply in_count); cnt_norm; cnt_dec; subst; try lia; try congruence.

(* ---------- heap update lemmas ---------- *)

Lemma hmod_same h x f : hmod h x f x = f (h x).
Proof. unfold hmod. rewrite Nat.eqb_refl. reflexivity. Qed.
Lemma hmod_other h x f y : y <> x -> hmod h x f y = h y.
Proof. intros H. unfold hmod. destruct (Nat.eqb_spec y x); [contradiction|reflexivity]. Qed.
Lemma hupd_same h x n : hupd h x n x = n.
Proof. unfold hupd. rewrite Nat.eqb_refl. reflexivity. Qed.
Lemma hupd_other h x n y : y <> x -> hupd h x n y = h y.
Proof. intros H. unfold hupd. destruct (Nat.eqb_spec y x); [contradiction|reflexivity]. Qed.

Lemma relink_out h parent x z y : (forall p, parent = Some p -> y <> p) -> relink h parent x z y = h y.
Proof.
  intros H. unfold relink. destruct parent as [p|]; [|reflexivity].
  specialize (H p eq_refl). destruct (ptr_is (hl (h p)) x); unfold set_l, set_r; apply hmod_other; exact H.
Qed.

Ltac neq := solve [assumption | congruence | (apply not_eq_sym; assumption)].
Ltac hstep :=
  match goal with
  | |- context [hmod ?h ?x ?f ?x] => rewrite (hmod_same h x f)
  | |- context [hmod ?h ?x ?f ?y] => rewrite (hmod_other h x f y) by neq
  | |- context [hupd ?h ?x ?n ?x] => rewrite (hupd_same h x n)
  | |- context [hupd ?h ?x ?n ?y] => rewrite (hupd_other h x n y) by neq
  end.
Ltac hsimp := unfold set_l, set_r, set_p, set_b, set_kv; repeat hstep.

Lemma wf_at_frame h h' t par : (forall y, In y (ids t) -> h' y = h y) -> wf_at h t par -> wf_at h' t par.
Proof.
  revert par. induction t as [|x l IHl k v b r IHr]; intros par Hf H; cbn [wf_at] in *; [exact I|].
  destruct H as (Hx & Hl & Hr). split; [rewrite Hf; [exact Hx|cbn; auto]|].
  split; [apply IHl|apply IHr]; auto; intros y Hy; apply Hf; cbn [ids In]; right; apply in_or_app; auto.
Qed.

(* the root of t gets a new parent pointer, nothing else in t changes *)
Lemma wf_at_reparent h h' t par par' :
  wf_at h t par -> nodup (ids t) ->
  (forall y, In y (ids t) -> h' y = if ptr_is (pptr t) y then with_p par' (h y) else h y) ->
  wf_at h' t par'.
Proof.
  intros H ND Hf. destruct t as [|c l k v b r]; [exact I|].
  cbn [wf_at pptr ptr_is] in *. destruct H as (Hc & Hl & Hr).
  split.
  - rewrite Hf by (cbn; auto). rewrite Nat.eqb_refl, Hc. reflexivity.
  - split; (eapply wf_at_frame; [|eassumption]); intros y Hy.
    + assert (y <> c) by (intros ->; cnt c).
      rewrite Hf by (cbn [ids In]; right; apply in_or_app; auto).
      destruct (Nat.eqb_spec c y); [congruence|reflexivity].
    + assert (y <> c) by (intros ->; cnt c).
      rewrite Hf by (cbn [ids In]; right; apply in_or_app; auto).
      destruct (Nat.eqb_spec c y); [congruence|reflexivity].
Qed.

(* ---------- consistency of the links, read off the representation ---------- *)

Lemma wf_at_links h t par : wf_at h t par ->
  forall x, In x (ids t) ->
    (forall c, hl (h x) = Some c -> In c (ids t) /\ hp (h c) = Some x) /\
    (forall c, hr (h x) = Some c -> In c (ids t) /\ hp (h c) = Some x).
Proof.
  revert par. induction t as [|y l IHl k v b r IHr]; intros par H x Hx; [destruct Hx|].
  cbn [wf_at] in H. destruct H as (Hy & Hl & Hr). cbn [ids] in *.
  destruct Hx as [->|Hx].
  - rewrite Hy. cbn [hl hr]. split; intros c Hc.
    + destruct l as [|c' ? ? ? ? ?]; [discriminate|]. cbn [pptr] in Hc. inversion Hc; subst c'.
      cbn [wf_at] in Hl. destruct Hl as (Hc' & _). rewrite Hc'. cbn. auto.
    + destruct r as [|c' ? ? ? ? ?]; [discriminate|]. cbn [pptr] in Hc. inversion Hc; subst c'.
      cbn [wf_at] in Hr. destruct Hr as (Hc' & _). rewrite Hc'. cbn [hp]. split; [|reflexivity].
      right. apply in_or_app. right. cbn. auto.
  - apply in_app_or in Hx. destruct Hx as [Hx|Hx].
    + destruct (IHl _ Hl x Hx) as (A & B). split; intros c Hc.
      * destruct (A c Hc). split; [right; apply in_or_app; auto|assumption].
      * destruct (B c Hc). split; [right; apply in_or_app; auto|assumption].
    + destruct (IHr _ Hr x Hx) as (A & B). split; intros c Hc.
      * destruct (A c Hc). split; [right; apply in_or_app; auto|assumption].
      * destruct (B c Hc). split; [right; apply in_or_app; auto|assumption].
Qed.

(* ---------- the operations on decorated trees (same case splits as Model.v) ---------- *)

Definition protate_left (t : ptree) : ptree * bool :=
  match t with
  | PNode x t1 xk xv xb (PNode z t23 zk zv zb t4) =>
      if zb =? 0 then (PNode z (PNode x t1 xk xv 1 t23) zk zv (-1) t4, false)
      else (PNode z (PNode x t1 xk xv 0 t23) zk zv 0 t4, true)
  | _ => (t, false)
  end.

Definition protate_right (t : ptree) : ptree * bool :=
  match t with
  | PNode x (PNode z t4 zk zv zb t23) xk xv xb t1 =>
      if zb =? 0 then (PNode z t4 zk zv 1 (PNode x t23 xk xv (-1) t1), false)
      else (PNode z t4 zk zv 0 (PNode x t23 xk xv 0 t1), true)
  | _ => (t, false)
  end.

Definition protate_right_left (t : ptree) : ptree :=
  match t with
  | PNode x t1 xk xv xb (PNode z (PNode y t2 yk yv yb t3) zk zv zb t4) =>
      let '(xb', zb') :=
        if 0 <? yb then (-1, 0) else if yb =? 0 then (0, 0) else (0, 1) in
      PNode y (PNode x t1 xk xv xb' t2) yk yv 0 (PNode z t3 zk zv zb' t4)
  | _ => t
  end.

Definition protate_left_right (t : ptree) : ptree :=
  match t with
  | PNode x (PNode z t4 zk zv zb (PNode y t3 yk yv yb t2)) xk xv xb t1 =>
      let '(xb', zb') :=
        if 0 <? yb then (0, -1) else if yb =? 0 then (0, 0) else (1, 0) in
      PNode y (PNode z t4 zk zv zb' t3) yk yv 0 (PNode x t2 xk xv xb' t1)
  | _ => t
  end.

Definition prebalance (t : ptree) : ptree * bool :=
  match t with
  | PNode _ l _ _ b r =>
      if b <? -1 then
        match l with
        | PNode _ _ _ _ cb _ => if cb <=? 0 then protate_right t else (protate_left_right t, true)
        | PLeaf => (t, false)
        end
      else if 1 <? b then
        match r with
        | PNode _ _ _ _ cb _ => if 0 <=? cb then protate_left t else (protate_right_left t, true)
        | PLeaf => (t, false)
        end
      else (t, false)
  | PLeaf => (PLeaf, false)
  end.

Lemma erase_prebalance t :
  erase (fst (prebalance t)) = fst (rebalance (erase t)) /\ snd (prebalance t) = snd (rebalance (erase t)).
Proof.
  destruct t as [|x l k v b r]; [split; reflexivity|]. cbn [prebalance erase rebalance].
  destruct (b <? -1).
  - destruct l as [|z t4 zk zv zb lr]; [split; reflexivity|]. cbn [erase].
    destruct (zb <=? 0).
    + cbn [protate_right rotate_right]. destruct (zb =? 0); split; reflexivity.
    + destruct lr as [|y t3 yk yv yb t2]; [split; reflexivity|].
      cbn [protate_left_right rotate_left_right erase fst snd].
      destruct (0 <? yb); [|destruct (yb =? 0)]; split; reflexivity.
  - destruct (1 <? b); [|split; reflexivity].
    destruct r as [|z rl zk zv zb t4]; [split; reflexivity|]. cbn [erase].
    destruct (0 <=? zb).
    + cbn [protate_left rotate_left]. destruct (zb =? 0); split; reflexivity.
    + destruct rl as [|y t2 yk yv yb t3]; [split; reflexivity|].
      cbn [protate_right_left rotate_right_left erase fst snd].
      destruct (0 <? yb); [|destruct (yb =? 0)]; split; reflexivity.
Qed.

(* ---------- the four rotations on the heap ---------- *)

Ltac fsimp := cbn [with_l with_r with_p with_b with_kv hl hr hp hb hk hv].

Lemma pptr_notin t a : ~ In a (ids t) -> ptr_is (pptr t) a = false.
Proof.
  destruct t as [|c l k v b r]; [reflexivity|]. cbn [pptr ptr_is ids In]. intros H.
  destruct (Nat.eqb_spec c a); [exfalso; auto|reflexivity].
Qed.

Lemma set_p_opt_at h c p w : set_p_opt h c p w = if ptr_is c w then with_p p (h w) else h w.
Proof.
  destruct c as [y|]; [|reflexivity]. cbn [set_p_opt ptr_is]. unfold set_p, hmod.
  rewrite (Nat.eqb_sym y w). destruct (w =? y)%nat; reflexivity.
Qed.

Lemma set_p_opt_out h c p w : ptr_is c w = false -> set_p_opt h c p w = h w.
Proof. intros H. rewrite set_p_opt_at, H. reflexivity. Qed.

Ltac sp_out := apply pptr_notin; solve [assumption | eauto].
Ltac hstep2 :=
  match goal with
  | |- context [hmod ?h ?x ?f ?x] => rewrite (hmod_same h x f)
  | |- context [hmod ?h ?x ?f ?y] => rewrite (hmod_other h x f y) by neq
  | |- context [set_p_opt ?h ?c ?p ?w] => rewrite (set_p_opt_out h c p w) by sp_out
  end.
Ltac hsimp2 := unfold set_l, set_r, set_p, set_b, set_kv; repeat hstep2.

(* two node ids of the same duplicate-free tree differ *)
Ltac ne0 a b := assert (a <> b) by (let E := fresh "E" in intro E; rewrite E in *; cnt b).
(* node id a does not occur in the subtree t *)
Ltac notin a t := assert (~ In a (ids t)) by (cnt a).
(* the subtrees t and u share no id *)
Ltac disj t u := assert (forall w, In w (ids t) -> ~ In w (ids u)) by (let w := fresh "w" in intros w ?; cnt w).
Ltac nd_sub t := assert (nodup (ids t)) by (let a := fresh "a" in intro a; cnt a).
(* w lies in a subtree that does not contain the node id a *)
Ltac ne1 w a := assert (w <> a) by (intros ->; contradiction).
Ltac rw_R R := repeat match goal with H : R _ = _ |- _ => rewrite H end.
Ltac rec_goal R := hsimp2; rw_R R; fsimp; reflexivity.
(* the heap after relinking the parent still holds the subtree *)
Ltac relinked R W Hpar :=
  eapply wf_at_frame; [|exact W];
  let y := fresh "y" in let Hy := fresh "Hy" in
  intros y Hy; subst R; apply relink_out; intros ? -> ->; exact (Hpar _ eq_refl Hy).

Lemma hrotate_left_ok h root x t1 k v b z t23 zk zv zb t4 par :
  let sub := PNode x t1 k v b (PNode z t23 zk zv zb t4) in
  wf_at h sub par -> nodup (ids sub) -> (forall p, par = Some p -> ~ In p (ids sub)) ->
  exists h', hrotate_left h root x = Some (h', reroot root x (Some z), snd (protate_left sub)) /\
     wf_at h' (fst (protate_left sub)) par /\ (forall y, ~ In y (ids sub) -> h' y = relink h par x (Some z) y).
Proof.
  intros sub W ND Hpar. subst sub. pose proof W as W0. cbn [wf_at] in W0. destruct W0 as (Hx & _ & _).
  unfold hrotate_left. rewrite Hx. cbn [hr hp pptr]. cbv zeta.
  remember (relink h par x (Some z)) as R eqn:ER.
  assert (WR : wf_at R (PNode x t1 k v b (PNode z t23 zk zv zb t4)) par) by relinked R W Hpar.
  clear W Hx Hpar ER. cbn [wf_at] in WR. destruct WR as (Rx & WR1 & (Rz & WR23 & WR4)).
  ne0 x z. notin x t1. notin x t23. notin x t4. notin z t1. notin z t23. notin z t4.
  disj t1 t23. disj t4 t23. nd_sub t23.
  hsimp2. fsimp. rewrite Rz. fsimp. hsimp2. fsimp. rw_R R. fsimp. cbn [protate_left].
  destruct (zb =? 0); (eexists; split; [reflexivity|]); cbn [fst snd wf_at pptr];
    (split; [split; [rec_goal R|split; [split; [rec_goal R|split]|]]|]).
  all: try (eapply wf_at_frame; [|first [exact WR1|exact WR4]]; intros w Hw; ne1 w x; ne1 w z; hsimp2; reflexivity).
  all: try (eapply wf_at_reparent; [exact WR23|assumption|]; intros w Hw; ne1 w x; ne1 w z; hsimp2;
            rewrite set_p_opt_at; hsimp2; reflexivity).
  all: intros w Hw; cbn [ids In] in Hw; rewrite !in_app_iff in Hw; cbn [In] in Hw; rewrite !in_app_iff in Hw.
  all: assert (w <> x) by (intros ->; tauto); assert (w <> z) by (intros ->; tauto);
    assert (~ In w (ids t23)) by tauto; hsimp2; reflexivity.
Qed.

Lemma hrotate_right_ok h root x t1 k v b z t23 zk zv zb t4 par :
  let sub := PNode x (PNode z t4 zk zv zb t23) k v b t1 in
  wf_at h sub par -> nodup (ids sub) -> (forall p, par = Some p -> ~ In p (ids sub)) ->
  exists h', hrotate_right h root x = Some (h', reroot root x (Some z), snd (protate_right sub)) /\
     wf_at h' (fst (protate_right sub)) par /\ (forall y, ~ In y (ids sub) -> h' y = relink h par x (Some z) y).
Proof.
  intros sub W ND Hpar. subst sub. pose proof W as W0. cbn [wf_at] in W0. destruct W0 as (Hx & _ & _).
  unfold hrotate_right. rewrite Hx. cbn [hl hp pptr]. cbv zeta.
  remember (relink h par x (Some z)) as R eqn:ER.
  assert (WR : wf_at R (PNode x (PNode z t4 zk zv zb t23) k v b t1) par) by relinked R W Hpar.
  clear W Hx Hpar ER. cbn [wf_at] in WR. destruct WR as (Rx & (Rz & WR4 & WR23) & WR1).
  ne0 x z. notin x t1. notin x t23. notin x t4. notin z t1. notin z t23. notin z t4.
  disj t1 t23. disj t4 t23. nd_sub t23.
  hsimp2. fsimp. rewrite Rz. fsimp. hsimp2. fsimp. rw_R R. fsimp. cbn [protate_right].
  destruct (zb =? 0); (eexists; split; [reflexivity|]); cbn [fst snd wf_at pptr];
    (split; [split; [rec_goal R|split; [|split; [rec_goal R|split]]]|]).
  all: try (eapply wf_at_frame; [|first [exact WR1|exact WR4]]; intros w Hw; ne1 w x; ne1 w z; hsimp2; reflexivity).
  all: try (eapply wf_at_reparent; [exact WR23|assumption|]; intros w Hw; ne1 w x; ne1 w z; hsimp2;
            rewrite set_p_opt_at; hsimp2; reflexivity).
  all: intros w Hw; cbn [ids In] in Hw; rewrite !in_app_iff in Hw; cbn [In] in Hw; rewrite !in_app_iff in Hw.
  all: assert (w <> x) by (intros ->; tauto); assert (w <> z) by (intros ->; tauto);
    assert (~ In w (ids t23)) by tauto; hsimp2; reflexivity.
Qed.

Lemma hrotate_right_left_ok h root x t1 k v b z y t2 yk yv yb t3 zk zv zb t4 par :
  let sub := PNode x t1 k v b (PNode z (PNode y t2 yk yv yb t3) zk zv zb t4) in
  wf_at h sub par -> nodup (ids sub) -> (forall p, par = Some p -> ~ In p (ids sub)) ->
  exists h', hrotate_right_left h root x = Some (h', reroot root x (Some y)) /\
     wf_at h' (protate_right_left sub) par /\ (forall w, ~ In w (ids sub) -> h' w = relink h par x (Some y) w).
Proof.
  intros sub W ND Hpar. subst sub. pose proof W as W0. cbn [wf_at] in W0.
  destruct W0 as (Hx & _ & (Hz & (Hy & _ & _) & _)).
  unfold hrotate_right_left. rewrite Hx. cbn [hr hp pptr]. rewrite Hz. cbn [hl pptr]. rewrite Hy. cbn [hl hr]. cbv zeta.
  remember (relink h par x (Some y)) as R eqn:ER.
  assert (WR : wf_at R (PNode x t1 k v b (PNode z (PNode y t2 yk yv yb t3) zk zv zb t4)) par) by relinked R W Hpar.
  clear W Hx Hz Hy Hpar ER. cbn [wf_at] in WR. destruct WR as (Rx & WR1 & (Rz & (Ry & WR2 & WR3) & WR4)).
  ne0 x z. ne0 x y. ne0 z y.
  notin x t1. notin x t2. notin x t3. notin x t4. notin z t1. notin z t2. notin z t3. notin z t4.
  notin y t1. notin y t2. notin y t3. notin y t4.
  disj t1 t2. disj t1 t3. disj t4 t2. disj t4 t3. disj t2 t3. disj t3 t2. nd_sub t2. nd_sub t3.
  hsimp2. fsimp. rw_R R. fsimp. cbn [protate_right_left].
  (destruct (0 <? yb); [|destruct (yb =? 0)]); (eexists; split; [reflexivity|]); cbn [fst snd wf_at pptr];
    (split; [split; [rec_goal R|split; [split; [rec_goal R|split]|split; [rec_goal R|split]]]|]).
  all: try (eapply wf_at_frame; [|first [exact WR1|exact WR4]]; intros w Hw; ne1 w x; ne1 w z; ne1 w y; hsimp2; reflexivity).
  all: try (eapply wf_at_reparent; [first [exact WR2|exact WR3]|assumption|]; intros w Hw; ne1 w x; ne1 w z; ne1 w y; hsimp2;
            rewrite set_p_opt_at; hsimp2; reflexivity).
  all: intros w Hw; cbn [ids In] in Hw; rewrite !in_app_iff in Hw; cbn [In] in Hw; rewrite !in_app_iff in Hw;
    cbn [In] in Hw; rewrite !in_app_iff in Hw.
  all: assert (w <> x) by (intros ->; tauto); assert (w <> z) by (intros ->; tauto); assert (w <> y) by (intros ->; tauto);
    assert (~ In w (ids t2)) by tauto; assert (~ In w (ids t3)) by tauto; hsimp2; reflexivity.
Qed.

Lemma hrotate_left_right_ok h root x t1 k v b z y t2 yk yv yb t3 zk zv zb t4 par :
  let sub := PNode x (PNode z t4 zk zv zb (PNode y t3 yk yv yb t2)) k v b t1 in
  wf_at h sub par -> nodup (ids sub) -> (forall p, par = Some p -> ~ In p (ids sub)) ->
  exists h', hrotate_left_right h root x = Some (h', reroot root x (Some y)) /\
     wf_at h' (protate_left_right sub) par /\ (forall w, ~ In w (ids sub) -> h' w = relink h par x (Some y) w).
Proof.
  intros sub W ND Hpar. subst sub. pose proof W as W0. cbn [wf_at] in W0.
  destruct W0 as (Hx & (Hz & _ & (Hy & _ & _)) & _).
  unfold hrotate_left_right. rewrite Hx. cbn [hl hp pptr]. rewrite Hz. cbn [hr pptr]. rewrite Hy. cbn [hl hr]. cbv zeta.
  remember (relink h par x (Some y)) as R eqn:ER.
  assert (WR : wf_at R (PNode x (PNode z t4 zk zv zb (PNode y t3 yk yv yb t2)) k v b t1) par) by relinked R W Hpar.
  clear W Hx Hz Hy Hpar ER. cbn [wf_at] in WR. destruct WR as (Rx & (Rz & WR4 & (Ry & WR3 & WR2)) & WR1).
  ne0 x z. ne0 x y. ne0 z y.
  notin x t1. notin x t2. notin x t3. notin x t4. notin z t1. notin z t2. notin z t3. notin z t4.
  notin y t1. notin y t2. notin y t3. notin y t4.
  disj t1 t2. disj t1 t3. disj t4 t2. disj t4 t3. disj t2 t3. disj t3 t2. nd_sub t2. nd_sub t3.
  hsimp2. fsimp. rw_R R. fsimp. cbn [protate_left_right].
  (destruct (0 <? yb); [|destruct (yb =? 0)]); (eexists; split; [reflexivity|]); cbn [fst snd wf_at pptr];
    (split; [split; [rec_goal R|split; [split; [rec_goal R|split]|split; [rec_goal R|split]]]|]).
  all: try (eapply wf_at_frame; [|first [exact WR1|exact WR4]]; intros w Hw; ne1 w x; ne1 w z; ne1 w y; hsimp2; reflexivity).
  all: try (eapply wf_at_reparent; [first [exact WR2|exact WR3]|assumption|]; intros w Hw; ne1 w x; ne1 w z; ne1 w y; hsimp2;
            rewrite set_p_opt_at; hsimp2; reflexivity).
  all: intros w Hw; cbn [ids In] in Hw; rewrite !in_app_iff in Hw; cbn [In] in Hw; rewrite !in_app_iff in Hw;
    cbn [In] in Hw; rewrite !in_app_iff in Hw.
  all: assert (w <> x) by (intros ->; tauto); assert (w <> z) by (intros ->; tauto); assert (w <> y) by (intros ->; tauto);
    assert (~ In w (ids t2)) by tauto; assert (~ In w (ids t3)) by tauto; hsimp2; reflexivity.
Qed.

(* ---------- rebalance ---------- *)

(* the children a rotation dereferences exist *)
Definition rot_ready (t : ptree) : Prop :=
  match t with
  | PLeaf => True
  | PNode _ l _ _ b r =>
      (b < -1 -> match l with PLeaf => False | PNode _ _ _ _ lb lr => 0 < lb -> lr <> PLeaf end) /\
      (1 < b -> match r with PLeaf => False | PNode _ rl _ _ rb _ => rb < 0 -> rl <> PLeaf end)
  end.

Lemma erase_leaf t : erase t = Leaf -> t = PLeaf.
Proof. destruct t; [reflexivity|discriminate]. Qed.

Lemma rot_ready_bal x l k v b r :
  bal (erase l) -> bal (erase r) -> b = height (erase r) - height (erase l) -> rot_ready (PNode x l k v b r).
Proof.
  intros Bl Br Hb. cbn [rot_ready]. split; intros H2.
  - destruct l as [|z ll zk zv zb lr]; [cbn [erase height] in *; pose proof (height_nonneg (erase r)); lia|].
    intros Hz E. subst lr. cbn [erase bal height] in *. destruct Bl as (_ & _ & Hzb & _).
    pose proof (height_nonneg (erase ll)). lia.
  - destruct r as [|z rl zk zv zb rr]; [cbn [erase height] in *; pose proof (height_nonneg (erase l)); lia|].
    intros Hz E. subst rl. cbn [erase bal height] in *. destruct Br as (_ & _ & Hzb & _).
    pose proof (height_nonneg (erase rr)). lia.
Qed.

Lemma hrebalance_ok h root x l k v b r par :
  let sub := PNode x l k v b r in
  wf_at h sub par -> nodup (ids sub) -> (forall p, par = Some p -> ~ In p (ids sub)) ->
  rot_ready sub -> (b < -1 \/ 1 < b) ->
  exists h' n, pptr (fst (prebalance sub)) = Some n /\
     hrebalance h root x = Some (h', reroot root x (Some n), snd (prebalance sub)) /\
     wf_at h' (fst (prebalance sub)) par /\ (forall w, ~ In w (ids sub) -> h' w = relink h par x (Some n) w).
Proof.
  intros sub W ND Hpar (RL & RR) Hb. subst sub. pose proof W as W0. cbn [wf_at] in W0. destruct W0 as (Hx & Wl & Wr).
  unfold hrebalance. rewrite Hx. cbn [hb hl hr]. cbn [prebalance].
  destruct (Z.ltb_spec b (-1)) as [Hlt|Hge].
  - specialize (RL Hlt). destruct l as [|z t4 zk zv zb lr]; [contradiction|].
    cbn [pptr]. cbn [wf_at] in Wl. destruct Wl as (Hz & _ & _). rewrite Hz. cbn [hb].
    destruct (Z.leb_spec zb 0) as [Hz0|Hz0].
    + destruct (hrotate_right_ok h root x r k v b z lr zk zv zb t4 par W ND Hpar) as (h' & E & W' & O).
      exists h', z. split; [cbn [protate_right]; destruct (zb =? 0); reflexivity|]. auto.
    + specialize (RL Hz0). destruct lr as [|y t3 yk yv yb t2]; [congruence|].
      destruct (hrotate_left_right_ok h root x r k v b z y t2 yk yv yb t3 zk zv zb t4 par W ND Hpar) as (h' & E & W' & O).
      exists h', y. rewrite E. cbn [fst snd].
      split; [cbn [protate_left_right]; destruct (0 <? yb); [|destruct (yb =? 0)]; reflexivity|]. auto.
  - destruct (Z.ltb_spec 1 b) as [Hgt|Hle]; [|lia].
    specialize (RR Hgt). destruct r as [|z rl zk zv zb t4]; [contradiction|].
    cbn [pptr]. cbn [wf_at] in Wr. destruct Wr as (Hz & _ & _). rewrite Hz. cbn [hb].
    destruct (Z.leb_spec 0 zb) as [Hz0|Hz0].
    + destruct (hrotate_left_ok h root x l k v b z rl zk zv zb t4 par W ND Hpar) as (h' & E & W' & O).
      exists h', z. split; [cbn [protate_left]; destruct (zb =? 0); reflexivity|]. auto.
    + specialize (RR Hz0). destruct rl as [|y t2 yk yv yb t3]; [congruence|].
      destruct (hrotate_right_left_ok h root x l k v b z y t2 yk yv yb t3 zk zv zb t4 par W ND Hpar) as (h' & E & W' & O).
      exists h', y. rewrite E. cbn [fst snd].
      split; [cbn [protate_right_left]; destruct (0 <? yb); [|destruct (yb =? 0)]; reflexivity|]. auto.
Qed.

Lemma ids_prebalance t a : In a (ids (fst (prebalance t))) <-> In a (ids t).
Proof.
  destruct t as [|x l k v b r]; [tauto|]. cbn [prebalance].
  destruct (b <? -1).
  - destruct l as [|z t4 zk zv zb lr]; [tauto|]. destruct (zb <=? 0).
    + cbn [protate_right]. destruct (zb =? 0); cbn [fst ids In]; rewrite ?in_app_iff; cbn [In]; rewrite ?in_app_iff; tauto.
    + destruct lr as [|y t3 yk yv yb t2]; [tauto|]. cbn [protate_left_right fst].
      destruct (0 <? yb); [|destruct (yb =? 0)]; cbn [ids In]; rewrite ?in_app_iff; cbn [In]; rewrite ?in_app_iff;
        cbn [In]; rewrite ?in_app_iff; tauto.
  - destruct (1 <? b); [|tauto]. destruct r as [|z rl zk zv zb t4]; [tauto|]. destruct (0 <=? zb).
    + cbn [protate_left]. destruct (zb =? 0); cbn [fst ids In]; rewrite ?in_app_iff; cbn [In]; rewrite ?in_app_iff; tauto.
    + destruct rl as [|y t2 yk yv yb t3]; [tauto|]. cbn [protate_right_left fst].
      destruct (0 <? yb); [|destruct (yb =? 0)]; cbn [ids In]; rewrite ?in_app_iff; cbn [In]; rewrite ?in_app_iff;
        cbn [In]; rewrite ?in_app_iff; tauto.
Qed.

Lemma count_prebalance t a : count_occ Nat.eq_dec (ids (fst (prebalance t))) a = count_occ Nat.eq_dec (ids t) a.
Proof.
  destruct t as [|x l k v b r]; [reflexivity|]. cbn [prebalance].
  destruct (b <? -1).
  - destruct l as [|z t4 zk zv zb lr]; [reflexivity|]. destruct (zb <=? 0).
    + cbn [protate_right]. destruct (zb =? 0); cbn [fst]; cnt_norm; cnt_dec; lia.
    + destruct lr as [|y t3 yk yv yb t2]; [reflexivity|]. cbn [protate_left_right fst].
      destruct (0 <? yb); [|destruct (yb =? 0)]; cnt_norm; cnt_dec; lia.
  - destruct (1 <? b); [|reflexivity]. destruct r as [|z rl zk zv zb t4]; [reflexivity|]. destruct (0 <=? zb).
    + cbn [protate_left]. destruct (zb =? 0); cbn [fst]; cnt_norm; cnt_dec; lia.
    + destruct rl as [|y t2 yk yv yb t3]; [reflexivity|]. cbn [protate_right_left fst].
      destruct (0 <? yb); [|destruct (yb =? 0)]; cnt_norm; cnt_dec; lia.
Qed.

(* ---------- the path from a node up to the root (what the parent links walk) ---------- *)

Inductive frame :=
  | FL (x : nat) (k v b : Z) (r : ptree)      (* the hole is the left child of x *)
  | FR (x : nat) (l : ptree) (k v b : Z).     (* the hole is the right child of x *)

Definition fid (f : frame) : nat := match f with FL x _ _ _ _ | FR x _ _ _ _ => x end.
Definition fside (f : frame) : bool := match f with FL _ _ _ _ _ => true | FR _ _ _ _ _ => false end.
Definition fsib (f : frame) : ptree := match f with FL _ _ _ _ r => r | FR _ l _ _ _ => l end.
Definition fbal (f : frame) : Z := match f with FL _ _ _ b _ | FR _ _ _ _ b => b end.
Definition fkey (f : frame) : Z := match f with FL _ k _ _ _ | FR _ _ k _ _ => k end.
Definition fset_b (f : frame) (b : Z) : frame :=
  match f with FL x k v _ r => FL x k v b r | FR x l k v _ => FR x l k v b end.
Definition fill (f : frame) (t : ptree) : ptree :=
  match f with FL x k v b r => PNode x t k v b r | FR x l k v b => PNode x l k v b t end.

(* innermost frame first *)
Fixpoint plug (ctx : list frame) (t : ptree) : ptree :=
  match ctx with [] => t | f :: c => plug c (fill f t) end.
Definition cpar (ctx : list frame) : ptr := match ctx with [] => None | f :: _ => Some (fid f) end.
Fixpoint cids (ctx : list frame) : list nat :=
  match ctx with [] => [] | f :: c => (fid f :: ids (fsib f)) ++ cids c end.

Fixpoint wf_ctx (h : heap) (ctx : list frame) (child : ptr) : Prop :=
  match ctx with
  | [] => True
  | f :: c =>
      h (fid f) = (if fside f then mkn child (pptr (fsib f)) else mkn (pptr (fsib f)) child)
                    (cpar c) (fbal f) (fkey f) (match f with FL _ _ v _ _ | FR _ _ _ v _ => v end) /\
      wf_at h (fsib f) (Some (fid f)) /\ wf_ctx h c (Some (fid f))
  end.

Lemma wf_plug h ctx : forall t, wf_at h (plug ctx t) None <-> wf_at h t (cpar ctx) /\ wf_ctx h ctx (pptr t).
Proof.
  induction ctx as [|f c IH]; intros t; cbn [plug cpar wf_ctx].
  - tauto.
  - rewrite IH. destruct f; cbn [fill wf_at pptr fid fside fsib fbal fkey]; tauto.
Qed.

Lemma count_plug ctx a : forall t,
  count_occ Nat.eq_dec (ids (plug ctx t)) a = (count_occ Nat.eq_dec (ids t) a + count_occ Nat.eq_dec (cids ctx) a)%nat.
Proof.
  induction ctx as [|f c IH]; intros t; cbn [plug cids].
  - cbn. lia.
  - rewrite IH. destruct f; cbn [fill fid fsib]; cnt_norm; cnt_dec; lia.
Qed.

Lemma pptr_plug ctx : forall t t', ctx <> [] -> pptr (plug ctx t) = pptr (plug ctx t').
Proof.
  induction ctx as [|f c IH]; intros t t' H; [congruence|]. cbn [plug].
  destruct c as [|f2 c2]; [destruct f; reflexivity|]. apply IH. discriminate.
Qed.

Lemma pptr_plug_in ctx : forall t, ctx <> [] -> exists r, pptr (plug ctx t) = Some r /\ In r (cids ctx).
Proof.
  induction ctx as [|f c IH]; intros t H; [congruence|]. cbn [plug cids].
  destruct c as [|f2 c2].
  - exists (fid f). split; [destruct f; reflexivity|]. cbn. auto.
  - destruct (IH (fill f t) ltac:(discriminate)) as (r & E & Hin). exists r. split; [exact E|].
    apply in_or_app. right. exact Hin.
Qed.

Lemma wf_ctx_frame h h' ctx : forall child,
  (forall y, In y (cids ctx) -> h' y = h y) -> wf_ctx h ctx child -> wf_ctx h' ctx child.
Proof.
  induction ctx as [|f c IH]; intros child Hf H; cbn [wf_ctx cids] in *; [exact I|].
  destruct H as (Hx & Hs & Hc). split; [rewrite Hf; [exact Hx|cbn; auto]|]. split.
  - eapply wf_at_frame; [|exact Hs]. intros y Hy. apply Hf. cbn [app In]. right. apply in_or_app. auto.
  - apply IH; [|exact Hc]. intros y Hy. apply Hf. cbn [app In]. right. apply in_or_app. auto.
Qed.

(* the child link of the innermost frame is replaced (what [relink] does to the parent) *)
Lemma wf_ctx_relink h h' ctx x n :
  wf_ctx h ctx (Some x) -> nodup (x :: cids ctx) ->
  (forall y, In y (cids ctx) -> h' y = relink h (cpar ctx) x n y) ->
  wf_ctx h' ctx n.
Proof.
  intros H ND Hf. destruct ctx as [|f c]; [exact I|]. cbn [wf_ctx cids cpar] in *.
  destruct H as (Hp & Hs & Hc).
  assert (Hne : forall y, In y (ids (fsib f) ++ cids c) -> y <> fid f).
  { intros y Hy ->. apply in_app_or in Hy. destruct Hy as [Hy|Hy]; cnt (fid f). }
  split; [|split].
  - rewrite Hf by (cbn; auto). unfold relink. rewrite Hp.
    destruct f as [p k v b r|p l k v b]; cbn [fside fsib fid fbal fkey hl] in *.
    + cbn [ptr_is]. rewrite Nat.eqb_refl. unfold set_l. rewrite hmod_same, Hp. reflexivity.
    + assert (E : ptr_is (pptr l) x = false) by (apply pptr_notin; cnt x). rewrite E.
      unfold set_r. rewrite hmod_same, Hp. reflexivity.
  - eapply wf_at_frame; [|exact Hs]. intros y Hy.
    rewrite Hf by (cbn [app In]; right; apply in_or_app; auto).
    apply relink_out. intros p E. inversion E; subst p. apply Hne. apply in_or_app. auto.
  - eapply wf_ctx_frame; [|exact Hc]. intros y Hy.
    rewrite Hf by (cbn [app In]; right; apply in_or_app; auto).
    apply relink_out. intros p E. inversion E; subst p. apply Hne. apply in_or_app. auto.
Qed.

Lemma nodup_plug ctx t : nodup (ids (plug ctx t)) <-> nodup (ids t ++ cids ctx).
Proof. unfold nodup. split; intros H a; specialize (H a); rewrite count_plug in *; rewrite count_occ_app in *; exact H. Qed.

(* ---------- insertion: retracing ---------- *)

Definition pgrow (side_left : bool) (t : ptree) : ptree * bool :=
  match t with
  | PNode x l k v b r =>
      let b' := if side_left then b - 1 else b + 1 in
      let n := PNode x l k v b' r in
      if b' =? 0 then (n, false)
      else if (b' =? 1) || (b' =? -1) then (n, true)
      else (fst (prebalance n), false)
  | PLeaf => (PLeaf, false)
  end.

Lemma erase_pgrow s t : erase (fst (pgrow s t)) = fst (grow s (erase t)) /\ snd (pgrow s t) = snd (grow s (erase t)).
Proof.
  destruct t as [|x l k v b r]; [split; reflexivity|]. cbn [pgrow grow erase].
  destruct ((if s then b - 1 else b + 1) =? 0); [split; reflexivity|].
  destruct (((if s then b - 1 else b + 1) =? 1) || ((if s then b - 1 else b + 1) =? -1)); [split; reflexivity|].
  cbn [fst snd]. split; [|reflexivity].
  apply (erase_prebalance (PNode x l k v (if s then b - 1 else b + 1) r)).
Qed.

(* unwinding the path after the subtree in the hole has (or has not) grown *)
Fixpoint punwind_ins (ctx : list frame) (t : ptree) (grew : bool) : ptree :=
  match ctx with
  | [] => t
  | f :: c =>
      if grew then let (t', g') := pgrow (fside f) (fill f t) in punwind_ins c t' g'
      else plug ctx t
  end.

Lemma punwind_ins_false ctx t : punwind_ins ctx t false = plug ctx t.
Proof. destruct ctx; reflexivity. Qed.

(* balance bookkeeping along the path: [hold] is the height the hole's subtree
   had before the operation *)
Fixpoint ctx_ok (ctx : list frame) (hold : Z) : Prop :=
  match ctx with
  | [] => True
  | FL _ _ _ b r :: c =>
      bal (erase r) /\ b = height (erase r) - hold /\ -1 <= b <= 1 /\ ctx_ok c (1 + Z.max hold (height (erase r)))
  | FR _ l _ _ b :: c =>
      bal (erase l) /\ b = hold - height (erase l) /\ -1 <= b <= 1 /\ ctx_ok c (1 + Z.max (height (erase l)) hold)
  end.

Lemma bal_plug ctx : forall t, bal (erase (plug ctx t)) -> bal (erase t) /\ ctx_ok ctx (height (erase t)).
Proof.
  induction ctx as [|f c IH]; intros t H; cbn [plug ctx_ok] in *; [auto|].
  destruct (IH _ H) as (B & C). destruct f; cbn [fill erase bal height] in *; intuition.
Qed.

Definition grown_bal (f : frame) : Z := if fside f then fbal f - 1 else fbal f + 1.
Definition node_hold (f : frame) (hold : Z) : Z :=
  match f with
  | FL _ _ _ _ r => 1 + Z.max hold (height (erase r))
  | FR _ l _ _ _ => 1 + Z.max (height (erase l)) hold
  end.

Lemma pgrow_fill f t :
  pgrow (fside f) (fill f t) =
  let n := fill (fset_b f (grown_bal f)) t in
  if grown_bal f =? 0 then (n, false)
  else if (grown_bal f =? 1) || (grown_bal f =? -1) then (n, true)
  else (fst (prebalance n), false).
Proof. destruct f; reflexivity. Qed.

Lemma pptr_fill f t : pptr (fill f t) = Some (fid f).
Proof. destruct f; reflexivity. Qed.

Lemma ids_fill_set_b f b t : ids (fill (fset_b f b) t) = ids (fill f t).
Proof. destruct f; reflexivity. Qed.

Lemma fid_set_b f b : fid (fset_b f b) = fid f.
Proof. destruct f; reflexivity. Qed.

Lemma count_fill f t a :
  count_occ Nat.eq_dec (ids (fill f t)) a =
  (count_occ Nat.eq_dec (ids t) a + count_occ Nat.eq_dec (fid f :: ids (fsib f)) a)%nat.
Proof. destruct f; cbn [fill fid fsib]; cnt_norm; cnt_dec; lia. Qed.

(* one iteration of a retracing loop: the balance factor of the node on top of
   the path is overwritten with b' *)
Lemma retrace_set_b f ctx t h b' :
  wf_at h t (Some (fid f)) -> wf_ctx h (f :: ctx) (pptr t) -> nodup (ids t ++ cids (f :: ctx)) ->
  let x := fid f in let h1 := set_b h x b' in
  hb (h x) = fbal f /\ hp (h1 x) = cpar ctx /\
  wf_at h1 (fill (fset_b f b') t) (cpar ctx) /\ wf_ctx h1 ctx (Some x) /\
  nodup (ids (fill (fset_b f b') t) ++ cids ctx) /\ nodup (ids (fill (fset_b f b') t)) /\ nodup (x :: cids ctx) /\
  (forall p, cpar ctx = Some p -> ~ In p (ids (fill (fset_b f b') t))).
Proof.
  intros Wt Wc ND. cbn [wf_ctx cids] in Wc, ND. destruct Wc as (Hx & Ws & Wc). cbv zeta.
  destruct f as [x k v b r|x l k v b]; cbn [fid fside fsib fbal fkey fill fset_b ids] in *.
  all: assert (Hx1 : set_b h x b' x = with_b b' (h x)) by (unfold set_b; apply hmod_same).
  all: assert (Ho : forall y, y <> x -> set_b h x b' y = h y) by (intros y Hy; unfold set_b; apply hmod_other; exact Hy).
  all: (split; [rewrite Hx; reflexivity|]); (split; [rewrite Hx1, Hx; reflexivity|]).
  all: split; [|split; [|split; [|split; [|split]]]].
  all: try (cbn [wf_at]; rewrite Hx1, Hx; split; [reflexivity|split];
            (eapply wf_at_frame; [|eassumption]); intros y Hy; apply Ho; intros ->; cnt x).
  all: try (eapply wf_ctx_frame; [|exact Wc]; intros y Hy; apply Ho; intros ->; cnt x).
  all: try (intro a; specialize (ND a); cnt_norm; cnt_dec; lia).
  all: intros p Hp Hin;
    assert (Hpc : In p (cids ctx)) by (destruct ctx as [|f2 c2]; [discriminate|inversion Hp; cbn; auto]);
    cnt p.
Qed.

(* what the balance bookkeeping says about the node on top of the path after
   its subtree grew by one *)
Lemma grown_facts f ctx t hold :
  bal (erase t) -> height (erase t) = hold + 1 -> ctx_ok (f :: ctx) hold ->
  let b' := grown_bal f in let n := fill (fset_b f b') t in
  ctx_ok ctx (node_hold f hold) /\ -2 <= b' <= 2 /\
  (-1 <= b' <= 1 -> bal (erase n)) /\
  (b' = 1 \/ b' = -1 -> height (erase n) = node_hold f hold + 1) /\
  (b' < -1 \/ 1 < b' -> rot_ready n).
Proof.
  intros Bt Ht Hc b' n. subst b' n. unfold grown_bal.
  destruct f as [x k v b r|x l k v b]; cbn [ctx_ok fside fbal fset_b fill erase bal height node_hold] in *;
    destruct Hc as (Bs & Hb & Hbr & Hc).
  - split; [exact Hc|]. split; [lia|]. split; [intros; repeat split; auto; lia|]. split; [intros; lia|].
    intros _. apply rot_ready_bal; auto. lia.
  - split; [exact Hc|]. split; [lia|]. split; [intros; repeat split; auto; lia|]. split; [intros; lia|].
    intros _. apply rot_ready_bal; auto. lia.
Qed.

Lemma fill_node f t : fill f t = PNode (fid f) (if fside f then t else fsib f) (fkey f)
    (match f with FL _ _ v _ _ | FR _ _ _ v _ => v end) (fbal f) (if fside f then fsib f else t).
Proof. destruct f; reflexivity. Qed.

