From MV Require Import Lib.ExtractBase C09.Model C09.ModelHeap.
From Coq Require Import ExtrOcamlBasic.
Extraction Language OCaml.
Extraction "c09_model" force_types
  avl_find avl_insert avl_remove avl_okb height
  ht_init ht_find ht_put ht_remove ht_idx hash_id hash_zero hash_low hash_mul str_hash
  trie_empty trie_lookup trie_find_node trie_insert trie_remove
  byte_index byte_index_unrepaired index_in_range
  avl_step ht_step trie_step run
  avl_step_cb ht_step_cb trie_step_cb runf ht_clear_cb ht_count
  avl_step_o ht_step_o trie_step_o avl_size trie_nodes
  havl_init havl_step habs hparents_ok hht_init hht_step hht_bucket.
