(* C09 — hash table: for every hash function (collisions included) the chained
   table answers every history like a map. *)
From MV Require Import C09.Model C09.Spec.
Local Open Scope Z_scope.

(* ---------- lists ---------- *)

Lemma upd_nth_length {A} i (x : A) l : length (upd_nth i x l) = length l.
Proof. revert i; induction l as [|a l IH]; intros [|i]; simpl; auto. Qed.

Lemma nth_upd_nth_same {A} i (x d : A) l : (i < length l)%nat -> nth i (upd_nth i x l) d = x.
Proof. revert i; induction l as [|a l IH]; intros [|i] H; simpl in *; try lia; auto. apply IH; lia. Qed.

Lemma nth_upd_nth_other {A} i j (x d : A) l : i <> j -> nth j (upd_nth i x l) d = nth j l d.
Proof.
  revert i j; induction l as [|a l IH]; intros [|i] [|j] H; simpl; auto; try congruence.
Qed.

Lemma Forall_upd_nth {A} (P : A -> Prop) i x l : Forall P l -> P x -> Forall P (upd_nth i x l).
Proof.
  revert i; induction l as [|a l IH]; intros [|i] H Hx; simpl; auto; inversion H; subst; constructor; auto.
Qed.

Lemma Forall_nth {A} (P : A -> Prop) i l d : Forall P l -> P d -> P (nth i l d).
Proof. revert i; induction l as [|a l IH]; intros [|i] H Hd; simpl; auto; inversion H; subst; auto. Qed.

(* ---------- chains ---------- *)

Definition nodup_keys (b : bucket) : Prop := NoDup (map fst b).

Lemma chain_find_none k b : chain_find k b = None <-> ~ In k (map fst b).
Proof.
  induction b as [|[k' v] b IH]; simpl.
  - tauto.
  - destruct (Z.eqb_spec k' k).
    + split; [discriminate|]. intros H. exfalso. apply H. auto.
    + rewrite IH. split; intros H; [intros [E|E]; auto|auto].
Qed.

Lemma chain_remove_subset k b x : In x (map fst (chain_remove k b)) -> In x (map fst b).
Proof.
  induction b as [|[k' v] b IH]; simpl; auto.
  destruct (k' =? k); simpl; intuition.
Qed.

Lemma chain_remove_nodup k b : nodup_keys b -> nodup_keys (chain_remove k b).
Proof.
  unfold nodup_keys. induction b as [|[k' v] b IH]; simpl; intros H; auto.
  inversion H; subst. destruct (k' =? k); auto. simpl. constructor; auto.
  intros Hin. apply H2. eapply chain_remove_subset; eauto.
Qed.

Lemma chain_find_remove k b y : nodup_keys b ->
  chain_find y (chain_remove k b) = if y =? k then None else chain_find y b.
Proof.
  unfold nodup_keys. induction b as [|[k' v] b IH]; simpl; intros H.
  - destruct (y =? k); reflexivity.
  - inversion H as [|? ? Hnin Hnd]; subst. destruct (Z.eqb_spec k' k) as [Ek|Hk].
    + subst k'. destruct (Z.eqb_spec y k) as [Ey|Hy].
      * subst y. apply chain_find_none. exact Hnin.
      * destruct (Z.eqb_spec k y); [congruence|reflexivity].
    + simpl. destruct (Z.eqb_spec k' y) as [Ey'|Hy'].
      * subst y. destruct (Z.eqb_spec k' k); [congruence|reflexivity].
      * apply IH. exact Hnd.
Qed.

(* ---------- the table ---------- *)

Definition ht_wf (t : ht) : Prop :=
  0 < ht_size t /\ length (ht_buckets t) = Z.to_nat (ht_size t) /\ Forall nodup_keys (ht_buckets t).

Lemma ht_idx_lt hash t k : ht_wf t -> (ht_idx hash t k < length (ht_buckets t))%nat.
Proof.
  intros (Hs & Hl & _). unfold ht_idx. rewrite Hl.
  pose proof (Z.mod_pos_bound (hash k) (ht_size t) Hs). apply Z2Nat.inj_lt; lia.
Qed.

Lemma ht_init_wf ts : ht_wf (ht_init ts).
Proof.
  unfold ht_init, ht_wf. cbn [ht_size ht_buckets]. split; [destruct (ts <? 8) eqn:E; lia|].
  split; [apply repeat_length|]. apply Forall_forall. intros b Hb. apply repeat_spec in Hb. subst. constructor.
Qed.

Lemma ht_init_empty hash ts k : ht_find hash (ht_init ts) k = None.
Proof.
  unfold ht_find, ht_init. cbn [ht_buckets].
  assert (H : forall n i, nth i (repeat (@nil (Z * Z)) n) [] = []).
  { induction n; intros [|i]; simpl; auto. }
  rewrite H. reflexivity.
Qed.

Definition ht_agree (hash : Z -> Z) (t : ht) (m : @fmap Z) : Prop :=
  ht_wf t /\ forall y, ht_find hash t y = m y.

Lemma ht_step_agree hash t m o : ht_agree hash t m ->
  ht_agree hash (fst (ht_step hash t o)) (fst (map_step_reject Z.eq_dec m o)) /\
  snd (ht_step hash t o) = snd (map_step_reject Z.eq_dec m o).
Proof.
  intros (Hwf & Hf). pose proof Hwf as (Hs & Hl & Hnd).
  destruct o as [k v|k|k]; cbn [ht_step map_step_reject].
  - (* put *)
    set (i := ht_idx hash t k). set (b := nth i (ht_buckets t) []).
    assert (Ef : ht_find hash t k = chain_find k b) by reflexivity.
    rewrite <- (Hf k), Ef. unfold ht_put. cbv zeta. fold i. fold b.
    destruct (chain_find k b) eqn:E; cbn [fst snd].
    + split; [split; assumption|reflexivity].
    + split; [|reflexivity]. split.
      * split; [exact Hs|]. cbn [ht_size ht_buckets]. split; [rewrite upd_nth_length; exact Hl|].
        apply Forall_upd_nth; auto. unfold nodup_keys. simpl. constructor.
        -- apply chain_find_none. exact E.
        -- apply (Forall_nth nodup_keys i _ [] Hnd). constructor.
      * intros y. unfold ht_find, ht_idx. cbn [ht_size ht_buckets]. fold (ht_idx hash t y).
        unfold upd. destruct (Z.eq_dec y k) as [->|Hy].
        -- fold i. rewrite nth_upd_nth_same by (apply ht_idx_lt; exact Hwf).
           simpl. rewrite Z.eqb_refl. reflexivity.
        -- destruct (Nat.eq_dec i (ht_idx hash t y)) as [Ei|Ei].
           ++ rewrite <- Ei. rewrite nth_upd_nth_same by (apply ht_idx_lt; exact Hwf).
              simpl. destruct (Z.eqb_spec k y); [congruence|].
              rewrite <- Hf. unfold ht_find. rewrite <- Ei. reflexivity.
           ++ rewrite nth_upd_nth_other by exact Ei. apply Hf.
  - cbn [fst snd]. rewrite Hf. split; [split; assumption|reflexivity].
  - (* remove *)
    set (i := ht_idx hash t k). set (b := nth i (ht_buckets t) []).
    assert (Ef : ht_find hash t k = chain_find k b) by reflexivity.
    rewrite <- (Hf k), Ef. unfold ht_remove. cbv zeta. fold i. fold b.
    assert (Hb : nodup_keys b) by (apply (Forall_nth nodup_keys i _ [] Hnd); constructor).
    destruct (chain_find k b) eqn:E; cbn [fst snd].
    + split; [|reflexivity]. split.
      * split; [exact Hs|]. cbn [ht_size ht_buckets]. split; [rewrite upd_nth_length; exact Hl|].
        apply Forall_upd_nth; auto. apply chain_remove_nodup. exact Hb.
      * intros y. unfold ht_find, ht_idx. cbn [ht_size ht_buckets]. fold (ht_idx hash t y).
        unfold upd. destruct (Z.eq_dec y k) as [->|Hy].
        -- fold i. rewrite nth_upd_nth_same by (apply ht_idx_lt; exact Hwf).
           rewrite chain_find_remove by exact Hb. rewrite Z.eqb_refl. reflexivity.
        -- destruct (Nat.eq_dec i (ht_idx hash t y)) as [Ei|Ei].
           ++ rewrite <- Ei. rewrite nth_upd_nth_same by (apply ht_idx_lt; exact Hwf).
              rewrite chain_find_remove by exact Hb.
              destruct (Z.eqb_spec y k); [congruence|].
              rewrite <- Hf. unfold ht_find. rewrite <- Ei. reflexivity.
           ++ rewrite nth_upd_nth_other by exact Ei. apply Hf.
    + split; [|reflexivity]. split; [exact Hwf|]. exact Hf.
Qed.

Lemma ht_refines (hash : Z -> Z) ts ops :
  snd (run (ht_step hash) (ht_init ts) ops) = snd (run (map_step_reject Z.eq_dec) empty_map ops) /\
  forall y, ht_find hash (fst (run (ht_step hash) (ht_init ts) ops)) y =
            fst (run (map_step_reject Z.eq_dec) empty_map ops) y.
Proof.
  assert (H0 : ht_agree hash (ht_init ts) (@empty_map Z)).
  { split; [apply ht_init_wf|]. intros y. apply ht_init_empty. }
  pose proof (run_sim (ht_agree hash) (ht_step hash) (map_step_reject Z.eq_dec)
                (ht_step_agree hash) ops _ _ H0) as ((_ & Hf) & Ho).
  auto.
Qed.

(* a duplicate key is rejected and the table is left exactly as it was *)
Lemma ht_put_dup hash t k v w : ht_find hash t k = Some w -> ht_put hash t k v = (t, false).
Proof. unfold ht_find, ht_put. intros ->. reflexivity. Qed.

(* non-vacuity: everything collides in an 8-bucket table *)
Example ht_example :
  snd (run (ht_step hash_zero) (ht_init 8)
         [Ins 1 11; Ins 2 12; Ins 3 13; Ins 2 99; Rem 2; Find 2; Find 1; Find 3; Rem 2]) =
  [RIns true; RIns true; RIns true; RIns false; RRem true; RFind None; RFind (Some 11); RFind (Some 13); RRem false].
Proof. vm_compute. reflexivity. Qed.
