(* C09 — heap-level models (definitions only): the AVL tree and the hash table
   as the C code manipulates them, node by node and pointer by pointer.

   A node is an id (nat); a pointer is [option nat] (None = NULL); the heap maps
   ids to node records with the fields of muggle_avl_tree_node_t /
   muggle_hash_table_node_t.  Every function below performs the field reads and
   writes of the corresponding C function in the same order.  A dereference of a
   pointer that is NULL in the model makes the operation return [None]; loops
   are recursion on fuel and return [None] on exhaustion; the theorems
   (ProofsHeapAvl.v, ProofsHeapHt.v) show that neither happens and that the
   result is the functional model's (Model.v) with consistent parent / prev
   links.  malloc hands out the fresh id [next]; free is not modelled (a freed
   record simply stops being referenced). *)
From MV Require Import C09.Model.
Local Open Scope Z_scope.

Definition ptr := option nat.
Definition ptr_is (p : ptr) (x : nat) : bool :=
  match p with Some y => Nat.eqb y x | None => false end.

(* ====================================================================== *)
(* AVL tree                                                                *)

Record hnode := mkn { hl : ptr; hr : ptr; hp : ptr; hb : Z; hk : Z; hv : Z }.
Definition heap := nat -> hnode.

Definition hupd (h : heap) (x : nat) (n : hnode) : heap :=
  fun y => if Nat.eqb y x then n else h y.
(* x->field = value: the other fields of x keep their current contents *)
Definition hmod (h : heap) (x : nat) (f : hnode -> hnode) : heap :=
  fun y => if Nat.eqb y x then f (h y) else h y.

Definition with_l (p : ptr) (n : hnode) := mkn p (hr n) (hp n) (hb n) (hk n) (hv n).
Definition with_r (p : ptr) (n : hnode) := mkn (hl n) p (hp n) (hb n) (hk n) (hv n).
Definition with_p (p : ptr) (n : hnode) := mkn (hl n) (hr n) p (hb n) (hk n) (hv n).
Definition with_b (b : Z) (n : hnode) := mkn (hl n) (hr n) (hp n) b (hk n) (hv n).
Definition with_kv (k v : Z) (n : hnode) := mkn (hl n) (hr n) (hp n) (hb n) k v.

Definition set_l (h : heap) (x : nat) (p : ptr) : heap := hmod h x (with_l p).
Definition set_r (h : heap) (x : nat) (p : ptr) : heap := hmod h x (with_r p).
Definition set_p (h : heap) (x : nat) (p : ptr) : heap := hmod h x (with_p p).
Definition set_b (h : heap) (x : nat) (b : Z) : heap := hmod h x (with_b b).
Definition set_kv (h : heap) (x : nat) (k v : Z) : heap := hmod h x (with_kv k v).

(* if (c) c->parent = p; *)
Definition set_p_opt (h : heap) (c : ptr) (p : ptr) : heap :=
  match c with Some y => set_p h y p | None => h end.

(* if (parent) { if (x == parent->left) parent->left = z; else parent->right = z; } *)
Definition relink (h : heap) (parent : ptr) (x : nat) (z : ptr) : heap :=
  match parent with
  | Some p => if ptr_is (hl (h p)) x then set_l h p z else set_r h p z
  | None => h
  end.

(* if (tree->root == x) tree->root = z; *)
Definition reroot (root : ptr) (x : nat) (z : ptr) : ptr := if ptr_is root x then z else root.

(* muggle_avl_tree_rotate_left *)
Definition hrotate_left (h : heap) (root : ptr) (x : nat) : option (heap * ptr * bool) :=
  match hr (h x) with
  | None => None
  | Some z =>
      let parent := hp (h x) in
      let h := relink h parent x (Some z) in
      let h := set_p h z parent in
      let root := reroot root x (Some z) in
      let zl := hl (h z) in
      let h := set_r h x zl in
      let h := set_p_opt h zl (Some x) in
      let h := set_p h x (Some z) in
      let h := set_l h z (Some x) in
      if hb (h z) =? 0 then Some (set_b (set_b h x 1) z (-1), root, false)
      else Some (set_b (set_b h x 0) z 0, root, true)
  end.

(* muggle_avl_tree_rotate_right *)
Definition hrotate_right (h : heap) (root : ptr) (x : nat) : option (heap * ptr * bool) :=
  match hl (h x) with
  | None => None
  | Some z =>
      let parent := hp (h x) in
      let h := relink h parent x (Some z) in
      let h := set_p h z parent in
      let root := reroot root x (Some z) in
      let zr := hr (h z) in
      let h := set_l h x zr in
      let h := set_p_opt h zr (Some x) in
      let h := set_p h x (Some z) in
      let h := set_r h z (Some x) in
      if hb (h z) =? 0 then Some (set_b (set_b h x (-1)) z 1, root, false)
      else Some (set_b (set_b h x 0) z 0, root, true)
  end.

(* muggle_avl_tree_rotate_right_left *)
Definition hrotate_right_left (h : heap) (root : ptr) (x : nat) : option (heap * ptr) :=
  match hr (h x) with
  | None => None
  | Some z =>
      match hl (h z) with
      | None => None
      | Some y =>
          let parent := hp (h x) in
          let t2 := hl (h y) in
          let t3 := hr (h y) in
          let h := relink h parent x (Some y) in
          let h := set_p h y parent in
          let root := reroot root x (Some y) in
          let h := set_r h x t2 in
          let h := set_p_opt h t2 (Some x) in
          let h := set_l h z t3 in
          let h := set_p_opt h t3 (Some z) in
          let h := set_l h y (Some x) in
          let h := set_p h x (Some y) in
          let h := set_r h y (Some z) in
          let h := set_p h z (Some y) in
          let yb := hb (h y) in
          let h := if 0 <? yb then set_b (set_b h x (-1)) z 0
                   else if yb =? 0 then set_b (set_b h x 0) z 0
                   else set_b (set_b h x 0) z 1 in
          Some (set_b h y 0, root)
      end
  end.

(* muggle_avl_tree_rotate_left_right *)
Definition hrotate_left_right (h : heap) (root : ptr) (x : nat) : option (heap * ptr) :=
  match hl (h x) with
  | None => None
  | Some z =>
      match hr (h z) with
      | None => None
      | Some y =>
          let parent := hp (h x) in
          let t2 := hr (h y) in
          let t3 := hl (h y) in
          let h := relink h parent x (Some y) in
          let h := set_p h y parent in
          let root := reroot root x (Some y) in
          let h := set_l h x t2 in
          let h := set_p_opt h t2 (Some x) in
          let h := set_r h z t3 in
          let h := set_p_opt h t3 (Some z) in
          let h := set_l h y (Some z) in
          let h := set_p h z (Some y) in
          let h := set_r h y (Some x) in
          let h := set_p h x (Some y) in
          let yb := hb (h y) in
          let h := if 0 <? yb then set_b (set_b h x 0) z (-1)
                   else if yb =? 0 then set_b (set_b h x 0) z 0
                   else set_b (set_b h x 1) z 0 in
          Some (set_b h y 0, root)
      end
  end.

(* muggle_avl_tree_rebalance *)
Definition hrebalance (h : heap) (root : ptr) (x : nat) : option (heap * ptr * bool) :=
  if hb (h x) <? -1 then
    match hl (h x) with
    | None => None
    | Some c =>
        if hb (h c) <=? 0 then hrotate_right h root x
        else match hrotate_left_right h root x with
             | Some (h', root') => Some (h', root', true)
             | None => None
             end
    end
  else if 1 <? hb (h x) then
    match hr (h x) with
    | None => None
    | Some c =>
        if 0 <=? hb (h c) then hrotate_left h root x
        else match hrotate_right_left h root x with
             | Some (h', root') => Some (h', root', true)
             | None => None
             end
    end
  else Some (h, root, false).

Record hst := mkst { hheap : heap; hroot : ptr; hnext : nat }.

(* muggle_avl_tree_find: the descent loop *)
Fixpoint hfind_loop (fuel : nat) (h : heap) (node : ptr) (x : Z) : option ptr :=
  match node with
  | None => Some None
  | Some n =>
      match fuel with
      | O => None
      | S f =>
          if x <? hk (h n) then hfind_loop f h (hl (h n)) x
          else if hk (h n) <? x then hfind_loop f h (hr (h n)) x
          else Some (Some n)
      end
  end.

Definition havl_find (s : hst) (x : Z) : option ptr := hfind_loop (hnext s) (hheap s) (hroot s) x.

(* the first loop of muggle_avl_tree_insert: walk down from [n]; on reaching a
   NULL link allocate the new node (memset 0) and hang it there.
   Result: None = out of fuel; Some None = cmp == 0 (return NULL);
   Some (Some (h', node, side_left)) = new node [next] linked below [node]. *)
Definition zero_node : hnode := mkn None None None 0 0 0.

Fixpoint hdescend (fuel : nat) (h : heap) (next : nat) (n : nat) (x : Z) : option (option (heap * nat * bool)) :=
  match fuel with
  | O => None
  | S f =>
      if x <? hk (h n) then
        match hl (h n) with
        | Some c => hdescend f h next c x
        | None => Some (Some (set_l (hupd h next zero_node) n (Some next), n, true))
        end
      else if hk (h n) <? x then
        match hr (h n) with
        | Some c => hdescend f h next c x
        | None => Some (Some (set_r (hupd h next zero_node) n (Some next), n, false))
        end
      else Some None
  end.

(* the retracing loop of insert: [node]'s subtree on side [side_left] has grown *)
Fixpoint hretrace_ins (fuel : nat) (h : heap) (root : ptr) (node : nat) (side_left : bool) : option (heap * ptr) :=
  match fuel with
  | O => None
  | S f =>
      let b' := if side_left then hb (h node) - 1 else hb (h node) + 1 in
      let h := set_b h node b' in
      if b' =? 0 then Some (h, root)
      else if (b' =? 1) || (b' =? -1) then
        match hp (h node) with
        | Some p => hretrace_ins f h root p (ptr_is (hl (h p)) node)
        | None => Some (h, root)
        end
      else
        match hrebalance h root node with
        | Some (h', root', _) => Some (h', root')
        | None => None
        end
  end.

(* muggle_avl_tree_insert; the boolean is "a node was returned" *)
Definition havl_insert (s : hst) (x xv : Z) : option (hst * bool) :=
  let new := hnext s in
  match hroot s with
  | None =>
      Some (mkst (hupd (hheap s) new (mkn None None None 0 x xv)) (Some new) (S new), true)
  | Some r =>
      match hdescend (hnext s) (hheap s) new r x with
      | None => None
      | Some None => Some (s, false)
      | Some (Some (h, node, side)) =>
          (* new_node->parent = node; key; value; balance = 0 *)
          let h := hmod h new (fun n => mkn (hl n) (hr n) (Some node) 0 x xv) in
          match hretrace_ins (S (hnext s)) h (hroot s) node side with
          | Some (h', root') => Some (mkst h' root' (S new), true)
          | None => None
          end
      end
  end.

(* ---- removal ---- *)

(* while (target->right) target = target->right;   (go_right = true)  *)
Fixpoint hfar (fuel : nat) (h : heap) (go_right : bool) (t : nat) : option nat :=
  match fuel with
  | O => None
  | S f =>
      match (if go_right then hr (h t) else hl (h t)) with
      | Some c => hfar f h go_right c
      | None => Some t
      end
  end.

(* the "move data into leaf" loop: swap key/value with the in-order predecessor
   (else successor) until [node] is a leaf; returns the heap and the leaf *)
Fixpoint hswap_down (fuel : nat) (h : heap) (node : nat) : option (heap * nat) :=
  match fuel with
  | O => None
  | S f =>
      match hl (h node), hr (h node) with
      | None, None => Some (h, node)
      | Some l, _ =>
          match hfar fuel h true l with
          | Some t =>
              let (nk, nv) := (hk (h node), hv (h node)) in
              let h := set_kv h node (hk (h t)) (hv (h t)) in
              let h := set_kv h t nk nv in
              hswap_down f h t
          | None => None
          end
      | None, Some r =>
          match hfar fuel h false r with
          | Some t =>
              let (nk, nv) := (hk (h node), hv (h node)) in
              let h := set_kv h node (hk (h t)) (hv (h t)) in
              let h := set_kv h t nk nv in
              hswap_down f h t
          | None => None
          end
      end
  end.

(* the retracing loop of remove: [node]'s subtree on side [side_left] lost a level;
   [node = None] ends the loop (while (node)) *)
Fixpoint hretrace_rem (fuel : nat) (h : heap) (root : ptr) (node : ptr) (side_left : bool) : option (heap * ptr) :=
  match node with
  | None => Some (h, root)
  | Some n =>
      match fuel with
      | O => None
      | S f =>
          let b' := if side_left then hb (h n) + 1 else hb (h n) - 1 in
          let h := set_b h n b' in
          if (b' =? 1) || (b' =? -1) then Some (h, root)
          else if b' =? 0 then
            match hp (h n) with
            | Some p => hretrace_rem f h root (Some p) (ptr_is (hl (h p)) n)
            | None => Some (h, root)
            end
          else
            let parent := hp (h n) in
            let side := match parent with Some p => ptr_is (hl (h p)) n | None => side_left end in
            match hrebalance h root n with
            | Some (h', root', true) => hretrace_rem f h' root' parent side
            | Some (h', root', false) => Some (h', root')
            | None => None
            end
      end
  end.

(* muggle_avl_tree_remove of the node [node] (obtained from find) *)
Definition havl_remove (s : hst) (node : nat) : option hst :=
  match hswap_down (hnext s) (hheap s) node with
  | None => None
  | Some (h, leaf) =>
      match hp (h leaf) with
      | None => Some (mkst h None (hnext s))                    (* erase; root = NULL *)
      | Some parent =>
          let side := ptr_is (hl (h parent)) leaf in
          (* muggle_avl_tree_erase_node: unlink from the parent *)
          let h := relink h (Some parent) leaf None in
          match hretrace_rem (S (hnext s)) h (hroot s) (Some parent) side with
          | Some (h', root') => Some (mkst h' root' (hnext s))
          | None => None
          end
      end
  end.

(* ====================================================================== *)
(* hash table: array of sentinel heads, chains linked by prev / next        *)

(* a link is the sentinel head of bucket i or a chain node *)
Inductive link := LHead (i : nat) | LNode (x : nat).
Definition link_eqb (a b : link) : bool :=
  match a, b with
  | LHead i, LHead j => Nat.eqb i j
  | LNode x, LNode y => Nat.eqb x y
  | _, _ => false
  end.

(* muggle_hash_table_node_t; for a head only [cnext] is used (prev stays NULL) *)
Record cnode := mkc { cprev : option link; cnext : ptr; ckey : Z; cval : Z }.

Record hht := mkht {
  th_size : Z;
  th_heads : nat -> ptr;          (* nodes[i].next *)
  th_nodes : nat -> cnode;
  th_next : nat                   (* next id handed out by malloc / the pool *)
}.

Definition cupd (f : nat -> cnode) (x : nat) (n : cnode) : nat -> cnode :=
  fun y => if Nat.eqb y x then n else f y.
Definition hdupd (f : nat -> ptr) (i : nat) (p : ptr) : nat -> ptr :=
  fun j => if Nat.eqb j i then p else f j.

Definition hht_init (table_size : Z) : hht :=
  let s := if table_size <? 8 then 10007 else table_size in
  mkht s (fun _ => None) (fun _ => mkc None None 0 0) 0.

Definition hht_idx (hash : Z -> Z) (t : hht) (k : Z) : nat := Z.to_nat (hash k mod th_size t).

(* the while (node) loops of find / put *)
Fixpoint hchain_find (fuel : nat) (nodes : nat -> cnode) (p : ptr) (k : Z) : option ptr :=
  match p with
  | None => Some None
  | Some x =>
      match fuel with
      | O => None
      | S f => if ckey (nodes x) =? k then Some (Some x) else hchain_find f nodes (cnext (nodes x)) k
      end
  end.

Definition hht_find (hash : Z -> Z) (t : hht) (k : Z) : option ptr :=
  hchain_find (th_next t) (th_nodes t) (th_heads t (hht_idx hash t k)) k.

(* muggle_hash_table_put *)
Definition hht_put (hash : Z -> Z) (t : hht) (k v : Z) : option (hht * bool) :=
  let i := hht_idx hash t k in
  match hchain_find (th_next t) (th_nodes t) (th_heads t i) k with
  | None => None
  | Some (Some _) => Some (t, false)
  | Some None =>
      let new := th_next t in
      let first := th_heads t i in
      (* new->key, value; new->next = head->next; new->prev = head; head->next = new *)
      let nodes := cupd (th_nodes t) new (mkc (Some (LHead i)) first k v) in
      let heads := hdupd (th_heads t) i (Some new) in
      (* if (new->next) new->next->prev = new *)
      let nodes := match first with
                   | Some y => cupd nodes y (mkc (Some (LNode new)) (cnext (nodes y)) (ckey (nodes y)) (cval (nodes y)))
                   | None => nodes
                   end in
      Some (mkht (th_size t) heads nodes (S new), true)
  end.

(* muggle_hash_table_remove of node x: prev->next = next; if (next) next->prev = prev *)
Definition hht_remove_node (t : hht) (x : nat) : option hht :=
  let n := th_nodes t x in
  match cprev n with
  | None => None                               (* MUGGLE_ASSERT(prev != NULL) *)
  | Some prev =>
      let next := cnext n in
      let '(heads, nodes) :=
        match prev with
        | LHead i => (hdupd (th_heads t) i next, th_nodes t)
        | LNode p => (th_heads t,
                      cupd (th_nodes t) p (mkc (cprev (th_nodes t p)) next (ckey (th_nodes t p)) (cval (th_nodes t p))))
        end in
      let nodes := match next with
                   | Some y => cupd nodes y (mkc (Some prev) (cnext (nodes y)) (ckey (nodes y)) (cval (nodes y)))
                   | None => nodes
                   end in
      Some (mkht (th_size t) heads nodes (th_next t))
  end.

(* find + remove, as every caller does it *)
Definition hht_remove (hash : Z -> Z) (t : hht) (k : Z) : option (hht * bool) :=
  match hht_find hash t k with
  | None => None
  | Some None => Some (t, false)
  | Some (Some x) =>
      match hht_remove_node t x with
      | Some t' => Some (t', true)
      | None => None
      end
  end.

(* ====================================================================== *)
(* histories on the heap-level models, and executable read-back / link checks
   (used by the theorems' statements and by the model driver)               *)

Definition havl_init : hst := mkst (fun _ => zero_node) None 0.

Definition havl_step (s : hst) (o : op Z) : option (hst * res) :=
  match o with
  | Ins k v => match havl_insert s k v with Some (s', ok) => Some (s', RIns ok) | None => None end
  | Find k =>
      match havl_find s k with
      | Some (Some n) => Some (s, RFind (Some (hv (hheap s n))))
      | Some None => Some (s, RFind None)
      | None => None
      end
  | Rem k =>
      match havl_find s k with
      | Some (Some n) => match havl_remove s n with Some s' => Some (s', RRem true) | None => None end
      | Some None => Some (s, RRem false)
      | None => None
      end
  end.

Definition hht_step (hash : Z -> Z) (t : hht) (o : op Z) : option (hht * res) :=
  match o with
  | Ins k v => match hht_put hash t k v with Some (t', ok) => Some (t', RIns ok) | None => None end
  | Find k =>
      match hht_find hash t k with
      | Some (Some x) => Some (t, RFind (Some (cval (th_nodes t x))))
      | Some None => Some (t, RFind None)
      | None => None
      end
  | Rem k => match hht_remove hash t k with Some (t', ok) => Some (t', RRem ok) | None => None end
  end.

Fixpoint hrun {S K} (step : S -> op K -> option (S * res)) (s : S) (ops : list (op K)) : option (S * list res) :=
  match ops with
  | [] => Some (s, [])
  | o :: r =>
      match step s o with
      | Some (s1, x) => match hrun step s1 r with Some (s2, xs) => Some (s2, x :: xs) | None => None end
      | None => None
      end
  end.

(* read the tree back from the heap by following left/right from p *)
Fixpoint habs (fuel : nat) (h : heap) (p : ptr) : option tree :=
  match p with
  | None => Some Leaf
  | Some x =>
      match fuel with
      | O => None
      | S f =>
          match habs f h (hl (h x)), habs f h (hr (h x)) with
          | Some l, Some r => Some (Node l (hk (h x)) (hv (h x)) (hb (h x)) r)
          | _, _ => None
          end
      end
  end.

Definition ptr_eqb (a b : ptr) : bool :=
  match a, b with
  | None, None => true
  | Some x, Some y => Nat.eqb x y
  | _, _ => false
  end.

(* every node below p records [par] as its parent, recursively *)
Fixpoint hparents_ok (fuel : nat) (h : heap) (p : ptr) (par : ptr) : bool :=
  match p with
  | None => true
  | Some x =>
      match fuel with
      | O => false
      | S f => ptr_eqb (hp (h x)) par && hparents_ok f h (hl (h x)) (Some x) && hparents_ok f h (hr (h x)) (Some x)
      end
  end.

(* chain of bucket i read back as (key, value) pairs, checking prev links and bucket membership *)
Fixpoint hchain_check (fuel : nat) (hash : Z -> Z) (t : hht) (i : nat) (prev : link) (p : ptr) : option (list (Z * Z)) :=
  match p with
  | None => Some []
  | Some x =>
      match fuel with
      | O => None
      | S f =>
          let n := th_nodes t x in
          match cprev n with
          | Some q =>
              if link_eqb q prev && Nat.eqb (hht_idx hash t (ckey n)) i then
                match hchain_check f hash t i (LNode x) (cnext n) with
                | Some r => Some ((ckey n, cval n) :: r)
                | None => None
                end
              else None
          | None => None
          end
      end
  end.

Definition hht_bucket (hash : Z -> Z) (t : hht) (i : nat) : option (list (Z * Z)) :=
  hchain_check (S (th_next t)) hash t i (LHead i) (th_heads t i).
