(* C09 — heap-level AVL tree: the "move data into leaf" loop of
   muggle_avl_tree_remove (swap key/value with the in-order predecessor, else
   successor, until the node is a leaf) and, with ProofsHeapRem.v, the whole
   removal of an arbitrary node. *)
From MV Require Import C09.Model C09.ModelHeap C09.Spec C09.ProofsAvl C09.ProofsHeapAvl C09.ProofsHeapIns C09.ProofsHeapRem.
From Coq Require Import Arith.
Local Open Scope Z_scope.

(* ---------- unwinding that also returns the final "depth decreased" flag ---------- *)

Fixpoint punwind_rem_d (ctx : list frame) (t : ptree) (d : bool) : ptree * bool :=
  match ctx with
  | [] => (t, d)
  | f :: c =>
      if d then let (t', d') := pshrink (fside f) (fill f t) in punwind_rem_d c t' d'
      else (plug ctx t, false)
  end.

Lemma plug_app a : forall b t, plug (a ++ b) t = plug b (plug a t).
Proof. induction a as [|f a IH]; intros b t; cbn [app plug]; [reflexivity|apply IH]. Qed.

Lemma punwind_rem_d_false ctx t : punwind_rem_d ctx t false = (plug ctx t, false).
Proof. destruct ctx; reflexivity. Qed.

Lemma punwind_rem_d_app a : forall b t d,
  punwind_rem_d (a ++ b) t d = punwind_rem_d b (fst (punwind_rem_d a t d)) (snd (punwind_rem_d a t d)).
Proof.
  induction a as [|f a IH]; intros b t d; cbn [app punwind_rem_d]; [reflexivity|].
  destruct d.
  - destruct (pshrink (fside f) (fill f t)) as [t' d']. apply IH.
  - cbn [fst snd]. rewrite punwind_rem_d_false. change (f :: a ++ b) with ((f :: a) ++ b). rewrite plug_app. reflexivity.
Qed.

Lemma punwind_rem_fst ctx : forall t d, punwind_rem ctx t d = fst (punwind_rem_d ctx t d).
Proof.
  induction ctx as [|f c IH]; intros t d; cbn [punwind_rem punwind_rem_d]; [reflexivity|].
  destruct d; [|reflexivity]. destruct (pshrink (fside f) (fill f t)) as [t' d']. apply IH.
Qed.

(* ---------- the swap loop on decorated trees ---------- *)

Definition all_side (s : bool) (spine : list frame) : Prop := Forall (fun f => fside f = s) spine.

(* swapped ctx N ctx' leaf': starting at node N below the path ctx, the loop ends
   at the leaf leaf' below the path ctx'; the data of N has travelled down to
   leaf', every node passed has received its predecessor's / successor's data *)
Inductive swapped : list frame -> ptree -> list frame -> ptree -> Prop :=
  | sw_leaf ctx n k v b : swapped ctx (PNode n PLeaf k v b PLeaf) ctx (PNode n PLeaf k v b PLeaf)
  | sw_left ctx n l k v b r spine t tl tk tv tb ctx' leaf' :
      l <> PLeaf -> all_side false spine -> plug spine (PNode t tl tk tv tb PLeaf) = l ->
      swapped (spine ++ FL n tk tv b r :: ctx) (PNode t tl k v tb PLeaf) ctx' leaf' ->
      swapped ctx (PNode n l k v b r) ctx' leaf'
  | sw_right ctx n k v b r spine t tk tv tb tr ctx' leaf' :
      r <> PLeaf -> all_side true spine -> plug spine (PNode t PLeaf tk tv tb tr) = r ->
      swapped (spine ++ FR n PLeaf tk tv b :: ctx) (PNode t PLeaf k v tb tr) ctx' leaf' ->
      swapped ctx (PNode n PLeaf k v b r) ctx' leaf'.

(* ---------- functional side: the loop computes Model.rem_here ---------- *)

Definition here_res (t : tree) : tree * bool :=
  match t with
  | Leaf => (Leaf, false)
  | Node l k v b r => rem_here t l b r (fun _ => rem GoMax l) (fun _ => rem GoMin r)
  end.

Lemma rem_gomax_some t : t <> Leaf -> exists kv, snd (rem GoMax t) = Some kv.
Proof.
  induction t as [|l IHl k v b r IHr]; intros H; [congruence|]. rewrite rem_node. cbv zeta.
  destruct r as [|rl rk rv rb rr].
  - destruct (rem_here _ _ _ _ _ _). cbn. eauto.
  - destruct (IHr ltac:(discriminate)) as (kv & E). destruct (rem GoMax (Node rl rk rv rb rr)) as [[r' dec] kv'].
    cbn [snd] in E. subst kv'. destruct (shrink_if dec false (Node l k v b r')). cbn. eauto.
Qed.

Lemma rem_gomin_some t : t <> Leaf -> exists kv, snd (rem GoMin t) = Some kv.
Proof.
  induction t as [|l IHl k v b r IHr]; intros H; [congruence|]. rewrite rem_node. cbv zeta.
  destruct l as [|ll lk lv lb lr].
  - destruct (rem_here _ _ _ _ _ _). cbn. eauto.
  - destruct (IHl ltac:(discriminate)) as (kv & E). destruct (rem GoMin (Node ll lk lv lb lr)) as [[l' dec] kv'].
    cbn [snd] in E. subst kv'. destruct (shrink_if dec true (Node l' k v b r)). cbn. eauto.
Qed.

(* the result at a node does not depend on the node's own key and value *)
Lemma here_res_kv l k v k' v' b r : here_res (Node l k v b r) = here_res (Node l k' v' b r).
Proof.
  cbn [here_res]. unfold rem_here. destruct l as [|ll lk lv lb lr].
  - destruct r as [|rl rk rv rb rr]; [reflexivity|].
    destruct (rem_gomin_some (Node rl rk rv rb rr) ltac:(discriminate)) as (kv & E).
    destruct (rem GoMin (Node rl rk rv rb rr)) as [[r' dec] kv']. cbn [snd] in E. subst kv'. reflexivity.
  - destruct (rem_gomax_some (Node ll lk lv lb lr) ltac:(discriminate)) as (kv & E).
    destruct (rem GoMax (Node ll lk lv lb lr)) as [[l' dec] kv']. cbn [snd] in E. subst kv'. reflexivity.
Qed.

Lemma erase_plug_nonleaf spine t : erase t <> Leaf -> erase (plug spine t) <> Leaf.
Proof.
  revert t. induction spine as [|f c IH]; intros t H; cbn [plug]; [exact H|]. apply IH. destruct f; discriminate.
Qed.

(* GoMax walks down a right spine and unwinds it with shrink_if *)
Lemma gomax_spine spine : forall sub sub' d kv,
  all_side false spine -> erase sub <> Leaf -> rem GoMax (erase sub) = (erase sub', d, kv) ->
  rem GoMax (erase (plug spine sub)) =
    (erase (fst (punwind_rem_d spine sub' d)), snd (punwind_rem_d spine sub' d), kv).
Proof.
  induction spine as [|f c IH]; intros sub sub' d kv Hs Hnl H.
  - exact H.
  - inversion Hs as [|? ? Hf Hc]; subst. cbn [plug punwind_rem_d].
    destruct f as [y k v b r|y l k v b]; [discriminate Hf|]. cbn [fside fill] in *.
    assert (Hstep : rem GoMax (erase (PNode y l k v b sub)) =
                    (if d then (erase (fst (pshrink false (PNode y l k v b sub'))), snd (pshrink false (PNode y l k v b sub')), kv)
                     else (erase (PNode y l k v b sub'), false, kv))).
    { destruct (erase_pshrink false (PNode y l k v b sub')) as (E1 & E2).
      cbn [erase] in *. rewrite rem_node. cbv zeta.
      destruct (erase sub) as [|sl sk sv sb sr] eqn:Es; [congruence|]. rewrite H. unfold shrink_if.
      destruct d; [|reflexivity]. rewrite E1, E2.
      destruct (shrink false (Node (erase l) k v b (erase sub'))); reflexivity. }
    assert (Hnl' : erase (PNode y l k v b sub) <> Leaf) by discriminate.
    destruct d.
    + destruct (pshrink false (PNode y l k v b sub')) as [t' d'] eqn:Eg. cbn [fst snd] in Hstep.
      apply (IH _ _ _ _ Hc Hnl' Hstep).
    + cbn [fst snd plug fill].
      rewrite (IH _ _ _ _ Hc Hnl' Hstep). rewrite punwind_rem_d_false. reflexivity.
Qed.

Lemma gomin_spine spine : forall sub sub' d kv,
  all_side true spine -> erase sub <> Leaf -> rem GoMin (erase sub) = (erase sub', d, kv) ->
  rem GoMin (erase (plug spine sub)) =
    (erase (fst (punwind_rem_d spine sub' d)), snd (punwind_rem_d spine sub' d), kv).
Proof.
  induction spine as [|f c IH]; intros sub sub' d kv Hs Hnl H.
  - exact H.
  - inversion Hs as [|? ? Hf Hc]; subst. cbn [plug punwind_rem_d].
    destruct f as [y k v b r|y l k v b]; [|discriminate Hf]. cbn [fside fill] in *.
    assert (Hstep : rem GoMin (erase (PNode y sub k v b r)) =
                    (if d then (erase (fst (pshrink true (PNode y sub' k v b r))), snd (pshrink true (PNode y sub' k v b r)), kv)
                     else (erase (PNode y sub' k v b r), false, kv))).
    { destruct (erase_pshrink true (PNode y sub' k v b r)) as (E1 & E2).
      cbn [erase] in *. rewrite rem_node. cbv zeta.
      destruct (erase sub) as [|sl sk sv sb sr] eqn:Es; [congruence|]. rewrite H. unfold shrink_if.
      destruct d; [|reflexivity]. rewrite E1, E2.
      destruct (shrink true (Node (erase sub') k v b (erase r))); reflexivity. }
    assert (Hnl' : erase (PNode y sub k v b r) <> Leaf) by discriminate.
    destruct d.
    + destruct (pshrink true (PNode y sub' k v b r)) as [t' d'] eqn:Eg. cbn [fst snd] in Hstep.
      apply (IH _ _ _ _ Hc Hnl' Hstep).
    + cbn [fst snd plug fill].
      rewrite (IH _ _ _ _ Hc Hnl' Hstep). rewrite punwind_rem_d_false. reflexivity.
Qed.

(* the path from the final leaf up to the start node, unwound after deleting the
   leaf, is exactly what the functional model does at the start node *)
Lemma swapped_here ctx N ctx' leaf' : swapped ctx N ctx' leaf' ->
  exists seg, ctx' = seg ++ ctx /\
    (erase (fst (punwind_rem_d seg PLeaf true)), snd (punwind_rem_d seg PLeaf true)) = here_res (erase N).
Proof.
  induction 1 as [ctx n k v b
                 |ctx n l k v b r spine t tl tk tv tb ctx' leaf' Hl Hs Hp Hsw IH
                 |ctx n k v b r spine t tk tv tb tr ctx' leaf' Hr Hs Hp Hsw IH].
  - exists []. split; [reflexivity|]. reflexivity.
  - destruct IH as (seg1 & -> & IH).
    exists (seg1 ++ spine ++ [FL n tk tv b r]). split; [rewrite <- !app_assoc; reflexivity|].
    rewrite punwind_rem_d_app. set (X1 := punwind_rem_d seg1 PLeaf true) in *.
    rewrite punwind_rem_d_app. set (Y := punwind_rem_d spine (fst X1) (snd X1)).
    (* what GoMax returns on l *)
    assert (HT : rem GoMax (erase (PNode t tl tk tv tb PLeaf)) = (erase (fst X1), snd X1, Some (tk, tv))).
    { cbn [erase]. rewrite rem_node. cbv zeta.
      change (rem_here (Node (erase tl) tk tv tb Leaf) (erase tl) tb Leaf (fun _ => rem GoMax (erase tl)) (fun _ => rem GoMin Leaf))
        with (here_res (Node (erase tl) tk tv tb Leaf)).
      rewrite (here_res_kv _ tk tv k v). cbn [erase] in IH. rewrite <- IH. reflexivity. }
    assert (HTnl : erase (PNode t tl tk tv tb PLeaf) <> Leaf) by discriminate.
    pose proof (gomax_spine spine _ _ _ _ Hs HTnl HT) as HG. rewrite Hp in HG. fold Y in HG.
    destruct l as [|lx ll lk lv lb lr] eqn:El; [congruence|]. rewrite <- El in *.
    cbn [erase here_res]. unfold rem_here.
    assert (Hel : erase l <> Leaf) by (rewrite El; discriminate).
    destruct (erase l) as [|a1 a2 a3 a4 a5] eqn:Ee; [congruence|]. rewrite <- Ee in *. rewrite HG.
    cbn [punwind_rem_d fside fill]. unfold shrink_if.
    destruct (snd Y) eqn:Ed.
    + destruct (erase_pshrink true (PNode n (fst Y) tk tv b r)) as (E1 & E2). cbn [erase] in E1, E2.
      destruct (pshrink true (PNode n (fst Y) tk tv b r)) as [t' d']. cbn [punwind_rem_d fst snd] in *.
      rewrite E1, E2. destruct (shrink true (Node (erase (fst Y)) tk tv b (erase r))); reflexivity.
    + reflexivity.
  - destruct IH as (seg1 & -> & IH).
    exists (seg1 ++ spine ++ [FR n PLeaf tk tv b]). split; [rewrite <- !app_assoc; reflexivity|].
    rewrite punwind_rem_d_app. set (X1 := punwind_rem_d seg1 PLeaf true) in *.
    rewrite punwind_rem_d_app. set (Y := punwind_rem_d spine (fst X1) (snd X1)).
    assert (HT : rem GoMin (erase (PNode t PLeaf tk tv tb tr)) = (erase (fst X1), snd X1, Some (tk, tv))).
    { cbn [erase]. rewrite rem_node. cbv zeta.
      change (rem_here (Node Leaf tk tv tb (erase tr)) Leaf tb (erase tr) (fun _ => rem GoMax Leaf) (fun _ => rem GoMin (erase tr)))
        with (here_res (Node Leaf tk tv tb (erase tr))).
      rewrite (here_res_kv _ tk tv k v). cbn [erase] in IH. rewrite <- IH. reflexivity. }
    assert (HTnl : erase (PNode t PLeaf tk tv tb tr) <> Leaf) by discriminate.
    pose proof (gomin_spine spine _ _ _ _ Hs HTnl HT) as HG. rewrite Hp in HG. fold Y in HG.
    destruct r as [|rx rl rk rv rb rr] eqn:El; [congruence|]. rewrite <- El in *.
    cbn [erase here_res]. unfold rem_here.
    assert (Hel : erase r <> Leaf) by (rewrite El; discriminate).
    destruct (erase r) as [|a1 a2 a3 a4 a5] eqn:Ee; [congruence|]. rewrite <- Ee in *. rewrite HG.
    cbn [punwind_rem_d fside fill]. unfold shrink_if.
    destruct (snd Y) eqn:Ed.
    + destruct (erase_pshrink false (PNode n PLeaf tk tv b (fst Y))) as (E1 & E2). cbn [erase] in E1, E2.
      destruct (pshrink false (PNode n PLeaf tk tv b (fst Y))) as [t' d']. cbn [punwind_rem_d fst snd] in *.
      rewrite E1, E2. destruct (shrink false (Node Leaf tk tv b (erase (fst Y)))); reflexivity.
    + reflexivity.
Qed.

(* ---------- paths below an arbitrary parent pointer (for the spine inside a subtree) ---------- *)

Definition cparp (ctx : list frame) (par : ptr) : ptr := match ctx with [] => par | f :: _ => Some (fid f) end.

Fixpoint wf_ctxp (h : heap) (ctx : list frame) (child : ptr) (par : ptr) : Prop :=
  match ctx with
  | [] => True
  | f :: c =>
      h (fid f) = (if fside f then mkn child (pptr (fsib f)) else mkn (pptr (fsib f)) child)
                    (cparp c par) (fbal f) (fkey f) (match f with FL _ _ v _ _ | FR _ _ _ v _ => v end) /\
      wf_at h (fsib f) (Some (fid f)) /\ wf_ctxp h c (Some (fid f)) par
  end.

Lemma wf_plugp h ctx par : forall t, wf_at h (plug ctx t) par <-> wf_at h t (cparp ctx par) /\ wf_ctxp h ctx (pptr t) par.
Proof.
  induction ctx as [|f c IH]; intros t; cbn [plug cparp wf_ctxp].
  - tauto.
  - rewrite IH. destruct f; cbn [fill wf_at pptr fid fside fsib fbal fkey]; tauto.
Qed.

Lemma wf_ctxp_frame h h' ctx par : forall child,
  (forall y, In y (cids ctx) -> h' y = h y) -> wf_ctxp h ctx child par -> wf_ctxp h' ctx child par.
Proof.
  induction ctx as [|f c IH]; intros child Hf H; cbn [wf_ctxp cids] in *; [exact I|].
  destruct H as (Hx & Hs & Hc). split; [rewrite Hf; [exact Hx|cbn; auto]|]. split.
  - eapply wf_at_frame; [|exact Hs]. intros y Hy. apply Hf. cbn [app In]. right. apply in_or_app. auto.
  - apply IH; [|exact Hc]. intros y Hy. apply Hf. cbn [app In]. right. apply in_or_app. auto.
Qed.

(* ---------- the id / shape skeleton: what the swaps leave untouched ---------- *)

Fixpoint pskel (t : ptree) : ptree :=
  match t with PLeaf => PLeaf | PNode x l _ _ b r => PNode x (pskel l) 0 0 b (pskel r) end.

Lemma ids_pskel t : ids (pskel t) = ids t.
Proof. induction t as [|x l IHl k v b r IHr]; cbn [pskel ids]; [reflexivity|]. rewrite IHl, IHr. reflexivity. Qed.
Lemma pptr_pskel t : pptr (pskel t) = pptr t.
Proof. destruct t; reflexivity. Qed.
Lemma height_pskel t : height (erase (pskel t)) = height (erase t).
Proof. induction t as [|x l IHl k v b r IHr]; cbn [pskel erase height]; [reflexivity|]. rewrite IHl, IHr. reflexivity. Qed.
Lemma bal_pskel t : bal (erase (pskel t)) <-> bal (erase t).
Proof.
  induction t as [|x l IHl k v b r IHr]; cbn [pskel erase bal]; [tauto|]. rewrite IHl, IHr, !height_pskel. tauto.
Qed.

Lemma pskel_plug_congr ctx : forall t1 t2, pskel t1 = pskel t2 -> pskel (plug ctx t1) = pskel (plug ctx t2).
Proof.
  induction ctx as [|f c IH]; intros t1 t2 H; cbn [plug]; [exact H|]. apply IH.
  destruct f; cbn [fill pskel]; rewrite H; reflexivity.
Qed.

(* ---------- the inner while loops: walk to the far end of a spine ---------- *)

Lemma Forall_snoc {A} (P : A -> Prop) l x : Forall P l -> P x -> Forall P (l ++ [x]).
Proof. intros H1 H2. apply Forall_app. split; [exact H1|constructor; [exact H2|constructor]]. Qed.

Lemma hfar_right_ok h : forall l par fuel c,
  pptr l = Some c -> wf_at h l par -> (length (ids l) <= fuel)%nat ->
  exists spine t tl tk tv tb, hfar fuel h true c = Some t /\ all_side false spine /\
    plug spine (PNode t tl tk tv tb PLeaf) = l.
Proof.
  induction l as [|x ll IHl k v b lr IHr]; intros par fuel c Hc W Hf; [discriminate|].
  cbn [pptr] in Hc. inversion Hc; subst x. cbn [wf_at] in W. destruct W as (Hx & Wl & Wr).
  cbn [ids length] in Hf. rewrite app_length in Hf. destruct fuel as [|fuel]; [lia|].
  cbn [hfar]. rewrite Hx. cbn [hr].
  destruct lr as [|c2 rl rk rv rb rr].
  - exists [], c, ll, k, v, b. repeat split. constructor.
  - cbn [pptr]. destruct (IHr (Some c) fuel c2 eq_refl Wr ltac:(lia)) as (spine & t & tl & tk & tv & tb & E & Hs & Hp).
    exists (spine ++ [FR c ll k v b]), t, tl, tk, tv, tb. split; [exact E|]. split; [apply Forall_snoc; [exact Hs|reflexivity]|].
    rewrite plug_app, Hp. reflexivity.
Qed.

Lemma hfar_left_ok h : forall r par fuel c,
  pptr r = Some c -> wf_at h r par -> (length (ids r) <= fuel)%nat ->
  exists spine t tk tv tb tr, hfar fuel h false c = Some t /\ all_side true spine /\
    plug spine (PNode t PLeaf tk tv tb tr) = r.
Proof.
  induction r as [|x rl IHl k v b rr IHr]; intros par fuel c Hc W Hf; [discriminate|].
  cbn [pptr] in Hc. inversion Hc; subst x. cbn [wf_at] in W. destruct W as (Hx & Wl & Wr).
  cbn [ids length] in Hf. rewrite app_length in Hf. destruct fuel as [|fuel]; [lia|].
  cbn [hfar]. rewrite Hx. cbn [hl].
  destruct rl as [|c2 l2 lk lv lb lr].
  - exists [], c, k, v, b, rr. repeat split. constructor.
  - cbn [pptr]. destruct (IHl (Some c) fuel c2 eq_refl Wl ltac:(lia)) as (spine & t & tk & tv & tb & tr & E & Hs & Hp).
    exists (spine ++ [FL c k v b rr]), t, tk, tv, tb, tr. split; [exact E|]. split; [apply Forall_snoc; [exact Hs|reflexivity]|].
    rewrite plug_app, Hp. reflexivity.
Qed.

Lemma pptr_plug_same spine : forall t t', pptr t = pptr t' -> pptr (plug spine t) = pptr (plug spine t').
Proof.
  induction spine as [|f c IH]; intros t t' H; cbn [plug]; [exact H|]. apply IH. destruct f; reflexivity.
Qed.

Lemma length_ids_sub spine t : (length (ids t) <= length (ids (plug spine t)))%nat.
Proof. rewrite length_ids_plug. lia. Qed.

(* ---------- one iteration: swap the data of n with its predecessor / successor t ---------- *)

Lemma swap_step_left h ctx n l k v b r spine t tl tk tv tb :
  wf_at h (plug ctx (PNode n l k v b r)) None -> nodup (ids (plug ctx (PNode n l k v b r))) ->
  plug spine (PNode t tl tk tv tb PLeaf) = l ->
  let h2 := set_kv (set_kv h n tk tv) t k v in
  hk (h t) = tk /\ hv (h t) = tv /\ hk (h n) = k /\ hv (h n) = v /\ hl (h n) = pptr l /\
  wf_at h2 (plug (spine ++ FL n tk tv b r :: ctx) (PNode t tl k v tb PLeaf)) None.
Proof.
  intros W ND Hp h2. subst l.
  apply wf_plug in W. destruct W as (WN & Wc). cbn [wf_at pptr] in WN, Wc. destruct WN as (Hn & Wl & Wr).
  apply (wf_plugp h spine (Some n)) in Wl. destruct Wl as (WT & Ws). cbn [wf_at pptr] in WT, Ws.
  destruct WT as (Ht & Wtl & _).
  assert (NDf : nodup (n :: (t :: ids tl) ++ cids spine ++ ids r ++ cids ctx)).
  { intro a. specialize (ND a). rewrite count_plug in ND. cbn [ids] in ND. cbn [count_occ] in ND |- *.
    rewrite !count_occ_app in ND |- *. rewrite count_plug in ND. cbn [ids count_occ] in ND.
    rewrite !count_occ_app in ND. cbn [count_occ] in ND |- *.
    rewrite ?count_occ_app. destruct (Nat.eq_dec n a); destruct (Nat.eq_dec t a); lia. }
  assert (Hnt : n <> t) by (intros ->; cnt t).
  assert (Hh2n : h2 n = with_kv tk tv (h n)).
  { unfold h2, set_kv. rewrite hmod_other by exact Hnt. apply hmod_same. }
  assert (Hh2t : h2 t = with_kv k v (h t)).
  { unfold h2, set_kv. rewrite hmod_same. rewrite hmod_other by congruence. reflexivity. }
  assert (Ho : forall y, y <> n -> y <> t -> h2 y = h y).
  { intros y H1 H2. unfold h2, set_kv. rewrite !hmod_other by assumption. reflexivity. }
  rewrite Ht, Hn. cbn [hk hv hl]. repeat (split; [reflexivity|]).
  rewrite plug_app. cbn [plug fill]. apply wf_plug. cbn [wf_at pptr]. split; [split; [|split]|].
  - rewrite Hh2n, Hn. unfold with_kv. cbn [hl hr hp hb].
    rewrite (pptr_plug_same spine (PNode t tl k v tb PLeaf) (PNode t tl tk tv tb PLeaf) eq_refl). reflexivity.
  - apply (wf_plugp h2 spine (Some n)). cbn [wf_at pptr]. split; [split; [|split; [|exact I]]|].
    + rewrite Hh2t, Ht. reflexivity.
    + eapply wf_at_frame; [|exact Wtl]. intros y Hy. apply Ho; intros ->; cnt_hyps n; cnt_hyps t;
        [cnt n|cnt t].
    + eapply wf_ctxp_frame; [|exact Ws]. intros y Hy. apply Ho; intros ->; [cnt n|cnt t].
  - eapply wf_at_frame; [|exact Wr]. intros y Hy. apply Ho; intros ->; [cnt n|cnt t].
  - eapply wf_ctx_frame; [|exact Wc]. intros y Hy. apply Ho; intros ->; [cnt n|cnt t].
Qed.

Lemma swap_step_right h ctx n k v b r spine t tk tv tb tr :
  wf_at h (plug ctx (PNode n PLeaf k v b r)) None -> nodup (ids (plug ctx (PNode n PLeaf k v b r))) ->
  plug spine (PNode t PLeaf tk tv tb tr) = r ->
  let h2 := set_kv (set_kv h n tk tv) t k v in
  hk (h t) = tk /\ hv (h t) = tv /\ hk (h n) = k /\ hv (h n) = v /\ hl (h n) = None /\ hr (h n) = pptr r /\
  wf_at h2 (plug (spine ++ FR n PLeaf tk tv b :: ctx) (PNode t PLeaf k v tb tr)) None.
Proof.
  intros W ND Hp h2. subst r.
  apply wf_plug in W. destruct W as (WN & Wc). cbn [wf_at pptr] in WN, Wc. destruct WN as (Hn & _ & Wr).
  apply (wf_plugp h spine (Some n)) in Wr. destruct Wr as (WT & Ws). cbn [wf_at pptr] in WT, Ws.
  destruct WT as (Ht & _ & Wtr).
  assert (NDf : nodup (n :: (t :: ids tr) ++ cids spine ++ cids ctx)).
  { intro a. specialize (ND a). rewrite count_plug in ND. cbn [ids] in ND. cbn [count_occ] in ND |- *.
    rewrite !count_occ_app in ND |- *. rewrite count_plug in ND. cbn [ids count_occ] in ND.
    rewrite !count_occ_app in ND. cbn [count_occ app] in ND |- *.
    rewrite ?count_occ_app. destruct (Nat.eq_dec n a); destruct (Nat.eq_dec t a); lia. }
  assert (Hnt : n <> t) by (intros ->; cnt t).
  assert (Hh2n : h2 n = with_kv tk tv (h n)).
  { unfold h2, set_kv. rewrite hmod_other by exact Hnt. apply hmod_same. }
  assert (Hh2t : h2 t = with_kv k v (h t)).
  { unfold h2, set_kv. rewrite hmod_same. rewrite hmod_other by congruence. reflexivity. }
  assert (Ho : forall y, y <> n -> y <> t -> h2 y = h y).
  { intros y H1 H2. unfold h2, set_kv. rewrite !hmod_other by assumption. reflexivity. }
  rewrite Ht, Hn. cbn [hk hv hl hr]. repeat (split; [reflexivity|]).
  rewrite plug_app. cbn [plug fill]. apply wf_plug. cbn [wf_at pptr]. split; [split; [|split; [exact I|]]|].
  - rewrite Hh2n, Hn. unfold with_kv. cbn [hl hr hp hb].
    rewrite (pptr_plug_same spine (PNode t PLeaf k v tb tr) (PNode t PLeaf tk tv tb tr) eq_refl). reflexivity.
  - apply (wf_plugp h2 spine (Some n)). cbn [wf_at pptr]. split; [split; [|split; [exact I|]]|].
    + rewrite Hh2t, Ht. reflexivity.
    + eapply wf_at_frame; [|exact Wtr]. intros y Hy. apply Ho; intros ->; [cnt n|cnt t].
    + eapply wf_ctxp_frame; [|exact Ws]. intros y Hy. apply Ho; intros ->; [cnt n|cnt t].
  - eapply wf_ctx_frame; [|exact Wc]. intros y Hy. apply Ho; intros ->; [cnt n|cnt t].
Qed.

(* ---------- the whole loop ---------- *)

Lemma hswap_down_ok : forall sz N ctx h n fuel,
  (length (ids N) <= sz)%nat -> (sz <= fuel)%nat -> pptr N = Some n ->
  wf_at h (plug ctx N) None -> nodup (ids (plug ctx N)) ->
  exists ctx' m k' v' b' h',
    swapped ctx N ctx' (PNode m PLeaf k' v' b' PLeaf) /\
    hswap_down fuel h n = Some (h', m) /\
    wf_at h' (plug ctx' (PNode m PLeaf k' v' b' PLeaf)) None /\
    pskel (plug ctx' (PNode m PLeaf k' v' b' PLeaf)) = pskel (plug ctx N).
Proof.
  induction sz as [|sz IH]; intros N ctx h n fuel Hsz Hfuel Hn W ND.
  { destruct N; [discriminate|]. cbn [ids length] in Hsz. lia. }
  destruct N as [|x l k v b r]; [discriminate|]. cbn [pptr] in Hn. inversion Hn; subst x. clear Hn.
  destruct fuel as [|fuel]; [lia|].
  pose proof (proj1 (wf_plug h ctx _) W) as (WN & _). cbn [wf_at] in WN. destruct WN as (Hx & Wl & Wr).
  cbn [ids length] in Hsz. rewrite app_length in Hsz.
  destruct l as [|c ll lk lv lb lr] eqn:El.
  - destruct r as [|c rl rk rv rb rr] eqn:Er.
    + (* a leaf: the loop ends *)
      exists ctx, n, k, v, b, h. split; [constructor|]. split; [|auto].
      cbn [hswap_down]. rewrite Hx. reflexivity.
    + (* no left child: successor *)
      rewrite <- Er in *. assert (Hrc : pptr r = Some c) by (rewrite Er; reflexivity).
      destruct (hfar_left_ok h r (Some n) (S fuel) c Hrc Wr ltac:(lia)) as (spine & t & tk & tv & tb & tr & Ef & Hs & Hp).
      destruct (swap_step_right h ctx n k v b r spine t tk tv tb tr W ND Hp) as (A1 & A2 & A3 & A4 & _ & _ & W2).
      set (h2 := set_kv (set_kv h n tk tv) t k v) in *.
      assert (Eh0 : hswap_down (S fuel) h n = hswap_down fuel h2 t).
      { cbn [hswap_down]. rewrite Hx. cbn [hl hr pptr]. rewrite Hrc, Ef, A1, A2. reflexivity. }
      set (ctx2 := spine ++ FR n PLeaf tk tv b :: ctx) in *. set (T' := PNode t PLeaf k v tb tr) in *.
      assert (Hsk : pskel (plug ctx2 T') = pskel (plug ctx (PNode n PLeaf k v b r))).
      { unfold ctx2. rewrite plug_app. cbn [plug fill]. apply pskel_plug_congr. cbn [pskel]. f_equal.
        rewrite <- Hp. apply pskel_plug_congr. reflexivity. }
      assert (Hlen : (length (ids T') <= sz)%nat).
      { pose proof (length_ids_sub spine (PNode t PLeaf tk tv tb tr)) as L. rewrite Hp in L. cbn [ids length] in L |- *.
        unfold T'. cbn [ids length]. lia. }
      destruct (IH T' ctx2 h2 t fuel Hlen ltac:(lia) eq_refl W2) as (ctx' & m & k' & v' & b' & h' & Hsw & Eh & W' & Hsk').
      { intro a. rewrite <- (ids_pskel (plug ctx2 T')), Hsk, ids_pskel. apply ND. }
      exists ctx', m, k', v', b', h'. split; [|split; [rewrite Eh0; exact Eh|split; [exact W'|rewrite Hsk', Hsk; reflexivity]]].
      eapply sw_right; [rewrite Er; discriminate|exact Hs|exact Hp|exact Hsw].
  - (* a left child: predecessor *)
    rewrite <- El in *. assert (Hlc : pptr l = Some c) by (rewrite El; reflexivity).
    destruct (hfar_right_ok h l (Some n) (S fuel) c Hlc Wl ltac:(lia)) as (spine & t & tl & tk & tv & tb & Ef & Hs & Hp).
    destruct (swap_step_left h ctx n l k v b r spine t tl tk tv tb W ND Hp) as (A1 & A2 & A3 & A4 & _ & W2).
    set (h2 := set_kv (set_kv h n tk tv) t k v) in *.
    assert (Eh0 : hswap_down (S fuel) h n = hswap_down fuel h2 t).
    { cbn [hswap_down]. rewrite Hx. cbn [hl hr]. rewrite Hlc. destruct (pptr r); rewrite Ef, A1, A2; reflexivity. }
    set (ctx2 := spine ++ FL n tk tv b r :: ctx) in *. set (T' := PNode t tl k v tb PLeaf) in *.
    assert (Hsk : pskel (plug ctx2 T') = pskel (plug ctx (PNode n l k v b r))).
    { unfold ctx2. rewrite plug_app. cbn [plug fill]. apply pskel_plug_congr. cbn [pskel]. f_equal.
      rewrite <- Hp. apply pskel_plug_congr. reflexivity. }
    assert (Hlen : (length (ids T') <= sz)%nat).
    { pose proof (length_ids_sub spine (PNode t tl tk tv tb PLeaf)) as L. rewrite Hp in L. cbn [ids length] in L |- *.
      unfold T'. cbn [ids length]. rewrite app_length in *. cbn [length] in *. lia. }
    destruct (IH T' ctx2 h2 t fuel Hlen ltac:(lia) eq_refl W2) as (ctx' & m & k' & v' & b' & h' & Hsw & Eh & W' & Hsk').
    { intro a. rewrite <- (ids_pskel (plug ctx2 T')), Hsk, ids_pskel. apply ND. }
    exists ctx', m, k', v', b', h'. split; [|split; [rewrite Eh0; exact Eh|split; [exact W'|rewrite Hsk', Hsk; reflexivity]]].
    eapply sw_left; [rewrite El; discriminate|exact Hs|exact Hp|exact Hsw].
Qed.

(* ---------- removal of an arbitrary node ---------- *)

Lemma hswap_down_leaf fuel h m : hl (h m) = None -> hr (h m) = None -> hswap_down (S fuel) h m = Some (h, m).
Proof. intros H1 H2. cbn [hswap_down]. rewrite H1, H2. reflexivity. Qed.

Lemma havl_remove_swap s n h2 m :
  hswap_down (hnext s) (hheap s) n = Some (h2, m) -> hl (h2 m) = None -> hr (h2 m) = None ->
  havl_remove s n = havl_remove (mkst h2 (hroot s) (hnext s)) m.
Proof.
  intros E H1 H2. unfold havl_remove. rewrite E. cbn [hheap hroot hnext].
  destruct (hnext s) as [|f]; [cbn in E; discriminate|]. rewrite (hswap_down_leaf f h2 m H1 H2). reflexivity.
Qed.

Theorem havl_remove_ok s ctx n l x v b r :
  let N := PNode n l x v b r in
  heap_rep s (plug ctx N) -> bal (erase (plug ctx N)) -> path_for x ctx ->
  exists s' pt', havl_remove s n = Some s' /\ heap_rep s' pt' /\
    erase pt' = fst (fst (rem (ByKey x) (erase (plug ctx N)))).
Proof.
  intros N (W & ND & Hroot & Hbound) Hbal Hpath.
  pose proof (nodup_bound_length _ _ ND Hbound) as Hlen.
  assert (Hsz : (length (ids N) <= hnext s)%nat) by (pose proof (length_ids_sub ctx N); lia).
  destruct (hswap_down_ok (hnext s) N ctx (hheap s) n (hnext s) Hsz (le_n _) eq_refl W ND)
    as (ctx' & m & k' & v' & b' & h2 & Hsw & Eh & W2 & Hsk).
  set (leaf := PNode m PLeaf k' v' b' PLeaf) in *.
  (* the swapped heap is a representation of the same skeleton *)
  set (s2 := mkst h2 (hroot s) (hnext s)).
  assert (R2 : heap_rep s2 (plug ctx' leaf)).
  { split; [exact W2|]. split; [|split].
    - intro a. rewrite <- (ids_pskel (plug ctx' leaf)), Hsk, ids_pskel. apply ND.
    - cbn [s2 hroot]. rewrite Hroot. rewrite <- (pptr_pskel (plug ctx N)), <- Hsk, pptr_pskel. reflexivity.
    - intros a Ha. cbn [s2 hnext]. apply Hbound. rewrite <- (ids_pskel (plug ctx N)), <- Hsk, ids_pskel. exact Ha. }
  assert (B2 : bal (erase (plug ctx' leaf))) by (apply bal_pskel; rewrite Hsk; apply bal_pskel; exact Hbal).
  assert (Hm : hl (h2 m) = None /\ hr (h2 m) = None).
  { apply wf_plug in W2. destruct W2 as (Wl & _). cbn [leaf wf_at pptr] in Wl. destruct Wl as (Em & _). rewrite Em. auto. }
  rewrite (havl_remove_swap s n h2 m Eh (proj1 Hm) (proj2 Hm)). fold s2.
  destruct (havl_remove_leaf_ok s2 ctx' m k' v' b' R2 B2) as (s' & Es & R' & _).
  exists s', (punwind_rem ctx' PLeaf true). split; [exact Es|]. split; [exact R'|].
  (* the functional model does the same *)
  destruct (swapped_here _ _ _ _ Hsw) as (seg & -> & Hh).
  set (X := punwind_rem_d seg PLeaf true) in *.
  assert (HN : rem (ByKey x) (erase N) = (erase (fst X), snd X, None)).
  { cbn [N erase]. rewrite rem_node. cbv zeta. rewrite Z.ltb_irrefl.
    change (rem_here (Node (erase l) x v b (erase r)) (erase l) b (erase r) (fun _ => rem GoMax (erase l)) (fun _ => rem GoMin (erase r)))
      with (here_res (erase N)).
    rewrite <- Hh. reflexivity. }
  destruct (rem_plug x ctx N (fst X) (snd X) None Hpath HN) as (d' & kv' & E). rewrite E. cbn [fst].
  rewrite !punwind_rem_fst, punwind_rem_d_app. reflexivity.
Qed.

(* ---------- find returns the node together with its search path ---------- *)

Lemma hfind_zip x h : forall sub ctx fuel,
  wf_at h (plug ctx sub) None -> (length (ids sub) <= fuel)%nat -> path_for x ctx ->
  match hfind_loop fuel h (pptr sub) x with
  | Some (Some n) => exists ctx' l v b r, plug ctx' (PNode n l x v b r) = plug ctx sub /\ path_for x ctx'
  | Some None => True
  | None => False
  end.
Proof.
  induction sub as [|n l IHl k v b r IHr]; intros ctx fuel W Hf Hp.
  - destruct fuel; exact I.
  - pose proof (proj1 (wf_plug h ctx _) W) as (WN & _). cbn [wf_at] in WN. destruct WN as (Hn & _ & _).
    cbn [ids length] in Hf. rewrite app_length in Hf. destruct fuel as [|fuel]; [lia|].
    cbn [pptr hfind_loop]. rewrite Hn. cbn [hk hl hr].
    destruct (Z.ltb_spec x k).
    + apply (IHl (FL n k v b r :: ctx) fuel W); [lia|constructor; auto].
    + destruct (Z.ltb_spec k x).
      * apply (IHr (FR n l k v b :: ctx) fuel W); [lia|constructor; auto].
      * assert (k = x) by lia. subst k. exists ctx, l, v, b, r. auto.
Qed.

(* ---------- every history ---------- *)

Lemma havl_history : forall ops s pt,
  heap_rep s pt -> avl_inv (erase pt) ->
  exists s' pt', hrun havl_step s ops = Some (s', snd (run avl_step (erase pt) ops)) /\
    heap_rep s' pt' /\ erase pt' = fst (run avl_step (erase pt) ops).
Proof.
  induction ops as [|o ops IH]; intros s pt R Hinv.
  - exists s, pt. cbn. auto.
  - cbn [hrun run]. destruct o as [k v|k|k]; cbn [havl_step avl_step].
    + destruct (havl_insert_ok s pt k v R (proj2 Hinv)) as (s1 & pt1 & E1 & R1 & Er1).
      rewrite E1. pose proof (avl_insert_inv k v (erase pt) Hinv) as Hinv1.
      destruct (avl_insert k v (erase pt)) as [t1 ok] eqn:Ei. cbn [fst snd] in *.
      rewrite <- Er1 in Hinv1. destruct (IH s1 pt1 R1 Hinv1) as (s2 & pt2 & E2 & R2 & Er2).
      rewrite E2. rewrite Er1 in *. destruct (run avl_step t1 ops) as [t2 xs]. cbn [fst snd] in *.
      exists s2, pt2. auto.
    + destruct (havl_find_ok s pt k R) as (p & Ep & Hp). rewrite Ep.
      destruct (IH s pt R Hinv) as (s2 & pt2 & E2 & R2 & Er2).
      destruct p as [n|].
      * destruct Hp as (Hf & _). rewrite E2, Hf. destruct (run avl_step (erase pt) ops) as [t2 xs]. cbn [fst snd] in *.
        exists s2, pt2. auto.
      * rewrite E2, Hp. destruct (run avl_step (erase pt) ops) as [t2 xs]. cbn [fst snd] in *.
        exists s2, pt2. auto.
    + destruct (havl_find_ok s pt k R) as (p & Ep & Hp). rewrite Ep.
      unfold avl_remove. destruct p as [n|].
      * destruct Hp as (Hf & _). rewrite Hf.
        (* the node found, with its search path *)
        pose proof R as (W & ND & Hroot & Hbound).
        pose proof (hfind_zip k (hheap s) pt [] (hnext s) W (nodup_bound_length _ _ ND Hbound) (Forall_nil _)) as Z.
        unfold havl_find in Ep. rewrite Hroot in Ep. rewrite Ep in Z.
        destruct Z as (ctx & l & v & b & r & Epl & Hpath). cbn [plug] in Epl.
        rewrite <- Epl in R, Hinv.
        destruct (havl_remove_ok s ctx n l k v b r R (proj2 Hinv) Hpath) as (s1 & pt1 & E1 & R1 & Er1).
        rewrite E1. rewrite Epl in *.
        pose proof (avl_remove_inv k (erase pt) Hinv) as Hinv1. unfold avl_remove in Hinv1. rewrite Hf in Hinv1.
        cbn [fst snd] in *. rewrite <- Er1 in Hinv1.
        destruct (IH s1 pt1 R1 Hinv1) as (s2 & pt2 & E2 & R2 & Er2).
        rewrite E2. rewrite Er1 in *.
        destruct (run avl_step (fst (fst (rem (ByKey k) (erase pt)))) ops) as [t2 xs]. cbn [fst snd] in *.
        exists s2, pt2. auto.
      * rewrite Hp. destruct (IH s pt R Hinv) as (s2 & pt2 & E2 & R2 & Er2). rewrite E2.
        destruct (run avl_step (erase pt) ops) as [t2 xs]. cbn [fst snd] in *. exists s2, pt2. auto.
Qed.

Lemma havl_refines ops :
  exists s pt, hrun havl_step havl_init ops = Some (s, snd (run avl_step Leaf ops)) /\
    heap_rep s pt /\ erase pt = fst (run avl_step Leaf ops).
Proof.
  apply (havl_history ops havl_init PLeaf havl_init_rep). split; [exact I|exact I].
Qed.
