(* C09 — second tie: the decision content of avl_tree.c, hash_table.c and trie.c as re-derived
   from the C text on this run (gen/Params_C09.v, by lib/props/c09_slice.py) equals the named
   decision functions of Model.v, and the models (functional and heap level) factor through
   those functions.

   The proofs about generated terms are deliberately independent of their SHAPE (order of the
   tests, guard clauses, ternaries, helper functions, < versus >=): everything is unfolded to
   if-then-else over integer comparisons, every condition is split and each case is closed by
   reflexivity or lia (under a time limit), so a behaviour-preserving rewrite of the C text keeps
   these obligations while a wrong constant / swapped branch / dropped cast breaks them. *)
From MV Require Import Lib.Leaf C09.Model C09.ModelHeap gen.Params_C09.
From Coq Require Import ZifyBool.
Local Open Scope Z_scope.

(* decide the conditions one by one, innermost first: a condition that the case at hand determines is
   replaced by its value (lia), only an undetermined one splits the goal; then the leaves are compared *)
Ltac decide_ifs :=
  repeat (cbv beta iota zeta;
    match goal with
    | |- context [if ?c then _ else _] =>
        lazymatch c with
        | context [if _ then _ else _] => fail
        | _ => first [ replace c with true by (symmetry; timeout 10 lia)
                     | replace c with false by (symmetry; timeout 10 lia)
                     | destruct c eqn:? ]
        end
    end).

Ltac Zify.zify_post_hook ::= Z.to_euclidean_division_equations.

Ltac pow2_consts :=
  repeat match goal with
  | |- context [2 ^ ?n] => let v := eval vm_compute in (2 ^ n) in change (2 ^ n) with v
  end.

Ltac arith_unfold := unfold wrapu, crem, cdiv, b2z, z2b in *; pow2_consts.

(* C's / and % on non-negative operands, x & 0xff, reductions modulo 2^k of values already in range *)
Ltac arith_close :=
  repeat (rewrite Z.quot_div_nonneg by (timeout 10 lia));
  repeat (rewrite Z.rem_mod_nonneg by (timeout 10 lia));
  repeat match goal with
  | |- context [Z.land ?a 255] =>
      replace (Z.land a 255) with (a mod 256)
        by (change 255 with (Z.ones 8); rewrite Z.land_ones by (timeout 10 lia); reflexivity)
  end;
  repeat match goal with
  | |- context [?a / ?b] =>
      lazymatch goal with
      | _ : b * (a / b) <= a |- _ => fail
      | _ => assert (b * (a / b) <= a) by (apply Z.mul_div_le; timeout 10 lia);
             assert (0 <= a / b) by (apply Z.div_pos; timeout 10 lia)
      end
  end;
  repeat (rewrite Z.mod_small by (first [timeout 10 lia | timeout 20 nia]));
  first [ reflexivity | timeout 30 lia | timeout 40 nia ].

Ltac close_case :=
  cbv beta iota zeta;
  first [ reflexivity
        | exfalso; timeout 20 lia
        | repeat (f_equal; try reflexivity); arith_close ].

Ltac decide_cases := decide_ifs; close_case.

(* ---------------------------------------------------------------------- *)
(* AVL: side codes.  The C code carries "which subtree changed" in an int; the two codes are read
   off the generated step function (continue at the parent from its left / right), so that
   renumbering the constants is harmless. *)
Definition last8 {A B C D E F G H} (t : A * B * C * D * E * F * G * H) : H := snd t.

Definition up8 {A B C D E F G H} (t : A * B * C * D * E * F * G * H) : G := snd (fst t).

(* insert: from balance 0 the subtree grows whichever side the code 0 means: the loop continues *)
Definition ins_code_left : Z := Eval vm_compute in last8 (gen_avl_ins_step 0 0 0 0 0 0 true true).
Definition ins_code_right : Z := Eval vm_compute in last8 (gen_avl_ins_step 0 0 0 0 0 0 true false).
Definition ins_side_code (side_left : bool) : Z := if side_left then ins_code_left else ins_code_right.

(* remove: the loop continues when the new balance is 0: from 1 or from -1, whichever side the code 0 means *)
Definition rem_code_of (il : bool) : Z :=
  if up8 (gen_avl_rem_step 1 0 0 0 0 0 true il) =? 1
  then last8 (gen_avl_rem_step 1 0 0 0 0 0 true il) else last8 (gen_avl_rem_step (-1) 0 0 0 0 0 true il).
Definition rem_code_left : Z := Eval vm_compute in rem_code_of true.
Definition rem_code_right : Z := Eval vm_compute in rem_code_of false.
Definition rem_side_code (side_left : bool) : Z := if side_left then rem_code_left else rem_code_right.

Definition enc_step (code : bool -> Z) (r : bal5 * Z * bool * bool) : Z * Z * Z * Z * Z * Z * Z * Z :=
  let '((x, l, r_, lr, rl), c, up, sl) := r in
  (x, l, r_, lr, rl, c, b2z up, if up then code sl else 0).

Lemma gen_avl_ins_step_eq b sl lb rb lrb rlb hp il :
  gen_avl_ins_step b (ins_side_code sl) lb rb lrb rlb hp il =
  enc_step ins_side_code (ins_step_dec b sl lb rb lrb rlb hp il).
Proof.
  unfold gen_avl_ins_step, enc_step, ins_step_dec, rebalance_dec, rebalance_case, retrace_ins_bal, retrace_ins_act,
    rot_left_bal, rot_right_bal, rot_left_right_bal, rot_right_left_bal, ins_side_code, ins_code_left, ins_code_right, b2z.
  destruct sl; decide_cases.
Qed.

Lemma gen_avl_rem_step_eq b sl lb rb lrb rlb hp il :
  gen_avl_rem_step b (rem_side_code sl) lb rb lrb rlb hp il =
  enc_step rem_side_code (rem_step_dec b sl lb rb lrb rlb hp il).
Proof.
  unfold gen_avl_rem_step, enc_step, rem_step_dec, rebalance_dec, rebalance_case, retrace_rem_bal, retrace_rem_act,
    rot_left_bal, rot_right_bal, rot_left_right_bal, rot_right_left_bal, rem_side_code, rem_code_left, rem_code_right, b2z.
  destruct sl; decide_cases.
Qed.

(* the two codes differ, and the two loops use the same ones as the code that starts them *)
Lemma side_codes_distinct : ins_side_code true <> ins_side_code false /\ rem_side_code true <> rem_side_code false.
Proof. split; vm_compute; discriminate. Qed.

(* find: cmp result -> found / left / right (any other answer of the generated term can only sit in an
   unreachable branch) *)
Lemma gen_avl_find_step_eq c : gen_avl_find_step c = cmp_dispatch c.
Proof. unfold gen_avl_find_step, cmp_dispatch. decide_cases. Qed.

(* insert, one step of the descent: duplicate / descend / link the new node on that side *)
Definition enc_descend (a : Z) : Z * Z :=
  (a, if a =? 3 then ins_side_code true else if a =? 4 then ins_side_code false else 0).

Lemma gen_avl_ins_descend_eq c hl hr : gen_avl_ins_descend c hl hr = enc_descend (ins_descend_dec c hl hr).
Proof.
  unfold gen_avl_ins_descend, enc_descend, ins_descend_dec, cmp_dispatch, ins_side_code, ins_code_left, ins_code_right. decide_cases.
Qed.

(* remove, from the head of the data-swap loop to the retracing loop; the leaf that leaves the tree hands its
   key / value to the callbacks that were passed (NULL callback: nothing is called) and is unlinked all the same *)
Definition enc_rem_enter (a : Z) (il : bool) (cb : bool * bool) : Z * Z * Z * Z * Z * Z :=
  if a =? 2 then (2, rem_side_code il, b2z il, b2z (negb il), b2z (fst cb), b2z (snd cb))
  else if a =? 1 then (1, 0, 0, 0, b2z (fst cb), b2z (snd cb)) else (0, 0, 0, 0, 0, 0).

Lemma gen_avl_rem_enter_eq hl hr hp il hk hv fk fv :
  gen_avl_rem_enter hl hr hp il hk hv fk fv = enc_rem_enter (rem_enter_dec hl hr hp) il (avl_erase_dec hk hv fk fv).
Proof.
  unfold gen_avl_rem_enter, enc_rem_enter, rem_enter_dec, avl_erase_dec, rem_side_code, rem_code_left, rem_code_right, b2z.
  destruct hl, hr, hp, il, hk, hv, fk, fv; cbn [orb andb negb fst snd]; decide_cases.
Qed.

(* ---------------------------------------------------------------------- *)
(* hash table *)
Lemma gen_ht_find_idx_eq hv ts : 0 <= hv < 2 ^ 64 -> 0 < ts < 2 ^ 64 -> gen_ht_find_idx hv ts = ht_index hv ts.
Proof. intros H1 H2. unfold gen_ht_find_idx, ht_index. revert H1 H2. arith_unfold. intros. decide_ifs. arith_close. Qed.

Lemma gen_ht_put_idx_eq hv ts : 0 <= hv < 2 ^ 64 -> 0 < ts < 2 ^ 64 -> gen_ht_put_idx hv ts = ht_index hv ts.
Proof. intros H1 H2. unfold gen_ht_put_idx, ht_index. revert H1 H2. arith_unfold. intros. decide_ifs. arith_close. Qed.

Lemma gen_ht_find_step_eq hn c : gen_ht_find_step hn c = ht_find_step_dec hn c.
Proof. unfold gen_ht_find_step, ht_find_step_dec. destruct hn; decide_cases. Qed.

(* put: duplicate test before anything is linked; the new node is linked at the head of the chain
   (second component: head->next = new, new->prev = head, new->next = old first, key and value stored) *)
Lemma gen_ht_put_step_eq hn c :
  gen_ht_put_step hn c = (ht_put_step_dec hn c, if ht_put_step_dec hn c =? 1 then 1 else 0).
Proof. unfold gen_ht_put_step, ht_put_step_dec. destruct hn; decide_cases. Qed.

Definition enc_ht_init (r : bool * Z * bool) : Z * Z * Z :=
  let '(ok, size, pool) := r in if ok then (1, size, b2z pool) else (0, 0, 0).

Lemma gen_ht_init_eq ts cap has_cmp : 0 <= ts < 2 ^ 64 -> 0 <= cap < 2 ^ 64 ->
  gen_ht_init ts cap has_cmp = enc_ht_init (ht_init_dec ts cap has_cmp).
Proof.
  intros H1 H2. unfold gen_ht_init, enc_ht_init, ht_init_dec, ht_table_size, ds_cap_valid.
  revert H1 H2. arith_unfold. intros. destruct has_cmp; cbn [negb]; decide_cases.
Qed.

(* muggle_hash_table_remove: callbacks called iff passed and the data is there; unlinked in every case *)
Definition enc3 (r : bool * bool * bool) : Z * Z * Z := let '(a, b, c) := r in (b2z a, b2z b, b2z c).

Lemma gen_ht_remove_eq hk hv fk fv : gen_ht_remove hk hv fk fv = enc3 (ht_remove_dec hk hv fk fv).
Proof.
  unfold gen_ht_remove, enc3, ht_remove_dec, b2z. destruct hk, hv, fk, fv; cbn [andb]; decide_cases.
Qed.

(* ---------------------------------------------------------------------- *)
(* trie: the code reads the key through a plain (signed) char *)
Lemma gen_trie_find_entry_eq ub : 0 <= ub <= 255 -> gen_trie_find_entry (schar ub) = trie_find_entry_dec ub.
Proof. intros H. unfold gen_trie_find_entry, trie_find_entry_dec, schar. revert H. arith_unfold. intros. decide_cases. Qed.

Lemma gen_trie_find_step_eq ub hc : 0 <= ub <= 255 -> gen_trie_find_step (schar ub) hc = trie_find_step_dec ub hc.
Proof.
  intros H. unfold gen_trie_find_step, trie_find_step_dec, byte_index, schar. revert H. arith_unfold. intros.
  destruct hc; decide_cases.
Qed.

Definition enc_trie_insert (r : Z * Z * bool * Z) : Z * Z * Z * Z :=
  let '(a, ig, created, iset) := r in (a, ig, b2z created, iset).

Lemma gen_trie_insert_entry_eq ub hc : 0 <= ub <= 255 ->
  gen_trie_insert_entry (schar ub) hc = enc_trie_insert (trie_insert_entry_dec ub hc).
Proof.
  intros H. unfold gen_trie_insert_entry, enc_trie_insert, trie_insert_entry_dec, schar. revert H. arith_unfold. intros.
  destruct hc; cbn [negb]; decide_cases.
Qed.

Lemma gen_trie_insert_step_eq ub hc : 0 <= ub <= 255 ->
  gen_trie_insert_step (schar ub) hc = enc_trie_insert (trie_insert_step_dec ub hc).
Proof.
  intros H. unfold gen_trie_insert_step, enc_trie_insert, trie_insert_step_dec, byte_index, schar. revert H. arith_unfold. intros.
  destruct hc; decide_cases.
Qed.

(* muggle_trie_remove: the data pointer of the node found is cleared whether or not a callback is passed *)
Lemma gen_trie_remove_eq ub hn f : 0 <= ub <= 255 -> gen_trie_remove (schar ub) hn f = enc3 (trie_remove_dec hn f).
Proof.
  intros H. unfold gen_trie_remove, enc3, trie_remove_dec, schar, b2z. revert H. arith_unfold. intros.
  destruct hn, f; decide_cases.
Qed.

(* only the sign of the comparator's result is used *)
Lemma cmp_dispatch_sign c : cmp_dispatch c = cmp_dispatch (Z.sgn c).
Proof. unfold cmp_dispatch. destruct (c =? 0) eqn:E1, (Z.sgn c =? 0) eqn:E2, (c <? 0) eqn:E3, (Z.sgn c <? 0) eqn:E4; try reflexivity; lia. Qed.

Lemma gen_trie_children_size_eq :
  gen_trie_children_size = trie_children_size /\
  forall i, index_in_range i = (0 <=? i) && (i <? gen_trie_children_size).
Proof. split; [ vm_compute; reflexivity | intros i; unfold index_in_range; reflexivity ]. Qed.

(* ====================================================================== *)
(* The models factor through the decision functions.  Functional model (Model.v). *)

Lemma rotate_left_factors t1 xk xv xb t23 zk zv zb t4 :
  rotate_left (Node t1 xk xv xb (Node t23 zk zv zb t4)) =
  let '(x, z, d) := rot_left_bal zb in (Node (Node t1 xk xv x t23) zk zv z t4, d).
Proof. unfold rotate_left, rot_left_bal. destruct (zb =? 0); reflexivity. Qed.

Lemma rotate_right_factors t4 zk zv zb t23 xk xv xb t1 :
  rotate_right (Node (Node t4 zk zv zb t23) xk xv xb t1) =
  let '(x, z, d) := rot_right_bal zb in (Node t4 zk zv z (Node t23 xk xv x t1), d).
Proof. unfold rotate_right, rot_right_bal. destruct (zb =? 0); reflexivity. Qed.

Lemma rotate_right_left_factors t1 xk xv xb t2 yk yv yb t3 zk zv zb t4 :
  rotate_right_left (Node t1 xk xv xb (Node (Node t2 yk yv yb t3) zk zv zb t4)) =
  let '(x, z) := rot_right_left_bal yb in Node (Node t1 xk xv x t2) yk yv 0 (Node t3 zk zv z t4).
Proof. unfold rotate_right_left, rot_right_left_bal. destruct (0 <? yb); [|destruct (yb =? 0)]; reflexivity. Qed.

Lemma rotate_left_right_factors t4 zk zv zb t3 yk yv yb t2 xk xv xb t1 :
  rotate_left_right (Node (Node t4 zk zv zb (Node t3 yk yv yb t2)) xk xv xb t1) =
  let '(x, z) := rot_left_right_bal yb in Node (Node t4 zk zv z t3) yk yv 0 (Node t2 xk xv x t1).
Proof. unfold rotate_left_right, rot_left_right_bal. destruct (0 <? yb); [|destruct (yb =? 0)]; reflexivity. Qed.

Definition root_bal (t : tree) : Z := match t with Node _ _ _ b _ => b | Leaf => 0 end.

(* rebalance dispatches on rebalance_case of the node's and its children's balance fields *)
Lemma rebalance_factors l k v b r :
  let t := Node l k v b r in
  let c := rebalance_case b (root_bal l) (root_bal r) in
  rebalance t = if c =? 1 then rotate_right t else if c =? 2 then (rotate_left_right t, true)
                else if c =? 3 then rotate_left t else if c =? 4 then (rotate_right_left t, true) else (t, false).
Proof.
  cbv zeta. unfold rebalance, rebalance_case.
  destruct (b <? -1).
  - destruct l as [|ll lk lv lb lr]; cbn [root_bal]; [reflexivity|]. destruct (lb <=? 0); reflexivity.
  - destruct (1 <? b); [|reflexivity].
    destruct r as [|rl rk rv rb rr]; cbn [root_bal]; [reflexivity|]. destruct (0 <=? rb); reflexivity.
Qed.

(* the subtree rebuilt from a rotation case and the five balance fields *)
Section Five.
  Variables (ll lrl lrr rll rlr rr : tree) (k v lk lv rk rv lrk lrv rlk rlv : Z).

  Definition five (bs : bal5) : tree :=
    let '(x, l, r, lr, rl) := bs in
    Node (Node ll lk lv l (Node lrl lrk lrv lr lrr)) k v x (Node (Node rll rlk rlv rl rlr) rk rv r rr).

  Definition build5 (c : Z) (bs : bal5) : tree :=
    let '(x, l, r, lr, rl) := bs in
    let LR := Node lrl lrk lrv lr lrr in
    let RL := Node rll rlk rlv rl rlr in
    let L := Node ll lk lv l LR in
    let R := Node RL rk rv r rr in
    if c =? 1 then Node ll lk lv l (Node LR k v x R)
    else if c =? 2 then Node (Node ll lk lv l lrl) lrk lrv lr (Node lrr k v x R)
    else if c =? 3 then Node (Node L k v x RL) rk rv r rr
    else if c =? 4 then Node (Node L k v x rll) rlk rlv rl (Node rlr rk rv r rr)
    else five bs.

  Lemma rebalance_five b lb rb lrb rlb :
    rebalance (five (b, lb, rb, lrb, rlb)) =
    let '(c, bs, d) := rebalance_dec b lb rb lrb rlb in (build5 c bs, d).
  Proof.
    unfold five, build5, rebalance, rebalance_dec, rebalance_case, rotate_left, rotate_right, rotate_left_right,
      rotate_right_left, rot_left_bal, rot_right_bal, rot_left_right_bal, rot_right_left_bal.
    destruct (b <? -1).
    - destruct (lb <=? 0); cbn [Z.eqb Pos.eqb].
      + destruct (lb =? 0); reflexivity.
      + destruct (0 <? lrb); [|destruct (lrb =? 0)]; reflexivity.
    - destruct (1 <? b); [|reflexivity].
      destruct (0 <=? rb); cbn [Z.eqb Pos.eqb].
      + destruct (rb =? 0); reflexivity.
      + destruct (0 <? rlb); [|destruct (rlb =? 0)]; reflexivity.
  Qed.

  (* insert retracing at a node with all five nodes present: the tree and "grew" of Model.grow are those
     the decision function dictates *)
  Lemma grow_five sl b lb rb lrb rlb :
    grow sl (five (b, lb, rb, lrb, rlb)) =
    let '(bs, c, _, _) := ins_step_dec b sl lb rb lrb rlb true true in
    (build5 c bs, retrace_ins_act (retrace_ins_bal b sl) =? 1).
  Proof.
    pose proof (rebalance_five (retrace_ins_bal b sl) lb rb lrb rlb) as HR.
    unfold ins_step_dec, retrace_ins_act. unfold grow, five at 1. fold (retrace_ins_bal b sl).
    set (b' := retrace_ins_bal b sl) in *.
    destruct (b' =? 0); [reflexivity|].
    destruct ((b' =? 1) || (b' =? -1)); [reflexivity|].
    cbn [Z.eqb Pos.eqb]. unfold five in HR. rewrite HR.
    destruct (rebalance_dec b' lb rb lrb rlb) as [[c bs] d]. reflexivity.
  Qed.

  Lemma shrink_five sl b lb rb lrb rlb :
    shrink sl (five (b, lb, rb, lrb, rlb)) =
    let '(bs, c, up, _) := rem_step_dec b sl lb rb lrb rlb true true in (build5 c bs, up).
  Proof.
    pose proof (rebalance_five (retrace_rem_bal b sl) lb rb lrb rlb) as HR.
    unfold rem_step_dec, retrace_rem_act. unfold shrink, five at 1. fold (retrace_rem_bal b sl).
    set (b' := retrace_rem_bal b sl) in *.
    destruct ((b' =? 1) || (b' =? -1)); [reflexivity|].
    destruct (b' =? 0); [reflexivity|].
    cbn [Z.eqb Pos.eqb]. unfold five in HR. rewrite HR.
    destruct (rebalance_dec b' lb rb lrb rlb) as [[c bs] d]. rewrite !andb_true_r. reflexivity.
  Qed.
End Five.

(* for every node (children present or not): the new balance and what happens next *)
Lemma grow_factors sl l k v b r :
  grow sl (Node l k v b r) =
  let b' := retrace_ins_bal b sl in
  let a := retrace_ins_act b' in
  if a =? 0 then (Node l k v b' r, false) else if a =? 1 then (Node l k v b' r, true)
  else (fst (rebalance (Node l k v b' r)), false).
Proof.
  cbv zeta. unfold grow, retrace_ins_act. fold (retrace_ins_bal b sl). set (b' := retrace_ins_bal b sl).
  destruct (b' =? 0); [reflexivity|]. destruct ((b' =? 1) || (b' =? -1)); reflexivity.
Qed.

Lemma shrink_factors sl l k v b r :
  shrink sl (Node l k v b r) =
  let b' := retrace_rem_bal b sl in
  let a := retrace_rem_act b' in
  if a =? 0 then (Node l k v b' r, false) else if a =? 1 then (Node l k v b' r, true)
  else rebalance (Node l k v b' r).
Proof.
  cbv zeta. unfold shrink, retrace_rem_act. fold (retrace_rem_bal b sl). set (b' := retrace_rem_bal b sl).
  destruct ((b' =? 1) || (b' =? -1)); [reflexivity|]. destruct (b' =? 0); reflexivity.
Qed.

(* find / insert: the dispatch on the comparator's result *)
Lemma avl_find_factors x l k v b r :
  avl_find x (Node l k v b r) =
  let d := cmp_dispatch (cmpz x k) in
  if d =? 0 then Some v else if d =? 1 then avl_find x l else avl_find x r.
Proof.
  cbv zeta. cbn [avl_find]. unfold cmp_dispatch, cmpz.
  destruct (x <? k) eqn:E1; [reflexivity|]. destruct (k <? x) eqn:E2; reflexivity.
Qed.

Lemma ins_factors x xv l k v b r :
  ins x xv (Node l k v b r) =
  let d := cmp_dispatch (cmpz x k) in
  if d =? 0 then (Node l k v b r, false, false)
  else if d =? 1 then
    let '(l', g, i) := ins x xv l in
    if g then let (t', g') := grow true (Node l' k v b r) in (t', g', i) else (Node l' k v b r, false, i)
  else
    let '(r', g, i) := ins x xv r in
    if g then let (t', g') := grow false (Node l k v b r') in (t', g', i) else (Node l k v b r', false, i).
Proof.
  cbv zeta. cbn [ins]. unfold cmp_dispatch, cmpz.
  destruct (x <? k) eqn:E1; [reflexivity|]. destruct (k <? x) eqn:E2; reflexivity.
Qed.

(* a new leaf hangs where the descent ends: case 3 / 4 of ins_descend_dec *)
Lemma ins_leaf_factors x xv k v b :
  (ins_descend_dec (cmpz x k) false false = 3 -> fst (fst (ins x xv (Node Leaf k v b Leaf))) = fst (grow true (Node (Node Leaf x xv 0 Leaf) k v b Leaf))) /\
  (ins_descend_dec (cmpz x k) false false = 4 -> fst (fst (ins x xv (Node Leaf k v b Leaf))) = fst (grow false (Node Leaf k v b (Node Leaf x xv 0 Leaf)))) /\
  (ins_descend_dec (cmpz x k) false false = 0 -> ins x xv (Node Leaf k v b Leaf) = (Node Leaf k v b Leaf, false, false)).
Proof.
  unfold ins_descend_dec, cmp_dispatch, cmpz. cbn [ins].
  destruct (x <? k) eqn:E1; [|destruct (k <? x) eqn:E2]; cbn [Z.eqb Z.ltb Z.compare Pos.eqb];
    repeat split; intros H; try discriminate H;
    match goal with |- context [grow ?s ?t] => destruct (grow s t) end; reflexivity.
Qed.

(* ====================================================================== *)
(* Heap-level programs (ModelHeap.v) factor through the same decision functions. *)

(* the pointer assignments of the rotations do not touch any balance field *)
Lemma hb_set_l h x p w : hb (set_l h x p w) = hb (h w).
Proof. unfold set_l, hmod. destruct (Nat.eqb w x); reflexivity. Qed.
Lemma hb_set_r h x p w : hb (set_r h x p w) = hb (h w).
Proof. unfold set_r, hmod. destruct (Nat.eqb w x); reflexivity. Qed.
Lemma hb_set_p h x p w : hb (set_p h x p w) = hb (h w).
Proof. unfold set_p, hmod. destruct (Nat.eqb w x); reflexivity. Qed.
Lemma hb_set_p_opt h c p w : hb (set_p_opt h c p w) = hb (h w).
Proof. destruct c; [apply hb_set_p | reflexivity]. Qed.
Lemma hb_relink h par x z w : hb (relink h par x z w) = hb (h w).
Proof. unfold relink. destruct par; [|reflexivity]. destruct (ptr_is _ _); [apply hb_set_l | apply hb_set_r]. Qed.

Ltac hb_links := repeat first [ rewrite hb_set_l | rewrite hb_set_r | rewrite hb_set_p | rewrite hb_set_p_opt | rewrite hb_relink ].

(* each rotation = its pointer assignments (some heap h1 with the balance fields of h), then the balance
   fields of x, z (and y) as the decision function dictates *)
Lemma hrotate_left_factors h root x z : hr (h x) = Some z ->
  exists h1 root1, (forall w, hb (h1 w) = hb (h w)) /\
    hrotate_left h root x = let '(xb, zb, d) := rot_left_bal (hb (h z)) in Some (set_b (set_b h1 x xb) z zb, root1, d).
Proof.
  intros Hz. unfold hrotate_left. rewrite Hz. cbv zeta.
  match goal with |- context [hb (?H z) =? 0] => exists H end. eexists. split.
  - intros w. hb_links. reflexivity.
  - hb_links. unfold rot_left_bal. destruct (hb (h z) =? 0); reflexivity.
Qed.

Lemma hrotate_right_factors h root x z : hl (h x) = Some z ->
  exists h1 root1, (forall w, hb (h1 w) = hb (h w)) /\
    hrotate_right h root x = let '(xb, zb, d) := rot_right_bal (hb (h z)) in Some (set_b (set_b h1 x xb) z zb, root1, d).
Proof.
  intros Hz. unfold hrotate_right. rewrite Hz. cbv zeta.
  match goal with |- context [hb (?H z) =? 0] => exists H end. eexists. split.
  - intros w. hb_links. reflexivity.
  - hb_links. unfold rot_right_bal. destruct (hb (h z) =? 0); reflexivity.
Qed.

Lemma hrotate_right_left_factors h root x z y : hr (h x) = Some z -> hl (h z) = Some y ->
  exists h1 root1, (forall w, hb (h1 w) = hb (h w)) /\
    hrotate_right_left h root x =
    let '(xb, zb) := rot_right_left_bal (hb (h y)) in Some (set_b (set_b (set_b h1 x xb) z zb) y 0, root1).
Proof.
  intros Hz Hy. unfold hrotate_right_left. rewrite Hz, Hy. cbv zeta.
  match goal with |- context [0 <? hb (?H y)] => exists H end. eexists. split.
  - intros w. hb_links. reflexivity.
  - hb_links. unfold rot_right_left_bal. destruct (0 <? hb (h y)); [|destruct (hb (h y) =? 0)]; reflexivity.
Qed.

Lemma hrotate_left_right_factors h root x z y : hl (h x) = Some z -> hr (h z) = Some y ->
  exists h1 root1, (forall w, hb (h1 w) = hb (h w)) /\
    hrotate_left_right h root x =
    let '(xb, zb) := rot_left_right_bal (hb (h y)) in Some (set_b (set_b (set_b h1 x xb) z zb) y 0, root1).
Proof.
  intros Hz Hy. unfold hrotate_left_right. rewrite Hz, Hy. cbv zeta.
  match goal with |- context [0 <? hb (?H y)] => exists H end. eexists. split.
  - intros w. hb_links. reflexivity.
  - hb_links. unfold rot_left_right_bal. destruct (0 <? hb (h y)); [|destruct (hb (h y) =? 0)]; reflexivity.
Qed.

(* hrebalance dispatches on rebalance_case of the balance fields of the node and of its children *)
Lemma hrebalance_factors h root x l r : hl (h x) = Some l -> hr (h x) = Some r ->
  let c := rebalance_case (hb (h x)) (hb (h l)) (hb (h r)) in
  hrebalance h root x =
  if c =? 1 then hrotate_right h root x
  else if c =? 2 then match hrotate_left_right h root x with Some (h', r') => Some (h', r', true) | None => None end
  else if c =? 3 then hrotate_left h root x
  else if c =? 4 then match hrotate_right_left h root x with Some (h', r') => Some (h', r', true) | None => None end
  else Some (h, root, false).
Proof.
  intros Hl Hr. cbv zeta. unfold hrebalance, rebalance_case. rewrite Hl, Hr.
  destruct (hb (h x) <? -1); [destruct (hb (h l) <=? 0); reflexivity|].
  destruct (1 <? hb (h x)); [destruct (0 <=? hb (h r)); reflexivity|reflexivity].
Qed.

(* one iteration of the retracing loops *)
Lemma hretrace_ins_factors f h root node sl :
  hretrace_ins (S f) h root node sl =
  let b' := retrace_ins_bal (hb (h node)) sl in
  let h1 := set_b h node b' in
  let a := retrace_ins_act b' in
  if a =? 0 then Some (h1, root)
  else if a =? 1 then
    match hp (h1 node) with
    | Some p => hretrace_ins f h1 root p (ptr_is (hl (h1 p)) node)
    | None => Some (h1, root)
    end
  else match hrebalance h1 root node with Some (h', root', _) => Some (h', root') | None => None end.
Proof.
  cbv zeta. cbn [hretrace_ins]. unfold retrace_ins_act. fold (retrace_ins_bal (hb (h node)) sl).
  set (b' := retrace_ins_bal (hb (h node)) sl).
  destruct (b' =? 0); [reflexivity|]. destruct ((b' =? 1) || (b' =? -1)); reflexivity.
Qed.

Lemma hretrace_rem_factors f h root n sl :
  hretrace_rem (S f) h root (Some n) sl =
  let b' := retrace_rem_bal (hb (h n)) sl in
  let h1 := set_b h n b' in
  let a := retrace_rem_act b' in
  if a =? 0 then Some (h1, root)
  else if a =? 1 then
    match hp (h1 n) with
    | Some p => hretrace_rem f h1 root (Some p) (ptr_is (hl (h1 p)) n)
    | None => Some (h1, root)
    end
  else
    let parent := hp (h1 n) in
    let side := match parent with Some p => ptr_is (hl (h1 p)) n | None => sl end in
    match hrebalance h1 root n with
    | Some (h', root', true) => hretrace_rem f h' root' parent side
    | Some (h', root', false) => Some (h', root')
    | None => None
    end.
Proof.
  cbv zeta. cbn [hretrace_rem]. unfold retrace_rem_act. fold (retrace_rem_bal (hb (h n)) sl).
  set (b' := retrace_rem_bal (hb (h n)) sl).
  destruct ((b' =? 1) || (b' =? -1)); [reflexivity|]. destruct (b' =? 0); reflexivity.
Qed.

(* find / the descent of insert dispatch on the comparator like the functional model *)
Lemma hfind_loop_factors f h n x :
  hfind_loop (S f) h (Some n) x =
  let d := cmp_dispatch (cmpz x (hk (h n))) in
  if d =? 0 then Some (Some n) else if d =? 1 then hfind_loop f h (hl (h n)) x else hfind_loop f h (hr (h n)) x.
Proof.
  cbv zeta. cbn [hfind_loop]. unfold cmp_dispatch, cmpz.
  destruct (x <? hk (h n)); [reflexivity|]. destruct (hk (h n) <? x); reflexivity.
Qed.

Lemma hdescend_factors f h next n x :
  hdescend (S f) h next n x =
  let a := ins_descend_dec (cmpz x (hk (h n))) (is_some (hl (h n))) (is_some (hr (h n))) in
  if a =? 0 then Some None
  else if a =? 1 then match hl (h n) with Some c => hdescend f h next c x | None => None end
  else if a =? 2 then match hr (h n) with Some c => hdescend f h next c x | None => None end
  else if a =? 3 then Some (Some (set_l (hupd h next zero_node) n (Some next), n, true))
  else Some (Some (set_r (hupd h next zero_node) n (Some next), n, false)).
Proof.
  cbv zeta. cbn [hdescend]. unfold ins_descend_dec, cmp_dispatch, cmpz.
  destruct (x <? hk (h n)); [destruct (hl (h n)); reflexivity|].
  destruct (hk (h n) <? x); [destruct (hr (h n)); reflexivity|reflexivity].
Qed.

(* remove: the data-swap loop stops exactly at a leaf; the leaf is unlinked on the side it hangs, or the tree
   becomes empty *)
Lemma havl_remove_factors s node :
  let h := hheap s in
  let a := rem_enter_dec (is_some (hl (h node))) (is_some (hr (h node))) (is_some (hp (h node))) in
  (a <> 0 -> hswap_down (S (hnext s)) h node = Some (h, node)) /\
  (a = 1 -> hnext s <> O -> havl_remove s node = Some (mkst h None (hnext s))) /\
  (a = 2 -> hnext s <> O -> forall parent, hp (h node) = Some parent ->
     havl_remove s node =
     match hretrace_rem (S (hnext s)) (relink h (Some parent) node None) (hroot s) (Some parent)
             (ptr_is (hl (h parent)) node) with
     | Some (h', root') => Some (mkst h' root' (hnext s))
     | None => None
     end).
Proof.
  cbv zeta. unfold rem_enter_dec, havl_remove.
  destruct (hl (hheap s node)) eqn:El; cbn [is_some orb].
  { repeat split; intros H; try (exfalso; apply H; reflexivity); discriminate H. }
  destruct (hr (hheap s node)) eqn:Er; cbn [is_some orb].
  { repeat split; intros H; try (exfalso; apply H; reflexivity); discriminate H. }
  assert (HS : forall f, hswap_down (S f) (hheap s) node = Some (hheap s, node)).
  { intros f. cbn [hswap_down]. rewrite El, Er. reflexivity. }
  repeat split.
  - intros _. apply HS.
  - destruct (hp (hheap s node)) eqn:Ep; cbn [is_some]; intros H; [discriminate H|].
    intros Hn. destruct (hnext s) as [|f]; [contradiction|]. rewrite HS, Ep. reflexivity.
  - intros _ Hn parent Hp. destruct (hnext s) as [|f] eqn:En; [contradiction|]. rewrite HS, Hp. reflexivity.
Qed.

(* ====================================================================== *)
(* hash table and trie models factor through their decision functions *)

Lemma ht_idx_factors hash t k : ht_idx hash t k = Z.to_nat (ht_index (hash k) (ht_size t)).
Proof. reflexivity. Qed.
Lemma hht_idx_factors hash t k : hht_idx hash t k = Z.to_nat (ht_index (hash k) (th_size t)).
Proof. reflexivity. Qed.

Lemma ht_init_factors ts : ht_size (ht_init ts) = ht_table_size ts /\ th_size (hht_init ts) = ht_table_size ts.
Proof. unfold ht_init, hht_init, ht_table_size. destruct (ts <? 8); split; reflexivity. Qed.

(* the init rules agree with what the drivers pass (a comparator, a capacity below 2^31): init succeeds
   and stores the table size of the model *)
Lemma ht_init_dec_ok ts cap : 0 <= cap < 2147483648 ->
  ht_init_dec ts cap true = (true, ht_size (ht_init ts), 0 <? cap).
Proof.
  intros H. unfold ht_init_dec, ds_cap_valid. cbn [negb].
  replace (cap <? 2147483648) with true by (symmetry; lia). rewrite andb_false_r.
  destruct (ht_init_factors ts) as [-> _]. reflexivity.
Qed.

(* one step along a chain; the comparator of the drivers is cmpz *)
Lemma chain_find_factors k k' v r :
  chain_find k ((k', v) :: r) = if ht_find_step_dec true (cmpz k' k) =? 1 then Some v else chain_find k r.
Proof.
  cbn [chain_find]. unfold ht_find_step_dec, cmpz.
  destruct (k' =? k) eqn:E.
  - apply Z.eqb_eq in E. subst. rewrite Z.ltb_irrefl. reflexivity.
  - apply Z.eqb_neq in E. destruct (k' <? k) eqn:E1; [reflexivity|]. destruct (k <? k') eqn:E2; [reflexivity|]. lia.
Qed.

Lemma chain_find_nil_factors k : chain_find k [] = None /\ ht_find_step_dec false 0 = 0 /\ ht_put_step_dec false 0 = 1.
Proof. repeat split. Qed.

(* put rejects exactly when the scan finds an equal key (step 0), links at the head when the scan ends (step 1) *)
Lemma ht_put_factors hash t k v :
  ht_put hash t k v =
  match chain_find k (nth (ht_idx hash t k) (ht_buckets t) []) with
  | Some _ => (t, false)
  | None => ({| ht_size := ht_size t;
                ht_buckets := upd_nth (ht_idx hash t k) ((k, v) :: nth (ht_idx hash t k) (ht_buckets t) []) (ht_buckets t) |}, true)
  end /\
  (forall hn c, (ht_put_step_dec hn c =? 0) = (ht_find_step_dec hn c =? 1)) /\
  (forall hn c, (ht_put_step_dec hn c =? 1) = (ht_find_step_dec hn c =? 0)).
Proof.
  split; [reflexivity|]. split; intros hn c; unfold ht_put_step_dec, ht_find_step_dec;
    destruct hn; [destruct (c =? 0)| |destruct (c =? 0)|]; reflexivity.
Qed.

Lemma hchain_find_factors f nodes x k :
  hchain_find (S f) nodes (Some x) k =
  let a := ht_find_step_dec true (cmpz (ckey (nodes x)) k) in
  if a =? 1 then Some (Some x) else hchain_find f nodes (cnext (nodes x)) k.
Proof.
  cbv zeta. cbn [hchain_find]. unfold ht_find_step_dec, cmpz.
  destruct (ckey (nodes x) =? k) eqn:E.
  - apply Z.eqb_eq in E. rewrite E, Z.ltb_irrefl. reflexivity.
  - apply Z.eqb_neq in E. destruct (ckey (nodes x) <? k) eqn:E1; [reflexivity|].
    destruct (k <? ckey (nodes x)) eqn:E2; [reflexivity|]. lia.
Qed.

(* trie: one step of the walks; the child is looked up / stored at byte_index of the key byte, the walk ends
   at the end of the key (ub = 0 never occurs inside a model key: keys are lists of bytes 1..255) *)
Lemma walk_factors t ub rest : ub <> 0 ->
  walk t (ub :: rest) =
  let '(a, i) := trie_find_step_dec ub (is_some (cget (byte_index ub) (t_children t))) in
  if a =? 1 then match cget i (t_children t) with Some ch => walk ch rest | None => None end else None.
Proof.
  intros H. cbn [walk]. unfold trie_find_step_dec. apply Z.eqb_neq in H. rewrite H.
  destruct (cget (byte_index ub) (t_children t)) eqn:E; cbn [is_some Z.eqb Pos.eqb]; [rewrite E|]; reflexivity.
Qed.

Lemma walk_end_factors t : walk t [] = Some t /\ trie_find_step_dec 0 true = (0, 0) /\ trie_find_step_dec 0 false = (0, 0).
Proof. repeat split. Qed.

Lemma ins_walk_factors t ub rest v : ub <> 0 ->
  ins_walk t (ub :: rest) v =
  let '(a, ig, created, iset) := trie_insert_step_dec ub (is_some (cget (byte_index ub) (t_children t))) in
  let ch := match cget ig (t_children t) with Some ch => ch | None => trie_empty end in
  TNode (t_data t) (cset (if created then iset else ig) (ins_walk ch rest v) (t_children t)).
Proof.
  intros H. cbn [ins_walk]. unfold trie_insert_step_dec. apply Z.eqb_neq in H. rewrite H.
  destruct (cget (byte_index ub) (t_children t)) eqn:E; cbn [is_some]; rewrite E; reflexivity.
Qed.

Lemma trie_entry_factors root :
  trie_find_node root [] = cget (snd (trie_find_entry_dec 0)) (t_children root) /\
  (forall ub rest, ub <> 0 -> trie_find_entry_dec ub = (0, 0) /\ trie_find_node root (ub :: rest) = walk root (ub :: rest)) /\
  (forall v, trie_insert root [] v =
     let ch := match cget 0 (t_children root) with Some ch => ch | None => trie_empty end in
     TNode (t_data root) (cset 0 (TNode (Some v) (t_children ch)) (t_children root))).
Proof.
  repeat split. intros. unfold trie_find_entry_dec. apply Z.eqb_neq in H. rewrite H. reflexivity.
Qed.

(* what the code sees of a model byte, and back *)
Lemma schar_range ub : 0 <= ub <= 255 -> -128 <= schar ub <= 127 /\ (schar ub = 0 <-> ub = 0).
Proof. intros H. unfold schar. destruct (128 <=? ub) eqn:E; lia. Qed.

(* ====================================================================== *)
(* Non-vacuity: the hypotheses of the obligations are satisfiable and the decision functions take all
   their interesting values. *)
Example ranges_satisfiable :
  (exists hv ts, 0 <= hv < 2 ^ 64 /\ 0 < ts < 2 ^ 64 /\ ht_index hv ts = 3) /\
  (exists ts cap, 0 <= ts < 2 ^ 64 /\ 0 <= cap < 2 ^ 64 /\ ht_init_dec ts cap true = (true, 10007, true)) /\
  (exists ub, 0 <= ub <= 255 /\ schar ub = -1 /\ byte_index ub = 255).
Proof.
  split; [exists 10010, 10007; repeat split; try lia; vm_compute; reflexivity|].
  split; [exists 5, 4; repeat split; lia|].
  exists 255. repeat split; lia.
Qed.

Example ins_step_cases :
  ins_step_dec 0 true 0 0 0 0 true false = ((-1, 0, 0, 0, 0), 0, true, false) /\        (* grew: continue at the parent *)
  ins_step_dec 1 true 0 0 0 0 true true = ((0, 0, 0, 0, 0), 0, false, false) /\          (* absorbed: stop *)
  ins_step_dec (-1) true (-1) 0 0 0 true true = ((0, 0, 0, 0, 0), 1, false, false) /\    (* left-left: rotate right *)
  ins_step_dec (-1) true 1 0 (-1) 0 true true = ((1, 0, 0, 0, 0), 2, false, false) /\    (* left-right *)
  ins_step_dec 1 false 0 1 0 0 true true = ((0, 0, 0, 0, 0), 3, false, false) /\         (* right-right: rotate left *)
  ins_step_dec 1 false 0 (-1) 0 1 true true = ((-1, 0, 0, 0, 0), 4, false, false).       (* right-left *)
Proof. repeat split. Qed.

Example rem_step_cases :
  rem_step_dec 0 true 0 0 0 0 true true = ((1, 0, 0, 0, 0), 0, false, false) /\          (* height unchanged: stop *)
  rem_step_dec (-1) true 0 0 0 0 true false = ((0, 0, 0, 0, 0), 0, true, false) /\       (* shrank: continue *)
  rem_step_dec 1 true 0 0 0 0 true true = ((1, 0, -1, 0, 0), 3, false, false) /\         (* rotate left, depth kept: stop *)
  rem_step_dec 1 true 0 1 0 0 true true = ((0, 0, 0, 0, 0), 3, true, true) /\            (* rotate left, depth decreased: continue *)
  rem_step_dec (-1) false 1 0 1 0 false false = ((0, -1, 0, 0, 0), 2, false, false).     (* double rotation at the root *)
Proof. repeat split. Qed.

Example five_nonvacuous :
  grow false (five Leaf Leaf Leaf Leaf Leaf Leaf 10 0 5 0 20 0 7 0 15 0 (1, 0, -1, 0, 1)) =
  (build5 Leaf Leaf Leaf Leaf Leaf Leaf 10 0 5 0 20 0 7 0 15 0 4 (-1, 0, 0, 0, 0), false).
Proof. reflexivity. Qed.
