(* C09 — heap-level hash table (ModelHeap.v): the chains with their prev/next
   links represent the functional table of Model.v; every node sits in the
   bucket of its key; put / find / remove refine the functional operations. *)
From MV Require Import C09.Model C09.ModelHeap C09.Spec C09.ProofsHt.
From Coq Require Import Arith.
Local Open Scope Z_scope.

(* a chain as the list of its nodes (id, key, value), first node first *)
Definition centry := (nat * Z * Z)%type.
Definition eid (e : centry) : nat := fst (fst e).
Definition ekv (e : centry) : Z * Z := (snd (fst e), snd e).
Definition head_ptr (l : list centry) (nxt : ptr) : ptr :=
  match l with [] => nxt | e :: _ => Some (eid e) end.

(* the nodes of l are linked one after the other behind [prev]; the last one
   points to [nxt]; every prev link points back *)
Fixpoint chain_seg (nodes : nat -> cnode) (prev : link) (l : list centry) (nxt : ptr) : Prop :=
  match l with
  | [] => True
  | e :: rest =>
      nodes (eid e) = mkc (Some prev) (head_ptr rest nxt) (snd (fst e)) (snd e) /\
      chain_seg nodes (LNode (eid e)) rest nxt
  end.

Definition last_link (prev : link) (l : list centry) : link :=
  match rev l with [] => prev | e :: _ => LNode (eid e) end.

Lemma last_link_cons prev e l : last_link prev (e :: l) = last_link (LNode (eid e)) l.
Proof.
  unfold last_link. cbn [rev]. destruct (rev l) as [|a r] eqn:E; [reflexivity|]. reflexivity.
Qed.

Lemma chain_seg_app nodes : forall l1 prev l2 nxt,
  chain_seg nodes prev (l1 ++ l2) nxt <->
  chain_seg nodes prev l1 (head_ptr l2 nxt) /\ chain_seg nodes (last_link prev l1) l2 nxt.
Proof.
  induction l1 as [|e l1 IH]; intros prev l2 nxt; cbn [app chain_seg].
  - unfold last_link. cbn. tauto.
  - rewrite IH, last_link_cons.
    assert (E : head_ptr (l1 ++ l2) nxt = head_ptr l1 (head_ptr l2 nxt)) by (destruct l1; reflexivity).
    rewrite E. tauto.
Qed.

Lemma chain_seg_frame nodes nodes' : forall l prev nxt,
  (forall e, In e l -> nodes' (eid e) = nodes (eid e)) -> chain_seg nodes prev l nxt -> chain_seg nodes' prev l nxt.
Proof.
  induction l as [|e l IH]; intros prev nxt Hf H; cbn [chain_seg] in *; [exact I|].
  destruct H as (He & Hr). split; [rewrite Hf by (cbn; auto); exact He|].
  apply IH; [|exact Hr]. intros e' He'. apply Hf. cbn. auto.
Qed.

Lemma cupd_same f x n : cupd f x n x = n.
Proof. unfold cupd. rewrite Nat.eqb_refl. reflexivity. Qed.
Lemma cupd_other f x n y : y <> x -> cupd f x n y = f y.
Proof. intros H. unfold cupd. destruct (Nat.eqb_spec y x); [contradiction|reflexivity]. Qed.
Lemma hdupd_same f i p : hdupd f i p i = p.
Proof. unfold hdupd. rewrite Nat.eqb_refl. reflexivity. Qed.
Lemma hdupd_other f i p j : j <> i -> hdupd f i p j = f j.
Proof. intros H. unfold hdupd. destruct (Nat.eqb_spec j i); [contradiction|reflexivity]. Qed.

(* ---------- the representation ---------- *)

Record ht_rep (hash : Z -> Z) (t : hht) (ft : ht) (ch : nat -> list centry) : Prop := {
  rep_size : th_size t = ht_size ft;
  rep_wf : ht_wf ft;
  rep_chain : forall i, (i < length (ht_buckets ft))%nat ->
      th_heads t i = head_ptr (ch i) None /\ chain_seg (th_nodes t) (LHead i) (ch i) None /\
      map ekv (ch i) = nth i (ht_buckets ft) [];
  (* bucket membership: a node hangs in the bucket its key hashes to *)
  rep_bucket : forall i e, (i < length (ht_buckets ft))%nat -> In e (ch i) -> hht_idx hash t (snd (fst e)) = i;
  (* no node is in two places; every node id has been handed out *)
  rep_sep : forall i j e1 e2, (i < length (ht_buckets ft))%nat -> (j < length (ht_buckets ft))%nat ->
      In e1 (ch i) -> In e2 (ch j) -> eid e1 = eid e2 -> i = j /\ e1 = e2;
  rep_nodup : forall i, (i < length (ht_buckets ft))%nat -> NoDup (map eid (ch i));
  rep_fresh : forall i e, (i < length (ht_buckets ft))%nat -> In e (ch i) -> (eid e < th_next t)%nat
}.

(* the links are consistent: next->prev points back, the first node's prev is its head *)
Lemma chain_seg_links nodes : forall l prev,
  chain_seg nodes prev l None ->
  (forall e, In e l -> exists p, cprev (nodes (eid e)) = Some p) /\
  (match l with [] => True | e :: _ => cprev (nodes (eid e)) = Some prev end) /\
  (forall e y, In e l -> cnext (nodes (eid e)) = Some y -> cprev (nodes y) = Some (LNode (eid e))).
Proof.
  induction l as [|e l IH]; intros prev H; cbn [chain_seg] in H.
  - split; [intros e []|]. split; [exact I|]. intros e y [].
  - destruct H as (He & Hr). destruct (IH _ Hr) as (A & B & C). split; [|split].
    + intros e' [<-|Hin]; [rewrite He; cbn; eauto|auto].
    + rewrite He. reflexivity.
    + intros e' y [<-|Hin] Hy; [|eauto].
      rewrite He in Hy. cbn [cnext] in Hy. destruct l as [|e2 l2]; [discriminate|].
      cbn [head_ptr] in Hy. inversion Hy; subst y. exact B.
Qed.

Lemma hht_init_rep hash ts : ht_rep hash (hht_init ts) (ht_init ts) (fun _ => []).
Proof.
  constructor; cbn.
  - reflexivity.
  - apply ht_init_wf.
  - intros i Hi. repeat split; auto.
    assert (H : forall n j, nth j (repeat (@nil (Z * Z)) n) [] = []) by (induction n; intros [|j]; simpl; auto).
    unfold ht_init. cbn [ht_buckets]. rewrite H. reflexivity.
  - intros i e _ [].
  - intros i j e1 e2 _ _ [].
  - intros. constructor.
  - intros i e _ [].
Qed.

(* ---------- find ---------- *)

Fixpoint first_with (k : Z) (l : list centry) : option centry :=
  match l with [] => None | e :: r => if snd (fst e) =? k then Some e else first_with k r end.

Lemma first_with_chain_find k l :
  chain_find k (map ekv l) = match first_with k l with Some e => Some (snd e) | None => None end.
Proof.
  induction l as [|[[x k'] v] l IH]; cbn; [reflexivity|]. destruct (k' =? k); [reflexivity|exact IH].
Qed.

Lemma hchain_find_ok nodes k : forall l prev fuel,
  chain_seg nodes prev l None -> (length l <= fuel)%nat ->
  hchain_find fuel nodes (head_ptr l None) k = Some (match first_with k l with Some e => Some (eid e) | None => None end).
Proof.
  induction l as [|e l IH]; intros prev fuel H Hf; [destruct fuel; reflexivity|].
  cbn [chain_seg] in H. destruct H as (He & Hr). cbn [length] in Hf.
  destruct fuel as [|fuel]; [lia|]. cbn [head_ptr hchain_find first_with]. rewrite He. cbn [ckey cnext].
  destruct (snd (fst e) =? k); [reflexivity|]. apply (IH _ fuel Hr). lia.
Qed.

Lemma NoDup_bound_length (l : list nat) n : NoDup l -> (forall a, In a l -> (a < n)%nat) -> (length l <= n)%nat.
Proof.
  intros ND Hb. rewrite <- (seq_length n 0). apply NoDup_incl_length; [exact ND|].
  intros a Ha. apply in_seq. specialize (Hb a Ha). lia.
Qed.

Lemma rep_idx hash t ft ch k : ht_rep hash t ft ch -> hht_idx hash t k = ht_idx hash ft k.
Proof. intros R. unfold hht_idx, ht_idx. rewrite (rep_size _ _ _ _ R). reflexivity. Qed.

Lemma rep_chain_len hash t ft ch i : ht_rep hash t ft ch -> (i < length (ht_buckets ft))%nat ->
  (length (ch i) <= th_next t)%nat.
Proof.
  intros R Hi. rewrite <- (map_length eid). apply NoDup_bound_length; [apply (rep_nodup _ _ _ _ R i Hi)|].
  intros a Ha. apply in_map_iff in Ha. destruct Ha as (e & <- & He). apply (rep_fresh _ _ _ _ R i e Hi He).
Qed.

Theorem hht_find_ok hash t ft ch k : ht_rep hash t ft ch ->
  exists p, hht_find hash t k = Some p /\
    match p with
    | Some x => ht_find hash ft k = Some (cval (th_nodes t x)) /\ ckey (th_nodes t x) = k
    | None => ht_find hash ft k = None
    end.
Proof.
  intros R. unfold hht_find, ht_find. rewrite (rep_idx _ _ _ _ k R).
  set (i := ht_idx hash ft k). assert (Hi : (i < length (ht_buckets ft))%nat) by (apply ht_idx_lt; apply (rep_wf _ _ _ _ R)).
  destruct (rep_chain _ _ _ _ R i Hi) as (Hh & Hc & Hm). rewrite Hh.
  rewrite (hchain_find_ok _ k _ _ _ Hc (rep_chain_len _ _ _ _ i R Hi)).
  eexists. split; [reflexivity|]. rewrite <- Hm, first_with_chain_find.
  destruct (first_with k (ch i)) as [e|] eqn:E; [|reflexivity].
  assert (Hin : In e (ch i) /\ snd (fst e) = k).
  { clear -E. induction (ch i) as [|e' l IH]; cbn in E; [discriminate|].
    destruct (Z.eqb_spec (snd (fst e')) k); [inversion E; subst; cbn; auto|]. destruct (IH E). cbn; auto. }
  destruct Hin as (Hin & Hk).
  assert (Hn : th_nodes t (eid e) = mkc (cprev (th_nodes t (eid e))) (cnext (th_nodes t (eid e))) (snd (fst e)) (snd e)).
  { clear -Hc Hin. revert Hc. generalize (LHead i). induction (ch i) as [|e' l IH]; intros prev Hc; [destruct Hin|].
    cbn [chain_seg] in Hc. destruct Hc as (He & Hr). destruct Hin as [<-|Hin]; [rewrite He; reflexivity|eauto]. }
  rewrite Hn. cbn [cval ckey]. auto.
Qed.

(* ---------- put ---------- *)

Lemma ht_put_wf hash ft k v : ht_wf ft -> ht_wf (fst (ht_put hash ft k v)).
Proof.
  intros W. assert (A : ht_agree hash ft (fun y => ht_find hash ft y)) by (split; auto).
  destruct (ht_step_agree hash ft _ (Ins k v) A) as ((W' & _) & _). cbn [ht_step] in W'.
  destruct (ht_put hash ft k v). exact W'.
Qed.

Lemma ht_remove_wf hash ft k : ht_wf ft -> ht_wf (fst (ht_remove hash ft k)).
Proof.
  intros W. assert (A : ht_agree hash ft (fun y => ht_find hash ft y)) by (split; auto).
  destruct (ht_step_agree hash ft _ (Rem k) A) as ((W' & _) & _). cbn [ht_step] in W'.
  destruct (ht_remove hash ft k). exact W'.
Qed.

Lemma first_with_in k l e : first_with k l = Some e -> In e l /\ snd (fst e) = k.
Proof.
  induction l as [|e' l IH]; cbn; [discriminate|].
  destruct (Z.eqb_spec (snd (fst e')) k); intros E; [inversion E; subst; auto|]. destruct (IH E); auto.
Qed.

(* the node array after linking the new node [new] (record n1) in front of [first] *)
Definition put_nodes (nodes : nat -> cnode) (new : nat) (first : ptr) (n1 : cnode) : nat -> cnode :=
  let nodes1 := cupd nodes new n1 in
  match first with
  | Some y => cupd nodes1 y (mkc (Some (LNode new)) (cnext (nodes1 y)) (ckey (nodes1 y)) (cval (nodes1 y)))
  | None => nodes1
  end.

Lemma put_nodes_other nodes new first n1 z :
  z <> new -> (forall y, first = Some y -> z <> y) -> put_nodes nodes new first n1 z = nodes z.
Proof.
  intros H1 H2. unfold put_nodes. destruct first as [y|].
  - rewrite cupd_other by (apply H2; reflexivity). apply cupd_other. exact H1.
  - apply cupd_other. exact H1.
Qed.

Lemma put_nodes_new nodes new first n1 : first <> Some new -> put_nodes nodes new first n1 new = n1.
Proof.
  intros H. unfold put_nodes. destruct first as [y|]; [|apply cupd_same].
  rewrite cupd_other by congruence. apply cupd_same.
Qed.

Lemma put_nodes_first nodes new y n1 : y <> new ->
  put_nodes nodes new (Some y) n1 y = mkc (Some (LNode new)) (cnext (nodes y)) (ckey (nodes y)) (cval (nodes y)).
Proof. intros H. unfold put_nodes. rewrite cupd_same. rewrite cupd_other by exact H. reflexivity. Qed.

Theorem hht_put_ok hash t ft ch k v : ht_rep hash t ft ch ->
  exists t' ch', hht_put hash t k v = Some (t', snd (ht_put hash ft k v)) /\
    ht_rep hash t' (fst (ht_put hash ft k v)) ch'.
Proof.
  intros R. pose proof (ht_put_wf hash ft k v (rep_wf _ _ _ _ R)) as Wf'.
  unfold hht_put, ht_put in *. rewrite (rep_idx _ _ _ _ k R).
  set (i := ht_idx hash ft k) in *.
  assert (Hi : (i < length (ht_buckets ft))%nat) by (apply ht_idx_lt; apply (rep_wf _ _ _ _ R)).
  destruct (rep_chain _ _ _ _ R i Hi) as (Hh & Hc & Hm). rewrite Hh.
  rewrite (hchain_find_ok _ k _ _ _ Hc (rep_chain_len _ _ _ _ i R Hi)).
  rewrite <- Hm in *. rewrite first_with_chain_find in *.
  destruct (first_with k (ch i)) as [e|] eqn:E.
  - exists t, ch. split; [reflexivity|exact R].
  - cbn [fst snd] in *. remember (th_next t) as new eqn:Enew. remember (ch i) as l eqn:El.
    change (match head_ptr l None with
            | Some y => cupd (cupd (th_nodes t) new (mkc (Some (LHead i)) (head_ptr l None) k v)) y
                (mkc (Some (LNode new)) (cnext (cupd (th_nodes t) new (mkc (Some (LHead i)) (head_ptr l None) k v) y))
                   (ckey (cupd (th_nodes t) new (mkc (Some (LHead i)) (head_ptr l None) k v) y))
                   (cval (cupd (th_nodes t) new (mkc (Some (LHead i)) (head_ptr l None) k v) y)))
            | None => cupd (th_nodes t) new (mkc (Some (LHead i)) (head_ptr l None) k v)
            end)
      with (put_nodes (th_nodes t) new (head_ptr l None) (mkc (Some (LHead i)) (head_ptr l None) k v)).
    set (nodes2 := put_nodes (th_nodes t) new (head_ptr l None) (mkc (Some (LHead i)) (head_ptr l None) k v)).
    set (ch' := fun j => if Nat.eqb j i then (new, k, v) :: l else ch j).
    exists (mkht (th_size t) (hdupd (th_heads t) i (Some new)) nodes2 (S new)), ch'.
    split; [reflexivity|].
    assert (Hfresh : forall j e, (j < length (ht_buckets ft))%nat -> In e (ch j) -> eid e <> new).
    { intros j e Hj He. pose proof (rep_fresh _ _ _ _ R j e Hj He). lia. }
    assert (Hfirst_new : head_ptr l None <> Some new).
    { destruct l as [|e0 l0]; [discriminate|]. cbn [head_ptr]. intros Eq. inversion Eq.
      apply (Hfresh i e0 Hi); [rewrite <- El; cbn; auto|assumption]. }
    assert (Hlen : length (upd_nth i ((k, v) :: map ekv l) (ht_buckets ft)) = length (ht_buckets ft)) by apply upd_nth_length.
    pose proof (rep_nodup _ _ _ _ R i Hi) as NDi. rewrite <- El in NDi.
    constructor; cbn [th_size th_heads th_nodes th_next ht_size ht_buckets].
    + apply (rep_size _ _ _ _ R).
    + exact Wf'.
    + intros j Hj. rewrite ?upd_nth_length in Hj. unfold ch'. destruct (Nat.eqb_spec j i) as [->|Hji].
      * rewrite hdupd_same. split; [reflexivity|]. split.
        -- cbn [chain_seg eid fst snd]. split; [apply put_nodes_new; exact Hfirst_new|].
           destruct l as [|e0 l0]; [exact I|]. cbn [chain_seg head_ptr] in *. destruct Hc as (He0 & Hr).
           assert (Hy : eid e0 <> new) by (apply (Hfresh i e0 Hi); rewrite <- El; cbn; auto).
           inversion NDi as [|? ? Hnin _]; subst.
           split.
           ++ unfold nodes2. cbn [head_ptr]. rewrite put_nodes_first by exact Hy. rewrite He0. reflexivity.
           ++ eapply chain_seg_frame; [|exact Hr]. intros e He. apply put_nodes_other.
              ** apply (Hfresh i e Hi). rewrite <- El. cbn; auto.
              ** intros y Ey Eq. assert (Eq' : eid e = eid e0) by congruence.
                 apply Hnin. rewrite <- Eq'. apply in_map. exact He.
        -- cbn [map ekv fst snd]. rewrite nth_upd_nth_same by exact Hi. reflexivity.
      * rewrite hdupd_other by exact Hji. destruct (rep_chain _ _ _ _ R j Hj) as (Hh' & Hc' & Hm').
        split; [exact Hh'|]. split.
        -- eapply chain_seg_frame; [|exact Hc']. intros e He. apply put_nodes_other; [apply (Hfresh j e Hj He)|].
           intros y Ey Eq. destruct l as [|e0 l0]; [discriminate|]. cbn [head_ptr] in Ey.
           assert (Eq' : eid e = eid e0) by congruence.
           assert (He0 : In e0 (ch i)) by (rewrite <- El; cbn; auto).
           destruct (rep_sep _ _ _ _ R j i e e0 Hj Hi He He0 Eq') as (Hji' & _). contradiction.
        -- rewrite nth_upd_nth_other by (apply not_eq_sym; exact Hji). exact Hm'.
    + intros j e Hj He. rewrite ?upd_nth_length in Hj. unfold ch' in He. unfold hht_idx. cbn [th_size].
      destruct (Nat.eqb_spec j i) as [->|Hji].
      * destruct He as [<-|He]; [cbn [fst snd]; fold (hht_idx hash t k); rewrite (rep_idx _ _ _ _ k R); reflexivity|].
        rewrite El in He. apply (rep_bucket _ _ _ _ R i e Hi He).
      * apply (rep_bucket _ _ _ _ R j e Hj He).
    + intros j1 j2 e1 e2 Hj1 Hj2 He1 He2 Eq. rewrite ?upd_nth_length in Hj1, Hj2. unfold ch' in He1, He2.
      destruct (Nat.eqb_spec j1 i) as [->|H1], (Nat.eqb_spec j2 i) as [->|H2]; rewrite ?El in *.
      * split; [reflexivity|]. destruct He1 as [<-|He1], He2 as [<-|He2]; [reflexivity| | |].
        -- exfalso. apply (Hfresh i e2 Hi He2). rewrite <- Eq. reflexivity.
        -- exfalso. apply (Hfresh i e1 Hi He1). rewrite Eq. reflexivity.
        -- apply (rep_sep _ _ _ _ R i i e1 e2 Hi Hi He1 He2 Eq).
      * destruct He1 as [<-|He1]; [exfalso; apply (Hfresh j2 e2 Hj2 He2); rewrite <- Eq; reflexivity|].
        apply (rep_sep _ _ _ _ R i j2 e1 e2 Hi Hj2 He1 He2 Eq).
      * destruct He2 as [<-|He2]; [exfalso; apply (Hfresh j1 e1 Hj1 He1); rewrite Eq; reflexivity|].
        apply (rep_sep _ _ _ _ R j1 i e1 e2 Hj1 Hi He1 He2 Eq).
      * apply (rep_sep _ _ _ _ R j1 j2 e1 e2 Hj1 Hj2 He1 He2 Eq).
    + intros j Hj. rewrite ?upd_nth_length in Hj. unfold ch'. destruct (Nat.eqb_spec j i) as [->|Hji]; [|apply (rep_nodup _ _ _ _ R j Hj)].
      cbn [map]. constructor; [|exact NDi].
      intros Hin. apply in_map_iff in Hin. destruct Hin as (e & Ee & He). rewrite El in He. apply (Hfresh i e Hi He). exact Ee.
    + intros j e Hj He. rewrite ?upd_nth_length in Hj. unfold ch' in He. destruct (Nat.eqb_spec j i) as [->|Hji].
      * destruct He as [<-|He]; [cbn; lia|]. rewrite El in He. pose proof (rep_fresh _ _ _ _ R i e Hi He). lia.
      * pose proof (rep_fresh _ _ _ _ R j e Hj He). lia.
Qed.

(* ---------- remove ---------- *)

Lemma first_with_split k : forall l e, first_with k l = Some e ->
  exists l1 l2, l = l1 ++ e :: l2 /\ first_with k l1 = None /\ snd (fst e) = k.
Proof.
  induction l as [|e' l IH]; intros e H; cbn in H; [discriminate|].
  destruct (Z.eqb_spec (snd (fst e')) k) as [Ek|Ek].
  - inversion H; subst. exists [], l. auto.
  - destruct (IH e H) as (l1 & l2 & -> & H1 & H2). exists (e' :: l1), l2. cbn.
    destruct (Z.eqb_spec (snd (fst e')) k); [contradiction|]. auto.
Qed.

Lemma chain_remove_split k l1 e l2 : first_with k l1 = None -> snd (fst e) = k ->
  chain_remove k (map ekv (l1 ++ e :: l2)) = map ekv (l1 ++ l2).
Proof.
  intros H1 H2. induction l1 as [|[[x k'] v] l1 IH]; cbn in *.
  - destruct e as [[x k'] v]. cbn in *. subst k'. rewrite Z.eqb_refl. reflexivity.
  - destruct (Z.eqb_spec k' k); [discriminate|]. rewrite IH by exact H1. reflexivity.
Qed.

(* the nodes array after unlinking node x (prev, next as read from x) *)
Definition rem_nodes (nodes : nat -> cnode) (prev : link) (next : ptr) : nat -> cnode :=
  let nodes1 := match prev with
                | LHead _ => nodes
                | LNode p => cupd nodes p (mkc (cprev (nodes p)) next (ckey (nodes p)) (cval (nodes p)))
                end in
  match next with
  | Some y => cupd nodes1 y (mkc (Some prev) (cnext (nodes1 y)) (ckey (nodes1 y)) (cval (nodes1 y)))
  | None => nodes1
  end.

Lemma rem_nodes_other nodes prev next z :
  (forall p, prev = LNode p -> z <> p) -> (forall y, next = Some y -> z <> y) -> rem_nodes nodes prev next z = nodes z.
Proof.
  intros H1 H2. unfold rem_nodes. destruct next as [y|].
  - rewrite cupd_other by (apply H2; reflexivity). destruct prev as [i|p]; [reflexivity|].
    apply cupd_other. apply H1. reflexivity.
  - destruct prev as [i|p]; [reflexivity|]. apply cupd_other. apply H1. reflexivity.
Qed.

Lemma rem_nodes_prev nodes p next : next <> Some p ->
  rem_nodes nodes (LNode p) next p = mkc (cprev (nodes p)) next (ckey (nodes p)) (cval (nodes p)).
Proof.
  intros H. unfold rem_nodes. destruct next as [y|]; [|apply cupd_same].
  rewrite cupd_other by congruence. apply cupd_same.
Qed.

Lemma rem_nodes_next nodes prev y : (forall p, prev = LNode p -> y <> p) ->
  rem_nodes nodes prev (Some y) y = mkc (Some prev) (cnext (nodes y)) (ckey (nodes y)) (cval (nodes y)).
Proof.
  intros H. unfold rem_nodes. rewrite cupd_same. destruct prev as [i|p]; [reflexivity|].
  rewrite cupd_other by (apply H; reflexivity). reflexivity.
Qed.

Lemma NoDup_app_r {A} (a b : list A) : NoDup (a ++ b) -> NoDup b.
Proof. induction a as [|x a IH]; cbn; intros H; [exact H|]. inversion H; auto. Qed.

Lemma in_mid {A} (l1 l2 : list A) e x : In x (l1 ++ l2) -> In x (l1 ++ e :: l2).
Proof. intros H. apply in_app_or in H. apply in_or_app. destruct H; [auto|right; cbn; auto]. Qed.

Lemma NoDup_mid_ids l1 (e : centry) l2 : NoDup (map eid (l1 ++ e :: l2)) ->
  NoDup (map eid (l1 ++ l2)) /\ ~ In (eid e) (map eid (l1 ++ l2)).
Proof.
  rewrite !map_app. cbn [map]. intros H. split.
  - eapply NoDup_remove_1; eauto.
  - eapply NoDup_remove_2; eauto.
Qed.

Theorem hht_remove_ok hash t ft ch k : ht_rep hash t ft ch ->
  exists t' ch', hht_remove hash t k = Some (t', snd (ht_remove hash ft k)) /\
    ht_rep hash t' (fst (ht_remove hash ft k)) ch'.
Proof.
  intros R. pose proof (ht_remove_wf hash ft k (rep_wf _ _ _ _ R)) as Wf'.
  unfold hht_remove, hht_find, ht_remove in *. rewrite (rep_idx _ _ _ _ k R).
  set (i := ht_idx hash ft k) in *.
  assert (Hi : (i < length (ht_buckets ft))%nat) by (apply ht_idx_lt; apply (rep_wf _ _ _ _ R)).
  destruct (rep_chain _ _ _ _ R i Hi) as (Hh & Hc & Hm). rewrite Hh.
  rewrite (hchain_find_ok _ k _ _ _ Hc (rep_chain_len _ _ _ _ i R Hi)).
  rewrite <- Hm in *. rewrite first_with_chain_find in *.
  destruct (first_with k (ch i)) as [e|] eqn:E.
  2: { exists t, ch. split; [reflexivity|exact R]. }
  destruct (first_with_split k _ _ E) as (l1 & l2 & El & Hl1 & Hek).
  cbn [fst snd] in *. rewrite El in *.
  apply chain_seg_app in Hc. destruct Hc as (Hc1 & Hc2). cbn [chain_seg head_ptr] in Hc1, Hc2.
  destruct Hc2 as (He & Hc2).
  set (prev := last_link (LHead i) l1) in *. set (next := head_ptr l2 None) in *.
  pose proof (rep_nodup _ _ _ _ R i Hi) as NDi. rewrite El in NDi.
  destruct (NoDup_mid_ids _ _ _ NDi) as (ND' & Hx_notin).
  unfold hht_remove_node. rewrite He. cbn [cprev cnext].
  set (heads' := match prev with LHead i0 => hdupd (th_heads t) i0 next | LNode _ => th_heads t end).
  set (ch' := fun j => if Nat.eqb j i then l1 ++ l2 else ch j).
  exists (mkht (th_size t) heads' (rem_nodes (th_nodes t) prev next) (th_next t)), ch'.
  split.
  { unfold heads', rem_nodes. destruct prev as [i0|p]; reflexivity. }
  rewrite chain_remove_split in * by assumption.
  assert (Hsub : forall e', In e' (l1 ++ l2) -> In e' (ch i)) by (intros e' H; rewrite El; apply in_mid; exact H).
  (* the ids the unlinking writes to belong to this chain *)
  assert (Hprev_in : forall p, prev = LNode p -> exists ep, In ep l1 /\ eid ep = p).
  { intros p Hp. unfold prev, last_link in Hp. destruct (rev l1) as [|ep r] eqn:Er; [discriminate|].
    inversion Hp. exists ep. split; [|reflexivity]. apply in_rev. rewrite Er. cbn; auto. }
  assert (Hnext_in : forall y, next = Some y -> exists ey, In ey l2 /\ eid ey = y).
  { intros y Hy. unfold next in Hy. destruct l2 as [|ey l2']; [discriminate|]. inversion Hy. exists ey. cbn; auto. }
  assert (Hother : forall j e', (j < length (ht_buckets ft))%nat -> j <> i -> In e' (ch j) ->
                     rem_nodes (th_nodes t) prev next (eid e') = th_nodes t (eid e')).
  { intros j e' Hj Hji He'. apply rem_nodes_other.
    - intros p Hp Eq. destruct (Hprev_in p Hp) as (ep & Hep & <-).
      assert (In ep (ch i)) by (rewrite El; apply in_or_app; auto).
      destruct (rep_sep _ _ _ _ R j i e' ep Hj Hi He' H Eq). contradiction.
    - intros y Hy Eq. destruct (Hnext_in y Hy) as (ey & Hey & <-).
      assert (In ey (ch i)) by (rewrite El; apply in_or_app; right; cbn; auto).
      destruct (rep_sep _ _ _ _ R j i e' ey Hj Hi He' H Eq). contradiction. }
  rewrite !map_app in NDi. cbn [map] in NDi.
  constructor; cbn [th_size th_heads th_nodes th_next ht_size ht_buckets].
  - apply (rep_size _ _ _ _ R).
  - exact Wf'.
  - intros j Hj. rewrite ?upd_nth_length in Hj. unfold ch'. destruct (Nat.eqb_spec j i) as [->|Hji].
    + split; [|split].
      * unfold heads', prev, last_link. destruct l1 as [|e1 l1'].
        -- cbn [rev app]. rewrite hdupd_same. reflexivity.
        -- assert (Hrev : rev (e1 :: l1') <> []) by (cbn; intros Hr; apply app_eq_nil in Hr; destruct Hr; discriminate).
           destruct (rev (e1 :: l1')) as [|ep r] eqn:Er; [congruence|]. rewrite Hh. reflexivity.
      * apply chain_seg_app. split.
        -- (* the part before x: only the last node's next changes *)
           fold next. destruct (rev l1) as [|ep r] eqn:Er.
           ++ assert (l1 = []) by (destruct l1; [reflexivity|cbn in Er; apply app_eq_nil in Er; destruct Er; discriminate]).
              subst l1. exact I.
           ++ assert (El1 : l1 = rev r ++ [ep]) by (rewrite <- (rev_involutive l1), Er; reflexivity).
              assert (Hprev : prev = LNode (eid ep)) by (unfold prev, last_link; rewrite Er; reflexivity).
              rewrite El1 in *. apply chain_seg_app in Hc1. destruct Hc1 as (Hc1a & Hc1b).
              cbn [chain_seg head_ptr] in Hc1a, Hc1b. destruct Hc1b as (Hep & _).
              apply chain_seg_app. cbn [chain_seg head_ptr]. rewrite !map_app in NDi. cbn [map] in NDi.
              split.
              ** eapply chain_seg_frame; [|exact Hc1a]. intros e' He'. apply rem_nodes_other.
                 --- intros p Hp. rewrite Hprev in Hp. inversion Hp; subst p. intros Eq.
                     rewrite <- app_assoc in NDi. apply NoDup_remove_2 in NDi. apply NDi.
                     apply in_or_app. left. rewrite <- Eq. apply in_map. exact He'.
                 --- intros y Hy Eq. destruct (Hnext_in y Hy) as (ey & Hey & <-).
                     rewrite <- !app_assoc in NDi. clear -NDi He' Hey Eq.
                     induction (rev r) as [|a l IH]; [destruct He'|]. cbn [map app] in NDi. inversion NDi as [|? ? Hnin Hnd]; subst.
                     destruct He' as [<-|He']; [|auto].
                     apply Hnin. rewrite Eq. apply in_or_app. right. cbn. right. right. apply in_map. exact Hey.
              ** split; [|exact I]. rewrite Hprev. rewrite rem_nodes_prev.
                 --- rewrite Hep. reflexivity.
                 --- intros Eq. destruct (Hnext_in _ Eq) as (ey & Hey & Eey).
                     rewrite <- app_assoc in NDi. apply NoDup_remove_2 in NDi. apply NDi.
                     apply in_or_app. right. cbn. right. rewrite <- Eey. apply in_map. exact Hey.
        -- (* the part behind x: the first node's prev changes *)
           fold prev. destruct l2 as [|ey l2']; [exact I|]. cbn [chain_seg head_ptr] in *. destruct Hc2 as (Hey & Hc2').
           assert (Hyp : forall p, prev = LNode p -> eid ey <> p).
           { intros p Hp Eq. destruct (Hprev_in p Hp) as (ep & Hep & <-).
             clear -NDi Hep Eq. induction l1 as [|a l IH]; [destruct Hep|]. cbn [map app] in NDi. inversion NDi as [|? ? Hnin Hnd]; subst.
             destruct Hep as [<-|Hep]; [|auto]. apply Hnin. rewrite <- Eq. apply in_or_app. right. cbn. auto. }
           split.
           ++ unfold next. cbn [head_ptr]. rewrite rem_nodes_next by exact Hyp. rewrite Hey. reflexivity.
           ++ eapply chain_seg_frame; [|exact Hc2']. intros e' He'. apply rem_nodes_other.
              ** intros p Hp Eq. destruct (Hprev_in p Hp) as (ep & Hep & <-).
                 clear -NDi Hep He' Eq. induction l1 as [|a l IH]; [destruct Hep|]. cbn [map app] in NDi. inversion NDi as [|? ? Hnin Hnd]; subst.
                 destruct Hep as [<-|Hep]; [|auto]. apply Hnin. rewrite <- Eq. apply in_or_app. right. cbn. right. right.
                 apply in_map. exact He'.
              ** intros y Hy Eq. unfold next in Hy. cbn [head_ptr] in Hy. assert (Eq' : eid ey = eid e') by congruence.
                 apply NoDup_remove_1 in NDi. apply NoDup_app_r in NDi. cbn [map] in NDi. inversion NDi as [|? ? Hnin Hnd]; subst.
                 apply Hnin. rewrite Eq'. apply in_map. exact He'.
      * rewrite nth_upd_nth_same by exact Hi. reflexivity.
    + destruct (rep_chain _ _ _ _ R j Hj) as (Hh' & Hc' & Hm').
      split; [|split].
      * unfold heads'. destruct prev as [i0|p] eqn:Ep; [|exact Hh'].
        assert (i0 = i).
        { unfold prev, last_link in Ep. destruct (rev l1); [inversion Ep; reflexivity|discriminate]. }
        subst i0. rewrite hdupd_other by exact Hji. exact Hh'.
      * eapply chain_seg_frame; [|exact Hc']. intros e' He'. apply (Hother j e' Hj Hji He').
      * rewrite nth_upd_nth_other by (apply not_eq_sym; exact Hji). exact Hm'.
  - intros j e' Hj He'. rewrite ?upd_nth_length in Hj. unfold ch' in He'. unfold hht_idx. cbn [th_size].
    destruct (Nat.eqb_spec j i) as [->|Hji].
    + apply (rep_bucket _ _ _ _ R i e' Hi (Hsub e' He')).
    + apply (rep_bucket _ _ _ _ R j e' Hj He').
  - intros j1 j2 e1 e2 Hj1 Hj2 He1 He2 Eq. rewrite ?upd_nth_length in Hj1, Hj2. unfold ch' in He1, He2.
    destruct (Nat.eqb_spec j1 i) as [->|H1], (Nat.eqb_spec j2 i) as [->|H2].
    + apply (rep_sep _ _ _ _ R i i e1 e2 Hi Hi (Hsub _ He1) (Hsub _ He2) Eq).
    + apply (rep_sep _ _ _ _ R i j2 e1 e2 Hi Hj2 (Hsub _ He1) He2 Eq).
    + apply (rep_sep _ _ _ _ R j1 i e1 e2 Hj1 Hi He1 (Hsub _ He2) Eq).
    + apply (rep_sep _ _ _ _ R j1 j2 e1 e2 Hj1 Hj2 He1 He2 Eq).
  - intros j Hj. rewrite ?upd_nth_length in Hj. unfold ch'. destruct (Nat.eqb_spec j i) as [->|Hji];
      [exact ND'|apply (rep_nodup _ _ _ _ R j Hj)].
  - intros j e' Hj He'. rewrite ?upd_nth_length in Hj. unfold ch' in He'. destruct (Nat.eqb_spec j i) as [->|Hji].
    + apply (rep_fresh _ _ _ _ R i e' Hi (Hsub e' He')).
    + apply (rep_fresh _ _ _ _ R j e' Hj He').
Qed.

(* ---------- histories; link consistency ---------- *)

Lemma hht_history hash : forall ops t ft ch,
  ht_rep hash t ft ch ->
  exists t' ch', hrun (hht_step hash) t ops = Some (t', snd (run (ht_step hash) ft ops)) /\
    ht_rep hash t' (fst (run (ht_step hash) ft ops)) ch'.
Proof.
  induction ops as [|o ops IH]; intros t ft ch R.
  - exists t, ch. cbn. auto.
  - cbn [hrun run]. destruct o as [k v|k|k]; cbn [hht_step ht_step].
    + destruct (hht_put_ok hash t ft ch k v R) as (t1 & ch1 & E1 & R1). rewrite E1.
      destruct (ht_put hash ft k v) as [ft1 ok]. cbn [fst snd] in *.
      destruct (IH t1 ft1 ch1 R1) as (t2 & ch2 & E2 & R2). rewrite E2.
      destruct (run (ht_step hash) ft1 ops) as [ft2 xs]. cbn [fst snd] in *. exists t2, ch2. auto.
    + destruct (hht_find_ok hash t ft ch k R) as (p & Ep & Hp). rewrite Ep.
      destruct (IH t ft ch R) as (t2 & ch2 & E2 & R2).
      destruct p as [x|].
      * destruct Hp as (Hf & _). rewrite E2, Hf. destruct (run (ht_step hash) ft ops) as [ft2 xs]. cbn [fst snd] in *.
        exists t2, ch2. auto.
      * rewrite E2, Hp. destruct (run (ht_step hash) ft ops) as [ft2 xs]. cbn [fst snd] in *. exists t2, ch2. auto.
    + destruct (hht_remove_ok hash t ft ch k R) as (t1 & ch1 & E1 & R1). rewrite E1.
      destruct (ht_remove hash ft k) as [ft1 ok]. cbn [fst snd] in *.
      destruct (IH t1 ft1 ch1 R1) as (t2 & ch2 & E2 & R2). rewrite E2.
      destruct (run (ht_step hash) ft1 ops) as [ft2 xs]. cbn [fst snd] in *. exists t2, ch2. auto.
Qed.

Lemma chain_seg_keys nodes : forall l prev e, chain_seg nodes prev l None -> In e l ->
  ckey (nodes (eid e)) = snd (fst e) /\ cval (nodes (eid e)) = snd e.
Proof.
  induction l as [|e' l IH]; intros prev e H Hin; [destruct Hin|].
  cbn [chain_seg] in H. destruct H as (He & Hr). destruct Hin as [<-|Hin]; [rewrite He; auto|eauto].
Qed.

(* for every bucket: the first node points back to its head, every next->prev
   points back to the node, every node has a prev, and every node hangs in the
   bucket its key hashes to *)
Lemma ht_rep_links hash t ft ch : ht_rep hash t ft ch ->
  forall i, (Z.of_nat i < th_size t) ->
    (forall y, th_heads t i = Some y -> cprev (th_nodes t y) = Some (LHead i)) /\
    (forall e, In e (ch i) ->
       (exists p, cprev (th_nodes t (eid e)) = Some p) /\
       (forall y, cnext (th_nodes t (eid e)) = Some y -> cprev (th_nodes t y) = Some (LNode (eid e))) /\
       hht_idx hash t (ckey (th_nodes t (eid e))) = i).
Proof.
  intros R i Hi.
  assert (Hi' : (i < length (ht_buckets ft))%nat).
  { destruct (rep_wf _ _ _ _ R) as (Hs & Hl & _). rewrite Hl. rewrite (rep_size _ _ _ _ R) in Hi. lia. }
  destruct (rep_chain _ _ _ _ R i Hi') as (Hh & Hc & _).
  destruct (chain_seg_links _ _ _ Hc) as (A & B & C). split.
  - intros y Hy. rewrite Hh in Hy. destruct (ch i) as [|e l]; [discriminate|]. cbn [head_ptr] in Hy.
    inversion Hy; subst y. exact B.
  - intros e He. split; [apply A; exact He|]. split; [intros y Hy; apply (C e y He Hy)|].
    destruct (chain_seg_keys _ _ _ e Hc He) as (Hk & _). rewrite Hk. apply (rep_bucket _ _ _ _ R i e Hi' He).
Qed.

(* non-vacuity: colliding keys in an 8-bucket table, removal from the middle, the
   front and the back of a chain; the chain read back with its link checks equals
   the functional bucket *)
Example hht_example :
  let ops := [Ins 1 11; Ins 2 12; Ins 3 13; Ins 2 99; Rem 2; Find 2; Find 1; Rem 3; Rem 1; Ins 4 14; Rem 9] in
  match hrun (hht_step hash_zero) (hht_init 8) ops with
  | Some (t, rs) =>
      rs = snd (run (ht_step hash_zero) (ht_init 8) ops) /\
      hht_bucket hash_zero t 0 = Some (nth 0 (ht_buckets (fst (run (ht_step hash_zero) (ht_init 8) ops))) [])
  | None => False
  end.
Proof. vm_compute. repeat split. Qed.
