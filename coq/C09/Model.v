(* C09 — AVL tree, hash table, trie: executable models transcribing
   muggle/c/dsaa/avl_tree.c, hash_table.c and trie.c (definitions only).

   Pointers are not modelled: a node is a constructor, NULL is [Leaf] / [None].
   Parent links and the prev/next splicing of hash chains are checked on the
   real structures by the implementation driver.  malloc / pool allocation
   always succeeds here (allocation failure is property C18).
   Keys of the tree and the table are [Z] compared by the comparator [Z.compare];
   values are non-NULL pointers, represented by [Z]. *)
From Coq Require Export List ZArith Lia Bool.
Export ListNotations.
Local Open Scope Z_scope.

(* ====================================================================== *)
(* AVL tree (avl_tree.c)                                                   *)

(* muggle_avl_tree_node_t: left, key, value, balance, right *)
Inductive tree := Leaf | Node (l : tree) (k : Z) (v : Z) (b : Z) (r : tree).

(* muggle_avl_tree_find *)
Fixpoint avl_find (x : Z) (t : tree) : option Z :=
  match t with
  | Leaf => None
  | Node l k v _ r =>
      if x <? k then avl_find x l else if k <? x then avl_find x r else Some v
  end.

(* muggle_avl_tree_rotate_left (x = node, z = x->right); returns "depth decreased" *)
Definition rotate_left (t : tree) : tree * bool :=
  match t with
  | Node t1 xk xv xb (Node t23 zk zv zb t4) =>
      if zb =? 0 then (Node (Node t1 xk xv 1 t23) zk zv (-1) t4, false)
      else (Node (Node t1 xk xv 0 t23) zk zv 0 t4, true)
  | _ => (t, false)
  end.

(* muggle_avl_tree_rotate_right (z = x->left) *)
Definition rotate_right (t : tree) : tree * bool :=
  match t with
  | Node (Node t4 zk zv zb t23) xk xv xb t1 =>
      if zb =? 0 then (Node t4 zk zv 1 (Node t23 xk xv (-1) t1), false)
      else (Node t4 zk zv 0 (Node t23 xk xv 0 t1), true)
  | _ => (t, false)
  end.

(* muggle_avl_tree_rotate_right_left (z = x->right, y = z->left, t2 = y->left, t3 = y->right) *)
Definition rotate_right_left (t : tree) : tree :=
  match t with
  | Node t1 xk xv xb (Node (Node t2 yk yv yb t3) zk zv zb t4) =>
      let '(xb', zb') :=
        if 0 <? yb then (-1, 0) else if yb =? 0 then (0, 0) else (0, 1) in
      Node (Node t1 xk xv xb' t2) yk yv 0 (Node t3 zk zv zb' t4)
  | _ => t
  end.

(* muggle_avl_tree_rotate_left_right (z = x->left, y = z->right, t2 = y->right, t3 = y->left) *)
Definition rotate_left_right (t : tree) : tree :=
  match t with
  | Node (Node t4 zk zv zb (Node t3 yk yv yb t2)) xk xv xb t1 =>
      let '(xb', zb') :=
        if 0 <? yb then (0, -1) else if yb =? 0 then (0, 0) else (1, 0) in
      Node (Node t4 zk zv zb' t3) yk yv 0 (Node t2 xk xv xb' t1)
  | _ => t
  end.

(* muggle_avl_tree_rebalance; returns "depth decreased" *)
Definition rebalance (t : tree) : tree * bool :=
  match t with
  | Node l k v b r =>
      if b <? -1 then
        match l with
        | Node _ _ _ cb _ =>
            if cb <=? 0 then rotate_right t else (rotate_left_right t, true)
        | Leaf => (t, false)        (* NULL child: not reachable *)
        end
      else if 1 <? b then
        match r with
        | Node _ _ _ cb _ =>
            if 0 <=? cb then rotate_left t else (rotate_right_left t, true)
        | Leaf => (t, false)
        end
      else (t, false)
  | Leaf => (Leaf, false)
  end.

(* one iteration of the insert retracing loop at [t], whose left (side_left)
   or right subtree has just grown by one; returns (subtree, "this subtree grew") *)
Definition grow (side_left : bool) (t : tree) : tree * bool :=
  match t with
  | Node l k v b r =>
      let b' := if side_left then b - 1 else b + 1 in
      let n := Node l k v b' r in
      if b' =? 0 then (n, false)
      else if (b' =? 1) || (b' =? -1) then (n, true)
      else (fst (rebalance n), false)
  | Leaf => (Leaf, false)
  end.

(* muggle_avl_tree_insert: descent + retracing; (tree, grew, inserted) *)
Fixpoint ins (x xv : Z) (t : tree) : tree * bool * bool :=
  match t with
  | Leaf => (Node Leaf x xv 0 Leaf, true, true)
  | Node l k v b r =>
      if x <? k then
        let '(l', g, i) := ins x xv l in
        if g then let (t', g') := grow true (Node l' k v b r) in (t', g', i)
        else (Node l' k v b r, false, i)
      else if k <? x then
        let '(r', g, i) := ins x xv r in
        if g then let (t', g') := grow false (Node l k v b r') in (t', g', i)
        else (Node l k v b r', false, i)
      else (t, false, false)            (* cmp == 0: return NULL, nothing changed *)
  end.

Definition avl_insert (x xv : Z) (t : tree) : tree * bool :=
  let '(t', _, i) := ins x xv t in (t', i).

(* one iteration of the remove retracing loop at [t], whose left (side_left) or
   right subtree has just lost one level; returns (subtree, "depth decreased") *)
Definition shrink (side_left : bool) (t : tree) : tree * bool :=
  match t with
  | Node l k v b r =>
      let b' := if side_left then b + 1 else b - 1 in
      let n := Node l k v b' r in
      if (b' =? 1) || (b' =? -1) then (n, false)
      else if b' =? 0 then (n, true)
      else rebalance n
  | Leaf => (Leaf, false)
  end.

Definition shrink_if (dec side_left : bool) (t : tree) : tree * bool :=
  if dec then shrink side_left t else (t, false).

(* muggle_avl_tree_remove.  The code swaps the key/value of the node with its
   in-order predecessor (rightmost node of the left subtree) when it has a left
   child, else with its successor (leftmost node of the right subtree), moves to
   that node and repeats until it stands on a leaf; the leaf is unlinked and the
   path is retraced.  [rem m t]: m = ByKey x descends to the node holding x;
   GoMax / GoMin descend to the rightmost / leftmost node of t (the swap
   target), return its key/value to the caller (who stores them in the node
   being emptied) and continue the removal from there.
   Result: (new subtree, depth decreased, key/value taken from the target). *)
Inductive mode := ByKey (x : Z) | GoMax | GoMin.

Definition rem_result := (tree * bool * option (Z * Z))%type.

(* the body of the swap loop at the node t = Node l k v b r whose data is being
   removed: take the predecessor's data (continuing the removal inside l), else
   the successor's (inside r), else the node is a leaf and is unlinked.
   [gomax_l] / [gomin_r] are the (lazily evaluated) continuations of the
   removal inside l / r. *)
Definition rem_here (t l : tree) (b : Z) (r : tree)
    (gomax_l gomin_r : unit -> rem_result) : tree * bool :=
  match l with
  | Node _ _ _ _ _ =>
      match gomax_l tt with
      | (l', dec, Some (kp, vp)) => shrink_if dec true (Node l' kp vp b r)
      | (_, _, None) => (t, false)       (* not reachable: l is not empty *)
      end
  | Leaf =>
      match r with
      | Leaf => (Leaf, true)
      | Node _ _ _ _ _ =>
          match gomin_r tt with
          | (r', dec, Some (ks, vs)) => shrink_if dec false (Node l ks vs b r')
          | (_, _, None) => (t, false)
          end
      end
  end.

Fixpoint rem (m : mode) (t : tree) {struct t} : rem_result :=
  match t with
  | Leaf => (Leaf, false, None)
  | Node l k v b r =>
      let here (_ : unit) : tree * bool :=
        rem_here t l b r (fun _ => rem GoMax l) (fun _ => rem GoMin r) in
      match m with
      | ByKey x =>
          if x <? k then
            let '(l', dec, _) := rem m l in
            let (t', d') := shrink_if dec true (Node l' k v b r) in (t', d', None)
          else if k <? x then
            let '(r', dec, _) := rem m r in
            let (t', d') := shrink_if dec false (Node l k v b r') in (t', d', None)
          else let (t', d') := here tt in (t', d', None)
      | GoMax =>
          match r with
          | Leaf => let (t', d') := here tt in (t', d', Some (k, v))
          | Node _ _ _ _ _ =>
              let '(r', dec, kv) := rem GoMax r in
              let (t', d') := shrink_if dec false (Node l k v b r') in (t', d', kv)
          end
      | GoMin =>
          match l with
          | Leaf => let (t', d') := here tt in (t', d', Some (k, v))
          | Node _ _ _ _ _ =>
              let '(l', dec, kv) := rem GoMin l in
              let (t', d') := shrink_if dec true (Node l' k v b r) in (t', d', kv)
          end
      end
  end.

(* find + remove as the driver (and every caller) does it *)
Definition avl_remove (x : Z) (t : tree) : tree * bool :=
  match avl_find x t with
  | Some _ => (fst (fst (rem (ByKey x) t)), true)
  | None => (t, false)
  end.

(* executable shape check used by the model driver's verdict line *)
Fixpoint height (t : tree) : Z :=
  match t with Leaf => 0 | Node l _ _ _ r => 1 + Z.max (height l) (height r) end.

Fixpoint balanced_b (t : tree) : bool :=
  match t with
  | Leaf => true
  | Node l _ _ b r =>
      (b =? height r - height l) && (-1 <=? b) && (b <=? 1) && balanced_b l && balanced_b r
  end.

Definition lt_opt_l (lo : option Z) (k : Z) := match lo with None => true | Some a => a <? k end.
Definition lt_opt_r (k : Z) (hi : option Z) := match hi with None => true | Some a => k <? a end.

Fixpoint bst_b (lo hi : option Z) (t : tree) : bool :=
  match t with
  | Leaf => true
  | Node l k _ _ r => lt_opt_l lo k && lt_opt_r k hi && bst_b lo (Some k) l && bst_b (Some k) hi r
  end.

Definition avl_okb (t : tree) : bool := balanced_b t && bst_b None None t.

(* ====================================================================== *)
(* hash table (hash_table.c): separate chaining, head insertion            *)

Definition bucket := list (Z * Z).
Record ht := { ht_size : Z; ht_buckets : list bucket }.

(* muggle_hash_table_init: table_size < 8 becomes 10007 *)
Definition ht_init (table_size : Z) : ht :=
  let s := if table_size <? 8 then 10007 else table_size in
  {| ht_size := s; ht_buckets := repeat [] (Z.to_nat s) |}.

Definition ht_idx (hash : Z -> Z) (t : ht) (k : Z) : nat := Z.to_nat (hash k mod ht_size t).

Fixpoint chain_find (k : Z) (b : bucket) : option Z :=
  match b with
  | [] => None
  | (k', v) :: r => if k' =? k then Some v else chain_find k r
  end.

Fixpoint chain_remove (k : Z) (b : bucket) : bucket :=
  match b with
  | [] => []
  | (k', v) :: r => if k' =? k then r else (k', v) :: chain_remove k r
  end.

Fixpoint upd_nth {A} (i : nat) (x : A) (l : list A) : list A :=
  match l, i with
  | [], _ => []
  | _ :: r, O => x :: r
  | a :: r, S j => a :: upd_nth j x r
  end.

Definition ht_find (hash : Z -> Z) (t : ht) (k : Z) : option Z :=
  chain_find k (nth (ht_idx hash t k) (ht_buckets t) []).

(* muggle_hash_table_put: duplicate -> NULL, else new node linked behind the head *)
Definition ht_put (hash : Z -> Z) (t : ht) (k v : Z) : ht * bool :=
  let i := ht_idx hash t k in
  let b := nth i (ht_buckets t) [] in
  match chain_find k b with
  | Some _ => (t, false)
  | None => ({| ht_size := ht_size t; ht_buckets := upd_nth i ((k, v) :: b) (ht_buckets t) |}, true)
  end.

(* find + muggle_hash_table_remove of the node found (the first match of its chain) *)
Definition ht_remove (hash : Z -> Z) (t : ht) (k : Z) : ht * bool :=
  let i := ht_idx hash t k in
  let b := nth i (ht_buckets t) [] in
  match chain_find k b with
  | None => (t, false)
  | Some _ => ({| ht_size := ht_size t; ht_buckets := upd_nth i (chain_remove k b) (ht_buckets t) |}, true)
  end.

(* hash functions used by the drivers (the theorems hold for every function) *)
Definition two64 : Z := 18446744073709551616.
Definition hash_id (k : Z) : Z := k mod two64.
Definition hash_zero (k : Z) : Z := 0.
Definition hash_low (k : Z) : Z := (k mod two64) mod 4.
Definition hash_mul (k : Z) : Z := ((k mod two64) * 11400714819323198485) mod two64.
(* s_muggle_default_str_hash_func over the bytes of the key (plain char is signed) *)
Definition schar (c : Z) : Z := if 128 <=? c then c - 256 else c.
Definition str_hash (s : list Z) : Z :=
  fold_left (fun h c => (h * 32 + schar c) mod two64) s 0.

(* ====================================================================== *)
(* trie (trie.c), with fixes/C09-trie-unsigned-index.patch applied          *)

(* muggle_trie_node_t: data (None = NULL) and children[256] as a finite map
   index -> child (absent = NULL) *)
Inductive trie := TNode (data : option Z) (children : list (Z * trie)).

Definition trie_empty : trie := TNode None [].
Definition t_data (t : trie) := match t with TNode d _ => d end.
Definition t_children (t : trie) := match t with TNode _ c => c end.

Fixpoint cget (i : Z) (c : list (Z * trie)) : option trie :=
  match c with
  | [] => None
  | (j, y) :: r => if j =? i then Some y else cget i r
  end.

Fixpoint cset (i : Z) (x : trie) (c : list (Z * trie)) : list (Z * trie) :=
  match c with
  | [] => [(i, x)]
  | (j, y) :: r => if j =? i then (i, x) :: r else (j, y) :: cset i x r
  end.

(* index computed from a key byte c in 1..255.
   repaired code: children[(unsigned char)p[0]]  -> c
   unchanged code: children[(int)p[0]] with plain (signed) char -> c - 256 for c >= 128 *)
Definition byte_index (c : Z) : Z := c.
Definition byte_index_unrepaired (c : Z) : Z := schar c.
Definition index_in_range (i : Z) : bool := (0 <=? i) && (i <? 256).

(* the while loops of find *)
Fixpoint walk (t : trie) (key : list Z) : option trie :=
  match key with
  | [] => Some t
  | c :: rest =>
      match cget (byte_index c) (t_children t) with
      | None => None
      | Some ch => walk ch rest
      end
  end.

(* muggle_trie_find: the empty key lives in root.children['\0'] *)
Definition trie_find_node (root : trie) (key : list Z) : option trie :=
  match key with
  | [] => cget 0 (t_children root)
  | _ => walk root key
  end.

(* what a caller reads: node->data when the node exists *)
Definition trie_lookup (root : trie) (key : list Z) : option Z :=
  match trie_find_node root key with Some n => t_data n | None => None end.

(* the while loop of insert: create missing children, set data at the end *)
Fixpoint ins_walk (t : trie) (key : list Z) (v : Z) : trie :=
  match key with
  | [] => TNode (Some v) (t_children t)
  | c :: rest =>
      let ch := match cget (byte_index c) (t_children t) with Some ch => ch | None => trie_empty end in
      TNode (t_data t) (cset (byte_index c) (ins_walk ch rest v) (t_children t))
  end.

(* muggle_trie_insert (overwrites the data of an existing key) *)
Definition trie_insert (root : trie) (key : list Z) (v : Z) : trie :=
  match key with
  | [] =>
      let ch := match cget 0 (t_children root) with Some ch => ch | None => trie_empty end in
      TNode (t_data root) (cset 0 (TNode (Some v) (t_children ch)) (t_children root))
  | _ => ins_walk root key v
  end.

Fixpoint clear_walk (t : trie) (key : list Z) : trie :=
  match key with
  | [] => TNode None (t_children t)
  | c :: rest =>
      match cget (byte_index c) (t_children t) with
      | None => t
      | Some ch => TNode (t_data t) (cset (byte_index c) (clear_walk ch rest) (t_children t))
      end
  end.

(* muggle_trie_remove: lazy, clears node->data; true iff the node exists *)
Definition trie_remove (root : trie) (key : list Z) : trie * bool :=
  match trie_find_node root key with
  | None => (root, false)
  | Some _ =>
      (match key with
       | [] =>
           match cget 0 (t_children root) with
           | Some ch => TNode (t_data root) (cset 0 (TNode None (t_children ch)) (t_children root))
           | None => root
           end
       | _ => clear_walk root key
       end, true)
  end.

(* ====================================================================== *)
(* operation histories                                                     *)

Inductive op (K : Type) := Ins (k : K) (v : Z) | Find (k : K) | Rem (k : K).
Arguments Ins {K}. Arguments Find {K}. Arguments Rem {K}.
Inductive res := RIns (ok : bool) | RFind (r : option Z) | RRem (ok : bool).

Definition avl_step (t : tree) (o : op Z) : tree * res :=
  match o with
  | Ins k v => let (t', ok) := avl_insert k v t in (t', RIns ok)
  | Find k => (t, RFind (avl_find k t))
  | Rem k => let (t', ok) := avl_remove k t in (t', RRem ok)
  end.

Definition ht_step (hash : Z -> Z) (t : ht) (o : op Z) : ht * res :=
  match o with
  | Ins k v => let (t', ok) := ht_put hash t k v in (t', RIns ok)
  | Find k => (t, RFind (ht_find hash t k))
  | Rem k => let (t', ok) := ht_remove hash t k in (t', RRem ok)
  end.

Definition trie_step (t : trie) (o : op (list Z)) : trie * res :=
  match o with
  | Ins k v => (trie_insert t k v, RIns true)
  | Find k => (t, RFind (trie_lookup t k))
  | Rem k => let (t', ok) := trie_remove t k in (t', RRem ok)
  end.

Fixpoint run {S K} (step : S -> op K -> S * res) (s : S) (ops : list (op K)) : S * list res :=
  match ops with
  | [] => (s, [])
  | o :: r => let (s1, x) := step s o in let (s2, xs) := run step s1 r in (s2, x :: xs)
  end.

(* ====================================================================== *)
(* Named decision functions: the integer content of the case analyses of the
   C code (balance-factor updates of the rotations, the retracing decisions,
   the comparison dispatch, bucket index / init rules, the trie's child
   index).  gen/Params_C09.v re-derives the same functions from the C text on
   every run; C09/ProofsGen.v proves (a) that the re-derived ones equal these
   and (b) that the model functions above and the pointer programs of
   ModelHeap.v factor through these.  Definitions only. *)

(* muggle_avl_tree_rotate_left / _right: (x->balance, z->balance, depth decreased) from z->balance *)
Definition rot_left_bal (zb : Z) : Z * Z * bool := if zb =? 0 then (1, -1, false) else (0, 0, true).
Definition rot_right_bal (zb : Z) : Z * Z * bool := if zb =? 0 then (-1, 1, false) else (0, 0, true).
(* muggle_avl_tree_rotate_right_left / _left_right: (x->balance, z->balance) from y->balance; y->balance = 0 *)
Definition rot_right_left_bal (yb : Z) : Z * Z := if 0 <? yb then (-1, 0) else if yb =? 0 then (0, 0) else (0, 1).
Definition rot_left_right_bal (yb : Z) : Z * Z := if 0 <? yb then (0, -1) else if yb =? 0 then (0, 0) else (1, 0).
(* muggle_avl_tree_rebalance: 0 nothing, 1 rotate_right, 2 rotate_left_right, 3 rotate_left, 4 rotate_right_left *)
Definition rebalance_case (b lb rb : Z) : Z :=
  if b <? -1 then (if lb <=? 0 then 1 else 2) else if 1 <? b then (if 0 <=? rb then 3 else 4) else 0.

(* the balance fields of a node X, its children L, R and the inner grandchildren LR, RL *)
Definition bal5 := (Z * Z * Z * Z * Z)%type.

(* rebalance with the rotation it selects: (case, balances afterwards, depth decreased) *)
Definition rebalance_dec (b lb rb lrb rlb : Z) : Z * bal5 * bool :=
  let c := rebalance_case b lb rb in
  if c =? 1 then let '(x, z, d) := rot_right_bal lb in (1, (x, z, rb, lrb, rlb), d)
  else if c =? 2 then let '(x, z) := rot_left_right_bal lrb in (2, (x, z, rb, 0, rlb), true)
  else if c =? 3 then let '(x, z, d) := rot_left_bal rb in (3, (x, lb, z, lrb, rlb), d)
  else if c =? 4 then let '(x, z) := rot_right_left_bal rlb in (4, (x, lb, z, lrb, 0), true)
  else (0, (b, lb, rb, lrb, rlb), false).

(* retracing after insert: new balance of the node whose side_left / right subtree grew;
   0 = stop, 1 = the subtree grew: continue at the parent, 2 = rebalance and stop *)
Definition retrace_ins_bal (b : Z) (side_left : bool) : Z := if side_left then b - 1 else b + 1.
Definition retrace_ins_act (b' : Z) : Z := if b' =? 0 then 0 else if (b' =? 1) || (b' =? -1) then 1 else 2.
(* retracing after remove: 0 = stop, 1 = the subtree shrank: continue, 2 = rebalance, continue iff depth decreased *)
Definition retrace_rem_bal (b : Z) (side_left : bool) : Z := if side_left then b + 1 else b - 1.
Definition retrace_rem_act (b' : Z) : Z := if (b' =? 1) || (b' =? -1) then 0 else if b' =? 0 then 1 else 2.

(* one iteration of the retracing loops: (balances, rotation case, continue at the parent, on its left side);
   hp = node->parent != NULL, il = node->parent->left == node *)
Definition ins_step_dec (b : Z) (side_left : bool) (lb rb lrb rlb : Z) (hp il : bool) : bal5 * Z * bool * bool :=
  let b' := retrace_ins_bal b side_left in
  let a := retrace_ins_act b' in
  if a =? 0 then ((b', lb, rb, lrb, rlb), 0, false, false)
  else if a =? 1 then ((b', lb, rb, lrb, rlb), 0, hp, hp && il)
  else let '(c, bs, _) := rebalance_dec b' lb rb lrb rlb in (bs, c, false, false).

Definition rem_step_dec (b : Z) (side_left : bool) (lb rb lrb rlb : Z) (hp il : bool) : bal5 * Z * bool * bool :=
  let b' := retrace_rem_bal b side_left in
  let a := retrace_rem_act b' in
  if a =? 0 then ((b', lb, rb, lrb, rlb), 0, false, false)
  else if a =? 1 then ((b', lb, rb, lrb, rlb), 0, hp, hp && il)
  else let '(c, bs, d) := rebalance_dec b' lb rb lrb rlb in (bs, c, d && hp, d && hp && il).

(* the comparator of the drivers as the int the C code sees, and the dispatch on it:
   0 = equal (found / duplicate), 1 = go left, 2 = go right *)
Definition cmpz (x k : Z) : Z := if x <? k then -1 else if k <? x then 1 else 0.
Definition cmp_dispatch (c : Z) : Z := if c =? 0 then 0 else if c <? 0 then 1 else 2.
(* one step of the descent of insert: 0 duplicate (return NULL), 1 / 2 descend left / right,
   3 / 4 link the new node as left / right child and start retracing with that side *)
Definition ins_descend_dec (c : Z) (has_left has_right : bool) : Z :=
  let d := cmp_dispatch c in
  if d =? 0 then 0 else if d =? 1 then (if has_left then 1 else 3) else (if has_right then 2 else 4).
(* entering the removal at a node: 0 = it has a child: swap data with the predecessor (else successor) and go on,
   1 = a leaf without parent: the tree becomes empty, 2 = a leaf: unlink it (from the left iff il) and retrace *)
Definition rem_enter_dec (has_left has_right hp : bool) : Z :=
  if has_left || has_right then 0 else if hp then 2 else 1.

(* hash table: bucket index; rules of init (result, table size stored, node pool created) *)
Definition ht_index (hash_val table_size : Z) : Z := hash_val mod table_size.
Definition ht_table_size (table_size : Z) : Z := if table_size <? 8 then 10007 else table_size.
Definition ds_cap_valid (capacity : Z) : bool := capacity <? 2147483648.
Definition ht_init_dec (table_size capacity : Z) (has_cmp : bool) : bool * Z * bool :=
  if negb has_cmp then (false, 0, false)
  else if (0 <? capacity) && negb (ds_cap_valid capacity) then (false, 0, false)
  else (true, ht_table_size table_size, 0 <? capacity).
(* one step along a chain (hn = node != NULL, c = cmp(node->key, key)):
   find: 0 = not found, 1 = found, 2 = next;  put: 0 = duplicate (return NULL), 1 = link a new node at the head, 2 = next *)
Definition ht_find_step_dec (hn : bool) (c : Z) : Z := if hn then (if c =? 0 then 1 else 2) else 0.
Definition ht_put_step_dec (hn : bool) (c : Z) : Z := if hn then (if c =? 0 then 0 else 2) else 1.

(* trie: a key byte ub (0 = the terminating NUL) is seen by the code as a plain char [schar ub];
   one step of the walk of find: 0 = end of key (the current node is the answer), 1 = go to child, 2 = no child (NULL);
   of insert: 0 = end of key, 1 = go to child (creating it when absent) *)
Definition trie_children_size : Z := 256.
Definition trie_find_step_dec (ub : Z) (has_child : bool) : Z * Z :=
  if ub =? 0 then (0, 0) else if has_child then (1, byte_index ub) else (2, byte_index ub).
Definition trie_insert_step_dec (ub : Z) (has_child : bool) : Z * Z * bool * Z :=
  if ub =? 0 then (0, 0, false, 0)
  else if has_child then (1, byte_index ub, false, 0) else (1, byte_index ub, true, byte_index ub).
(* the empty key: handled before the walk, in children[0] of the root *)
Definition trie_find_entry_dec (ub : Z) : Z * Z := if ub =? 0 then (1, 0) else (0, 0).
Definition trie_insert_entry_dec (ub : Z) (has_child : bool) : Z * Z * bool * Z :=
  if ub =? 0 then (1, 0, negb has_child, 0) else (0, 0, false, 0).

(* ====================================================================== *)
(* Free callbacks.  Every removal takes a callback for the key and one for the value (the trie: one
   for the data); NULL means the data is borrowed and stays the caller's.  An operation with the
   caller's choice of callbacks, and what a step reports in addition to its result: whether the key /
   value block of the removed association went through its callback.  The structure itself must not
   depend on the choice (theorems *_refines_map_cb, ProofsCb.v). *)
Inductive opf (K : Type) := OpF (o : op K) (fk fv : bool).
Arguments OpF {K}.
Definition erase_f {K} (f : opf K) : op K := match f with OpF o _ _ => o end.
Definition own := (bool * bool)%type.
Definition is_some {A} (p : option A) : bool := match p with Some _ => true | None => false end.
Definition released {K} (o : op K) (fk fv present : bool) : own :=
  match o with Rem _ => (present && fk, present && fv) | _ => (false, false) end.

Definition avl_present (t : tree) (o : op Z) : bool := match o with Rem k => is_some (avl_find k t) | _ => false end.
Definition avl_step_cb (t : tree) (f : opf Z) : tree * (res * own) :=
  match f with OpF o fk fv => let (t', r) := avl_step t o in (t', (r, released o fk fv (avl_present t o))) end.

Definition ht_present (hash : Z -> Z) (t : ht) (o : op Z) : bool :=
  match o with Rem k => is_some (ht_find hash t k) | _ => false end.
Definition ht_step_cb (hash : Z -> Z) (t : ht) (f : opf Z) : ht * (res * own) :=
  match f with OpF o fk fv => let (t', r) := ht_step hash t o in (t', (r, released o fk fv (ht_present hash t o))) end.

(* the trie has one callback (for the data): passed as fv *)
Definition trie_present (t : trie) (o : op (list Z)) : bool :=
  match o with Rem k => is_some (trie_lookup t k) | _ => false end.
Definition trie_step_cb (t : trie) (f : opf (list Z)) : trie * (res * own) :=
  match f with OpF o _ fv => let (t', r) := trie_step t o in (t', (r, released o false fv (trie_present t o))) end.

Fixpoint runf {S K X} (step : S -> opf K -> S * X) (s : S) (ops : list (opf K)) : S * list X :=
  match ops with
  | [] => (s, [])
  | o :: r => let (s1, x) := step s o in let (s2, xs) := runf step s1 r in (s2, x :: xs)
  end.

(* muggle_hash_table_clear: every chain emptied (each node through muggle_hash_table_remove), the table
   stays usable; with the callbacks' counts: one call per stored key / value iff the callback is passed *)
Definition ht_count (t : ht) : Z := Z.of_nat (length (concat (ht_buckets t))).
Definition ht_clear (t : ht) : ht := {| ht_size := ht_size t; ht_buckets := repeat [] (Z.to_nat (ht_size t)) |}.
Definition ht_clear_cb (fk fv : bool) (t : ht) : ht * Z * (Z * Z) :=
  (ht_clear t, ht_count t, (if fk then ht_count t else 0, if fv then ht_count t else 0)).

(* decision functions of the removal paths (second tie).
   muggle_trie_remove: hn = the node exists, f = callback passed:
   (returned bool, node->data set to NULL, callback called with node->data) *)
Definition trie_remove_dec (hn f : bool) : bool * bool * bool := if hn then (true, true, f) else (false, false, false).
(* muggle_hash_table_remove of a node: hk / hv = key / value pointer non-NULL, fk / fv = callbacks passed:
   (key callback called with the key, value callback called with the value, key and value fields set to NULL
    where they were not, node unlinked: prev->next = next and next->prev = prev when there is a next) *)
Definition ht_remove_dec (hk hv fk fv : bool) : bool * bool * bool := (hk && fk, hv && fv, true).
(* muggle_avl_tree_erase_node on the leaf that leaves the tree: the same two callback decisions *)
Definition avl_erase_dec (hk hv fk fv : bool) : bool * bool := (hk && fk, hv && fv).

(* ====================================================================== *)
(* Allocation failure inside insert / put (a constant-size node pool that is exhausted, or malloc
   returning NULL).  An operation carries an oracle: [None] = every allocation succeeds, [Some b] = the
   first b node allocations of this call succeed and the next one fails.
   Tree and table allocate one node per insert: a failed allocation returns NULL and nothing has changed
   (the duplicate test comes first).  The trie allocates one node per missing key byte: when an
   allocation fails in the middle of a key the code returns NULL and LEAVES the nodes it has already
   created in place (they carry no data; muggle_trie_destroy releases them) -- modelled as it is; the
   theorems (ProofsAlloc.v) are about the map view. *)
Inductive opa (K : Type) := OpA (o : op K) (budget : option nat).
Arguments OpA {K}.
Definition alloc_ok (b : option nat) : bool := match b with Some O => false | _ => true end.

Definition avl_insert_o (ok : bool) (x xv : Z) (t : tree) : tree * bool := if ok then avl_insert x xv t else (t, false).
Definition ht_put_o (ok : bool) (hash : Z -> Z) (t : ht) (k v : Z) : ht * bool := if ok then ht_put hash t k v else (t, false).

Definition avl_step_o (t : tree) (a : opa Z) : tree * res :=
  match a with
  | OpA (Ins k v) b => let (t', ok) := avl_insert_o (alloc_ok b) k v t in (t', RIns ok)
  | OpA o _ => avl_step t o
  end.
Definition ht_step_o (hash : Z -> Z) (t : ht) (a : opa Z) : ht * res :=
  match a with
  | OpA (Ins k v) b => let (t', ok) := ht_put_o (alloc_ok b) hash t k v in (t', RIns ok)
  | OpA o _ => ht_step hash t o
  end.

(* the while loop of muggle_trie_insert with b allocations left *)
Fixpoint ins_walk_o (b : nat) (t : trie) (key : list Z) (v : Z) : trie * bool :=
  match key with
  | [] => (TNode (Some v) (t_children t), true)
  | c :: rest =>
      match cget (byte_index c) (t_children t) with
      | Some ch =>
          let (ch', ok) := ins_walk_o b ch rest v in
          (TNode (t_data t) (cset (byte_index c) ch' (t_children t)), ok)
      | None =>
          match b with
          | O => (t, false)                 (* allocate_node returned NULL: return NULL *)
          | S b' =>
              let (ch', ok) := ins_walk_o b' trie_empty rest v in
              (TNode (t_data t) (cset (byte_index c) ch' (t_children t)), ok)
          end
      end
  end.

Definition trie_insert_o (b : nat) (root : trie) (key : list Z) (v : Z) : trie * bool :=
  match key with
  | [] =>
      match cget 0 (t_children root) with
      | Some ch => (TNode (t_data root) (cset 0 (TNode (Some v) (t_children ch)) (t_children root)), true)
      | None =>
          match b with
          | O => (root, false)
          | S _ => (TNode (t_data root) (cset 0 (TNode (Some v) []) (t_children root)), true)
          end
      end
  | _ => ins_walk_o b root key v
  end.

(* an insert of a key of n bytes allocates at most max n 1 nodes *)
Definition budget_of (b : option nat) (key : list Z) : nat := match b with Some n => n | None => S (length key) end.

Definition trie_step_o (t : trie) (a : opa (list Z)) : trie * res :=
  match a with
  | OpA (Ins k v) b => let (t', ok) := trie_insert_o (budget_of b k) t k v in (t', RIns ok)
  | OpA o _ => trie_step t o
  end.

Fixpoint rung {S O X} (step : S -> O -> S * X) (s : S) (ops : list O) : S * list X :=
  match ops with
  | [] => (s, [])
  | o :: r => let (s1, x) := step s o in let (s2, xs) := rung step s1 r in (s2, x :: xs)
  end.

(* nodes drawn from the node pool (what a constant-size pool runs out of) *)
Fixpoint avl_size (t : tree) : nat := match t with Leaf => O | Node l _ _ _ r => S (avl_size l + avl_size r) end.
Fixpoint trie_nodes (t : trie) : nat :=
  match t with
  | TNode _ ch => (fix go (l : list (Z * trie)) : nat :=
                     match l with [] => O | (_, c) :: r => S (trie_nodes c + go r) end) ch
  end.
