(* C09 — free callbacks (NULL = borrowed data) and muggle_hash_table_clear.
   For EVERY choice of callbacks at every removal, each structure answers every history like the
   reference map, reports "released through the callback" exactly when the key was present and the
   callback was passed, and its state is the one the callback-free model reaches: the structure does not
   depend on the callbacks.  A table that has been cleared behaves like a fresh one. *)
From MV Require Import C09.Model C09.Spec C09.ProofsAvl C09.ProofsHt C09.ProofsTrie.
Local Open Scope Z_scope.

(* the reference: the map step, plus released = the key was bound /\ the callback was passed *)
Definition map_cb {K} (base : @fmap K -> op K -> @fmap K * res) (m : @fmap K) (f : opf K) : @fmap K * (res * own) :=
  match f with
  | OpF o fk fv =>
      let (m', r) := base m o in
      (m', (r, released o fk fv (match o with Rem k => is_some (m k) | _ => false end)))
  end.

Lemma runf_sim_P {S1 S2 K X} (P : opf K -> Prop) (R : S1 -> S2 -> Prop)
      (step1 : S1 -> opf K -> S1 * X) (step2 : S2 -> opf K -> S2 * X) :
  (forall s1 s2 o, P o -> R s1 s2 ->
      R (fst (step1 s1 o)) (fst (step2 s2 o)) /\ snd (step1 s1 o) = snd (step2 s2 o)) ->
  forall ops s1 s2, Forall P ops -> R s1 s2 ->
    R (fst (runf step1 s1 ops)) (fst (runf step2 s2 ops)) /\
    snd (runf step1 s1 ops) = snd (runf step2 s2 ops).
Proof.
  intros Hstep ops. induction ops as [|o ops IH]; intros s1 s2 HP HR; simpl.
  - split; [exact HR | reflexivity].
  - inversion HP as [|? ? Po Pops]; subst.
    destruct (Hstep s1 s2 o Po HR) as [HR' Hout].
    destruct (step1 s1 o) as [s1' x1]. destruct (step2 s2 o) as [s2' x2]. simpl in *.
    destruct (IH s1' s2' Pops HR') as [HR'' Houts].
    destruct (runf step1 s1' ops) as [s1'' xs1]. destruct (runf step2 s2' ops) as [s2'' xs2]. simpl in *.
    split; [exact HR'' | congruence].
Qed.

(* the state reached does not depend on the callbacks *)
Lemma runf_state {S K X} (stepf : S -> opf K -> S * X) (step : S -> op K -> S * res) :
  (forall s f, fst (stepf s f) = fst (step s (erase_f f))) ->
  forall ops s, fst (runf stepf s ops) = fst (run step s (map erase_f ops)).
Proof.
  intros H ops. induction ops as [|f ops IH]; intros s; simpl; [reflexivity|].
  specialize (H s f). destruct (stepf s f) as [s1 x]. destruct (step s (erase_f f)) as [s1' r]. simpl in H. subst s1'.
  specialize (IH s1). destruct (runf stepf s1 ops). destruct (run step s1 (map erase_f ops)). simpl in *. exact IH.
Qed.

Lemma Forall_True {A} (l : list A) : Forall (fun _ => True) l.
Proof. induction l; constructor; auto. Qed.

(* ---------------------------------------------------------------------- *)
(* AVL tree *)
Lemma avl_step_cb_agree t m f : avl_agree t m ->
  avl_agree (fst (avl_step_cb t f)) (fst (map_cb (map_step_reject Z.eq_dec) m f)) /\
  snd (avl_step_cb t f) = snd (map_cb (map_step_reject Z.eq_dec) m f).
Proof.
  intros Ha. destruct f as [o fk fv]. unfold avl_step_cb, map_cb.
  pose proof (avl_step_agree t m o Ha) as [H1 H2].
  assert (Hp : avl_present t o = match o with Rem k => is_some (m k) | _ => false end).
  { destruct o; cbn [avl_present]; try reflexivity. destruct Ha as [_ Hf]. rewrite Hf. reflexivity. }
  destruct (avl_step t o) as [t' r]. destruct (map_step_reject Z.eq_dec m o) as [m' r'].
  cbn [fst snd] in *. subst r'. rewrite Hp. split; [exact H1|reflexivity].
Qed.

Lemma avl_refines_cb ops :
  snd (runf avl_step_cb Leaf ops) = snd (runf (map_cb (map_step_reject Z.eq_dec)) empty_map ops) /\
  fst (runf avl_step_cb Leaf ops) = fst (run avl_step Leaf (map erase_f ops)) /\
  avl_inv (fst (runf avl_step_cb Leaf ops)).
Proof.
  assert (H0 : avl_agree Leaf (@empty_map Z)).
  { split; [split; exact I|]. intros y. reflexivity. }
  pose proof (runf_sim_P (fun _ => True) avl_agree avl_step_cb (map_cb (map_step_reject Z.eq_dec))
                (fun s1 s2 o _ => avl_step_cb_agree s1 s2 o) ops _ _ (Forall_True ops) H0) as ((Hinv & _) & Ho).
  split; [exact Ho|]. split; [|exact Hinv].
  apply runf_state. intros s [o fk fv]. unfold avl_step_cb. cbn [erase_f]. destruct (avl_step s o). reflexivity.
Qed.

(* one removal, any callbacks: exactly that association goes, released iff present and callback passed *)
Lemma avl_remove_cb_exact fk fv k t : avl_inv t ->
  let '(t', (r, (rk, rv))) := avl_step_cb t (OpF (Rem k) fk fv) in
  t' = fst (avl_remove k t) /\ r = RRem (is_some (avl_find k t)) /\
  rk = (is_some (avl_find k t) && fk) /\ rv = (is_some (avl_find k t) && fv) /\
  forall y, avl_find y t' = if y =? k then None else avl_find y t.
Proof.
  intros Hinv. unfold avl_step_cb. cbn [avl_step released avl_present].
  pose proof (avl_remove_find k t Hinv) as (Hr & Hy).
  destruct (avl_remove k t) as [t' ok]. cbn [fst snd] in *. subst ok.
  repeat split; try assumption; try (destruct (avl_find k t); reflexivity).
Qed.

(* ---------------------------------------------------------------------- *)
(* hash table *)
Lemma ht_step_cb_agree hash t m f : ht_agree hash t m ->
  ht_agree hash (fst (ht_step_cb hash t f)) (fst (map_cb (map_step_reject Z.eq_dec) m f)) /\
  snd (ht_step_cb hash t f) = snd (map_cb (map_step_reject Z.eq_dec) m f).
Proof.
  intros Ha. destruct f as [o fk fv]. unfold ht_step_cb, map_cb.
  pose proof (ht_step_agree hash t m o Ha) as [H1 H2].
  assert (Hp : ht_present hash t o = match o with Rem k => is_some (m k) | _ => false end).
  { destruct o; cbn [ht_present]; try reflexivity. destruct Ha as [_ Hf]. rewrite Hf. reflexivity. }
  destruct (ht_step hash t o) as [t' r]. destruct (map_step_reject Z.eq_dec m o) as [m' r'].
  cbn [fst snd] in *. subst r'. rewrite Hp. split; [exact H1|reflexivity].
Qed.

Lemma ht_refines_cb_from hash t m ops : ht_agree hash t m ->
  snd (runf (ht_step_cb hash) t ops) = snd (runf (map_cb (map_step_reject Z.eq_dec)) m ops) /\
  fst (runf (ht_step_cb hash) t ops) = fst (run (ht_step hash) t (map erase_f ops)) /\
  ht_agree hash (fst (runf (ht_step_cb hash) t ops)) (fst (runf (map_cb (map_step_reject Z.eq_dec)) m ops)).
Proof.
  intros H0.
  pose proof (runf_sim_P (fun _ => True) (ht_agree hash) (ht_step_cb hash) (map_cb (map_step_reject Z.eq_dec))
                (fun s1 s2 o _ => ht_step_cb_agree hash s1 s2 o) ops _ _ (Forall_True ops) H0) as (Ha & Ho).
  split; [exact Ho|]. split; [|exact Ha].
  apply runf_state. intros s [o fk fv]. unfold ht_step_cb. cbn [erase_f]. destruct (ht_step hash s o). reflexivity.
Qed.

Lemma ht_refines_cb hash ts ops :
  snd (runf (ht_step_cb hash) (ht_init ts) ops) = snd (runf (map_cb (map_step_reject Z.eq_dec)) empty_map ops) /\
  fst (runf (ht_step_cb hash) (ht_init ts) ops) = fst (run (ht_step hash) (ht_init ts) (map erase_f ops)).
Proof.
  assert (H0 : ht_agree hash (ht_init ts) (@empty_map Z)).
  { split; [apply ht_init_wf|]. intros y. apply ht_init_empty. }
  destruct (ht_refines_cb_from hash _ _ ops H0) as (A & B & _). split; assumption.
Qed.

(* clear: the table is well formed and empty again, whatever it held; hence (ht_refines_cb_from) every later
   history is answered like a map that starts empty; the callbacks are called once per stored entry *)
Lemma repeat_nil_nth n i : nth i (repeat (@nil (Z * Z)) n) [] = [].
Proof. revert i. induction n; intros [|i]; simpl; auto. Qed.

Lemma ht_clear_agree hash t : ht_wf t -> ht_agree hash (ht_clear t) (@empty_map Z).
Proof.
  intros (Hs & Hl & _). unfold ht_clear. split.
  - split; [exact Hs|]. cbn [ht_size ht_buckets]. split; [apply repeat_length|].
    apply Forall_forall. intros b Hb. apply repeat_spec in Hb. subst. constructor.
  - intros y. unfold ht_find. cbn [ht_buckets]. rewrite repeat_nil_nth. reflexivity.
Qed.

Lemma ht_clear_reuse hash ts ops1 fk fv ops2 :
  let t1 := fst (runf (ht_step_cb hash) (ht_init ts) ops1) in
  let '(t2, n, (nk, nv)) := ht_clear_cb fk fv t1 in
  n = ht_count t1 /\ nk = (if fk then n else 0) /\ nv = (if fv then n else 0) /\
  (forall y, ht_find hash t2 y = None) /\
  snd (runf (ht_step_cb hash) t2 ops2) = snd (runf (map_cb (map_step_reject Z.eq_dec)) empty_map ops2).
Proof.
  cbv zeta. unfold ht_clear_cb.
  assert (H0 : ht_agree hash (ht_init ts) (@empty_map Z)).
  { split; [apply ht_init_wf|]. intros y. apply ht_init_empty. }
  destruct (ht_refines_cb_from hash _ _ ops1 H0) as (_ & _ & (Hwf & _)).
  pose proof (ht_clear_agree hash _ Hwf) as Hc.
  repeat split; try reflexivity.
  - intros y. destruct Hc as [_ Hf]. apply Hf.
  - destruct (ht_refines_cb_from hash _ _ ops2 Hc) as (A & _). exact A.
Qed.

(* ---------------------------------------------------------------------- *)
(* trie (one callback, for the data; passed as fv) *)
Definition valid_opf (f : opf (list Z)) : Prop := valid_op (erase_f f).
Definition obs_cb (x : res * own) : res * own := (obs (fst x), snd x).
Definition trie_step_cb_obs (t : trie) (f : opf (list Z)) : trie * (res * own) :=
  let (t', x) := trie_step_cb t f in (t', obs_cb x).
Definition map_cb_trie (m : @fmap (list Z)) (f : opf (list Z)) : @fmap (list Z) * (res * own) :=
  match f with OpF o _ fv => map_cb map_step_trie m (OpF o false fv) end.

Lemma trie_step_cb_agree t m f : valid_opf f -> trie_agree t m ->
  trie_agree (fst (trie_step_cb_obs t f)) (fst (map_cb_trie m f)) /\
  snd (trie_step_cb_obs t f) = snd (map_cb_trie m f).
Proof.
  intros Hv Ha. destruct f as [o fk fv]. unfold valid_opf in Hv. cbn [erase_f] in Hv.
  unfold trie_step_cb_obs, trie_step_cb, map_cb_trie, map_cb, obs_cb.
  pose proof (trie_step_agree t m o Hv Ha) as [H1 H2]. unfold trie_step_obs in H1, H2.
  assert (Hp : trie_present t o = match o with Rem k => is_some (m k) | _ => false end).
  { destruct o; cbn [trie_present]; try reflexivity. unfold valid_op in Hv. cbn [op_key] in Hv. rewrite (Ha k Hv). reflexivity. }
  destruct (trie_step t o) as [t' r]. destruct (map_step_trie m o) as [m' r'].
  cbn [fst snd] in *. subst r'. rewrite Hp. split; [exact H1|reflexivity].
Qed.

Lemma runf_obs ops : forall t,
  runf trie_step_cb_obs t ops = (fst (runf trie_step_cb t ops), map obs_cb (snd (runf trie_step_cb t ops))).
Proof.
  induction ops as [|o ops IH]; intros t; cbn [runf]; [reflexivity|].
  unfold trie_step_cb_obs at 1. destruct (trie_step_cb t o) as [t1 r]. rewrite IH.
  destruct (runf trie_step_cb t1 ops) as [t2 rs]. reflexivity.
Qed.

Lemma trie_refines_cb ops : Forall valid_opf ops ->
  map obs_cb (snd (runf trie_step_cb trie_empty ops)) = snd (runf map_cb_trie empty_map ops) /\
  fst (runf trie_step_cb trie_empty ops) = fst (run trie_step trie_empty (map erase_f ops)).
Proof.
  intros Hv.
  assert (H0 : trie_agree trie_empty (@empty_map (list Z))).
  { intros key _. destruct key; reflexivity. }
  pose proof (runf_sim_P valid_opf trie_agree trie_step_cb_obs map_cb_trie trie_step_cb_agree ops _ _ Hv H0) as (_ & Ho).
  rewrite runf_obs in Ho. cbn [snd] in Ho. split; [exact Ho|].
  apply runf_state. intros s [o fk fv]. unfold trie_step_cb. cbn [erase_f]. destruct (trie_step s o). reflexivity.
Qed.

(* ---------------------------------------------------------------------- *)
(* non-vacuity: NULL for the key callback, NULL for both, a removal of an absent key *)
Example avl_cb_example :
  snd (runf avl_step_cb Leaf
         [OpF (Ins 1 11) true true; OpF (Ins 2 12) true true; OpF (Ins 3 13) true true;
          OpF (Rem 2) false true; OpF (Rem 2) true true; OpF (Rem 3) false false; OpF (Find 1) true true]) =
  [(RIns true, (false, false)); (RIns true, (false, false)); (RIns true, (false, false));
   (RRem true, (false, true)); (RRem false, (false, false)); (RRem true, (false, false)); (RFind (Some 11), (false, false))].
Proof. vm_compute. reflexivity. Qed.

Example ht_clear_example :
  let t1 := fst (runf (ht_step_cb hash_zero) (ht_init 8) [OpF (Ins 1 11) true true; OpF (Ins 2 12) true true]) in
  snd (ht_clear_cb true false t1) = (2, 0) /\
  snd (runf (ht_step_cb hash_zero) (fst (fst (ht_clear_cb true false t1))) [OpF (Find 1) true true; OpF (Ins 1 5) true true]) =
  [(RFind None, (false, false)); (RIns true, (false, false))].
Proof. vm_compute. split; reflexivity. Qed.

Example trie_cb_example :
  snd (runf trie_step_cb trie_empty
         [OpF (Ins [97; 200] 1) true true; OpF (Ins [97] 2) true true; OpF (Rem [97]) true false;
          OpF (Find [97]) true true; OpF (Rem [97; 200]) true true; OpF (Rem [97]) true true]) =
  [(RIns true, (false, false)); (RIns true, (false, false)); (RRem true, (false, false));
   (RFind None, (false, false)); (RRem true, (false, true)); (RRem true, (false, false))].
Proof. vm_compute. reflexivity. Qed.
