(* C09 — proofs: see ProofsAvl.v (tree), ProofsHt.v (hash table), ProofsTrie.v (trie),
   Spec.v (reference map and simulation lemma). *)
From MV Require Export C09.Model C09.Spec C09.ProofsAvl C09.ProofsHt C09.ProofsTrie.
