(* C09 — proofs (placeholder while the pipeline is brought up) *)
From MV Require Import C09.Model.
Local Open Scope Z_scope.

Lemma trie_signed_index_oob_l : forall c, 128 <= c <= 255 -> index_in_range (byte_index_unrepaired c) = false.
Proof. intros c H. unfold index_in_range, byte_index_unrepaired, schar. destruct (128 <=? c) eqn:E; lia. Qed.
