(* C09 — proofs: see ProofsAvl.v (tree), ProofsHt.v (hash table), ProofsTrie.v (trie),
   Spec.v (reference map and simulation lemma); heap-level (pointer) models of
   ModelHeap.v: ProofsHeapAvl.v (representation, the four rotations, rebalance),
   ProofsHeapIns.v (insertion), ProofsHeapRem.v (removal: unlink + retracing),
   ProofsHeapSwap.v (removal: the data-swap loop, arbitrary nodes, every history),
   ProofsHeapHt.v (hash chains). *)
From MV Require Export C09.Model C09.ModelHeap C09.Spec C09.ProofsAvl C09.ProofsHt C09.ProofsTrie
  C09.ProofsHeapAvl C09.ProofsHeapIns C09.ProofsHeapRem C09.ProofsHeapSwap C09.ProofsHeapHt.
