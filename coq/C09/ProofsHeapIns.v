(* C09 — heap-level AVL tree: insertion (descent, retracing) refines the functional model. *)
From MV Require Import C09.Model C09.ModelHeap C09.Spec C09.ProofsAvl C09.ProofsHeapAvl.
From Coq Require Import Arith.
Local Open Scope Z_scope.

Lemma reroot_plug ctx x t u m :
  nodup (x :: cids ctx) -> pptr t = Some x -> pptr u = Some m ->
  reroot (pptr (plug ctx t)) x (Some m) = pptr (plug ctx u).
Proof.
  intros ND Ht Hu. destruct ctx as [|f c].
  - cbn [plug]. rewrite Ht, Hu. unfold reroot, ptr_is. rewrite Nat.eqb_refl. reflexivity.
  - destruct (pptr_plug_in (f :: c) t ltac:(discriminate)) as (r & Er & Hin).
    rewrite (pptr_plug (f :: c) u t) by discriminate. rewrite Er. unfold reroot, ptr_is.
    destruct (Nat.eqb_spec r x) as [->|]; [exfalso; cnt x|reflexivity].
Qed.

Definition pbal (t : ptree) : Z := match t with PLeaf => 0 | PNode _ _ _ _ b _ => b end.

Lemma pbal_fill f b t : pbal (fill (fset_b f b) t) = b.
Proof. destruct f; reflexivity. Qed.

Lemma hrebalance_ok' h root sub x par :
  pptr sub = Some x -> wf_at h sub par -> nodup (ids sub) -> (forall p, par = Some p -> ~ In p (ids sub)) ->
  rot_ready sub -> (pbal sub < -1 \/ 1 < pbal sub) ->
  exists h' m, pptr (fst (prebalance sub)) = Some m /\
     hrebalance h root x = Some (h', reroot root x (Some m), snd (prebalance sub)) /\
     wf_at h' (fst (prebalance sub)) par /\ (forall w, ~ In w (ids sub) -> h' w = relink h par x (Some m) w).
Proof.
  intros Hp. destruct sub as [|y l k v b r]; [discriminate|]. cbn [pptr] in Hp. inversion Hp; subst y.
  cbn [pbal]. apply hrebalance_ok.
Qed.

Lemma fbal_set_b f b : fbal (fset_b f b) = b.
Proof. destruct f; reflexivity. Qed.

Lemma plug_cons f c t : plug (f :: c) t = plug c (fill f t).
Proof. reflexivity. Qed.

Lemma hretrace_ins_ok : forall ctx f t h root fuel hold,
  wf_at h (plug (f :: ctx) t) None -> nodup (ids (plug (f :: ctx) t)) -> root = pptr (plug (f :: ctx) t) ->
  (length ctx < fuel)%nat ->
  bal (erase t) -> height (erase t) = hold + 1 -> ctx_ok (f :: ctx) hold ->
  exists h', hretrace_ins fuel h root (fid f) (fside f) = Some (h', pptr (punwind_ins (f :: ctx) t true)) /\
     wf_at h' (punwind_ins (f :: ctx) t true) None.
Proof.
  induction ctx as [|f2 c2 IH]; intros f t h root fuel hold W ND Hroot Hfuel Bt Ht Hctx.
  all: destruct fuel as [|fuel]; [cbn in Hfuel; lia|].
  all: apply wf_plug in W; destruct W as (Wt & Wc); cbn [cpar] in Wt.
  all: apply nodup_plug in ND.
  all: pose proof (retrace_set_b f _ t h (grown_bal f) Wt Wc ND) as (S1 & S2 & S3 & S4 & S5 & S6 & S7 & S8).
  all: pose proof (grown_facts f _ t hold Bt Ht Hctx) as (G1 & G2 & G3 & G4 & G5).
  all: cbn [hretrace_ins]; rewrite S1; fold (grown_bal f); cbn [punwind_ins]; rewrite pgrow_fill; cbv zeta.
  all: set (b' := grown_bal f) in *; set (h1 := set_b h (fid f) b') in *; set (n := fill (fset_b f b') t) in *.
  all: assert (Hn : pptr n = Some (fid f)) by (unfold n; rewrite pptr_fill, fid_set_b; reflexivity).
  all: match type of S4 with wf_ctx _ ?c _ =>
         assert (Hrt : root = pptr (plug c n))
           by (subst root; first [cbn [plug]; rewrite Hn; apply pptr_fill | rewrite plug_cons; apply pptr_plug; discriminate]);
         assert (Wn : wf_at h1 (plug c n) None) by (apply wf_plug; rewrite Hn; split; assumption)
       end.
  all: destruct (Z.eqb_spec b' 0) as [E0|E0]; cbv beta iota;
         [eexists; split; [rewrite Hrt, ?punwind_ins_false; reflexivity|rewrite ?punwind_ins_false; exact Wn]|].
  all: destruct ((b' =? 1) || (b' =? -1)) eqn:E1; cbv beta iota.
  all: try (
    (* rebalance at this node, then stop *)
    assert (Hb2 : b' < -1 \/ 1 < b') by (apply orb_false_iff in E1; destruct E1 as (A & B);
                                          apply Z.eqb_neq in A; apply Z.eqb_neq in B; lia);
    destruct (hrebalance_ok' h1 root n (fid f) _ Hn S3 S6 S8 (G5 Hb2)) as (h2 & m & Em & Er & W2 & O2);
      [unfold n; rewrite pbal_fill; exact Hb2|];
    rewrite Er; cbn [fst];
    eexists; split;
    [rewrite ?punwind_ins_false; f_equal; f_equal; rewrite Hrt;
     match type of S4 with wf_ctx _ ?c _ => apply (reroot_plug c (fid f) n (fst (prebalance n)) m) end;
     [exact S7|exact Hn|exact Em]
    |rewrite ?punwind_ins_false;
     match type of S4 with wf_ctx _ ?c _ => apply (proj2 (wf_plug h2 c (fst (prebalance n)))) end;
     split; [exact W2|];
     rewrite Em; eapply wf_ctx_relink; [exact S4|exact S7|];
     intros y Hy; apply O2; intros Hin;
     apply in_count in Hin; apply in_count in Hy;
     specialize (S5 y); rewrite count_occ_app in S5; lia]).
  - (* balance +-1 at the root: the loop ends *)
    rewrite S2. cbn [cpar]. eexists. split; [rewrite Hrt; reflexivity|exact Wn].
  - (* balance +-1 below the root: continue with the parent *)
    rewrite S2. cbn [cpar].
    assert (Hb1 : b' = 1 \/ b' = -1) by (apply orb_true_iff in E1; destruct E1 as [A|A]; apply Z.eqb_eq in A; auto).
    assert (Hside : ptr_is (hl (h1 (fid f2))) (fid f) = fside f2).
    { cbn [wf_ctx] in S4. destruct S4 as (Hp & _ & _). rewrite Hp.
      destruct f2 as [p k2 v2 b2 r2|p l2 k2 v2 b2]; cbn [fside fsib hl ptr_is fid] in *.
      - apply Nat.eqb_refl.
      - apply pptr_notin. cbn [cids fid fsib] in S7. cnt (fid f). }
    rewrite Hside.
    destruct (IH f2 n h1 root fuel (node_hold f hold)) as (h' & Eh & Wh).
    + exact Wn.
    + apply nodup_plug. exact S5.
    + exact Hrt.
    + cbn [length] in Hfuel. lia.
    + apply G3. lia.
    + apply G4. exact Hb1.
    + exact G1.
    + eexists. split; [exact Eh|exact Wh].
Qed.

(* ---------- the functional model along a search path ---------- *)

Definition path_for (x : Z) (ctx : list frame) : Prop :=
  Forall (fun f => if fside f then x < fkey f else fkey f < x) ctx.

Lemma ins_plug x xv ctx : forall sub sub' g i,
  path_for x ctx -> ins x xv (erase sub) = (erase sub', g, i) ->
  exists g', ins x xv (erase (plug ctx sub)) = (erase (punwind_ins ctx sub' g), g', i).
Proof.
  induction ctx as [|f c IH]; intros sub sub' g i Hp H.
  - exists g. exact H.
  - inversion Hp as [|? ? Hf Hc]; subst. cbn [plug punwind_ins].
    assert (Hstep : ins x xv (erase (fill f sub)) =
                    (if g then (erase (fst (pgrow (fside f) (fill f sub'))), snd (pgrow (fside f) (fill f sub')), i)
                     else (erase (fill f sub'), false, i))).
    { destruct (erase_pgrow (fside f) (fill f sub')) as (E1 & E2).
      destruct f as [y k v b r|y l k v b]; cbn [fill erase fside fkey ins] in *.
      - destruct (Z.ltb_spec x k); [|lia]. rewrite H.
        destruct g; [|reflexivity]. rewrite E1, E2.
        destruct (grow true (Node (erase sub') k v b (erase r))); reflexivity.
      - destruct (Z.ltb_spec x k); [lia|]. destruct (Z.ltb_spec k x); [|lia]. rewrite H.
        destruct g; [|reflexivity]. rewrite E1, E2.
        destruct (grow false (Node (erase l) k v b (erase sub'))); reflexivity. }
    destruct g.
    + destruct (pgrow (fside f) (fill f sub')) as [t' g'] eqn:Eg. cbn [fst snd] in Hstep.
      exact (IH _ _ _ _ Hc Hstep).
    + destruct (IH _ _ _ _ Hc Hstep) as (g' & E). exists g'. rewrite E, punwind_ins_false. reflexivity.
Qed.

(* ids are only permuted by the unwinding *)
Lemma count_pgrow s t a : count_occ Nat.eq_dec (ids (fst (pgrow s t))) a = count_occ Nat.eq_dec (ids t) a.
Proof.
  destruct t as [|x l k v b r]; [reflexivity|]. cbn [pgrow].
  destruct ((if s then b - 1 else b + 1) =? 0); [reflexivity|].
  destruct (((if s then b - 1 else b + 1) =? 1) || ((if s then b - 1 else b + 1) =? -1)); [reflexivity|].
  cbn [fst]. rewrite count_prebalance. reflexivity.
Qed.

Lemma count_punwind_ins ctx a : forall t g,
  count_occ Nat.eq_dec (ids (punwind_ins ctx t g)) a = count_occ Nat.eq_dec (ids (plug ctx t)) a.
Proof.
  induction ctx as [|f c IH]; intros t g; [reflexivity|]. cbn [punwind_ins]. destruct g; [|reflexivity].
  destruct (pgrow (fside f) (fill f t)) as [t' g'] eqn:E. rewrite IH. cbn [plug].
  rewrite !count_plug. f_equal. change t' with (fst (t', g')). rewrite <- E. apply count_pgrow.
Qed.

(* ---------- insertion: the descent ---------- *)

Definition set_child (side_left : bool) (h : heap) (x : nat) (p : ptr) : heap :=
  if side_left then set_l h x p else set_r h x p.

Lemma hdescend_ok x next : forall sub ctx fuel h n,
  pptr sub = Some n -> wf_at h (plug ctx sub) None -> (length (ids sub) <= fuel)%nat -> path_for x ctx ->
  match hdescend fuel h next n x with
  | None => False
  | Some None =>
      exists ctx' m l v b r, plug ctx' (PNode m l x v b r) = plug ctx sub /\ path_for x ctx'
  | Some (Some (h', node, side)) =>
      exists f ctx', plug (f :: ctx') PLeaf = plug ctx sub /\ path_for x (f :: ctx') /\
        fid f = node /\ fside f = side /\ h' = set_child side (hupd h next zero_node) node (Some next)
  end.
Proof.
  induction sub as [|y l IHl k v b r IHr]; intros ctx fuel h n Hn W Hfuel Hp; [discriminate|].
  cbn [pptr] in Hn. inversion Hn; subst y. clear Hn.
  pose proof (proj1 (wf_plug h ctx _) W) as (Wn & _). cbn [wf_at] in Wn. destruct Wn as (Hx & _ & _).
  destruct fuel as [|fuel]; [cbn [ids length] in Hfuel; lia|].
  cbn [ids length] in Hfuel. rewrite app_length in Hfuel.
  cbn [hdescend]. rewrite Hx. cbn [hk hl hr].
  destruct (Z.ltb_spec x k) as [Hlt|Hge].
  - destruct l as [|c ll lk lv lb lr]; cbn [pptr].
    + exists (FL n k v b r), ctx. repeat split; auto. constructor; auto.
    + apply (IHl (FL n k v b r :: ctx) fuel h c eq_refl W); [lia|]. constructor; auto.
  - destruct (Z.ltb_spec k x) as [Hgt|Hle].
    + destruct r as [|c rl rk rv rb rr]; cbn [pptr].
      * exists (FR n l k v b), ctx. repeat split; auto. constructor; auto.
      * apply (IHr (FR n l k v b :: ctx) fuel h c eq_refl W); [lia|]. constructor; auto.
    + assert (k = x) by lia. subst k. exists ctx, n, l, v, b, r. auto.
Qed.

Lemma wf_ctx_set_child h h' f c old new :
  wf_ctx h (f :: c) old ->
  h' (fid f) = (if fside f then with_l new (h (fid f)) else with_r new (h (fid f))) ->
  (forall y, In y (ids (fsib f) ++ cids c) -> h' y = h y) ->
  wf_ctx h' (f :: c) new.
Proof.
  intros W Hf Ho. cbn [wf_ctx] in *. destruct W as (Hx & Ws & Wc). split; [|split].
  - rewrite Hf, Hx. destruct (fside f); reflexivity.
  - eapply wf_at_frame; [|exact Ws]. intros y Hy. apply Ho. apply in_or_app. auto.
  - eapply wf_ctx_frame; [|exact Wc]. intros y Hy. apply Ho. apply in_or_app. auto.
Qed.

Lemma length_cids ctx : (length ctx <= length (cids ctx))%nat.
Proof. induction ctx as [|f c IH]; cbn [cids length]; [lia|]. rewrite app_length. cbn [length]. lia. Qed.

Lemma length_ids_plug ctx : forall t, length (ids (plug ctx t)) = (length (ids t) + length (cids ctx))%nat.
Proof.
  induction ctx as [|f c IH]; intros t; cbn [plug cids]; [cbn; lia|].
  rewrite IH. destruct f; cbn [fill ids fid fsib length]; rewrite !app_length; cbn [length]; lia.
Qed.

Lemma nodup_bound_length l n : nodup l -> (forall a, In a l -> (a < n)%nat) -> (length l <= n)%nat.
Proof.
  intros ND Hb. apply nodup_NoDup in ND.
  rewrite <- (seq_length n 0). apply NoDup_incl_length; [exact ND|].
  intros a Ha. apply in_seq. specialize (Hb a Ha). lia.
Qed.

(* ---------- the heap represents a tree; insertion ---------- *)

Definition heap_rep (s : hst) (pt : ptree) : Prop :=
  wf_at (hheap s) pt None /\ nodup (ids pt) /\ hroot s = pptr pt /\ (forall a, In a (ids pt) -> (a < hnext s)%nat).

Theorem havl_insert_ok s pt x xv :
  heap_rep s pt -> bal (erase pt) ->
  exists s' pt', havl_insert s x xv = Some (s', snd (avl_insert x xv (erase pt))) /\
    heap_rep s' pt' /\ erase pt' = fst (avl_insert x xv (erase pt)).
Proof.
  intros (W & ND & Hroot & Hbound) Hbal. unfold havl_insert. rewrite Hroot.
  destruct pt as [|r0 l0 k0 v0 b0 r1] eqn:Ept.
  - (* empty tree *)
    cbn [pptr]. set (new := hnext s).
    exists (mkst (hupd (hheap s) new (mkn None None None 0 x xv)) (Some new) (S new)), (PNode new PLeaf x xv 0 PLeaf).
    split; [reflexivity|]. split; [|reflexivity].
    repeat split; cbn [hheap hroot hnext wf_at pptr ids app]; auto.
    + apply hupd_same.
    + intro a. cbn [count_occ]. destruct (Nat.eq_dec new a); lia.
    + intros a [<-|[]]. lia.
  - rewrite <- Ept in *. assert (Hr : pptr pt = Some r0) by (subst pt; reflexivity). rewrite Hr.
    pose proof (hdescend_ok x (hnext s) pt [] (hnext s) (hheap s) r0 Hr W
                  (nodup_bound_length _ _ ND Hbound) (Forall_nil _)) as D.
    destruct (hdescend (hnext s) (hheap s) (hnext s) r0 x) as [[[[h1 node] side]|]|]; [| |contradiction].
    + (* a new leaf below [node] *)
      destruct D as (f & ctx & Epl & Hpath & Hfid & Hside & Eh1). cbn [plug] in Epl.
      set (new := hnext s) in *. set (leaf := PNode new PLeaf x xv 0 PLeaf).
      set (h2 := hmod h1 new (fun n => mkn (hl n) (hr n) (Some node) 0 x xv)).
      assert (Hnew : forall a, In a (ids pt) -> a <> new) by (intros a Ha; specialize (Hbound a Ha); unfold new; lia).
      assert (Hnode_in : In node (ids pt)).
      { rewrite <- Epl, <- Hfid. apply in_count. rewrite count_plug. rewrite count_fill. cbn [count_occ].
        destruct (Nat.eq_dec (fid f) (fid f)); [lia|congruence]. }
      assert (Hnn : node <> new) by (apply Hnew; exact Hnode_in).
      pose proof W as W0. rewrite <- Epl in W0. change (plug ctx (fill f PLeaf)) with (plug (f :: ctx) PLeaf) in W0.
      apply wf_plug in W0. destruct W0 as (_ & Wc).
      pose proof ND as ND0. rewrite <- Epl in ND0. change (plug ctx (fill f PLeaf)) with (plug (f :: ctx) PLeaf) in ND0.
      apply nodup_plug in ND0. cbn [ids app] in ND0.
      assert (Hin_c : forall y, In y (cids (f :: ctx)) -> In y (ids pt)).
      { intros y Hy. rewrite <- Epl. change (plug ctx (fill f PLeaf)) with (plug (f :: ctx) PLeaf).
        apply in_count. rewrite count_plug. apply in_count in Hy. lia. }
      assert (Hh1 : forall y, y <> node -> y <> new -> h1 y = hheap s y).
      { intros y Hy1 Hy2. rewrite Eh1. unfold set_child. destruct side; unfold set_l, set_r;
          rewrite hmod_other by exact Hy1; apply hupd_other; exact Hy2. }
      assert (Hh1n : h1 node = (if side then with_l (Some new) else with_r (Some new)) (hheap s node)).
      { rewrite Eh1. unfold set_child. destruct side; unfold set_l, set_r; rewrite hmod_same;
          rewrite hupd_other by exact Hnn; reflexivity. }
      assert (Hh1new : h1 new = zero_node).
      { rewrite Eh1. unfold set_child. destruct side; unfold set_l, set_r;
          rewrite hmod_other by congruence; apply hupd_same. }
      assert (W2 : wf_at h2 (plug (f :: ctx) leaf) None).
      { apply wf_plug. split.
        - cbn [cpar leaf wf_at pptr]. split; [|auto]. unfold h2. rewrite hmod_same, Hh1new, Hfid. reflexivity.
        - eapply wf_ctx_set_child; [exact Wc| |].
          + rewrite Hfid, Hside. unfold h2. rewrite hmod_other by exact Hnn. rewrite Hh1n. destruct side; reflexivity.
          + intros y Hy.
            assert (Hy1 : In y (ids pt)) by (apply Hin_c; cbn [cids]; cbn [app In]; right; exact Hy).
            assert (y <> new) by (apply Hnew; exact Hy1).
            assert (y <> node).
            { rewrite <- Hfid. intros ->. cbn [cids] in ND0. cnt (fid f). }
            unfold h2. rewrite hmod_other by assumption. apply Hh1; assumption. }
      assert (ND2 : nodup (ids (plug (f :: ctx) leaf))).
      { apply nodup_plug. intro a. specialize (ND0 a). unfold leaf. cbn [ids app count_occ].
        destruct (Nat.eq_dec new a) as [<-|]; [|exact ND0].
        assert (~ In new (cids (f :: ctx))) by (intros Hin; apply (Hnew new); [apply Hin_c; exact Hin|reflexivity]).
        apply notin_count in H. lia. }
      assert (Hroot2 : hroot s = pptr (plug (f :: ctx) leaf)).
      { rewrite Hroot, <- Epl. change (plug ctx (fill f PLeaf)) with (plug (f :: ctx) PLeaf).
        apply pptr_plug. discriminate. }
      assert (Hcok : ctx_ok (f :: ctx) 0).
      { rewrite <- Epl in Hbal. change (plug ctx (fill f PLeaf)) with (plug (f :: ctx) PLeaf) in Hbal.
        apply bal_plug in Hbal. exact (proj2 Hbal). }
      assert (Hlen : (length ctx < S (hnext s))%nat).
      { pose proof (nodup_bound_length _ _ ND Hbound) as L. rewrite <- Epl in L.
        change (plug ctx (fill f PLeaf)) with (plug (f :: ctx) PLeaf) in L. rewrite length_ids_plug in L.
        pose proof (length_cids (f :: ctx)). cbn [length] in *. lia. }
      destruct (hretrace_ins_ok ctx f leaf h2 (hroot s) (S (hnext s)) 0 W2 ND2 Hroot2 Hlen) as (h3 & E3 & W3).
      { cbn. repeat split; lia. } { reflexivity. } { exact Hcok. }
      rewrite Hfid, Hside in E3. rewrite Hroot, Hr in E3. change (hnext s) with new in E3. rewrite E3.
      destruct (ins_plug x xv (f :: ctx) PLeaf leaf true true Hpath eq_refl) as (g' & Eins).
      change (plug (f :: ctx) PLeaf) with (plug ctx (fill f PLeaf)) in Eins. rewrite Epl in Eins.
      exists (mkst h3 (pptr (punwind_ins (f :: ctx) leaf true)) (S new)), (punwind_ins (f :: ctx) leaf true).
      unfold avl_insert. rewrite Eins. cbn [fst snd].
      split; [reflexivity|]. split; [|reflexivity].
      split; [exact W3|]. split; [|split; [reflexivity|]].
      * intro a. rewrite count_punwind_ins. apply ND2.
      * intros a Ha. apply in_count in Ha. rewrite count_punwind_ins in Ha. rewrite count_plug in Ha.
        unfold leaf in Ha. cbn [ids app count_occ hnext] in *.
        destruct (Nat.eq_dec new a) as [<-|]; [lia|].
        assert (In a (ids pt)) by (apply Hin_c; apply in_count; lia).
        specialize (Hbound a H). lia.
    + (* the key is already there: nothing changes *)
      destruct D as (ctx & m & l & v & b & r & Epl & Hpath). cbn [plug] in Epl.
      assert (Hins : ins x xv (erase (PNode m l x v b r)) = (erase (PNode m l x v b r), false, false)).
      { cbn [erase ins]. rewrite Z.ltb_irrefl. reflexivity. }
      destruct (ins_plug x xv ctx _ _ _ _ Hpath Hins) as (g' & E). rewrite punwind_ins_false, Epl in E.
      exists s, pt. unfold avl_insert. rewrite E. cbn [fst snd].
      split; [reflexivity|]. split; [|reflexivity]. repeat split; assumption.
Qed.

(* ---------- find ---------- *)

Lemma hfind_ok x h : forall pt par fuel,
  wf_at h pt par -> (length (ids pt) <= fuel)%nat ->
  exists p, hfind_loop fuel h (pptr pt) x = Some p /\
    match p with
    | Some n => avl_find x (erase pt) = Some (hv (h n)) /\ In n (ids pt)
    | None => avl_find x (erase pt) = None
    end.
Proof.
  induction pt as [|n l IHl k v b r IHr]; intros par fuel W Hf.
  - exists None. split; [destruct fuel; reflexivity|reflexivity].
  - cbn [wf_at] in W. destruct W as (Hn & Wl & Wr). cbn [ids length] in Hf. rewrite app_length in Hf.
    destruct fuel as [|fuel]; [lia|]. cbn [pptr hfind_loop erase avl_find]. rewrite Hn. cbn [hk hl hr hv].
    destruct (x <? k).
    + destruct (IHl (Some n) fuel Wl ltac:(lia)) as (p & E & H). exists p. split; [exact E|].
      destruct p; [destruct H; split; [assumption|cbn [ids In]; right; apply in_or_app; auto]|exact H].
    + destruct (k <? x).
      * destruct (IHr (Some n) fuel Wr ltac:(lia)) as (p & E & H). exists p. split; [exact E|].
        destruct p; [destruct H; split; [assumption|cbn [ids In]; right; apply in_or_app; auto]|exact H].
      * exists (Some n). split; [reflexivity|]. rewrite Hn. cbn [hv ids In]. auto.
Qed.

Lemma havl_find_ok s pt x : heap_rep s pt ->
  exists p, havl_find s x = Some p /\
    match p with
    | Some n => avl_find x (erase pt) = Some (hv (hheap s n)) /\ In n (ids pt)
    | None => avl_find x (erase pt) = None
    end.
Proof.
  intros (W & ND & Hroot & Hb). unfold havl_find. rewrite Hroot.
  apply (hfind_ok x (hheap s) pt None (hnext s) W). apply nodup_bound_length; assumption.
Qed.

(* ---------- parent links, read off the representation ---------- *)

Theorem heap_rep_links s pt : heap_rep s pt ->
  match hroot s with Some r => hp (hheap s r) = None /\ In r (ids pt) | None => pt = PLeaf end /\
  forall x, In x (ids pt) ->
    (forall c, hl (hheap s x) = Some c -> In c (ids pt) /\ hp (hheap s c) = Some x) /\
    (forall c, hr (hheap s x) = Some c -> In c (ids pt) /\ hp (hheap s c) = Some x).
Proof.
  intros (W & ND & Hroot & Hb). split.
  - rewrite Hroot. destruct pt as [|r l k v b rr]; [reflexivity|]. cbn [pptr wf_at ids In] in *.
    destruct W as (Hr & _). rewrite Hr. auto.
  - apply (wf_at_links _ _ _ W).
Qed.

(* ---------- histories without removals ---------- *)

Definition no_rem {K} (o : op K) : Prop := match o with Rem _ => False | _ => True end.

Lemma havl_history_partial : forall ops s pt,
  heap_rep s pt -> avl_inv (erase pt) -> Forall no_rem ops ->
  exists s' pt', hrun havl_step s ops = Some (s', snd (run avl_step (erase pt) ops)) /\
    heap_rep s' pt' /\ erase pt' = fst (run avl_step (erase pt) ops).
Proof.
  induction ops as [|o ops IH]; intros s pt R Hinv Hno.
  - exists s, pt. cbn. auto.
  - inversion Hno as [|? ? Ho Hops]; subst. cbn [hrun run].
    destruct o as [k v|k|k]; [| |destruct Ho]; cbn [havl_step avl_step].
    + destruct (havl_insert_ok s pt k v R (proj2 Hinv)) as (s1 & pt1 & E1 & R1 & Er1).
      rewrite E1. pose proof (avl_insert_inv k v (erase pt) Hinv) as Hinv1.
      destruct (avl_insert k v (erase pt)) as [t1 ok] eqn:Ei. cbn [fst snd] in *.
      rewrite <- Er1 in Hinv1. destruct (IH s1 pt1 R1 Hinv1 Hops) as (s2 & pt2 & E2 & R2 & Er2).
      rewrite E2. rewrite Er1 in *. destruct (run avl_step t1 ops) as [t2 xs]. cbn [fst snd] in *.
      exists s2, pt2. auto.
    + destruct (havl_find_ok s pt k R) as (p & Ep & Hp). rewrite Ep.
      destruct (IH s pt R Hinv Hops) as (s2 & pt2 & E2 & R2 & Er2).
      destruct p as [n|].
      * destruct Hp as (Hf & _). rewrite E2, Hf. destruct (run avl_step (erase pt) ops) as [t2 xs]. cbn [fst snd] in *.
        exists s2, pt2. auto.
      * rewrite E2, Hp. destruct (run avl_step (erase pt) ops) as [t2 xs]. cbn [fst snd] in *.
        exists s2, pt2. auto.
Qed.

Lemma havl_init_rep : heap_rep havl_init PLeaf.
Proof.
  unfold heap_rep. split; [exact I|]. split; [intro a; cbn; lia|]. split; [reflexivity|intros a []].
Qed.

(* non-vacuity: the heap program run on a history with all four rotation kinds;
   the tree read back from the heap equals the functional model's tree and every
   parent link is consistent; removals (not yet covered by a theorem) included *)
Example havl_example :
  let ops := [Ins 10 1; Ins 30 2; Ins 20 3; Ins 40 4; Ins 25 5; Ins 22 6; Ins 22 7; Ins 5 8; Ins 1 9; Ins 7 10; Ins 6 11;
              Rem 10; Rem 40; Find 22; Rem 25; Rem 1] in
  match hrun havl_step havl_init ops with
  | Some (s, rs) =>
      rs = snd (run avl_step Leaf ops) /\
      habs (hnext s) (hheap s) (hroot s) = Some (fst (run avl_step Leaf ops)) /\
      hparents_ok (hnext s) (hheap s) (hroot s) None = true
  | None => False
  end.
Proof. vm_compute. repeat split. Qed.
