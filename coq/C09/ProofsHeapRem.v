(* C09 — heap-level AVL tree: removal, part 1.  Unlinking a leaf and the whole
   retracing loop of muggle_avl_tree_remove (balance updates, rotations that
   continue upward, navigation through the parent links) keep the heap a
   faithful representation with consistent parent links, and the result is the
   functional model's.  The key/value swap loop that first moves the data of an
   interior node down to a leaf, and with it the removal of an arbitrary node and
   every history, is in ProofsHeapSwap.v. *)
From MV Require Import C09.Model C09.ModelHeap C09.Spec C09.ProofsAvl C09.ProofsHeapAvl C09.ProofsHeapIns.
From Coq Require Import Arith.
Local Open Scope Z_scope.

Definition pshrink (side_left : bool) (t : ptree) : ptree * bool :=
  match t with
  | PNode x l k v b r =>
      let b' := if side_left then b + 1 else b - 1 in
      let n := PNode x l k v b' r in
      if (b' =? 1) || (b' =? -1) then (n, false)
      else if b' =? 0 then (n, true)
      else prebalance n
  | PLeaf => (PLeaf, false)
  end.

Lemma erase_pshrink s t : erase (fst (pshrink s t)) = fst (shrink s (erase t)) /\ snd (pshrink s t) = snd (shrink s (erase t)).
Proof.
  destruct t as [|x l k v b r]; [split; reflexivity|]. cbn [pshrink shrink erase].
  destruct (((if s then b + 1 else b - 1) =? 1) || ((if s then b + 1 else b - 1) =? -1)); [split; reflexivity|].
  destruct ((if s then b + 1 else b - 1) =? 0); [split; reflexivity|].
  apply (erase_prebalance (PNode x l k v (if s then b + 1 else b - 1) r)).
Qed.

Fixpoint punwind_rem (ctx : list frame) (t : ptree) (dec : bool) : ptree :=
  match ctx with
  | [] => t
  | f :: c =>
      if dec then let (t', d') := pshrink (fside f) (fill f t) in punwind_rem c t' d'
      else plug ctx t
  end.

Lemma punwind_rem_false ctx t : punwind_rem ctx t false = plug ctx t.
Proof. destruct ctx; reflexivity. Qed.

Definition shrunk_bal (f : frame) : Z := if fside f then fbal f + 1 else fbal f - 1.

Lemma pshrink_fill f t :
  pshrink (fside f) (fill f t) =
  let n := fill (fset_b f (shrunk_bal f)) t in
  if (shrunk_bal f =? 1) || (shrunk_bal f =? -1) then (n, false)
  else if shrunk_bal f =? 0 then (n, true)
  else prebalance n.
Proof. destruct f; reflexivity. Qed.

(* balance bookkeeping after the subtree in the hole lost one level *)
Lemma shrunk_facts f ctx t hold :
  bal (erase t) -> height (erase t) = hold - 1 -> ctx_ok (f :: ctx) hold ->
  let b' := shrunk_bal f in let n := fill (fset_b f b') t in
  ctx_ok ctx (node_hold f hold) /\ -2 <= b' <= 2 /\
  (-1 <= b' <= 1 -> bal (erase n)) /\
  (b' = 0 -> height (erase n) = node_hold f hold - 1) /\
  (b' < -1 \/ 1 < b' -> rot_ready n /\
     bal (fst (rebalance (erase n))) /\
     height (fst (rebalance (erase n))) = node_hold f hold - (if snd (rebalance (erase n)) then 1 else 0)).
Proof.
  intros Bt Ht Hc b' n. subst b' n. unfold shrunk_bal.
  destruct f as [x k v b r|x l k v b]; cbn [ctx_ok fside fbal fset_b fill erase bal height node_hold] in *;
    destruct Hc as (Bs & Hb & Hbr & Hc).
  - split; [exact Hc|]. split; [lia|]. split; [intros; repeat split; auto; lia|]. split; [intros; lia|].
    intros H2. split; [apply rot_ready_bal; auto; lia|].
    destruct (rebalance_ok (erase t) k v (b + 1) (erase r) Bt Bs ltac:(lia) ltac:(lia)) as (B & Hh & _).
    split; [exact B|]. rewrite Hh. cbn [height]. lia.
  - split; [exact Hc|]. split; [lia|]. split; [intros; repeat split; auto; lia|]. split; [intros; lia|].
    intros H2. split; [apply rot_ready_bal; auto; lia|].
    destruct (rebalance_ok (erase l) k v (b - 1) (erase t) Bs Bt ltac:(lia) ltac:(lia)) as (B & Hh & _).
    split; [exact B|]. rewrite Hh. cbn [height]. lia.
Qed.

Lemma count_pshrink s t a : count_occ Nat.eq_dec (ids (fst (pshrink s t))) a = count_occ Nat.eq_dec (ids t) a.
Proof.
  destruct t as [|x l k v b r]; [reflexivity|]. cbn [pshrink].
  destruct (((if s then b + 1 else b - 1) =? 1) || ((if s then b + 1 else b - 1) =? -1)); [reflexivity|].
  destruct ((if s then b + 1 else b - 1) =? 0); [reflexivity|]. rewrite count_prebalance. reflexivity.
Qed.

Lemma count_punwind_rem ctx a : forall t d,
  count_occ Nat.eq_dec (ids (punwind_rem ctx t d)) a = count_occ Nat.eq_dec (ids (plug ctx t)) a.
Proof.
  induction ctx as [|f c IH]; intros t d; [reflexivity|]. cbn [punwind_rem]. destruct d; [|reflexivity].
  destruct (pshrink (fside f) (fill f t)) as [t' d'] eqn:E. rewrite IH. cbn [plug].
  rewrite !count_plug. f_equal. change t' with (fst (t', d')). rewrite <- E. apply count_pshrink.
Qed.

Lemma hretrace_rem_none fuel h root s : hretrace_rem fuel h root None s = Some (h, root).
Proof. destruct fuel; reflexivity. Qed.

(* the retracing loop of remove, started at the node on top of the path whose
   subtree in the hole has lost one level *)
Lemma hretrace_rem_ok : forall ctx f t h root fuel hold,
  wf_at h (plug (f :: ctx) t) None -> nodup (ids (plug (f :: ctx) t)) -> root = pptr (plug (f :: ctx) t) ->
  (length ctx < fuel)%nat ->
  bal (erase t) -> height (erase t) = hold - 1 -> ctx_ok (f :: ctx) hold ->
  exists h', hretrace_rem fuel h root (Some (fid f)) (fside f) = Some (h', pptr (punwind_rem (f :: ctx) t true)) /\
     wf_at h' (punwind_rem (f :: ctx) t true) None.
Proof.
  induction ctx as [|f2 c2 IH]; intros f t h root fuel hold W ND Hroot Hfuel Bt Ht Hctx.
  all: destruct fuel as [|fuel]; [cbn in Hfuel; lia|].
  all: apply wf_plug in W; destruct W as (Wt & Wc); cbn [cpar] in Wt.
  all: apply nodup_plug in ND.
  all: pose proof (retrace_set_b f _ t h (shrunk_bal f) Wt Wc ND) as (S1 & S2 & S3 & S4 & S5 & S6 & S7 & S8).
  all: pose proof (shrunk_facts f _ t hold Bt Ht Hctx) as (G1 & G2 & G3 & G4 & G5).
  all: cbn [hretrace_rem]; rewrite S1; fold (shrunk_bal f); cbn [punwind_rem]; rewrite pshrink_fill; cbv zeta.
  all: set (b' := shrunk_bal f) in *; set (h1 := set_b h (fid f) b') in *; set (n := fill (fset_b f b') t) in *.
  all: assert (Hn : pptr n = Some (fid f)) by (unfold n; rewrite pptr_fill, fid_set_b; reflexivity).
  all: match type of S4 with wf_ctx _ ?c _ =>
         assert (Hrt : root = pptr (plug c n))
           by (subst root; first [cbn [plug]; rewrite Hn; apply pptr_fill | rewrite plug_cons; apply pptr_plug; discriminate]);
         assert (Wn : wf_at h1 (plug c n) None) by (apply wf_plug; rewrite Hn; split; assumption)
       end.
  all: destruct ((b' =? 1) || (b' =? -1)) eqn:E1; cbv beta iota;
         [eexists; split; [rewrite Hrt, ?punwind_rem_false; reflexivity|rewrite ?punwind_rem_false; exact Wn]|].
  all: apply orb_false_iff in E1; destruct E1 as (E1a & E1b); apply Z.eqb_neq in E1a; apply Z.eqb_neq in E1b.
  all: destruct (Z.eqb_spec b' 0) as [E0|E0]; cbv beta iota.
  - (* balance 0 at the root: the loop ends *)
    rewrite S2. cbn [cpar]. eexists. split; [rewrite Hrt; reflexivity|exact Wn].
  - (* rebalance at the root *)
    assert (Hb2 : b' < -1 \/ 1 < b') by lia. destruct (G5 Hb2) as (Rr & Rb & Rh).
    destruct (hrebalance_ok' h1 root n (fid f) _ Hn S3 S6 S8 Rr) as (h2 & m & Em & Er & W2 & O2);
      [unfold n; rewrite pbal_fill; exact Hb2|].
    rewrite S2. cbn [cpar]. rewrite Er.
    assert (Hroot2 : reroot root (fid f) (Some m) = pptr (fst (prebalance n))).
    { rewrite Hrt. apply (reroot_plug [] (fid f) n (fst (prebalance n)) m); [exact S7|exact Hn|exact Em]. }
    destruct (prebalance n) as [n' d] eqn:Ep. cbn [fst snd] in *.
    destruct d; rewrite ?hretrace_rem_none; cbn [punwind_rem]; (eexists; split; [rewrite Hroot2; reflexivity|exact W2]).
  - (* balance 0 below the root: continue with the parent *)
    rewrite S2. cbn [cpar].
    assert (Hside : ptr_is (hl (h1 (fid f2))) (fid f) = fside f2).
    { cbn [wf_ctx] in S4. destruct S4 as (Hp & _ & _). rewrite Hp.
      destruct f2 as [p k2 v2 b2 r2|p l2 k2 v2 b2]; cbn [fside fsib hl ptr_is fid] in *.
      - apply Nat.eqb_refl.
      - apply pptr_notin. cbn [cids fid fsib] in S7. cnt (fid f). }
    rewrite Hside.
    destruct (IH f2 n h1 root fuel (node_hold f hold)) as (h' & Eh & Wh).
    + exact Wn.
    + apply nodup_plug. exact S5.
    + exact Hrt.
    + cbn [length] in Hfuel. lia.
    + apply G3. lia.
    + apply G4. exact E0.
    + exact G1.
    + eexists. split; [exact Eh|exact Wh].
  - (* rebalance below the root; continue with the parent if the depth decreased *)
    assert (Hb2 : b' < -1 \/ 1 < b') by lia. destruct (G5 Hb2) as (Rr & Rb & Rh).
    destruct (hrebalance_ok' h1 root n (fid f) _ Hn S3 S6 S8 Rr) as (h2 & m & Em & Er & W2 & O2);
      [unfold n; rewrite pbal_fill; exact Hb2|].
    rewrite S2. cbn [cpar].
    assert (Hside : ptr_is (hl (h1 (fid f2))) (fid f) = fside f2).
    { cbn [wf_ctx] in S4. destruct S4 as (Hp & _ & _). rewrite Hp.
      destruct f2 as [p k2 v2 b2 r2|p l2 k2 v2 b2]; cbn [fside fsib hl ptr_is fid] in *.
      - apply Nat.eqb_refl.
      - apply pptr_notin. cbn [cids fid fsib] in S7. cnt (fid f). }
    rewrite Hside, Er.
    assert (Hroot2 : reroot root (fid f) (Some m) = pptr (plug (f2 :: c2) (fst (prebalance n)))).
    { rewrite Hrt. apply (reroot_plug (f2 :: c2) (fid f) n (fst (prebalance n)) m); [exact S7|exact Hn|exact Em]. }
    assert (Wp : wf_at h2 (plug (f2 :: c2) (fst (prebalance n))) None).
    { apply wf_plug. split; [exact W2|]. rewrite Em. eapply wf_ctx_relink; [exact S4|exact S7|].
      intros y Hy. apply O2. intros Hin. apply in_count in Hin. apply in_count in Hy.
      specialize (S5 y). rewrite count_occ_app in S5. lia. }
    destruct (erase_prebalance n) as (Ee1 & Ee2).
    destruct (prebalance n) as [n' d] eqn:Ep. cbn [fst snd] in *.
    destruct d.
    + destruct (IH f2 n' h2 (reroot root (fid f) (Some m)) fuel (node_hold f hold)) as (h' & Eh & Wh).
      * exact Wp.
      * apply nodup_plug. intro a. specialize (S5 a). rewrite count_occ_app in *.
        change n' with (fst (n', true)). rewrite <- Ep, count_prebalance. exact S5.
      * exact Hroot2.
      * cbn [length] in Hfuel. lia.
      * rewrite Ee1. exact Rb.
      * rewrite Ee1, Rh, <- Ee2. reflexivity.
      * exact G1.
      * eexists. split; [exact Eh|exact Wh].
    + eexists. split; [rewrite Hroot2, ?punwind_rem_false; reflexivity|rewrite ?punwind_rem_false; exact Wp].
Qed.

(* the functional model along a search path *)
Lemma rem_plug x ctx : forall sub sub' d kv,
  path_for x ctx -> rem (ByKey x) (erase sub) = (erase sub', d, kv) ->
  exists d' kv', rem (ByKey x) (erase (plug ctx sub)) = (erase (punwind_rem ctx sub' d), d', kv').
Proof.
  induction ctx as [|f c IH]; intros sub sub' d kv Hp H.
  - exists d, kv. exact H.
  - inversion Hp as [|? ? Hf Hc]; subst. cbn [plug punwind_rem].
    assert (Hstep : rem (ByKey x) (erase (fill f sub)) =
                    (if d then (erase (fst (pshrink (fside f) (fill f sub'))), snd (pshrink (fside f) (fill f sub')), None)
                     else (erase (fill f sub'), false, None))).
    { destruct (erase_pshrink (fside f) (fill f sub')) as (E1 & E2).
      destruct f as [y k v b r|y l k v b]; cbn [fill erase fside fkey] in *; rewrite rem_node; cbv zeta.
      - destruct (Z.ltb_spec x k); [|lia]. rewrite H. unfold shrink_if.
        destruct d; [|reflexivity]. rewrite E1, E2.
        destruct (shrink true (Node (erase sub') k v b (erase r))); reflexivity.
      - destruct (Z.ltb_spec x k); [lia|]. destruct (Z.ltb_spec k x); [|lia]. rewrite H. unfold shrink_if.
        destruct d; [|reflexivity]. rewrite E1, E2.
        destruct (shrink false (Node (erase l) k v b (erase sub'))); reflexivity. }
    destruct d.
    + destruct (pshrink (fside f) (fill f sub')) as [t' d'] eqn:Eg. cbn [fst snd] in Hstep.
      exact (IH _ _ _ _ Hc Hstep).
    + destruct (IH _ _ _ _ Hc Hstep) as (d' & kv' & E). exists d', kv'. rewrite E, punwind_rem_false. reflexivity.
Qed.

(* removal of a node that is a leaf: unlink + retracing, fully at heap level *)
Theorem havl_remove_leaf_ok s ctx m k v b :
  let leaf := PNode m PLeaf k v b PLeaf in
  heap_rep s (plug ctx leaf) -> bal (erase (plug ctx leaf)) ->
  exists s', havl_remove s m = Some s' /\ heap_rep s' (punwind_rem ctx PLeaf true) /\
    (path_for k ctx -> erase (punwind_rem ctx PLeaf true) = fst (fst (rem (ByKey k) (erase (plug ctx leaf))))).
Proof.
  intros leaf (W & ND & Hroot & Hbound) Hbal.
  assert (Hfun : path_for k ctx -> erase (punwind_rem ctx PLeaf true) = fst (fst (rem (ByKey k) (erase (plug ctx leaf))))).
  { intros Hp. assert (E : rem (ByKey k) (erase leaf) = (erase PLeaf, true, None)).
    { cbn [leaf erase]. rewrite rem_node. cbv zeta. rewrite Z.ltb_irrefl. reflexivity. }
    destruct (rem_plug k ctx leaf PLeaf true None Hp E) as (d' & kv' & E'). rewrite E'. reflexivity. }
  pose proof W as W0. apply wf_plug in W0. destruct W0 as (Wl & Wc). cbn [leaf wf_at pptr] in Wl, Wc.
  destruct Wl as (Hm & _ & _).
  assert (Hm_in : In m (ids (plug ctx leaf))).
  { apply in_count. rewrite count_plug. cbn [leaf ids app count_occ]. destruct (Nat.eq_dec m m); [lia|congruence]. }
  pose proof (Hbound m Hm_in) as Hmb.
  unfold havl_remove. destruct (hnext s) as [|fuel] eqn:En; [lia|].
  cbn [hswap_down]. rewrite Hm. cbn [hl hr]. rewrite ?Hm. cbn [hp].
  pose proof ND as ND0. apply nodup_plug in ND0. cbn [leaf ids app] in ND0.
  destruct ctx as [|f c].
  - cbn [cpar punwind_rem]. eexists. split; [reflexivity|]. split; [|exact Hfun].
    repeat split; cbn [hheap hroot hnext wf_at ids pptr]; auto. intros a; cbn; lia. intros a [].
  - cbn [cpar].
    assert (Hside : ptr_is (hl (hheap s (fid f))) m = fside f).
    { cbn [wf_ctx] in Wc. destruct Wc as (Hp & _ & _). rewrite Hp.
      destruct f as [p k2 v2 b2 r2|p l2 k2 v2 b2]; cbn [fside fsib hl ptr_is fid] in *.
      - apply Nat.eqb_refl.
      - apply pptr_notin. cbn [cids fid fsib] in ND0. cnt m. }
    rewrite Hside.
    set (h1 := relink (hheap s) (Some (fid f)) m None).
    assert (ND1 : nodup (m :: cids (f :: c))) by exact ND0.
    assert (Wc1 : wf_ctx h1 (f :: c) None).
    { eapply wf_ctx_relink; [exact Wc|exact ND1|]. intros y Hy. reflexivity. }
    assert (W1 : wf_at h1 (plug (f :: c) PLeaf) None) by (apply wf_plug; split; [exact I|exact Wc1]).
    assert (NDp : nodup (ids (plug (f :: c) PLeaf))).
    { apply nodup_plug. cbn [ids app]. intro a. specialize (ND0 a). cbn [count_occ] in ND0. destruct (Nat.eq_dec m a); lia. }
    assert (Hroot1 : hroot s = pptr (plug (f :: c) PLeaf)) by (rewrite Hroot; apply pptr_plug; discriminate).
    assert (Hlen : (length c < S (S fuel))%nat).
    { pose proof (nodup_bound_length _ _ ND Hbound) as L. rewrite length_ids_plug in L.
      pose proof (length_cids (f :: c)). cbn [length] in *. lia. }
    apply bal_plug in Hbal. destruct Hbal as (_ & Hcok). cbn [leaf erase height] in Hcok.
    replace (1 + Z.max 0 0) with 1 in Hcok by lia.
    destruct (hretrace_rem_ok c f PLeaf h1 (hroot s) (S (S fuel)) 1 W1 NDp Hroot1 Hlen I ltac:(reflexivity) Hcok) as (h2 & E2 & W2).
    fold h1. rewrite E2. eexists. split; [reflexivity|]. split; [|exact Hfun].
    split; [exact W2|]. split; [|split; [reflexivity|]]; cbn [hheap hroot hnext].
    + intro a. rewrite count_punwind_rem. apply NDp.
    + intros a Ha. apply in_count in Ha. rewrite count_punwind_rem, count_plug in Ha. cbn [ids count_occ] in Ha.
      apply Hbound. apply in_count. rewrite count_plug. lia.
Qed.
