(* C04 — reference counter: every execution is linearizable to the saturating counter; no signed overflow
   when the initial value plus the number of retains fits the C type; exactly one release observes zero when
   the scripts contain enough releases. *)
From MV Require Import C04.Model.
Local Open Scope Z_scope.

Lemma rspec_run_app v a b :
  rspec_run v (a ++ b) =
  let (v1, xs) := rspec_run v a in let (v2, ys) := rspec_run v1 b in (v2, xs ++ ys).
Proof.
  revert v; induction a as [|o a IH]; intros v; simpl.
  - destruct (rspec_run v b); reflexivity.
  - destruct (rspec v o) as [v1 x]. rewrite IH.
    destruct (rspec_run v1 a) as [v2 xs]. destruct (rspec_run v2 b) as [v3 ys]. reflexivity.
Qed.

(* the plain segment while the counter reads 0: every consumed operation is refused *)
Lemma rseg_zero ops : rspec_run 0 (map fst (snd (rseg 0 ops))) = (0, map snd (snd (rseg 0 ops))).
Proof.
  induction ops as [|o r IH]; simpl; [reflexivity|].
  destruct (rseg 0 r) as [ns ls] eqn:E. simpl in *. rewrite IH. reflexivity.
Qed.
Lemma rseg_nonzero v ops : v <> 0 -> snd (rseg v ops) = [].
Proof. intros H. destruct ops; simpl; [reflexivity|]. destruct (Z.eqb_spec v 0); [contradiction|reflexivity]. Qed.
Lemma rseg_rest_nonzero v ops : v <> 0 -> rseg_rest v ops = ops.
Proof. intros H. destruct ops; simpl; [reflexivity|]. destruct (Z.eqb_spec v 0); [contradiction|reflexivity]. Qed.

(* ------------------------------------------------------------------ *)
(* counting operations: per script, over the threads, in the linearisation *)
Definition rop_eqb (a b : rop) : bool := match a, b with Retain, Retain | Release, Release => true | _, _ => false end.
Fixpoint cnt (o : rop) (l : list rop) : nat :=
  match l with [] => 0 | x :: r => (if rop_eqb o x then 1 else 0) + cnt o r end%nat.
Fixpoint tsum (n : nat) (f : nat -> nat) : nat :=
  match n with O => 0 | S m => tsum m f + f m end%nat.
(* number of operations [o] in the scripts of the threads 0 .. n-1 *)
Definition total (o : rop) (n : nat) (scripts : nat -> list rop) : nat := tsum n (fun t => cnt o (scripts t)).
Definition remaining (o : rop) (s : rsys) : nat := tsum (r_n s) (fun t => cnt o (r_ops (r_thr s t))).

Lemma cnt_app o a b : cnt o (a ++ b) = (cnt o a + cnt o b)%nat.
Proof. induction a as [|x a IH]; simpl; [reflexivity|]. rewrite IH. lia. Qed.

Lemma tsum_ext n f g : (forall u, (u < n)%nat -> f u = g u) -> tsum n f = tsum n g.
Proof.
  induction n as [|m IH]; intros H; simpl; [reflexivity|].
  rewrite (IH (fun u Hu => H u (Nat.lt_lt_succ_r _ _ Hu))), (H m (Nat.lt_succ_diag_r m)). reflexivity.
Qed.
Lemma tsum_zero n f : (forall u, (u < n)%nat -> f u = 0%nat) -> tsum n f = 0%nat.
Proof.
  induction n as [|m IH]; intros H; simpl; [reflexivity|].
  rewrite (IH (fun u Hu => H u (Nat.lt_lt_succ_r _ _ Hu))), (H m (Nat.lt_succ_diag_r m)). reflexivity.
Qed.
Lemma tsum_upd {A} (g : A -> nat) (f : nat -> A) n t x : (t < n)%nat ->
  (tsum n (fun u => g (upd f t x u)) + g (f t) = tsum n (fun u => g (f u)) + g x)%nat.
Proof.
  induction n as [|m IH]; intros H; [lia|]. simpl.
  destruct (Nat.eq_dec t m) as [E|NE].
  - subst t. rewrite upd_same.
    rewrite (tsum_ext m (fun u => g (upd f m x u)) (fun u => g (f u))).
    + lia.
    + intros u Hu. rewrite upd_other by lia. reflexivity.
  - assert (Hm : (t < m)%nat) by lia. specialize (IH Hm).
    rewrite (upd_other f t m x) by lia. lia.
Qed.

Lemma remaining_upd o s t x : (t < r_n s)%nat ->
  (tsum (r_n s) (fun u => cnt o (r_ops (upd (r_thr s) t x u))) + cnt o (r_ops (r_thr s t))
   = remaining o s + cnt o (r_ops x))%nat.
Proof. intros Ht. unfold remaining. apply (tsum_upd (fun y => cnt o (r_ops y)) (r_thr s) (r_n s) t x Ht). Qed.

Lemma rseg_split o ref ops :
  (cnt o (map fst (snd (rseg ref ops))) + cnt o (rseg_rest ref ops) = cnt o ops)%nat.
Proof.
  induction ops as [|x r IH]; simpl; [reflexivity|].
  destruct (ref =? 0).
  - destruct (rseg ref r) as [ns ls]. simpl in *. lia.
  - simpl. reflexivity.
Qed.
Lemma rseg_rest_le o ref ops : (cnt o (rseg_rest ref ops) <= cnt o ops)%nat.
Proof. pose proof (rseg_split o ref ops). lia. Qed.

(* ------------------------------------------------------------------ *)
Record RInv (n : nat) (v0 : Z) (scripts : nat -> list rop) (s : rsys) : Prop := {
  ri_n : r_n s = n;
  ri_lin : rspec_run v0 (map fst (r_lin s)) = (r_ref s, map snd (r_lin s));
  ri_cas : forall t v des, r_pc (r_thr s t) = RCas v des ->
           v <> 0 /\ exists o rest, r_ops (r_thr s t) = o :: rest /\ des = rdes o v;
  ri_fin : forall t, r_pc (r_thr s t) = RFin \/ r_pc (r_thr s t) = RDone -> r_ops (r_thr s t) = [];
  (* every operation of every script is either linearised or still pending *)
  ri_cons : forall o, (cnt o (map fst (r_lin s)) + remaining o s = total o n scripts)%nat;
  (* the counter can still grow by at most the pending retains *)
  ri_bound : r_ref s + Z.of_nat (remaining Retain s) <= v0 + Z.of_nat (total Retain n scripts);
  ri_ovf : v0 + Z.of_nat (total Retain n scripts) <= ref_max -> r_ovf s = 0%nat;
}.

Ltac r_other Hx t :=
  let u := fresh "u" in
  intros u; intros; unfold upd in *; destruct (Nat.eqb_spec u t); subst; simpl in *;
  [ try discriminate | eapply Hx; eauto ].

Lemma rstep_inv P n v0 scripts s t ch s' l :
  RInv n v0 scripts s -> rstep P s t ch = Some (s', l) -> RInv n v0 scripts s'.
Proof.
  intros [Hn Hlin Hcas Hfin Hcons Hbound Hovf] Hs. unfold rstep in Hs.
  destruct (Nat.leb_spec (r_n s) t) as [|Ht]; [discriminate|].
  destruct (r_pc (r_thr s t)) as [|v des| |] eqn:Epc.
  - (* plain segment *)
    destruct (rseg (r_ref s) (r_ops (r_thr s t))) as [ns ls] eqn:Eseg.
    inversion Hs; subst; clear Hs.
    pose proof (fun o => rseg_split o (r_ref s) (r_ops (r_thr s t))) as Hsplit. rewrite Eseg in Hsplit. simpl in Hsplit.
    assert (Hrem' : forall o pc', (tsum (r_n s) (fun u => cnt o (r_ops (upd (r_thr s) t
                       {| r_pc := pc'; r_ops := rseg_rest (r_ref s) (r_ops (r_thr s t)); r_pend := [] |} u)))
                     + cnt o (r_ops (r_thr s t)) = remaining o s + cnt o (rseg_rest (r_ref s) (r_ops (r_thr s t))))%nat).
    { intros o pc'.
      exact (remaining_upd o s t {| r_pc := pc'; r_ops := rseg_rest (r_ref s) (r_ops (r_thr s t)); r_pend := [] |} Ht). }
    constructor; simpl.
    + reflexivity.
    + rewrite map_app, rspec_run_app, Hlin.
      destruct (Z.eq_dec (r_ref s) 0) as [Z0|NZ].
      * rewrite Z0 in *. pose proof (rseg_zero (r_ops (r_thr s t))) as Hz. rewrite Eseg in Hz. simpl in Hz.
        rewrite Hz. now rewrite map_app.
      * pose proof (rseg_nonzero _ (r_ops (r_thr s t)) NZ) as Hnz. rewrite Eseg in Hnz. simpl in Hnz. subst ls.
        simpl. now rewrite !app_nil_r.
    + intros u v des Hu. unfold upd in Hu. destruct (Nat.eqb_spec u t); subst; simpl in *.
      * destruct (rseg_rest (r_ref s) (r_ops (r_thr s t))) as [|o rest] eqn:Er; [discriminate|].
        inversion Hu; subst; clear Hu.
        assert (NZ : r_ref s <> 0).
        { intro Z0. rewrite Z0 in Er. clear -Er. induction (r_ops (r_thr s t)); simpl in Er; [discriminate|auto]. }
        split; [assumption|]. exists o, rest. rewrite upd_same. simpl. split; reflexivity.
      * unfold upd. destruct (Nat.eqb_spec u t); [contradiction|]. eauto.
    + intros u Hu. unfold upd in *. destruct (Nat.eqb_spec u t); subst; simpl in *; [|now apply Hfin].
      destruct (rseg_rest (r_ref s) (r_ops (r_thr s t))); [reflexivity|]. destruct Hu; discriminate.
    + intros o. unfold remaining at 1. simpl. rewrite map_app, cnt_app.
      specialize (Hrem' o (match rseg_rest (r_ref s) (r_ops (r_thr s t)) with
                           | [] => RFin | o0 :: _ => RCas (r_ref s) (rdes o0 (r_ref s)) end)).
      specialize (Hsplit o). specialize (Hcons o). lia.
    + unfold remaining at 1. simpl.
      specialize (Hrem' Retain (match rseg_rest (r_ref s) (r_ops (r_thr s t)) with
                                | [] => RFin | o0 :: _ => RCas (r_ref s) (rdes o0 (r_ref s)) end)).
      pose proof (rseg_rest_le Retain (r_ref s) (r_ops (r_thr s t))). lia.
    + intros Hfit. specialize (Hovf Hfit).
      destruct (rseg_rest (r_ref s) (r_ops (r_thr s t))) as [|o rest] eqn:Er; [assumption|].
      destruct o; simpl; [|assumption].
      destruct (Z.leb_spec ref_max (r_ref s)) as [Hge|]; [|assumption]. exfalso.
      (* a retain is pending in this thread, so the counter is below the bound *)
      assert (Hone : (1 <= cnt Retain (r_ops (r_thr s t)))%nat).
      { pose proof (rseg_rest_le Retain (r_ref s) (r_ops (r_thr s t))) as Hle. rewrite Er in Hle. simpl in Hle. lia. }
      assert (Hle : (cnt Retain (r_ops (r_thr s t)) <= remaining Retain s)%nat).
      { pose proof (remaining_upd Retain s t {| r_pc := RSeg; r_ops := []; r_pend := [] |} Ht) as Hu.
        simpl in Hu. lia. }
      lia.
  - (* compare-exchange *)
    destruct (Hcas t v des Epc) as (NZ & o & rest & Eops & Edes).
    rewrite Eops in Hs.
    assert (Hrem : forall o' pc' pend, (tsum (r_n s) (fun u => cnt o' (r_ops (upd (r_thr s) t
                       {| r_pc := pc'; r_ops := rest; r_pend := pend |} u)))
                     + cnt o' (o :: rest) = remaining o' s + cnt o' rest)%nat).
    { intros o' pc' pend. rewrite <- Eops.
      exact (remaining_upd o' s t {| r_pc := pc'; r_ops := rest; r_pend := pend |} Ht). }
    destruct (Z.eqb_spec (r_ref s) v) as [Eq|Ne]; inversion Hs; subst; clear Hs; constructor; simpl.
    + reflexivity.
    + rewrite map_app, rspec_run_app, Hlin. simpl. unfold rspec.
      destruct (Z.eqb_spec (r_ref s) 0); [contradiction|]. now rewrite map_app.
    + intros u v des Hu. unfold upd in Hu. destruct (Nat.eqb_spec u t); subst; simpl in *; [discriminate|].
      unfold upd. destruct (Nat.eqb_spec u t); [contradiction|]. eauto.
    + intros u Hu. unfold upd in *. destruct (Nat.eqb_spec u t); subst; simpl in *; [|now apply Hfin].
      destruct Hu; discriminate.
    + intros o'. unfold remaining at 1. simpl. rewrite map_app, cnt_app. simpl.
      specialize (Hrem o' RSeg [(rnote o, rdes o (r_ref s))]). specialize (Hcons o'). simpl in Hrem. lia.
    + unfold remaining at 1. simpl.
      specialize (Hrem Retain RSeg [(rnote o, rdes o (r_ref s))]). simpl in Hrem.
      destruct o; simpl in *; lia.
    + assumption.
    + reflexivity.
    + assumption.
    + intros u v' des' Hu. unfold upd in Hu. destruct (Nat.eqb_spec u t); subst; simpl in *; [discriminate|].
      unfold upd. destruct (Nat.eqb_spec u t); [contradiction|]. eauto.
    + intros u Hu. unfold upd in *. destruct (Nat.eqb_spec u t); subst; simpl in *; [|now apply Hfin].
      destruct Hu; discriminate.
    + intros o'. unfold remaining at 1. simpl.
      rewrite (tsum_ext (r_n s) _ (fun u => cnt o' (r_ops (r_thr s u)))); [apply Hcons|].
      intros u Hu. unfold upd. destruct (Nat.eqb_spec u t); subst; simpl; [rewrite Eops|]; reflexivity.
    + unfold remaining at 1. simpl.
      rewrite (tsum_ext (r_n s) _ (fun u => cnt Retain (r_ops (r_thr s u)))); [apply Hbound|].
      intros u Hu. unfold upd. destruct (Nat.eqb_spec u t); subst; simpl; [rewrite Eops|]; reflexivity.
    + assumption.
  - (* exit *)
    inversion Hs; subst; clear Hs; constructor; simpl.
    + reflexivity.
    + assumption.
    + intros u v des Hu. unfold upd in Hu. destruct (Nat.eqb_spec u t); subst; simpl in *; [discriminate|].
      unfold upd. destruct (Nat.eqb_spec u t); [contradiction|]. eauto.
    + intros u Hu. unfold upd in *. destruct (Nat.eqb_spec u t); subst; simpl in *; [|now apply Hfin].
      apply Hfin. left. assumption.
    + intros o'. unfold remaining at 1. simpl.
      rewrite (tsum_ext (r_n s) _ (fun u => cnt o' (r_ops (r_thr s u)))); [apply Hcons|].
      intros u Hu. unfold upd. destruct (Nat.eqb_spec u t); subst; simpl; reflexivity.
    + unfold remaining at 1. simpl.
      rewrite (tsum_ext (r_n s) _ (fun u => cnt Retain (r_ops (r_thr s u)))); [apply Hbound|].
      intros u Hu. unfold upd. destruct (Nat.eqb_spec u t); subst; simpl; reflexivity.
    + assumption.
  - discriminate.
Qed.

Lemma rinit_inv n v0 scripts : RInv n v0 scripts (rinit n v0 scripts).
Proof.
  constructor; simpl.
  - reflexivity.
  - reflexivity.
  - intros; discriminate.
  - intros t [H|H]; discriminate.
  - intros o. unfold remaining, total. simpl. lia.
  - unfold remaining, total. simpl. lia.
  - intros _. reflexivity.
Qed.

Theorem refcnt_invariants P n v0 scripts sched :
  RInv n v0 scripts (exec rsys (rstep P) (rinit n v0 scripts) sched).
Proof. apply inv_exec; [|apply rinit_inv]. intros; eapply rstep_inv; eauto. Qed.

Theorem refcnt_linearizable_all P n v0 scripts sched :
  let s := exec rsys (rstep P) (rinit n v0 scripts) sched in
  rspec_run v0 (map fst (r_lin s)) = (r_ref s, map snd (r_lin s)).
Proof. intros s. apply (ri_lin n v0 scripts s). apply refcnt_invariants. Qed.

(* the sequential counter: once zero, always zero and every later operation is refused;
   a result 0 (a release observing zero) happens at most once *)
Lemma rspec_zero ops : rspec_run 0 ops = (0, map (fun _ => -1) ops).
Proof. induction ops as [|o r IH]; simpl; [reflexivity|]. now rewrite IH. Qed.

Lemma count_minus1 (ops : list rop) : count_occ Z.eq_dec (map (fun _ => -1) ops) 0%Z = 0%nat.
Proof. induction ops; simpl; auto. Qed.

Lemma rspec_zero_once v ops : 0 <= v ->
  (count_occ Z.eq_dec (snd (rspec_run v ops)) 0%Z <= 1)%nat /\ 0 <= fst (rspec_run v ops).
Proof.
  revert v; induction ops as [|o r IH]; intros v Hv; simpl; [split; [lia|assumption]|].
  unfold rspec. destruct (Z.eqb_spec v 0) as [Z0|NZ].
  - rewrite rspec_zero. simpl. rewrite count_minus1. split; lia.
  - assert (Hd : 0 <= rdes o v) by (destruct o; simpl; lia).
    destruct (IH (rdes o v) Hd) as [I1 I2].
    destruct (rspec_run (rdes o v) r) as [v2 xs] eqn:E. simpl in *.
    destruct (Z.eq_dec (rdes o v) 0) as [D0|DN].
    + rewrite D0 in E. rewrite rspec_zero in E. inversion E; subst. rewrite count_minus1. split; lia.
    + split; assumption.
Qed.

Theorem refcnt_single_zero_all P n v0 scripts sched : 0 < v0 ->
  let s := exec rsys (rstep P) (rinit n v0 scripts) sched in
  (count_occ Z.eq_dec (map snd (r_lin s)) 0%Z <= 1)%nat /\ 0 <= r_ref s.
Proof.
  intros Hv s. pose proof (refcnt_linearizable_all P n v0 scripts sched) as H. fold s in H. simpl in H.
  assert (H0 : 0 <= v0) by lia.
  pose proof (rspec_zero_once v0 (map fst (r_lin s)) H0) as [H1 H2]. rewrite H in H1, H2. auto.
Qed.

(* no signed overflow: the counter stays inside the range of the C type, and v + 1 is never computed at
   INT_MAX, when the initial value plus the number of retains in the scripts fits *)
Theorem refcnt_in_range_all P n v0 scripts sched : 0 < v0 ->
  v0 + Z.of_nat (total Retain n scripts) <= ref_max ->
  let s := exec rsys (rstep P) (rinit n v0 scripts) sched in
  r_ovf s = 0%nat /\ 0 <= r_ref s <= ref_max.
Proof.
  intros Hv Hfit s. pose proof (refcnt_invariants P n v0 scripts sched) as I. fold s in I.
  split; [apply (ri_ovf _ _ _ _ I Hfit)|].
  split; [apply (refcnt_single_zero_all P n v0 scripts sched Hv)|].
  pose proof (ri_bound _ _ _ _ I). lia.
Qed.

(* with enough releases the sequential counter does reach zero: exactly one result is 0 *)
Lemma rspec_enough ops : forall v, 0 < v ->
  v + Z.of_nat (cnt Retain ops) <= Z.of_nat (cnt Release ops) ->
  count_occ Z.eq_dec (snd (rspec_run v ops)) 0%Z = 1%nat /\ fst (rspec_run v ops) = 0.
Proof.
  induction ops as [|o r IH]; intros v Hv Hen; simpl in *; [lia|].
  unfold rspec. destruct (Z.eqb_spec v 0) as [Z0|NZ]; [lia|].
  destruct o; simpl in *.
  - destruct (IH (v + 1)) as [I1 I2]; [lia|lia|].
    destruct (rspec_run (v + 1) r) as [v2 xs]. simpl in *.
    destruct (Z.eq_dec (v + 1) 0); [lia|]. split; assumption.
  - destruct (Z.eq_dec (v - 1) 0) as [D0|DN].
    + rewrite D0. rewrite rspec_zero. simpl. rewrite count_minus1. split; reflexivity.
    + destruct (IH (v - 1)) as [I1 I2]; [lia|lia|].
      destruct (rspec_run (v - 1) r) as [v2 xs]. simpl in *.
      destruct (Z.eq_dec (v - 1) 0); [lia|]. split; assumption.
Qed.

(* 'exactly one, given enough releases': when every thread has finished its script and the scripts contain at
   least (initial value + number of retains) releases, exactly one release has observed zero and the counter
   is zero *)
Theorem refcnt_exactly_one_zero_all P n v0 scripts sched : 0 < v0 ->
  v0 + Z.of_nat (total Retain n scripts) <= Z.of_nat (total Release n scripts) ->
  let s := exec rsys (rstep P) (rinit n v0 scripts) sched in
  (forall t, (t < n)%nat -> r_pc (r_thr s t) = RDone) ->
  count_occ Z.eq_dec (map snd (r_lin s)) 0%Z = 1%nat /\ r_ref s = 0.
Proof.
  intros Hv Hen s Hdone. pose proof (refcnt_invariants P n v0 scripts sched) as I. fold s in I.
  assert (Hrem : forall o, remaining o s = 0%nat).
  { intros o. unfold remaining. rewrite (ri_n _ _ _ _ I). apply tsum_zero. intros u Hu.
    rewrite (ri_fin _ _ _ _ I u); [reflexivity|]. right. now apply Hdone. }
  pose proof (ri_cons _ _ _ _ I Retain) as C1. pose proof (ri_cons _ _ _ _ I Release) as C2.
  rewrite Hrem in C1, C2.
  pose proof (rspec_enough (map fst (r_lin s)) v0 Hv) as E. rewrite (ri_lin _ _ _ _ I) in E. simpl in E.
  apply E. lia.
Qed.

(* the loop body of the C functions, as a function of the value read (regenerated from the C text on every
   run), is what drives the model's step: a pending operation is refused exactly when rbody says None, and
   otherwise the thread stops at a compare-exchange with rbody's expected / desired values, whose success
   returns rbody's result *)
Lemma rbody_drives_rstep P s t o rest : (t < r_n s)%nat ->
  r_pc (r_thr s t) = RSeg -> r_ops (r_thr s t) = o :: rest ->
  exists s' notes, rstep P s t 0%nat = Some (s', LPlain notes) /\
  match rbody o (r_ref s) with
  | None => In (o, -1) (r_lin s') /\ r_ref s' = r_ref s
  | Some (e, d, res) =>
    r_pc (r_thr s' t) = RCas e d /\ r_ops (r_thr s' t) = o :: rest /\ r_lin s' = r_lin s /\
    (r_ref s' = e ->
     exists s'' mo, rstep P s' t 0%nat = Some (s'', LEv (Ev OCasS ref_cell mo e d 1)) /\
                    r_ref s'' = d /\ r_lin s'' = r_lin s' ++ [(o, res)])
  end.
Proof.
  intros Ht Epc Eops. unfold rstep at 1. destruct (Nat.leb_spec (r_n s) t) as [|_]; [lia|].
  rewrite Epc, Eops. unfold rbody. simpl.
  destruct (Z.eqb_spec (r_ref s) 0) as [Z0|NZ].
  - destruct (rseg (r_ref s) rest) as [ns ls] eqn:E.
    eexists. eexists. split; [reflexivity|]. simpl. split; [|reflexivity].
    apply in_or_app. right. left. reflexivity.
  - eexists. eexists. split; [reflexivity|]. simpl. rewrite upd_same. simpl.
    split; [reflexivity|]. split; [reflexivity|]. split; [now rewrite app_nil_r|].
    intros _. unfold rstep. simpl. destruct (Nat.leb_spec (r_n s) t) as [|_]; [lia|].
    rewrite upd_same. simpl. rewrite Z.eqb_refl.
    eexists. eexists. split; [reflexivity|]. simpl. split; reflexivity.
Qed.

Definition ref_example_params : params :=
  {| mo_spin_tas := Acq; mo_spin_clear := Rel; mo_sync_cas := Acq; mo_sync_store := Rel;
     mo_once_cas := Rlx; mo_once_store := Rel; mo_once_load := Acq; mo_ref_cas := Rlx |}.
Definition ref_example_scripts (t : nat) : list rop :=
  if Nat.eqb t 0 then [Retain; Release] else if Nat.eqb t 1 then [Release; Release] else [].

Example refcnt_nonvacuous :
  let s := exec rsys (rstep ref_example_params) (rinit 2 1 ref_example_scripts)
             [(0,0);(1,0);(1,0);(0,0);(0,0);(1,0)]%nat in
  map snd (r_lin s) = [0; -1; -1; -1] /\ r_ref s = 0.
Proof. vm_compute. split; reflexivity. Qed.

(* the hypotheses of refcnt_exactly_one_zero_all and refcnt_in_range_all are met by a run in which both threads
   finish: 1 + 1 retain <= 3 releases, 1 + 1 <= ref_max *)
Example refcnt_exactly_one_nonvacuous :
  let s := exec rsys (rstep ref_example_params) (rinit 2 1 ref_example_scripts)
             [(0,0);(0,0);(0,0);(0,0);(0,0);(0,0);(1,0);(1,0);(1,0);(1,0);(1,0);(1,0);(0,0);(1,0)]%nat in
  (forall t, (t < 2)%nat -> r_pc (r_thr s t) = RDone) /\
  1 + Z.of_nat (total Retain 2 ref_example_scripts) <= Z.of_nat (total Release 2 ref_example_scripts) /\
  1 + Z.of_nat (total Retain 2 ref_example_scripts) <= ref_max /\
  map snd (r_lin s) = [2; 1; 0; -1].
Proof.
  vm_compute. split; [|split; [discriminate|split; [discriminate|reflexivity]]].
  intros t Ht. destruct t as [|[|t]]; [reflexivity|reflexivity|lia].
Qed.

(* at INT_MAX the retain of the unchanged code computes INT_MAX + 1 (undefined): the ghost records it, so the
   range hypothesis of refcnt_in_range_all cannot be dropped *)
Example refcnt_overflow_at_int_max :
  let s := exec rsys (rstep ref_example_params) (rinit 1 ref_max (fun _ => [Retain])) [(0,0)]%nat in
  r_ovf s = 1%nat.
Proof. vm_compute. reflexivity. Qed.
