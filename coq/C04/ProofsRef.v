(* C04 — reference counter: every execution is linearizable to the saturating counter. *)
From MV Require Import C04.Model.
Local Open Scope Z_scope.

Lemma rspec_run_app v a b :
  rspec_run v (a ++ b) =
  let (v1, xs) := rspec_run v a in let (v2, ys) := rspec_run v1 b in (v2, xs ++ ys).
Proof.
  revert v; induction a as [|o a IH]; intros v; simpl.
  - destruct (rspec_run v b); reflexivity.
  - destruct (rspec v o) as [v1 x]. rewrite IH.
    destruct (rspec_run v1 a) as [v2 xs]. destruct (rspec_run v2 b) as [v3 ys]. reflexivity.
Qed.

(* the plain segment while the counter reads 0: every consumed operation is refused *)
Lemma rseg_zero ops : rspec_run 0 (map fst (snd (rseg 0 ops))) = (0, map snd (snd (rseg 0 ops))).
Proof.
  induction ops as [|o r IH]; simpl; [reflexivity|].
  destruct (rseg 0 r) as [ns ls] eqn:E. simpl in *. rewrite IH. reflexivity.
Qed.
Lemma rseg_nonzero v ops : v <> 0 -> snd (rseg v ops) = [].
Proof. intros H. destruct ops; simpl; [reflexivity|]. destruct (Z.eqb_spec v 0); [contradiction|reflexivity]. Qed.
Lemma rseg_rest_nonzero v ops : v <> 0 -> rseg_rest v ops = ops.
Proof. intros H. destruct ops; simpl; [reflexivity|]. destruct (Z.eqb_spec v 0); [contradiction|reflexivity]. Qed.

Record RInv (v0 : Z) (s : rsys) : Prop := {
  ri_lin : rspec_run v0 (map fst (r_lin s)) = (r_ref s, map snd (r_lin s));
  ri_cas : forall t v des, r_pc (r_thr s t) = RCas v des ->
           v <> 0 /\ exists o rest, r_ops (r_thr s t) = o :: rest /\ des = rdes o v;
}.

Lemma rstep_inv P v0 s t ch s' l : RInv v0 s -> rstep P s t ch = Some (s', l) -> RInv v0 s'.
Proof.
  intros [Hlin Hcas] Hs. unfold rstep in Hs.
  destruct (Nat.leb (r_n s) t); [discriminate|].
  destruct (r_pc (r_thr s t)) as [|v des| |] eqn:Epc.
  - (* plain segment *)
    destruct (rseg (r_ref s) (r_ops (r_thr s t))) as [ns ls] eqn:Eseg.
    inversion Hs; subst; clear Hs. constructor; simpl.
    + rewrite map_app, rspec_run_app, Hlin.
      destruct (Z.eq_dec (r_ref s) 0) as [Z0|NZ].
      * rewrite Z0 in *. pose proof (rseg_zero (r_ops (r_thr s t))) as Hz. rewrite Eseg in Hz. simpl in Hz.
        rewrite Hz. now rewrite map_app.
      * pose proof (rseg_nonzero _ (r_ops (r_thr s t)) NZ) as Hn. rewrite Eseg in Hn. simpl in Hn. subst ls.
        simpl. now rewrite !app_nil_r.
    + intros u v des Hu. unfold upd in Hu. destruct (Nat.eqb_spec u t); subst; simpl in *.
      * destruct (rseg_rest (r_ref s) (r_ops (r_thr s t))) as [|o rest] eqn:Er; [discriminate|].
        inversion Hu; subst; clear Hu.
        assert (NZ : r_ref s <> 0).
        { intro Z0. rewrite Z0 in Er. clear -Er. induction (r_ops (r_thr s t)); simpl in Er; [discriminate|auto]. }
        split; [assumption|]. exists o, rest. rewrite upd_same. simpl. split; reflexivity.
      * unfold upd. destruct (Nat.eqb_spec u t); [contradiction|]. eauto.
  - (* compare-exchange *)
    destruct (Hcas t v des Epc) as (NZ & o & rest & Eops & Edes).
    rewrite Eops in Hs.
    destruct (Z.eqb_spec (r_ref s) v) as [Eq|Ne]; inversion Hs; subst; clear Hs; constructor; simpl.
    + rewrite map_app, rspec_run_app, Hlin. simpl. unfold rspec.
      destruct (Z.eqb_spec (r_ref s) 0); [contradiction|]. now rewrite map_app.
    + intros u v des Hu. unfold upd in Hu. destruct (Nat.eqb_spec u t); subst; simpl in *; [discriminate|].
      unfold upd. destruct (Nat.eqb_spec u t); [contradiction|]. eauto.
    + assumption.
    + intros u v' des' Hu. unfold upd in Hu. destruct (Nat.eqb_spec u t); subst; simpl in *; [discriminate|].
      unfold upd. destruct (Nat.eqb_spec u t); [contradiction|]. eauto.
  - inversion Hs; subst; clear Hs; constructor; simpl; [assumption|].
    intros u v des Hu. unfold upd in Hu. destruct (Nat.eqb_spec u t); subst; simpl in *; [discriminate|].
    unfold upd. destruct (Nat.eqb_spec u t); [contradiction|]. eauto.
  - discriminate.
Qed.

Theorem refcnt_linearizable_all P n v0 scripts sched :
  let s := exec rsys (rstep P) (rinit n v0 scripts) sched in
  rspec_run v0 (map fst (r_lin s)) = (r_ref s, map snd (r_lin s)).
Proof.
  intros s. apply (ri_lin v0 s). subst s. apply inv_exec.
  - intros; eapply rstep_inv; eauto.
  - constructor; simpl; [reflexivity|]. intros; discriminate.
Qed.

(* the sequential counter: once zero, always zero and every later operation is refused;
   a result 0 (a release observing zero) happens at most once *)
Lemma rspec_zero ops : rspec_run 0 ops = (0, map (fun _ => -1) ops).
Proof. induction ops as [|o r IH]; simpl; [reflexivity|]. now rewrite IH. Qed.

Lemma count_minus1 (ops : list rop) : count_occ Z.eq_dec (map (fun _ => -1) ops) 0%Z = 0%nat.
Proof. induction ops; simpl; auto. Qed.

Lemma rspec_zero_once v ops : 0 <= v ->
  (count_occ Z.eq_dec (snd (rspec_run v ops)) 0%Z <= 1)%nat /\ 0 <= fst (rspec_run v ops).
Proof.
  revert v; induction ops as [|o r IH]; intros v Hv; simpl; [split; [lia|assumption]|].
  unfold rspec. destruct (Z.eqb_spec v 0) as [Z0|NZ].
  - rewrite rspec_zero. simpl. rewrite count_minus1. split; lia.
  - assert (Hd : 0 <= rdes o v) by (destruct o; simpl; lia).
    destruct (IH (rdes o v) Hd) as [I1 I2].
    destruct (rspec_run (rdes o v) r) as [v2 xs] eqn:E. simpl in *.
    destruct (Z.eq_dec (rdes o v) 0) as [D0|DN].
    + rewrite D0 in E. rewrite rspec_zero in E. inversion E; subst. rewrite count_minus1. split; lia.
    + split; assumption.
Qed.

Theorem refcnt_single_zero_all P n v0 scripts sched : 0 < v0 ->
  let s := exec rsys (rstep P) (rinit n v0 scripts) sched in
  (count_occ Z.eq_dec (map snd (r_lin s)) 0%Z <= 1)%nat /\ 0 <= r_ref s.
Proof.
  intros Hv s. pose proof (refcnt_linearizable_all P n v0 scripts sched) as H. fold s in H. simpl in H.
  assert (H0 : 0 <= v0) by lia.
  pose proof (rspec_zero_once v0 (map fst (r_lin s)) H0) as [H1 H2]. rewrite H in H1, H2. auto.
Qed.

Example refcnt_nonvacuous :
  let P := {| mo_spin_tas := Acq; mo_spin_clear := Rel; mo_sync_cas := Acq; mo_sync_store := Rel;
              mo_once_cas := Rlx; mo_once_store := Rel; mo_once_load := Acq; mo_ref_cas := Rlx |} in
  let s := exec rsys (rstep P) (rinit 2 1 (fun t => if Nat.eqb t 0 then [Retain; Release] else [Release; Release]))
             [(0,0);(1,0);(1,0);(0,0);(0,0);(1,0)]%nat in
  map snd (r_lin s) = [0; -1; -1; -1] /\ r_ref s = 0.
Proof. vm_compute. split; reflexivity. Qed.
