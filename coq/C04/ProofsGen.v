(* C04 — obligations about the terms regenerated from the repository on every run (gen/Params_C04.v):
   the atomic.h / vs_hooks.h tables (decided by a boolean checker, Lib/AtomicTie.v), the memory orders that
   reach the builtins, and the loop bodies of muggle_ref_cnt_retain / _release.  The tactics do not depend on
   the shape of the generated terms: unfold, split every conditional, linear arithmetic under a timeout. *)
From Coq Require Import String ZifyBool.
From MV Require Import Lib.Leaf Lib.AtomicTie C04.Model C04.AtomicSites C04.ProofsLock C04.ProofsOnce gen.Params_C04.
Local Open Scope Z_scope.

(* ------------------------------------------------------------------ *)
(* atomic.h and the hooks: a complete finite check, lifted by atomic_tie_sound *)
Lemma atomic_tie_checked :
  atomic_tie_holds header_atomic_table hook_atomic_table unhooked_atomic_macros memory_order_consts atomic_types.
Proof. apply atomic_tie_sound. vm_compute. reflexivity. Qed.

(* the hand-written expectation is satisfiable and says something: it has 21 macros, 20 of them hooked, and
   e.g. a store that ignored its order argument would not pass *)
Example atomic_tie_nonvacuous :
  List.length expected_atomic_table = 21%nat /\ List.length expected_hook_table = 20%nat /\
  atomic_tie_ok expected_atomic_table expected_hook_table allowed_unhooked expected_memory_order_consts
    expected_atomic_types = true /\
  atomic_tie_ok
    (("muggle_atomic_store"%string, mk BStore [AParam 0; AParam 1; AConst 0] RVoid) :: expected_atomic_table)
    expected_hook_table allowed_unhooked expected_memory_order_consts expected_atomic_types = false.
Proof. vm_compute. repeat split; reflexivity. Qed.

(* with the expected header every call-site order reaches the builtin unchanged, whatever the orders are *)
Lemma effective_params_expected P : effective_params expected_atomic_table P = P.
Proof. destruct P. reflexivity. Qed.

Lemma effective_params_code : effective_params header_atomic_table code_params = code_params.
Proof. vm_compute. reflexivity. Qed.

Lemma effective_orders_sufficient :
  let E := effective_params header_atomic_table code_params in
  lock_mo_ok E KSpin = true /\ lock_mo_ok E KSync = true /\ lock_mo_ok E KMutex = true /\
  lock_mo_ok E KTry = true /\ lock_mo_ok E KNest = true /\ lock_mo_ok E KNestTry = true /\ once_mo_ok E = true.
Proof. vm_compute. repeat split; reflexivity. Qed.

(* a macro body that drops the order (here: muggle_atomic_clear always relaxed) makes the side condition false:
   the tie is not vacuous *)
Example effective_orders_discriminate :
  let h := ("muggle_atomic_clear"%string, mk BClear [AParam 0; AConst 0] RVoid) :: expected_atomic_table in
  lock_mo_ok (effective_params h code_params) KSpin = false.
Proof. vm_compute. reflexivity. Qed.

(* ------------------------------------------------------------------ *)
(* loop bodies of retain / release *)
Ltac nocond c := lazymatch c with context [if _ then _ else _] => fail | _ => idtac end.
Ltac closed_term c := tryif (match c with context [?x] => is_var x end) then fail else idtac.
Ltac split_if :=
  match goal with
  | |- context [if ?c then _ else _] =>
    nocond c;
    first [ closed_term c;
            let v := eval vm_compute in c in
            lazymatch v with
            | true => change c with true; cbv iota
            | false => change c with false; cbv iota
            end
          | destruct c eqn:? ]
  end.
Ltac leaf :=
  first [ reflexivity
        | solve [exfalso; timeout 20 lia]
        | solve [repeat (f_equal; try (timeout 20 lia))]
        | solve [unfold wrapu in *; timeout 40 (Z.to_euclidean_division_equations; lia)] ].
Ltac ref_decide :=
  unfold rbody_tuple, rbody, rdes; cbv zeta; unfold z2b, b2z;
  repeat split_if; leaf.

(* the statement covers every value of the C type's non-negative range, which is where the counter lives
   (refcnt_in_range_all); at v = ref_max the retain's v + 1 is the undefined overflow (rovf) *)
Lemma gen_ref_retain_eq v : 0 <= v <= ref_max -> gen_ref_retain 0 0 0 v 0 = rbody_tuple Retain v.
Proof. unfold ref_max. intros Hv. unfold gen_ref_retain. ref_decide. Qed.
Lemma gen_ref_release_eq v : 0 <= v <= ref_max -> gen_ref_release 0 0 0 v 0 = rbody_tuple Release v.
Proof. unfold ref_max. intros Hv. unfold gen_ref_release. ref_decide. Qed.

Lemma gen_ref_types_ok : ref_types_ok gen_ref_retain_types = true /\ ref_types_ok gen_ref_release_types = true.
Proof. vm_compute. split; reflexivity. Qed.

Example ref_body_nonvacuous :
  rbody_tuple Retain 0 = (-1, 0, 0, 0, 0) /\ rbody_tuple Retain 0x7fff = (0x8000, 0x8000, 0x7fff, 1, 0) /\
  rbody_tuple Release 1 = (0, 0, 1, 1, 0) /\ ref_types_ok [(true, 16)] = false /\ ref_types_ok [(false, 32)] = false.
Proof. vm_compute. repeat split; reflexivity. Qed.

(* the counter's C type *)
Lemma ref_type_is_model :
  In ("muggle_ref_cnt_t"%string, ref_bits / 8, true) atomic_types /\ ref_max = 2 ^ (ref_bits - 1) - 1.
Proof. vm_compute. split; [|reflexivity]. repeat (first [left; reflexivity | right]). Qed.

(* ------------------------------------------------------------------ *)
(* mutex.c: result mapping of the pthread calls, for EVERY value the call may return *)
Ltac mx_decide := unfold mres; cbv zeta; unfold z2b, b2z; repeat split_if; leaf.
Lemma gen_mutex_eq rc :
  fst (gen_mutex_init 0 rc) = fst (mres code_MUGGLE_ERR_SYS_CALL rc) /\
  gen_mutex_destroy 0 rc = mres code_MUGGLE_ERR_SYS_CALL rc /\
  gen_mutex_lock 0 rc = mres code_MUGGLE_ERR_SYS_CALL rc /\
  gen_mutex_trylock 0 rc = mres code_MUGGLE_ERR_ACQ_LOCK rc /\
  gen_mutex_unlock 0 rc = mres code_MUGGLE_ERR_SYS_CALL rc.
Proof.
  unfold code_MUGGLE_ERR_SYS_CALL, code_MUGGLE_ERR_ACQ_LOCK.
  split; [unfold gen_mutex_init; mx_decide|split; [unfold gen_mutex_destroy; mx_decide|split;
    [unfold gen_mutex_lock; mx_decide|split; [unfold gen_mutex_trylock; mx_decide|unfold gen_mutex_unlock; mx_decide]]]].
Qed.
Lemma mutex_codes : code_MUGGLE_OK = 0 /\ code_MUGGLE_ERR_SYS_CALL <> 0 /\ code_MUGGLE_ERR_ACQ_LOCK <> 0.
Proof. vm_compute. repeat split; discriminate. Qed.
Lemma mutex_type_default :
  code_mutex_init_rc = code_MUGGLE_OK /\
  (code_mutex_type = pthread_mutex_normal \/ code_mutex_type = pthread_mutex_default).
Proof. vm_compute. split; [reflexivity|]. first [left; reflexivity | right; reflexivity]. Qed.
Example mres_nonvacuous : mres 8 0 = (0, 1) /\ mres 8 35 = (8, 1) /\ mres 7 16 = (7, 1).
Proof. vm_compute. repeat split; reflexivity. Qed.

(* ------------------------------------------------------------------ *)
(* glue: the side conditions for the call-site orders follow from those for the effective orders *)
Lemma code_orders_sufficient :
  lock_mo_ok code_params KSpin = true /\ lock_mo_ok code_params KSync = true /\
  lock_mo_ok code_params KMutex = true /\ lock_mo_ok code_params KTry = true /\
  lock_mo_ok code_params KNest = true /\ lock_mo_ok code_params KNestTry = true /\ once_mo_ok code_params = true.
Proof. rewrite <- effective_params_code at 1 2 3 4 5 6 7. exact effective_orders_sufficient. Qed.
Lemma once_mo_ok_code : once_mo_ok code_params = true.
Proof. exact (proj2 (proj2 (proj2 (proj2 (proj2 (proj2 code_orders_sufficient)))))). Qed.
