(* C04 — executable models of spinlock.c / synclock.c / mutex.c (with a critical-section
   client), call_once.c and ref_cnt.c at the granularity of harness/vsched: every atomic,
   futex, mutex or yield operation is a step and every plain segment between two of them
   is a step.  Memory orders are parameters (re-extracted from the code on every run). *)
From MV Require Export Lib.Conc.
Local Open Scope Z_scope.

(* ------------------------------------------------------------------ *)
(* memory-order parameters of the sites (coq/gen/Params_C04.v instantiates them) *)
Record params := {
  mo_spin_tas : memorder;     (* muggle_spinlock_lock: test_and_set *)
  mo_spin_clear : memorder;   (* muggle_spinlock_unlock: clear *)
  mo_sync_cas : memorder;     (* muggle_synclock_lock: cmp_exch_weak *)
  mo_sync_store : memorder;   (* muggle_synclock_unlock: store 0 *)
  mo_once_cas : memorder;     (* muggle_call_once: cmp_exch_strong INIT->WAIT *)
  mo_once_store : memorder;   (* muggle_call_once: store READY *)
  mo_once_load : memorder;    (* muggle_call_once: load in the wait loop *)
  mo_ref_cas : memorder;      (* ref_cnt retain/release: cmp_exch_strong *)
}.

(* ------------------------------------------------------------------ *)
(* 1. locks with a critical-section client                             *)

(* KTry: acquire by a muggle_mutex_trylock / yield loop.
   KNest / KNestTry: the mutex client in which thread 0, inside its critical section, locks the mutex AGAIN
   (a nested muggle_mutex_lock by the owner); the other threads contend with muggle_mutex_lock (KNest) or with
   one muggle_mutex_trylock per iteration, giving the iteration up when refused (KNestTry).  muggle_mutex_t is
   a default (non-recursive, non-error-checking) pthread mutex: the nested lock never returns. *)
Inductive lkind := KSpin | KSync | KMutex | KTry | KNest | KNestTry.
Definition nests (k : lkind) : bool := match k with KNest | KNestTry => true | _ => false end.

Inductive lpc :=
  | LStart      (* plain segment before the acquire operation (or before thread exit) *)
  | LAcq        (* tas / cmp_exch_weak / pthread_mutex_lock *)
  | LAfterFail  (* plain segment after a failed attempt *)
  | LYield      (* spin: sched_yield *)
  | LWait       (* sync: muggle_sync_wait(lock, 1) *)
  | LBlocked    (* sync: asleep in the futex *)
  | LEnterSeg   (* plain: in_cs++, note enter, read counter *)
  | LNest       (* nested kinds, thread 0: muggle_mutex_lock by the holder itself *)
  | LCs         (* harness plain operation inside the critical section *)
  | LExitSeg    (* plain: counter := read+1, in_cs--, note exit *)
  | LRel        (* clear / store 0 / pthread_mutex_unlock *)
  | LRelSeg     (* sync: plain segment between the store and the wake *)
  | LWake       (* sync: muggle_sync_wake_one *)
  | LFin        (* thread exit *)
  | LDone.

Record lthread := { l_pc : lpc; l_iters : nat; l_seen : nat; l_reg : Z }.

Record lsys := {
  l_kind : lkind;
  l_n : nat;                 (* number of threads *)
  l_lock : Z;                (* lock word: 0 free, 1 held (mutex: ownership flag) *)
  l_stamp : nat;             (* view carried by the lock cell *)
  l_counter : Z;             (* the plain cell protected by the lock *)
  l_cver : nat;              (* number of writes to it so far *)
  l_incs : Z;                (* harness monitor: threads currently inside *)
  l_overlaps : nat;          (* how many enters found somebody inside *)
  l_uncovered : nat;         (* how many plain reads of the counter were not covered by the reader's view *)
  l_thr : nat -> lthread;
}.

Definition linit (k : lkind) (n iters : nat) : lsys :=
  {| l_kind := k; l_n := n; l_lock := 0; l_stamp := 0; l_counter := 0; l_cver := 0;
     l_incs := 0; l_overlaps := 0; l_uncovered := 0;
     l_thr := fun _ => {| l_pc := LStart; l_iters := iters; l_seen := 0; l_reg := 0 |} |}.

Definition set_thr (s : lsys) (t : nat) (x : lthread) : lsys :=
  {| l_kind := l_kind s; l_n := l_n s; l_lock := l_lock s; l_stamp := l_stamp s;
     l_counter := l_counter s; l_cver := l_cver s; l_incs := l_incs s;
     l_overlaps := l_overlaps s; l_uncovered := l_uncovered s; l_thr := upd (l_thr s) t x |}.
Definition set_pc (x : lthread) (p : lpc) : lthread :=
  {| l_pc := p; l_iters := l_iters x; l_seen := l_seen x; l_reg := l_reg x |}.
Definition set_lock (s : lsys) (v : Z) (st : nat) : lsys :=
  {| l_kind := l_kind s; l_n := l_n s; l_lock := v; l_stamp := st;
     l_counter := l_counter s; l_cver := l_cver s; l_incs := l_incs s;
     l_overlaps := l_overlaps s; l_uncovered := l_uncovered s; l_thr := l_thr s |}.

(* lowest thread id < n asleep in the futex *)
Fixpoint first_blocked (thr : nat -> lthread) (n : nat) : option nat :=
  match n with
  | O => None
  | S m => match first_blocked thr m with
           | Some u => Some u
           | None => match l_pc (thr m) with LBlocked => Some m | _ => None end
           end
  end.

Definition lock_cell : nat := 0%nat.
Definition note_enter : nat := 1%nat.
Definition note_overlap : nat := 2%nat.
Definition note_exit : nat := 3%nat.

Definition acq_join (mo : memorder) (seen stamp : nat) : nat :=
  if is_acq mo then Nat.max seen stamp else seen.
Definition rel_stamp (mo : memorder) (seen : nat) : nat :=
  if is_rel mo then seen else 0%nat.
(* a read-modify-write keeps the release sequence: the stamp is joined, not replaced *)
Definition rmw_stamp (mo : memorder) (seen stamp : nat) : nat :=
  if is_rel mo then Nat.max stamp seen else stamp.

(* [fixed]: false transcribes the synclock loop as first found (a spurious weak-CAS failure
   leaves expected == UNLOCK, the loop condition is false and lock() returns without the
   lock); true transcribes the repaired loop (retry). *)
Definition lstep (P : params) (fixed : bool) (s : lsys) (t : nat) (ch : nat) : option (lsys * label) :=
  let x := l_thr s t in
  let go p := set_thr s t (set_pc x p) in
  if Nat.leb (l_n s) t then None else
  match l_pc x with
  | LStart =>
    match l_iters x with
    | O => Some (go LFin, LPlain [])
    | S _ => Some (go LAcq, LPlain [])
    end
  | LFin => Some (go LDone, LExit)
  | LDone => None
  | LBlocked => None
  | LAcq =>
    match l_kind s with
    | KSpin =>
      let mo := mo_spin_tas P in
      let prev := l_lock s in
      let x' := {| l_pc := if prev =? 0 then LEnterSeg else LAfterFail; l_iters := l_iters x;
                   l_seen := acq_join mo (l_seen x) (l_stamp s); l_reg := l_reg x |} in
      Some (set_thr (set_lock s 1 (rmw_stamp mo (l_seen x) (l_stamp s))) t x',
            LEv (Ev OTas lock_cell mo prev 0 0))
    | KSync =>
      let mo := mo_sync_cas P in
      if l_lock s =? 0 then
        if Nat.eqb ch 1 then
          (* spurious failure: nothing is written, expected keeps the value UNLOCK *)
          Some (go (if fixed then LStart else LEnterSeg), LEv (Ev OCasW lock_cell mo 0 1 2))
        else
          let x' := {| l_pc := LEnterSeg; l_iters := l_iters x;
                       l_seen := acq_join mo (l_seen x) (l_stamp s); l_reg := l_reg x |} in
          Some (set_thr (set_lock s 1 (rmw_stamp mo (l_seen x) (l_stamp s))) t x',
                LEv (Ev OCasW lock_cell mo 0 1 1))
      else Some (go LAfterFail, LEv (Ev OCasW lock_cell mo (l_lock s) 1 0))
    | KMutex | KNest =>
      if l_lock s =? 0 then
        let x' := {| l_pc := LEnterSeg; l_iters := l_iters x;
                     l_seen := Nat.max (l_seen x) (l_stamp s); l_reg := l_reg x |} in
        Some (set_thr (set_lock s 1 (l_stamp s)) t x', LEv (Ev OMlock lock_cell MoNone 0 0 0))
      else None   (* blocked until the owner unlocks *)
    | KNestTry =>
      (* thread 0 takes the mutex with muggle_mutex_lock, the others with a single muggle_mutex_trylock *)
      if l_lock s =? 0 then
        let x' := {| l_pc := LEnterSeg; l_iters := l_iters x;
                     l_seen := Nat.max (l_seen x) (l_stamp s); l_reg := l_reg x |} in
        Some (set_thr (set_lock s 1 (l_stamp s)) t x',
              LEv (if Nat.eqb t 0 then Ev OMlock lock_cell MoNone 0 0 0 else Ev OMtry lock_cell MoNone 1 0 0))
      else if Nat.eqb t 0 then None
      else Some (go LAfterFail, LEv (Ev OMtry lock_cell MoNone 0 0 0))
    | KTry =>
      (* pthread_mutex_trylock never blocks: it takes a free mutex (result 1) or reports busy (result 0);
         muggle_mutex_trylock must map busy to a refusal, on which the client yields and retries *)
      if l_lock s =? 0 then
        let x' := {| l_pc := LEnterSeg; l_iters := l_iters x;
                     l_seen := Nat.max (l_seen x) (l_stamp s); l_reg := l_reg x |} in
        Some (set_thr (set_lock s 1 (l_stamp s)) t x', LEv (Ev OMtry lock_cell MoNone 1 0 0))
      else Some (go LAfterFail, LEv (Ev OMtry lock_cell MoNone 0 0 0))
    end
  | LAfterFail =>
    match l_kind s with
    | KSpin | KTry => Some (go LYield, LPlain [])
    | KNestTry =>
      (* refused: this iteration is given up; the same plain segment runs to the next attempt or to the exit *)
      Some (set_thr s t {| l_pc := match pred (l_iters x) with O => LFin | S _ => LAcq end;
                           l_iters := pred (l_iters x); l_seen := l_seen x; l_reg := l_reg x |}, LPlain [])
    | _ => Some (go LWait, LPlain [])
    end
  | LYield => Some (go LStart, LEv (Ev OYield 0%nat MoNone 0 0 0))
  | LWait =>
    if l_lock s =? 1 then
      (* the wait would block; a futex wait may also be interrupted (EINTR, choice 2) or
         return spuriously (choice 3): the code ignores the result and retries the CAS *)
      if Nat.eqb ch 2 then Some (go LStart, LEv (Ev OFwait lock_cell MoNone 1 1 2))
      else if Nat.eqb ch 3 then Some (go LStart, LEv (Ev OFwait lock_cell MoNone 1 1 3))
      else Some (go LBlocked, LEv (Ev OFwait lock_cell MoNone 1 1 1))
    else Some (go LStart, LEv (Ev OFwait lock_cell MoNone 1 (l_lock s) 0))
  | LEnterSeg =>
    let over := negb (l_incs s =? 0) in
    let cov := Nat.eqb (l_seen x) (l_cver s) in
    let x' := {| l_pc := if nests (l_kind s) && Nat.eqb t 0 then LNest else LCs;
                 l_iters := l_iters x; l_seen := l_seen x; l_reg := l_counter s |} in
    Some ({| l_kind := l_kind s; l_n := l_n s; l_lock := l_lock s; l_stamp := l_stamp s;
             l_counter := l_counter s; l_cver := l_cver s; l_incs := l_incs s + 1;
             l_overlaps := if over then S (l_overlaps s) else l_overlaps s;
             l_uncovered := if cov then l_uncovered s else S (l_uncovered s);
             l_thr := upd (l_thr s) t x' |},
          LPlain [(if over then note_overlap else note_enter, 0)])
  | LNest =>
    (* pthread_mutex_lock on a default mutex that is held: blocked until it is free.  The caller is the holder,
       so it never is (nested_lock_by_owner_is_stuck): the documented self-deadlock *)
    if l_lock s =? 0 then Some (set_thr (set_lock s 1 (l_stamp s)) t (set_pc x LCs), LEv (Ev OMlock lock_cell MoNone 0 0 0))
    else None
  | LCs => Some (go LExitSeg, LEv (Ev OPlain 1%nat MoNone 0 0 0))
  | LExitSeg =>
    let x' := {| l_pc := LRel; l_iters := l_iters x; l_seen := S (l_cver s); l_reg := l_reg x |} in
    Some ({| l_kind := l_kind s; l_n := l_n s; l_lock := l_lock s; l_stamp := l_stamp s;
             l_counter := l_reg x + 1; l_cver := S (l_cver s); l_incs := l_incs s - 1;
             l_overlaps := l_overlaps s; l_uncovered := l_uncovered s;
             l_thr := upd (l_thr s) t x' |},
          LPlain [(note_exit, 0)])
  | LRel =>
    let x1 := {| l_pc := LStart; l_iters := pred (l_iters x); l_seen := l_seen x; l_reg := l_reg x |} in
    match l_kind s with
    | KSpin =>
      let mo := mo_spin_clear P in
      Some (set_thr (set_lock s 0 (rel_stamp mo (l_seen x))) t x1, LEv (Ev OClear lock_cell mo 0 0 0))
    | KSync =>
      let mo := mo_sync_store P in
      Some (set_thr (set_lock s 0 (rel_stamp mo (l_seen x))) t (set_pc x LRelSeg),
            LEv (Ev OStore lock_cell mo 0 0 0))
    | KMutex | KTry | KNest | KNestTry =>
      Some (set_thr (set_lock s 0 (l_seen x)) t x1, LEv (Ev OMunlock lock_cell MoNone 0 0 0))
    end
  | LRelSeg => Some (go LWake, LPlain [])
  | LWake =>
    let x1 := {| l_pc := LStart; l_iters := pred (l_iters x); l_seen := l_seen x; l_reg := l_reg x |} in
    match first_blocked (l_thr s) (l_n s) with
    | Some u =>
      let s1 := set_thr s u (set_pc (l_thr s u) LStart) in
      Some (set_thr s1 t x1, LEv (Ev OFwake lock_cell MoNone 1 1 0))
    | None => Some (set_thr s t x1, LEv (Ev OFwake lock_cell MoNone 1 0 0))
    end
  end.

(* ------------------------------------------------------------------ *)
(* 2. call_once: any number of once-flags in flight                    *)

Inductive opc :=
  | CStart | CCas | CFunc1 | CBody | CFunc2 | CStore | CLoadSeg | CLoad | CRetSeg | CFin | CDone.

(* A thread runs a script of calls muggle_call_once(&flag[c], func[c]): o_cur is the flag of the call in
   progress, o_todo the flags of the calls still to make (the same flag may come again: a call after READY).
   Per flag c: the plain cell written by func[c] (o_done c, version o_dver c), the thread's view of it
   (o_seen x c) and the number of calls on c the thread has completed (o_rets x c).  The stamp of flag c carries
   the view of func[c]'s cell only; that a release also publishes the storer's view of the other flags' cells is
   left out (the model promises less visibility than C11, never more). *)
Record othread := { o_pc : opc; o_cur : nat; o_todo : list nat; o_seen : nat -> nat; o_rets : nat -> nat }.
Record osys := {
  o_n : nat;
  o_flag : nat -> Z;            (* 0 INIT, 1 WAIT, 2 READY *)
  o_stamp : nat -> nat;
  o_runs : nat -> nat;          (* how many times the function body of this flag started *)
  o_done : nat -> Z;            (* plain cell written by the function of this flag *)
  o_dver : nat -> nat;
  o_early : nat -> nat;         (* callers that returned before the body finished or without seeing its write *)
  o_thr : nat -> othread;
}.
(* scripts t = the flags thread t calls, in order (an empty script counts as one call on flag 0) *)
Definition oinit (n : nat) (scripts : nat -> list nat) : osys :=
  {| o_n := n; o_flag := fun _ => 0; o_stamp := fun _ => 0%nat; o_runs := fun _ => 0%nat; o_done := fun _ => 0;
     o_dver := fun _ => 0%nat; o_early := fun _ => 0%nat;
     o_thr := fun t => {| o_pc := CStart; o_cur := hd 0%nat (scripts t); o_todo := tl (scripts t);
                          o_seen := fun _ => 0%nat; o_rets := fun _ => 0%nat |} |}.
(* the scenarios with one flag: every thread calls it [calls] times *)
Definition oinit1 (n calls : nat) : osys := oinit n (fun _ => repeat 0%nat calls).

Definition oset (s : osys) (t : nat) (x : othread) : osys :=
  {| o_n := o_n s; o_flag := o_flag s; o_stamp := o_stamp s; o_runs := o_runs s; o_done := o_done s;
     o_dver := o_dver s; o_early := o_early s; o_thr := upd (o_thr s) t x |}.
Definition flag_cell (c : nat) : nat := (2 * c)%nat.
Definition body_cell (c : nat) : nat := (2 * c + 1)%nat.
Definition note_fbegin : nat := 4%nat.
Definition note_fend : nat := 5%nat.
Definition note_ret : nat := 6%nat.

Definition ostep (P : params) (s : osys) (t : nat) (ch : nat) : option (osys * label) :=
  let x := o_thr s t in
  let c := o_cur x in
  let mkt p sn := {| o_pc := p; o_cur := c; o_todo := o_todo x; o_seen := upd (o_seen x) c sn; o_rets := o_rets x |} in
  let go p := oset s t {| o_pc := p; o_cur := c; o_todo := o_todo x; o_seen := o_seen x; o_rets := o_rets x |} in
  if Nat.leb (o_n s) t then None else
  match o_pc x with
  | CStart => Some (go CCas, LPlain [])
  | CCas =>
    let mo := mo_once_cas P in
    if o_flag s c =? 0 then
      Some ({| o_n := o_n s; o_flag := upd (o_flag s) c 1;
               o_stamp := upd (o_stamp s) c (rmw_stamp mo (o_seen x c) (o_stamp s c));
               o_runs := o_runs s; o_done := o_done s; o_dver := o_dver s; o_early := o_early s;
               o_thr := upd (o_thr s) t (mkt CFunc1 (acq_join mo (o_seen x c) (o_stamp s c))) |},
            LEv (Ev OCasS (flag_cell c) mo 0 1 1))
    else Some (go CLoadSeg, LEv (Ev OCasS (flag_cell c) mo (o_flag s c) 1 0))
  | CFunc1 =>
    Some ({| o_n := o_n s; o_flag := o_flag s; o_stamp := o_stamp s; o_runs := upd (o_runs s) c (S (o_runs s c));
             o_done := o_done s; o_dver := o_dver s; o_early := o_early s;
             o_thr := upd (o_thr s) t (mkt CBody (o_seen x c)) |},
          LPlain [(note_fbegin, Z.of_nat c)])
  | CBody => Some (go CFunc2, LEv (Ev OPlain (body_cell c) MoNone 0 0 0))
  | CFunc2 =>
    Some ({| o_n := o_n s; o_flag := o_flag s; o_stamp := o_stamp s; o_runs := o_runs s;
             o_done := upd (o_done s) c 1; o_dver := upd (o_dver s) c (S (o_dver s c)); o_early := o_early s;
             o_thr := upd (o_thr s) t (mkt CStore (S (o_dver s c))) |},
          LPlain [(note_fend, Z.of_nat c)])
  | CStore =>
    let mo := mo_once_store P in
    Some ({| o_n := o_n s; o_flag := upd (o_flag s) c 2; o_stamp := upd (o_stamp s) c (rel_stamp mo (o_seen x c));
             o_runs := o_runs s; o_done := o_done s; o_dver := o_dver s; o_early := o_early s;
             o_thr := upd (o_thr s) t (mkt CRetSeg (o_seen x c)) |},
          LEv (Ev OStore (flag_cell c) mo 2 0 0))
  | CLoadSeg => Some (go CLoad, LPlain [])
  | CLoad =>
    let mo := mo_once_load P in
    let x' := mkt (if o_flag s c =? 2 then CRetSeg else CLoadSeg) (acq_join mo (o_seen x c) (o_stamp s c)) in
    Some (oset s t x', LEv (Ev OLoad (flag_cell c) mo (o_flag s c) 0 0))
  | CRetSeg =>
    let good := (o_done s c =? 1) && Nat.eqb (o_seen x c) (o_dver s c) in
    (* the caller returns; if it has another call to make the same plain segment runs up to that call's
       compare-exchange *)
    let x' := match o_todo x with
              | [] => {| o_pc := CFin; o_cur := c; o_todo := []; o_seen := o_seen x;
                         o_rets := upd (o_rets x) c (S (o_rets x c)) |}
              | g :: r => {| o_pc := CCas; o_cur := g; o_todo := r; o_seen := o_seen x;
                             o_rets := upd (o_rets x) c (S (o_rets x c)) |}
              end in
    Some ({| o_n := o_n s; o_flag := o_flag s; o_stamp := o_stamp s; o_runs := o_runs s;
             o_done := o_done s; o_dver := o_dver s;
             o_early := if good then o_early s else upd (o_early s) c (S (o_early s c));
             o_thr := upd (o_thr s) t x' |},
          LPlain [(note_ret, 2 * Z.of_nat c + o_done s c)])
  | CFin => Some (go CDone, LExit)
  | CDone => None
  end.

(* ------------------------------------------------------------------ *)
(* 3. reference counter                                                *)

Inductive rop := Retain | Release.
Inductive rpc := RSeg | RCas (v des : Z) | RFin | RDone.
Record rthread := { r_pc : rpc; r_ops : list rop; r_pend : list (nat * Z) }.
(* muggle_ref_cnt_t = muggle_atomic_int = int (tied to the C types by ref_counter_type_matches_model):
   `desired = v + 1` at v = INT_MAX is a signed overflow, i.e. undefined behaviour; the code has no refusal
   there.  The model counts such computations in the ghost r_ovf (and goes on with the mathematical v + 1);
   the theorems about the counter are stated for executions in which it stays 0, which is guaranteed when
   the initial value plus the number of retains does not exceed ref_max. *)
Definition ref_bits : Z := 32.
Definition ref_max : Z := 2147483647.
Record rsys := {
  r_n : nat;
  r_ref : Z;
  r_ovf : nat;                  (* ghost: how many times v + 1 was computed at v >= ref_max (undefined in C) *)
  r_lin : list (rop * Z);       (* ghost: operations in linearisation order with their results *)
  r_thr : nat -> rthread;
}.
Definition rinit (n : nat) (v : Z) (scripts : nat -> list rop) : rsys :=
  {| r_n := n; r_ref := v; r_ovf := 0; r_lin := []; r_thr := fun t => {| r_pc := RSeg; r_ops := scripts t; r_pend := [] |} |}.
Definition ref_cell : nat := 0%nat.
Definition note_retain : nat := 7%nat.
Definition note_release : nat := 8%nat.
Definition rnote (o : rop) : nat := match o with Retain => note_retain | Release => note_release end.
Definition rdes (o : rop) (v : Z) : Z := match o with Retain => v + 1 | Release => v - 1 end.
(* one pass through the loop body of muggle_ref_cnt_retain / _release as a function of the value read from
   *ref: None = return -1 without touching the counter; Some (expected, desired, result once the
   compare-exchange succeeds).  lib/props/c04_slice.py regenerates this function from the C text on every run
   (gen_ref_retain / gen_ref_release, obligation ref_loop_body_matches_model); rbody_drives_rstep ties it to rstep. *)
Definition rbody (o : rop) (v : Z) : option (Z * Z * Z) :=
  if v =? 0 then None else Some (v, rdes o v, rdes o v).
Definition rovf (o : rop) (v : Z) : bool := match o with Retain => ref_max <=? v | Release => false end.

(* the plain segment: while the counter reads 0 every pending operation fails at once
   (no scheduling point); the first operation that reads v <> 0 stops at its CAS *)
Fixpoint rseg (ref : Z) (ops : list rop) : list (nat * Z) * list (rop * Z) :=
  match ops with
  | [] => ([], [])
  | o :: r => if ref =? 0 then let (ns, ls) := rseg ref r in ((rnote o, -1) :: ns, (o, -1) :: ls)
              else ([], [])
  end.
Fixpoint rseg_rest (ref : Z) (ops : list rop) : list rop :=
  match ops with
  | [] => []
  | o :: r => if ref =? 0 then rseg_rest ref r else ops
  end.

Definition rstep (P : params) (s : rsys) (t : nat) (ch : nat) : option (rsys * label) :=
  let x := r_thr s t in
  if Nat.leb (r_n s) t then None else
  match r_pc x with
  | RSeg =>
    let (ns, ls) := rseg (r_ref s) (r_ops x) in
    let rest := rseg_rest (r_ref s) (r_ops x) in
    let pc' := match rest with [] => RFin | o :: _ => RCas (r_ref s) (rdes o (r_ref s)) end in
    let ov := match rest with [] => false | o :: _ => rovf o (r_ref s) end in
    Some ({| r_n := r_n s; r_ref := r_ref s; r_ovf := if ov then S (r_ovf s) else r_ovf s; r_lin := r_lin s ++ ls;
             r_thr := upd (r_thr s) t {| r_pc := pc'; r_ops := rest; r_pend := [] |} |}, LPlain (r_pend x ++ ns))
  | RCas v des =>
    match r_ops x with
    | [] => None
    | o :: rest =>
      let mo := mo_ref_cas P in
      if r_ref s =? v then
        (* success: the operation returns des; its note is printed in the following segment *)
        Some ({| r_n := r_n s; r_ref := des; r_ovf := r_ovf s; r_lin := r_lin s ++ [(o, des)];
                 r_thr := upd (r_thr s) t {| r_pc := RSeg; r_ops := rest; r_pend := [(rnote o, des)] |} |},
              LEv (Ev OCasS ref_cell mo v des 1))
      else
        Some ({| r_n := r_n s; r_ref := r_ref s; r_ovf := r_ovf s; r_lin := r_lin s;
                 r_thr := upd (r_thr s) t {| r_pc := RSeg; r_ops := r_ops x; r_pend := [] |} |},
              LEv (Ev OCasS ref_cell mo (r_ref s) des 0))
    end
  | RFin => Some ({| r_n := r_n s; r_ref := r_ref s; r_ovf := r_ovf s; r_lin := r_lin s;
                     r_thr := upd (r_thr s) t {| r_pc := RDone; r_ops := r_ops x; r_pend := [] |} |}, LExit)
  | RDone => None
  end.

(* sequential specification of the saturating counter *)
Definition rspec (v : Z) (o : rop) : Z * Z :=   (* (new value, result) *)
  if v =? 0 then (0, -1) else (rdes o v, rdes o v).
Fixpoint rspec_run (v : Z) (ops : list rop) : Z * list Z :=
  match ops with
  | [] => (v, [])
  | o :: r => let (v1, x) := rspec v o in let (v2, xs) := rspec_run v1 r in (v2, x :: xs)
  end.
