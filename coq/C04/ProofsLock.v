(* C04 — locks: mutual exclusion and visibility for every schedule, any number of threads. *)
From MV Require Import C04.Model.
Local Open Scope Z_scope.

Definition holds (p : lpc) : bool :=
  match p with LEnterSeg | LNest | LCs | LExitSeg | LRel => true | _ => false end.
Definition inside (p : lpc) : bool :=
  match p with LNest | LCs | LExitSeg => true | _ => false end.

(* memory orders that make the hand-over of the protected data sound *)
Definition lock_mo_ok (P : params) (k : lkind) : bool :=
  match k with
  | KSpin => is_acq (mo_spin_tas P) && is_rel (mo_spin_clear P)
  | KSync => is_acq (mo_sync_cas P) && is_rel (mo_sync_store P)
  | KMutex | KTry | KNest | KNestTry => true
  end.

Record LInv (s : lsys) : Prop := {
  li_lock01 : l_lock s = 0 \/ l_lock s = 1;
  li_excl : forall t u, holds (l_pc (l_thr s t)) = true -> holds (l_pc (l_thr s u)) = true -> t = u;
  li_free : l_lock s = 0 -> forall t, holds (l_pc (l_thr s t)) = false;
  li_incs0 : (forall t, inside (l_pc (l_thr s t)) = false) -> l_incs s = 0;
  li_incs1 : forall t, inside (l_pc (l_thr s t)) = true -> l_incs s = 1;
  li_noover : l_overlaps s = 0%nat;
}.

Record VInv (s : lsys) : Prop := {
  vi_stamp_le : (l_stamp s <= l_cver s)%nat;
  vi_seen_le : forall t, (l_seen (l_thr s t) <= l_cver s)%nat;
  vi_free : l_lock s = 0 -> l_stamp s = l_cver s;
  vi_holder : forall t, holds (l_pc (l_thr s t)) = true -> l_seen (l_thr s t) = l_cver s;
  vi_cov : l_uncovered s = 0%nat;
}.

Ltac thr_cases :=
  repeat match goal with
  | |- context [upd _ ?t _ ?u] =>
    unfold upd; destruct (Nat.eqb_spec u t); subst
  | H : context [upd _ ?t _ ?u] |- _ =>
    unfold upd in H; destruct (Nat.eqb_spec u t); subst
  end.

Lemma linit_inv k n it : LInv (linit k n it).
Proof. constructor; simpl; auto; try discriminate. Qed.
Lemma linit_vinv k n it : VInv (linit k n it).
Proof. constructor; simpl; auto; try discriminate; try lia. Qed.

(* a small fact about the futex wake-up: the woken thread was asleep *)
Lemma first_blocked_spec thr n u : first_blocked thr n = Some u -> l_pc (thr u) = LBlocked.
Proof.
  induction n as [|m IH]; simpl; [discriminate|].
  destruct (first_blocked thr m) as [v|] eqn:E.
  - intros H; inversion H; subst. now apply IH.
  - destruct (l_pc (thr m)) eqn:Ep; try discriminate. intros H; inversion H; subst. exact Ep.
Qed.

Ltac inv_some H := inversion H; subst; clear H.

Lemma inside_holds p : inside p = true -> holds p = true.
Proof. destruct p; simpl; congruence. Qed.

Ltac upd_all := simpl in *; repeat (match goal with
  | H : context [upd _ ?t _ ?a] |- _ => unfold upd in H; destruct (Nat.eqb_spec a t); subst
  | |- context [upd _ ?t _ ?a] => unfold upd; destruct (Nat.eqb_spec a t); subst
  | H : context [if Nat.eqb ?a ?t then _ else _] |- _ => destruct (Nat.eqb_spec a t); subst
  | |- context [if Nat.eqb ?a ?t then _ else _] => destruct (Nat.eqb_spec a t); subst
  end; simpl in * ).

(* contradiction from "nobody holds" style facts *)
Ltac no_holder :=
  match goal with
  | Hf : forall x, holds (l_pc (l_thr ?s x)) = false, H : holds (l_pc (l_thr ?s ?a)) = true |- _ =>
    rewrite (Hf a) in H; discriminate
  | Hf : forall x, x <> ?t -> holds (l_pc (l_thr ?s x)) = false, H : holds (l_pc (l_thr ?s ?a)) = true |- _ =>
    rewrite (Hf a) in H by assumption; discriminate
  | Hf : forall x, inside (l_pc (l_thr ?s x)) = false, H : inside (l_pc (l_thr ?s ?a)) = true |- _ =>
    rewrite (Hf a) in H; discriminate
  end.

Ltac g_excl Hex :=
  let a := fresh "a" in let b := fresh "b" in let Ha := fresh "Ha" in let Hb := fresh "Hb" in
  intros a b Ha Hb; upd_all; simpl in *; try discriminate; try reflexivity;
  first [ apply Hex; assumption | symmetry; apply Hex; assumption | exfalso; no_holder | congruence ].

Ltac g_free Hfree t :=
  let Hl := fresh "Hl" in let a := fresh "a" in
  intros Hl a; try discriminate; upd_all; simpl in *; try reflexivity; try discriminate;
  first [ apply Hfree; assumption | exfalso; specialize (Hfree Hl t); congruence | no_holder
        | match goal with Hf : forall x, x <> t -> holds _ = false |- _ => apply Hf; assumption end
        | congruence ].

Ltac g_incs0 Hi0 t :=
  let Hall := fresh "Hall" in let a := fresh "a" in
  intros Hall;
  first [ lia
        | solve [exfalso; specialize (Hall t); unfold upd in Hall; rewrite Nat.eqb_refl in Hall;
                 simpl in Hall; discriminate]
        | apply Hi0; intros a; specialize (Hall a); upd_all; simpl in *; auto; congruence ].

Ltac g_incs1 Hi1 Hex t :=
  let a := fresh "a" in let Ha := fresh "Ha" in
  intros a Ha; upd_all; simpl in *; try discriminate;
  first [ lia | eapply Hi1; eassumption
        | exfalso; no_holder
        | exfalso; match goal with n : ?x <> t |- _ => apply n; apply Hex;
                     [apply inside_holds; assumption | assumption] end ].

Lemma lstep_linv P s t ch s' l : LInv s -> lstep P true s t ch = Some (s', l) -> LInv s'.
Proof.
  intros [H01 Hex Hfree Hi0 Hi1 Hov] Hs. unfold lstep in Hs.
  destruct (Nat.leb (l_n s) t); [discriminate|].
  destruct (l_pc (l_thr s t)) eqn:Epc;
    pose proof (f_equal holds Epc) as Ht; pose proof (f_equal inside Epc) as Hin; simpl in Ht, Hin.
  - (* LStart *)
    destruct (l_iters (l_thr s t)); inv_some Hs;
      (constructor; simpl; [auto | g_excl Hex | g_free Hfree t | g_incs0 Hi0 t | g_incs1 Hi1 Hex t | auto]).
  - (* LAcq *)
    destruct (l_kind s).
    + (* spin: test_and_set *)
      inv_some Hs. destruct H01 as [L0|L1].
      * rewrite L0; simpl. pose proof (Hfree L0) as Hnobody.
        constructor; simpl; [auto | g_excl Hex | g_free Hfree t | g_incs0 Hi0 t | g_incs1 Hi1 Hex t | auto].
      * rewrite L1; simpl.
        constructor; simpl; [auto | g_excl Hex | g_free Hfree t | g_incs0 Hi0 t | g_incs1 Hi1 Hex t | auto].
    + (* sync: weak compare-exchange *)
      destruct (Z.eqb_spec (l_lock s) 0) as [L0|L0].
      * pose proof (Hfree L0) as Hnobody.
        destruct (Nat.eqb ch 1); inv_some Hs;
          (constructor; simpl; [auto | g_excl Hex | g_free Hfree t | g_incs0 Hi0 t | g_incs1 Hi1 Hex t | auto]).
      * inv_some Hs.
        constructor; simpl; [auto | g_excl Hex | g_free Hfree t | g_incs0 Hi0 t | g_incs1 Hi1 Hex t | auto].
    + (* mutex *)
      destruct (Z.eqb_spec (l_lock s) 0) as [L0|L0]; [|discriminate]. inv_some Hs.
      pose proof (Hfree L0) as Hnobody.
      constructor; simpl; [auto | g_excl Hex | g_free Hfree t | g_incs0 Hi0 t | g_incs1 Hi1 Hex t | auto].
    + (* trylock loop: takes a free mutex, is refused on a held one *)
      destruct (Z.eqb_spec (l_lock s) 0) as [L0|L0].
      * inv_some Hs. pose proof (Hfree L0) as Hnobody.
        constructor; simpl; [auto | g_excl Hex | g_free Hfree t | g_incs0 Hi0 t | g_incs1 Hi1 Hex t | auto].
      * inv_some Hs.
        constructor; simpl; [auto | g_excl Hex | g_free Hfree t | g_incs0 Hi0 t | g_incs1 Hi1 Hex t | auto].
    + (* nested client, contenders lock: as the mutex *)
      destruct (Z.eqb_spec (l_lock s) 0) as [L0|L0]; [|discriminate]. inv_some Hs.
      pose proof (Hfree L0) as Hnobody.
      constructor; simpl; [auto | g_excl Hex | g_free Hfree t | g_incs0 Hi0 t | g_incs1 Hi1 Hex t | auto].
    + (* nested client, contenders trylock once *)
      destruct (Z.eqb_spec (l_lock s) 0) as [L0|L0].
      * inv_some Hs. pose proof (Hfree L0) as Hnobody.
        constructor; simpl; [auto | g_excl Hex | g_free Hfree t | g_incs0 Hi0 t | g_incs1 Hi1 Hex t | auto].
      * destruct (Nat.eqb t 0); [discriminate|]. inv_some Hs.
        constructor; simpl; [auto | g_excl Hex | g_free Hfree t | g_incs0 Hi0 t | g_incs1 Hi1 Hex t | auto].
  - (* LAfterFail *)
    destruct (l_kind s); try destruct (pred (l_iters (l_thr s t))); inv_some Hs;
      (constructor; simpl; [auto | g_excl Hex | g_free Hfree t | g_incs0 Hi0 t | g_incs1 Hi1 Hex t | auto]).
  - (* LYield *)
    inv_some Hs;
      (constructor; simpl; [auto | g_excl Hex | g_free Hfree t | g_incs0 Hi0 t | g_incs1 Hi1 Hex t | auto]).
  - (* LWait *)
    destruct (l_lock s =? 1); [destruct (Nat.eqb ch 2); [|destruct (Nat.eqb ch 3)]|]; inv_some Hs;
      (constructor; simpl; [auto | g_excl Hex | g_free Hfree t | g_incs0 Hi0 t | g_incs1 Hi1 Hex t | auto]).
  - (* LBlocked *) discriminate.
  - (* LEnterSeg: nobody else is inside *)
    assert (Hnone : forall a, inside (l_pc (l_thr s a)) = false).
    { intros a. destruct (inside (l_pc (l_thr s a))) eqn:Ei; [|reflexivity].
      assert (a = t) by (apply Hex; [now apply inside_holds|assumption]).
      subst. congruence. }
    pose proof (Hi0 Hnone) as I0. rewrite I0 in Hs. simpl in Hs.
    destruct (nests (l_kind s) && Nat.eqb t 0); inv_some Hs;
    (constructor; simpl; [auto | g_excl Hex | g_free Hfree t | g_incs0 Hi0 t | g_incs1 Hi1 Hex t | auto]).
  - (* LNest: the caller holds the mutex, so it is not free: the nested lock is not enabled *)
    destruct (Z.eqb_spec (l_lock s) 0) as [L0|L0]; [|discriminate].
    exfalso. pose proof (Hfree L0 t) as Hc. congruence.
  - (* LCs *)
    inv_some Hs.
    constructor; simpl; [auto | g_excl Hex | g_free Hfree t | g_incs0 Hi0 t | g_incs1 Hi1 Hex t | auto].
  - (* LExitSeg *)
    pose proof (Hi1 t Hin) as I1.
    inv_some Hs.
    constructor; simpl; [auto | g_excl Hex | g_free Hfree t | g_incs0 Hi0 t | g_incs1 Hi1 Hex t | auto].
  - (* LRel: the holder leaves; nobody else held *)
    assert (Hoth : forall a, a <> t -> holds (l_pc (l_thr s a)) = false).
    { intros a Hne. destruct (holds (l_pc (l_thr s a))) eqn:Eh; [|reflexivity].
      exfalso. apply Hne. apply Hex; assumption. }
    destruct (l_kind s); inv_some Hs;
      (constructor; simpl; [auto | g_excl Hex | g_free Hfree t | g_incs0 Hi0 t | g_incs1 Hi1 Hex t | auto]).
  - (* LRelSeg *)
    inv_some Hs;
      (constructor; simpl; [auto | g_excl Hex | g_free Hfree t | g_incs0 Hi0 t | g_incs1 Hi1 Hex t | auto]).
  - (* LWake *)
    destruct (first_blocked (l_thr s) (l_n s)) as [u|] eqn:Ef.
    + pose proof (first_blocked_spec _ _ _ Ef) as Hu.
      pose proof (f_equal holds Hu) as Hu1; pose proof (f_equal inside Hu) as Hu2; simpl in Hu1, Hu2.
      inv_some Hs.
      constructor; simpl; [auto | g_excl Hex | g_free Hfree t | g_incs0 Hi0 t | g_incs1 Hi1 Hex t | auto].
    + inv_some Hs.
      constructor; simpl; [auto | g_excl Hex | g_free Hfree t | g_incs0 Hi0 t | g_incs1 Hi1 Hex t | auto].
  - (* LFin *)
    inv_some Hs;
      (constructor; simpl; [auto | g_excl Hex | g_free Hfree t | g_incs0 Hi0 t | g_incs1 Hi1 Hex t | auto]).
  - (* LDone *) discriminate.
Qed.

(* every reachable state, every schedule (thread, choice) list, any number of threads *)
Theorem lock_mutual_exclusion P k n it sched :
  LInv (exec lsys (lstep P true) (linit k n it) sched).
Proof. apply inv_exec; [|apply linit_inv]. intros; eapply lstep_linv; eauto. Qed.

(* ---------------- visibility: the next holder sees the previous holder's writes ---------------- *)

Lemma lstep_kind P f s t ch s' l : lstep P f s t ch = Some (s', l) -> l_kind s' = l_kind s.
Proof.
  unfold lstep. destruct (Nat.leb (l_n s) t); [discriminate|].
  destruct (l_pc (l_thr s t)); try discriminate;
    repeat match goal with
    | |- context [match ?x with _ => _ end] => destruct x eqn:?
    end; intros H; inversion H; subst; simpl; congruence.
Qed.

Ltac vprep :=
  unfold acq_join, rmw_stamp, rel_stamp in *;
  repeat match goal with
  | H : is_acq ?m = true |- _ => rewrite H in *; clear H
  | H : is_rel ?m = true |- _ => rewrite H in *; clear H
  end;
  repeat match goal with
  | |- context [if is_rel ?m then _ else _] => destruct (is_rel m)
  | |- context [if is_acq ?m then _ else _] => destruct (is_acq m)
  end.

Ltac v_stamp := vprep; simpl; lia.
Ltac v_seen Vse := let a := fresh "a" in intros a; pose proof (Vse a); upd_all; vprep; simpl in *; lia.
Ltac v_free Hfree t :=
  let Hl := fresh "Hl" in intros Hl; try discriminate; vprep; simpl in *;
  first [ lia | solve [auto] | exfalso; specialize (Hfree Hl t); congruence ].
Ltac v_holder Vse Vho Hex :=
  let a := fresh "a" in let Ha := fresh "Ha" in
  intros a Ha; pose proof (Vse a); upd_all; vprep; simpl in *; try discriminate;
  first [ lia | apply Vho; assumption | exfalso; no_holder
        | exfalso; match goal with n : ?x <> _ |- _ => apply n; apply Hex; assumption end
        | (pose proof (Vho a Ha); lia) ].
Ltac v_all Vse Vho Hex Hfree t :=
  constructor; simpl; [v_stamp | v_seen Vse | v_free Hfree t | v_holder Vse Vho Hex | auto].

Lemma lstep_vinv P s t ch s' l :
  lock_mo_ok P (l_kind s) = true -> LInv s -> VInv s ->
  lstep P true s t ch = Some (s', l) -> VInv s'.
Proof.
  intros Hmo [H01 Hex Hfree Hi0 Hi1 Hov] [Vst Vse Vfr Vho Vco] Hs. unfold lstep in Hs.
  destruct (Nat.leb (l_n s) t); [discriminate|].
  pose proof (Vse t) as Vt.
  destruct (l_pc (l_thr s t)) eqn:Epc;
    pose proof (f_equal holds Epc) as Ht; simpl in Ht.
  - destruct (l_iters (l_thr s t)); inv_some Hs; v_all Vse Vho Hex Hfree t.
  - destruct (l_kind s) eqn:Ek; simpl in Hmo.
    + apply andb_prop in Hmo as [Ma Mr]. inv_some Hs.
      destruct H01 as [L0|L1].
      * rewrite L0; simpl. pose proof (Vfr L0) as Sf. pose proof (Hfree L0) as Hnobody.
        v_all Vse Vho Hex Hfree t.
      * rewrite L1; simpl. v_all Vse Vho Hex Hfree t.
    + apply andb_prop in Hmo as [Ma Mr].
      destruct (Z.eqb_spec (l_lock s) 0) as [L0|L0].
      * pose proof (Vfr L0) as Sf. pose proof (Hfree L0) as Hnobody.
        destruct (Nat.eqb ch 1); inv_some Hs; v_all Vse Vho Hex Hfree t.
      * inv_some Hs. v_all Vse Vho Hex Hfree t.
    + destruct (Z.eqb_spec (l_lock s) 0) as [L0|L0]; [|discriminate]. inv_some Hs.
      pose proof (Vfr L0) as Sf. pose proof (Hfree L0) as Hnobody.
      v_all Vse Vho Hex Hfree t.
    + destruct (Z.eqb_spec (l_lock s) 0) as [L0|L0].
      * inv_some Hs. pose proof (Vfr L0) as Sf. pose proof (Hfree L0) as Hnobody.
        v_all Vse Vho Hex Hfree t.
      * inv_some Hs. v_all Vse Vho Hex Hfree t.
    + destruct (Z.eqb_spec (l_lock s) 0) as [L0|L0]; [|discriminate]. inv_some Hs.
      pose proof (Vfr L0) as Sf. pose proof (Hfree L0) as Hnobody.
      v_all Vse Vho Hex Hfree t.
    + destruct (Z.eqb_spec (l_lock s) 0) as [L0|L0].
      * inv_some Hs. pose proof (Vfr L0) as Sf. pose proof (Hfree L0) as Hnobody.
        v_all Vse Vho Hex Hfree t.
      * destruct (Nat.eqb t 0); [discriminate|]. inv_some Hs. v_all Vse Vho Hex Hfree t.
  - destruct (l_kind s); try destruct (pred (l_iters (l_thr s t))); inv_some Hs; v_all Vse Vho Hex Hfree t.
  - inv_some Hs; v_all Vse Vho Hex Hfree t.
  - destruct (l_lock s =? 1); [destruct (Nat.eqb ch 2); [|destruct (Nat.eqb ch 3)]|]; inv_some Hs; v_all Vse Vho Hex Hfree t.
  - discriminate.
  - (* LEnterSeg: the read of the counter is covered *)
    pose proof (Vho t Ht) as Hcov.
    destruct (nests (l_kind s) && Nat.eqb t 0); inv_some Hs;
    (constructor; simpl; [v_stamp | v_seen Vse | v_free Hfree t | v_holder Vse Vho Hex | ]);
    rewrite Hcov, Nat.eqb_refl; assumption.
  - (* LNest: not enabled while the caller holds the mutex *)
    destruct (Z.eqb_spec (l_lock s) 0) as [L0|L0]; [|discriminate].
    exfalso. pose proof (Hfree L0 t) as Hc. congruence.
  - inv_some Hs; v_all Vse Vho Hex Hfree t.
  - (* LExitSeg: the write advances the version; only the holder's view follows *)
    inv_some Hs. v_all Vse Vho Hex Hfree t.
  - (* LRel: the release stamps the lock cell with the holder's view *)
    pose proof (Vho t Ht) as Hcov.
    destruct (l_kind s) eqn:Ek; simpl in Hmo; inv_some Hs.
    + apply andb_prop in Hmo as [Ma Mr]. v_all Vse Vho Hex Hfree t.
    + apply andb_prop in Hmo as [Ma Mr]. v_all Vse Vho Hex Hfree t.
    + v_all Vse Vho Hex Hfree t.
    + v_all Vse Vho Hex Hfree t.
    + v_all Vse Vho Hex Hfree t.
    + v_all Vse Vho Hex Hfree t.
  - inv_some Hs; v_all Vse Vho Hex Hfree t.
  - destruct (first_blocked (l_thr s) (l_n s)) as [u|] eqn:Ef.
    + pose proof (first_blocked_spec _ _ _ Ef) as Hu.
      pose proof (f_equal holds Hu) as Hu1; simpl in Hu1.
      inv_some Hs. v_all Vse Vho Hex Hfree t.
    + inv_some Hs. v_all Vse Vho Hex Hfree t.
  - inv_some Hs; v_all Vse Vho Hex Hfree t.
  - discriminate.
Qed.

Definition LockInv (k : lkind) (s : lsys) : Prop := l_kind s = k /\ LInv s /\ VInv s.

Theorem lock_invariants P k n it sched :
  lock_mo_ok P k = true ->
  LockInv k (exec lsys (lstep P true) (linit k n it) sched).
Proof.
  intros Hmo. apply inv_exec.
  - intros s t c s' l (Hk & HL & HV) Hs. split; [|split].
    + rewrite <- Hk. eapply lstep_kind; eauto.
    + eapply lstep_linv; eauto.
    + eapply lstep_vinv; eauto. now rewrite Hk.
  - split; [reflexivity|]. split; [apply linit_inv|apply linit_vinv].
Qed.

(* Readable corollaries. *)
Corollary lock_at_most_one_holder P k n it sched t u :
  let s := exec lsys (lstep P true) (linit k n it) sched in
  holds (l_pc (l_thr s t)) = true -> holds (l_pc (l_thr s u)) = true -> t = u.
Proof. intros s. apply (li_excl _ (lock_mutual_exclusion P k n it sched)). Qed.

Corollary lock_no_overlap_observed P k n it sched :
  l_overlaps (exec lsys (lstep P true) (linit k n it) sched) = 0%nat.
Proof. apply (li_noover _ (lock_mutual_exclusion P k n it sched)). Qed.

Corollary lock_reads_covered P k n it sched :
  lock_mo_ok P k = true ->
  l_uncovered (exec lsys (lstep P true) (linit k n it) sched) = 0%nat.
Proof. intros H. destruct (lock_invariants P k n it sched H) as (_ & _ & V). apply (vi_cov _ V). Qed.

(* The loop as first found (fixed = false) is refuted: one spurious weak-CAS failure lets a
   second thread in.  Schedule: T0 acquires and enters; T1's CAS on the... no: T1 must see the
   lock FREE to fail spuriously, so: T1 fails spuriously first and walks in, then T0 acquires. *)
Definition any_params : params :=
  {| mo_spin_tas := Acq; mo_spin_clear := Rel; mo_sync_cas := Acq; mo_sync_store := Rel;
     mo_once_cas := Rlx; mo_once_store := Rel; mo_once_load := Acq; mo_ref_cas := Rlx |}.
Definition refute_sched : list (nat * nat) :=
  [(1, 0); (1, 1); (1, 0); (0, 0); (0, 0); (0, 0)]%nat.
Example sync_mutex_refuted_before_fix :
  l_overlaps (exec lsys (lstep any_params false) (linit KSync 2 1) refute_sched) = 1%nat.
Proof. vm_compute. reflexivity. Qed.

(* non-vacuity: the invariants speak about states in which a thread really is inside *)
Example lock_nonvacuous :
  let s := exec lsys (lstep any_params true) (linit KSync 2 1) [(0,0);(0,0);(0,0);(1,0);(1,0)]%nat in
  holds (l_pc (l_thr s 0%nat)) = true /\ l_pc (l_thr s 1%nat) = LAfterFail.
Proof. vm_compute. split; reflexivity. Qed.

(* the trylock loop: a thread is inside while another one has just been refused *)
Example trylock_nonvacuous :
  let s := exec lsys (lstep any_params true) (linit KTry 2 1) [(0,0);(0,0);(0,0);(1,0);(1,0)]%nat in
  holds (l_pc (l_thr s 0%nat)) = true /\ l_pc (l_thr s 1%nat) = LAfterFail.
Proof. vm_compute. split; reflexivity. Qed.

(* A nested muggle_mutex_lock by the holder (thread 0 of the nested client) never returns: while thread 0 is
   at the nested lock it holds the mutex, the operation is not enabled under any schedule choice, and no other
   thread holds.  On the implementation side this is the scheduler's DEADLOCK event once the contenders are
   blocked or have given up. *)
Theorem nested_lock_by_owner_is_stuck P k n it sched ch :
  let s := exec lsys (lstep P true) (linit k n it) sched in
  l_pc (l_thr s 0%nat) = LNest ->
  lstep P true s 0%nat ch = None /\ l_lock s = 1 /\
  (forall u, holds (l_pc (l_thr s u)) = true -> u = 0%nat) /\ l_overlaps s = 0%nat.
Proof.
  intros s Hn. pose proof (lock_mutual_exclusion P k n it sched) as I. fold s in I.
  destruct I as [H01 Hex Hfree Hi0 Hi1 Hov].
  assert (Hh : holds (l_pc (l_thr s 0%nat)) = true) by (rewrite Hn; reflexivity).
  assert (L1 : l_lock s = 1).
  { destruct H01 as [L0|L1]; [|assumption]. pose proof (Hfree L0 0%nat). congruence. }
  split; [|split; [assumption|split; [|assumption]]].
  - unfold lstep. destruct (Nat.leb (l_n s) 0); [reflexivity|]. rewrite Hn, L1. reflexivity.
  - intros u Hu. apply Hex; assumption.
Qed.

(* the state is reachable: thread 0 locks, enters, and is at the nested lock while thread 1 is refused *)
Example nested_lock_nonvacuous :
  let s := exec lsys (lstep any_params true) (linit KNestTry 2 1) [(0,0);(0,0);(0,0);(1,0);(1,0);(1,0)]%nat in
  l_pc (l_thr s 0%nat) = LNest /\ l_pc (l_thr s 1%nat) = LFin /\
  lstep any_params true s 0%nat 0%nat = None.
Proof. vm_compute. repeat split; reflexivity. Qed.
