From MV Require Import Lib.ExtractBase Lib.AtomicTie C04.Model.
From Coq Require Import ExtrOcamlBasic.
Extraction Language OCaml.
Extraction "c04_model" force_types linit lstep oinit ostep rinit rstep rspec_run
  l_counter l_overlaps l_uncovered o_runs o_done o_early r_ref r_lin r_ovf rbody
  aop_sem aop_run wraps.
