(* C04 — call_once, any number of once-flags in flight: for every flag, the function body runs at most once,
   and nobody returns from a call on that flag before the run has completed and its effects are visible. *)
From MV Require Import C04.Model.
Local Open Scope Z_scope.

Definition runner (p : opc) : bool :=
  match p with CFunc1 | CBody | CFunc2 | CStore => true | _ => false end.
Definition returned (p : opc) : bool := match p with CRetSeg | CFin | CDone => true | _ => false end.
(* the thread is running the body of flag f *)
Definition runs_on (f : nat) (x : othread) : bool := Nat.eqb (o_cur x) f && runner (o_pc x).

Definition once_mo_ok (P : params) : bool := is_rel (mo_once_store P) && is_acq (mo_once_load P).

(* what each thread knows about flag f at each program point *)
Definition thr_ok (f : nat) (s : osys) (x : othread) : Prop :=
  (o_seen x f <= o_dver s f)%nat /\
  (* a thread that has completed a call on f keeps what it learnt, whatever it calls afterwards *)
  ((0 < o_rets x f)%nat -> o_flag s f = 2 /\ o_seen x f = 1%nat) /\
  (o_cur x = f ->
   match o_pc x with
   | CStart | CCas => True
   | CFunc1 => o_flag s f = 1 /\ o_runs s f = 0%nat /\ o_done s f = 0 /\ o_dver s f = 0%nat
   | CBody | CFunc2 => o_flag s f = 1 /\ o_runs s f = 1%nat /\ o_done s f = 0 /\ o_dver s f = 0%nat
   | CStore => o_flag s f = 1 /\ o_runs s f = 1%nat /\ o_done s f = 1 /\ o_dver s f = 1%nat /\ o_seen x f = 1%nat
   | CLoadSeg | CLoad => o_flag s f <> 0
   | CRetSeg | CFin | CDone => o_flag s f = 2 /\ o_seen x f = 1%nat
   end).

Record OInv (f : nat) (s : osys) : Prop := {
  oi_flag : o_flag s f = 0 \/ o_flag s f = 1 \/ o_flag s f = 2;
  oi_g0 : o_flag s f = 0 -> o_runs s f = 0%nat /\ o_done s f = 0 /\ o_dver s f = 0%nat;
  oi_g2 : o_flag s f = 2 -> o_runs s f = 1%nat /\ o_done s f = 1 /\ o_dver s f = 1%nat /\ o_stamp s f = 1%nat;
  oi_stamp : (o_stamp s f <= o_dver s f)%nat;
  oi_early : o_early s f = 0%nat;
  oi_runs : (o_runs s f <= 1)%nat;
  oi_one : forall t u, runs_on f (o_thr s t) = true -> runs_on f (o_thr s u) = true -> t = u;
  oi_thr : forall t, thr_ok f s (o_thr s t);
}.

Ltac ocbn := cbn [o_pc o_cur o_todo o_seen o_rets o_n o_flag o_stamp o_runs o_done o_dver o_early o_thr oset
                  runner returned andb] in *.
(* every finite map update (threads, flags) is split on its key *)
Ltac spl := unfold upd in *; ocbn;
  repeat (match goal with
  | H : context [Nat.eqb ?a ?b] |- _ => destruct (Nat.eqb_spec a b)
  | |- context [Nat.eqb ?a ?b] => destruct (Nat.eqb_spec a b)
  end; ocbn).
Ltac fin := try subst; ocbn; try discriminate; try reflexivity;
  first [ lia | congruence | solve [intuition (try lia; try congruence)] ].

Lemma oinit_inv f n scripts : OInv f (oinit n scripts).
Proof.
  constructor; simpl; [auto | auto | discriminate | lia | auto | lia | | ].
  - intros t u H. unfold runs_on in H. simpl in H. rewrite andb_false_r in H. discriminate.
  - intros t. unfold thr_ok; simpl. split; [lia|split; [lia|intros _; exact I]].
Qed.

(* the two goals that speak about all threads *)
Ltac prove_runs :=
  unfold runs_on; apply andb_true_intro; split;
  [ apply Nat.eqb_eq; first [assumption | congruence]
  | first [ assumption | congruence
          | match goal with E : o_pc (o_thr _ _) = _ |- _ => rewrite E; reflexivity end ] ].
Ltac g_one Hone :=
  let a := fresh "a" in let b := fresh "b" in let Ha := fresh "Ha" in let Hb := fresh "Hb" in
  intros a b Ha Hb; unfold runs_on in Ha, Hb; spl; try discriminate; try reflexivity; try subst a; try subst b;
  first [ congruence
        | apply Hone; prove_runs
        | symmetry; apply Hone; prove_runs
        | exfalso; fin ].
Ltac g_thr Hone Hthr t :=
  let a := fresh "a" in let Ka := fresh "Ka" in let Ea := fresh "Ea" in let Ca := fresh "Ca" in
  intros a; pose proof (Hthr a) as Ka; unfold thr_ok in *; spl;
  try solve [fin];
  (* another thread a: its knowledge stays valid because only the runner of f changes the facts about f *)
  destruct Ka as (? & ? & Ka);
  (split; [fin | split; [fin |]]);
  intros Ca; specialize (Ka Ca);
  destruct (o_pc (o_thr _ a)) eqn:Ea; ocbn;
  first [ fin
        | exfalso; match goal with n : a <> t |- _ => apply n; apply Hone; prove_runs end
        | exfalso; match goal with n : a <> t |- _ => apply n; apply Hone;
                     [ prove_runs | unfold runs_on; apply andb_true_intro; split;
                                    [apply Nat.eqb_eq; first [assumption|congruence]
                                    | match goal with E : o_pc (o_thr _ t) = _ |- _ => rewrite E; reflexivity end] ] end ].

Lemma ostep_inv P f s t ch s' l : once_mo_ok P = true -> OInv f s -> ostep P s t ch = Some (s', l) -> OInv f s'.
Proof.
  intros Hmo I Hs. apply andb_prop in Hmo as [Mr Ma].
  destruct I as [Hfl Hg0 Hg2 Hst Hear Hruns Hone Hthr].
  unfold ostep in Hs. destruct (Nat.leb (o_n s) t); [discriminate|].
  pose proof (Hthr t) as Kt. unfold thr_ok in Kt. destruct Kt as (St & Rk & Kt).
  destruct (Nat.eq_dec (o_cur (o_thr s t)) f) as [Ec|Nc].
  - (* the step is about flag f *)
    specialize (Kt Ec).
    destruct (o_pc (o_thr s t)) eqn:Epc; simpl in Kt.
    + (* CStart *)
      inversion Hs; subst; clear Hs.
      constructor; ocbn; [fin|fin|fin|fin|fin|fin|g_one Hone|g_thr Hone Hthr t].
    + (* CCas *)
      rewrite Ec in Hs.
      destruct (Z.eqb_spec (o_flag s f) 0) as [F0|F0]; inversion Hs; subst; clear Hs.
      * destruct (Hg0 F0) as (Ar & Ad & Av).
        assert (Hnor : forall a, runs_on (o_cur (o_thr s t)) (o_thr s a) = false).
        { intros a. pose proof (Hthr a) as Ka. unfold thr_ok in Ka. destruct Ka as (_ & _ & Ka).
          unfold runs_on. destruct (Nat.eqb_spec (o_cur (o_thr s a)) (o_cur (o_thr s t))) as [E|]; [|reflexivity].
          specialize (Ka E). destruct (o_pc (o_thr s a)); simpl in *; try reflexivity; exfalso; intuition lia. }
        unfold acq_join, rmw_stamp.
        constructor; ocbn.
        -- spl; fin.
        -- spl; fin.
        -- spl; fin.
        -- spl; [destruct (is_rel (mo_once_cas P)); lia|fin].
        -- fin.
        -- fin.
        -- intros a b Ha Hb. ocbn.
           destruct (Nat.eq_dec a t) as [|Na], (Nat.eq_dec b t) as [|Nb]; subst; try reflexivity; exfalso.
           ++ rewrite upd_other in Hb by assumption. rewrite Hnor in Hb. discriminate.
           ++ rewrite upd_other in Ha by assumption. rewrite Hnor in Ha. discriminate.
           ++ rewrite upd_other in Ha by assumption. rewrite Hnor in Ha. discriminate.
        -- intros a. pose proof (Hthr a) as Ka. unfold thr_ok in *. spl; try (exfalso; congruence);
           first [ solve [destruct (is_acq (mo_once_cas P)); intuition lia]
                 | destruct Ka as (K1 & K2 & K3); (split; [lia|split; [intuition lia|]]);
                   intros Ca; specialize (K3 Ca); destruct (o_pc (o_thr s a)) eqn:Ea; simpl in *; intuition lia ].
      * constructor; ocbn; [fin|fin|fin|fin|fin|fin|g_one Hone|g_thr Hone Hthr t].
    + (* CFunc1: the body starts *)
      inversion Hs; subst; clear Hs.
      constructor; ocbn; [spl; fin|spl; fin|spl; fin|fin|fin|spl; fin|g_one Hone|g_thr Hone Hthr t].
    + (* CBody *)
      inversion Hs; subst; clear Hs.
      constructor; ocbn; [fin|fin|fin|fin|fin|fin|g_one Hone|g_thr Hone Hthr t].
    + (* CFunc2: the body's write *)
      inversion Hs; subst; clear Hs.
      constructor; ocbn; [fin|spl; fin|spl; fin|spl; fin|fin|fin|g_one Hone|g_thr Hone Hthr t].
    + (* CStore: READY is published with the runner's view *)
      inversion Hs; subst; clear Hs. unfold rel_stamp. rewrite Mr.
      constructor; ocbn; [spl; fin|spl; fin|spl; fin|spl; fin|fin|fin|g_one Hone|g_thr Hone Hthr t].
    + (* CLoadSeg *)
      inversion Hs; subst; clear Hs.
      constructor; ocbn; [fin|fin|fin|fin|fin|fin|g_one Hone|g_thr Hone Hthr t].
    + (* CLoad: an acquire load of READY brings the runner's view *)
      rewrite Ec in Hs. inversion Hs; subst; clear Hs. unfold acq_join. rewrite Ma.
      destruct (Z.eqb_spec (o_flag s (o_cur (o_thr s t))) 2) as [F2|F2].
      * destruct (Hg2 F2) as (Ar & Ad & Av & As).
        constructor; ocbn; [fin|fin|fin|fin|fin|fin|g_one Hone|g_thr Hone Hthr t].
      * constructor; ocbn; [fin|fin|fin|fin|fin|fin|g_one Hone|g_thr Hone Hthr t].
    + (* CRetSeg: the caller returns having seen the body's effect *)
      destruct Kt as [F2 S1]. destruct (Hg2 F2) as (Ar & Ad & Av & As).
      rewrite Ec in Hs. rewrite Ad, S1, Av in Hs. simpl in Hs.
      destruct (o_todo (o_thr s t)) eqn:Etodo; inversion Hs; subst; clear Hs;
      (constructor; ocbn; [fin|fin|fin|fin|fin|fin|g_one Hone|g_thr Hone Hthr t]).
    + (* CFin *)
      inversion Hs; subst; clear Hs.
      constructor; ocbn; [fin|fin|fin|fin|fin|fin|g_one Hone|g_thr Hone Hthr t].
    + discriminate.
  - (* the step is about another flag: nothing about f changes *)
    clear Kt.
    destruct (o_pc (o_thr s t)) eqn:Epc;
      try (destruct (o_flag s (o_cur (o_thr s t)) =? 0));
      try (destruct ((o_done s (o_cur (o_thr s t)) =? 1) && Nat.eqb (o_seen (o_thr s t) (o_cur (o_thr s t))) (o_dver s (o_cur (o_thr s t)))));
      try (destruct (o_todo (o_thr s t)) eqn:Etodo);
      try discriminate; inversion Hs; subst; clear Hs;
      (constructor; ocbn; [spl; fin|spl; fin|spl; fin|spl; fin|spl; fin|spl; fin|g_one Hone|g_thr Hone Hthr t]).
Qed.

Theorem once_invariants P f n scripts sched : once_mo_ok P = true ->
  OInv f (exec osys (ostep P) (oinit n scripts) sched).
Proof. intros H. apply inv_exec; [|apply oinit_inv]. intros; eapply ostep_inv; eauto. Qed.

(* for every flag, the function body starts at most once, whatever the schedule, the number of racers, the
   number of flags in flight and the calls each thread makes *)
Corollary once_at_most_once P f n scripts sched : once_mo_ok P = true ->
  (o_runs (exec osys (ostep P) (oinit n scripts) sched) f <= 1)%nat.
Proof. intros H. apply (oi_runs _ _ (once_invariants P f n scripts sched H)). Qed.

(* a caller that is returning from a call on flag f, or has completed one earlier (and may be busy with any
   other flag now), finds f's run completed and its write visible *)
Corollary once_no_early_return P f n scripts sched t : once_mo_ok P = true ->
  let s := exec osys (ostep P) (oinit n scripts) sched in
  (o_cur (o_thr s t) = f /\ returned (o_pc (o_thr s t)) = true) \/ (0 < o_rets (o_thr s t) f)%nat ->
  o_runs s f = 1%nat /\ o_done s f = 1 /\ o_seen (o_thr s t) f = o_dver s f /\ o_early s f = 0%nat.
Proof.
  intros H s Hr. pose proof (once_invariants P f n scripts sched H) as I. fold s in I.
  pose proof (oi_thr _ _ I t) as K. unfold thr_ok in K. destruct K as (_ & Kr & K).
  assert (F : o_flag s f = 2 /\ o_seen (o_thr s t) f = 1%nat).
  { destruct Hr as [[Hc Hr]|Hr]; [|exact (Kr Hr)]. specialize (K Hc).
    destruct (o_pc (o_thr s t)); simpl in Hr; try discriminate; exact K. }
  destruct F as [F2 S1]. destruct (oi_g2 _ _ I F2) as (A & B & C & D).
  repeat split; auto; try lia; apply (oi_early _ _ I).
Qed.

Definition once_example_params : params :=
  {| mo_spin_tas := Acq; mo_spin_clear := Rel; mo_sync_cas := Acq; mo_sync_store := Rel;
     mo_once_cas := Rlx; mo_once_store := Rel; mo_once_load := Acq; mo_ref_cas := Rlx |}.

Example once_nonvacuous :
  let s := exec osys (ostep once_example_params) (oinit1 2 1)
    [(0,0);(0,0);(1,0);(1,0);(0,0);(0,0);(0,0);(0,0);(1,0);(1,0);(1,0)]%nat in
  returned (o_pc (o_thr s 1%nat)) = true /\ returned (o_pc (o_thr s 0%nat)) = true /\ o_runs s 0%nat = 1%nat.
Proof. vm_compute. repeat split; reflexivity. Qed.

(* with the READY store relaxed the hand-over is unsound in the view model: a loser can
   return without the body's write being covered (documentation of the parameter tie) *)
Example once_mo_necessary :
  let P := {| mo_spin_tas := Acq; mo_spin_clear := Rel; mo_sync_cas := Acq; mo_sync_store := Rel;
              mo_once_cas := Rlx; mo_once_store := Rlx; mo_once_load := Acq; mo_ref_cas := Rlx |} in
  o_early (exec osys (ostep P) (oinit1 2 1)
    [(0,0);(0,0);(1,0);(1,0);(0,0);(0,0);(0,0);(0,0);(1,0);(1,0);(1,0)]%nat) 0%nat = 1%nat.
Proof. vm_compute. reflexivity. Qed.

(* a thread that calls again after READY: the second call fails the compare-exchange, loads READY and returns;
   the body still ran once and both returns saw its effect *)
Example once_second_call_nonvacuous :
  let s := exec osys (ostep once_example_params) (oinit1 2 2)
    [(0,0);(0,0);(0,0);(0,0);(0,0);(0,0);(0,0);(0,0);(0,0);(0,0);(0,0);(1,0);(1,0);(1,0);(1,0);(1,0)]%nat in
  o_rets (o_thr s 0%nat) 0%nat = 2%nat /\ o_pc (o_thr s 0%nat) = CFin /\ o_rets (o_thr s 1%nat) 0%nat = 1%nat /\
  o_pc (o_thr s 1%nat) = CCas /\ o_runs s 0%nat = 1%nat /\ o_early s 0%nat = 0%nat.
Proof. vm_compute. repeat split; reflexivity. Qed.

(* two flags in flight: thread 0 is inside the (slow) body of flag 0, thread 1 has found flag 0 in WAIT and
   spins on it; thread 2 meanwhile runs flag 1 to completion and returns.  Thread 1 is still waiting: the
   completion of another flag does not release it *)
Example once_two_flags_nonvacuous :
  let scripts := fun t : nat => match t with 0 => [0] | 1 => [0; 1] | _ => [1] end%nat in
  let s := exec osys (ostep once_example_params) (oinit 3 scripts)
    [(0,0);(0,0);(0,0);(0,0); (1,0);(1,0);(1,0);(1,0); (2,0);(2,0);(2,0);(2,0);(2,0);(2,0);(2,0); (1,0);(1,0)]%nat in
  o_pc (o_thr s 0%nat) = CFunc2 /\ o_flag s 0%nat = 1 /\
  o_flag s 1%nat = 2 /\ o_rets (o_thr s 2%nat) 1%nat = 1%nat /\ o_runs s 1%nat = 1%nat /\
  returned (o_pc (o_thr s 1%nat)) = false /\ o_cur (o_thr s 1%nat) = 0%nat.
Proof. vm_compute. repeat split; reflexivity. Qed.
