(* C04 — call_once: the function body runs at most once, and nobody returns before the run
   has completed and its effects are visible. *)
From MV Require Import C04.Model.
Local Open Scope Z_scope.

Definition runner (p : opc) : bool :=
  match p with CFunc1 | CBody | CFunc2 | CStore => true | _ => false end.
Definition returned (p : opc) : bool := match p with CRetSeg | CFin | CDone => true | _ => false end.

Definition once_mo_ok (P : params) : bool := is_rel (mo_once_store P) && is_acq (mo_once_load P).

(* what each thread knows at each program point *)
Definition thr_ok (s : osys) (x : othread) : Prop :=
  (o_seen x <= o_dver s)%nat /\
  (* a thread that has completed a call keeps what it learnt, also while it calls again *)
  ((0 < o_rets x)%nat -> o_flag s = 2 /\ o_seen x = 1%nat) /\
  match o_pc x with
  | CStart | CCas => True
  | CFunc1 => o_flag s = 1 /\ o_runs s = 0%nat /\ o_done s = 0 /\ o_dver s = 0%nat
  | CBody | CFunc2 => o_flag s = 1 /\ o_runs s = 1%nat /\ o_done s = 0 /\ o_dver s = 0%nat
  | CStore => o_flag s = 1 /\ o_runs s = 1%nat /\ o_done s = 1 /\ o_dver s = 1%nat /\ o_seen x = 1%nat
  | CLoadSeg | CLoad => o_flag s <> 0
  | CRetSeg | CFin | CDone => o_flag s = 2 /\ o_seen x = 1%nat
  end.

Record OInv (s : osys) : Prop := {
  oi_flag : o_flag s = 0 \/ o_flag s = 1 \/ o_flag s = 2;
  oi_g0 : o_flag s = 0 -> o_runs s = 0%nat /\ o_done s = 0 /\ o_dver s = 0%nat;
  oi_g2 : o_flag s = 2 -> o_runs s = 1%nat /\ o_done s = 1 /\ o_dver s = 1%nat /\ o_stamp s = 1%nat;
  oi_stamp : (o_stamp s <= o_dver s)%nat;
  oi_early : o_early s = 0%nat;
  oi_runs : (o_runs s <= 1)%nat;
  oi_one : forall t u, runner (o_pc (o_thr s t)) = true -> runner (o_pc (o_thr s u)) = true -> t = u;
  oi_thr : forall t, thr_ok s (o_thr s t);
}.

Ltac o_upd := simpl in *; repeat (match goal with
  | H : context [upd _ ?t _ ?a] |- _ => unfold upd in H; destruct (Nat.eqb_spec a t); subst
  | |- context [upd _ ?t _ ?a] => unfold upd; destruct (Nat.eqb_spec a t); subst
  end; simpl in * ).

Lemma oinit_inv n calls : OInv (oinit n calls).
Proof.
  constructor; simpl; [auto | auto | discriminate | lia | auto | lia | discriminate | ].
  intros t. unfold thr_ok; simpl. split; [lia|split; [lia|exact I]].
Qed.

Ltac o_arith := simpl in *; intros; try discriminate; first [ lia | intuition lia ].
Ltac o_one Hone :=
  let a := fresh "a" in let b := fresh "b" in let Ha := fresh "Ha" in let Hb := fresh "Hb" in
  intros a b Ha Hb; o_upd; try discriminate; try reflexivity;
  first [ apply Hone; assumption | symmetry; apply Hone; assumption
        | (* a runner exists already, so the flag is 1: impossible here *) exfalso; o_arith ].
(* the stepping thread's own entry is solved by arithmetic; another thread [a] keeps its
   knowledge because only a runner changes the shared facts and there is one runner *)
Ltac o_thr Hone Hthr t :=
  let a := fresh "a" in let Ka := fresh "Ka" in let Ea := fresh "Ea" in
  intros a; pose proof (Hthr a) as Ka; o_upd;
  [ unfold thr_ok in *; simpl in *; o_arith
  | unfold thr_ok in *; simpl in *;
    destruct (o_pc (o_thr _ a)) eqn:Ea; simpl in *;
    first [ o_arith
          | exfalso; match goal with n : a <> t |- _ => apply n; apply Hone; [rewrite Ea; reflexivity | assumption] end ] ].

Lemma ostep_inv P s t ch s' l : once_mo_ok P = true -> OInv s -> ostep P s t ch = Some (s', l) -> OInv s'.
Proof.
  intros Hmo I Hs. apply andb_prop in Hmo as [Mr Ma].
  destruct I as [Hfl Hg0 Hg2 Hst Hear Hruns Hone Hthr].
  unfold ostep in Hs. destruct (Nat.leb (o_n s) t); [discriminate|].
  pose proof (Hthr t) as Kt. unfold thr_ok in Kt.
  destruct (o_pc (o_thr s t)) eqn:Epc; pose proof (f_equal runner Epc) as Rt; simpl in Rt, Kt;
    destruct Kt as [St [Rk Kt]].
  - (* CStart *)
    inversion Hs; subst; clear Hs.
    constructor; simpl; [o_arith|o_arith|o_arith|o_arith|o_arith|o_arith|o_one Hone|o_thr Hone Hthr t].
  - (* CCas *)
    destruct (Z.eqb_spec (o_flag s) 0) as [F0|F0]; inversion Hs; subst; clear Hs.
    + destruct (Hg0 F0) as (Ar & Ad & Av).
      assert (Hnor : forall a, runner (o_pc (o_thr s a)) = false).
      { intros a. pose proof (Hthr a) as Ka. unfold thr_ok in Ka.
        destruct (o_pc (o_thr s a)); simpl in *; try reflexivity; exfalso; intuition lia. }
      unfold acq_join, rmw_stamp.
      constructor; simpl; [o_arith|o_arith|o_arith| |o_arith|o_arith| | ].
      * destruct (is_rel (mo_once_cas P)); lia.
      * intros a b Ha Hb. o_upd; try reflexivity; rewrite Hnor in *; discriminate.
      * intros a. pose proof (Hthr a) as Ka. o_upd.
        -- unfold thr_ok; simpl. destruct (is_acq (mo_once_cas P)); intuition lia.
        -- unfold thr_ok in *; simpl in *. destruct (o_pc (o_thr s a)) eqn:Ea; simpl in *; intuition lia.
    + constructor; simpl; [o_arith|o_arith|o_arith|o_arith|o_arith|o_arith|o_one Hone|o_thr Hone Hthr t].
  - (* CFunc1: the body starts *)
    inversion Hs; subst; clear Hs.
    constructor; simpl; [o_arith|o_arith|o_arith|o_arith|o_arith|o_arith|o_one Hone|o_thr Hone Hthr t].
  - (* CBody *)
    inversion Hs; subst; clear Hs.
    constructor; simpl; [o_arith|o_arith|o_arith|o_arith|o_arith|o_arith|o_one Hone|o_thr Hone Hthr t].
  - (* CFunc2: the body's write *)
    inversion Hs; subst; clear Hs.
    constructor; simpl; [o_arith|o_arith|o_arith|o_arith|o_arith|o_arith|o_one Hone|o_thr Hone Hthr t].
  - (* CStore: READY is published with the runner's view *)
    inversion Hs; subst; clear Hs. unfold rel_stamp. rewrite Mr.
    constructor; simpl; [o_arith|o_arith|o_arith|o_arith|o_arith|o_arith|o_one Hone|o_thr Hone Hthr t].
  - (* CLoadSeg *)
    inversion Hs; subst; clear Hs.
    constructor; simpl; [o_arith|o_arith|o_arith|o_arith|o_arith|o_arith|o_one Hone|o_thr Hone Hthr t].
  - (* CLoad: an acquire load of READY brings the runner's view *)
    inversion Hs; subst; clear Hs. unfold acq_join. rewrite Ma.
    destruct (Z.eqb_spec (o_flag s) 2) as [F2|F2].
    + destruct (Hg2 F2) as (Ar & Ad & Av & As).
      constructor; simpl; [o_arith|o_arith|o_arith|o_arith|o_arith|o_arith|o_one Hone|o_thr Hone Hthr t].
    + constructor; simpl; [o_arith|o_arith|o_arith|o_arith|o_arith|o_arith|o_one Hone|o_thr Hone Hthr t].
  - (* CRetSeg: the caller returns having seen the body's effect *)
    destruct Kt as [F2 S1]. destruct (Hg2 F2) as (Ar & Ad & Av & As).
    rewrite Ad, S1, Av in Hs. simpl in Hs.
    destruct (o_calls (o_thr s t)) eqn:Ecalls; inversion Hs; subst; clear Hs;
    (constructor; simpl; [o_arith|o_arith|o_arith|o_arith|o_arith|o_arith|o_one Hone|o_thr Hone Hthr t]).
  - (* CFin *)
    inversion Hs; subst; clear Hs.
    constructor; simpl; [o_arith|o_arith|o_arith|o_arith|o_arith|o_arith|o_one Hone|o_thr Hone Hthr t].
  - discriminate.
Qed.

Theorem once_invariants P n calls sched : once_mo_ok P = true ->
  OInv (exec osys (ostep P) (oinit n calls) sched).
Proof. intros H. apply inv_exec; [|apply oinit_inv]. intros; eapply ostep_inv; eauto. Qed.

(* the function body starts at most once, whatever the schedule and number of racers *)
Corollary once_at_most_once P n calls sched : once_mo_ok P = true ->
  (o_runs (exec osys (ostep P) (oinit n calls) sched) <= 1)%nat.
Proof. intros H. apply (oi_runs _ (once_invariants P n calls sched H)). Qed.

(* a caller that has returned (or is returning) finds the run completed and its write visible *)
Corollary once_no_early_return P n calls sched t : once_mo_ok P = true ->
  let s := exec osys (ostep P) (oinit n calls) sched in
  returned (o_pc (o_thr s t)) = true \/ (0 < o_rets (o_thr s t))%nat ->
  o_runs s = 1%nat /\ o_done s = 1 /\ o_seen (o_thr s t) = o_dver s /\ o_early s = 0%nat.
Proof.
  intros H s Hr. pose proof (once_invariants P n calls sched H) as I. fold s in I.
  pose proof (oi_thr _ I t) as K. unfold thr_ok in K. destruct K as [_ [Kr K]].
  assert (F : o_flag s = 2 /\ o_seen (o_thr s t) = 1%nat).
  { destruct Hr as [Hr|Hr]; [|exact (Kr Hr)].
    destruct (o_pc (o_thr s t)); simpl in Hr; try discriminate; exact K. }
  destruct F as [F2 S1]. destruct (oi_g2 _ I F2) as (A & B & C & D).
  repeat split; auto; try lia; apply (oi_early _ I).
Qed.

Example once_nonvacuous :
  let P := {| mo_spin_tas := Acq; mo_spin_clear := Rel; mo_sync_cas := Acq; mo_sync_store := Rel;
              mo_once_cas := Rlx; mo_once_store := Rel; mo_once_load := Acq; mo_ref_cas := Rlx |} in
  let s := exec osys (ostep P) (oinit 2 1)
    [(0,0);(0,0);(1,0);(1,0);(0,0);(0,0);(0,0);(0,0);(1,0);(1,0);(1,0)]%nat in
  returned (o_pc (o_thr s 1%nat)) = true /\ returned (o_pc (o_thr s 0%nat)) = true /\ o_runs s = 1%nat.
Proof. vm_compute. repeat split; reflexivity. Qed.

(* with the READY store relaxed the hand-over is unsound in the view model: a loser can
   return without the body's write being covered (documentation of the parameter tie) *)
Example once_mo_necessary :
  let P := {| mo_spin_tas := Acq; mo_spin_clear := Rel; mo_sync_cas := Acq; mo_sync_store := Rel;
              mo_once_cas := Rlx; mo_once_store := Rlx; mo_once_load := Acq; mo_ref_cas := Rlx |} in
  o_early (exec osys (ostep P) (oinit 2 1)
    [(0,0);(0,0);(1,0);(1,0);(0,0);(0,0);(0,0);(0,0);(1,0);(1,0);(1,0)]%nat) = 1%nat.
Proof. vm_compute. reflexivity. Qed.

(* a thread that calls again after READY: the second call fails the compare-exchange, loads READY and returns;
   the body still ran once and both returns saw its effect *)
Example once_second_call_nonvacuous :
  let P := {| mo_spin_tas := Acq; mo_spin_clear := Rel; mo_sync_cas := Acq; mo_sync_store := Rel;
              mo_once_cas := Rlx; mo_once_store := Rel; mo_once_load := Acq; mo_ref_cas := Rlx |} in
  let s := exec osys (ostep P) (oinit 2 2)
    [(0,0);(0,0);(0,0);(0,0);(0,0);(0,0);(0,0);(0,0);(0,0);(0,0);(0,0);(1,0);(1,0);(1,0);(1,0);(1,0)]%nat in
  o_rets (o_thr s 0%nat) = 2%nat /\ o_pc (o_thr s 0%nat) = CFin /\ o_rets (o_thr s 1%nat) = 1%nat /\
  o_pc (o_thr s 1%nat) = CCas /\ o_runs s = 1%nat /\ o_early s = 0%nat.
Proof. vm_compute. repeat split; reflexivity. Qed.
