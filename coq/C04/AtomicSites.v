(* C04 — which muggle_atomic_* macro each of the 8 atomic sites of spinlock.c / synclock.c / call_once.c /
   ref_cnt.c goes through, and the memory order the __atomic builtin really receives there: the order written
   at the call site (observed by the hooks, gen/Params_C04.v: code_params) pushed through the macro body of
   atomic.h as gcc sees it (gen/Params_C04.v: header_atomic_table).  Definitions only. *)
From Coq Require Import String.
From MV Require Import Lib.AtomicTie C04.Model.

(* the second argument of eff_order is the position of the memory-order parameter of the macro *)
Definition effective_params (h : list (string * amacro)) (P : params) : params :=
  {| mo_spin_tas := eff_order h "muggle_atomic_test_and_set" 1 (mo_spin_tas P);
     mo_spin_clear := eff_order h "muggle_atomic_clear" 1 (mo_spin_clear P);
     mo_sync_cas := eff_order h "muggle_atomic_cmp_exch_weak" 3 (mo_sync_cas P);
     mo_sync_store := eff_order h "muggle_atomic_store" 2 (mo_sync_store P);
     mo_once_cas := eff_order h "muggle_atomic_cmp_exch_strong" 3 (mo_once_cas P);
     mo_once_store := eff_order h "muggle_atomic_store" 2 (mo_once_store P);
     mo_once_load := eff_order h "muggle_atomic_load" 1 (mo_once_load P);
     mo_ref_cas := eff_order h "muggle_atomic_cmp_exch_strong" 3 (mo_ref_cas P) |}.

(* the loop body of retain / release in the shape the generated functions have:
   (result, desired, expected, number of compare-exchanges, third-pass flag) *)
Definition rbody_tuple (o : rop) (v : Z) : Z * Z * Z * Z * Z :=
  match rbody o v with
  | None => (-1, 0, 0, 0, 0)
  | Some (e, d, r) => (r, d, e, 1, 0)
  end%Z.

(* every C type that carries the counter's value is signed and at least as wide as the model's counter *)
Definition ref_types_ok (tys : list (bool * Z)) : bool :=
  forallb (fun t => fst t && (ref_bits <=? snd t)%Z) tys.

(* mutex.c (pthread branch): what a muggle_mutex_* function returns, and how many pthread_* calls it makes, as a
   function of the value [rc] the pthread call returns: 0 is success, anything else the function's error code *)
Definition mres (err rc : Z) : Z * Z := (if (rc =? 0)%Z then 0%Z else err, 1%Z).
