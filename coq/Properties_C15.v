(* C15 — property theorems only.  Each is closed by [exact] of a lemma proved in C15/Proofs*.v
   and followed by Print Assumptions.  A history is any list of events (an event that is not
   enabled is skipped), the state is [run (initf f) h] where [f] says which optional callbacks of the
   handle are installed (cb_conn, cb_msg, cb_close, cb_release, cb_add_ctx, cb_wake: every theorem
   holds for every configuration; [init] = [initf all_cb]); [x] is the record of context number [c]. *)
From MV Require Import C04.Model C15.Model C15.ProofsCtx C15.ProofsSys C15.ProofsPipe C15.ProofsLeak C15.ProofsWake C15.ProofsCb.

(* each context is announced (cb_conn / cb_add_ctx) at most once *)
Theorem sock_announced_once : forall f h c x,
  nth_error (ctxs (run (initf f) h)) c = Some x -> (k_ann x <= 1)%nat.
Proof. exact announced_once. Qed.
Print Assumptions sock_announced_once.

(* concatenation of what muggle_socket_ctx_read handed to cb_msg = a prefix of the bytes the peer
   sent, for any fragmentation of sends and reads, and all of them once read returned 0 at the
   end of the peer's stream *)
Theorem sock_bytes_in_order : forall f h c x,
  nth_error (ctxs (run (initf f) h)) c = Some x ->
  (exists rest, sent (run (initf f) h) (k_conn x) = k_got x ++ rest) /\
  (k_eof x = true -> k_got x = sent (run (initf f) h) (k_conn x)).
Proof. exact bytes_in_order. Qed.
Print Assumptions sock_bytes_in_order.

(* cb_close, release (cb_release or the worker-side duty), descriptor close and free happen at
   most once each; memory of a context anyone could see is given back only at count zero *)
Theorem sock_freed_exactly_once_at_zero : forall f h c x,
  nth_error (ctxs (run (initf f) h)) c = Some x ->
  (k_ncl x <= 1 /\ k_nrel x <= 1 /\ k_nfdc x <= 1 /\ k_nfree x <= 1)%nat /\
  (k_freed x = true -> k_nfree x = 1%nat /\ (k_ref x = 0%Z \/ k_pub x = false)) /\
  (k_freed x = false -> k_nfree x = 0%nat) /\
  (k_nrel x = 1%nat -> k_ref x = 0%Z \/ k_freed x = true).
Proof. exact freed_once. Qed.
Print Assumptions sock_freed_exactly_once_at_zero.

(* nothing dereferences a context after its release or free *)
Theorem sock_no_use_after_release : forall f h c x,
  nth_error (ctxs (run (initf f) h)) c = Some x -> k_uar x = 0%nat.
Proof. exact no_use_after_release. Qed.
Print Assumptions sock_no_use_after_release.

(* the pipe: for every interleaving of writers and every fragmentation of write(2)/read(2), the
   reader has returned a prefix of the written pointers in lock order, each writer's part of that
   order is its program order, and at quiescence every pointer has been returned exactly once *)
Theorem pipe_exactly_once_per_writer_order : forall sz scripts h,
  (0 < sz)%nat -> (forall w, blk sz (scripts w)) ->
  let s := prun (pinit sz scripts) h in
  p_del s = firstn (length (p_del s)) (p_order s) /\
  (forall w, by_writer w (p_lin s) ++ pend s w ++ p_todo s w = scripts w) /\
  (quiescent s -> p_del s = map snd (p_lin s) /\ forall w, by_writer w (p_lin s) = scripts w).
Proof. exact pipe_all. Qed.
Print Assumptions pipe_exactly_once_per_writer_order.

(* every context ever allocated is closed and freed exactly once, once muggle_evloop_run has
   returned (clear + exit drained ctx_list and the hand-over queue), the workers have released
   and finished their release duty, and no context was left un-handed with the user *)
Theorem sock_no_leak_at_exit : forall f h,
  let s := run (initf f) h in
  pc s = PDone ->
  (forall c x, nth_error (ctxs s) c = Some x -> k_loc x <> LUser /\ k_work x = 0%nat /\ k_wfin x = 0%nat) ->
  forall c x, nth_error (ctxs s) c = Some x ->
    k_freed x = true /\ k_nfree x = 1%nat /\ k_nfdc x = 1%nat /\ k_fd x = false.
Proof. exact no_leak_at_exit. Qed.
Print Assumptions sock_no_leak_at_exit.

(* on_wake drains the whole hand-over queue: when it leaves its while loop (mutex released,
   cb_wake due) the queue is empty and no context is left in the queued position, however many
   muggle_socket_evloop_add_ctx calls coalesced into the wake-up; for every history *)
Theorem handover_queue_drained_per_wake : forall f h s' r,
  step (run (initf f) h) ETauWakeUnlock = Some (s', r) ->
  queue s' = [] /\ pc s' = PWakeCb /\
  forall c x, nth_error (ctxs s') c = Some x -> k_loc x <> LQueue.
Proof. exact queue_drained_per_wake. Qed.
Print Assumptions handover_queue_drained_per_wake.

(* ... and it cannot end, nor take anything but the queue's head, while a context is queued:
   registration happens in queue order and before cb_wake (the wake-up itself reaching the loop
   is C14's wake_not_lost) *)
Theorem handover_registered_in_queue_order : forall s c q,
  pc s = PWake -> queue s = c :: q ->
  step s ETauWakeUnlock = None /\ step s EWake = None /\
  forall d ok, d <> c -> step s (EReg d ok) = None.
Proof. exact wake_cannot_end_with_queued. Qed.
Print Assumptions handover_registered_in_queue_order.

(* every byte readable when a hang-up is reported is offered to the read callback before cb_close:
   a context whose CLOSED flag nobody set (no local shutdown, no read that returned 0 or failed)
   and whose connection was not reset gets cb_close only after cb_msg has read everything the
   peer sent.  The model's dispatch step is the common shape of the select, poll and epoll loops
   (readable => cb_read first, flag tested afterwards). *)
Theorem bytes_delivered_before_close_on_hup : forall f h c x s' r,
  let s := run (initf f) h in
  step s (EClose c) = Some (s', r) ->
  nth_error (ctxs s) c = Some x ->
  k_flag x = false -> preset s (k_conn x) = false ->
  pclosed s (k_conn x) = true /\ k_got x = sent s (k_conn x).
Proof. exact close_on_hup_after_all_bytes. Qed.
Print Assumptions bytes_delivered_before_close_on_hup.

(* the wake-up protocol of the hand-over queue (muggle_socket_evloop_add_ctx: enqueue, then write the
   event signal; *_handle_wakeup: clear the signal, then on_wake drains the queue), for every
   interleaving of the loop thread, the handing threads, workers and peers: a queued context has its
   own signaller still in flight, or the signal is set, or a wake-up handling that has cleared the
   signal and not yet left on_wake's queue loop is in progress, or the loop has left its run loop
   (on_exit takes the queue) *)
Theorem handover_never_stranded : forall f h c,
  let s := run (initf f) h in
  In c (queue s) ->
  In c (sigdue s) \/ wsig s = true \/ wake_due (pc s) = true \/ after_break (pc s) = true.
Proof. exact queued_implies_wake_pending. Qed.
Print Assumptions handover_never_stranded.

(* the same for every context record whose position is "in the hand-over queue" *)
Theorem handover_queued_position_covered : forall f h c x,
  let s := run (initf f) h in
  nth_error (ctxs s) c = Some x -> k_loc x = LQueue ->
  In c (sigdue s) \/ wsig s = true \/ wake_due (pc s) = true \/ after_break (pc s) = true.
Proof. exact queued_position_implies_wake_pending. Qed.
Print Assumptions handover_queued_position_covered.

(* liveness-style corollary: when the loop thread blocks (its back-end's wait finds nothing ready,
   the event signal is not set) the only contexts still queued belong to hand-overs that have not
   yet written their wake-up; a context whose muggle_socket_evloop_add_ctx has returned is
   registered (and announced, or released if its registration failed) before the loop sleeps *)
Theorem loop_sleeps_only_without_completed_handover : forall f h s' r,
  step (run (initf f) h) ESleep = Some (s', r) ->
  s' = run (initf f) h /\
  (forall c, In c (queue s') -> In c (sigdue s')) /\
  (forall c x, nth_error (ctxs s') c = Some x -> k_loc x = LQueue -> In c (sigdue s')).
Proof. exact ProofsWake.loop_sleeps_only_without_completed_handover. Qed.
Print Assumptions loop_sleeps_only_without_completed_handover.

(* the order inside *_handle_wakeup: on_wake is entered only from the state the clear-up leaves,
   and the clear-up leaves the signal unset with the queue untouched *)
Theorem wake_handling_clears_signal_first : forall s,
  (forall s' r, step s ETauWakeBegin = Some (s', r) -> pc s = PWakeClr /\ pc s' = PWake) /\
  (forall s' r, step s ESigClear = Some (s', r) ->
     pc s = PIdle /\ pc s' = PWakeClr /\ wsig s' = false /\ queue s' = queue s).
Proof. exact ProofsWake.wake_handling_clears_signal_first. Qed.
Print Assumptions wake_handling_clears_signal_first.

(* the variant with the two halves swapped (wake callback first, clear-up afterwards; step_late)
   violates handover_never_stranded: a hand-over landing between the drain and the clear-up stays
   queued with the signal unset while the loop goes to sleep *)
Theorem clearup_after_wake_callback_strands_handover :
  exists h c,
    let s := run_late init h in
    In c (queue s) /\ ~ In c (sigdue s) /\ wsig s = false /\ wake_due (pc s) = false /\ after_break (pc s) = false /\
    (exists t, step_late s ESleep = Some (t, 0%Z)).
Proof. exact ProofsWake.clearup_after_wake_callback_strands_handover. Qed.
Print Assumptions clearup_after_wake_callback_strands_handover.

(* the application is told exactly what its configuration asks for, whatever the configuration: the flags never
   change; no announcement is counted unless cb_conn or cb_add_ctx is installed and no cb_close unless cb_close is;
   with both announcement callbacks installed every context sitting registered in the loop has been announced
   exactly once.  (All theorems above quantify over the configuration as well: ownership, byte order, leaks
   and the wake-up protocol do not depend on which callbacks exist.) *)
Theorem callbacks_follow_configuration : forall f h c x,
  let s := run (initf f) h in
  nth_error (ctxs s) c = Some x ->
  cbs s = f /\
  ((f_conn f || f_addctx f)%bool = false -> k_ann x = 0%nat) /\
  (f_close f = false -> k_ncl x = 0%nat) /\
  ((f_conn f && f_addctx f)%bool = true -> k_loc x = LReg -> k_ann x = 1%nat).
Proof. exact ProofsCb.callbacks_follow_configuration. Qed.
Print Assumptions callbacks_follow_configuration.
