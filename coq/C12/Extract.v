From MV Require Import Lib.ExtractBase C12.Modes C12.Impl_Ctx.
From Coq Require Import ExtrOcamlBasic.
Extraction Language OCaml.
Extraction "c12_model" force_types all_ptrs
  aes_set_key aes_set_key_int aes_ecb aes_cbc aes_cfb128 aes_ofb128 aes_ctr
  des_set_key des_ecb des_cbc des_cfb64 des_ofb64 des_ctr
  tdes_set_key tdes_ecb tdes_cbc tdes_cfb64 tdes_ofb64 tdes_ctr
  impl_des_ctx_bytes impl_tdes_ctx_bytes impl_aes_ctx_bytes.
