(* C12 — SP 800-38A Appendix F vectors (F.1 ECB, F.2 CBC, F.3.13-18 CFB128, F.4 OFB,
   F.5 CTR) run through the code-layer model (Modes.v) instantiated with the AES
   specification layer, by vm_compute; both directions.  Tests, not theorems.
   CTR: the library's counter is a little-endian pre-incremented counter, so each
   F.5 counter block T_j is reached from the nonce image T_j - 1 (one block per vector). *)
From Coq Require Import String.
From MV Require Import C12.Modes C12.KAT_AES.
Local Open Scope string_scope.
Local Open Scope N_scope.

Definition pt := hex "6bc1bee22e409f96e93d7e117393172aae2d8a571e03ac9c9eb76fac45af8e5130c81c46a35ce411e5fbc1191a0a52eff69f2445df4f9b17ad2b417be66c3710".
Definition k128 := hex "2b7e151628aed2a6abf7158809cf4f3c".
Definition k192 := hex "8e73b0f7da0e6452c810f32b809079e562f8ead2522c6b7b".
Definition k256 := hex "603deb1015ca71be2b73aef0857d77811f352c073b6108d72d9810a30914dff4".
Definition key_of (bits : N) := if bits =? 128 then k128 else if bits =? 192 then k192 else k256.
Definition iv0 := hex "000102030405060708090a0b0c0d0e0f".
Definition st0 (iv : list N) : st := {| s_iv := iv; s_off := 0; s_sb := repeat 0 16 |}.

Definition run (f : ptrs -> aes_ctx -> st -> list N -> cres) (o : op) (m : mode) (bits : N) (iv inp : list N) :=
  match aes_set_key true true o m bits (key_of bits) with
  | (OK, Some c) => let r := f all_ptrs c (st0 iv) inp in (r_err r, r_out r)
  | (e, _) => (e, None)
  end.
Definition good (out : list N) := (OK, Some out).

Example F_1_1_enc : run aes_ecb OpEnc ECB 128 [] pt = good (hex "3ad77bb40d7a3660a89ecaf32466ef97f5d3d58503b9699de785895a96fdbaaf43b1cd7f598ece23881b00e3ed0306887b0c785e27e8ad3f8223207104725dd4").
Proof. vm_compute. reflexivity. Qed.
Example F_1_1_dec : run aes_ecb OpDec ECB 128 [] (hex "3ad77bb40d7a3660a89ecaf32466ef97f5d3d58503b9699de785895a96fdbaaf43b1cd7f598ece23881b00e3ed0306887b0c785e27e8ad3f8223207104725dd4") = good pt.
Proof. vm_compute. reflexivity. Qed.
Example F_1_3_enc : run aes_ecb OpEnc ECB 192 [] pt = good (hex "bd334f1d6e45f25ff712a214571fa5cc974104846d0ad3ad7734ecb3ecee4eefef7afd2270e2e60adce0ba2face6444e9a4b41ba738d6c72fb16691603c18e0e").
Proof. vm_compute. reflexivity. Qed.
Example F_1_3_dec : run aes_ecb OpDec ECB 192 [] (hex "bd334f1d6e45f25ff712a214571fa5cc974104846d0ad3ad7734ecb3ecee4eefef7afd2270e2e60adce0ba2face6444e9a4b41ba738d6c72fb16691603c18e0e") = good pt.
Proof. vm_compute. reflexivity. Qed.
Example F_1_5_enc : run aes_ecb OpEnc ECB 256 [] pt = good (hex "f3eed1bdb5d2a03c064b5a7e3db181f8591ccb10d410ed26dc5ba74a31362870b6ed21b99ca6f4f9f153e7b1beafed1d23304b7a39f9f3ff067d8d8f9e24ecc7").
Proof. vm_compute. reflexivity. Qed.
Example F_1_5_dec : run aes_ecb OpDec ECB 256 [] (hex "f3eed1bdb5d2a03c064b5a7e3db181f8591ccb10d410ed26dc5ba74a31362870b6ed21b99ca6f4f9f153e7b1beafed1d23304b7a39f9f3ff067d8d8f9e24ecc7") = good pt.
Proof. vm_compute. reflexivity. Qed.
Example F_2_1_enc : run aes_cbc OpEnc CBC 128 iv0 pt = good (hex "7649abac8119b246cee98e9b12e9197d5086cb9b507219ee95db113a917678b273bed6b8e3c1743b7116e69e222295163ff1caa1681fac09120eca307586e1a7").
Proof. vm_compute. reflexivity. Qed.
Example F_2_1_dec : run aes_cbc OpDec CBC 128 iv0 (hex "7649abac8119b246cee98e9b12e9197d5086cb9b507219ee95db113a917678b273bed6b8e3c1743b7116e69e222295163ff1caa1681fac09120eca307586e1a7") = good pt.
Proof. vm_compute. reflexivity. Qed.
Example F_2_3_enc : run aes_cbc OpEnc CBC 192 iv0 pt = good (hex "4f021db243bc633d7178183a9fa071e8b4d9ada9ad7dedf4e5e738763f69145a571b242012fb7ae07fa9baac3df102e008b0e27988598881d920a9e64f5615cd").
Proof. vm_compute. reflexivity. Qed.
Example F_2_3_dec : run aes_cbc OpDec CBC 192 iv0 (hex "4f021db243bc633d7178183a9fa071e8b4d9ada9ad7dedf4e5e738763f69145a571b242012fb7ae07fa9baac3df102e008b0e27988598881d920a9e64f5615cd") = good pt.
Proof. vm_compute. reflexivity. Qed.
Example F_2_5_enc : run aes_cbc OpEnc CBC 256 iv0 pt = good (hex "f58c4c04d6e5f1ba779eabfb5f7bfbd69cfc4e967edb808d679f777bc6702c7d39f23369a9d9bacfa530e26304231461b2eb05e2c39be9fcda6c19078c6a9d1b").
Proof. vm_compute. reflexivity. Qed.
Example F_2_5_dec : run aes_cbc OpDec CBC 256 iv0 (hex "f58c4c04d6e5f1ba779eabfb5f7bfbd69cfc4e967edb808d679f777bc6702c7d39f23369a9d9bacfa530e26304231461b2eb05e2c39be9fcda6c19078c6a9d1b") = good pt.
Proof. vm_compute. reflexivity. Qed.
Example F_3_13_enc : run aes_cfb128 OpEnc CFB 128 iv0 pt = good (hex "3b3fd92eb72dad20333449f8e83cfb4ac8a64537a0b3a93fcde3cdad9f1ce58b26751f67a3cbb140b1808cf187a4f4dfc04b05357c5d1c0eeac4c66f9ff7f2e6").
Proof. vm_compute. reflexivity. Qed.
Example F_3_13_dec : run aes_cfb128 OpDec CFB 128 iv0 (hex "3b3fd92eb72dad20333449f8e83cfb4ac8a64537a0b3a93fcde3cdad9f1ce58b26751f67a3cbb140b1808cf187a4f4dfc04b05357c5d1c0eeac4c66f9ff7f2e6") = good pt.
Proof. vm_compute. reflexivity. Qed.
Example F_3_15_enc : run aes_cfb128 OpEnc CFB 192 iv0 pt = good (hex "cdc80d6fddf18cab34c25909c99a417467ce7f7f81173621961a2b70171d3d7a2e1e8a1dd59b88b1c8e60fed1efac4c9c05f9f9ca9834fa042ae8fba584b09ff").
Proof. vm_compute. reflexivity. Qed.
Example F_3_15_dec : run aes_cfb128 OpDec CFB 192 iv0 (hex "cdc80d6fddf18cab34c25909c99a417467ce7f7f81173621961a2b70171d3d7a2e1e8a1dd59b88b1c8e60fed1efac4c9c05f9f9ca9834fa042ae8fba584b09ff") = good pt.
Proof. vm_compute. reflexivity. Qed.
Example F_3_17_enc : run aes_cfb128 OpEnc CFB 256 iv0 pt = good (hex "dc7e84bfda79164b7ecd8486985d386039ffed143b28b1c832113c6331e5407bdf10132415e54b92a13ed0a8267ae2f975a385741ab9cef82031623d55b1e471").
Proof. vm_compute. reflexivity. Qed.
Example F_3_17_dec : run aes_cfb128 OpDec CFB 256 iv0 (hex "dc7e84bfda79164b7ecd8486985d386039ffed143b28b1c832113c6331e5407bdf10132415e54b92a13ed0a8267ae2f975a385741ab9cef82031623d55b1e471") = good pt.
Proof. vm_compute. reflexivity. Qed.
Example F_4_1_enc : run aes_ofb128 OpEnc OFB 128 iv0 pt = good (hex "3b3fd92eb72dad20333449f8e83cfb4a7789508d16918f03f53c52dac54ed8259740051e9c5fecf64344f7a82260edcc304c6528f659c77866a510d9c1d6ae5e").
Proof. vm_compute. reflexivity. Qed.
Example F_4_1_dec : run aes_ofb128 OpDec OFB 128 iv0 (hex "3b3fd92eb72dad20333449f8e83cfb4a7789508d16918f03f53c52dac54ed8259740051e9c5fecf64344f7a82260edcc304c6528f659c77866a510d9c1d6ae5e") = good pt.
Proof. vm_compute. reflexivity. Qed.
Example F_4_3_enc : run aes_ofb128 OpEnc OFB 192 iv0 pt = good (hex "cdc80d6fddf18cab34c25909c99a4174fcc28b8d4c63837c09e81700c11004018d9a9aeac0f6596f559c6d4daf59a5f26d9f200857ca6c3e9cac524bd9acc92a").
Proof. vm_compute. reflexivity. Qed.
Example F_4_3_dec : run aes_ofb128 OpDec OFB 192 iv0 (hex "cdc80d6fddf18cab34c25909c99a4174fcc28b8d4c63837c09e81700c11004018d9a9aeac0f6596f559c6d4daf59a5f26d9f200857ca6c3e9cac524bd9acc92a") = good pt.
Proof. vm_compute. reflexivity. Qed.
Example F_4_5_enc : run aes_ofb128 OpEnc OFB 256 iv0 pt = good (hex "dc7e84bfda79164b7ecd8486985d38604febdc6740d20b3ac88f6ad82a4fb08d71ab47a086e86eedf39d1c5bba97c4080126141d67f37be8538f5a8be740e484").
Proof. vm_compute. reflexivity. Qed.
Example F_4_5_dec : run aes_ofb128 OpDec OFB 256 iv0 (hex "dc7e84bfda79164b7ecd8486985d38604febdc6740d20b3ac88f6ad82a4fb08d71ab47a086e86eedf39d1c5bba97c4080126141d67f37be8538f5a8be740e484") = good pt.
Proof. vm_compute. reflexivity. Qed.

(* F.5: counter blocks f0f1...feff, ...ff00, ...ff01, ...ff02; nonce image = T_j - 1 as a
   little-endian 128-bit number *)
Definition blk_j (j : nat) := firstn 16 (skipn (16 * j) pt).
Example F_5_128_b1 : run aes_ctr OpEnc CTR 128 (hex "eff1f2f3f4f5f6f7f8f9fafbfcfdfeff") (blk_j 0) = good (hex "874d6191b620e3261bef6864990db6ce").
Proof. vm_compute. reflexivity. Qed.
Example F_5_128_b2 : run aes_ctr OpDec CTR 128 (hex "eff1f2f3f4f5f6f7f8f9fafbfcfdff00") (hex "9806f66b7970fdff8617187bb9fffdff") = good (blk_j 1).
Proof. vm_compute. reflexivity. Qed.
Example F_5_128_b3 : run aes_ctr OpEnc CTR 128 (hex "eff1f2f3f4f5f6f7f8f9fafbfcfdff01") (blk_j 2) = good (hex "5ae4df3edbd5d35e5b4f09020db03eab").
Proof. vm_compute. reflexivity. Qed.
Example F_5_128_b4 : run aes_ctr OpDec CTR 128 (hex "eff1f2f3f4f5f6f7f8f9fafbfcfdff02") (hex "1e031dda2fbe03d1792170a0f3009cee") = good (blk_j 3).
Proof. vm_compute. reflexivity. Qed.
Example F_5_192_b1 : run aes_ctr OpEnc CTR 192 (hex "eff1f2f3f4f5f6f7f8f9fafbfcfdfeff") (blk_j 0) = good (hex "1abc932417521ca24f2b0459fe7e6e0b").
Proof. vm_compute. reflexivity. Qed.
Example F_5_192_b2 : run aes_ctr OpDec CTR 192 (hex "eff1f2f3f4f5f6f7f8f9fafbfcfdff00") (hex "090339ec0aa6faefd5ccc2c6f4ce8e94") = good (blk_j 1).
Proof. vm_compute. reflexivity. Qed.
Example F_5_192_b3 : run aes_ctr OpEnc CTR 192 (hex "eff1f2f3f4f5f6f7f8f9fafbfcfdff01") (blk_j 2) = good (hex "1e36b26bd1ebc670d1bd1d665620abf7").
Proof. vm_compute. reflexivity. Qed.
Example F_5_192_b4 : run aes_ctr OpDec CTR 192 (hex "eff1f2f3f4f5f6f7f8f9fafbfcfdff02") (hex "4f78a7f6d29809585a97daec58c6b050") = good (blk_j 3).
Proof. vm_compute. reflexivity. Qed.
Example F_5_256_b1 : run aes_ctr OpEnc CTR 256 (hex "eff1f2f3f4f5f6f7f8f9fafbfcfdfeff") (blk_j 0) = good (hex "601ec313775789a5b7a7f504bbf3d228").
Proof. vm_compute. reflexivity. Qed.
Example F_5_256_b2 : run aes_ctr OpDec CTR 256 (hex "eff1f2f3f4f5f6f7f8f9fafbfcfdff00") (hex "f443e3ca4d62b59aca84e990cacaf5c5") = good (blk_j 1).
Proof. vm_compute. reflexivity. Qed.
Example F_5_256_b3 : run aes_ctr OpEnc CTR 256 (hex "eff1f2f3f4f5f6f7f8f9fafbfcfdff01") (blk_j 2) = good (hex "2b0930daa23de94ce87017ba2d84988d").
Proof. vm_compute. reflexivity. Qed.
Example F_5_256_b4 : run aes_ctr OpDec CTR 256 (hex "eff1f2f3f4f5f6f7f8f9fafbfcfdff02") (hex "dfc9c58db67aada613c2dd08457941a6") = good (blk_j 3).
Proof. vm_compute. reflexivity. Qed.

(* counter increment exactly as coded: nonce[0] wraps at 2^64 and carries into nonce[1] *)
Example ctr_carry : incr_aes [two64 - 1; 5] = [0; 6] /\ incr_aes [two64 - 2; 5] = [two64 - 1; 5]
  /\ incr_aes [two64 - 1; two64 - 1] = [0; 0] /\ incr_des [two64 - 1] = [0].
Proof. vm_compute. auto. Qed.

(* ECB/CBC reject a length that is not a block multiple, nothing written; bad key size *)
Example ecb_reject : run aes_ecb OpEnc ECB 128 [] (firstn 17 pt) = (E_INVALID, None).
Proof. vm_compute. reflexivity. Qed.
Example cbc_reject : run aes_cbc OpEnc CBC 128 iv0 (firstn 15 pt) = (E_INVALID, None).
Proof. vm_compute. reflexivity. Qed.
Example keysize_reject : fst (aes_set_key true true OpEnc ECB 129 k128) = E_KEYSIZE.
Proof. vm_compute. reflexivity. Qed.
(* chunking: 7 + 30 + 27 bytes through CFB in three calls = one call *)
Example cfb_chunks :
  match aes_set_key true true OpEnc CFB 128 k128 with
  | (OK, Some c) =>
    let r1 := aes_cfb128 all_ptrs c (st0 iv0) (firstn 7 pt) in
    let r2 := aes_cfb128 all_ptrs c (r_st r1) (firstn 30 (skipn 7 pt)) in
    let r3 := aes_cfb128 all_ptrs c (r_st r2) (skipn 37 pt) in
    let r := aes_cfb128 all_ptrs c (st0 iv0) pt in
    (r_out r1, r_out r2, r_out r3, r_st r3) =
    (Some (firstn 7 (hex "3b3fd92eb72dad20")), option_map (fun o => firstn 30 (skipn 7 o)) (r_out r),
     option_map (skipn 37) (r_out r), r_st r)
  | _ => False
  end.
Proof. vm_compute. reflexivity. Qed.

(* all vectors above as one proposition (an obligation of Properties_C12.v) *)
Definition sp80038a_vectors_hold : Prop :=
  (run aes_ecb OpEnc ECB 128 [] pt = good (hex "3ad77bb40d7a3660a89ecaf32466ef97f5d3d58503b9699de785895a96fdbaaf43b1cd7f598ece23881b00e3ed0306887b0c785e27e8ad3f8223207104725dd4")) /\
  (run aes_ecb OpDec ECB 128 [] (hex "3ad77bb40d7a3660a89ecaf32466ef97f5d3d58503b9699de785895a96fdbaaf43b1cd7f598ece23881b00e3ed0306887b0c785e27e8ad3f8223207104725dd4") = good pt) /\
  (run aes_ecb OpEnc ECB 192 [] pt = good (hex "bd334f1d6e45f25ff712a214571fa5cc974104846d0ad3ad7734ecb3ecee4eefef7afd2270e2e60adce0ba2face6444e9a4b41ba738d6c72fb16691603c18e0e")) /\
  (run aes_ecb OpDec ECB 192 [] (hex "bd334f1d6e45f25ff712a214571fa5cc974104846d0ad3ad7734ecb3ecee4eefef7afd2270e2e60adce0ba2face6444e9a4b41ba738d6c72fb16691603c18e0e") = good pt) /\
  (run aes_ecb OpEnc ECB 256 [] pt = good (hex "f3eed1bdb5d2a03c064b5a7e3db181f8591ccb10d410ed26dc5ba74a31362870b6ed21b99ca6f4f9f153e7b1beafed1d23304b7a39f9f3ff067d8d8f9e24ecc7")) /\
  (run aes_ecb OpDec ECB 256 [] (hex "f3eed1bdb5d2a03c064b5a7e3db181f8591ccb10d410ed26dc5ba74a31362870b6ed21b99ca6f4f9f153e7b1beafed1d23304b7a39f9f3ff067d8d8f9e24ecc7") = good pt) /\
  (run aes_cbc OpEnc CBC 128 iv0 pt = good (hex "7649abac8119b246cee98e9b12e9197d5086cb9b507219ee95db113a917678b273bed6b8e3c1743b7116e69e222295163ff1caa1681fac09120eca307586e1a7")) /\
  (run aes_cbc OpDec CBC 128 iv0 (hex "7649abac8119b246cee98e9b12e9197d5086cb9b507219ee95db113a917678b273bed6b8e3c1743b7116e69e222295163ff1caa1681fac09120eca307586e1a7") = good pt) /\
  (run aes_cbc OpEnc CBC 192 iv0 pt = good (hex "4f021db243bc633d7178183a9fa071e8b4d9ada9ad7dedf4e5e738763f69145a571b242012fb7ae07fa9baac3df102e008b0e27988598881d920a9e64f5615cd")) /\
  (run aes_cbc OpDec CBC 192 iv0 (hex "4f021db243bc633d7178183a9fa071e8b4d9ada9ad7dedf4e5e738763f69145a571b242012fb7ae07fa9baac3df102e008b0e27988598881d920a9e64f5615cd") = good pt) /\
  (run aes_cbc OpEnc CBC 256 iv0 pt = good (hex "f58c4c04d6e5f1ba779eabfb5f7bfbd69cfc4e967edb808d679f777bc6702c7d39f23369a9d9bacfa530e26304231461b2eb05e2c39be9fcda6c19078c6a9d1b")) /\
  (run aes_cbc OpDec CBC 256 iv0 (hex "f58c4c04d6e5f1ba779eabfb5f7bfbd69cfc4e967edb808d679f777bc6702c7d39f23369a9d9bacfa530e26304231461b2eb05e2c39be9fcda6c19078c6a9d1b") = good pt) /\
  (run aes_cfb128 OpEnc CFB 128 iv0 pt = good (hex "3b3fd92eb72dad20333449f8e83cfb4ac8a64537a0b3a93fcde3cdad9f1ce58b26751f67a3cbb140b1808cf187a4f4dfc04b05357c5d1c0eeac4c66f9ff7f2e6")) /\
  (run aes_cfb128 OpDec CFB 128 iv0 (hex "3b3fd92eb72dad20333449f8e83cfb4ac8a64537a0b3a93fcde3cdad9f1ce58b26751f67a3cbb140b1808cf187a4f4dfc04b05357c5d1c0eeac4c66f9ff7f2e6") = good pt) /\
  (run aes_cfb128 OpEnc CFB 192 iv0 pt = good (hex "cdc80d6fddf18cab34c25909c99a417467ce7f7f81173621961a2b70171d3d7a2e1e8a1dd59b88b1c8e60fed1efac4c9c05f9f9ca9834fa042ae8fba584b09ff")) /\
  (run aes_cfb128 OpDec CFB 192 iv0 (hex "cdc80d6fddf18cab34c25909c99a417467ce7f7f81173621961a2b70171d3d7a2e1e8a1dd59b88b1c8e60fed1efac4c9c05f9f9ca9834fa042ae8fba584b09ff") = good pt) /\
  (run aes_cfb128 OpEnc CFB 256 iv0 pt = good (hex "dc7e84bfda79164b7ecd8486985d386039ffed143b28b1c832113c6331e5407bdf10132415e54b92a13ed0a8267ae2f975a385741ab9cef82031623d55b1e471")) /\
  (run aes_cfb128 OpDec CFB 256 iv0 (hex "dc7e84bfda79164b7ecd8486985d386039ffed143b28b1c832113c6331e5407bdf10132415e54b92a13ed0a8267ae2f975a385741ab9cef82031623d55b1e471") = good pt) /\
  (run aes_ofb128 OpEnc OFB 128 iv0 pt = good (hex "3b3fd92eb72dad20333449f8e83cfb4a7789508d16918f03f53c52dac54ed8259740051e9c5fecf64344f7a82260edcc304c6528f659c77866a510d9c1d6ae5e")) /\
  (run aes_ofb128 OpDec OFB 128 iv0 (hex "3b3fd92eb72dad20333449f8e83cfb4a7789508d16918f03f53c52dac54ed8259740051e9c5fecf64344f7a82260edcc304c6528f659c77866a510d9c1d6ae5e") = good pt) /\
  (run aes_ofb128 OpEnc OFB 192 iv0 pt = good (hex "cdc80d6fddf18cab34c25909c99a4174fcc28b8d4c63837c09e81700c11004018d9a9aeac0f6596f559c6d4daf59a5f26d9f200857ca6c3e9cac524bd9acc92a")) /\
  (run aes_ofb128 OpDec OFB 192 iv0 (hex "cdc80d6fddf18cab34c25909c99a4174fcc28b8d4c63837c09e81700c11004018d9a9aeac0f6596f559c6d4daf59a5f26d9f200857ca6c3e9cac524bd9acc92a") = good pt) /\
  (run aes_ofb128 OpEnc OFB 256 iv0 pt = good (hex "dc7e84bfda79164b7ecd8486985d38604febdc6740d20b3ac88f6ad82a4fb08d71ab47a086e86eedf39d1c5bba97c4080126141d67f37be8538f5a8be740e484")) /\
  (run aes_ofb128 OpDec OFB 256 iv0 (hex "dc7e84bfda79164b7ecd8486985d38604febdc6740d20b3ac88f6ad82a4fb08d71ab47a086e86eedf39d1c5bba97c4080126141d67f37be8538f5a8be740e484") = good pt) /\
  (run aes_ctr OpEnc CTR 128 (hex "eff1f2f3f4f5f6f7f8f9fafbfcfdfeff") (blk_j 0) = good (hex "874d6191b620e3261bef6864990db6ce")) /\
  (run aes_ctr OpDec CTR 128 (hex "eff1f2f3f4f5f6f7f8f9fafbfcfdff00") (hex "9806f66b7970fdff8617187bb9fffdff") = good (blk_j 1)) /\
  (run aes_ctr OpEnc CTR 128 (hex "eff1f2f3f4f5f6f7f8f9fafbfcfdff01") (blk_j 2) = good (hex "5ae4df3edbd5d35e5b4f09020db03eab")) /\
  (run aes_ctr OpDec CTR 128 (hex "eff1f2f3f4f5f6f7f8f9fafbfcfdff02") (hex "1e031dda2fbe03d1792170a0f3009cee") = good (blk_j 3)) /\
  (run aes_ctr OpEnc CTR 192 (hex "eff1f2f3f4f5f6f7f8f9fafbfcfdfeff") (blk_j 0) = good (hex "1abc932417521ca24f2b0459fe7e6e0b")) /\
  (run aes_ctr OpDec CTR 192 (hex "eff1f2f3f4f5f6f7f8f9fafbfcfdff00") (hex "090339ec0aa6faefd5ccc2c6f4ce8e94") = good (blk_j 1)) /\
  (run aes_ctr OpEnc CTR 192 (hex "eff1f2f3f4f5f6f7f8f9fafbfcfdff01") (blk_j 2) = good (hex "1e36b26bd1ebc670d1bd1d665620abf7")) /\
  (run aes_ctr OpDec CTR 192 (hex "eff1f2f3f4f5f6f7f8f9fafbfcfdff02") (hex "4f78a7f6d29809585a97daec58c6b050") = good (blk_j 3)) /\
  (run aes_ctr OpEnc CTR 256 (hex "eff1f2f3f4f5f6f7f8f9fafbfcfdfeff") (blk_j 0) = good (hex "601ec313775789a5b7a7f504bbf3d228")) /\
  (run aes_ctr OpDec CTR 256 (hex "eff1f2f3f4f5f6f7f8f9fafbfcfdff00") (hex "f443e3ca4d62b59aca84e990cacaf5c5") = good (blk_j 1)) /\
  (run aes_ctr OpEnc CTR 256 (hex "eff1f2f3f4f5f6f7f8f9fafbfcfdff01") (blk_j 2) = good (hex "2b0930daa23de94ce87017ba2d84988d")) /\
  (run aes_ctr OpDec CTR 256 (hex "eff1f2f3f4f5f6f7f8f9fafbfcfdff02") (hex "dfc9c58db67aada613c2dd08457941a6") = good (blk_j 3)) /\
  (incr_aes [two64 - 1; 5] = [0; 6] /\ incr_aes [two64 - 2; 5] = [two64 - 1; 5]
  /\ incr_aes [two64 - 1; two64 - 1] = [0; 0] /\ incr_des [two64 - 1] = [0]) /\
  (run aes_ecb OpEnc ECB 128 [] (firstn 17 pt) = (E_INVALID, None)) /\
  (run aes_cbc OpEnc CBC 128 iv0 (firstn 15 pt) = (E_INVALID, None)) /\
  (fst (aes_set_key true true OpEnc ECB 129 k128) = E_KEYSIZE).
Lemma sp80038a_vectors_ok : sp80038a_vectors_hold.
Proof. exact (conj F_1_1_enc (conj F_1_1_dec (conj F_1_3_enc (conj F_1_3_dec (conj F_1_5_enc (conj F_1_5_dec (conj F_2_1_enc (conj F_2_1_dec (conj F_2_3_enc (conj F_2_3_dec (conj F_2_5_enc (conj F_2_5_dec (conj F_3_13_enc (conj F_3_13_dec (conj F_3_15_enc (conj F_3_15_dec (conj F_3_17_enc (conj F_3_17_dec (conj F_4_1_enc (conj F_4_1_dec (conj F_4_3_enc (conj F_4_3_dec (conj F_4_5_enc (conj F_4_5_dec (conj F_5_128_b1 (conj F_5_128_b2 (conj F_5_128_b3 (conj F_5_128_b4 (conj F_5_192_b1 (conj F_5_192_b2 (conj F_5_192_b3 (conj F_5_192_b4 (conj F_5_256_b1 (conj F_5_256_b2 (conj F_5_256_b3 (conj F_5_256_b4 (conj ctr_carry (conj ecb_reject (conj cbc_reject keysize_reject))))))))))))))))))))))))))))))))))))))). Qed.
