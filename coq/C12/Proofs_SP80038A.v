(* C12 — the byte-at-a-time stream loops of the library compute the block-wise
   definitions of SP 800-38A (6.3 CFB with s = b, 6.4 OFB, 6.5 CTR) for every
   message length, the last segment being truncated:
     OFB:  O_1 = E(IV), O_j = E(O_(j-1)),  C = P xor (O_1 || O_2 || ...)
     CTR:  O_j = E(T_j), T_j = the library's counter after j increments,  C = P xor (O_1 || O_2 || ...)
     CFB:  C_j = P_j xor E(C_(j-1)), C_0 = IV   (decrypt: P_j = C_j xor E(C_(j-1)))
   and more generally, resumed at an offset inside a block, the rest of the current
   keystream block is used first. *)
From Coq Require Import Lia Arith PeanoNat.
From MV Require Import C12.Modes C12.Proofs_Modes.
Local Open Scope N_scope.

Lemma xorl_nil_r : forall a, xorl a [] = [].
Proof. destruct a; reflexivity. Qed.

Lemma skipn_nth_cons : forall (l : list N) i, (i < length l)%nat -> skipn i l = nth i l 0 :: skipn (S i) l.
Proof.
  induction l as [|a l IH]; intros i H; [cbn in H; lia|].
  destruct i; [reflexivity|]. cbn [skipn nth]. apply IH. cbn in H. lia.
Qed.

Section SP.
  Variable bs : nat.
  Variable E : list N -> list N.
  Variable incr : list N -> list N.
  Hypothesis bs_ge2 : (2 <= bs)%nat.
  Hypothesis E_len : forall b, length (E b) = bs.
  (* the mask is "mod bs" on the offsets that occur (checked by computation for bs = 16 and 8) *)
  Hypothesis mask_step : forall off, (N.to_nat off + 1 < bs)%nat -> N.land (off + 1) (mask bs) = off + 1.
  Hypothesis mask_wrap : forall off, (N.to_nat off + 1 = bs)%nat -> N.land (off + 1) (mask bs) = 0.

  (* what is left of the current keystream block at offset off (off = 0: nothing, a new block is due) *)
  Definition tail_of (blk : list N) (off : N) : list N := if off =? 0 then [] else skipn (N.to_nat off) blk.

  Lemma tail_step : forall blk off, length blk = bs -> off <> 0 -> (N.to_nat off < bs)%nat ->
    tail_of blk off = nth (N.to_nat off) blk 0 :: tail_of blk (N.land (off + 1) (mask bs)).
  Proof.
    intros blk off Hl Hz Hlt. unfold tail_of at 1. destruct (N.eqb_spec off 0); [contradiction|].
    rewrite skipn_nth_cons by lia. f_equal.
    destruct (Nat.eq_dec (N.to_nat off + 1) bs) as [He|Hne].
    - rewrite mask_wrap by exact He. unfold tail_of. cbn [N.eqb]. apply skipn_all2. lia.
    - rewrite mask_step by lia. unfold tail_of. destruct (N.eqb_spec (off + 1) 0); [lia|].
      f_equal. lia.
  Qed.

  Lemma tail_first : forall blk, length blk = bs -> blk = nth 0 blk 0 :: tail_of blk (N.land (0 + 1) (mask bs)).
  Proof.
    intros blk Hl. rewrite mask_step by (cbn; lia). unfold tail_of. cbn [N.add N.eqb Pos.eqb].
    change (N.to_nat 1) with 1%nat. rewrite <- skipn_nth_cons by lia. reflexivity.
  Qed.

  (* ---------- OFB ---------- *)
  Fixpoint ofb_keystream (n : nat) (iv : list N) : list N :=
    match n with O => [] | S k => E iv ++ ofb_keystream k (E iv) end.

  Theorem ofb_is_sp80038a_gen : forall m iv off n, length iv = bs -> (N.to_nat off < bs)%nat -> (length m <= n)%nat ->
    snd (ofb_loop bs E iv off m) = xorl m (tail_of iv off ++ ofb_keystream n iv).
  Proof.
    induction m as [|x r IH]; intros iv off n Hl Ho Hn; [reflexivity|].
    cbn [ofb_loop]. destruct (N.eqb_spec off 0) as [->|Hz].
    - destruct n as [|n]; [cbn in Hn; lia|]. cbn [ofb_keystream tail_of N.eqb app].
      assert (Hl1 : length (E iv) = bs) by apply E_len.
      specialize (IH (E iv) (N.land (0 + 1) (mask bs)) n Hl1).
      rewrite mask_step in IH by (cbn; lia). rewrite mask_step by (cbn; lia).
      destruct (ofb_loop bs E (E iv) (0 + 1) r) as [[iv3 off3] out]. cbn [snd] in *.
      rewrite IH by (cbn in *; lia).
      pose proof (tail_first (E iv) Hl1) as Hk. rewrite mask_step in Hk by (cbn; lia).
      assert (Hs : E iv ++ ofb_keystream n (E iv) = nth 0 (E iv) 0 :: (tail_of (E iv) (0 + 1) ++ ofb_keystream n (E iv)))
        by (rewrite Hk at 1; reflexivity).
      rewrite Hs. reflexivity.
    - assert (Hlt : (N.to_nat (N.land (off + 1) (mask bs)) < bs)%nat).
      { destruct (Nat.eq_dec (N.to_nat off + 1) bs); [rewrite mask_wrap by assumption; cbn; lia|rewrite mask_step by lia; lia]. }
      specialize (IH iv (N.land (off + 1) (mask bs)) n Hl Hlt).
      destruct (ofb_loop bs E iv (N.land (off + 1) (mask bs)) r) as [[iv3 off3] out]. cbn [snd] in *.
      rewrite IH by (cbn in Hn; lia). rewrite (tail_step iv off Hl Hz Ho). reflexivity.
  Qed.

  (* from offset 0: C = P xor (O_1 || O_2 || ...), truncated to the message length *)
  Corollary ofb_is_sp80038a : forall m iv, length iv = bs ->
    snd (ofb_loop bs E iv 0 m) = xorl m (ofb_keystream (length m) iv).
  Proof. intros. rewrite (ofb_is_sp80038a_gen m iv 0 (length m)) by (cbn; lia). reflexivity. Qed.

  (* ---------- CTR ---------- *)
  Fixpoint ctr_keystream (n : nat) (w : list N) : list N :=
    match n with O => [] | S k => E (bytes_of_words (incr w)) ++ ctr_keystream k (incr w) end.

  Theorem ctr_is_sp80038a_gen : forall m w off sb n, length sb = bs -> (N.to_nat off < bs)%nat -> (length m <= n)%nat ->
    snd (ctr_loop bs E incr w off sb m) = xorl m (tail_of sb off ++ ctr_keystream n w).
  Proof.
    induction m as [|x r IH]; intros w off sb n Hl Ho Hn; [reflexivity|].
    cbn [ctr_loop]. destruct (N.eqb_spec off 0) as [->|Hz].
    - destruct n as [|n]; [cbn in Hn; lia|]. cbn [ctr_keystream tail_of N.eqb app].
      set (sb1 := E (bytes_of_words (incr w))).
      assert (Hl1 : length sb1 = bs) by apply E_len.
      specialize (IH (incr w) (N.land (0 + 1) (mask bs)) sb1 n Hl1).
      rewrite mask_step in IH by (cbn; lia). rewrite mask_step by (cbn; lia).
      destruct (ctr_loop bs E incr (incr w) (0 + 1) sb1 r) as [[[w3 off3] sb3] out]. cbn [snd] in *.
      rewrite IH by (cbn in *; lia).
      pose proof (tail_first sb1 Hl1) as Hk. rewrite mask_step in Hk by (cbn; lia).
      assert (Hs : sb1 ++ ctr_keystream n (incr w) = nth 0 sb1 0 :: (tail_of sb1 (0 + 1) ++ ctr_keystream n (incr w)))
        by (rewrite Hk at 1; reflexivity).
      rewrite Hs. reflexivity.
    - assert (Hlt : (N.to_nat (N.land (off + 1) (mask bs)) < bs)%nat).
      { destruct (Nat.eq_dec (N.to_nat off + 1) bs); [rewrite mask_wrap by assumption; cbn; lia|rewrite mask_step by lia; lia]. }
      specialize (IH w (N.land (off + 1) (mask bs)) sb n Hl Hlt).
      destruct (ctr_loop bs E incr w (N.land (off + 1) (mask bs)) sb r) as [[[w3 off3] sb3] out]. cbn [snd] in *.
      rewrite IH by (cbn in Hn; lia). rewrite (tail_step sb off Hl Hz Ho). reflexivity.
  Qed.

  Corollary ctr_is_sp80038a : forall m w sb, length sb = bs ->
    snd (ctr_loop bs E incr w 0 sb m) = xorl m (ctr_keystream (length m) w).
  Proof. intros. rewrite (ctr_is_sp80038a_gen m w 0 sb (length m)) by (cbn; lia). reflexivity. Qed.

  (* ---------- CFB (s = b) ---------- *)
  Fixpoint sp_cfb (enc : bool) (n : nat) (prev m : list N) : list N :=
    match n with
    | O => []
    | S k => let p := firstn bs m in
             let o := xorl p (E prev) in
             o ++ sp_cfb enc k (if enc then o else p) (skipn bs m)
    end.

  Lemma sp_cfb_nil : forall enc n prev, sp_cfb enc n prev [] = [].
  Proof.
    induction n; intros prev; [reflexivity|]. cbn [sp_cfb]. rewrite firstn_nil, skipn_nil.
    cbn [xorl app]. destruct enc; apply IHn.
  Qed.

  (* offsets inside a block as nat in 1..bs; bs itself stands for "block complete" = offset 0 *)
  Definition norm (o : nat) : N := if Nat.eqb o bs then 0 else N.of_nat o.

  Lemma norm_next : forall o, (0 < o < bs)%nat -> N.land (norm o + 1) (mask bs) = norm (S o).
  Proof.
    intros o Ho. unfold norm. destruct (Nat.eqb_spec o bs); [lia|].
    destruct (Nat.eqb_spec (S o) bs).
    - apply mask_wrap. lia.
    - rewrite mask_step by lia. lia.
  Qed.

  Lemma upd_length : forall i x l, length (upd i x l) = length l.
  Proof. induction i; destruct l; cbn; auto. Qed.
  Lemma upd_firstn : forall i x l, (i < length l)%nat -> firstn (S i) (upd i x l) = firstn i l ++ [x].
  Proof.
    induction i; destruct l; cbn [length]; intros H; try lia; [reflexivity|].
    cbn [upd firstn app]. f_equal. apply IHi. lia.
  Qed.
  Lemma upd_skipn : forall i x l k, skipn (S i + k) (upd i x l) = skipn (S i + k) l.
  Proof. induction i; destruct l; intros k; cbn [upd]; try reflexivity. cbn [Nat.add skipn]. apply IHi. Qed.

  Lemma cfb_within : forall enc p iv o rest, length iv = bs -> (0 < o)%nat -> (o + length p <= bs)%nat ->
    cfb_loop bs E enc iv (norm o) (p ++ rest) =
    (let out := xorl p (skipn o iv) in
     let c := if enc then out else p in
     let '(a, b, r) := cfb_loop bs E enc (firstn o iv ++ c ++ skipn (o + length p) iv) (norm (o + length p)) rest in
     (a, b, out ++ r)).
  Proof.
    induction p as [|x p IH]; intros iv o rest Hl Ho Hle.
    - destruct enc; cbn [app xorl length]; rewrite Nat.add_0_r, firstn_skipn; destruct (cfb_loop _ _ _ _ _ rest) as [[? ?] ?]; reflexivity.
    - cbn [length] in Hle. cbn [app cfb_loop length].
      assert (Hn : norm o = N.of_nat o) by (unfold norm; destruct (Nat.eqb_spec o bs); [lia|reflexivity]).
      assert (Hz : (norm o =? 0) = false) by (rewrite Hn; apply N.eqb_neq; lia).
      rewrite Hz. rewrite norm_next by lia. rewrite Hn, Nat2N.id.
      set (ob := N.lxor x (nth o iv 0)). set (cb := if enc then ob else x).
      rewrite (IH (upd o cb iv) (S o) rest) by (rewrite ?upd_length; lia).
      rewrite (skipn_nth_cons iv o) by lia. cbn [xorl]. fold ob.
      assert (Hs1 : skipn (S o) (upd o cb iv) = skipn (S o) iv) by (pose proof (upd_skipn o cb iv 0) as Q; rewrite Nat.add_0_r in Q; exact Q).
      rewrite Hs1.
      rewrite upd_firstn by lia. rewrite upd_skipn.
      replace (o + S (length p))%nat with (S o + length p)%nat by lia.
      set (out' := xorl p (skipn (S o) iv)).
      assert (Hc : (firstn o iv ++ [cb]) ++ (if enc then out' else p) ++ skipn (S o + length p) iv =
                   firstn o iv ++ (if enc then ob :: out' else x :: p) ++ skipn (S o + length p) iv).
      { rewrite <- app_assoc. unfold cb. destruct enc; reflexivity. }
      rewrite Hc. destruct (cfb_loop bs E enc _ (norm (S o + length p)) rest) as [[a b] r]. reflexivity.
  Qed.

  Lemma xorl_len_le : forall a b, (length a <= length b)%nat -> length (xorl a b) = length a.
  Proof. induction a; destruct b; cbn; intros; try lia; auto. rewrite IHa; lia. Qed.

  (* one (possibly final, shorter) block starting at offset 0 *)
  Lemma cfb_block : forall enc p iv rest, length iv = bs -> (1 <= length p <= bs)%nat ->
    cfb_loop bs E enc iv 0 (p ++ rest) =
    (let out := xorl p (E iv) in
     let c := if enc then out else p in
     let '(a, b, r) := cfb_loop bs E enc (c ++ skipn (length p) (E iv)) (norm (length p)) rest in
     (a, b, out ++ r)).
  Proof.
    intros enc p iv rest Hl Hp. destruct p as [|x p]; [cbn in Hp; lia|]. cbn [length] in Hp.
    cbn [app cfb_loop N.eqb]. set (k := E iv). assert (Hk : length k = bs) by apply E_len.
    change (N.to_nat 0) with 0%nat.
    replace (N.land (0 + 1) (mask bs)) with (norm 1) by (unfold norm; destruct (Nat.eqb_spec 1 bs); [lia|]; symmetry; apply mask_step; cbn; lia).
    set (ob := N.lxor x (nth 0 k 0)). set (cb := if enc then ob else x).
    assert (Hu : length (upd 0 cb k) = bs) by (rewrite upd_length; exact Hk).
    assert (H1p : (1 + length p <= bs)%nat) by lia.
    rewrite (cfb_within enc p (upd 0 cb k) 1 rest Hu Nat.lt_0_1 H1p).
    assert (Hs1 : skipn 1 (upd 0 cb k) = skipn 1 k) by (exact (upd_skipn 0 cb k 0)).
    rewrite Hs1.
    rewrite (upd_firstn 0 cb k) by lia. cbn [firstn app].
    rewrite (upd_skipn 0 cb k (length p)). cbn [length].
    set (out' := xorl p (skipn 1 k)).
    assert (Hk0 : k = nth 0 k 0 :: skipn 1 k) by (exact (skipn_nth_cons k 0 ltac:(lia))).
    assert (HA : xorl (x :: p) k = ob :: out') by (unfold ob, out'; rewrite Hk0 at 1; reflexivity).
    rewrite HA.
    assert (Hc : cb :: (if enc then out' else p) ++ skipn (1 + length p) k =
                 (if enc then ob :: out' else x :: p) ++ skipn (S (length p)) k) by (unfold cb; destruct enc; reflexivity).
    rewrite Hc. change (1 + length p)%nat with (S (length p)).
    destruct (cfb_loop bs E enc _ (norm (S (length p))) rest) as [[a b] r]. reflexivity.
  Qed.

  Theorem cfb_is_sp80038a : forall enc n m iv, length iv = bs -> (length m <= n * bs)%nat ->
    snd (cfb_loop bs E enc iv 0 m) = sp_cfb enc n iv m.
  Proof.
    induction n; intros m iv Hl Hn.
    - destruct m; [reflexivity|cbn in Hn; lia].
    - destruct m as [|x m']; [rewrite sp_cfb_nil; reflexivity|].
      set (m := x :: m') in *. cbn [sp_cfb].
      rewrite <- (firstn_skipn bs m) at 1.
      assert (Hp : (1 <= length (firstn bs m) <= bs)%nat).
      { rewrite firstn_length. unfold m. cbn [length]. lia. }
      rewrite (cfb_block enc (firstn bs m) iv (skipn bs m) Hl Hp). cbn zeta.
      destruct (Nat.le_gt_cases bs (length m)) as [Hfull|Hpart].
      + (* a full block: the register is now the ciphertext block, offset back to 0 *)
        assert (Hf : length (firstn bs m) = bs) by (rewrite firstn_length; lia).
        rewrite Hf. unfold norm. rewrite Nat.eqb_refl.
        rewrite skipn_all2 by (rewrite E_len; lia). rewrite app_nil_r.
        set (c := if enc then xorl (firstn bs m) (E iv) else firstn bs m).
        assert (Hcl : length c = bs).
        { unfold c. destruct enc; [rewrite xorl_len_le; rewrite ?E_len; lia|exact Hf]. }
        specialize (IHn (skipn bs m) c Hcl). rewrite skipn_length in IHn.
        destruct (cfb_loop bs E enc c 0 (skipn bs m)) as [[a b] r]. cbn [snd] in *.
        rewrite IHn by lia. reflexivity.
      + (* the final, shorter segment *)
        rewrite (skipn_all2 m) by lia. cbn [cfb_loop]. rewrite sp_cfb_nil, !app_nil_r. reflexivity.
  Qed.
End SP.

(* the mask facts for the two block sizes of the library *)
Lemma mask_facts_16 : (forall off, (N.to_nat off + 1 < 16)%nat -> N.land (off + 1) (mask 16) = off + 1) /\
                      (forall off, (N.to_nat off + 1 = 16)%nat -> N.land (off + 1) (mask 16) = 0).
Proof.
  change (mask 16) with (N.ones 4). split; intros off H; rewrite N.land_ones.
  - apply N.mod_small. change (2 ^ 4) with 16. lia.
  - replace (off + 1) with 16 by lia. reflexivity.
Qed.
Lemma mask_facts_8 : (forall off, (N.to_nat off + 1 < 8)%nat -> N.land (off + 1) (mask 8) = off + 1) /\
                     (forall off, (N.to_nat off + 1 = 8)%nat -> N.land (off + 1) (mask 8) = 0).
Proof.
  change (mask 8) with (N.ones 3). split; intros off H; rewrite N.land_ones.
  - apply N.mod_small. change (2 ^ 3) with 8. lia.
  - replace (off + 1) with 8 by lia. reflexivity.
Qed.

(* ---------- instantiated for the two block sizes of the library ---------- *)
Theorem ofb_sp80038a_blocksize : forall bs (E : list N -> list N), (bs = 16 \/ bs = 8)%nat ->
  (forall b, length (E b) = bs) -> forall m iv, length iv = bs ->
  snd (ofb_loop bs E iv 0 m) = xorl m (ofb_keystream E (length m) iv).
Proof.
  intros bs E [-> | ->] HE; [destruct mask_facts_16 as [A B]|destruct mask_facts_8 as [A B]];
    apply ofb_is_sp80038a; auto; lia.
Qed.

Theorem ctr_sp80038a_blocksize : forall bs (E incr : list N -> list N), (bs = 16 \/ bs = 8)%nat ->
  (forall b, length (E b) = bs) -> forall m w sb, length sb = bs ->
  snd (ctr_loop bs E incr w 0 sb m) = xorl m (ctr_keystream E incr (length m) w).
Proof.
  intros bs E incr [-> | ->] HE; [destruct mask_facts_16 as [A B]|destruct mask_facts_8 as [A B]];
    apply ctr_is_sp80038a; auto; lia.
Qed.

Theorem cfb_sp80038a_blocksize : forall bs (E : list N -> list N), (bs = 16 \/ bs = 8)%nat ->
  (forall b, length (E b) = bs) -> forall enc n m iv, length iv = bs -> (length m <= n * bs)%nat ->
  snd (cfb_loop bs E enc iv 0 m) = sp_cfb bs E enc n iv m.
Proof.
  intros bs E [-> | ->] HE; [destruct mask_facts_16 as [A B]|destruct mask_facts_8 as [A B]];
    apply cfb_is_sp80038a; auto; lia.
Qed.

(* resumed inside a block: the rest of the current keystream block first *)
Theorem ofb_sp80038a_resumed : forall bs (E : list N -> list N), (bs = 16 \/ bs = 8)%nat ->
  (forall b, length (E b) = bs) -> forall m iv off n, length iv = bs -> (N.to_nat off < bs)%nat -> (length m <= n)%nat ->
  snd (ofb_loop bs E iv off m) = xorl m (tail_of iv off ++ ofb_keystream E n iv).
Proof.
  intros bs E [-> | ->] HE; [destruct mask_facts_16 as [A B]|destruct mask_facts_8 as [A B]];
    apply ofb_is_sp80038a_gen; auto; lia.
Qed.
Theorem ctr_sp80038a_resumed : forall bs (E incr : list N -> list N), (bs = 16 \/ bs = 8)%nat ->
  (forall b, length (E b) = bs) -> forall m w off sb n, length sb = bs -> (N.to_nat off < bs)%nat -> (length m <= n)%nat ->
  snd (ctr_loop bs E incr w off sb m) = xorl m (tail_of sb off ++ ctr_keystream E incr n w).
Proof.
  intros bs E incr [-> | ->] HE; [destruct mask_facts_16 as [A B]|destruct mask_facts_8 as [A B]];
    apply ctr_is_sp80038a_gen; auto; lia.
Qed.
