(* C12 — the rest of crypt/openssl/openssl_aes.c as coded = FIPS-197 (Spec_AES.v): xtime, MixColumns /
   InvMixColumns on the packed words (decided by the GF(2)-affine evaluator of Bitvec.v against the
   bit-level form of the specification), ShiftRows, AddRoundKey, the round loops, the key expansion. *)
From Coq Require Import Lia Arith PeanoNat Ring.
From MV Require Import C12.Spec_AES C12.Spec_DES C12.Impl_AES C12.Modes C12.Proofs_Modes C12.Proofs_DES C12.Proofs_AES C12.Proofs_AES_Key C12.Proofs_API C12.Proofs_Impl_AES.
Local Open Scope N_scope.

(* ---------- the specification on bits ---------- *)
Lemma xtime_bits : forall c0 c1 c2 c3 c4 c5 c6 c7,
  xtime (N_of_bits [c0;c1;c2;c3;c4;c5;c6;c7]) = N_of_bits [c7; xorb c0 c7; c1; xorb c2 c7; xorb c3 c7; c4; c5; c6].
Proof. intros. destruct c0, c1, c2, c3, c4, c5, c6, c7; vm_compute; reflexivity. Qed.

Lemma nth_xorbl : forall a b i, length a = length b -> nth i (xorbl a b) false = xorb (nth i a false) (nth i b false).
Proof.
  induction a as [|x a IH]; destruct b as [|y b]; intros i H; try discriminate; [destruct i; reflexivity|].
  destruct i; cbn [xorbl nth]; [reflexivity|]. apply IH. cbn in H. lia.
Qed.
Lemma N_of_bits_lxor : forall a b, length a = length b -> N.lxor (N_of_bits a) (N_of_bits b) = N_of_bits (xorbl a b).
Proof.
  intros a b H. apply N_of_bits_inj_bits. intro i. rewrite N.lxor_spec, !testbit_N_of_bits, nth_xorbl by exact H. reflexivity.
Qed.
Lemma lxor8 : forall a0 a1 a2 a3 a4 a5 a6 a7 b0 b1 b2 b3 b4 b5 b6 b7,
  N.lxor (N_of_bits [a0;a1;a2;a3;a4;a5;a6;a7]) (N_of_bits [b0;b1;b2;b3;b4;b5;b6;b7]) =
  N_of_bits [xorb a0 b0; xorb a1 b1; xorb a2 b2; xorb a3 b3; xorb a4 b4; xorb a5 b5; xorb a6 b6; xorb a7 b7].
Proof. intros. rewrite N_of_bits_lxor by reflexivity. reflexivity. Qed.

(* eight bytes given by their bits = the 64-bit word given by the concatenated bits *)
Lemma of_le_bits8 : forall l0 l1 l2 l3 l4 l5 l6 l7,
  length l0 = 8%nat -> length l1 = 8%nat -> length l2 = 8%nat -> length l3 = 8%nat ->
  length l4 = 8%nat -> length l5 = 8%nat -> length l6 = 8%nat -> length l7 = 8%nat ->
  of_le [N_of_bits l0; N_of_bits l1; N_of_bits l2; N_of_bits l3; N_of_bits l4; N_of_bits l5; N_of_bits l6; N_of_bits l7]
  = N_of_bits (l0 ++ l1 ++ l2 ++ l3 ++ l4 ++ l5 ++ l6 ++ l7).
Proof.
  intros. unfold of_le. cbn [fold_right]. rewrite !N_of_bits_app.
  repeat match goal with H : length ?l = 8%nat |- _ => rewrite H; clear H end.
  change (2 ^ N.of_nat 8) with 256. lia.
Qed.

Ltac bools_ring := repeat (apply f_equal2; [ring|]); reflexivity.

(* ---------- xtime, MixColumns, InvMixColumns on one 64-bit word (two columns) ---------- *)
Tactic Notation "destruct_list8" ident(x) ident(H) :=
  do 8 (destruct x as [|? x]; [discriminate H|]); destruct x; [clear H|discriminate H].

Ltac word_circuit prog out :=
  match goal with |- circ prog out (N_of_bits ?xs) = _ =>
    let r := eval vm_compute in (arun [] (init_aenv [64%nat]) prog) in
    match r with
    | Some ?ae =>
      let aev := fresh "ae" in pose (aev := ae);
      let E := fresh "E" in
      assert (E : arun [] (init_aenv [64%nat]) prog = Some aev) by (vm_compute; reflexivity);
      unfold circ; change [N_of_bits xs] with (map N_of_bits [xs]);
      rewrite (run_bits_ws [] [64%nat] [xs] prog aev out eq_refl eq_refl E); clear E
    end
  end.

Theorem xtime_word_bits : forall l0 l1 l2 l3 l4 l5 l6 l7,
  length l0 = 8%nat -> length l1 = 8%nat -> length l2 = 8%nat -> length l3 = 8%nat ->
  length l4 = 8%nat -> length l5 = 8%nat -> length l6 = 8%nat -> length l7 = 8%nat ->
  impl_xtime_u64 (N_of_bits (l0 ++ l1 ++ l2 ++ l3 ++ l4 ++ l5 ++ l6 ++ l7)) =
  of_le (map xtime [N_of_bits l0; N_of_bits l1; N_of_bits l2; N_of_bits l3; N_of_bits l4; N_of_bits l5; N_of_bits l6; N_of_bits l7]).
Proof.
  intros l0 l1 l2 l3 l4 l5 l6 l7 H0 H1 H2 H3 H4 H5 H6 H7.
  destruct_list8 l0 H0. destruct_list8 l1 H1. destruct_list8 l2 H2. destruct_list8 l3 H3.
  destruct_list8 l4 H4. destruct_list8 l5 H5. destruct_list8 l6 H6. destruct_list8 l7 H7.
  cbn [map]. rewrite !xtime_bits. rewrite of_le_bits8 by reflexivity.
  unfold impl_xtime_u64. cbn [app]. word_circuit aes_xtime_u64_prog aes_xtime_u64_out.
  f_equal. cbv -[xorb negb]. bools_ring.
Qed.

Ltac spec_bits :=
  unfold mix_col, inv_mix_col, x4, me, mb, md, m9, m3, m8, m4, m2; cbn [app];
  repeat (rewrite !xtime_bits || rewrite !lxor8);
  rewrite of_le_bits8 by reflexivity.

Theorem mix_word_bits : forall l0 l1 l2 l3 l4 l5 l6 l7,
  length l0 = 8%nat -> length l1 = 8%nat -> length l2 = 8%nat -> length l3 = 8%nat ->
  length l4 = 8%nat -> length l5 = 8%nat -> length l6 = 8%nat -> length l7 = 8%nat ->
  impl_mix_word (N_of_bits (l0 ++ l1 ++ l2 ++ l3 ++ l4 ++ l5 ++ l6 ++ l7)) =
  of_le (mix_col (N_of_bits l0) (N_of_bits l1) (N_of_bits l2) (N_of_bits l3) ++
         mix_col (N_of_bits l4) (N_of_bits l5) (N_of_bits l6) (N_of_bits l7)).
Proof.
  intros l0 l1 l2 l3 l4 l5 l6 l7 H0 H1 H2 H3 H4 H5 H6 H7.
  destruct_list8 l0 H0. destruct_list8 l1 H1. destruct_list8 l2 H2. destruct_list8 l3 H3.
  destruct_list8 l4 H4. destruct_list8 l5 H5. destruct_list8 l6 H6. destruct_list8 l7 H7.
  spec_bits.
  unfold impl_mix_word. cbn [app]. word_circuit aes_mix_columns_prog aes_mix_columns_out.
  f_equal. cbv -[xorb negb]. bools_ring.
Qed.

Theorem inv_mix_word_bits : forall l0 l1 l2 l3 l4 l5 l6 l7,
  length l0 = 8%nat -> length l1 = 8%nat -> length l2 = 8%nat -> length l3 = 8%nat ->
  length l4 = 8%nat -> length l5 = 8%nat -> length l6 = 8%nat -> length l7 = 8%nat ->
  impl_inv_mix_word (N_of_bits (l0 ++ l1 ++ l2 ++ l3 ++ l4 ++ l5 ++ l6 ++ l7)) =
  of_le (inv_mix_col (N_of_bits l0) (N_of_bits l1) (N_of_bits l2) (N_of_bits l3) ++
         inv_mix_col (N_of_bits l4) (N_of_bits l5) (N_of_bits l6) (N_of_bits l7)).
Proof.
  intros l0 l1 l2 l3 l4 l5 l6 l7 H0 H1 H2 H3 H4 H5 H6 H7.
  destruct_list8 l0 H0. destruct_list8 l1 H1. destruct_list8 l2 H2. destruct_list8 l3 H3.
  destruct_list8 l4 H4. destruct_list8 l5 H5. destruct_list8 l6 H6. destruct_list8 l7 H7.
  spec_bits.
  unfold impl_inv_mix_word. cbn [app]. word_circuit aes_inv_mix_columns_prog aes_inv_mix_columns_out.
  f_equal. cbv -[xorb negb]. bools_ring.
Qed.

(* ---------- bytes <-> words ---------- *)
Lemma of_le_inj : forall a b, length a = length b -> bytes a -> bytes b -> of_le a = of_le b -> a = b.
Proof.
  induction a as [|x a IH]; destruct b as [|y b]; intros Hl Ha Hb H; try discriminate; [reflexivity|].
  inversion Ha; inversion Hb; subst. cbn [of_le fold_right] in H. fold (of_le a) in H. fold (of_le b) in H.
  unfold byte in *. assert (Hxy : x = y /\ of_le a = of_le b) by lia. destruct Hxy as [-> Hab].
  f_equal. apply IH; [cbn in Hl; lia|assumption|assumption|exact Hab].
Qed.

Lemma le64_length : forall n, length (le64 n) = 8%nat. Proof. reflexivity. Qed.
Lemma le64_of_le : forall bs, length bs = 8%nat -> bytes bs -> le64 (of_le bs) = bs.
Proof.
  intros bs Hl Hb. apply of_le_inj; [rewrite Hl; reflexivity|apply le64_bytes|exact Hb|].
  apply of_le_le64. pose proof (of_le_bound bs Hb) as Hbd. rewrite Hl in Hbd. exact Hbd.
Qed.

Lemma wf16_halves : forall s, wf16 s -> wfb 8 (firstn 8 s) /\ wfb 8 (skipn 8 s).
Proof.
  intros s [Hl Hb]. split; split; try (rewrite firstn_length; lia); try (rewrite skipn_length; lia);
    [apply bytes_firstn|apply bytes_skipn]; exact Hb.
Qed.
Lemma store_load : forall s, wf16 s -> store16 (load16 s) = s.
Proof.
  intros s H. destruct (wf16_halves s H) as [[L1 B1] [L2 B2]]. unfold store16, load16. cbn [fst snd].
  rewrite (le64_of_le _ L1 B1), (le64_of_le _ L2 B2). apply firstn_skipn.
Qed.

(* a byte is the word of its 8 bits *)
Lemma byte_bits : forall b, byte b -> b = N_of_bits (bits_of 8 b) /\ length (bits_of 8 b) = 8%nat.
Proof. intros b Hb. split; [symmetry; apply N_of_bits_bits_of_8; exact Hb|apply bits_of_length]. Qed.

Tactic Notation "destruct_list16" ident(x) ident(H) :=
  do 16 (destruct x as [|? x]; [discriminate H|]); destruct x; [clear H|discriminate H].
Ltac inv_bytes :=
  repeat match goal with H : Forall _ (_ :: _) |- _ => inversion H; clear H; subst end.

(* ---------- the four transformations on the packed state ---------- *)
Theorem sub_state_spec : forall s, wf16 s -> impl_sub_state (load16 s) = load16 (sub_bytes s).
Proof.
  intros s H. destruct (wf16_halves s H) as [[L1 B1] [L2 B2]]. unfold impl_sub_state, load16, sub_bytes. cbn [fst snd].
  rewrite (sub_u64_bytes _ L1 B1), (sub_u64_bytes _ L2 B2), firstn_map, skipn_map. reflexivity.
Qed.
Theorem inv_sub_state_spec : forall s, wf16 s -> impl_inv_sub_state (load16 s) = load16 (inv_sub_bytes s).
Proof.
  intros s H. destruct (wf16_halves s H) as [[L1 B1] [L2 B2]]. unfold impl_inv_sub_state, load16, inv_sub_bytes. cbn [fst snd].
  rewrite (inv_sub_u64_bytes _ L1 B1), (inv_sub_u64_bytes _ L2 B2), firstn_map, skipn_map. reflexivity.
Qed.

Theorem shift_row_spec : forall s, wf16 s -> impl_shift_row (load16 s) = load16 (shift_rows s).
Proof.
  intros s H. unfold impl_shift_row. rewrite (store_load s H). destruct H as [Hl _]. destruct_list16 s Hl. reflexivity.
Qed.
Theorem inv_shift_row_spec : forall s, wf16 s -> impl_inv_shift_row (load16 s) = load16 (inv_shift_rows s).
Proof.
  intros s H. unfold impl_inv_shift_row. rewrite (store_load s H). destruct H as [Hl _]. destruct_list16 s Hl. reflexivity.
Qed.

Ltac bytes_as_bits :=
  repeat match goal with H : byte ?b |- _ =>
    let E := fresh "E" in let L := fresh "L" in
    destruct (byte_bits b H) as [E L]; rewrite E; generalize dependent (bits_of 8 b); intros; clear H end.

Lemma halves_4x4 : forall (a b c d : list N), length a = 4%nat -> length b = 4%nat ->
  firstn 8 (a ++ b ++ c ++ d) = a ++ b /\ skipn 8 (a ++ b ++ c ++ d) = c ++ d.
Proof.
  intros a b c d Ha Hb. rewrite (app_assoc a b).
  split; [apply firstn_app_exact|apply skipn_app_exact]; rewrite app_length, Ha, Hb; reflexivity.
Qed.

Theorem mix_columns_spec : forall s, wf16 s -> impl_mix_columns (load16 s) = load16 (mix_columns s).
Proof.
  intros s [Hl Hb]. destruct_list16 s Hl. unfold bytes in Hb. inv_bytes.
  unfold impl_mix_columns, load16, mix_columns.
  match goal with |- context [firstn 8 (?a ++ ?b ++ ?c ++ ?d)] =>
    destruct (halves_4x4 a b c d eq_refl eq_refl) as [F S]; rewrite F, S; clear F S end.
  cbn [fst snd firstn skipn].
  repeat match goal with H : byte ?b |- _ =>
    rewrite (proj1 (byte_bits b H)); pose proof (proj2 (byte_bits b H)); generalize dependent (bits_of 8 b); intros; clear H end.
  rewrite !of_le_bits8 by assumption. rewrite !mix_word_bits by assumption. reflexivity.
Qed.

Theorem inv_mix_columns_spec : forall s, wf16 s -> impl_inv_mix_columns (load16 s) = load16 (inv_mix_columns s).
Proof.
  intros s [Hl Hb]. destruct_list16 s Hl. unfold bytes in Hb. inv_bytes.
  unfold impl_inv_mix_columns, load16, inv_mix_columns.
  match goal with |- context [firstn 8 (?a ++ ?b ++ ?c ++ ?d)] =>
    destruct (halves_4x4 a b c d eq_refl eq_refl) as [F S]; rewrite F, S; clear F S end.
  cbn [fst snd firstn skipn].
  repeat match goal with H : byte ?b |- _ =>
    rewrite (proj1 (byte_bits b H)); pose proof (proj2 (byte_bits b H)); generalize dependent (bits_of 8 b); intros; clear H end.
  rewrite !of_le_bits8 by assumption. rewrite !inv_mix_word_bits by assumption. reflexivity.
Qed.

(* ---------- AddRoundKey ---------- *)
Lemma bits_of_lxor : forall x y, bits_of 8 (N.lxor x y) = xorbl (bits_of 8 x) (bits_of 8 y).
Proof. intros. unfold bits_of. cbn [map seq xorbl]. rewrite !N.lxor_spec. reflexivity. Qed.
Lemma xorbl_app : forall a b c d, length a = length c -> xorbl (a ++ b) (c ++ d) = xorbl a c ++ xorbl b d.
Proof. induction a; destruct c; intros d' H; try discriminate; [reflexivity|]. cbn [app xorbl]. f_equal. apply IHa. cbn in H. lia. Qed.
Lemma flat_bits_xorl : forall a b, length a = length b ->
  flat_map (bits_of 8) (xorl a b) = xorbl (flat_map (bits_of 8) a) (flat_map (bits_of 8) b).
Proof.
  induction a as [|x a IH]; destruct b as [|y b]; intros H; try discriminate; [reflexivity|].
  cbn [xorl flat_map]. rewrite xorbl_app by (rewrite !bits_of_length; reflexivity).
  rewrite bits_of_lxor, IH by (cbn in H; lia). reflexivity.
Qed.
Lemma of_le_lxor : forall a b, length a = length b -> bytes a -> bytes b -> N.lxor (of_le a) (of_le b) = of_le (xorl a b).
Proof.
  intros a b Hl Ha Hb. rewrite (of_le_bits a Ha), (of_le_bits b Hb), (of_le_bits _ (xorl_bytes a b Ha Hb)).
  rewrite N_of_bits_lxor by (rewrite !flat_bits_length, Hl; reflexivity). rewrite flat_bits_xorl by exact Hl. reflexivity.
Qed.
Lemma firstn_xorl : forall n a b, firstn n (xorl a b) = xorl (firstn n a) (firstn n b).
Proof. induction n; intros a b; [reflexivity|]. destruct a, b; try reflexivity. cbn [xorl firstn]. f_equal. apply IHn. Qed.
Lemma skipn_xorl : forall n a b, length a = length b -> skipn n (xorl a b) = xorl (skipn n a) (skipn n b).
Proof.
  induction n; intros a b H; [reflexivity|]. destruct a, b; try discriminate; [reflexivity|]. cbn [xorl skipn]. apply IHn. cbn in H. lia.
Qed.

Theorem add_round_key_spec : forall k s, wf16 k -> wf16 s ->
  impl_add_round_key (load16 s) (load16 k) = load16 (add_round_key k s).
Proof.
  intros k s Hk Hs. destruct (wf16_halves k Hk) as [[K1 KB1] [K2 KB2]]. destruct (wf16_halves s Hs) as [[S1 SB1] [S2 SB2]].
  destruct Hk as [Lk _], Hs as [Ls _].
  unfold impl_add_round_key, load16, add_round_key. cbn [fst snd].
  rewrite firstn_xorl, skipn_xorl by congruence.
  rewrite !of_le_lxor by (congruence || assumption). reflexivity.
Qed.

(* ---------- the round loops ---------- *)
(* the array of uint64_t round-key words holding the 16-byte round keys rks *)
Definition rk_words (rks : list (list N)) : list N := flat_map (fun k => [of_le (firstn 8 k); of_le (skipn 8 k)]) rks.

Lemma rk_at_words : forall rks i, (i < length rks)%nat -> rk_at (rk_words rks) i = load16 (nth i rks []).
Proof.
  induction rks as [|k r IH]; intros i Hi; [cbn in Hi; lia|]. destruct i.
  - reflexivity.
  - unfold rk_at. cbn [rk_words flat_map app]. replace (2 * S i)%nat with (S (S (2 * i))) by lia.
    replace (S (S (2 * i)) + 1)%nat with (S (S (2 * i + 1))) by lia. cbn [nth].
    apply (IH i). cbn in Hi. lia.
Qed.

Definition impl_enc_round (w : list N) (st : state) (i : nat) : state :=
  impl_add_round_key (impl_mix_columns (impl_shift_row (impl_sub_state st))) (rk_at w i).

Lemma impl_enc_round_spec : forall k s, wf16 k -> wf16 s ->
  impl_add_round_key (impl_mix_columns (impl_shift_row (impl_sub_state (load16 s)))) (load16 k) = load16 (enc_round k s).
Proof.
  intros k s Hk Hs. unfold enc_round.
  rewrite (sub_state_spec s Hs).
  rewrite (shift_row_spec _ (sub_bytes_wf s Hs)).
  rewrite (mix_columns_spec _ (shift_rows_wf _ (sub_bytes_wf s Hs))).
  apply add_round_key_spec; [exact Hk|]. apply mix_columns_wf, shift_rows_wf, sub_bytes_wf. exact Hs.
Qed.

(* a loop over round-key indices against a fold over the list of round keys (generic in the round function) *)
Section Loop.
  Variable R : state -> state -> state.           (* implementation round: state, round key *)
  Variable r : list N -> list N -> list N.        (* specification round: key, state *)
  Variable w : list N.
  Hypothesis R_spec : forall k s, wfb 16 k -> wfb 16 s -> R (load16 s) (load16 k) = load16 (r k s).
  Hypothesis r_wf : forall k s, wfb 16 k -> wfb 16 s -> wfb 16 (r k s).

  Lemma idx_loop_spec : forall ks idx s, Forall (wfb 16) ks -> wfb 16 s -> length idx = length ks ->
    (forall j, (j < length ks)%nat -> rk_at w (nth j idx 0%nat) = load16 (nth j ks [])) ->
    fold_left (fun st i => R st (rk_at w i)) idx (load16 s) = load16 (fold_left (fun s k => r k s) ks s).
  Proof.
    induction ks as [|k ks IH]; intros idx s Hm Hs Hl Hk.
    - destruct idx; [reflexivity|discriminate].
    - destruct idx as [|i idx]; [discriminate|]. inversion Hm; subst.
      change (fold_left (fun st i => R st (rk_at w i)) (i :: idx) (load16 s))
        with (fold_left (fun st i => R st (rk_at w i)) idx (R (load16 s) (rk_at w i))).
      change (fold_left (fun s k => r k s) (k :: ks) s) with (fold_left (fun s k => r k s) ks (r k s)).
      pose proof (Hk 0%nat ltac:(cbn; lia)) as H0. cbn [nth] in H0. rewrite H0, R_spec by assumption.
      apply IH; [assumption|apply r_wf; assumption|cbn in Hl; lia|].
      intros j Hj. apply (Hk (S j)). cbn. lia.
  Qed.
End Loop.

Theorem impl_cipher_spec : forall nr rks blk, (1 <= nr)%nat -> length rks = S nr -> Forall (wfb 16) rks -> wf16 blk ->
  impl_cipher (rk_words rks) nr blk = cipher rks blk.
Proof.
  intros nr rks blk Hnr Hlen Hk Hb.
  destruct rks as [|k0 rest]; [discriminate|].
  destruct (exists_last (l := rest)) as (mid & kn & ->); [destruct rest; [cbn in Hlen; lia|discriminate]|].
  inversion Hk as [|? ? Hk0 Hrest]; subst. apply Forall_app in Hrest. destruct Hrest as [Hmid Hkn]. inversion Hkn as [|? ? Hkn' _]; subst.
  assert (Hml : length mid = (nr - 1)%nat) by (cbn in Hlen; rewrite app_length in Hlen; cbn in Hlen; lia).
  unfold cipher. rewrite enc_tail_app.
  unfold impl_cipher. cbv zeta.
  rewrite (rk_at_words _ 0%nat) by (cbn; lia). cbn [nth].
  rewrite (add_round_key_spec k0 blk Hk0 Hb).
  rewrite (idx_loop_spec (fun st k => impl_add_round_key (impl_mix_columns (impl_shift_row (impl_sub_state st))) k)
             enc_round (rk_words (k0 :: mid ++ [kn])) impl_enc_round_spec enc_round_wf mid (seq 1 (nr - 1))
             (add_round_key k0 blk) Hmid (add_round_key_wf _ _ Hk0 Hb)).
  2:{ rewrite seq_length. symmetry. exact Hml. }
  2:{ intros j Hj. rewrite seq_nth by lia. rewrite rk_at_words by (cbn [length]; rewrite app_length; cbn; lia).
      cbn [Nat.add nth]. rewrite app_nth1 by exact Hj. reflexivity. }
  fold (enc_fold mid (add_round_key k0 blk)).
  set (sm := enc_fold mid (add_round_key k0 blk)).
  assert (Hsm : wf16 sm) by (apply enc_fold_wf; [exact Hmid|apply add_round_key_wf; assumption]).
  rewrite (sub_state_spec sm Hsm), (shift_row_spec _ (sub_bytes_wf sm Hsm)).
  rewrite (rk_at_words _ nr) by (cbn [length]; rewrite app_length; cbn; lia).
  replace (nth nr (k0 :: mid ++ [kn]) []) with kn.
  2:{ replace nr with (S (length mid)) by lia. cbn [nth]. rewrite app_nth2 by lia. rewrite Nat.sub_diag. reflexivity. }
  rewrite (add_round_key_spec kn _ Hkn' (shift_rows_wf _ (sub_bytes_wf sm Hsm))).
  unfold enc_final. apply store_load. apply add_round_key_wf; [exact Hkn'|]. apply shift_rows_wf, sub_bytes_wf. exact Hsm.
Qed.

Lemma dec_round_wf : forall k s, wfb 16 k -> wfb 16 s -> wfb 16 (dec_round k s).
Proof.
  intros k s Hk Hs. unfold dec_round. apply inv_mix_columns_wf, add_round_key_wf; [exact Hk|].
  apply inv_sub_bytes_wf, inv_shift_rows_wf. exact Hs.
Qed.
Lemma impl_dec_round_spec : forall k s, wfb 16 k -> wfb 16 s ->
  impl_inv_mix_columns (impl_add_round_key (impl_inv_sub_state (impl_inv_shift_row (load16 s))) (load16 k)) = load16 (dec_round k s).
Proof.
  intros k s Hk Hs. unfold dec_round.
  rewrite (inv_shift_row_spec s Hs).
  rewrite (inv_sub_state_spec _ (inv_shift_rows_wf s Hs)).
  rewrite (add_round_key_spec k _ Hk (inv_sub_bytes_wf _ (inv_shift_rows_wf s Hs))).
  apply inv_mix_columns_spec. apply add_round_key_wf; [exact Hk|]. apply inv_sub_bytes_wf, inv_shift_rows_wf. exact Hs.
Qed.

Theorem impl_inv_cipher_spec : forall nr rks blk, (1 <= nr)%nat -> length rks = S nr -> Forall (wfb 16) rks -> wf16 blk ->
  impl_inv_cipher (rk_words rks) nr blk = inv_cipher rks blk.
Proof.
  intros nr rks blk Hnr Hlen Hk Hb.
  destruct rks as [|k0 rest]; [discriminate|].
  destruct (exists_last (l := rest)) as (mid & kn & ->); [destruct rest; [cbn in Hlen; lia|discriminate]|].
  inversion Hk as [|? ? Hk0 Hrest]; subst. apply Forall_app in Hrest. destruct Hrest as [Hmid Hkn]. inversion Hkn as [|? ? Hkn' _]; subst.
  assert (Hml : length mid = (nr - 1)%nat) by (cbn in Hlen; rewrite app_length in Hlen; cbn in Hlen; lia).
  assert (Hrl : length (k0 :: mid ++ [kn]) = S nr) by exact Hlen.
  unfold inv_cipher. cbn [rev]. rewrite rev_app_distr. cbn [rev app]. rewrite dec_tail_app.
  unfold impl_inv_cipher. cbv zeta.
  rewrite (rk_at_words _ nr) by lia.
  replace (nth nr (k0 :: mid ++ [kn]) []) with kn.
  2:{ replace nr with (S (length mid)) by lia. cbn [nth]. rewrite app_nth2 by lia. rewrite Nat.sub_diag. reflexivity. }
  rewrite (add_round_key_spec kn blk Hkn' Hb).
  rewrite (idx_loop_spec (fun st k => impl_inv_mix_columns (impl_add_round_key (impl_inv_sub_state (impl_inv_shift_row st)) k))
             dec_round (rk_words (k0 :: mid ++ [kn])) impl_dec_round_spec dec_round_wf (rev mid) (rev (seq 1 (nr - 1)))
             (add_round_key kn blk) (Forall_rev Hmid) (add_round_key_wf _ _ Hkn' Hb)).
  2:{ rewrite !rev_length, seq_length. symmetry. exact Hml. }
  2:{ intros j Hj. rewrite rev_length in Hj. rewrite !rev_nth by (rewrite ?seq_length; lia). rewrite seq_length, seq_nth by lia.
      rewrite rk_at_words by lia. replace (1 + (nr - 1 - S j))%nat with (S (length mid - S j)) by lia. cbn [nth].
      rewrite app_nth1 by lia. reflexivity. }
  fold (dec_fold (rev mid) (add_round_key kn blk)).
  set (sm := dec_fold (rev mid) (add_round_key kn blk)).
  assert (Hsm : wf16 sm).
  { unfold sm, dec_fold. clear -Hmid Hkn' Hb. pose proof (add_round_key_wf _ _ Hkn' Hb) as H0. revert H0. generalize (add_round_key kn blk).
    pose proof (Forall_rev Hmid) as Hr. induction Hr; intros s Hs; [exact Hs|]. cbn [fold_left]. apply IHHr. apply dec_round_wf; assumption. }
  rewrite (inv_shift_row_spec sm Hsm), (inv_sub_state_spec _ (inv_shift_rows_wf sm Hsm)).
  rewrite (rk_at_words _ 0%nat) by lia. cbn [nth].
  rewrite (add_round_key_spec k0 _ Hk0 (inv_sub_bytes_wf _ (inv_shift_rows_wf sm Hsm))).
  unfold dec_final. apply store_load. apply add_round_key_wf; [exact Hk0|]. apply inv_sub_bytes_wf, inv_shift_rows_wf. exact Hsm.
Qed.

(* ---------- 32-bit words of the key expansion ---------- *)
Lemma of_le_bits4 : forall l0 l1 l2 l3,
  length l0 = 8%nat -> length l1 = 8%nat -> length l2 = 8%nat -> length l3 = 8%nat ->
  of_le [N_of_bits l0; N_of_bits l1; N_of_bits l2; N_of_bits l3] = N_of_bits (l0 ++ l1 ++ l2 ++ l3).
Proof.
  intros. unfold of_le. cbn [fold_right]. rewrite !N_of_bits_app.
  repeat match goal with H : length ?l = 8%nat |- _ => rewrite H; clear H end.
  change (2 ^ N.of_nat 8) with 256. lia.
Qed.

Ltac word_circuit32 prog out :=
  match goal with |- circ prog out (N_of_bits ?xs) = _ =>
    let r := eval vm_compute in (arun [] (init_aenv [32%nat]) prog) in
    match r with
    | Some ?ae =>
      let aev := fresh "ae" in pose (aev := ae);
      let E := fresh "E" in
      assert (E : arun [] (init_aenv [32%nat]) prog = Some aev) by (vm_compute; reflexivity);
      unfold circ; change [N_of_bits xs] with (map N_of_bits [xs]);
      rewrite (run_bits_ws [] [32%nat] [xs] prog aev out eq_refl eq_refl E); clear E
    end
  end.

Lemma word4_bits : forall w, word4 w -> exists l0 l1 l2 l3,
  length l0 = 8%nat /\ length l1 = 8%nat /\ length l2 = 8%nat /\ length l3 = 8%nat /\
  w = [N_of_bits l0; N_of_bits l1; N_of_bits l2; N_of_bits l3].
Proof.
  intros w [Hl Hb]. do 4 (destruct w as [|? w]; [discriminate Hl|]). destruct w; [|discriminate Hl].
  unfold bytes in Hb. inv_bytes.
  repeat match goal with H : byte ?b |- _ => rewrite (proj1 (byte_bits b H)); pose proof (proj2 (byte_bits b H)); generalize dependent (bits_of 8 b); intros; clear H end.
  do 4 eexists. repeat split; try eassumption.
Qed.

Theorem rot_word_spec : forall w, word4 w -> impl_rot_word (of_le w) = of_le (rot_word w).
Proof.
  intros w Hw. destruct (word4_bits w Hw) as (l0 & l1 & l2 & l3 & H0 & H1 & H2 & H3 & ->).
  cbn [rot_word]. rewrite !of_le_bits4 by assumption.
  destruct_list8 l0 H0. destruct_list8 l1 H1. destruct_list8 l2 H2. destruct_list8 l3 H3.
  unfold impl_rot_word. cbn [app]. word_circuit32 rot_word_prog 1%nat.
  f_equal; vm_compute; reflexivity.
Qed.

Theorem xtime_u32_spec : forall w, word4 w -> impl_xtime_u32 (of_le w) = of_le (map xtime w).
Proof.
  intros w Hw. destruct (word4_bits w Hw) as (l0 & l1 & l2 & l3 & H0 & H1 & H2 & H3 & ->).
  rewrite of_le_bits4 by assumption.
  destruct_list8 l0 H0. destruct_list8 l1 H1. destruct_list8 l2 H2. destruct_list8 l3 H3.
  cbn [map]. rewrite !xtime_bits. rewrite of_le_bits4 by reflexivity.
  unfold impl_xtime_u32. cbn [app]. word_circuit32 aes_xtime_u32_prog aes_xtime_u32_out.
  rewrite <- (N_of_bits_pad [_;_;_;_;_;_;_;_;_;_;_;_;_;_;_;_;_;_;_;_;_;_;_;_;_;_;_;_;_;_;_;_] 32).
  f_equal. cbv -[xorb negb]. bools_ring.
Qed.

Theorem sub_word_spec : forall w, word4 w -> impl_sub_u32 (of_le w) = of_le (sub_word w).
Proof. intros w [Hl Hb]. apply sub_u32_bytes; assumption. Qed.
