(* C12 — the constant-time bitsliced S-box circuits of crypt/openssl/openssl_aes.c
   (openssl_sub_u64, openssl_inv_sub_u64, openssl_sub_u32; translated from the C source on every
   run) compute the FIPS-197 S-box / inverse S-box on every byte lane, for ALL 2^64 (2^32) inputs:
   the dependency analysis of Bitdep.v shows that bit p of the result depends on the bits of lane
   p/8 only; a sweep over the 256 values of each lane does the rest. *)
From Coq Require Import Lia Arith PeanoNat.
From MV Require Import C12.Spec_AES C12.Impl_AES C12.Bitdep.
Local Open Scope N_scope.

Definition bits_of (w : nat) (n : N) : list bool := map (fun i => N.testbit n (N.of_nat i)) (seq 0 w).
Definition lane (k : nat) (xs : list bool) : list bool := firstn 8 (skipn (8 * k) xs).
Definition place (nl k : nat) (c : list bool) : list bool := repeat false (8 * k) ++ c ++ repeat false (8 * (nl - 1 - k)).
Definition in_bits (w : nat) : dword := map (fun j => DD [j]) (seq 0 w).
Definition lane_ok (w : nat) (aw : dword) : bool :=
  Nat.leb (length aw) 64 &&
  forallb (fun p => match nth p aw DZ with
                    | DZ => true
                    | DD s => Nat.ltb p w && forallb (fun j => Nat.eqb (Nat.div j 8) (Nat.div p 8)) s
                    end) (seq 0 64).

Lemma nth_bits_of : forall w n i, nth i (bits_of w n) false = if Nat.ltb i w then N.testbit n (N.of_nat i) else false.
Proof.
  intros w n i. unfold bits_of. destruct (Nat.ltb_spec i w).
  - rewrite nth_indep with (d' := (fun i => N.testbit n (N.of_nat i)) 0%nat) by (rewrite map_length, seq_length; lia).
    rewrite (map_nth (fun i => N.testbit n (N.of_nat i)) (seq 0 w) 0%nat i), seq_nth by lia. reflexivity.
  - apply nth_overflow. rewrite map_length, seq_length. lia.
Qed.

Lemma nth_firstn_bb : forall w (l : list bool) i, nth i (firstn w l) false = if Nat.ltb i w then nth i l false else false.
Proof.
  induction w; intros l i.
  - cbn [firstn]. destruct i; reflexivity.
  - destruct l as [|a l].
    + cbn [firstn]. destruct (Nat.ltb i (S w)); destruct i; reflexivity.
    + destruct i; cbn [firstn nth]; [reflexivity|]. rewrite IHw. reflexivity.
Qed.
Lemma nth_skipn_bb : forall k (l : list bool) i, nth i (skipn k l) false = nth (i + k) l false.
Proof.
  induction k; intros l i; [rewrite Nat.add_0_r; reflexivity|].
  destruct l; [destruct i; reflexivity|]. cbn [skipn]. rewrite IHk, Nat.add_succ_r. reflexivity.
Qed.
Lemma nth_lane : forall k xs r, (r < 8)%nat -> nth r (lane k xs) false = nth (8 * k + r) xs false.
Proof.
  intros. unfold lane. rewrite nth_firstn_bb, nth_skipn_bb.
  destruct (Nat.ltb_spec r 8); [|lia]. f_equal. lia.
Qed.
Lemma nth_place : forall nl k c r, length c = 8%nat -> (r < 8)%nat -> nth (8 * k + r) (place nl k c) false = nth r c false.
Proof.
  intros nl k c r Hc Hr. unfold place.
  rewrite app_nth2 by (rewrite repeat_length; lia). rewrite repeat_length.
  rewrite app_nth1 by lia. f_equal. lia.
Qed.

Lemma drel_nil : forall X X', drel X X' [] 0 0.
Proof. intros X X' i. rewrite nth_nil_z, N.bits_0. split; reflexivity. Qed.

Section Circuit.
  Variable p : prog.            (* the circuit: variable 0 = input word *)
  Variable out : nat.           (* the variable holding *w at the end *)
  Variable w nl : nat.          (* word width, number of byte lanes *)
  Variable f : N -> N.          (* what each lane should compute *)
  Hypothesis w_nl : w = (8 * nl)%nat.
  Hypothesis w_le : (w <= 64)%nat.

  Notation circ := (circ p out).

  (* (1) computed: every result bit depends on its own byte lane only *)
  Definition lanes_checked : bool :=
    match drun [in_bits w] p with Some de => lane_ok w (nth out de []) | None => false end.
  (* (2) computed: each lane, alone in the word, gives f for all 256 values *)
  Definition sweep_checked : bool :=
    forallb (fun k => forallb (fun v =>
       let y := circ (N_of_bits (place nl k (bits_of 8 (N.of_nat v)))) in
       let z := f (N.of_nat v) in
       forallb (fun b => Bool.eqb (N.testbit y (N.of_nat (8 * k + b))) (N.testbit z (N.of_nat b))) (seq 0 8))
       (seq 0 256)) (seq 0 nl).
  Hypothesis H1 : lanes_checked = true.
  Hypothesis H2 : sweep_checked = true.

  Lemma circ_lane_indep : forall xs xs', length xs = w -> length xs' = w ->
    forall q, (q < w)%nat -> (forall j, (j < w)%nat -> Nat.div j 8 = Nat.div q 8 -> nth j xs false = nth j xs' false) ->
    N.testbit (circ (N_of_bits xs)) (N.of_nat q) = N.testbit (circ (N_of_bits xs')) (N.of_nat q).
  Proof.
    intros xs xs' Hx Hx' q Hq Hag. unfold lanes_checked in H1.
    destruct (drun [in_bits w] p) as [de|] eqn:E; [|discriminate].
    assert (Henv : drel_env (fun j => nth j xs false) (fun j => nth j xs' false) [in_bits w] [N_of_bits xs] [N_of_bits xs']).
    { intros v. destruct v as [|v]; [intro i|].
      - cbn [nth]. rewrite !testbit_N_of_bits. unfold in_bits.
        destruct (Nat.ltb_spec i w).
        + rewrite nth_indep with (d' := (fun j => DD [j]) 0%nat) by (rewrite map_length, seq_length; lia).
          rewrite (map_nth (fun j => DD [j]) (seq 0 w) 0%nat i), seq_nth by lia. cbn. intro Ha. apply Ha. left. reflexivity.
        + rewrite nth_overflow by (rewrite map_length, seq_length; lia).
          rewrite !nth_overflow by lia. split; reflexivity.
      - cbn [nth]. destruct v; apply drel_nil. }
    pose proof (drun_sound (fun j => nth j xs false) (fun j => nth j xs' false) [] p _ _ _ _ Henv E out q) as R.
    unfold lane_ok in H1. apply andb_prop in H1. destruct H1 as [Hlen Hf]. rewrite forallb_forall in Hf.
    specialize (Hf q ltac:(apply in_seq; lia)). unfold Impl_AES.circ.
    destruct (nth q (nth out de []) DZ) as [|s]; cbn in R.
    - destruct R as [-> ->]. reflexivity.
    - apply andb_prop in Hf. destruct Hf as [_ Hf].
      apply R. intros j Hj. rewrite forallb_forall in Hf. specialize (Hf j Hj). apply Nat.eqb_eq in Hf.
      destruct (Nat.ltb_spec j w); [apply Hag; assumption|]. rewrite !nth_overflow by lia. reflexivity.
  Qed.

  Lemma circ_high_zero : forall xs, length xs = w -> forall q, (w <= q)%nat -> N.testbit (circ (N_of_bits xs)) (N.of_nat q) = false.
  Proof.
    intros xs Hx q Hq. unfold lanes_checked in H1.
    destruct (drun [in_bits w] p) as [de|] eqn:E; [|discriminate].
    assert (Henv : drel_env (fun j => nth j xs false) (fun j => nth j xs false) [in_bits w] [N_of_bits xs] [N_of_bits xs]).
    { intros v. destruct v as [|v]; [intro i|].
      - cbn [nth]. destruct (nth i (in_bits w) DZ) eqn:H; cbn; [|reflexivity].
        unfold in_bits. rewrite testbit_N_of_bits.
        (* a DZ among the input bits can only be beyond the width *)
        destruct (Nat.ltb_spec i w).
        + exfalso. revert H. unfold in_bits.
          rewrite nth_indep with (d' := (fun j => DD [j]) 0%nat) by (rewrite map_length, seq_length; lia).
          rewrite (map_nth (fun j => DD [j]) (seq 0 w) 0%nat i), seq_nth by lia. discriminate.
        + rewrite nth_overflow by lia. split; reflexivity.
      - cbn [nth]. destruct v; apply drel_nil. }
    pose proof (drun_sound (fun j => nth j xs false) (fun j => nth j xs false) [] p _ _ _ _ Henv E out q) as R.
    unfold lane_ok in H1. apply andb_prop in H1. destruct H1 as [Hlen Hf]. apply Nat.leb_le in Hlen.
    unfold Impl_AES.circ. destruct (Nat.ltb_spec q 64) as [Hq64|Hq64].
    - rewrite forallb_forall in Hf. specialize (Hf q ltac:(apply in_seq; lia)).
      destruct (nth q (nth out de []) DZ) as [|s]; cbn in R; [apply R|].
      apply andb_prop in Hf. destruct Hf as [Hf _]. apply Nat.ltb_lt in Hf. lia.
    - rewrite nth_overflow in R by lia. cbn in R. apply R.
  Qed.

  Lemma bits_of_8_N_of_bits : forall c, length c = 8%nat -> bits_of 8 (N_of_bits c) = c /\ N_of_bits c < 256.
  Proof.
    intros c Hc. do 8 (destruct c as [|? c]; [discriminate Hc|]). destruct c; [|discriminate Hc].
    repeat match goal with b : bool |- _ => destruct b end; vm_compute; split; reflexivity.
  Qed.

  (* bit b of lane k of the result = bit b of f (lane k of the input) *)
  Theorem circ_lane_bit : forall xs k b, length xs = w -> (k < nl)%nat -> (b < 8)%nat ->
    N.testbit (circ (N_of_bits xs)) (N.of_nat (8 * k + b)) = N.testbit (f (N_of_bits (lane k xs))) (N.of_nat b).
  Proof.
    intros xs k b Hx Hk Hb.
    assert (Hc : length (lane k xs) = 8%nat).
    { unfold lane. rewrite firstn_length, skipn_length. lia. }
    set (c := lane k xs) in *.
    assert (Hp : length (place nl k c) = w).
    { unfold place. rewrite !app_length, !repeat_length, Hc. lia. }
    rewrite (circ_lane_indep xs (place nl k c) Hx Hp (8 * k + b)%nat ltac:(lia)).
    - destruct (bits_of_8_N_of_bits c Hc) as [Hbc Hlt].
      unfold sweep_checked in H2. rewrite forallb_forall in H2.
      specialize (H2 k ltac:(apply in_seq; lia)). rewrite forallb_forall in H2.
      specialize (H2 (N.to_nat (N_of_bits c)) ltac:(apply in_seq; lia)). cbv zeta in H2. rewrite forallb_forall in H2.
      specialize (H2 b ltac:(apply in_seq; lia)). apply Bool.eqb_prop in H2.
      rewrite N2Nat.id, Hbc in H2. exact H2.
    - intros j Hj Hd.
      assert (Hjk : (j / 8 = k)%nat).
      { rewrite Hd. rewrite Nat.mul_comm, Nat.div_add_l by lia. rewrite Nat.div_small by lia. lia. }
      pose proof (Nat.div_mod j 8 ltac:(lia)) as Hdm. rewrite Hjk in Hdm.
      pose proof (Nat.mod_upper_bound j 8 ltac:(lia)) as Hr.
      rewrite Hdm. rewrite (nth_place nl k c (j mod 8) Hc Hr). unfold c. rewrite (nth_lane k xs (j mod 8) Hr). reflexivity.
  Qed.

  (* the whole word *)
  Theorem circ_all_lanes : forall xs, length xs = w ->
    circ (N_of_bits xs) = N_of_bits (flat_map (fun k => bits_of 8 (f (N_of_bits (lane k xs)))) (seq 0 nl)).
  Proof.
    intros xs Hx. apply N_of_bits_inj_bits. intro q.
    assert (Hfl : forall n s, length (flat_map (fun k => bits_of 8 (f (N_of_bits (lane k xs)))) (seq s n)) = (8 * n)%nat).
    { induction n; intros s; cbn [seq flat_map]; [reflexivity|]. rewrite app_length, IHn. unfold bits_of. rewrite map_length, seq_length. lia. }
    destruct (Nat.ltb_spec q w) as [Hq|Hq].
    - pose proof (Nat.div_mod q 8 ltac:(lia)) as Hdm. pose proof (Nat.mod_upper_bound q 8 ltac:(lia)) as Hr.
      assert (Hk : (q / 8 < nl)%nat) by (apply Nat.div_lt_upper_bound; lia).
      set (k := (q / 8)%nat) in *. set (r := (q mod 8)%nat) in *. clearbody k r. subst q.
      rewrite (circ_lane_bit xs k r Hx Hk Hr).
      (* the k-th segment of the flat_map *)
      assert (Hseg : forall n s j r, (j < n)%nat -> (r < 8)%nat ->
                nth (8 * j + r) (flat_map (fun k => bits_of 8 (f (N_of_bits (lane k xs)))) (seq s n)) false =
                nth r (bits_of 8 (f (N_of_bits (lane (s + j) xs)))) false).
      { assert (Hl8 : forall z, length (bits_of 8 z) = 8%nat) by (intro z; unfold bits_of; rewrite map_length, seq_length; reflexivity).
        induction n; intros s j r0 Hj Hr'; [lia|]. cbn [seq flat_map]. destruct j.
        - rewrite app_nth1 by (rewrite Hl8; lia). rewrite Nat.add_0_r. replace (8 * 0 + r0)%nat with r0 by lia. reflexivity.
        - rewrite app_nth2 by (rewrite Hl8; lia). rewrite Hl8.
          replace (8 * S j + r0 - 8)%nat with (8 * j + r0)%nat by lia. rewrite IHn by lia.
          replace (S s + j)%nat with (s + S j)%nat by lia. reflexivity. }
      rewrite (Hseg nl 0%nat k r Hk Hr). cbn [Nat.add].
      rewrite nth_bits_of. destruct (Nat.ltb_spec r 8); [reflexivity|lia].
    - rewrite (circ_high_zero xs Hx q Hq). rewrite nth_overflow by (rewrite Hfl; lia). reflexivity.
  Qed.
End Circuit.

(* ---------- the three circuits of openssl_aes.c ---------- *)
Theorem sub_u64_lanes : forall xs, length xs = 64%nat ->
  impl_sub_u64 (N_of_bits xs) = N_of_bits (flat_map (fun k => bits_of 8 (sbox (N_of_bits (lane k xs)))) (seq 0 8)).
Proof.
  intros xs Hx. unfold impl_sub_u64.
  refine (circ_all_lanes aes_sub_u64_prog aes_sub_u64_out 64 8 sbox eq_refl _ _ _ xs Hx); [lia|vm_compute; reflexivity|vm_compute; reflexivity].
Qed.

Theorem inv_sub_u64_lanes : forall xs, length xs = 64%nat ->
  impl_inv_sub_u64 (N_of_bits xs) = N_of_bits (flat_map (fun k => bits_of 8 (inv_sbox (N_of_bits (lane k xs)))) (seq 0 8)).
Proof.
  intros xs Hx. unfold impl_inv_sub_u64.
  refine (circ_all_lanes aes_inv_sub_u64_prog aes_inv_sub_u64_out 64 8 inv_sbox eq_refl _ _ _ xs Hx); [lia|vm_compute; reflexivity|vm_compute; reflexivity].
Qed.

Theorem sub_u32_lanes : forall xs, length xs = 32%nat ->
  impl_sub_u32 (N_of_bits xs) = N_of_bits (flat_map (fun k => bits_of 8 (sbox (N_of_bits (lane k xs)))) (seq 0 4)).
Proof.
  intros xs Hx. unfold impl_sub_u32.
  refine (circ_all_lanes aes_sub_u32_prog aes_sub_u32_out 32 4 sbox eq_refl _ _ _ xs Hx); [lia|vm_compute; reflexivity|vm_compute; reflexivity].
Qed.

(* ---------- in bytes: the 8 (4) bytes of the word in memory, little-endian host ---------- *)
From MV Require Import C12.Modes C12.Proofs_Modes C12.Proofs_DES C12.Proofs_AES.

Lemma N_of_bits_app : forall a b, N_of_bits (a ++ b) = N_of_bits a + 2 ^ N.of_nat (length a) * N_of_bits b.
Proof.
  induction a as [|x a IH]; intros b; cbn [app N_of_bits length].
  - change (N.of_nat 0) with 0. rewrite N.pow_0_r. lia.
  - rewrite IH, Nat2N.inj_succ, N.pow_succ_r'. lia.
Qed.
Lemma bits_of_length : forall w n, length (bits_of w n) = w.
Proof. intros. unfold bits_of. rewrite map_length, seq_length. reflexivity. Qed.
Lemma N_of_bits_bits_of_8 : forall b, byte b -> N_of_bits (bits_of 8 b) = b.
Proof.
  intros b Hb. symmetry. apply N_of_bits_inj_bits. intro i. rewrite nth_bits_of.
  destruct (Nat.ltb_spec i 8); [reflexivity|].
  destruct (N.eq_dec b 0) as [->|Hz]; [apply N.bits_0|].
  apply N.bits_above_log2. unfold byte in Hb. change 256 with (2 ^ 8) in Hb. apply N.log2_lt_pow2 in Hb; lia.
Qed.
Lemma of_le_bits : forall bs, bytes bs -> of_le bs = N_of_bits (flat_map (bits_of 8) bs).
Proof.
  induction bs as [|b r IH]; intros H; [reflexivity|]. inversion H; subst.
  cbn [of_le fold_right flat_map]. fold (of_le r). rewrite N_of_bits_app, bits_of_length, N_of_bits_bits_of_8, IH by assumption.
  reflexivity.
Qed.
Lemma lane_flat : forall bs k, (k < length bs)%nat -> lane k (flat_map (bits_of 8) bs) = bits_of 8 (nth k bs 0).
Proof.
  induction bs as [|b r IH]; intros k Hk; [cbn in Hk; lia|]. cbn [flat_map]. unfold lane. destruct k.
  - cbn [Nat.mul skipn nth]. apply firstn_app_exact. apply bits_of_length.
  - rewrite skipn_app, bits_of_length. rewrite (skipn_all2 (bits_of 8 b)) by (rewrite bits_of_length; lia).
    replace (8 * S k - 8)%nat with (8 * k)%nat by lia. cbn [app nth]. apply (IH k). cbn in Hk. lia.
Qed.

Lemma sbox_bytes : forall bs, bytes bs -> bytes (map sbox bs).
Proof. unfold bytes. intros bs H. apply Forall_forall. intros x Hx. apply in_map_iff in Hx. destruct Hx as (y & <- & Hy). apply sbox_byte. eapply Forall_forall in H; eauto. Qed.
Lemma inv_sbox_bytes : forall bs, bytes bs -> bytes (map inv_sbox bs).
Proof. unfold bytes. intros bs H. apply Forall_forall. intros x Hx. apply in_map_iff in Hx. destruct Hx as (y & <- & Hy). apply inv_sbox_byte. eapply Forall_forall in H; eauto. Qed.

Lemma lanes_bytes : forall (f : N -> N) bs, bytes bs ->
  flat_map (fun k => bits_of 8 (f (N_of_bits (lane k (flat_map (bits_of 8) bs))))) (seq 0 (length bs)) = flat_map (bits_of 8) (map f bs).
Proof.
  intros f bs Hb.
  assert (G : forall n s, (s + n <= length bs)%nat ->
            flat_map (fun k => bits_of 8 (f (N_of_bits (lane k (flat_map (bits_of 8) bs))))) (seq s n) =
            flat_map (bits_of 8) (map f (firstn n (skipn s bs)))).
  { induction n; intros s Hs; [reflexivity|]. cbn [seq flat_map].
    rewrite lane_flat by lia. rewrite N_of_bits_bits_of_8.
    2:{ unfold bytes in Hb. rewrite Forall_forall in Hb. apply Hb. apply nth_In. lia. }
    rewrite IHn by lia.
    assert (E : skipn s bs = nth s bs 0 :: skipn (S s) bs).
    { clear -Hs. revert s Hs. induction bs as [|a r IH]; intros s Hs; [cbn in Hs; lia|]. destruct s; [reflexivity|]. cbn [skipn nth]. apply IH. cbn in Hs. lia. }
    rewrite E. cbn [firstn map flat_map]. reflexivity. }
  rewrite (G (length bs) 0%nat) by lia. cbn [skipn]. rewrite firstn_all. reflexivity.
Qed.

Lemma flat_bits_length : forall bs, length (flat_map (bits_of 8) bs) = (8 * length bs)%nat.
Proof. induction bs; cbn [flat_map length]; [reflexivity|]. rewrite app_length, bits_of_length, IHbs. lia. Qed.

(* openssl_sub_u64 / openssl_inv_sub_u64 on the 8 bytes of the word, openssl_sub_u32 on 4 bytes: S-box on every byte *)
Theorem sub_u64_bytes : forall bs, length bs = 8%nat -> bytes bs -> impl_sub_u64 (of_le bs) = of_le (map sbox bs).
Proof.
  intros bs Hl Hb. rewrite (of_le_bits bs Hb), (of_le_bits _ (sbox_bytes bs Hb)).
  rewrite sub_u64_lanes by (rewrite flat_bits_length, Hl; reflexivity).
  replace (seq 0 8) with (seq 0 (length bs)) by (rewrite Hl; reflexivity). rewrite (lanes_bytes sbox bs Hb). reflexivity.
Qed.

Theorem inv_sub_u64_bytes : forall bs, length bs = 8%nat -> bytes bs -> impl_inv_sub_u64 (of_le bs) = of_le (map inv_sbox bs).
Proof.
  intros bs Hl Hb. rewrite (of_le_bits bs Hb), (of_le_bits _ (inv_sbox_bytes bs Hb)).
  rewrite inv_sub_u64_lanes by (rewrite flat_bits_length, Hl; reflexivity).
  replace (seq 0 8) with (seq 0 (length bs)) by (rewrite Hl; reflexivity). rewrite (lanes_bytes inv_sbox bs Hb). reflexivity.
Qed.

Theorem sub_u32_bytes : forall bs, length bs = 4%nat -> bytes bs -> impl_sub_u32 (of_le bs) = of_le (map sbox bs).
Proof.
  intros bs Hl Hb. rewrite (of_le_bits bs Hb), (of_le_bits _ (sbox_bytes bs Hb)).
  rewrite sub_u32_lanes by (rewrite flat_bits_length, Hl; reflexivity).
  replace (seq 0 4) with (seq 0 (length bs)) by (rewrite Hl; reflexivity). rewrite (lanes_bytes sbox bs Hb). reflexivity.
Qed.

(* non-vacuity *)
Example sub_u64_example : impl_sub_u64 (of_le [0x00;0x53;0xff;0x10;0x01;0x02;0x03;0x04]) = of_le [0x63;0xed;0x16;0xca;0x7c;0x77;0x7b;0xf2].
Proof. vm_compute. reflexivity. Qed.
