(* C12 — theorems at the level of the library's API functions (the model's
   aes_* / des_* / tdes_* with their parameter checks): decryption inverts
   encryption in every mode, any partition into calls gives the bytes of one
   call, rejected calls write nothing. *)
From Coq Require Import Lia Arith PeanoNat.
From MV Require Import C12.Modes C12.Proofs_Modes C12.Proofs_DES C12.Proofs_AES C12.Proofs_AES_Key.
Local Open Scope N_scope.

Local Opaque cipher inv_cipher des_crypt des_subkeys round_keys.

(* ---------- little-endian words ---------- *)
Lemma le_step : forall x, x = N.land x 255 + 256 * N.shiftr x 8.
Proof.
  intros x. change 255 with (N.ones 8). rewrite N.land_ones, N.shiftr_div_pow2.
  change (2 ^ 8) with 256. rewrite N.add_comm. apply N.div_mod. lia.
Qed.

Lemma of_le_le64 : forall n, n < two64 -> of_le (le64 n) = n.
Proof.
  intros n Hn. unfold le64, of_le. cbn [fold_right].
  pose proof (le_step n) as H0. pose proof (le_step (N.shiftr n 8)) as H1.
  pose proof (le_step (N.shiftr n 16)) as H2. pose proof (le_step (N.shiftr n 24)) as H3.
  pose proof (le_step (N.shiftr n 32)) as H4. pose proof (le_step (N.shiftr n 40)) as H5.
  pose proof (le_step (N.shiftr n 48)) as H6. pose proof (le_step (N.shiftr n 56)) as H7.
  rewrite !N.shiftr_shiftr in *. cbn [N.add Pos.add Pos.succ Pos.add_carry] in *.
  assert (H8 : N.shiftr n 64 = 0).
  { rewrite N.shiftr_div_pow2. apply N.div_small. exact Hn. }
  lia.
Qed.

Lemma le64_length : forall n, length (le64 n) = 8%nat. Proof. reflexivity. Qed.

Definition wfw (nw : nat) (w : list N) : Prop := length w = nw /\ Forall (fun x => x < two64) w.

Lemma words_bytes_roundtrip : forall w, Forall (fun x => x < two64) w ->
  words_of_bytes (length w) (bytes_of_words w) = w.
Proof.
  induction w as [|a w IH]; intros H; [reflexivity|]. inversion H; subst.
  cbn [length words_of_bytes bytes_of_words flat_map].
  rewrite (firstn_app_exact _ _ _ 8%nat (le64_length a)), (skipn_app_exact _ _ _ 8%nat (le64_length a)).
  rewrite of_le_le64 by assumption. f_equal. apply IH. assumption.
Qed.

Lemma of_le_bound : forall l, bytes l -> of_le l < 256 ^ N.of_nat (length l).
Proof.
  induction l as [|b l IH]; intros H; [cbn; lia|]. inversion H; subst.
  cbn [of_le fold_right length]. fold (of_le l). specialize (IH H3).
  rewrite Nat2N.inj_succ, N.pow_succ_r'. unfold byte in *. nia.
Qed.

Lemma words_of_bytes_wfw : forall nw l, bytes l -> wfw nw (words_of_bytes nw l).
Proof.
  induction nw; intros l H; cbn [words_of_bytes]; [split; [reflexivity|constructor]|].
  destruct (IHnw (skipn 8 l) (bytes_skipn _ _ H)) as [H1 H2]. split; [cbn [length]; rewrite H1; reflexivity|].
  constructor; [|assumption].
  eapply N.lt_le_trans; [apply of_le_bound, bytes_firstn, H|].
  change two64 with (256 ^ 8). apply N.pow_le_mono_r; [lia|]. pose proof (firstn_le_length 8 l). lia.
Qed.

Lemma mod_two64_lt : forall x, x mod two64 < two64.
Proof. intros. apply N.mod_lt. unfold two64. lia. Qed.

Lemma incr_aes_wfw : forall w, wfw 2 w -> wfw 2 (incr_aes w).
Proof.
  intros w [Hl Hb]. do 2 (destruct w as [|? w]; [discriminate Hl|]). destruct w; [|discriminate Hl].
  inversion Hb as [|? ? ? Hb1]; subst. inversion Hb1; subst.
  unfold incr_aes. split; [reflexivity|]. repeat constructor; [apply mod_two64_lt|].
  destruct (_ =? 0); [apply mod_two64_lt|assumption].
Qed.
Lemma incr_des_wfw : forall w, wfw 1 w -> wfw 1 (incr_des w).
Proof.
  intros w [Hl Hb]. destruct w as [|? w]; [discriminate Hl|]. destruct w; [|discriminate Hl].
  unfold incr_des. split; [reflexivity|]. repeat constructor. apply mod_two64_lt.
Qed.

(* ================================================================= *)
(* run_* lemmas generic over the block primitive *)
Section Runs.
  Variable bs : nat.
  Variables E D : list N -> list N.
  Variable nwords : nat.
  Variable incr : list N -> list N.
  Hypothesis bs_pos : (0 < bs)%nat.
  Hypothesis E_wf : forall b, wfb bs b -> wfb bs (E b).
  Hypothesis DE : forall b, wfb bs b -> D (E b) = b.
  Hypothesis mask_lt : forall x, N.land x (mask bs) < N.of_nat bs.
  Hypothesis incr_wfw : forall w, wfw nwords w -> wfw nwords (incr w).

  Lemma len_ok_div : forall m, len_ok bs m = true -> length m = (length m / bs * bs)%nat.
  Proof.
    intros m H. unfold len_ok in H. apply Nat.eqb_eq in H.
    pose proof (Nat.div_mod (length m) bs ltac:(lia)). lia.
  Qed.

  Lemma run_ecb_dec_enc : forall s s' m, len_ok bs m = true -> bytes m ->
    exists c, r_out (run_ecb bs E s m) = Some c /\ len_ok bs c = true /\ bytes c /\
              r_out (run_ecb bs D s' c) = Some m.
  Proof.
    intros s s' m Hl Hb. pose proof (len_ok_div m Hl) as Hd.
    destruct (ecb_length bs E E_wf _ _ Hd Hb) as [Hcl Hcb].
    eexists. split; [reflexivity|]. split; [|split; [exact Hcb|]].
    - unfold len_ok. rewrite Hcl. rewrite Nat.mod_mul by lia. reflexivity.
    - unfold run_ecb. cbn [r_out]. rewrite Hcl, Nat.div_mul by lia.
      rewrite (ecb_dec_enc_gen bs E D E_wf DE _ _ Hd Hb). reflexivity.
  Qed.

  Lemma cbc_enc_length : forall n iv m, wfb bs iv -> length m = (n * bs)%nat -> bytes m ->
    length (snd (cbc_enc_loop bs E n iv m)) = (n * bs)%nat /\ bytes (snd (cbc_enc_loop bs E n iv m)) /\
    wfb bs (fst (cbc_enc_loop bs E n iv m)).
  Proof.
    induction n; intros iv m Hiv Hl Hb; cbn [cbc_enc_loop].
    - cbn. repeat split; try constructor; apply Hiv.
    - pose proof (wfb_firstn bs _ _ Hl Hb) as [Hfl Hfb]. destruct Hiv as [Hil Hib].
      assert (Hx : wfb bs (xorl iv (firstn bs m))).
      { split. rewrite xorl_length; congruence. apply xorl_bytes; auto. }
      pose proof (E_wf _ Hx) as [Hol Hob].
      specialize (IHn (E (xorl iv (firstn bs m))) (skipn bs m) (conj Hol Hob) (skipn_len bs _ _ Hl) (bytes_skipn _ _ Hb)).
      destruct (cbc_enc_loop bs E n (E (xorl iv (firstn bs m))) (skipn bs m)) as [iv' out].
      cbn [fst snd] in *. destruct IHn as (I1 & I2 & I3).
      repeat split; try apply I3. rewrite app_length, Hol, I1. lia. apply bytes_app; assumption.
  Qed.

  Lemma run_cbc_dec_enc : forall s m, len_ok bs m = true -> bytes m -> wfb bs (s_iv s) ->
    exists c, r_out (run_cbc bs E true s m) = Some c /\ len_ok bs c = true /\ bytes c /\
              run_cbc bs D false s c = {| r_err := OK; r_out := Some m; r_st := r_st (run_cbc bs E true s m) |}.
  Proof.
    intros s m Hl Hb Hiv. pose proof (len_ok_div m Hl) as Hd.
    pose proof (cbc_enc_length _ _ _ Hiv Hd Hb) as (Hcl & Hcb & Hiv').
    pose proof (cbc_dec_enc_gen bs E D E_wf DE _ _ _ Hiv Hd Hb) as Hde.
    unfold run_cbc.
    destruct (cbc_enc_loop bs E (length m / bs) (s_iv s) m) as [iv' c] eqn:Henc. cbn [fst snd r_out r_st] in *.
    exists c. split; [reflexivity|]. split; [|split; [exact Hcb|]].
    - unfold len_ok. rewrite Hcl. rewrite Nat.mod_mul by lia. reflexivity.
    - rewrite Hcl, Nat.div_mul by lia. rewrite Hde. reflexivity.
  Qed.

  Lemma run_cfb_dec_enc : forall s m,
    exists c, r_out (run_cfb bs E true s m) = Some c /\
              run_cfb bs E false s c = {| r_err := OK; r_out := Some m; r_st := r_st (run_cfb bs E true s m) |}.
  Proof.
    intros s m. unfold run_cfb. pose proof (cfb_dec_enc_gen bs E m (s_iv s) (s_off s)) as H.
    destruct (cfb_loop bs E true (s_iv s) (s_off s) m) as [[iv' off'] c].
    exists c. split; [reflexivity|]. rewrite H. reflexivity.
  Qed.
  Lemma run_ofb_dec_enc : forall s m,
    exists c, r_out (run_ofb bs E s m) = Some c /\
              run_ofb bs E s c = {| r_err := OK; r_out := Some m; r_st := r_st (run_ofb bs E s m) |}.
  Proof.
    intros s m. unfold run_ofb. pose proof (ofb_dec_enc_gen bs E m (s_iv s) (s_off s)) as H.
    destruct (ofb_loop bs E (s_iv s) (s_off s) m) as [[iv' off'] c].
    exists c. split; [reflexivity|]. rewrite H. reflexivity.
  Qed.
  Lemma run_ctr_dec_enc : forall s m,
    exists c, r_out (run_ctr bs E nwords incr s m) = Some c /\
              run_ctr bs E nwords incr s c = {| r_err := OK; r_out := Some m; r_st := r_st (run_ctr bs E nwords incr s m) |}.
  Proof.
    intros s m. unfold run_ctr.
    pose proof (ctr_dec_enc_gen bs E incr m (words_of_bytes nwords (s_iv s)) (s_off s) (s_sb s)) as H.
    destruct (ctr_loop bs E incr (words_of_bytes nwords (s_iv s)) (s_off s) (s_sb s) m) as [[[w' off'] sb'] c].
    exists c. split; [reflexivity|]. rewrite H. reflexivity.
  Qed.

  (* ----- a sequence of calls: all accepted?, concatenated output, final state ----- *)
  Fixpoint run_calls (f : st -> list N -> cres) (s : st) (chunks : list (list N)) : bool * list N * st :=
    match chunks with
    | [] => (true, [], s)
    | c :: r =>
      let x := f s c in
      let '(ok, out, s') := run_calls f (r_st x) r in
      (match r_err x with OK => ok | _ => false end,
       match r_out x with Some o => o ++ out | None => out end, s')
    end.
  Definition one_call (f : st -> list N -> cres) (s : st) (m : list N) : bool * list N * st :=
    let x := f s m in
    (match r_err x with OK => true | _ => false end, match r_out x with Some o => o | None => [] end, r_st x).

  Lemma run_cfb_partition : forall enc chunks s,
    run_calls (run_cfb bs E enc) s chunks = one_call (run_cfb bs E enc) s (concat chunks).
  Proof.
    induction chunks as [|c r IH]; intros s.
    - destruct s; reflexivity.
    - cbn [run_calls concat]. rewrite IH. unfold one_call, run_cfb. rewrite cfb_chunking_gen.
      destruct (cfb_loop bs E enc (s_iv s) (s_off s) c) as [[iv1 off1] o1]. cbn [r_st s_iv s_off s_sb r_err r_out].
      destruct (cfb_loop bs E enc iv1 off1 (concat r)) as [[iv2 off2] o2]. reflexivity.
  Qed.
  Lemma run_ofb_partition : forall chunks s,
    run_calls (run_ofb bs E) s chunks = one_call (run_ofb bs E) s (concat chunks).
  Proof.
    induction chunks as [|c r IH]; intros s.
    - destruct s; reflexivity.
    - cbn [run_calls concat]. rewrite IH. unfold one_call, run_ofb. rewrite ofb_chunking_gen.
      destruct (ofb_loop bs E (s_iv s) (s_off s) c) as [[iv1 off1] o1]. cbn [r_st s_iv s_off s_sb r_err r_out].
      destruct (ofb_loop bs E iv1 off1 (concat r)) as [[iv2 off2] o2]. reflexivity.
  Qed.

  Lemma ctr_nonce_wfw : forall m w off sb, wfw nwords w ->
    wfw nwords (fst (fst (fst (ctr_loop bs E incr w off sb m)))).
  Proof.
    induction m as [|x r IH]; intros w off sb Hw; cbn [ctr_loop]; [exact Hw|].
    match goal with |- context [ctr_loop bs E incr ?a ?b ?c r] =>
      assert (Ha : wfw nwords a) by (destruct (off =? 0); [apply incr_wfw|]; exact Hw);
      specialize (IH a b c Ha); destruct (ctr_loop bs E incr a b c r) as [[[? ?] ?] ?] end.
    exact IH.
  Qed.

  Lemma run_ctr_two : forall s m1 m2, bytes (s_iv s) ->
    one_call (run_ctr bs E nwords incr) s (m1 ++ m2) =
    let x := run_ctr bs E nwords incr s m1 in
    let y := run_ctr bs E nwords incr (r_st x) m2 in
    (true, match r_out x, r_out y with Some a, Some b => a ++ b | _, _ => [] end, r_st y).
  Proof.
    intros s m1 m2 Hb. unfold one_call, run_ctr. rewrite ctr_chunking_gen.
    pose proof (ctr_nonce_wfw m1 (words_of_bytes nwords (s_iv s)) (s_off s) (s_sb s)
                  (words_of_bytes_wfw nwords _ Hb)) as Hw.
    destruct (ctr_loop bs E incr (words_of_bytes nwords (s_iv s)) (s_off s) (s_sb s) m1) as [[[w1 off1] sb1] o1].
    cbn [fst r_st s_iv s_off s_sb r_err r_out] in *. destruct Hw as [Hwl Hwf].
    assert (R : words_of_bytes nwords (bytes_of_words w1) = w1) by (rewrite <- Hwl; apply words_bytes_roundtrip; exact Hwf).
    rewrite R.
    destruct (ctr_loop bs E incr w1 off1 sb1 m2) as [[[w2 off2] sb2] o2]. reflexivity.
  Qed.

  Lemma le64_bytes : forall n, bytes (le64 n).
  Proof.
    intros n. unfold le64, bytes. repeat constructor; unfold byte; change 255 with (N.ones 8);
      rewrite N.land_ones; apply N.mod_lt; discriminate.
  Qed.
  Lemma bytes_of_words_bytes : forall w, bytes (bytes_of_words w).
  Proof. induction w; cbn [bytes_of_words flat_map]; [constructor|]. apply bytes_app; [apply le64_bytes|exact IHw]. Qed.

  (* one or more calls *)
  Lemma run_ctr_partition : forall r c s, bytes (s_iv s) ->
    run_calls (run_ctr bs E nwords incr) s (c :: r) = one_call (run_ctr bs E nwords incr) s (concat (c :: r)).
  Proof.
    induction r as [|c2 r IH]; intros c s Hb.
    - cbn [run_calls concat]. rewrite !app_nil_r. unfold one_call.
      destruct (r_out (run_ctr bs E nwords incr s c)); rewrite ?app_nil_r; reflexivity.
    - change (run_calls (run_ctr bs E nwords incr) s (c :: c2 :: r)) with
        (let x := run_ctr bs E nwords incr s c in
         let '(ok, out, s') := run_calls (run_ctr bs E nwords incr) (r_st x) (c2 :: r) in
         (match r_err x with OK => ok | _ => false end,
          match r_out x with Some o => o ++ out | None => out end, s')).
      cbn zeta. rewrite IH.
      2:{ unfold run_ctr. destruct (ctr_loop _ _ _ _ _ _ _) as [[[? ?] ?] ?]. cbn [r_st s_iv]. apply bytes_of_words_bytes. }
      change (concat (c :: c2 :: r)) with (c ++ concat (c2 :: r)).
      rewrite (run_ctr_two s c (concat (c2 :: r)) Hb). cbn zeta.
      unfold one_call.
      assert (He : forall s m, r_err (run_ctr bs E nwords incr s m) = OK /\ exists o, r_out (run_ctr bs E nwords incr s m) = Some o).
      { intros s0 m0. unfold run_ctr. destruct (ctr_loop _ _ _ _ _ _ _) as [[[? ?] ?] ?]. cbn. eauto. }
      destruct (He s c) as [E1 [o1 O1]]. destruct (He (r_st (run_ctr bs E nwords incr s c)) (concat (c2 :: r))) as [E2 [o2 O2]].
      rewrite E1, E2, O1, O2. reflexivity.
  Qed.
End Runs.

(* ================================================================= *)
(* the API functions *)
Definition aes_call (fn : mode) (p : ptrs) (c : aes_ctx) (s : st) (m : list N) : cres :=
  match fn with
  | ECB => aes_ecb p c s m | CBC => aes_cbc p c s m | CFB => aes_cfb128 p c s m
  | OFB => aes_ofb128 p c s m | CTR => aes_ctr p c s m | ModeBad => fail E_INVALID s
  end.
Definition d_call (blk : list N -> list N) (o : op) (cm fn : mode) (p : ptrs) (s : st) (m : list N) : cres :=
  match fn with
  | ECB => d_ecb blk cm p s m | CBC => d_cbc blk o cm p s m | CFB => d_cfb64 blk o cm p s m
  | OFB => d_ofb64 blk cm p s m | CTR => d_ctr blk cm p s m | ModeBad => fail E_INVALID s
  end.
Definition des_call (fn : mode) (p : ptrs) (c : des_ctx) := d_call (des_blk c) (d_op c) (d_mode c) fn p.
Definition tdes_call (fn : mode) (p : ptrs) (c : tdes_ctx) := d_call (tdes_blk c) (t_op c) (t_mode c) fn p.

(* these are the library functions of Modes.v *)
Lemma des_call_is : forall p c,
  des_call ECB p c = des_ecb p c /\ des_call CBC p c = des_cbc p c /\ des_call CFB p c = des_cfb64 p c /\
  des_call OFB p c = des_ofb64 p c /\ des_call CTR p c = des_ctr p c.
Proof. intros. repeat split. Qed.
Lemma tdes_call_is : forall p c,
  tdes_call ECB p c = tdes_ecb p c /\ tdes_call CBC p c = tdes_cbc p c /\ tdes_call CFB p c = tdes_cfb64 p c /\
  tdes_call OFB p c = tdes_ofb64 p c /\ tdes_call CTR p c = tdes_ctr p c.
Proof. intros. repeat split. Qed.

Definition block_mode (fn : mode) : bool := match fn with ECB | CBC => true | _ => false end.
Definition stream_mode (fn : mode) : bool := match fn with CFB | OFB | CTR => true | _ => false end.
Definition st_ok (bs : nat) (s : st) : Prop := wfb bs (s_iv s) /\ s_off s < N.of_nat bs.
Definition msg_ok (bs : nat) (fn : mode) (m : list N) : Prop := bytes m /\ (block_mode fn = true -> len_ok bs m = true).

Lemma mask16_lt : forall x, N.land x (mask 16) < N.of_nat 16.
Proof. intros. change (mask 16) with (N.ones 4). rewrite N.land_ones. apply N.mod_lt. discriminate. Qed.
Lemma mask8_lt : forall x, N.land x (mask 8) < N.of_nat 8.
Proof. intros. change (mask 8) with (N.ones 3). rewrite N.land_ones. apply N.mod_lt. discriminate. Qed.

Lemma off_ok_true : forall bs s, s_off s < N.of_nat bs -> off_ok bs s = true.
Proof. intros. unfold off_ok. apply N.ltb_lt. assumption. Qed.

Ltac api_cbn :=
  cbn [first_err all_ptrs p_ctx p_in p_out p_iv p_off p_sb mode_eqb op_valid is_enc
       a_mode a_op a_rk aes_crypt fail block_mode stream_mode].

(* ---------- AES ---------- *)
Lemma aes_set_key_ok : forall o fn bits key c, aes_set_key true true o fn bits key = (OK, Some c) ->
  exists rk, aes_round_keys bits key = Some rk /\ c = {| a_op := o; a_mode := fn; a_rk := rk |} /\
             op_valid o = true /\ mode_valid fn = true.
Proof.
  intros o fn bits key c H. unfold aes_set_key in H.
  destruct o; destruct fn; cbn [first_err op_valid mode_valid] in H; try discriminate;
    destruct (aes_round_keys bits key) as [rk|]; try discriminate; injection H as <-; eauto.
Qed.

Theorem aes_modes_dec_enc_api : forall fn bits key ce cd s m,
  aes_set_key true true OpEnc fn bits key = (OK, Some ce) ->
  aes_set_key true true OpDec fn bits key = (OK, Some cd) ->
  length key = key_bytes bits -> bytes key -> st_ok 16 s -> msg_ok 16 fn m ->
  exists c, r_err (aes_call fn all_ptrs ce s m) = OK /\ r_out (aes_call fn all_ptrs ce s m) = Some c /\
            aes_call fn all_ptrs cd s c =
            {| r_err := OK; r_out := Some m; r_st := r_st (aes_call fn all_ptrs ce s m) |}.
Proof.
  intros fn bits key ce cd s m He Hd Hkl Hkb [Hiv Hoff] [Hmb Hml].
  destruct (aes_set_key_ok _ _ _ _ _ He) as (rk & Hrk & -> & _ & Hfn).
  destruct (aes_set_key_ok _ _ _ _ _ Hd) as (rk' & Hrk' & -> & _ & _).
  rewrite Hrk in Hrk'. injection Hrk' as <-.
  destruct (aes_round_keys_wf bits key rk Hrk Hkl Hkb) as [R1 R2].
  assert (E_wf : forall b, wfb 16 b -> wfb 16 (cipher rk b)) by (intros; apply cipher_wf; assumption).
  assert (DE : forall b, wfb 16 b -> inv_cipher rk (cipher rk b) = b) by (intros; apply inv_cipher_cipher; assumption).
  pose proof (off_ok_true 16 s Hoff) as Hoff'.
  destruct fn; try discriminate Hfn; unfold aes_call.
  - (* ECB *)
    specialize (Hml eq_refl).
    destruct (run_ecb_dec_enc 16 (cipher rk) (inv_cipher rk) ltac:(lia) E_wf DE s s m Hml Hmb) as (c & Hc & Hcl & Hcb & Hdec).
    exists c. unfold aes_ecb. api_cbn. rewrite Hml, Hcl. api_cbn.
    split; [reflexivity|]. split; [exact Hc|]. unfold run_ecb in *. cbn [r_out r_st] in *. f_equal. exact Hdec.
  - (* CBC *)
    specialize (Hml eq_refl).
    destruct (run_cbc_dec_enc 16 (cipher rk) (inv_cipher rk) ltac:(lia) E_wf DE s m Hml Hmb Hiv) as (c & Hc & Hcl & Hcb & Hdec).
    exists c. unfold aes_cbc. api_cbn. rewrite Hml, Hcl. api_cbn.
    split; [unfold run_cbc; destruct (cbc_enc_loop _ _ _ _ _); reflexivity|]. split; [exact Hc|exact Hdec].
  - (* CFB *)
    destruct (run_cfb_dec_enc 16 (cipher rk) s m) as (c & Hc & Hdec).
    exists c. unfold aes_cfb128. api_cbn. rewrite Hoff'. api_cbn.
    split; [unfold run_cfb; destruct (cfb_loop _ _ _ _ _ _) as [[? ?] ?]; reflexivity|]. split; [exact Hc|exact Hdec].
  - (* OFB *)
    destruct (run_ofb_dec_enc 16 (cipher rk) s m) as (c & Hc & Hdec).
    exists c. unfold aes_ofb128. api_cbn. rewrite Hoff'. api_cbn.
    split; [unfold run_ofb; destruct (ofb_loop _ _ _ _ _) as [[? ?] ?]; reflexivity|]. split; [exact Hc|exact Hdec].
  - (* CTR *)
    destruct (run_ctr_dec_enc 16 (cipher rk) 2 incr_aes s m) as (c & Hc & Hdec).
    exists c. unfold aes_ctr. api_cbn. rewrite Hoff'. api_cbn.
    split; [unfold run_ctr; destruct (ctr_loop _ _ _ _ _ _ _) as [[[? ?] ?] ?]; reflexivity|]. split; [exact Hc|exact Hdec].
Qed.

(* ---------- DES / TDES: the shared mode functions ---------- *)
Ltac d_cbn :=
  cbn [first_err all_ptrs p_ctx p_in p_out p_iv p_off p_sb mode_eqb op_valid is_enc fail block_mode stream_mode].

Section DCalls.
  Variables E D : list N -> list N.
  Hypothesis E_wf : forall b, wfb 8 b -> wfb 8 (E b).
  Hypothesis DE : forall b, wfb 8 b -> D (E b) = b.

  (* encrypting context: primitive E; decrypting context: D for ECB/CBC, E again for the stream modes *)
  Theorem d_modes_dec_enc : forall fn s m, mode_valid fn = true -> st_ok 8 s -> msg_ok 8 fn m ->
    exists c, r_err (d_call E OpEnc fn fn all_ptrs s m) = OK /\ r_out (d_call E OpEnc fn fn all_ptrs s m) = Some c /\
              d_call (if block_mode fn then D else E) OpDec fn fn all_ptrs s c =
              {| r_err := OK; r_out := Some m; r_st := r_st (d_call E OpEnc fn fn all_ptrs s m) |}.
  Proof.
    intros fn s m Hfn [Hiv Hoff] [Hmb Hml].
    pose proof (off_ok_true 8 s Hoff) as Hoff'.
    destruct fn; try discriminate Hfn; unfold d_call; d_cbn.
    - specialize (Hml eq_refl).
      destruct (run_ecb_dec_enc 8 E D ltac:(lia) E_wf DE s s m Hml Hmb) as (c & Hc & Hcl & Hcb & Hdec).
      exists c. unfold d_ecb. d_cbn. rewrite Hml, Hcl. d_cbn.
      split; [reflexivity|]. split; [exact Hc|]. unfold run_ecb in *. cbn [r_out r_st] in *. f_equal. exact Hdec.
    - specialize (Hml eq_refl).
      destruct (run_cbc_dec_enc 8 E D ltac:(lia) E_wf DE s m Hml Hmb Hiv) as (c & Hc & Hcl & Hcb & Hdec).
      exists c. unfold d_cbc. d_cbn. rewrite Hml, Hcl. d_cbn.
      split; [unfold run_cbc; destruct (cbc_enc_loop _ _ _ _ _); reflexivity|]. split; [exact Hc|exact Hdec].
    - destruct (run_cfb_dec_enc 8 E s m) as (c & Hc & Hdec).
      exists c. unfold d_cfb64. d_cbn. rewrite Hoff'. d_cbn.
      split; [unfold run_cfb; destruct (cfb_loop _ _ _ _ _ _) as [[? ?] ?]; reflexivity|]. split; [exact Hc|exact Hdec].
    - destruct (run_ofb_dec_enc 8 E s m) as (c & Hc & Hdec).
      exists c. unfold d_ofb64. d_cbn. rewrite Hoff'. d_cbn.
      split; [unfold run_ofb; destruct (ofb_loop _ _ _ _ _) as [[? ?] ?]; reflexivity|]. split; [exact Hc|exact Hdec].
    - destruct (run_ctr_dec_enc 8 E 1 incr_des s m) as (c & Hc & Hdec).
      exists c. unfold d_ctr. d_cbn. rewrite Hoff'. d_cbn.
      split; [unfold run_ctr; destruct (ctr_loop _ _ _ _ _ _ _) as [[[? ?] ?] ?]; reflexivity|]. split; [exact Hc|exact Hdec].
  Qed.
End DCalls.

Lemma des_set_key_ok : forall o fn key c, des_set_key true true o fn key = (OK, Some c) ->
  op_valid o = true /\ mode_valid fn = true /\
  c = {| d_op := o; d_mode := fn; d_ks := des_gen_subkeys (if block_mode fn then o else OpEnc) key |}.
Proof.
  intros o fn key c H. unfold des_set_key in H.
  destruct o; destruct fn; cbn [first_err op_valid] in H; try discriminate; injection H as <-; auto.
Qed.

Theorem des_modes_dec_enc_api : forall fn key ce cd s m,
  des_set_key true true OpEnc fn key = (OK, Some ce) ->
  des_set_key true true OpDec fn key = (OK, Some cd) ->
  st_ok 8 s -> msg_ok 8 fn m ->
  exists c, r_err (des_call fn all_ptrs ce s m) = OK /\ r_out (des_call fn all_ptrs ce s m) = Some c /\
            des_call fn all_ptrs cd s c =
            {| r_err := OK; r_out := Some m; r_st := r_st (des_call fn all_ptrs ce s m) |}.
Proof.
  intros fn key ce cd s m He Hd Hs Hm.
  destruct (des_set_key_ok _ _ _ _ He) as (_ & Hfn & ->). destruct (des_set_key_ok _ _ _ _ Hd) as (_ & _ & ->).
  unfold des_call, des_blk. cbn [d_op d_mode d_ks].
  pose proof (d_modes_dec_enc (des_crypt (des_subkeys key)) (des_crypt (rev (des_subkeys key)))
                (fun b _ => des_crypt_wf _ b) (fun b H => des_crypt_inverse _ b H) fn s m Hfn Hs Hm) as H.
  destruct fn; try discriminate Hfn; cbn [block_mode des_gen_subkeys] in *; exact H.
Qed.

Lemma tdes_set_key_ok : forall o fn k1 k2 k3 c, tdes_set_key true true true true o fn k1 k2 k3 = (OK, Some c) ->
  op_valid o = true /\ mode_valid fn = true /\
  c = if block_mode fn then
        (if is_enc o then {| t_op := o; t_mode := fn; t_ks1 := des_gen_subkeys o k1;
                             t_ks2 := des_gen_subkeys (inv_op o) k2; t_ks3 := des_gen_subkeys o k3 |}
         else {| t_op := o; t_mode := fn; t_ks1 := des_gen_subkeys o k3;
                 t_ks2 := des_gen_subkeys (inv_op o) k2; t_ks3 := des_gen_subkeys o k1 |})
      else {| t_op := o; t_mode := fn; t_ks1 := des_gen_subkeys OpEnc k1;
              t_ks2 := des_gen_subkeys OpDec k2; t_ks3 := des_gen_subkeys OpEnc k3 |}.
Proof.
  intros o fn k1 k2 k3 c H. unfold tdes_set_key in H.
  destruct o; destruct fn; cbn [first_err op_valid is_enc] in H; try discriminate; injection H as <-; auto.
Qed.

Theorem tdes_modes_dec_enc_api : forall fn k1 k2 k3 ce cd s m,
  tdes_set_key true true true true OpEnc fn k1 k2 k3 = (OK, Some ce) ->
  tdes_set_key true true true true OpDec fn k1 k2 k3 = (OK, Some cd) ->
  st_ok 8 s -> msg_ok 8 fn m ->
  exists c, r_err (tdes_call fn all_ptrs ce s m) = OK /\ r_out (tdes_call fn all_ptrs ce s m) = Some c /\
            tdes_call fn all_ptrs cd s c =
            {| r_err := OK; r_out := Some m; r_st := r_st (tdes_call fn all_ptrs ce s m) |}.
Proof.
  intros fn k1 k2 k3 ce cd s m He Hd Hs Hm.
  destruct (tdes_set_key_ok _ _ _ _ _ _ He) as (_ & Hfn & He'). destruct (tdes_set_key_ok _ _ _ _ _ _ Hd) as (_ & _ & Hd').
  set (K1 := des_subkeys k1) in *. set (K2 := des_subkeys k2) in *. set (K3 := des_subkeys k3) in *.
  set (E := fun b => des_crypt K3 (des_crypt (rev K2) (des_crypt K1 b))).
  set (D := fun b => des_crypt (rev K1) (des_crypt K2 (des_crypt (rev K3) b))).
  assert (E_wf : forall b, wfb 8 b -> wfb 8 (E b)) by (intros; apply des_crypt_wf).
  assert (DE : forall b, wfb 8 b -> D (E b) = b).
  { intros b Hb. unfold D, E. rewrite (des_crypt_inverse K3) by apply des_crypt_wf.
    rewrite (des_crypt_inverse' K2) by apply des_crypt_wf. apply des_crypt_inverse. exact Hb. }
  pose proof (d_modes_dec_enc E D E_wf DE fn s m Hfn Hs Hm) as H.
  unfold tdes_call.
  destruct fn; try discriminate Hfn; cbn [block_mode is_enc inv_op des_gen_subkeys] in *; subst ce cd;
    unfold tdes_blk; cbn [t_op t_mode t_ks1 t_ks2 t_ks3]; exact H.
Qed.

(* ---------- any partition into one or more calls, at the API level ---------- *)
Lemma run_calls_ext : forall (Inv : st -> Prop) (f g : st -> list N -> cres),
  (forall s m, Inv s -> f s m = g s m) -> (forall s m, Inv s -> Inv (r_st (g s m))) ->
  forall chunks s, Inv s -> run_calls f s chunks = run_calls g s chunks.
Proof.
  intros Inv f g Hfg Hinv. induction chunks as [|c r IH]; intros s Hs; [reflexivity|].
  cbn [run_calls]. rewrite (Hfg s c Hs). rewrite (IH _ (Hinv s c Hs)). reflexivity.
Qed.

Definition off_inv (bs : nat) (s : st) : Prop := s_off s < N.of_nat bs.
Definition ctr_inv (bs : nat) (s : st) : Prop := s_off s < N.of_nat bs /\ bytes (s_iv s).

Section StreamInv.
  Variable bs : nat.
  Variable E : list N -> list N.
  Variable nwords : nat.
  Variable incr : list N -> list N.
  Hypothesis mask_lt : forall x, N.land x (mask bs) < N.of_nat bs.

  Lemma run_cfb_inv : forall enc s m, off_inv bs s -> off_inv bs (r_st (run_cfb bs E enc s m)).
  Proof.
    intros enc s m H. unfold off_inv, run_cfb in *. pose proof (cfb_off_lt bs E mask_lt enc m (s_iv s) (s_off s) H) as L.
    destruct (cfb_loop bs E enc (s_iv s) (s_off s) m) as [[? ?] ?]. exact L.
  Qed.
  Lemma run_ofb_inv : forall s m, off_inv bs s -> off_inv bs (r_st (run_ofb bs E s m)).
  Proof.
    intros s m H. unfold off_inv, run_ofb in *. pose proof (ofb_off_lt bs E mask_lt m (s_iv s) (s_off s) H) as L.
    destruct (ofb_loop bs E (s_iv s) (s_off s) m) as [[? ?] ?]. exact L.
  Qed.
  Lemma run_ctr_inv : forall s m, ctr_inv bs s -> ctr_inv bs (r_st (run_ctr bs E nwords incr s m)).
  Proof.
    intros s m [H Hb]. unfold ctr_inv, run_ctr in *.
    pose proof (ctr_off_lt bs E incr mask_lt m (words_of_bytes nwords (s_iv s)) (s_off s) (s_sb s) H) as L.
    destruct (ctr_loop bs E incr (words_of_bytes nwords (s_iv s)) (s_off s) (s_sb s) m) as [[[? ?] ?] ?].
    split; [exact L|apply bytes_of_words_bytes].
  Qed.
End StreamInv.

Definition accepted (x : bool * list N * st) : Prop := fst (fst x) = true.

Theorem aes_stream_any_partition_api : forall fn c s c0 chunks,
  stream_mode fn = true -> a_mode c = fn -> op_valid (a_op c) = true -> st_ok 16 s ->
  run_calls (aes_call fn all_ptrs c) s (c0 :: chunks) = one_call (aes_call fn all_ptrs c) s (concat (c0 :: chunks))
  /\ accepted (one_call (aes_call fn all_ptrs c) s (concat (c0 :: chunks))).
Proof.
  intros fn c s c0 chunks Hfn Hm Hop [[Hivl Hivb] Hoff]. destruct c as [o md rk]. cbn [a_mode a_op] in *. subst md.
  destruct fn; try discriminate Hfn.
  - (* CFB *)
    assert (Hfg : forall s m, off_inv 16 s -> aes_call CFB all_ptrs {| a_op := o; a_mode := CFB; a_rk := rk |} s m
                                             = run_cfb 16 (cipher rk) (is_enc o) s m).
    { intros s0 m0 H0. unfold aes_call, aes_cfb128. api_cbn. rewrite (off_ok_true 16 s0 H0), Hop. api_cbn. reflexivity. }
    rewrite (run_calls_ext (off_inv 16) _ _ Hfg (fun s m => run_cfb_inv 16 (cipher rk) mask16_lt (is_enc o) s m) _ s Hoff).
    rewrite run_cfb_partition. unfold one_call. rewrite (Hfg s _ Hoff). split; [reflexivity|].
    unfold accepted, run_cfb. destruct (cfb_loop _ _ _ _ _ _) as [[? ?] ?]. reflexivity.
  - (* OFB *)
    assert (Hfg : forall s m, off_inv 16 s -> aes_call OFB all_ptrs {| a_op := o; a_mode := OFB; a_rk := rk |} s m
                                             = run_ofb 16 (cipher rk) s m).
    { intros s0 m0 H0. unfold aes_call, aes_ofb128. api_cbn. rewrite (off_ok_true 16 s0 H0), Hop. api_cbn. reflexivity. }
    rewrite (run_calls_ext (off_inv 16) _ _ Hfg (fun s m => run_ofb_inv 16 (cipher rk) mask16_lt s m) _ s Hoff).
    rewrite run_ofb_partition. unfold one_call. rewrite (Hfg s _ Hoff). split; [reflexivity|].
    unfold accepted, run_ofb. destruct (ofb_loop _ _ _ _ _) as [[? ?] ?]. reflexivity.
  - (* CTR *)
    assert (Hfg : forall s m, ctr_inv 16 s -> aes_call CTR all_ptrs {| a_op := o; a_mode := CTR; a_rk := rk |} s m
                                             = run_ctr 16 (cipher rk) 2 incr_aes s m).
    { intros s0 m0 [H0 _]. unfold aes_call, aes_ctr. api_cbn. rewrite (off_ok_true 16 s0 H0), Hop. api_cbn. reflexivity. }
    rewrite (run_calls_ext (ctr_inv 16) _ _ Hfg (fun s m => run_ctr_inv 16 (cipher rk) 2 incr_aes mask16_lt s m) _ s (conj Hoff Hivb)).
    rewrite (run_ctr_partition 16 (cipher rk) 2 incr_aes incr_aes_wfw) by exact Hivb.
    unfold one_call. rewrite (Hfg s _ (conj Hoff Hivb)). split; [reflexivity|].
    unfold accepted, run_ctr. destruct (ctr_loop _ _ _ _ _ _ _) as [[[? ?] ?] ?]. reflexivity.
Qed.

Theorem d_stream_any_partition : forall blk o fn s c0 chunks,
  stream_mode fn = true -> op_valid o = true -> st_ok 8 s ->
  run_calls (d_call blk o fn fn all_ptrs) s (c0 :: chunks) = one_call (d_call blk o fn fn all_ptrs) s (concat (c0 :: chunks))
  /\ accepted (one_call (d_call blk o fn fn all_ptrs) s (concat (c0 :: chunks))).
Proof.
  intros blk o fn s c0 chunks Hfn Hop [[Hivl Hivb] Hoff].
  destruct fn; try discriminate Hfn.
  - assert (Hfg : forall s m, off_inv 8 s -> d_call blk o CFB CFB all_ptrs s m = run_cfb 8 blk (is_enc o) s m).
    { intros s0 m0 H0. unfold d_call, d_cfb64. d_cbn. rewrite (off_ok_true 8 s0 H0), Hop. d_cbn. reflexivity. }
    rewrite (run_calls_ext (off_inv 8) _ _ Hfg (fun s m => run_cfb_inv 8 blk mask8_lt (is_enc o) s m) _ s Hoff).
    rewrite run_cfb_partition. unfold one_call. rewrite (Hfg s _ Hoff). split; [reflexivity|].
    unfold accepted, run_cfb. destruct (cfb_loop _ _ _ _ _ _) as [[? ?] ?]. reflexivity.
  - assert (Hfg : forall s m, off_inv 8 s -> d_call blk o OFB OFB all_ptrs s m = run_ofb 8 blk s m).
    { intros s0 m0 H0. unfold d_call, d_ofb64. d_cbn. rewrite (off_ok_true 8 s0 H0). d_cbn. reflexivity. }
    rewrite (run_calls_ext (off_inv 8) _ _ Hfg (fun s m => run_ofb_inv 8 blk mask8_lt s m) _ s Hoff).
    rewrite run_ofb_partition. unfold one_call. rewrite (Hfg s _ Hoff). split; [reflexivity|].
    unfold accepted, run_ofb. destruct (ofb_loop _ _ _ _ _) as [[? ?] ?]. reflexivity.
  - assert (Hfg : forall s m, ctr_inv 8 s -> d_call blk o CTR CTR all_ptrs s m = run_ctr 8 blk 1 incr_des s m).
    { intros s0 m0 [H0 _]. unfold d_call, d_ctr. d_cbn. rewrite (off_ok_true 8 s0 H0). d_cbn. reflexivity. }
    rewrite (run_calls_ext (ctr_inv 8) _ _ Hfg (fun s m => run_ctr_inv 8 blk 1 incr_des mask8_lt s m) _ s (conj Hoff Hivb)).
    rewrite (run_ctr_partition 8 blk 1 incr_des incr_des_wfw) by exact Hivb.
    unfold one_call. rewrite (Hfg s _ (conj Hoff Hivb)). split; [reflexivity|].
    unfold accepted, run_ctr. destruct (ctr_loop _ _ _ _ _ _ _) as [[[? ?] ?] ?]. reflexivity.
Qed.

(* ---------- rejected calls write nothing and leave the chaining state alone ---------- *)
Lemma run_ok : forall bs blk nw incr s m enc,
  r_err (run_ecb bs blk s m) = OK /\ r_err (run_cbc bs blk enc s m) = OK /\ r_err (run_cfb bs blk enc s m) = OK /\
  r_err (run_ofb bs blk s m) = OK /\ r_err (run_ctr bs blk nw incr s m) = OK.
Proof.
  intros. unfold run_ecb, run_cbc, run_cfb, run_ofb, run_ctr. repeat split.
  - destruct enc; [destruct (cbc_enc_loop _ _ _ _ _)|destruct (cbc_dec_loop _ _ _ _ _)]; reflexivity.
  - destruct (cfb_loop _ _ _ _ _ _) as [[? ?] ?]. reflexivity.
  - destruct (ofb_loop _ _ _ _ _) as [[? ?] ?]. reflexivity.
  - destruct (ctr_loop _ _ _ _ _ _ _) as [[[? ?] ?] ?]. reflexivity.
Qed.

Ltac reject_tac :=
  match goal with
  | |- context [match first_err ?l with _ => _ end] =>
    destruct (first_err l) eqn:?; cbn [fail r_err r_out r_st]; auto; intros Hne; exfalso; apply Hne
  end.

Theorem aes_reject_writes_nothing : forall fn p c s m,
  r_err (aes_call fn p c s m) <> OK -> r_out (aes_call fn p c s m) = None /\ r_st (aes_call fn p c s m) = s.
Proof.
  intros fn p c s m.
  destruct (run_ok 16 (aes_crypt (a_op c) (a_rk c)) 2%nat incr_aes s m (is_enc (a_op c))) as (R1 & R2 & _).
  destruct (run_ok 16 (cipher (a_rk c)) 2%nat incr_aes s m (is_enc (a_op c))) as (_ & _ & R3 & R4 & R5).
  destruct fn; unfold aes_call, aes_ecb, aes_cbc, aes_cfb128, aes_ofb128, aes_ctr; try reject_tac; auto.
Qed.

Theorem d_reject_writes_nothing : forall blk o cm fn p s m,
  r_err (d_call blk o cm fn p s m) <> OK -> r_out (d_call blk o cm fn p s m) = None /\ r_st (d_call blk o cm fn p s m) = s.
Proof.
  intros blk o cm fn p s m.
  destruct (run_ok 8 blk 1%nat incr_des s m (is_enc o)) as (R1 & R2 & R3 & R4 & R5).
  destruct fn; unfold d_call, d_ecb, d_cbc, d_cfb64, d_ofb64, d_ctr; try reject_tac; auto.
Qed.

(* ---------- what is rejected ---------- *)
Definition call_valid (bs : nat) (fn cm : mode) (p : ptrs) (s : st) (m : list N) : bool :=
  p_ctx p && mode_eqb cm fn && p_in p && p_out p &&
  (if block_mode fn then len_ok bs m else true) &&
  (match fn with ECB => true | _ => p_iv p end) &&
  (if stream_mode fn then p_off p && off_ok bs s else true) &&
  (match fn with CTR => p_sb p | _ => true end).

(* an invalid call (NULL pointer, mode function not matching the context, length not a block multiple
   in ECB/CBC, offset >= block size) is rejected *)
Theorem aes_invalid_rejected : forall fn p c s m,
  call_valid 16 fn (a_mode c) p s m = false -> r_err (aes_call fn p c s m) <> OK.
Proof.
  intros fn p c s m H. destruct p as [pc pi po pv pf ps]. unfold call_valid in H. cbn [p_ctx p_in p_out p_iv p_off p_sb] in H.
  destruct fn; unfold aes_call, aes_ecb, aes_cbc, aes_cfb128, aes_ofb128, aes_ctr, fail;
    cbn [block_mode stream_mode p_ctx p_in p_out p_iv p_off p_sb first_err] in *;
    try (cbn; discriminate);
    destruct pc, (mode_eqb (a_mode c) _), pi, po, pv, pf, ps, (len_ok 16 m), (off_ok 16 s); cbn in H; try discriminate H;
    cbn [r_err]; try discriminate; destruct (op_valid (a_op c)); cbn [r_err]; discriminate.
Qed.

Theorem d_invalid_rejected : forall blk o cm fn p s m,
  call_valid 8 fn cm p s m = false -> r_err (d_call blk o cm fn p s m) <> OK.
Proof.
  intros blk o cm fn p s m H. destruct p as [pc pi po pv pf ps]. unfold call_valid in H. cbn [p_ctx p_in p_out p_iv p_off p_sb] in H.
  destruct fn; unfold d_call, d_ecb, d_cbc, d_cfb64, d_ofb64, d_ctr, fail;
    cbn [block_mode stream_mode p_ctx p_in p_out p_iv p_off p_sb first_err] in *;
    try (cbn; discriminate);
    destruct pc, (mode_eqb cm _), pi, po, pv, pf, ps, (len_ok 8 m), (off_ok 8 s); cbn in H; try discriminate H;
    cbn [r_err]; try discriminate; destruct (op_valid o); cbn [r_err]; discriminate.
Qed.

(* ... and a valid call on a context set up by set_key is accepted *)
Theorem aes_valid_accepted : forall fn p c s m,
  call_valid 16 fn (a_mode c) p s m = true -> op_valid (a_op c) = true -> r_err (aes_call fn p c s m) = OK.
Proof.
  intros fn p c s m H Hop. destruct p as [pc pi po pv pf ps]. unfold call_valid in H. cbn [p_ctx p_in p_out p_iv p_off p_sb] in H.
  destruct (run_ok 16 (aes_crypt (a_op c) (a_rk c)) 2%nat incr_aes s m (is_enc (a_op c))) as (R1 & R2 & _).
  destruct (run_ok 16 (cipher (a_rk c)) 2%nat incr_aes s m (is_enc (a_op c))) as (_ & _ & R3 & R4 & R5).
  assert (Hbad : forall x, mode_eqb x ModeBad = false) by (destruct x; reflexivity).
  destruct fn; rewrite ?Hbad, ?andb_false_r in H; cbn [andb] in H; try discriminate H;
    unfold aes_call, aes_ecb, aes_cbc, aes_cfb128, aes_ofb128, aes_ctr;
    cbn [block_mode stream_mode p_ctx p_in p_out p_iv p_off p_sb] in *;
    destruct pc, (mode_eqb (a_mode c) _), pi, po, pv, pf, ps, (len_ok 16 m), (off_ok 16 s); cbn in H; try discriminate H;
    rewrite ?Hop; cbn [first_err]; assumption.
Qed.

Theorem d_valid_accepted : forall blk o cm fn p s m,
  call_valid 8 fn cm p s m = true -> op_valid o = true -> r_err (d_call blk o cm fn p s m) = OK.
Proof.
  intros blk o cm fn p s m H Hop. destruct p as [pc pi po pv pf ps]. unfold call_valid in H. cbn [p_ctx p_in p_out p_iv p_off p_sb] in H.
  destruct (run_ok 8 blk 1%nat incr_des s m (is_enc o)) as (R1 & R2 & R3 & R4 & R5).
  assert (Hbad : forall x, mode_eqb x ModeBad = false) by (destruct x; reflexivity).
  destruct fn; rewrite ?Hbad, ?andb_false_r in H; cbn [andb] in H; try discriminate H;
    unfold d_call, d_ecb, d_cbc, d_cfb64, d_ofb64, d_ctr;
    cbn [block_mode stream_mode p_ctx p_in p_out p_iv p_off p_sb] in *;
    destruct pc, (mode_eqb cm _), pi, po, pv, pf, ps, (len_ok 8 m), (off_ok 8 s); cbn in H; try discriminate H;
    rewrite ?Hop; cbn [first_err]; assumption.
Qed.

(* ---------- ECB / CBC: a length that is not a block multiple is refused, nothing written ---------- *)
Theorem aes_ecb_cbc_reject_partial : forall fn p c s m, block_mode fn = true -> len_ok 16 m = false ->
  r_err (aes_call fn p c s m) <> OK /\ r_out (aes_call fn p c s m) = None /\ r_st (aes_call fn p c s m) = s.
Proof.
  intros fn p c s m Hb Hl.
  assert (Hr : r_err (aes_call fn p c s m) <> OK).
  { apply aes_invalid_rejected. unfold call_valid. rewrite Hb, Hl.
    destruct (p_ctx p), (mode_eqb (a_mode c) fn), (p_in p), (p_out p); reflexivity. }
  split; [exact Hr|]. apply aes_reject_writes_nothing. exact Hr.
Qed.
Theorem d_ecb_cbc_reject_partial : forall blk o cm fn p s m, block_mode fn = true -> len_ok 8 m = false ->
  r_err (d_call blk o cm fn p s m) <> OK /\ r_out (d_call blk o cm fn p s m) = None /\ r_st (d_call blk o cm fn p s m) = s.
Proof.
  intros blk o cm fn p s m Hb Hl.
  assert (Hr : r_err (d_call blk o cm fn p s m) <> OK).
  { apply d_invalid_rejected. unfold call_valid. rewrite Hb, Hl.
    destruct (p_ctx p), (mode_eqb cm fn), (p_in p), (p_out p); reflexivity. }
  split; [exact Hr|]. apply d_reject_writes_nothing. exact Hr.
Qed.

(* ---------- set_key rejects what it must ---------- *)
Theorem set_key_rejects : forall pk pc p2 p3 o fn bits key k2 k3,
  (op_valid o = false \/ mode_valid fn = false \/ pk = false \/ pc = false -> fst (aes_set_key pk pc o fn bits key) <> OK) /\
  (aes_params bits = None -> fst (aes_set_key pk pc o fn bits key) <> OK) /\
  (op_valid o = false \/ mode_valid fn = false \/ pk = false \/ pc = false -> fst (des_set_key pk pc o fn key) <> OK) /\
  (op_valid o = false \/ mode_valid fn = false \/ pk = false \/ p2 = false \/ p3 = false \/ pc = false ->
   fst (tdes_set_key pk p2 p3 pc o fn key k2 k3) <> OK).
Proof.
  intros. repeat split.
  - intros H. unfold aes_set_key. destruct o, fn, pk, pc; cbn [first_err op_valid mode_valid] in *;
      try (cbn; discriminate); destruct H as [H|[H|[H|H]]]; discriminate H.
  - intros H. unfold aes_set_key, aes_round_keys. rewrite H.
    destruct (first_err _); cbn; discriminate.
  - intros H. unfold des_set_key. destruct o, fn, pk, pc; cbn [first_err op_valid mode_valid] in *;
      try (cbn; discriminate); destruct H as [H|[H|[H|H]]]; discriminate H.
  - intros H. unfold tdes_set_key. destruct o, fn, pk, p2, p3, pc; cbn [first_err op_valid mode_valid is_enc] in *;
      try (cbn; discriminate); destruct H as [H|[H|[H|[H|[H|H]]]]]; discriminate H.
Qed.

(* ---------- non-vacuity: the hypotheses of the API theorems are met by concrete inputs ---------- *)
Definition ex_key : list N := [0x2b;0x7e;0x15;0x16;0x28;0xae;0xd2;0xa6;0xab;0xf7;0x15;0x88;0x09;0xcf;0x4f;0x3c].
Definition ex_st (bs : nat) : st := {| s_iv := map N.of_nat (seq 0 bs); s_off := 0; s_sb := repeat 0 bs |}.
Definition ex_msg (n : nat) : list N := map (fun i => N.of_nat (7 * i mod 256)) (seq 0 n).

Lemma bytes_dec : forall l, forallb (fun x => x <? 256) l = true -> bytes l.
Proof. intros l H. unfold bytes, byte. apply Forall_forall. intros x Hx. rewrite forallb_forall in H. apply N.ltb_lt, H, Hx. Qed.

Example aes_hyps_nonvacuous :
  (exists ce cd, aes_set_key true true OpEnc CBC 128 ex_key = (OK, Some ce) /\
                 aes_set_key true true OpDec CBC 128 ex_key = (OK, Some cd)) /\
  length ex_key = key_bytes 128 /\ bytes ex_key /\ st_ok 16 (ex_st 16) /\ msg_ok 16 CBC (ex_msg 48) /\ msg_ok 16 CTR (ex_msg 37).
Proof.
  split; [do 2 eexists; split; vm_compute; reflexivity|].
  repeat split; try (apply bytes_dec; vm_compute; reflexivity); try reflexivity; try discriminate.
Qed.
Example des_hyps_nonvacuous :
  (exists ce cd, des_set_key true true OpEnc CFB (firstn 8 ex_key) = (OK, Some ce) /\
                 des_set_key true true OpDec CFB (firstn 8 ex_key) = (OK, Some cd)) /\
  (exists ce cd, tdes_set_key true true true true OpEnc ECB (firstn 8 ex_key) (skipn 8 ex_key) (firstn 8 ex_key) = (OK, Some ce) /\
                 tdes_set_key true true true true OpDec ECB (firstn 8 ex_key) (skipn 8 ex_key) (firstn 8 ex_key) = (OK, Some cd)) /\
  st_ok 8 (ex_st 8) /\ msg_ok 8 CFB (ex_msg 13) /\ msg_ok 8 ECB (ex_msg 24).
Proof.
  split; [do 2 eexists; split; vm_compute; reflexivity|].
  split; [do 2 eexists; split; vm_compute; reflexivity|].
  repeat split; try (apply bytes_dec; vm_compute; reflexivity); try reflexivity; try discriminate.
Qed.
(* the rejection theorems are not vacuous either: a 17-byte ECB call and an offset of 16 *)
Example reject_nonvacuous : len_ok 16 (ex_msg 17) = false /\
  call_valid 16 CFB CFB all_ptrs {| s_iv := []; s_off := 16; s_sb := [] |} [] = false /\
  call_valid 8 CTR CTR all_ptrs (ex_st 8) (ex_msg 5) = true.
Proof. vm_compute. auto. Qed.

Theorem des_stream_any_partition_api : forall c fn s c0 chunks,
  stream_mode fn = true -> d_mode c = fn -> op_valid (d_op c) = true -> st_ok 8 s ->
  run_calls (des_call fn all_ptrs c) s (c0 :: chunks) = one_call (des_call fn all_ptrs c) s (concat (c0 :: chunks))
  /\ accepted (one_call (des_call fn all_ptrs c) s (concat (c0 :: chunks))).
Proof. intros c fn s c0 chunks H <- . exact (d_stream_any_partition (des_blk c) (d_op c) (d_mode c) s c0 chunks H). Qed.

Theorem tdes_stream_any_partition_api : forall c fn s c0 chunks,
  stream_mode fn = true -> t_mode c = fn -> op_valid (t_op c) = true -> st_ok 8 s ->
  run_calls (tdes_call fn all_ptrs c) s (c0 :: chunks) = one_call (tdes_call fn all_ptrs c) s (concat (c0 :: chunks))
  /\ accepted (one_call (tdes_call fn all_ptrs c) s (concat (c0 :: chunks))).
Proof. intros c fn s c0 chunks H <- . exact (d_stream_any_partition (tdes_blk c) (t_op c) (t_mode c) s c0 chunks H). Qed.
