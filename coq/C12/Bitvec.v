(* C12 — a small deep embedding of straight-line machine-word code (the C
   expressions of crypt/openssl/openssl_des.c and openssl_aes.c: ^ & | + << >>
   on uint32_t / uint64_t, constant masks, lookups in constant tables) with
   (1) its semantics on N, and (2) a symbolic evaluator over GF(2)-affine forms
   of the input bits, proved sound.  Bit permutations / selections coded with
   shifts, masks and xors (PERM_OP, rotates, window extraction, linear tables)
   are then decided by computation. *)
From Coq Require Import List NArith Bool Lia Arith PeanoNat.
Import ListNotations.
Local Open Scope N_scope.

Inductive exp :=
| Var (v : nat)
| Cst (c : N)
| Xor (a b : exp) | And (a b : exp) | Or (a b : exp)
| Add (w : nat) (a b : exp)            (* (a + b) mod 2^w *)
| Shl (w : nat) (a : exp) (k : nat)    (* (a << k) mod 2^w *)
| Shr (a : exp) (k : nat)
| Trunc (w : nat) (a : exp)            (* conversion to a w-bit unsigned type *)
| Tab (t : nat) (a : exp)              (* tables[t][a] *)
| Sub (w : nat) (a b : exp).           (* (a - b) mod 2^w, unsigned *)

Definition stmt := (nat * exp)%type.    (* variable := expression *)
Definition prog := list stmt.

Section Sem.
  Variable tabs : list (list N).

  Fixpoint eval (env : list N) (e : exp) : N :=
    match e with
    | Var v => nth v env 0
    | Cst c => c
    | Xor a b => N.lxor (eval env a) (eval env b)
    | And a b => N.land (eval env a) (eval env b)
    | Or a b => N.lor (eval env a) (eval env b)
    | Add w a b => N.land (eval env a + eval env b) (N.ones (N.of_nat w))
    | Shl w a k => N.land (N.shiftl (eval env a) (N.of_nat k)) (N.ones (N.of_nat w))
    | Shr a k => N.shiftr (eval env a) (N.of_nat k)
    | Trunc w a => N.land (eval env a) (N.ones (N.of_nat w))
    | Tab t a => nth (N.to_nat (eval env a)) (nth t tabs []) 0
    | Sub w a b => (eval env a + 2 ^ N.of_nat w - (eval env b) mod 2 ^ N.of_nat w) mod 2 ^ N.of_nat w
    end.

  Fixpoint set_nth {A : Type} (d : A) (i : nat) (x : A) (l : list A) : list A :=
    match i, l with
    | O, [] => [x]
    | O, _ :: r => x :: r
    | S j, [] => d :: set_nth d j x []
    | S j, a :: r => a :: set_nth d j x r
    end.

  Definition step (env : list N) (s : stmt) : list N := set_nth 0 (fst s) (eval env (snd s)) env.
  Definition run (env : list N) (p : prog) : list N := fold_left step p env.
End Sem.

Lemma nth_nil_d : forall (A : Type) (d : A) j, nth j [] d = d.
Proof. destruct j; reflexivity. Qed.

Lemma nth_set_nth : forall (A : Type) (d : A) i x l j,
  nth j (set_nth d i x l) d = if Nat.eqb j i then x else nth j l d.
Proof.
  induction i; intros x l j.
  - destruct l; destruct j; cbn [set_nth nth Nat.eqb]; try reflexivity. apply nth_nil_d.
  - destruct l; destruct j; cbn [set_nth nth Nat.eqb]; try reflexivity.
    + rewrite IHi, nth_nil_d. reflexivity.
    + apply IHi.
Qed.

(* words from bit lists (least significant bit first) *)
Fixpoint N_of_bits (l : list bool) : N :=
  match l with [] => 0 | b :: r => N.b2n b + 2 * N_of_bits r end.

Lemma testbit_N_of_bits : forall l i, N.testbit (N_of_bits l) (N.of_nat i) = nth i l false.
Proof.
  induction l as [|b l IH]; intros i; cbn [N_of_bits].
  - rewrite N.bits_0. destruct i; reflexivity.
  - rewrite N.add_comm. destruct i.
    + apply N.testbit_0_r.
    + rewrite Nat2N.inj_succ, N.testbit_succ_r. apply IH.
Qed.

Lemma N_of_bits_inj_bits : forall n l, (forall i, N.testbit n (N.of_nat i) = nth i l false) -> n = N_of_bits l.
Proof.
  intros n l H. apply N.bits_inj. intro j. rewrite <- (N2Nat.id j), H, testbit_N_of_bits. reflexivity.
Qed.


Lemma N_of_bits_pad : forall l n, N_of_bits (l ++ repeat false n) = N_of_bits l.
Proof.
  intros l n. apply N_of_bits_inj_bits. intro i. rewrite testbit_N_of_bits.
  destruct (Nat.ltb_spec i (length l)).
  - rewrite app_nth1 by lia. reflexivity.
  - rewrite app_nth2 by lia. rewrite (nth_overflow l) by lia.
    destruct (Nat.ltb_spec (i - length l) n); [apply nth_repeat|apply nth_overflow; rewrite repeat_length; lia].
Qed.

(* ===================================================================== *)
(* affine forms: constant xor (xor of the listed input bits) *)
Definition abit := (bool * list nat)%type.
Definition aword := list abit.           (* least significant bit first; absent bits are zero *)
Definition azero : abit := (false, []).

Fixpoint mem (i : nat) (s : list nat) : bool :=
  match s with [] => false | j :: r => Nat.eqb i j || mem i r end.
Fixpoint remove_one (i : nat) (s : list nat) : list nat :=
  match s with [] => [] | j :: r => if Nat.eqb i j then r else j :: remove_one i r end.
Definition toggle (i : nat) (s : list nat) : list nat := if mem i s then remove_one i s else i :: s.
Definition norm (s : list nat) : list nat := fold_right toggle [] s.

Definition axor (a b : abit) : abit := (xorb (fst a) (fst b), norm (snd a ++ snd b)).
Definition aand (a b : abit) : option abit :=
  match a, b with
  | (ca, []), _ => Some (if ca then b else azero)
  | _, (cb, []) => Some (if cb then a else azero)
  | _, _ => None
  end.
Definition aor (a b : abit) : option abit :=
  match a, b with
  | (false, []), _ => Some b
  | _, (false, []) => Some a
  | (true, []), _ => Some (true, [])
  | _, (true, []) => Some (true, [])
  | _, _ => None
  end.
Definition adisj (a b : abit) : option abit :=    (* a + b without carries: one side is zero *)
  match a, b with
  | (false, []), _ => Some b
  | _, (false, []) => Some a
  | _, _ => None
  end.

Fixpoint mapo (g : abit -> option abit) (l : aword) : option aword :=
  match l with
  | [] => Some []
  | y :: r => match g y, mapo g r with Some u, Some t => Some (u :: t) | _, _ => None end
  end.
Fixpoint zipo (f : abit -> abit -> option abit) (a b : aword) : option aword :=
  match a with
  | [] => mapo (f azero) b
  | x :: a' =>
    match b with
    | [] => match f x azero, zipo f a' [] with Some r, Some t => Some (r :: t) | _, _ => None end
    | y :: b' => match f x y, zipo f a' b' with Some r, Some t => Some (r :: t) | _, _ => None end
    end
  end.

Definition abits_of_const (c : N) : aword := map (fun i => (N.testbit c (N.of_nat i), [])) (seq 0 64).

Definition is_zero (a : abit) : bool := match a with (false, []) => true | _ => false end.

Fixpoint axor_list (l : list abit) : abit :=
  match l with [] => azero | a :: r => axor a (axor_list r) end.

Definition six : list nat := [0;1;2;3;4;5]%nat.
Definition pow2n (e : nat) : nat := Nat.pow 2 e.
(* a 64-entry table that is GF(2)-linear in its 6-bit index *)
Definition xors (l : list N) : N := fold_right N.lxor 0 l.
Definition lin_ok (tbl : list N) : bool :=
  Nat.eqb (length tbl) 64 && forallb (fun t => t <? 2 ^ 64) tbl &&
  forallb (fun v => nth v tbl 0 =?
                    xors (map (fun e => if N.testbit (N.of_nat v) (N.of_nat e) then nth (pow2n e) tbl 0 else 0) six))
          (seq 0 64).
Definition atab (tbl : list N) (idx : aword) : option aword :=
  if lin_ok tbl && forallb is_zero (skipn 6 idx) then
    Some (map (fun p => axor_list (map (fun e => if N.testbit (nth (pow2n e) tbl 0) (N.of_nat p)
                                                 then nth e idx azero else azero) six))
              (seq 0 64))
  else None.

(* a - b for the one idiom of the sources ("b -= b >> 7" with only the top bit of every byte set in b):
   in every byte lane a has at most bit 7, b at most bit 0, and b's bit 0 is a's bit 7; then
   a - b has that bit in positions 0..6 of the lane.  nl = number of byte lanes (4 or 8). *)
Fixpoint list_nat_eqb (a b : list nat) : bool :=
  match a, b with
  | [], [] => true
  | x :: a', y :: b' => Nat.eqb x y && list_nat_eqb a' b'
  | _, _ => false
  end.
Definition abit_eqb (a b : abit) : bool := Bool.eqb (fst a) (fst b) && list_nat_eqb (snd a) (snd b).
Definition top_pos (nl i : nat) : bool := Nat.ltb i (8 * nl) && Nat.eqb (i mod 8) 7.
Definition low_pos (nl i : nat) : bool := Nat.ltb i (8 * nl) && Nat.eqb (i mod 8) 0.
Definition asub_ok (nl : nat) (a b : aword) : bool :=
  Nat.leb (length a) 64 && Nat.leb (length b) 64 &&
  forallb (fun i => (if top_pos nl i then true else is_zero (nth i a azero)) &&
                    (if low_pos nl i then abit_eqb (nth i b azero) (nth (i + 7) a azero) else is_zero (nth i b azero)))
          (seq 0 64).
Definition asub_res (nl : nat) (a : aword) : aword :=
  map (fun i => if Nat.ltb i (8 * nl) && negb (Nat.eqb (i mod 8) 7) then nth (8 * (i / 8) + 7) a azero else azero) (seq 0 64).

Section ASem.
  Variable tabs : list (list N).

  Fixpoint aeval (aenv : list aword) (e : exp) : option aword :=
    match e with
    | Var v => Some (nth v aenv [])
    | Cst c => if c <? 2 ^ 64 then Some (abits_of_const c) else None
    | Xor a b => match aeval aenv a, aeval aenv b with
                 | Some x, Some y => zipo (fun p q => Some (axor p q)) x y | _, _ => None end
    | And a b => match aeval aenv a, aeval aenv b with Some x, Some y => zipo aand x y | _, _ => None end
    | Or a b => match aeval aenv a, aeval aenv b with Some x, Some y => zipo aor x y | _, _ => None end
    | Add w a b => match aeval aenv a, aeval aenv b with
                   | Some x, Some y => option_map (firstn w) (zipo adisj x y) | _, _ => None end
    | Shl w a k => option_map (fun x => firstn w (repeat azero k ++ x)) (aeval aenv a)
    | Shr a k => option_map (skipn k) (aeval aenv a)
    | Trunc w a => option_map (firstn w) (aeval aenv a)
    | Tab t a => match aeval aenv a with Some x => atab (nth t tabs []) x | None => None end
    | Sub w a b => match aeval aenv a, aeval aenv b with
                   | Some x, Some y =>
                     if (Nat.eqb w 32 || Nat.eqb w 64) && asub_ok (w / 8) x y then Some (asub_res (w / 8) x) else None
                   | _, _ => None end
    end.

  Definition astep (aenv : option (list aword)) (s : stmt) : option (list aword) :=
    match aenv with
    | Some ae => match aeval ae (snd s) with Some w => Some (set_nth [] (fst s) w ae) | None => None end
    | None => None
    end.
  Definition arun (aenv : list aword) (p : prog) : option (list aword) := fold_left astep p (Some aenv).
End ASem.

(* ---------- denotation and soundness ---------- *)
Section Sound.
  Variable x : nat -> bool.            (* the input bits *)

  Fixpoint den1 (s : list nat) : bool := match s with [] => false | i :: r => xorb (x i) (den1 r) end.
  Definition den (a : abit) : bool := xorb (fst a) (den1 (snd a)).

  Lemma den1_app : forall s t, den1 (s ++ t) = xorb (den1 s) (den1 t).
  Proof.
    induction s; intros t; cbn [app den1]; [symmetry; apply xorb_false_l|].
    rewrite IHs. symmetry. apply xorb_assoc.
  Qed.

  Lemma den1_remove_one : forall i s, mem i s = true -> den1 s = xorb (x i) (den1 (remove_one i s)).
  Proof.
    induction s as [|j r IH]; cbn; intros H; [discriminate|].
    destruct (Nat.eqb_spec i j) as [->|Hne]; [reflexivity|]. cbn in H. cbn.
    rewrite (IH H). rewrite <- !xorb_assoc. f_equal. apply xorb_comm.
  Qed.

  Lemma den1_toggle : forall i s, den1 (toggle i s) = xorb (x i) (den1 s).
  Proof.
    intros i s. unfold toggle. destruct (mem i s) eqn:E; [|reflexivity].
    rewrite (den1_remove_one i s E). rewrite <- xorb_assoc, xorb_nilpotent, xorb_false_l. reflexivity.
  Qed.

  Lemma den1_norm : forall s, den1 (norm s) = den1 s.
  Proof. induction s; cbn [norm fold_right den1]; [reflexivity|]. fold (norm s). rewrite den1_toggle, IHs. reflexivity. Qed.

  Lemma den_azero : den azero = false. Proof. reflexivity. Qed.

  Lemma den_axor : forall a b, den (axor a b) = xorb (den a) (den b).
  Proof.
    intros [ca sa] [cb sb]. unfold den, axor. cbn [fst snd]. rewrite den1_norm, den1_app.
    destruct ca, cb, (den1 sa), (den1 sb); reflexivity.
  Qed.

  Ltac den_tac :=
    unfold den, azero; cbn [fst snd den1];
    repeat match goal with |- context [x ?i] => destruct (x i) end;
    repeat match goal with |- context [den1 ?s] => destruct (den1 s) end;
    repeat match goal with c : bool |- _ => destruct c end; auto.

  Lemma den_aand : forall a b r, aand a b = Some r -> den r = den a && den b.
  Proof.
    intros [ca sa] [cb sb] r H. unfold aand in H.
    destruct sa as [|i sa].
    - injection H as <-. destruct ca; den_tac.
    - destruct sb as [|j sb]; [|discriminate]. injection H as <-. destruct cb; den_tac.
  Qed.

  Lemma den_aor : forall a b r, aor a b = Some r -> den r = den a || den b.
  Proof.
    intros [ca sa] [cb sb] r H. unfold aor in H.
    destruct ca, sa as [|i sa], cb, sb as [|j sb]; try discriminate; injection H as <-; den_tac.
  Qed.

  Lemma den_adisj : forall a b r, adisj a b = Some r -> den r = xorb (den a) (den b) /\ den a && den b = false.
  Proof.
    intros [ca sa] [cb sb] r H. unfold adisj in H.
    destruct ca, sa as [|i sa], cb, sb as [|j sb]; try discriminate; injection H as <-; den_tac.
  Qed.

  (* a word is related to an abstract word when every bit is the denotation of the abstract bit *)
  Definition rel (aw : aword) (n : N) : Prop :=
    forall i : nat, N.testbit n (N.of_nat i) = den (nth i aw azero).

  Lemma zipo_nth : forall f (P : bool -> bool -> bool -> Prop),
    (forall a b r, f a b = Some r -> P (den r) (den a) (den b)) -> P false false false ->
    forall a b r, zipo f a b = Some r -> forall i, P (den (nth i r azero)) (den (nth i a azero)) (den (nth i b azero)).
  Proof.
    intros f P Hf Hg. induction a as [|p a IH]; intros b r H i.
    - cbn [zipo] in H. revert r H i. induction b as [|q b IHb]; intros r H i; cbn [mapo] in H.
      + injection H as <-. rewrite !nth_nil_d. exact Hg.
      + destruct (f azero q) eqn:E1; [|discriminate]. destruct (mapo (f azero) b) eqn:E2; [|discriminate].
        injection H as <-. destruct i; cbn [nth].
        * apply (Hf _ _ _ E1).
        * specialize (IHb _ eq_refl i). rewrite nth_nil_d in *. exact IHb.
    - destruct b as [|q b]; cbn [zipo] in H.
      + destruct (f p azero) eqn:E1; [|discriminate]. destruct (zipo f a []) eqn:E2; [|discriminate].
        injection H as <-. destruct i; cbn [nth].
        * apply (Hf _ _ _ E1).
        * specialize (IH [] _ E2 i). rewrite nth_nil_d in *. exact IH.
      + destruct (f p q) eqn:E1; [|discriminate]. destruct (zipo f a b) eqn:E2; [|discriminate].
        injection H as <-. destruct i; cbn [nth].
        * apply (Hf _ _ _ E1).
        * apply (IH b _ E2 i).
  Qed.

  Lemma nth_firstn_a : forall w (l : aword) i, nth i (firstn w l) azero = if Nat.ltb i w then nth i l azero else azero.
  Proof.
    induction w; intros l i.
    - cbn [firstn]. rewrite nth_nil_d. reflexivity.
    - destruct l as [|a l].
      + cbn [firstn]. rewrite !nth_nil_d. destruct (Nat.ltb i (S w)); reflexivity.
      + destruct i; cbn [firstn nth]; [reflexivity|]. rewrite IHw. reflexivity.
  Qed.
  Lemma nth_skipn_a : forall k (l : aword) i, nth i (skipn k l) azero = nth (i + k) l azero.
  Proof.
    induction k; intros l i; [rewrite Nat.add_0_r; reflexivity|].
    destruct l; [destruct i; reflexivity|]. cbn [skipn]. rewrite IHk, Nat.add_succ_r. reflexivity.
  Qed.
  Lemma nth_shl_a : forall k (l : aword) i, nth i (repeat azero k ++ l) azero = if Nat.ltb i k then azero else nth (i - k) l azero.
  Proof.
    induction k; intros l i; [rewrite Nat.sub_0_r; reflexivity|].
    destruct i; cbn [repeat app nth]; [reflexivity|]. rewrite IHk. reflexivity.
  Qed.

  Lemma ones_testbit : forall w i, N.testbit (N.ones (N.of_nat w)) (N.of_nat i) = Nat.ltb i w.
  Proof.
    intros. destruct (Nat.ltb_spec i w).
    - apply N.ones_spec_low. lia.
    - apply N.ones_spec_high. lia.
  Qed.

  Lemma rel_const : forall c, c < 2 ^ 64 -> rel (abits_of_const c) c.
  Proof.
    intros c Hc i. unfold abits_of_const.
    destruct (Nat.ltb_spec i 64).
    - rewrite nth_indep with (d' := (fun i => (N.testbit c (N.of_nat i), @nil nat)) 0%nat) by (rewrite map_length, seq_length; lia).
      rewrite (map_nth (fun i => (N.testbit c (N.of_nat i), @nil nat)) (seq 0 64) 0%nat i), seq_nth by lia.
      unfold den. cbn. rewrite xorb_false_r. reflexivity.
    - rewrite nth_overflow by (rewrite map_length, seq_length; lia). rewrite den_azero.
      destruct (N.eq_dec c 0) as [->|Hz]; [apply N.bits_0|].
      apply N.bits_above_log2. apply N.log2_lt_pow2 in Hc; lia.
  Qed.

  Lemma den_axor_list : forall l, den (axor_list l) = fold_right (fun a acc => xorb (den a) acc) false l.
  Proof. induction l; cbn [axor_list fold_right]; [reflexivity|]. rewrite den_axor, IHl. reflexivity. Qed.

  Lemma xors_testbit : forall l i, N.testbit (xors l) i = fold_right (fun a acc => xorb (N.testbit a i) acc) false l.
  Proof. induction l; intros i; cbn [xors fold_right]; [apply N.bits_0|]. rewrite N.lxor_spec. fold (xors l). rewrite IHl. reflexivity. Qed.

  Lemma small_of_high_zero : forall v k, (forall i, (k <= i)%nat -> N.testbit v (N.of_nat i) = false) -> v < 2 ^ N.of_nat k.
  Proof.
    intros v k H. assert (E : v mod 2 ^ N.of_nat k = v).
    { apply N.bits_inj. intro j. destruct (N.lt_ge_cases j (N.of_nat k)).
      - apply N.mod_pow2_bits_low. assumption.
      - rewrite N.mod_pow2_bits_high by assumption. symmetry. rewrite <- (N2Nat.id j). apply H. lia. }
    rewrite <- E. apply N.mod_lt. apply N.pow_nonzero. discriminate.
  Qed.

  Lemma high_bits_zero : forall c p, c < 2 ^ 64 -> (64 <= p)%nat -> N.testbit c (N.of_nat p) = false.
  Proof.
    intros c p Hc Hp. destruct (N.eq_dec c 0) as [->|Hz]; [apply N.bits_0|].
    apply N.bits_above_log2. apply N.log2_lt_pow2 in Hc; lia.
  Qed.

  Lemma Some_inj : forall (A : Type) (a b : A), Some a = Some b -> a = b.
  Proof. intros A a b H. injection H. auto. Qed.

  Lemma rel_atab : forall tbl idx r v, atab tbl idx = Some r -> rel idx v -> rel r (nth (N.to_nat v) tbl 0).
  Proof.
    intros tbl idx r v H Hv. unfold atab in H.
    destruct (lin_ok tbl) eqn:Hlin; [|discriminate]. destruct (forallb is_zero (skipn 6 idx)) eqn:Hz; [|discriminate].
    lazy beta iota delta [andb] in H. apply Some_inj in H. subst r.
    unfold lin_ok in Hlin. apply andb_prop in Hlin. destruct Hlin as [Hlen Hlin].
    apply andb_prop in Hlen. destruct Hlen as [Hlen Hbnd]. apply Nat.eqb_eq in Hlen.
    assert (Hhigh : forall i, (6 <= i)%nat -> N.testbit v (N.of_nat i) = false).
    { intros i Hi. rewrite Hv. rewrite forallb_forall in Hz.
      destruct (Nat.ltb_spec i (length idx)).
      - assert (Hin : In (nth i idx azero) (skipn 6 idx)).
        { replace i with ((i - 6) + 6)%nat by lia. rewrite <- nth_skipn_a. apply nth_In. rewrite skipn_length. lia. }
        specialize (Hz _ Hin). destruct (nth i idx azero) as [[|] [|? ?]]; try discriminate. reflexivity.
      - rewrite nth_overflow by lia. reflexivity. }
    pose proof (small_of_high_zero v 6 Hhigh) as Hsmall. change (2 ^ N.of_nat 6) with 64 in Hsmall.
    intro p. destruct (Nat.ltb_spec p 64) as [Hp|Hp].
    - rewrite forallb_forall in Hlin.
      assert (Hin : In (N.to_nat v) (seq 0 64)) by (apply in_seq; lia).
      specialize (Hlin _ Hin). apply N.eqb_eq in Hlin. rewrite N2Nat.id in Hlin.
      rewrite Hlin. rewrite xors_testbit.
      set (F := fun p : nat => axor_list (map (fun e : nat => if N.testbit (nth (pow2n e) tbl 0) (N.of_nat p) then nth e idx azero else azero) six)).
      rewrite (nth_indep (map F (seq 0 64)) azero (F 0%nat)) by (rewrite map_length, seq_length; lia).
      rewrite (map_nth F (seq 0 64) 0%nat p), seq_nth by lia. cbn [Nat.add]. unfold F.
      rewrite den_axor_list. unfold six. cbn [map fold_right].
      rewrite !(Hv).
      repeat match goal with |- context [N.testbit (if ?c then ?a else 0) ?i] =>
        replace (N.testbit (if c then a else 0) i) with (c && N.testbit a i) by (destruct c; [reflexivity|rewrite N.bits_0; reflexivity]) end.
      repeat match goal with |- context [den (if ?c then ?a else azero)] =>
        replace (den (if c then a else azero)) with (c && den a) by (destruct c; reflexivity) end.
      repeat rewrite (andb_comm (den _)). reflexivity.
    - match goal with |- context [nth p (map ?f (seq 0 64)) azero] => rewrite (nth_overflow (map f (seq 0 64)) azero) by (rewrite map_length, seq_length; lia) end.
      rewrite den_azero.
      apply high_bits_zero; [|exact Hp].
      rewrite forallb_forall in Hbnd. apply N.ltb_lt. apply Hbnd. apply nth_In. lia.
  Qed.

  (* ---------- the subtraction idiom ---------- *)
  Definition patA (ds : list bool) : list bool := flat_map (fun d => [false;false;false;false;false;false;false;d]) ds.
  Definition patB (ds : list bool) : list bool := flat_map (fun d => [d;false;false;false;false;false;false;false]) ds.
  Definition patR (ds : list bool) : list bool := flat_map (fun d => [d;d;d;d;d;d;d;false]) ds.
  Lemma pat_arith : forall ds, (length ds = 4 \/ length ds = 8)%nat ->
    let w := N.of_nat (8 * length ds) in
    (N_of_bits (patA ds) + 2 ^ w - N_of_bits (patB ds) mod 2 ^ w) mod 2 ^ w = N_of_bits (patR ds).
  Proof.
    intros ds [H|H].
    - do 4 (destruct ds as [|? ds]; [discriminate H|]). destruct ds; [|discriminate H].
      repeat match goal with b : bool |- _ => destruct b end; vm_compute; reflexivity.
    - do 8 (destruct ds as [|? ds]; [discriminate H|]). destruct ds; [|discriminate H].
      repeat match goal with b : bool |- _ => destruct b end; vm_compute; reflexivity.
  Qed.

  Definition gA (nl : nat) (g : nat -> bool) : list bool := map (fun i => if top_pos nl i then g i else false) (seq 0 64).
  Definition gB (nl : nat) (g : nat -> bool) : list bool := map (fun i => if low_pos nl i then g (i + 7)%nat else false) (seq 0 64).
  Definition gR (nl : nat) (g : nat -> bool) : list bool :=
    map (fun i => if Nat.ltb i (8 * nl) && negb (Nat.eqb (i mod 8) 7) then g (8 * (i / 8) + 7)%nat else false) (seq 0 64).
  Definition tops (nl : nat) (g : nat -> bool) : list bool := map (fun k => g (8 * k + 7)%nat) (seq 0 nl).

  Lemma g_pats : forall nl g, (nl = 4 \/ nl = 8)%nat ->
    gA nl g = patA (tops nl g) ++ repeat false (64 - 8 * nl) /\
    gB nl g = patB (tops nl g) ++ repeat false (64 - 8 * nl) /\
    gR nl g = patR (tops nl g) ++ repeat false (64 - 8 * nl).
  Proof. intros nl g [-> | ->]; repeat split; vm_compute; reflexivity. Qed.

  Lemma g_arith : forall nl g, (nl = 4 \/ nl = 8)%nat ->
    let w := N.of_nat (8 * nl) in
    (N_of_bits (gA nl g) + 2 ^ w - N_of_bits (gB nl g) mod 2 ^ w) mod 2 ^ w = N_of_bits (gR nl g).
  Proof.
    intros nl g H. destruct (g_pats nl g H) as (EA & EB & ER). rewrite EA, EB, ER, !N_of_bits_pad.
    assert (Hl : length (tops nl g) = nl) by (unfold tops; rewrite map_length, seq_length; reflexivity).
    pose proof (pat_arith (tops nl g)) as P. rewrite Hl in P. apply P. destruct H; [left|right]; assumption.
  Qed.

  Lemma abit_eqb_eq : forall a b, abit_eqb a b = true -> a = b.
  Proof.
    intros [ca sa] [cb sb] H. unfold abit_eqb in H. cbn [fst snd] in H. apply andb_prop in H. destruct H as [H1 H2].
    apply Bool.eqb_prop in H1. subst cb. f_equal.
    revert sb H2. induction sa as [|i r IH]; destruct sb as [|j t]; cbn; intros H; try discriminate; auto.
    apply andb_prop in H. destruct H as [Ha Hb]. apply Nat.eqb_eq in Ha. subst. f_equal. auto.
  Qed.
  Lemma is_zero_den : forall a, is_zero a = true -> den a = false.
  Proof. intros [[|] [|? ?]] H; try discriminate. reflexivity. Qed.

  Lemma nth_map_seq64 : forall (f : nat -> bool) i, nth i (map f (seq 0 64)) false = if Nat.ltb i 64 then f i else false.
  Proof.
    intros f i. destruct (Nat.ltb_spec i 64).
    - rewrite nth_indep with (d' := f 0%nat) by (rewrite map_length, seq_length; lia).
      rewrite (map_nth f (seq 0 64) 0%nat i), seq_nth by lia. reflexivity.
    - apply nth_overflow. rewrite map_length, seq_length. lia.
  Qed.

  Lemma rel_asub : forall nl aw bw A B, (nl = 4 \/ nl = 8)%nat -> asub_ok nl aw bw = true -> rel aw A -> rel bw B ->
    rel (asub_res nl aw) ((A + 2 ^ N.of_nat (8 * nl) - B mod 2 ^ N.of_nat (8 * nl)) mod 2 ^ N.of_nat (8 * nl)).
  Proof.
    intros nl aw bw A B Hnl Hok HA HB. unfold asub_ok in Hok.
    apply andb_prop in Hok. destruct Hok as [Hok Hf]. apply andb_prop in Hok. destruct Hok as [La Lb].
    apply Nat.leb_le in La. apply Nat.leb_le in Lb. rewrite forallb_forall in Hf.
    set (g := fun i => den (nth i aw azero)).
    assert (EA : A = N_of_bits (gA nl g)).
    { apply N_of_bits_inj_bits. intro i. rewrite HA. unfold gA. rewrite nth_map_seq64.
      destruct (Nat.ltb_spec i 64) as [Hi|Hi].
      - specialize (Hf i ltac:(apply in_seq; lia)). apply andb_prop in Hf. destruct Hf as [Hf _].
        destruct (top_pos nl i); [reflexivity|]. apply is_zero_den. exact Hf.
      - rewrite nth_overflow by lia. reflexivity. }
    assert (EB : B = N_of_bits (gB nl g)).
    { apply N_of_bits_inj_bits. intro i. rewrite HB. unfold gB. rewrite nth_map_seq64.
      destruct (Nat.ltb_spec i 64) as [Hi|Hi].
      - specialize (Hf i ltac:(apply in_seq; lia)). apply andb_prop in Hf. destruct Hf as [_ Hf].
        destruct (low_pos nl i).
        + apply abit_eqb_eq in Hf. rewrite Hf. reflexivity.
        + apply is_zero_den. exact Hf.
      - rewrite nth_overflow by lia. reflexivity. }
    rewrite EA, EB, (g_arith nl g Hnl). intro i. rewrite testbit_N_of_bits. unfold gR, asub_res.
    rewrite nth_map_seq64. destruct (Nat.ltb_spec i 64) as [Hi|Hi].
    - set (F := fun i : nat => if Nat.ltb i (8 * nl) && negb (Nat.eqb (i mod 8) 7) then nth (8 * (i / 8) + 7) aw azero else azero).
      rewrite (nth_indep (map F (seq 0 64)) azero (F 0%nat)) by (rewrite map_length, seq_length; lia).
      rewrite (map_nth F (seq 0 64) 0%nat i), seq_nth by lia. cbn [Nat.add]. unfold F.
      destruct (Nat.ltb i (8 * nl) && negb (Nat.eqb (i mod 8) 7)); reflexivity.
    - rewrite nth_overflow by (rewrite map_length, seq_length; lia). reflexivity.
  Qed.

  (* ---------- expressions ---------- *)
  Variable tabs : list (list N).

  Definition rel_env (aenv : list aword) (env : list N) : Prop :=
    forall v, rel (nth v aenv []) (nth v env 0).

  Lemma rel_nil_zero : rel [] 0.
  Proof. intro i. rewrite N.bits_0, nth_nil_d. reflexivity. Qed.

  Theorem aeval_sound : forall aenv env e aw, rel_env aenv env -> aeval tabs aenv e = Some aw -> rel aw (eval tabs env e).
  Proof.
    intros aenv env e. induction e; intros aw Henv H; cbn [aeval eval] in *.
    - injection H as <-. apply Henv.
    - destruct (N.ltb_spec c (2 ^ 64)); [|discriminate]. injection H as <-. apply rel_const. assumption.
    - destruct (aeval tabs aenv e1) as [x1|]; [|discriminate]. destruct (aeval tabs aenv e2) as [x2|]; [|discriminate].
      intro i. rewrite N.lxor_spec, (IHe1 _ Henv eq_refl i), (IHe2 _ Henv eq_refl i).
      symmetry. apply (zipo_nth (fun p q => Some (axor p q)) (fun r a b => r = xorb a b)); [intros a b r E; injection E as <-; apply den_axor|reflexivity|exact H].
    - destruct (aeval tabs aenv e1) as [x1|]; [|discriminate]. destruct (aeval tabs aenv e2) as [x2|]; [|discriminate].
      intro i. rewrite N.land_spec, (IHe1 _ Henv eq_refl i), (IHe2 _ Henv eq_refl i).
      symmetry. apply (zipo_nth aand (fun r a b => r = a && b)); [exact den_aand|reflexivity|exact H].
    - destruct (aeval tabs aenv e1) as [x1|]; [|discriminate]. destruct (aeval tabs aenv e2) as [x2|]; [|discriminate].
      intro i. rewrite N.lor_spec, (IHe1 _ Henv eq_refl i), (IHe2 _ Henv eq_refl i).
      symmetry. apply (zipo_nth aor (fun r a b => r = a || b)); [exact den_aor|reflexivity|exact H].
    - destruct (aeval tabs aenv e1) as [x1|]; [|discriminate]. destruct (aeval tabs aenv e2) as [x2|]; [|discriminate].
      destruct (zipo adisj x1 x2) as [z|] eqn:Hz; [|discriminate]. cbn [option_map] in H. injection H as <-.
      specialize (IHe1 _ Henv eq_refl). specialize (IHe2 _ Henv eq_refl).
      assert (Hxd : forall i, den (nth i z azero) = xorb (den (nth i x1 azero)) (den (nth i x2 azero)) /\
                              den (nth i x1 azero) && den (nth i x2 azero) = false).
      { apply (zipo_nth adisj (fun r a b => r = xorb a b /\ a && b = false)); [exact den_adisj|split; reflexivity|exact Hz]. }
      assert (Hx : forall i, den (nth i z azero) = xorb (den (nth i x1 azero)) (den (nth i x2 azero))) by (intro i; apply Hxd).
      assert (Hd : forall i, den (nth i x1 azero) && den (nth i x2 azero) = false) by (intro i; apply Hxd).
      assert (Hland : N.land (eval tabs env e1) (eval tabs env e2) = 0).
      { apply N.bits_inj. intro j. rewrite N.land_spec, N.bits_0. rewrite <- (N2Nat.id j), IHe1, IHe2. apply Hd. }
      rewrite (N.add_nocarry_lxor _ _ Hland).
      intro i. rewrite N.land_spec, N.lxor_spec, ones_testbit, IHe1, IHe2, nth_firstn_a, <- Hx.
      destruct (Nat.ltb i w); [apply andb_true_r|apply andb_false_r].
    - destruct (aeval tabs aenv e) as [x1|]; [|discriminate]. cbn [option_map] in H. injection H as <-.
      specialize (IHe _ Henv eq_refl). intro i.
      rewrite N.land_spec, ones_testbit, nth_firstn_a, nth_shl_a.
      destruct (Nat.ltb_spec i w); [rewrite andb_true_r|rewrite andb_false_r; reflexivity].
      destruct (Nat.ltb_spec i k).
      + rewrite N.shiftl_spec_low by lia. reflexivity.
      + rewrite N.shiftl_spec_high by lia. replace (N.of_nat i - N.of_nat k) with (N.of_nat (i - k)) by lia. apply IHe.
    - destruct (aeval tabs aenv e) as [x1|]; [|discriminate]. cbn [option_map] in H. injection H as <-.
      specialize (IHe _ Henv eq_refl). intro i.
      rewrite N.shiftr_spec by lia. rewrite nth_skipn_a. replace (N.of_nat i + N.of_nat k) with (N.of_nat (i + k)) by lia. apply IHe.
    - destruct (aeval tabs aenv e) as [x1|]; [|discriminate]. cbn [option_map] in H. injection H as <-.
      specialize (IHe _ Henv eq_refl). intro i.
      rewrite N.land_spec, ones_testbit, nth_firstn_a, IHe.
      destruct (Nat.ltb i w); [apply andb_true_r|apply andb_false_r].
    - destruct (aeval tabs aenv e) as [x1|]; [|discriminate].
      apply (rel_atab _ _ _ _ H). apply IHe; [assumption|reflexivity].
    - destruct (aeval tabs aenv e1) as [x1|]; [|discriminate]. destruct (aeval tabs aenv e2) as [x2|]; [|discriminate].
      destruct ((Nat.eqb w 32 || Nat.eqb w 64) && asub_ok (w / 8) x1 x2) eqn:Hc; [|discriminate]. injection H as <-.
      apply andb_prop in Hc. destruct Hc as [Hw Hok]. apply orb_prop in Hw.
      specialize (IHe1 _ Henv eq_refl). specialize (IHe2 _ Henv eq_refl).
      destruct Hw as [Hw|Hw]; apply Nat.eqb_eq in Hw; subst w.
      + exact (rel_asub 4 x1 x2 _ _ (or_introl eq_refl) Hok IHe1 IHe2).
      + exact (rel_asub 8 x1 x2 _ _ (or_intror eq_refl) Hok IHe1 IHe2).
  Qed.

  Theorem arun_sound : forall p aenv env aenv', rel_env aenv env -> arun tabs aenv p = Some aenv' ->
    rel_env aenv' (run tabs env p).
  Proof.
    unfold arun, run. induction p as [|[v e] p IH]; intros aenv env aenv' Henv H; cbn [fold_left] in *.
    - injection H as <-. exact Henv.
    - cbn [astep fst snd] in H. destruct (aeval tabs aenv e) as [w|] eqn:E.
      + apply (IH _ _ _ ) with (2 := H). intro u. unfold step. cbn [fst snd].
        pose proof (nth_set_nth aword [] v w aenv u) as Q1.
        pose proof (nth_set_nth N 0 v (eval tabs env e) env u) as Q2.
        unfold aword in *. rewrite Q1, Q2.
        destruct (Nat.eqb u v); [apply (aeval_sound _ _ _ _ Henv E)|apply Henv].
      + exfalso. clear -H. induction p; cbn in H; [discriminate|auto].
  Qed.
End Sound.

(* ===================================================================== *)
(* interface: inputs given as bit lists (least significant bit first) *)
(* input bit s = bit (s mod 64) of input variable (s / 64) *)
Definition bitsrc (bl : list (list bool)) (s : nat) : bool := nth (s mod 64) (nth (s / 64) bl []) false.
Definition input_bits (v w : nat) : aword := map (fun j => (false, [64 * v + j]%nat)) (seq 0 w).
Definition init_aenv (ws : list nat) : list aword := map (fun v => input_bits v (nth v ws 0%nat)) (seq 0 (length ws)).

(* a readable form of the denotation: no trailing "xor false" *)
Section Nice.
  Variable x : nat -> bool.
  Fixpoint nice1 (s : list nat) : bool :=
    match s with [] => false | i :: r => match r with [] => x i | _ => xorb (x i) (nice1 r) end end.
  Definition nice (a : abit) : bool := if fst a then negb (nice1 (snd a)) else nice1 (snd a).
  Lemma nice1_den1 : forall s, nice1 s = den1 x s.
  Proof. induction s as [|i r IH]; [reflexivity|]. cbn [nice1 den1]. destruct r; [cbn; rewrite xorb_false_r; reflexivity|rewrite IH; reflexivity]. Qed.
  Lemma nice_den : forall a, nice a = den x a.
  Proof. intros [c s]. unfold nice, den. cbn [fst snd]. rewrite nice1_den1. destruct c, (den1 x s); reflexivity. Qed.
End Nice.

Lemma rel_inputs : forall bl, Forall (fun l => (length l <= 64)%nat) bl ->
  rel_env (bitsrc bl) (init_aenv (map (@length bool) bl)) (map N_of_bits bl).
Proof.
  intros bl Hlen v. unfold init_aenv. rewrite map_length.
  destruct (Nat.ltb_spec v (length bl)) as [Hv|Hv].
  - rewrite nth_indep with (d' := (fun v => input_bits v (nth v (map (@length bool) bl) 0%nat)) 0%nat) by (rewrite map_length, seq_length; lia).
    rewrite (map_nth (fun v => input_bits v (nth v (map (@length bool) bl) 0%nat)) (seq 0 (length bl)) 0%nat v), seq_nth by lia. cbn [Nat.add].
    rewrite nth_indep with (d' := N_of_bits []) by (rewrite map_length; lia). rewrite (map_nth N_of_bits bl [] v).
    rewrite nth_indep with (d' := length (@nil bool)) by (rewrite map_length; lia). rewrite (map_nth (@length bool) bl [] v).
    assert (Hl : (length (nth v bl []) <= 64)%nat).
    { rewrite Forall_forall in Hlen. apply Hlen. apply nth_In. exact Hv. }
    set (l := nth v bl []) in *. intro i. rewrite testbit_N_of_bits. unfold input_bits.
    destruct (Nat.ltb_spec i (length l)) as [Hi|Hi].
    + rewrite nth_indep with (d' := (fun j => (false, [64 * v + j]%nat)) 0%nat) by (rewrite map_length, seq_length; lia).
      rewrite (map_nth (fun j => (false, [(64 * v + j)%nat])) (seq 0 (length l)) 0%nat i), seq_nth by lia. cbn [Nat.add].
      unfold den. cbn [fst snd den1]. rewrite xorb_false_r, xorb_false_l. unfold bitsrc.
      replace ((64 * v + i) mod 64)%nat with i by (rewrite Nat.mul_comm, Nat.add_comm, Nat.mod_add by lia; symmetry; apply Nat.mod_small; lia).
      replace ((64 * v + i) / 64)%nat with v by (rewrite Nat.mul_comm, Nat.add_comm, Nat.div_add by lia; rewrite Nat.div_small by lia; reflexivity).
      reflexivity.
    + rewrite (nth_overflow l) by lia. rewrite nth_overflow by (rewrite map_length, seq_length; lia). reflexivity.
  - rewrite nth_overflow by (rewrite map_length, seq_length; lia).
    rewrite (nth_overflow (map N_of_bits bl)) by (rewrite map_length; lia). apply rel_nil_zero.
Qed.

(* the master lemma: a variable after running p on inputs given as bit lists *)
Theorem run_bits : forall tabs bl p ae v, Forall (fun l => (length l <= 64)%nat) bl ->
  arun tabs (init_aenv (map (@length bool) bl)) p = Some ae ->
  nth v (run tabs (map N_of_bits bl) p) 0 = N_of_bits (map (nice (bitsrc bl)) (nth v ae [])).
Proof.
  intros tabs bl p ae v Hlen H.
  pose proof (arun_sound (bitsrc bl) tabs p _ _ _ (rel_inputs bl Hlen) H v) as R.
  apply N_of_bits_inj_bits. intro i. rewrite R.
  destruct (Nat.ltb_spec i (length (nth v ae []))).
  - rewrite nth_indep with (d' := nice (bitsrc bl) azero) by (rewrite map_length; lia).
    rewrite (map_nth (nice (bitsrc bl)) (nth v ae []) azero i). symmetry. apply nice_den.
  - rewrite !nth_overflow by (rewrite ?map_length; lia). reflexivity.
Qed.

Corollary run_bits_ws : forall tabs ws bl p ae v, map (@length bool) bl = ws -> forallb (fun w => Nat.leb w 64) ws = true ->
  arun tabs (init_aenv ws) p = Some ae ->
  nth v (run tabs (map N_of_bits bl) p) 0 = N_of_bits (map (nice (bitsrc bl)) (nth v ae [])).
Proof.
  intros tabs ws bl p ae v <- Hle H. apply run_bits; [|exact H].
  apply Forall_forall. intros l Hl. rewrite forallb_forall in Hle.
  apply Nat.leb_le, Hle. apply in_map. exact Hl.
Qed.

