(* C12 — AES key expansion produces Nr+1 well-formed round keys, hence
   aes_dec_enc for every key of the announced size. *)
From Coq Require Import Lia Arith PeanoNat.
From MV Require Import C12.Modes C12.Proofs_Modes C12.Proofs_DES C12.Proofs_AES.
Local Open Scope N_scope.

Definition word4 (w : list N) : Prop := length w = 4%nat /\ bytes w.

Lemma words_of_wf : forall n key, length key = (4 * n)%nat -> bytes key ->
  Forall word4 (words_of n key) /\ length (words_of n key) = n.
Proof.
  induction n; intros key Hl Hb; cbn [words_of]; [split; [constructor|reflexivity]|].
  destruct (IHn (skipn 4 key)) as [H1 H2]; [rewrite skipn_length; lia|apply bytes_skipn; assumption|].
  split; [|cbn [length]; rewrite H2; reflexivity]. constructor; [|assumption].
  split; [rewrite firstn_length; lia|apply bytes_firstn; assumption].
Qed.

Lemma xtime_byte : forall b, byte b -> byte (xtime b).
Proof. intros b H. destruct (mul_bytes b H) as [H2 _]. exact H2. Qed.
Lemma iter_xtime_byte : forall n, byte (Nat.iter n xtime 1).
Proof. induction n; cbn [Nat.iter]; [reflexivity|]. apply xtime_byte. assumption. Qed.
Lemma rcon_word4 : forall j, word4 (rcon j).
Proof.
  intros. unfold rcon, word4, bytes. split; [reflexivity|].
  repeat constructor; try apply iter_xtime_byte; reflexivity.
Qed.
Lemma sub_word_word4 : forall w, word4 w -> word4 (sub_word w).
Proof.
  intros w [Hl Hb]. unfold sub_word. split; [rewrite map_length; assumption|].
  unfold bytes in *. apply Forall_forall. intros x Hx. apply in_map_iff in Hx. destruct Hx as (y & <- & Hy).
  apply sbox_byte. eapply Forall_forall in Hb; eauto.
Qed.
Lemma rot_word_word4 : forall w, word4 w -> word4 (rot_word w).
Proof.
  intros w [Hl Hb]. do 4 (destruct w as [|? w]; [discriminate Hl|]). destruct w; [|discriminate Hl].
  unfold bytes in *. inversion Hb as [|? ? ? Hb1]; subst. inversion Hb1 as [|? ? ? Hb2]; subst.
  inversion Hb2 as [|? ? ? Hb3]; subst. inversion Hb3; subst.
  split; [reflexivity|]. cbn. repeat constructor; assumption.
Qed.
Lemma xorl_word4 : forall a b, word4 a -> word4 b -> word4 (xorl a b).
Proof. intros a b [Hal Hab] [Hbl Hbb]. split; [rewrite xorl_length; congruence|apply xorl_bytes; assumption]. Qed.

Lemma nth_word4 : forall i (rw : list (list N)), (i < length rw)%nat -> Forall word4 rw -> word4 (nth i rw []).
Proof. intros i rw Hi H. eapply Forall_forall in H; [exact H|]. apply nth_In. exact Hi. Qed.

Lemma expand_wf : forall fuel nk i rw, (1 <= nk)%nat -> (nk <= length rw)%nat -> Forall word4 rw ->
  Forall word4 (expand fuel nk i rw) /\ length (expand fuel nk i rw) = (fuel + length rw)%nat.
Proof.
  induction fuel; intros nk i rw Hnk Hlen Hw; cbn [expand]; [split; [assumption|reflexivity]|].
  assert (Hhd : word4 (hd [] rw)).
  { destruct rw; [cbn in Hlen; lia|]. inversion Hw; assumption. }
  match goal with |- context [expand fuel nk (S i) (?w :: rw)] =>
    assert (Hnew : word4 w); [|destruct (IHfuel nk (S i) (w :: rw)) as [H1 H2];
      [assumption|cbn [length]; lia|constructor; assumption|]] end.
  - apply xorl_word4; [apply nth_word4; [lia|assumption]|].
    destruct (Nat.eqb (i mod nk) 0).
    + apply xorl_word4; [apply sub_word_word4, rot_word_word4; assumption|apply rcon_word4].
    + destruct (Nat.ltb 6 nk && Nat.eqb (i mod nk) 4)%bool; [apply sub_word_word4|]; assumption.
  - split; [assumption|]. rewrite H2. cbn [length]. lia.
Qed.

Lemma round_keys_of_wf : forall n w, length w = (4 * n)%nat -> Forall word4 w ->
  Forall (wfb 16) (round_keys_of n w) /\ length (round_keys_of n w) = n.
Proof.
  induction n; intros w Hl Hw; cbn [round_keys_of]; [split; [constructor|reflexivity]|].
  do 4 (destruct w as [|? w]; [cbn in Hl; lia|]).
  inversion Hw as [|? ? [L0 B0] Hw1]; subst. inversion Hw1 as [|? ? [L1 B1] Hw2]; subst.
  inversion Hw2 as [|? ? [L2 B2] Hw3]; subst. inversion Hw3 as [|? ? [L3 B3] Hw4]; subst.
  destruct (IHn w) as [H1 H2]; [cbn in Hl; lia|assumption|].
  cbn [firstn skipn concat]. split; [|cbn [length]; rewrite H2; reflexivity].
  constructor; [|assumption]. split.
  - rewrite !app_length. cbn [length]. lia.
  - repeat apply bytes_app; try assumption. constructor.
Qed.

Lemma round_keys_wf : forall key nk nr, (1 <= nk)%nat -> (nk <= 4 * (nr + 1))%nat ->
  length key = (4 * nk)%nat -> bytes key ->
  Forall (wfb 16) (round_keys key nk nr) /\ length (round_keys key nk nr) = (nr + 1)%nat.
Proof.
  intros key nk nr Hnk Hle Hl Hb. unfold round_keys, key_expansion.
  destruct (words_of_wf nk key Hl Hb) as [W1 W2].
  destruct (expand_wf (4 * (nr + 1) - nk) nk nk (rev (words_of nk key))) as [E1 E2];
    [assumption|rewrite rev_length; lia|apply Forall_rev; assumption|].
  apply round_keys_of_wf.
  - rewrite rev_length, E2, rev_length, W2. lia.
  - apply Forall_rev. assumption.
Qed.

(* key length in bytes announced by the key-size parameter *)
Definition key_bytes (bits : N) : nat := N.to_nat (bits / 8).

Theorem aes_round_keys_wf : forall bits key rk, aes_round_keys bits key = Some rk ->
  length key = key_bytes bits -> bytes key -> Forall (wfb 16) rk /\ (2 <= length rk)%nat.
Proof.
  intros bits key rk H Hl Hb. unfold aes_round_keys, aes_params in H.
  destruct (N.eqb_spec bits 128) as [->|]; [|destruct (N.eqb_spec bits 192) as [->|]; [|destruct (N.eqb_spec bits 256) as [->|]; [|discriminate]]];
    injection H as <-;
    match goal with |- context [round_keys key ?nk ?nr] =>
      destruct (round_keys_wf key nk nr) as [R1 R2]; [lia|lia|exact Hl|exact Hb|]; split; [exact R1|rewrite R2; lia] end.
Qed.

(* FIPS-197 InvCipher inverts Cipher for every key of a supported size and every block *)
Theorem aes_dec_enc_blk : forall bits key rk blk, aes_round_keys bits key = Some rk ->
  length key = key_bytes bits -> bytes key -> wfb 16 blk ->
  inv_cipher rk (cipher rk blk) = blk.
Proof.
  intros bits key rk blk H Hl Hb Hw. destruct (aes_round_keys_wf bits key rk H Hl Hb) as [R1 R2].
  apply inv_cipher_cipher; assumption.
Qed.

Theorem aes_cipher_wf : forall bits key rk blk, aes_round_keys bits key = Some rk ->
  length key = key_bytes bits -> bytes key -> wfb 16 blk -> wfb 16 (cipher rk blk).
Proof.
  intros bits key rk blk H Hl Hb Hw. destruct (aes_round_keys_wf bits key rk H Hl Hb) as [R1 R2].
  apply cipher_wf; assumption.
Qed.
