(* C12 — parameter validation of the set_key entry points.

   Part A (model): muggle_aes_set_key with the key size as the C int it is accepts EXACTLY 128, 192 and 256
   (for every bits in Z: negative, zero, other multiples of 8 / 32 such as 160 and 224, neighbours of the
   valid sizes, large values are all refused with MUGGLE_ERR_CRYPT_KEY_SIZE once the other arguments are
   valid); des / tdes set_key accept exactly valid op + mode + non-NULL pointers; a refused set_key yields no
   context, an accepted one the context with the stored op / mode and the schedule of the announced size.

   Part B (C text): the three functions as re-translated from the C text on this run
   (gen/Params_C12.v, lib/props/c12_slice.py) equal reference functions written in the vocabulary of the
   model, and through them the model itself.  The proofs do not depend on the SHAPE of the generated terms
   (if-chain, switch, hoisted locals, Nk computed from bits): everything is unfolded to comparisons over Z,
   every conditional is split, and lia decides each leaf under a time limit, so that a behaviour-preserving
   rewrite keeps the obligations and a change of the accepted set (e.g. "bits % 32 == 0 && 4 <= bits/32 <= 8")
   breaks them. *)
From Coq Require Import ZArith Lia ZifyBool List String.
From MV Require Import Lib.Leaf C12.Modes gen.Params_C12.
Import ListNotations.
Local Open Scope Z_scope.
Ltac Zify.zify_post_hook ::= Z.to_euclidean_division_equations.

(* ===================== Part A: the model ===================== *)

Definition aes_bits_valid (bits : Z) : bool :=
  match aes_rounds_of_bits bits with Some _ => true | None => false end.

Lemma aes_bits_valid_spec : forall bits, aes_bits_valid bits = true <-> (bits = 128 \/ bits = 192 \/ bits = 256).
Proof.
  intros bits. unfold aes_bits_valid, aes_rounds_of_bits.
  destruct (bits =? 128) eqn:E1; [split; [lia|reflexivity]|].
  destruct (bits =? 192) eqn:E2; [split; [lia|reflexivity]|].
  destruct (bits =? 256) eqn:E3; [split; [lia|reflexivity]|].
  split; [discriminate|lia].
Qed.

(* the int chain and the size table of the specification layer (Spec_AES.aes_params, on N) agree on every int:
   same accepted set, rounds = Nr, bits / 32 = Nk *)
Lemma aes_rounds_params : forall bits,
  match aes_rounds_of_bits bits, aes_params (Z.to_N bits) with
  | Some r, Some (nk, nr) => r = Z.of_nat nr /\ Z.quot bits 32 = Z.of_nat nk
  | None, None => True
  | _, _ => False
  end.
Proof.
  intros bits. unfold aes_rounds_of_bits, aes_params.
  destruct bits as [|p|p]; cbn [Z.to_N Z.eqb N.eqb]; try exact I.
  destruct (Pos.eqb p 128) eqn:E1; [apply Pos.eqb_eq in E1; subst p; split; reflexivity|].
  destruct (Pos.eqb p 192) eqn:E2; [apply Pos.eqb_eq in E2; subst p; split; reflexivity|].
  destruct (Pos.eqb p 256) eqn:E3; [apply Pos.eqb_eq in E3; subst p; split; reflexivity|].
  exact I.
Qed.

(* the int entry point is the N one on Z.to_N bits (which the API theorems of Proofs_API.v are about) *)
Theorem aes_set_key_int_eq : forall pk pc o m bits key,
  aes_set_key_int pk pc o m bits key = aes_set_key pk pc o m (Z.to_N bits) key.
Proof.
  intros pk pc o m bits key. unfold aes_set_key_int, aes_set_key.
  destruct (first_err _); try reflexivity.
  pose proof (aes_rounds_params bits) as H. unfold aes_round_keys.
  destruct (aes_rounds_of_bits bits), (aes_params (Z.to_N bits)) as [[nk nr]|]; try reflexivity; contradiction.
Qed.

(* the error code: the argument checks in the order of the C code, then the key size *)
Theorem aes_set_key_error_code : forall pk pc o m bits key,
  fst (aes_set_key_int pk pc o m bits key) =
  first_err [(op_valid o, E_INVALID); (mode_valid m, E_INVALID); (pk, E_NULL); (pc, E_NULL); (aes_bits_valid bits, E_KEYSIZE)].
Proof.
  intros pk pc o m bits key. unfold aes_set_key_int, aes_set_key, aes_bits_valid, aes_round_keys.
  pose proof (aes_rounds_params bits) as H.
  destruct (op_valid o), (mode_valid m), pk, pc; cbn [first_err]; try reflexivity.
  destruct (aes_rounds_of_bits bits), (aes_params (Z.to_N bits)) as [[nk nr]|]; try reflexivity; contradiction.
Qed.

Theorem aes_set_key_accepts_exactly : forall pk pc o m bits key,
  fst (aes_set_key_int pk pc o m bits key) = OK <->
  (op_valid o = true /\ mode_valid m = true /\ pk = true /\ pc = true /\ (bits = 128 \/ bits = 192 \/ bits = 256)).
Proof.
  intros pk pc o m bits key. rewrite aes_set_key_error_code, <- aes_bits_valid_spec.
  destruct (op_valid o), (mode_valid m), pk, pc, (aes_bits_valid bits); cbn [first_err];
    split; try discriminate; try tauto; intros (H1 & H2 & H3 & H4 & H5); discriminate.
Qed.

(* every other size is refused with the key-size error once the other arguments are valid *)
Theorem aes_set_key_rejects_other_sizes : forall o m bits key,
  op_valid o = true -> mode_valid m = true -> bits <> 128 -> bits <> 192 -> bits <> 256 ->
  aes_set_key_int true true o m bits key = (E_KEYSIZE, None).
Proof.
  intros o m bits key Ho Hm H1 H2 H3. unfold aes_set_key_int, aes_rounds_of_bits. rewrite Ho, Hm. cbn [first_err].
  destruct (bits =? 128) eqn:E1; [lia|]. destruct (bits =? 192) eqn:E2; [lia|]. destruct (bits =? 256) eqn:E3; [lia|].
  reflexivity.
Qed.

(* accepted: the context holds the stored op / mode and the round keys of that size; refused: no context *)
Theorem aes_set_key_context : forall pk pc o m bits key,
  match aes_set_key_int pk pc o m bits key with
  | (OK, Some c) => a_op c = o /\ a_mode c = m /\ aes_round_keys (Z.to_N bits) key = Some (a_rk c)
  | (OK, None) => False
  | (_, Some _) => False
  | (_, None) => True
  end.
Proof.
  intros pk pc o m bits key. rewrite aes_set_key_int_eq. unfold aes_set_key.
  destruct (first_err _); try exact I.
  destruct (aes_round_keys (Z.to_N bits) key); [cbv beta iota; cbn [a_op a_mode a_rk]; auto|exact I].
Qed.

Theorem des_set_key_accepts_exactly : forall pk pc o m key,
  fst (des_set_key pk pc o m key) = OK <-> (op_valid o = true /\ mode_valid m = true /\ pk = true /\ pc = true).
Proof.
  intros pk pc o m key. unfold des_set_key.
  destruct o, m, pk, pc; cbn; split; try discriminate; try tauto; intros (H1 & H2 & H3 & H4); discriminate.
Qed.

Theorem tdes_set_key_accepts_exactly : forall p1 p2 p3 pc o m k1 k2 k3,
  fst (tdes_set_key p1 p2 p3 pc o m k1 k2 k3) = OK <->
  (op_valid o = true /\ mode_valid m = true /\ p1 = true /\ p2 = true /\ p3 = true /\ pc = true).
Proof.
  intros p1 p2 p3 pc o m k1 k2 k3. unfold tdes_set_key.
  destruct o, m, p1, p2, p3, pc; cbn; split; try discriminate; try tauto;
    intros (H1 & H2 & H3 & H4 & H5 & H6); discriminate.
Qed.

(* which direction the single DES schedule of a context is generated for *)
Definition des_schedule_op (o : op) (m : mode) : op := match m with ECB | CBC => o | _ => OpEnc end.

Theorem des_tdes_set_key_context : forall pk p2 p3 pc o m key k2 k3,
  match des_set_key pk pc o m key with
  | (OK, Some c) => d_op c = o /\ d_mode c = m /\ d_ks c = des_gen_subkeys (des_schedule_op o m) key
  | (OK, None) => False
  | (_, Some _) => False
  | (_, None) => True
  end /\
  match tdes_set_key pk p2 p3 pc o m key k2 k3 with
  | (OK, Some c) => t_op c = o /\ t_mode c = m
  | (OK, None) => False
  | (_, Some _) => False
  | (_, None) => True
  end.
Proof.
  intros pk p2 p3 pc o m key k2 k3. unfold des_set_key, tdes_set_key. split.
  - destruct (first_err _); try exact I.
    destruct m; cbv beta iota; cbn [d_op d_mode d_ks des_schedule_op]; try exact I; repeat split; reflexivity.
  - destruct (first_err _); try exact I.
    destruct m; try exact I; try destruct (is_enc o); cbv beta iota; cbn [t_op t_mode]; try exact I; split; reflexivity.
Qed.

(* non-vacuity: 160 and 224 bits (Rijndael sizes FIPS-197 did not adopt), 0, -128 are refused; 192 is accepted *)
Example aes_set_key_sizes_example : forall key,
  fst (aes_set_key_int true true OpEnc CTR 160 key) = E_KEYSIZE /\ fst (aes_set_key_int true true OpDec ECB 224 key) = E_KEYSIZE /\
  fst (aes_set_key_int true true OpEnc CBC 0 key) = E_KEYSIZE /\ fst (aes_set_key_int true true OpEnc CBC (-128) key) = E_KEYSIZE /\
  fst (aes_set_key_int true true OpEnc OFB 192 key) = OK /\ fst (aes_set_key_int true false OpEnc OFB 160 key) = E_NULL.
Proof. intros key. repeat split; rewrite aes_set_key_error_code; reflexivity. Qed.

(* ===================== Part B: the C text ===================== *)

(* the C ints of op / mode as the model's constructors, through the enumeration values of this run *)
Definition int_op (x : Z) : op :=
  if x =? enum_MUGGLE_ENCRYPT then OpEnc else if x =? enum_MUGGLE_DECRYPT then OpDec else OpBad.
Definition int_mode (x : Z) : mode :=
  if x =? enum_MUGGLE_BLOCK_CIPHER_MODE_ECB then ECB
  else if x =? enum_MUGGLE_BLOCK_CIPHER_MODE_CBC then CBC
  else if x =? enum_MUGGLE_BLOCK_CIPHER_MODE_CFB then CFB
  else if x =? enum_MUGGLE_BLOCK_CIPHER_MODE_OFB then OFB
  else if x =? enum_MUGGLE_BLOCK_CIPHER_MODE_CTR then CTR
  else ModeBad.
Definition err_code (e : err) : Z :=
  match e with
  | OK => enum_MUGGLE_OK
  | E_NULL => enum_MUGGLE_ERR_NULL_PARAM
  | E_INVALID => enum_MUGGLE_ERR_INVALID_PARAM
  | E_KEYSIZE => enum_MUGGLE_ERR_CRYPT_KEY_SIZE
  end.

(* the enumeration is usable as a code: success is 0 and differs from every error, the constants of one
   enumeration are pairwise distinct (so int_op / int_mode hit every constructor) *)
Definition enums_ok : bool :=
  (enum_MUGGLE_OK =? 0) && negb (enum_MUGGLE_ERR_NULL_PARAM =? 0) && negb (enum_MUGGLE_ERR_INVALID_PARAM =? 0) &&
  negb (enum_MUGGLE_ERR_CRYPT_KEY_SIZE =? 0) && negb (enum_MUGGLE_ENCRYPT =? enum_MUGGLE_DECRYPT) &&
  (let ms := [enum_MUGGLE_BLOCK_CIPHER_MODE_ECB; enum_MUGGLE_BLOCK_CIPHER_MODE_CBC; enum_MUGGLE_BLOCK_CIPHER_MODE_CFB;
              enum_MUGGLE_BLOCK_CIPHER_MODE_OFB; enum_MUGGLE_BLOCK_CIPHER_MODE_CTR] in
   forallb (fun a => Nat.eqb (List.length (filter (fun b => a =? b) ms)) 1) ms).
Lemma enums_are_ok : enums_ok = true.
Proof. reflexivity. Qed.

Lemma err_code_ok : forall e, err_code e = 0 <-> e = OK.
Proof. intros e. destruct e; cbn; split; intros H; try reflexivity; try discriminate H. Qed.

(* result accessors; a path that makes no key-schedule call is compared on its return value only (what it leaves
   in the context is not part of the property: the context is unusable) *)
Definition ret3 (r : Z * Z * (Z * Z * Z * Z)) : Z := fst (fst r).
Definition ret4 (r : Z * Z * Z * (Z * Z * Z * Z)) : Z := fst (fst (fst r)).
Definition slot3 (r : Z * Z * (Z * Z * Z * Z)) : Z * Z * Z * Z := snd r.
Definition slot4 (r : Z * Z * Z * (Z * Z * Z * Z)) : Z * Z * Z * Z := snd r.
Definition fid (s : Z * Z * Z * Z) : Z := fst (fst (fst s)).
Definition arg1 (s : Z * Z * Z * Z) : Z := snd (fst (fst s)).
Definition arg2 (s : Z * Z * Z * Z) : Z := snd (fst s).
Definition lenient3 (r : Z * Z * (Z * Z * Z * Z)) : Z * Z * (Z * Z * Z * Z) :=
  if fid (slot3 r) =? 0 then (ret3 r, 0, (0, 0, 0, 0)) else r.
Definition lenient4 (r : Z * Z * Z * (Z * Z * Z * Z)) : Z * Z * Z * (Z * Z * Z * Z) :=
  if fid (slot4 r) =? 0 then (ret4 r, 0, 0, (0, 0, 0, 0)) else r.

(* muggle_openssl_aes_set_key(key, bits, sk): 0, sk->rounds = Nr and ONE call openssl_key_expansion(key, rd_key, Nr, Nk)
   for the three sizes; MUGGLE_ERR_CRYPT_KEY_SIZE and no call for every other int *)
Definition ref_openssl_aes_set_key (f_rounds nn_key nn_sk bits ores : Z) : Z * Z * (Z * Z * Z * Z) :=
  match aes_rounds_of_bits bits with
  | Some r => (0, r, (1, r, Z.quot bits 32, 0))
  | None => (err_code E_KEYSIZE, f_rounds, (0, 0, 0, 0))
  end.

(* muggle_aes_set_key(op, mode, key, bits, ctx): the check chain of the model, then ctx->op / ctx->mode stored and ONE
   call muggle_openssl_aes_set_key(key, bits, &ctx->sk) with the caller's bits unchanged, whose result is returned *)
Definition ref_aes_set_key (f_mode f_op nn_key nn_ctx op mode bits ores : Z) : Z * Z * Z * (Z * Z * Z * Z) :=
  match first_err [(op_valid (int_op op), E_INVALID); (mode_valid (int_mode mode), E_INVALID);
                   (negb (nn_key =? 0), E_NULL); (negb (nn_ctx =? 0), E_NULL)] with
  | OK => (ores, mode, op, (1, bits, 0, 0))
  | e => (err_code e, f_mode, f_op, (0, 0, 0, 0))
  end.

(* muggle_des_set_key(op, mode, key, ctx): the check chain, ctx->op / ctx->mode stored, ONE key-schedule call in the
   direction op (ECB / CBC) or MUGGLE_ENCRYPT (CFB / OFB / CTR) whose result is returned; any other mode refused *)
Definition ref_des_set_key (f_mode f_op nn_key nn_ctx op mode ores : Z) : Z * Z * Z * (Z * Z * Z * Z) :=
  match first_err [(op_valid (int_op op), E_INVALID); (negb (nn_key =? 0), E_NULL); (negb (nn_ctx =? 0), E_NULL)] with
  | OK => match int_mode mode with
          | ECB | CBC => (ores, mode, op, (1, op, 0, 0))
          | CFB | OFB | CTR => (ores, mode, op, (1, enum_MUGGLE_ENCRYPT, 0, 0))
          | ModeBad => (err_code E_INVALID, mode, op, (0, 0, 0, 0))
          end
  | e => (err_code e, f_mode, f_op, (0, 0, 0, 0))
  end.

Lemma pair_eq : forall (A B : Type) (a a' : A) (b b' : B), a = a' -> b = b' -> (a, b) = (a', b').
Proof. intros; subst; reflexivity. Qed.

(* split every conditional whose condition is itself free of conditionals (innermost first, so that each recorded
   equation is a comparison over Z that lia understands), pruning impossible branches at once; then decide the leaves *)
Ltac setkey_norm :=
  cbv beta iota zeta delta [fst snd ret3 ret4 slot3 slot4 fid arg1 arg2 lenient3 lenient4
    first_err op_valid mode_valid err_code
    enum_MUGGLE_OK enum_MUGGLE_ERR_NULL_PARAM enum_MUGGLE_ERR_INVALID_PARAM enum_MUGGLE_ERR_CRYPT_KEY_SIZE
    enum_MUGGLE_DECRYPT enum_MUGGLE_ENCRYPT enum_MUGGLE_BLOCK_CIPHER_MODE_ECB enum_MUGGLE_BLOCK_CIPHER_MODE_CBC
    enum_MUGGLE_BLOCK_CIPHER_MODE_CFB enum_MUGGLE_BLOCK_CIPHER_MODE_OFB enum_MUGGLE_BLOCK_CIPHER_MODE_CTR
    enum_MAX_MUGGLE_BLOCK_CIPHER_MODE].
(* masks 2^k - 1 and shifts by constants as arithmetic, so that `bits & 31`, `bits >> 5`, `nk << 5` in a rewritten
   text stay inside what lia decides (Z.land / Z.shiftr on Z are the two's-complement operations of C on int) *)
Lemma land_mask_mod : forall x k, 0 <= k -> Z.land x (2 ^ k - 1) = x mod 2 ^ k.
Proof. intros x k Hk. rewrite <- Z.land_ones by exact Hk. rewrite Z.ones_equiv. reflexivity. Qed.
Ltac bitops_to_arith :=
  repeat match goal with
  | |- context [Z.land ?x ?m] =>
    let k := eval cbv in (Z.log2 (m + 1)) in
    let p := eval cbv in (2 ^ k) in
    let q := eval cbv in (m + 1) in
    constr_eq p q;
    replace (Z.land x m) with (x mod p) by (change m with (2 ^ k - 1); change p with (2 ^ k); symmetry; apply land_mask_mod; discriminate)
  | |- context [Z.land ?m ?x] =>
    let k := eval cbv in (Z.log2 (m + 1)) in
    let p := eval cbv in (2 ^ k) in
    let q := eval cbv in (m + 1) in
    constr_eq p q;
    replace (Z.land m x) with (x mod p) by (rewrite Z.land_comm; change m with (2 ^ k - 1); change p with (2 ^ k); symmetry; apply land_mask_mod; discriminate)
  | |- context [Z.shiftr ?x ?n] =>
    let p := eval cbv in (2 ^ n) in
    replace (Z.shiftr x n) with (x / p) by (change p with (2 ^ n); symmetry; apply Z.shiftr_div_pow2; discriminate)
  | |- context [Z.shiftl ?x ?n] =>
    let p := eval cbv in (2 ^ n) in
    replace (Z.shiftl x n) with (x * p) by (change p with (2 ^ n); symmetry; apply Z.shiftl_mul_pow2; discriminate)
  | |- context [2 ^ ?k] =>
    let v := eval cbv in (2 ^ k) in change (2 ^ k) with v
  end.
Ltac setkey_decide :=
  bitops_to_arith;
  repeat (setkey_norm;
          match goal with
          | |- context [if ?c then _ else _] =>
            lazymatch c with
            | context [if _ then _ else _] => fail
            | _ => destruct c eqn:?
            end
          end; try (exfalso; timeout 20 lia));
  setkey_norm;
  first [ reflexivity | repeat (apply pair_eq); timeout 20 lia ].

Ltac setkey_unfold :=
  unfold ref_openssl_aes_set_key, ref_aes_set_key, ref_des_set_key, aes_rounds_of_bits, int_op, int_mode,
         enum_MUGGLE_OK, enum_MUGGLE_ERR_NULL_PARAM, enum_MUGGLE_ERR_INVALID_PARAM, enum_MUGGLE_ERR_CRYPT_KEY_SIZE,
         enum_MUGGLE_DECRYPT, enum_MUGGLE_ENCRYPT, enum_MUGGLE_BLOCK_CIPHER_MODE_ECB, enum_MUGGLE_BLOCK_CIPHER_MODE_CBC,
         enum_MUGGLE_BLOCK_CIPHER_MODE_CFB, enum_MUGGLE_BLOCK_CIPHER_MODE_OFB, enum_MUGGLE_BLOCK_CIPHER_MODE_CTR,
         enum_MAX_MUGGLE_BLOCK_CIPHER_MODE, cdiv, crem, b2z, z2b, wrapu in *.

(* the decision procedure on rewritten forms of the key-size test (what a harmless rewrite may look like), and its
   refusal of the Nk-in-4..8 form *)
Example keysize_test_forms : forall bits,
  (negb (Z.land bits 63 =? 0) || (bits <? 128) || (bits >? 256)) = negb (aes_bits_valid bits) /\
  (((Z.shiftr bits 6) * 64 =? bits) && (2 <=? Z.shiftr bits 6) && (Z.shiftr bits 6 <=? 4)) = aes_bits_valid bits /\
  ((if (Z.rem bits 64 =? 0) && (128 <=? bits) && (bits <=? 256) then Z.quot bits 32 + 6 else 0) =
   match aes_rounds_of_bits bits with Some r => r | None => 0 end) /\
  (* a narrowing cast that cannot matter: the low byte of bits - 128 is 0 and bits is between 128 and 383 *)
  ((wrapu 8 (bits - 128) =? 0) && (128 <=? bits) && (bits <? 384) = (bits =? 128) || (bits =? 384 - 256 * 1 + 0 * bits)).
Proof.
  intros bits. unfold aes_bits_valid, aes_rounds_of_bits, wrapu. repeat split; setkey_decide.
Qed.
Example keysize_nk_form_differs : exists bits,
  (negb (Z.rem bits 32 =? 0) || (Z.quot bits 32 <? 4) || (Z.quot bits 32 >? 8)) <> negb (aes_bits_valid bits).
Proof. exists 160. discriminate. Qed.

Lemma gen_openssl_aes_set_key_eq : forall f_rounds nn_key nn_sk bits ores,
  lenient3 (gen_muggle_openssl_aes_set_key f_rounds nn_key nn_sk bits ores) =
  lenient3 (ref_openssl_aes_set_key f_rounds nn_key nn_sk bits ores).
Proof. intros. unfold gen_muggle_openssl_aes_set_key. setkey_unfold. setkey_decide. Qed.

Lemma gen_aes_set_key_eq : forall f_mode f_op nn_key nn_ctx op mode bits ores,
  lenient4 (gen_muggle_aes_set_key f_mode f_op nn_key nn_ctx op mode bits ores) =
  lenient4 (ref_aes_set_key f_mode f_op nn_key nn_ctx op mode bits ores).
Proof. intros. unfold gen_muggle_aes_set_key. setkey_unfold. setkey_decide. Qed.

Lemma gen_des_set_key_eq : forall f_mode f_op nn_key nn_ctx op mode ores,
  lenient4 (gen_muggle_des_set_key f_mode f_op nn_key nn_ctx op mode ores) =
  lenient4 (ref_des_set_key f_mode f_op nn_key nn_ctx op mode ores).
Proof. intros. unfold gen_muggle_des_set_key. setkey_unfold. setkey_decide. Qed.

(* the key schedule calls receive the caller's key and the schedule area of the caller's context *)
Lemma set_key_ptrargs_ok :
  gen_muggle_openssl_aes_set_key_ptrargs = ["openssl_key_expansion($1,$3->rd_key)"%string] /\
  gen_muggle_aes_set_key_ptrargs = ["muggle_openssl_aes_set_key($3,$5->sk)"%string] /\
  gen_muggle_des_set_key_ptrargs = ["muggle_des_set_key_inner($3,$4->sk)"%string].
Proof. repeat split; reflexivity. Qed.

Lemma lenient3_ret : forall r r', lenient3 r = lenient3 r' ->
  ret3 r = ret3 r' /\ fid (slot3 r) = fid (slot3 r') /\ (fid (slot3 r') <> 0 -> slot3 r = slot3 r').
Proof.
  intros [[a b] [[[c d] e] f]] [[a' b'] [[[c' d'] e'] f']]. unfold lenient3, ret3, slot3, fid. cbn [fst snd].
  destruct (c =? 0) eqn:E, (c' =? 0) eqn:E'; intros H; inversion H; subst; repeat split; try lia; try reflexivity; intros X; lia.
Qed.
Lemma lenient4_ret : forall r r', lenient4 r = lenient4 r' ->
  ret4 r = ret4 r' /\ fid (slot4 r) = fid (slot4 r') /\ (fid (slot4 r') <> 0 -> slot4 r = slot4 r').
Proof.
  intros [[[a b] b2] [[[c d] e] f]] [[[a' b'] b2'] [[[c' d'] e'] f']]. unfold lenient4, ret4, slot4, fid. cbn [fst snd].
  destruct (c =? 0) eqn:E, (c' =? 0) eqn:E'; intros H; inversion H; subst; repeat split; try lia; try reflexivity; intros X; lia.
Qed.

(* ---- the C text of muggle_openssl_aes_set_key against the model: for EVERY int bits the function returns 0 exactly
   for 128 / 192 / 256 (the error code of the model otherwise), and when it returns 0 it has made one key-expansion
   call with (Nr, Nk) of the specification's size table ---- *)
Theorem openssl_aes_set_key_text_accepts_exactly : forall f_rounds nn_key nn_sk bits ores,
  let r := gen_muggle_openssl_aes_set_key f_rounds nn_key nn_sk bits ores in
  (ret3 r = 0 <-> (bits = 128 \/ bits = 192 \/ bits = 256)) /\
  (ret3 r <> 0 -> ret3 r = err_code E_KEYSIZE /\ fid (slot3 r) = 0) /\
  (ret3 r = 0 -> fid (slot3 r) = 1 /\
     aes_params (Z.to_N bits) = Some (Z.to_nat (arg2 (slot3 r)), Z.to_nat (arg1 (slot3 r)))).
Proof.
  intros f_rounds nn_key nn_sk bits ores r.
  pose proof (gen_openssl_aes_set_key_eq f_rounds nn_key nn_sk bits ores) as H. fold r in H.
  apply lenient3_ret in H. destruct H as (H1 & H2 & H3).
  pose proof (aes_rounds_params bits) as P. pose proof (aes_bits_valid_spec bits) as V.
  unfold aes_bits_valid in V. unfold ref_openssl_aes_set_key in H1, H2, H3.
  assert (Hne : err_code E_KEYSIZE <> 0) by (intros X; apply err_code_ok in X; discriminate X).
  destruct (aes_rounds_of_bits bits) as [nr|] eqn:E.
  - destruct (aes_params (Z.to_N bits)) as [[nk' nr']|]; [|contradiction]. destruct P as [P1 P2].
    unfold ret3 in H1 at 2. unfold slot3 in H2 at 2. unfold slot3 in H3 at 1 3. unfold fid in H2 at 2. unfold fid in H3 at 1.
    cbn [fst snd] in H1, H2, H3.
    assert (H4 : slot3 r = (1, nr, Z.quot bits 32, 0)) by (apply H3; discriminate).
    rewrite H1, H2, H4. unfold arg1, arg2. cbn [fst snd].
    split; [split; [intros _; apply V; reflexivity|reflexivity]|].
    split; [intros X; exfalso; apply X; reflexivity|].
    intros _. split; [reflexivity|]. rewrite P1, P2, !Nat2Z.id. reflexivity.
  - destruct (aes_params (Z.to_N bits)) as [[nk' nr']|]; [contradiction|].
    unfold ret3 in H1 at 2. unfold slot3 in H2 at 2. unfold fid in H2 at 2. cbn [fst snd] in H1, H2.
    rewrite H1, H2.
    split; [split; [intros X; exfalso; auto|intros X; apply V in X; discriminate X]|].
    split; [intros _; split; reflexivity|]. intros X; exfalso; auto.
Qed.

(* ---- muggle_aes_set_key + muggle_openssl_aes_set_key as one function of the caller's arguments: the return value
   of the C text is the error code of the model (aes_set_key_int) for every int op, mode, bits and every
   NULL / non-NULL combination of key and ctx; the call, when made, passes the caller's bits, and whether it is made
   does not depend on its result ---- *)
Theorem aes_set_key_text_equals_model : forall f_mode f_op f_rounds nn_key nn_ctx op mode bits key,
  let outer ores := gen_muggle_aes_set_key f_mode f_op nn_key nn_ctx op mode bits ores in
  (forall ores, fid (slot4 (outer ores)) = 0 \/ (fid (slot4 (outer ores)) = 1 /\ arg1 (slot4 (outer ores)) = bits)) /\
  (forall ores ores', fid (slot4 (outer ores)) = fid (slot4 (outer ores'))) /\
  forall nn_sk ores_inner,
  let inner := gen_muggle_openssl_aes_set_key f_rounds nn_key nn_sk bits ores_inner in
  ret4 (outer (ret3 inner)) =
  err_code (fst (aes_set_key_int (negb (nn_key =? 0)) (negb (nn_ctx =? 0)) (int_op op) (int_mode mode) bits key)).
Proof.
  intros f_mode f_op f_rounds nn_key nn_ctx op mode bits key outer.
  assert (HO : forall ores, let rf := ref_aes_set_key f_mode f_op nn_key nn_ctx op mode bits ores in
             ret4 (outer ores) = ret4 rf /\ fid (slot4 (outer ores)) = fid (slot4 rf) /\
             (fid (slot4 rf) <> 0 -> slot4 (outer ores) = slot4 rf)).
  { intros ores rf. apply lenient4_ret. apply gen_aes_set_key_eq. }
  assert (RF : forall ores, let rf := ref_aes_set_key f_mode f_op nn_key nn_ctx op mode bits ores in
             (fid (slot4 rf) = 0 \/ (fid (slot4 rf) = 1 /\ arg1 (slot4 rf) = bits)) /\
             forall ores', fid (slot4 rf) = fid (slot4 (ref_aes_set_key f_mode f_op nn_key nn_ctx op mode bits ores'))).
  { intros ores rf. unfold rf, ref_aes_set_key. destruct (first_err _); cbn [slot4 fid arg1 fst snd]; auto. }
  split; [|split].
  - intros ores. destruct (HO ores) as (_ & H2 & H3). destruct (RF ores) as [[R|[R R']] _].
    + left. rewrite H2. exact R.
    + right. rewrite H2, H3 by (rewrite R; discriminate). auto.
  - intros ores ores'. destruct (HO ores) as (_ & H2 & _). destruct (HO ores') as (_ & H2' & _). rewrite H2, H2'.
    apply (RF ores).
  - intros nn_sk ores_inner inner. destruct (HO (ret3 inner)) as (H1 & _ & _). rewrite H1.
    destruct (openssl_aes_set_key_text_accepts_exactly f_rounds nn_key nn_sk bits ores_inner) as (I1 & I2 & _). fold inner in I1, I2.
    rewrite aes_set_key_error_code. unfold ref_aes_set_key.
    pose proof (aes_bits_valid_spec bits) as V.
    destruct (op_valid (int_op op)), (mode_valid (int_mode mode)), (negb (nn_key =? 0)), (negb (nn_ctx =? 0));
      cbn [first_err ret4 fst snd]; try reflexivity.
    destruct (aes_bits_valid bits).
    + apply I1, V. reflexivity.
    + apply I2. intros X. apply I1, V in X. discriminate X.
Qed.

(* ---- muggle_des_set_key: the C text returns the model's error code when the model refuses, otherwise the result of
   its single key-schedule call, made in the direction the model generates the schedule for ---- *)
Theorem des_set_key_text_equals_model : forall f_mode f_op nn_key nn_ctx op mode ores key,
  let r := gen_muggle_des_set_key f_mode f_op nn_key nn_ctx op mode ores in
  let m := des_set_key (negb (nn_key =? 0)) (negb (nn_ctx =? 0)) (int_op op) (int_mode mode) key in
  (fst m <> OK -> ret4 r = err_code (fst m) /\ fid (slot4 r) = 0) /\
  (fst m = OK -> ret4 r = ores /\ fid (slot4 r) = 1 /\
     int_op (arg1 (slot4 r)) = des_schedule_op (int_op op) (int_mode mode)).
Proof.
  intros f_mode f_op nn_key nn_ctx op mode ores key r m.
  pose proof (gen_des_set_key_eq f_mode f_op nn_key nn_ctx op mode ores) as H. fold r in H. apply lenient4_ret in H.
  destruct H as (H1 & H2 & H3).
  assert (E : int_op enum_MUGGLE_ENCRYPT = OpEnc) by reflexivity.
  assert (O : forall o, op_valid o = true -> o = OpEnc \/ o = OpDec) by (intros [| |]; cbn; auto; discriminate).
  unfold m, des_set_key. unfold ref_des_set_key in H1, H2, H3. cbn [first_err] in *.
  destruct (op_valid (int_op op)) eqn:OV, (negb (nn_key =? 0)), (negb (nn_ctx =? 0));
    cbn [fst snd ret4 slot4 fid] in *;
    try (split; [intros _; split; assumption|intros X; discriminate X]).
  destruct (int_mode mode); cbn [fst snd ret4 slot4 fid arg1 des_schedule_op] in *;
    try (split; [intros X; exfalso; apply X; reflexivity|intros _]);
    try (split; [intros _; split; assumption|intros X; discriminate X]);
    (split; [assumption|split; [assumption|]]); rewrite H3 by (cbn; discriminate); cbn [arg1 fst snd]; auto.
Qed.

(* non-vacuity of the text theorems: the generated functions on concrete arguments (160 bits refused with the
   key-size code and no expansion call; 256 bits: 14 rounds, Nk = 8; NULL ctx refused before the size is looked at) *)
Example set_key_text_examples :
  ret3 (gen_muggle_openssl_aes_set_key 7 1 1 160 0) = err_code E_KEYSIZE /\
  gen_muggle_openssl_aes_set_key 7 1 1 256 0 = (0, 14, (1, 14, 8, 0)) /\
  ret4 (gen_muggle_aes_set_key 9 9 1 0 enum_MUGGLE_ENCRYPT enum_MUGGLE_BLOCK_CIPHER_MODE_CTR 160 0) = err_code E_NULL /\
  slot4 (gen_muggle_des_set_key 9 9 1 1 enum_MUGGLE_DECRYPT enum_MUGGLE_BLOCK_CIPHER_MODE_OFB 0) = (1, enum_MUGGLE_ENCRYPT, 0, 0).
Proof. repeat split; reflexivity. Qed.
