(* C12 — how keys enter: the DES key schedule ignores exactly the parity bit (least significant bit) of
   every key byte; the three key schedules of a Triple-DES context are those of the three keys,
   independently of one another. *)
From Coq Require Import Lia Arith PeanoNat.
From MV Require Import C12.Spec_DES C12.Modes C12.Proofs_Modes C12.Proofs_DES C12.Proofs_API C12.Impl_DES C12.Impl_Ctx C12.Proofs_Impl_DES.
Local Open Scope N_scope.

Tactic Notation "destruct_len64" ident(x) ident(H) :=
  do 64 (destruct x as [|? x]; [discriminate H|]); destruct x; [clear H|discriminate H].

(* position p of the 64 key bits (0 = first bit of FIPS 46-3) is a parity bit when p mod 8 = 7 *)
Definition parity_pos (p : nat) : bool := Nat.eqb (Nat.modulo p 8) 7.

(* ---------- the parity bits do not enter the key schedule ---------- *)
Theorem subkeys_ignore_parity_bits : forall kb kb', length kb = 64%nat -> length kb' = 64%nat ->
  (forall p, (p < 64)%nat -> parity_pos p = false -> nth p kb false = nth p kb' false) ->
  des_subkeys_bits kb = des_subkeys_bits kb'.
Proof.
  intros kb kb' H H' E. destruct_len64 kb H. destruct_len64 kb' H'.
  pose proof (E 0%nat ltac:(lia) eq_refl) as E0; cbn [nth] in E0.
  pose proof (E 1%nat ltac:(lia) eq_refl) as E1; cbn [nth] in E1.
  pose proof (E 2%nat ltac:(lia) eq_refl) as E2; cbn [nth] in E2.
  pose proof (E 3%nat ltac:(lia) eq_refl) as E3; cbn [nth] in E3.
  pose proof (E 4%nat ltac:(lia) eq_refl) as E4; cbn [nth] in E4.
  pose proof (E 5%nat ltac:(lia) eq_refl) as E5; cbn [nth] in E5.
  pose proof (E 6%nat ltac:(lia) eq_refl) as E6; cbn [nth] in E6.
  pose proof (E 8%nat ltac:(lia) eq_refl) as E8; cbn [nth] in E8.
  pose proof (E 9%nat ltac:(lia) eq_refl) as E9; cbn [nth] in E9.
  pose proof (E 10%nat ltac:(lia) eq_refl) as E10; cbn [nth] in E10.
  pose proof (E 11%nat ltac:(lia) eq_refl) as E11; cbn [nth] in E11.
  pose proof (E 12%nat ltac:(lia) eq_refl) as E12; cbn [nth] in E12.
  pose proof (E 13%nat ltac:(lia) eq_refl) as E13; cbn [nth] in E13.
  pose proof (E 14%nat ltac:(lia) eq_refl) as E14; cbn [nth] in E14.
  pose proof (E 16%nat ltac:(lia) eq_refl) as E16; cbn [nth] in E16.
  pose proof (E 17%nat ltac:(lia) eq_refl) as E17; cbn [nth] in E17.
  pose proof (E 18%nat ltac:(lia) eq_refl) as E18; cbn [nth] in E18.
  pose proof (E 19%nat ltac:(lia) eq_refl) as E19; cbn [nth] in E19.
  pose proof (E 20%nat ltac:(lia) eq_refl) as E20; cbn [nth] in E20.
  pose proof (E 21%nat ltac:(lia) eq_refl) as E21; cbn [nth] in E21.
  pose proof (E 22%nat ltac:(lia) eq_refl) as E22; cbn [nth] in E22.
  pose proof (E 24%nat ltac:(lia) eq_refl) as E24; cbn [nth] in E24.
  pose proof (E 25%nat ltac:(lia) eq_refl) as E25; cbn [nth] in E25.
  pose proof (E 26%nat ltac:(lia) eq_refl) as E26; cbn [nth] in E26.
  pose proof (E 27%nat ltac:(lia) eq_refl) as E27; cbn [nth] in E27.
  pose proof (E 28%nat ltac:(lia) eq_refl) as E28; cbn [nth] in E28.
  pose proof (E 29%nat ltac:(lia) eq_refl) as E29; cbn [nth] in E29.
  pose proof (E 30%nat ltac:(lia) eq_refl) as E30; cbn [nth] in E30.
  pose proof (E 32%nat ltac:(lia) eq_refl) as E32; cbn [nth] in E32.
  pose proof (E 33%nat ltac:(lia) eq_refl) as E33; cbn [nth] in E33.
  pose proof (E 34%nat ltac:(lia) eq_refl) as E34; cbn [nth] in E34.
  pose proof (E 35%nat ltac:(lia) eq_refl) as E35; cbn [nth] in E35.
  pose proof (E 36%nat ltac:(lia) eq_refl) as E36; cbn [nth] in E36.
  pose proof (E 37%nat ltac:(lia) eq_refl) as E37; cbn [nth] in E37.
  pose proof (E 38%nat ltac:(lia) eq_refl) as E38; cbn [nth] in E38.
  pose proof (E 40%nat ltac:(lia) eq_refl) as E40; cbn [nth] in E40.
  pose proof (E 41%nat ltac:(lia) eq_refl) as E41; cbn [nth] in E41.
  pose proof (E 42%nat ltac:(lia) eq_refl) as E42; cbn [nth] in E42.
  pose proof (E 43%nat ltac:(lia) eq_refl) as E43; cbn [nth] in E43.
  pose proof (E 44%nat ltac:(lia) eq_refl) as E44; cbn [nth] in E44.
  pose proof (E 45%nat ltac:(lia) eq_refl) as E45; cbn [nth] in E45.
  pose proof (E 46%nat ltac:(lia) eq_refl) as E46; cbn [nth] in E46.
  pose proof (E 48%nat ltac:(lia) eq_refl) as E48; cbn [nth] in E48.
  pose proof (E 49%nat ltac:(lia) eq_refl) as E49; cbn [nth] in E49.
  pose proof (E 50%nat ltac:(lia) eq_refl) as E50; cbn [nth] in E50.
  pose proof (E 51%nat ltac:(lia) eq_refl) as E51; cbn [nth] in E51.
  pose proof (E 52%nat ltac:(lia) eq_refl) as E52; cbn [nth] in E52.
  pose proof (E 53%nat ltac:(lia) eq_refl) as E53; cbn [nth] in E53.
  pose proof (E 54%nat ltac:(lia) eq_refl) as E54; cbn [nth] in E54.
  pose proof (E 56%nat ltac:(lia) eq_refl) as E56; cbn [nth] in E56.
  pose proof (E 57%nat ltac:(lia) eq_refl) as E57; cbn [nth] in E57.
  pose proof (E 58%nat ltac:(lia) eq_refl) as E58; cbn [nth] in E58.
  pose proof (E 59%nat ltac:(lia) eq_refl) as E59; cbn [nth] in E59.
  pose proof (E 60%nat ltac:(lia) eq_refl) as E60; cbn [nth] in E60.
  pose proof (E 61%nat ltac:(lia) eq_refl) as E61; cbn [nth] in E61.
  pose proof (E 62%nat ltac:(lia) eq_refl) as E62; cbn [nth] in E62.
  subst. reflexivity.
Qed.

(* ---------- every other key bit does: it is copied into some sub-key ---------- *)
(* (key bit p, round i, position m): bit m of K_(i+1) is key bit p, whatever the key *)
Definition key_bit_use : list (nat * nat * nat) :=
  [(0,0,19); (1,0,8); (2,0,12); (3,0,29); (4,0,32); (5,1,43); (6,1,40); (8,0,9); (9,0,0); (10,1,10); (11,1,41); (12,0,44); (13,0,43); (14,0,40); (16,0,5); (17,0,22); (18,0,10); (19,0,41); (20,0,37); (21,0,24); (22,0,34); (24,0,15); (25,0,14); (26,0,21); (27,0,25); (28,0,35); (29,0,31); (30,0,47); (32,0,6); (33,0,2); (34,0,13); (35,0,20); (36,0,28); (37,0,38); (38,0,26); (40,0,23); (41,0,11); (42,1,1); (43,0,16); (44,0,42); (45,1,27); (46,0,30); (48,0,4); (49,1,17); (50,0,1); (51,1,3); (52,0,33); (53,0,27); (54,0,46); (56,0,7); (57,0,17); (58,0,18); (59,0,3); (60,0,36); (61,0,45); (62,0,39)]%nat.

Lemma key_bit_use_covers : map (fun t => fst (fst t)) key_bit_use = filter (fun p => negb (parity_pos p)) (seq 0 64).
Proof. vm_compute. reflexivity. Qed.

Lemma key_bit_use_ok : forall kb, length kb = 64%nat ->
  Forall (fun t => nth (snd t) (nth (snd (fst t)) (des_subkeys_bits kb) []) false = nth (fst (fst t)) kb false) key_bit_use.
Proof. intros kb H. destruct_len64 kb H. unfold key_bit_use. repeat constructor. Qed.

Theorem subkeys_use_every_other_bit : forall kb kb' p, length kb = 64%nat -> length kb' = 64%nat ->
  (p < 64)%nat -> parity_pos p = false -> nth p kb false <> nth p kb' false ->
  des_subkeys_bits kb <> des_subkeys_bits kb'.
Proof.
  intros kb kb' p H H' Hp Hpar Hne Heq.
  assert (Hin : In p (map (fun t => fst (fst t)) key_bit_use)).
  { rewrite key_bit_use_covers. apply filter_In. split; [apply in_seq; lia|rewrite Hpar; reflexivity]. }
  apply in_map_iff in Hin. destruct Hin as ([[q i] m] & Hq & Hin). cbn in Hq. subst q.
  pose proof (key_bit_use_ok kb H) as U. pose proof (key_bit_use_ok kb' H') as U'.
  rewrite Forall_forall in U, U'. specialize (U _ Hin). specialize (U' _ Hin). cbn [fst snd] in U, U'.
  apply Hne. rewrite <- U, <- U', Heq. reflexivity.
Qed.

(* ---------- on key bytes: the least significant bit of every byte is ignored ---------- *)
Lemma testbit_land_fe : forall b j, (1 <= j <= 7)%nat -> N.testbit b (N.of_nat j) = N.testbit (N.land b 254) (N.of_nat j).
Proof.
  intros b j Hj. rewrite N.land_spec.
  assert (Hc : N.testbit 254 (N.of_nat j) = true).
  { destruct j as [|[|[|[|[|[|[|[|j]]]]]]]]; try lia; reflexivity. }
  rewrite Hc, andb_true_r. reflexivity.
Qed.

Theorem des_subkeys_ignore_parity : forall key key', wfb 8 key -> wfb 8 key' ->
  map (fun b => N.land b 254) key = map (fun b => N.land b 254) key' -> des_subkeys key = des_subkeys key'.
Proof.
  intros key key' [Hl _] [Hl' _] E. unfold des_subkeys.
  do 8 (destruct key as [|? key]; [discriminate Hl|]). destruct key; [|discriminate Hl].
  do 8 (destruct key' as [|? key']; [discriminate Hl'|]). destruct key'; [|discriminate Hl'].
  cbn [map] in E. injection E as E0 E1 E2 E3 E4 E5 E6 E7.
  apply subkeys_ignore_parity_bits; try reflexivity.
  intros p Hp Hpar. cbn [bits_of_bytes flat_map bits_of_byte app].
  do 64 (destruct p as [|p]; [try discriminate Hpar; cbn [nth];
    match goal with |- N.testbit ?a ?j = N.testbit ?b ?j =>
      change j with (N.of_nat (N.to_nat j)); rewrite (testbit_land_fe a), (testbit_land_fe b) by (cbn; lia); congruence end|]).
  lia.
Qed.

Corollary impl_key_schedule_ignores_parity : forall key key', wfb 8 key -> wfb 8 key' ->
  map (fun b => N.land b 254) key = map (fun b => N.land b 254) key' -> impl_set_key key = impl_set_key key'.
Proof. intros key key' H H' E. rewrite (set_key_spec_bytes key H), (set_key_spec_bytes key' H'), (des_subkeys_ignore_parity key key' H H' E). reflexivity. Qed.

(* ---------- Triple-DES: three independent key schedules ---------- *)
(* which key, in which direction, each of ctx1, ctx2, ctx3 is set up with (muggle_tdes_set_key) *)
Definition tdes_slots (o : op) (m : mode) (k1 k2 k3 : list N) : list (op * list N) :=
  if block_mode m then
    (if is_enc o then [(o, k1); (inv_op o, k2); (o, k3)] else [(o, k3); (inv_op o, k2); (o, k1)])
  else [(OpEnc, k1); (OpDec, k2); (OpEnc, k3)].

Theorem tdes_slots_schedules : forall o m k1 k2 k3 c,
  tdes_set_key true true true true o m k1 k2 k3 = (OK, Some c) ->
  [t_ks1 c; t_ks2 c; t_ks3 c] = map (fun s => des_gen_subkeys (fst s) (snd s)) (tdes_slots o m k1 k2 k3).
Proof.
  intros o m k1 k2 k3 c H. destruct (tdes_set_key_ok _ _ _ _ _ _ H) as (Ho & Hm & ->). unfold tdes_slots.
  destruct (block_mode m); [destruct (is_enc o)|]; reflexivity.
Qed.

(* hence ctx_i does not change when the other two keys change *)
Corollary tdes_schedule_depends_on_one_key : forall o m k1 k2 k3 k1' k2' k3' c c',
  tdes_set_key true true true true o m k1 k2 k3 = (OK, Some c) ->
  tdes_set_key true true true true o m k1' k2' k3' = (OK, Some c') ->
  (k2 = k2' -> t_ks2 c = t_ks2 c') /\
  (block_mode m && negb (is_enc o) = false -> (k1 = k1' -> t_ks1 c = t_ks1 c') /\ (k3 = k3' -> t_ks3 c = t_ks3 c')) /\
  (block_mode m && negb (is_enc o) = true -> (k3 = k3' -> t_ks1 c = t_ks1 c') /\ (k1 = k1' -> t_ks3 c = t_ks3 c')).
Proof.
  intros o m k1 k2 k3 k1' k2' k3' c c' H H'.
  destruct (tdes_set_key_ok _ _ _ _ _ _ H) as (_ & _ & ->). destruct (tdes_set_key_ok _ _ _ _ _ _ H') as (_ & _ & ->).
  destruct (block_mode m); [destruct (is_enc o)|]; cbn [t_ks1 t_ks2 t_ks3 andb negb];
    (split; [intros ->; reflexivity|split; intros Hb; try discriminate Hb; split; intros ->; reflexivity]).
Qed.

(* the same on the implementation side: the bytes left in ctx1, ctx2, ctx3 are the three DES key schedules *)
Theorem tdes_ctx_impl_schedules : forall o m k1 k2 k3, op_valid o = true -> wfb 8 k1 -> wfb 8 k2 -> wfb 8 k3 ->
  impl_tdes_ctx_bytes o m k1 k2 k3 =
  flat_map (fun s => ks_bytes (map kwpair (des_gen_subkeys (fst s) (snd s)))) (tdes_slots o m k1 k2 k3).
Proof.
  intros o m k1 k2 k3 Ho H1 H2 H3. unfold impl_tdes_ctx_bytes, tdes_slots.
  assert (G : forall d k, wfb 8 k -> impl_gen_subkeys d k = map kwpair (des_gen_subkeys (if d then OpDec else OpEnc) k)).
  { intros d k Hk. destruct (gen_subkeys_spec d k Hk) as [E _]. rewrite E. destruct d; reflexivity. }
  destruct o; try discriminate Ho; destruct m; cbn [block_mode is_enc inv_op flat_map map fst snd app];
    rewrite !G by assumption; rewrite ?app_nil_r; reflexivity.
Qed.

(* ---------- the C text of muggle_tdes_set_key (narrow source scan, regenerated on every run) ----------
   nothing but argument checks and muggle_des_set_key(<op>, <mode>, <key pointer>, &ctx->ctxN) calls,
   and those calls fill exactly ctx1, ctx2, ctx3: no shortcut copies one schedule into another context *)
Lemma tdes_set_key_text_ok : tdes_set_key_foreign = [] /\ tdes_set_key_targets = [1; 2; 3]%nat.
Proof. split; reflexivity. Qed.
