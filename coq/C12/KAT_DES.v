(* C12 — validation of the DES specification layer by vm_compute against
   classic known-answer vectors.  Tests, not theorems. *)
From Coq Require Import String.
From MV Require Import C12.Spec_AES C12.Spec_DES C12.KAT_AES.
Local Open Scope string_scope.
Local Open Scope N_scope.

Definition des_enc (k p : list N) := des_crypt (des_subkeys k) p.
Definition des_dec (k c : list N) := des_crypt (rev (des_subkeys k)) c.

(* the worked example that accompanies most descriptions of the standard *)
Example des_classic : des_enc (hex "133457799bbcdff1") (hex "0123456789abcdef") = hex "85e813540f0ab405".
Proof. vm_compute. reflexivity. Qed.
Example des_classic_dec : des_dec (hex "133457799bbcdff1") (hex "85e813540f0ab405") = hex "0123456789abcdef".
Proof. vm_compute. reflexivity. Qed.
(* FIPS 81 example: "Now is t" under 0123456789abcdef *)
Example des_fips81 : des_enc (hex "0123456789abcdef") (hex "4e6f772069732074") = hex "3fa40e8a984d4815".
Proof. vm_compute. reflexivity. Qed.
Example des_zero_ct : des_enc (hex "0e329232ea6d0d73") (hex "8787878787878787") = hex "0000000000000000".
Proof. vm_compute. reflexivity. Qed.
(* NBS SP 500-20 / SP 800-17: variable plaintext, variable key, permutation, substitution tables *)
Example des_vp1 : des_enc (hex "0101010101010101") (hex "8000000000000000") = hex "95f8a5e5dd31d900".
Proof. vm_compute. reflexivity. Qed.
Example des_vp2 : des_enc (hex "0101010101010101") (hex "4000000000000000") = hex "dd7f121ca5015619".
Proof. vm_compute. reflexivity. Qed.
Example des_vp64 : des_enc (hex "0101010101010101") (hex "0000000000000001") = hex "166b40b44aba4bd6".
Proof. vm_compute. reflexivity. Qed.
Example des_vk1 : des_enc (hex "8001010101010101") (hex "0000000000000000") = hex "95a8d72813daa94d".
Proof. vm_compute. reflexivity. Qed.
Example des_vk2 : des_enc (hex "4001010101010101") (hex "0000000000000000") = hex "0eec1487dd8c26d5".
Proof. vm_compute. reflexivity. Qed.
Example des_perm1 : des_enc (hex "1046913489980131") (hex "0000000000000000") = hex "88d55e54f54c97b4".
Proof. vm_compute. reflexivity. Qed.
Example des_subst1 : des_enc (hex "7ca110454a1a6e57") (hex "01a1d6d039776742") = hex "690f5b0d9a26939b".
Proof. vm_compute. reflexivity. Qed.
Example des_subst19 : des_enc (hex "1c587f1c13924fef") (hex "305532286d6f295a") = hex "63fac0d034d9f793".
Proof. vm_compute. reflexivity. Qed.
(* first sub-key of the classic example: K1 = 000110 110000 001011 101111 111111 000111 000001 110010 *)
Example des_classic_K1 : map (fun b : bool => if b then 1 else 0) (hd [] (des_subkeys (hex "133457799bbcdff1"))) =
  [0;0;0;1;1;0; 1;1;0;0;0;0; 0;0;1;0;1;1; 1;0;1;1;1;1; 1;1;1;1;1;1; 0;0;0;1;1;1; 0;0;0;0;0;1; 1;1;0;0;1;0].
Proof. vm_compute. reflexivity. Qed.
(* TDEA, SP 800-67 Appendix B.1: E_k3(D_k2(E_k1(P))) *)
Definition tdea_enc (k1 k2 k3 p : list N) := des_enc k3 (des_dec k2 (des_enc k1 p)).
Definition tdea_dec (k1 k2 k3 c : list N) := des_dec k1 (des_enc k2 (des_dec k3 c)).
Example tdea_B1_1 : tdea_enc (hex "0123456789abcdef") (hex "23456789abcdef01") (hex "456789abcdef0123") (hex "5468652071756663")
  = hex "a826fd8ce53b855f".
Proof. vm_compute. reflexivity. Qed.
Example tdea_B1_2 : tdea_enc (hex "0123456789abcdef") (hex "23456789abcdef01") (hex "456789abcdef0123") (hex "6b2062726f776e20")
  = hex "cce21c8112256fe6".
Proof. vm_compute. reflexivity. Qed.
Example tdea_B1_3 : tdea_enc (hex "0123456789abcdef") (hex "23456789abcdef01") (hex "456789abcdef0123") (hex "666f78206a756d70")
  = hex "68d5c05dd9b6b900".
Proof. vm_compute. reflexivity. Qed.
Example tdea_B1_dec : tdea_dec (hex "0123456789abcdef") (hex "23456789abcdef01") (hex "456789abcdef0123") (hex "a826fd8ce53b855f")
  = hex "5468652071756663".
Proof. vm_compute. reflexivity. Qed.

(* all of the above as one proposition (an obligation of Properties_C12.v) *)
Definition des_vectors_hold : Prop :=
  (des_enc (hex "133457799bbcdff1") (hex "0123456789abcdef") = hex "85e813540f0ab405") /\
  (des_dec (hex "133457799bbcdff1") (hex "85e813540f0ab405") = hex "0123456789abcdef") /\
  (des_enc (hex "0123456789abcdef") (hex "4e6f772069732074") = hex "3fa40e8a984d4815") /\
  (des_enc (hex "0e329232ea6d0d73") (hex "8787878787878787") = hex "0000000000000000") /\
  (des_enc (hex "0101010101010101") (hex "8000000000000000") = hex "95f8a5e5dd31d900") /\
  (des_enc (hex "0101010101010101") (hex "4000000000000000") = hex "dd7f121ca5015619") /\
  (des_enc (hex "0101010101010101") (hex "0000000000000001") = hex "166b40b44aba4bd6") /\
  (des_enc (hex "8001010101010101") (hex "0000000000000000") = hex "95a8d72813daa94d") /\
  (des_enc (hex "4001010101010101") (hex "0000000000000000") = hex "0eec1487dd8c26d5") /\
  (des_enc (hex "1046913489980131") (hex "0000000000000000") = hex "88d55e54f54c97b4") /\
  (des_enc (hex "7ca110454a1a6e57") (hex "01a1d6d039776742") = hex "690f5b0d9a26939b") /\
  (des_enc (hex "1c587f1c13924fef") (hex "305532286d6f295a") = hex "63fac0d034d9f793") /\
  (map (fun b : bool => if b then 1 else 0) (hd [] (des_subkeys (hex "133457799bbcdff1"))) =
  [0;0;0;1;1;0; 1;1;0;0;0;0; 0;0;1;0;1;1; 1;0;1;1;1;1; 1;1;1;1;1;1; 0;0;0;1;1;1; 0;0;0;0;0;1; 1;1;0;0;1;0]) /\
  (tdea_enc (hex "0123456789abcdef") (hex "23456789abcdef01") (hex "456789abcdef0123") (hex "5468652071756663")
  = hex "a826fd8ce53b855f") /\
  (tdea_enc (hex "0123456789abcdef") (hex "23456789abcdef01") (hex "456789abcdef0123") (hex "6b2062726f776e20")
  = hex "cce21c8112256fe6") /\
  (tdea_enc (hex "0123456789abcdef") (hex "23456789abcdef01") (hex "456789abcdef0123") (hex "666f78206a756d70")
  = hex "68d5c05dd9b6b900") /\
  (tdea_dec (hex "0123456789abcdef") (hex "23456789abcdef01") (hex "456789abcdef0123") (hex "a826fd8ce53b855f")
  = hex "5468652071756663").
Lemma des_vectors_ok : des_vectors_hold.
Proof. exact (conj des_classic (conj des_classic_dec (conj des_fips81 (conj des_zero_ct (conj des_vp1 (conj des_vp2 (conj des_vp64 (conj des_vk1 (conj des_vk2 (conj des_perm1 (conj des_subst1 (conj des_subst19 (conj des_classic_K1 (conj tdea_B1_1 (conj tdea_B1_2 (conj tdea_B1_3 tdea_B1_dec)))))))))))))))). Qed.
