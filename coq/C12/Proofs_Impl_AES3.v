(* C12 — openssl_key_expansion as coded = FIPS-197 KeyExpansion (two 32-bit words per loop iteration
   against one word per step of the specification), and the final theorems
   aes_impl_equals_spec / aes_inv_impl_equals_spec for the three key sizes. *)
From Coq Require Import Lia Arith PeanoNat.
From MV Require Import C12.Spec_AES C12.Impl_AES C12.Modes C12.Proofs_Modes C12.Proofs_DES C12.Proofs_AES C12.Proofs_AES_Key C12.Proofs_API C12.Proofs_Impl_AES C12.Proofs_Impl_AES2.
Local Open Scope N_scope.

(* ---------- 64-bit words made of two 4-byte words ---------- *)
Lemma of_le_app : forall a b, of_le (a ++ b) = of_le a + 256 ^ N.of_nat (length a) * of_le b.
Proof.
  induction a as [|x a IH]; intros b; cbn [app length].
  - change (N.of_nat 0) with 0. rewrite N.pow_0_r. cbn [of_le fold_right]. lia.
  - cbn [of_le fold_right]. fold (of_le (a ++ b)). fold (of_le a). rewrite IH, Nat2N.inj_succ, N.pow_succ_r'. lia.
Qed.

Lemma word4_lt : forall a, word4 a -> of_le a < two32.
Proof. intros a [Hl Hb]. pose proof (of_le_bound a Hb) as H. rewrite Hl in H. exact H. Qed.

Lemma lo32_pair : forall a b, word4 a -> lo32 (of_le (a ++ b)) = of_le a.
Proof.
  intros a b Ha. pose proof (word4_lt a Ha). destruct Ha as [Hl _]. unfold lo32. change 0xffffffff with (N.ones 32).
  rewrite N.land_ones, of_le_app, Hl. change (256 ^ N.of_nat 4) with (2 ^ 32). change two32 with (2 ^ 32) in H.
  rewrite (N.mul_comm (2 ^ 32) (of_le b)), N.mod_add by (apply N.pow_nonzero; discriminate). apply N.mod_small. exact H.
Qed.
Lemma hi32_pair : forall a b, word4 a -> hi32 (of_le (a ++ b)) = of_le b.
Proof.
  intros a b Ha. pose proof (word4_lt a Ha). destruct Ha as [Hl _]. unfold hi32.
  rewrite N.shiftr_div_pow2, of_le_app, Hl. change (256 ^ N.of_nat 4) with (2 ^ 32). change two32 with (2 ^ 32) in H.
  rewrite (N.mul_comm (2 ^ 32) (of_le b)), N.div_add by (apply N.pow_nonzero; discriminate).
  rewrite (N.div_small _ _ H). lia.
Qed.
Lemma mk64_pair : forall a b, word4 a -> mk64 (of_le a) (of_le b) = of_le (a ++ b).
Proof. intros a b [Hl _]. unfold mk64. rewrite of_le_app, Hl. reflexivity. Qed.

Lemma lxor_words : forall a b, word4 a -> word4 b -> N.lxor (of_le a) (of_le b) = of_le (xorl a b).
Proof. intros a b [La Ba] [Lb Bb]. apply of_le_lxor; congruence || assumption. Qed.

Lemma rcon_word : forall rc, byte rc -> of_le [rc; 0; 0; 0] = rc.
Proof. intros. cbn [of_le fold_right]. lia. Qed.
Lemma word4_rc : forall rc, byte rc -> word4 [rc; 0; 0; 0].
Proof. intros rc H. split; [reflexivity|]. unfold bytes. repeat constructor; try exact H; reflexivity. Qed.

(* the array w built from the words generated so far (most recent first), two words per uint64_t *)
Fixpoint rpairs (rw : list (list N)) : list N :=
  match rw with
  | b :: a :: r => rpairs r ++ [of_le (a ++ b)]
  | _ => []
  end.

Lemma rpairs_length : forall i rw, length rw = (2 * i)%nat -> length (rpairs rw) = i.
Proof.
  induction i; intros rw H.
  - destruct rw; [reflexivity|discriminate].
  - destruct rw as [|b [|a r]]; try (cbn in H; lia). cbn [rpairs]. rewrite app_length, (IHi r) by (cbn in H; lia). cbn. lia.
Qed.

(* element k of the array, counted from the start, in terms of positions from the most recent word *)
Lemma nth_rpairs : forall i rw k, length rw = (2 * i)%nat -> (k < i)%nat ->
  nth k (rpairs rw) 0 = of_le (nth (2 * (i - k) - 1) rw [] ++ nth (2 * (i - k) - 2) rw []).
Proof.
  induction i; intros rw k H Hk; [lia|].
  destruct rw as [|b [|a r]]; try (cbn in H; lia). cbn [rpairs].
  assert (Hr : length r = (2 * i)%nat) by (cbn in H; lia).
  pose proof (rpairs_length i r Hr) as Hlen.
  destruct (Nat.eq_dec k i) as [->|Hne].
  - rewrite app_nth2 by lia. rewrite Hlen, Nat.sub_diag. cbn [nth].
    replace (2 * (S i - i) - 1)%nat with 1%nat by lia. replace (2 * (S i - i) - 2)%nat with 0%nat by lia. reflexivity.
  - rewrite app_nth1 by lia. rewrite (IHi r k Hr) by lia.
    replace (2 * (S i - k) - 1)%nat with (S (S (2 * (i - k) - 1))) by lia.
    replace (2 * (S i - k) - 2)%nat with (S (S (2 * (i - k) - 2))) by lia. reflexivity.
Qed.

(* ---------- one loop iteration = two steps of the specification ---------- *)
Definition spec_temp (nk iw : nat) (t : list N) : list N :=
  if Nat.eqb (Nat.modulo iw nk) 0 then xorl (sub_word (rot_word t)) (rcon (Nat.div iw nk))
  else if Nat.ltb 6 nk && Nat.eqb (Nat.modulo iw nk) 4 then sub_word t
  else t.

Lemma expand_step : forall f nk iw rw,
  expand (S f) nk iw rw = expand f nk (S iw) (xorl (nth (nk - 1) rw []) (spec_temp nk iw (hd [] rw)) :: rw).
Proof. reflexivity. Qed.

(* the arithmetic side conditions of iteration i (u = number of rcon uses so far), decided by computation *)
Definition iter_ok (nk n i u : nat) : bool :=
  Nat.eqb nk (2 * n) && Nat.leb 1 n && Nat.leb n i &&
  Bool.eqb (Nat.eqb (Nat.modulo (2 * i) nk) 0) (Nat.eqb (Nat.modulo i n) 0) &&
  Bool.eqb (Nat.ltb 6 nk && Nat.eqb (Nat.modulo (2 * i) nk) 4) (Nat.ltb 6 nk && Nat.eqb (Nat.modulo i n) 2) &&
  negb (Nat.eqb (Nat.modulo (S (2 * i)) nk) 0) &&
  negb (Nat.ltb 6 nk && Nat.eqb (Nat.modulo (S (2 * i)) nk) 4) &&
  (if Nat.eqb (Nat.modulo i n) 0 then Nat.eqb (Nat.div (2 * i) nk - 1) u else true).
Definition next_u (n i u : nat) : nat := if Nat.eqb (Nat.modulo i n) 0 then S u else u.

Definition kx_rel (rw : list (list N)) (u : nat) (st : list N * N * N) : Prop :=
  st = (rpairs rw, Nat.iter u xtime 1, of_le (nth 1 rw [] ++ nth 0 rw [])).

Lemma hd_nth0 : forall (rw : list (list N)), hd [] rw = nth 0 rw []. Proof. destruct rw; reflexivity. Qed.

Lemma kx_step_sim : forall nk n i u rw st f, iter_ok nk n i u = true ->
  length rw = (2 * i)%nat -> Forall word4 rw -> kx_rel rw u st ->
  exists W0 W1, word4 W0 /\ word4 W1 /\
    kx_rel (W1 :: W0 :: rw) (next_u n i u) (kx_step nk n st i) /\
    expand (S (S f)) nk (2 * i) rw = expand f nk (2 * S i) (W1 :: W0 :: rw).
Proof.
  intros nk n i u rw st f Hok Hlen Hw ->.
  unfold iter_ok in Hok.
  apply andb_prop in Hok; destruct Hok as [Hok H].
  apply andb_prop in Hok; destruct Hok as [Hok H0].
  apply andb_prop in Hok; destruct Hok as [Hok H1].
  apply andb_prop in Hok; destruct Hok as [Hok H2].
  apply andb_prop in Hok; destruct Hok as [Hok H3].
  apply andb_prop in Hok; destruct Hok as [Hok H4].
  apply andb_prop in Hok; destruct Hok as [Hok H5].
  apply Nat.eqb_eq in Hok. apply Nat.leb_le in H5. apply Nat.leb_le in H4.
  apply Bool.eqb_prop in H3. apply Bool.eqb_prop in H2. apply negb_true_iff in H1. apply negb_true_iff in H0.
  subst nk.
  assert (Hn0 : (0 < length rw)%nat) by lia.
  assert (W : forall j, (j < length rw)%nat -> word4 (nth j rw [])) by (intros j Hj; apply nth_word4; assumption).
  set (t := nth 0 rw []). set (A := nth (2 * n - 1) rw []). set (B := nth (2 * n - 2) rw []).
  assert (Ht : word4 t) by (apply W; lia). assert (HA : word4 A) by (apply W; lia). assert (HB : word4 B) by (apply W; lia).
  assert (Ht1 : word4 (nth 1 rw [])) by (apply W; lia).
  pose proof (iter_xtime_byte u) as Hrc. set (rc := Nat.iter u xtime 1) in *.
  (* the word the specification xors in at step 2i *)
  set (T := spec_temp (2 * n) (2 * i) t).
  assert (HT : word4 T /\ (if Nat.eqb (Nat.modulo i n) 0 then rcon (Nat.div (2 * i) (2 * n)) = [rc; 0; 0; 0] else True)).
  { unfold T, spec_temp. rewrite H3. destruct (Nat.eqb (i mod n) 0) eqn:E0.
    - apply Nat.eqb_eq in H. split; [apply xorl_word4; [apply sub_word_word4, rot_word_word4; exact Ht|apply rcon_word4]|].
      unfold rcon. rewrite H. reflexivity.
    - rewrite H2. destruct (Nat.ltb 6 (2 * n) && Nat.eqb (i mod n) 2); split; auto. apply sub_word_word4. exact Ht. }
  destruct HT as [HT Hrcon].
  set (W0 := xorl A T). set (W1 := xorl B W0).
  assert (HW0 : word4 W0) by (apply xorl_word4; assumption).
  assert (HW1 : word4 W1) by (apply xorl_word4; assumption).
  exists W0, W1. split; [exact HW0|]. split; [exact HW1|]. split.
  - (* the implementation *)
    unfold kx_rel, kx_step. cbn [fst snd].
    rewrite (hi32_pair _ _ Ht1). fold t.
    rewrite (nth_rpairs i rw (i - n) Hlen) by lia.
    replace (2 * (i - (i - n)) - 1)%nat with (2 * n - 1)%nat by lia.
    replace (2 * (i - (i - n)) - 2)%nat with (2 * n - 2)%nat by lia. fold A. fold B.
    rewrite (lo32_pair A B HA), (hi32_pair A B HA).
    assert (Etr : (if Nat.eqb (i mod n) 0
                   then (N.lxor (impl_sub_u32 (impl_rot_word (of_le t))) rc, impl_xtime_u32 rc)
                   else if Nat.ltb 6 (2 * n) && Nat.eqb (i mod n) 2 then (impl_sub_u32 (of_le t), rc) else (of_le t, rc))
                  = (of_le T, Nat.iter (next_u n i u) xtime 1)).
    { unfold T, spec_temp, next_u. rewrite H3. destruct (Nat.eqb (i mod n) 0) eqn:E0.
      - rewrite (rot_word_spec t Ht), (sub_word_spec _ (rot_word_word4 t Ht)). rewrite Hrcon.
        rewrite <- (rcon_word rc Hrc) at 1. rewrite (lxor_words _ _ (sub_word_word4 _ (rot_word_word4 t Ht)) (word4_rc rc Hrc)).
        f_equal. rewrite <- (rcon_word rc Hrc) at 1. rewrite (xtime_u32_spec _ (word4_rc rc Hrc)). cbn [map Nat.iter].
        change (xtime 0) with 0. apply rcon_word. apply xtime_byte. exact Hrc.
      - rewrite H2. destruct (Nat.ltb 6 (2 * n) && Nat.eqb (i mod n) 2); [rewrite (sub_word_spec t Ht)|]; reflexivity. }
    rewrite Etr. cbn [fst snd].
    rewrite (lxor_words A T HA HT). fold W0. rewrite (lxor_words B W0 HB HW0). fold W1.
    rewrite (mk64_pair W0 W1 HW0). cbn [rpairs nth]. reflexivity.
  - (* the specification: two steps *)
    rewrite expand_step. rewrite hd_nth0. fold t. fold T. fold A. fold W0.
    rewrite expand_step. cbn [hd].
    assert (E2 : spec_temp (2 * n) (S (2 * i)) W0 = W0).
    { unfold spec_temp. rewrite H1, H0. reflexivity. }
    rewrite E2. replace (nth (2 * n - 1) (W0 :: rw) []) with B.
    2:{ unfold B. replace (2 * n - 1)%nat with (S (2 * n - 2)) by lia. reflexivity. }
    fold W1. replace (S (S (2 * i))) with (2 * S i)%nat by lia. reflexivity.
Qed.

(* the whole loop *)
Fixpoint loop_ok (nk n i cnt u : nat) : bool :=
  match cnt with
  | O => true
  | S c => iter_ok nk n i u && loop_ok nk n (S i) c (next_u n i u)
  end.

Lemma kx_loop_sim : forall nk n cnt i u rw st, loop_ok nk n i cnt u = true ->
  length rw = (2 * i)%nat -> Forall word4 rw -> kx_rel rw u st ->
  exists rw' u', kx_rel rw' u' (fold_left (kx_step nk n) (seq i cnt) st) /\
                 rw' = expand (2 * cnt) nk (2 * i) rw /\ Forall word4 rw' /\ length rw' = (2 * (i + cnt))%nat.
Proof.
  intros nk n. induction cnt as [|c IH]; intros i u rw st Hok Hlen Hw Hrel.
  - exists rw, u. cbn [seq fold_left]. repeat split; try assumption. lia.
  - cbn [loop_ok] in Hok. apply andb_prop in Hok. destruct Hok as [Hi Hrest].
    destruct (kx_step_sim nk n i u rw st (2 * c) Hi Hlen Hw Hrel) as (W0 & W1 & HW0 & HW1 & Hrel' & Hexp).
    cbn [seq fold_left].
    destruct (IH (S i) (next_u n i u) (W1 :: W0 :: rw) (kx_step nk n st i) Hrest) as (rw' & u' & R & E & F & L).
    + cbn [length]. lia.
    + constructor; [exact HW1|constructor; [exact HW0|exact Hw]].
    + exact Hrel'.
    + exists rw', u'. split; [exact R|]. split; [|split; [exact F|rewrite L; lia]].
      rewrite E. replace (2 * S c)%nat with (S (S (2 * c))) by lia. symmetry. exact Hexp.
Qed.

(* ---------- initial state and result ---------- *)
Lemma words64_rpairs : forall n key, length key = (8 * n)%nat ->
  words64 n key = rpairs (rev (words_of (2 * n) key)).
Proof.
  induction n; intros key Hl; [reflexivity|].
  replace (2 * S n)%nat with (S (S (2 * n))) by lia. cbn [words64 words_of rev].
  assert (Hsk : skipn 4 (skipn 4 key) = skipn 8 key).
  { clear. do 8 (destruct key as [|? key]; [reflexivity|]). reflexivity. }
  rewrite Hsk. rewrite <- app_assoc. cbn [app].
  set (r := rev (words_of (2 * n) (skipn 8 key))).
  assert (G : forall (r : list (list N)) a b, (exists k, length r = (2 * k)%nat) -> rpairs (r ++ [b; a]) = of_le (a ++ b) :: rpairs r).
  { clear. intros r a b [k Hk]. revert r Hk. induction k; intros r Hk.
    - destruct r; [reflexivity|discriminate].
    - destruct r as [|y [|x r]]; try (cbn in Hk; lia). cbn [app rpairs]. rewrite (IHk r) by (cbn in Hk; lia). reflexivity. }
  rewrite G.
  2:{ exists n. unfold r. rewrite rev_length. clear. generalize (skipn 8 key). induction (2 * n)%nat; intros l; [reflexivity|]. cbn [words_of length]. rewrite IHn0. reflexivity. }
  f_equal.
  - f_equal. clear. do 8 (destruct key as [|? key]; [cbn; try reflexivity|]); try reflexivity.
    all: cbn [firstn skipn app]; reflexivity.
  - unfold r. apply IHn. rewrite skipn_length. lia.
Qed.

Lemma pairs_of_round_keys : forall m ws, length ws = (4 * m)%nat -> Forall word4 ws ->
  rk_words (round_keys_of m ws) = rpairs (rev ws).
Proof.
  induction m; intros ws Hl Hw.
  - destruct ws; [reflexivity|discriminate].
  - do 4 (destruct ws as [|? ws]; [cbn in Hl; lia|]).
    inversion Hw as [|? ? H0 Hw1]; subst. inversion Hw1 as [|? ? H1 Hw2]; subst.
    inversion Hw2 as [|? ? H2 Hw3]; subst. inversion Hw3 as [|? ? H3 Hw4]; subst.
    cbn [round_keys_of firstn skipn concat]. unfold rk_words. cbn [flat_map]. fold (rk_words (round_keys_of m ws)).
    rewrite (IHm ws) by (try assumption; cbn in Hl; lia).
    destruct H0 as [L0 _], H1 as [L1 _], H2 as [L2 _], H3 as [L3 _].
    rewrite app_nil_r.
    assert (F8 : firstn 8 (l ++ l0 ++ l1 ++ l2) = l ++ l0).
    { rewrite (app_assoc l l0). apply firstn_app_exact. rewrite app_length. lia. }
    assert (S8 : skipn 8 (l ++ l0 ++ l1 ++ l2) = l1 ++ l2).
    { rewrite (app_assoc l l0). apply skipn_app_exact. rewrite app_length. lia. }
    rewrite F8, S8. cbn [rev]. rewrite <- !app_assoc. cbn [app].
    assert (G : forall (r : list (list N)) a b, (exists k, length r = (2 * k)%nat) -> rpairs (r ++ [b; a]) = of_le (a ++ b) :: rpairs r).
    { clear. intros r a b [k Hk]. revert r Hk. induction k; intros r Hk.
      - destruct r; [reflexivity|discriminate].
      - destruct r as [|y [|x r]]; try (cbn in Hk; lia). cbn [app rpairs]. rewrite (IHk r) by (cbn in Hk; lia). reflexivity. }
    replace (rev ws ++ [l2; l1; l0; l]) with ((rev ws ++ [l2; l1]) ++ [l0; l]) by (rewrite <- app_assoc; reflexivity).
    rewrite G by (exists (S (2 * m)); rewrite app_length, rev_length; cbn in *; lia).
    rewrite G by (exists (2 * m)%nat; rewrite rev_length; cbn in Hl; lia). reflexivity.
Qed.

Theorem key_expansion_spec : forall key nk n nr, nk = (2 * n)%nat -> (1 <= n)%nat -> (nk <= 4 * (nr + 1))%nat ->
  loop_ok nk n n ((nr + 1) * 2 - n) 0 = true ->
  length key = (4 * nk)%nat -> bytes key ->
  impl_key_expansion key nk nr = rk_words (round_keys key nk nr).
Proof.
  intros key nk n nr Hnk Hn Hle Hok Hl Hb. subst nk.
  destruct (words_of_wf (2 * n) key Hl Hb) as [W1 W2].
  unfold impl_key_expansion. replace (Nat.div (2 * n) 2) with n by (rewrite Nat.mul_comm, Nat.div_mul; lia).
  rewrite (words64_rpairs n key) by lia.
  set (rw0 := rev (words_of (2 * n) key)).
  assert (L0 : length rw0 = (2 * n)%nat) by (unfold rw0; rewrite rev_length, W2; reflexivity).
  assert (F0 : Forall word4 rw0) by (apply Forall_rev; exact W1).
  assert (R0 : kx_rel rw0 0 (rpairs rw0, 1, nth (Nat.sub n 1) (rpairs rw0) 0)).
  { unfold kx_rel. f_equal. rewrite (nth_rpairs n rw0 (n - 1) L0) by lia.
    replace (2 * (n - (n - 1)) - 1)%nat with 1%nat by lia. replace (2 * (n - (n - 1)) - 2)%nat with 0%nat by lia. reflexivity. }
  replace (Nat.sub (Nat.mul (Nat.add nr 1) 2) n) with ((nr + 1) * 2 - n)%nat by reflexivity.
  destruct (kx_loop_sim (2 * n) n ((nr + 1) * 2 - n) n 0 rw0 _ Hok L0 F0 R0) as (rw' & u' & R & E & F & L).
  rewrite R. cbn [fst].
  unfold round_keys, key_expansion. fold rw0.
  replace (4 * (nr + 1) - 2 * n)%nat with (2 * ((nr + 1) * 2 - n))%nat by lia.
  rewrite <- E.
  rewrite pairs_of_round_keys; [rewrite rev_involutive; reflexivity|rewrite rev_length, L; lia|apply Forall_rev; exact F].
Qed.

(* ========== muggle_openssl_aes_set_key + muggle_openssl_aes_encrypt / _decrypt = FIPS-197 ========== *)
Theorem aes_impl_spec : forall bits key sk rk blk,
  impl_aes_set_key bits key = Some sk -> aes_round_keys bits key = Some rk ->
  length key = key_bytes bits -> bytes key -> wfb 16 blk ->
  impl_aes_encrypt sk blk = cipher rk blk /\ impl_aes_decrypt sk blk = inv_cipher rk blk.
Proof.
  intros bits key sk rk blk Hs Hr Hl Hb Hblk.
  destruct (aes_round_keys_wf bits key rk Hr Hl Hb) as [Rwf Rlen].
  unfold impl_aes_set_key in Hs. unfold aes_round_keys in Hr. unfold aes_params in *.
  destruct (N.eqb_spec bits 128) as [->|]; [|destruct (N.eqb_spec bits 192) as [->|]; [|destruct (N.eqb_spec bits 256) as [->|]; [|discriminate]]];
    injection Hs as <-; injection Hr as <-; unfold impl_aes_encrypt, impl_aes_decrypt; cbn [fst snd].
  - rewrite (key_expansion_spec key 4 2 10 eq_refl ltac:(lia) ltac:(lia) ltac:(vm_compute; reflexivity) Hl Hb).
    destruct (round_keys_wf key 4 10 ltac:(lia) ltac:(lia) Hl Hb) as [W L].
    split; [apply impl_cipher_spec|apply impl_inv_cipher_spec]; try assumption; lia.
  - rewrite (key_expansion_spec key 6 3 12 eq_refl ltac:(lia) ltac:(lia) ltac:(vm_compute; reflexivity) Hl Hb).
    destruct (round_keys_wf key 6 12 ltac:(lia) ltac:(lia) Hl Hb) as [W L].
    split; [apply impl_cipher_spec|apply impl_inv_cipher_spec]; try assumption; lia.
  - rewrite (key_expansion_spec key 8 4 14 eq_refl ltac:(lia) ltac:(lia) ltac:(vm_compute; reflexivity) Hl Hb).
    destruct (round_keys_wf key 8 14 ltac:(lia) ltac:(lia) Hl Hb) as [W L].
    split; [apply impl_cipher_spec|apply impl_inv_cipher_spec]; try assumption; lia.
Qed.

(* the key schedule as the implementation stores it = the FIPS-197 round keys, two uint64_t words per round key *)
Theorem aes_key_expansion_impl_spec : forall bits key sk rk,
  impl_aes_set_key bits key = Some sk -> aes_round_keys bits key = Some rk ->
  length key = key_bytes bits -> bytes key -> fst sk = rk_words rk.
Proof.
  intros bits key sk rk Hs Hr Hl Hb.
  unfold impl_aes_set_key in Hs. unfold aes_round_keys in Hr. unfold aes_params in *.
  destruct (N.eqb_spec bits 128) as [->|]; [|destruct (N.eqb_spec bits 192) as [->|]; [|destruct (N.eqb_spec bits 256) as [->|]; [|discriminate]]];
    injection Hs as <-; injection Hr as <-; cbn [fst].
  - exact (key_expansion_spec key 4 2 10 eq_refl ltac:(lia) ltac:(lia) ltac:(vm_compute; reflexivity) Hl Hb).
  - exact (key_expansion_spec key 6 3 12 eq_refl ltac:(lia) ltac:(lia) ltac:(vm_compute; reflexivity) Hl Hb).
  - exact (key_expansion_spec key 8 4 14 eq_refl ltac:(lia) ltac:(lia) ltac:(vm_compute; reflexivity) Hl Hb).
Qed.

(* non-vacuity: FIPS-197 C.1 through the implementation-layer model *)
Example aes_impl_vector :
  option_map (fun sk => impl_aes_encrypt sk [0x00;0x11;0x22;0x33;0x44;0x55;0x66;0x77;0x88;0x99;0xaa;0xbb;0xcc;0xdd;0xee;0xff])
             (impl_aes_set_key 128 [0;1;2;3;4;5;6;7;8;9;10;11;12;13;14;15])
  = Some [0x69;0xc4;0xe0;0xd8;0x6a;0x7b;0x04;0x30;0xd8;0xcd;0xb7;0x80;0x70;0xb4;0xc5;0x5a].
Proof. vm_compute. reflexivity. Qed.

Corollary aes_enc_impl_spec : forall bits key sk rk blk,
  impl_aes_set_key bits key = Some sk -> aes_round_keys bits key = Some rk ->
  length key = key_bytes bits -> bytes key -> wfb 16 blk -> impl_aes_encrypt sk blk = cipher rk blk.
Proof. intros. eapply proj1, aes_impl_spec; eassumption. Qed.
Corollary aes_dec_impl_spec : forall bits key sk rk blk,
  impl_aes_set_key bits key = Some sk -> aes_round_keys bits key = Some rk ->
  length key = key_bytes bits -> bytes key -> wfb 16 blk -> impl_aes_decrypt sk blk = inv_cipher rk blk.
Proof. intros. eapply proj2, aes_impl_spec; eassumption. Qed.
