(* C12 — the key schedules that muggle_des_set_key / muggle_tdes_set_key leave in the (public) context
   structures, as computed by the implementation layer (Impl_DES.v), in memory order: for each of the 16
   rounds the two uint32_t words, little-endian.  Printed by the model driver next to the bytes the C
   driver reads from ctx->sk, so that the transcription of DES_set_key_unchecked is compared with the
   code on every run (not only through the cipher's output).  Definitions only. *)
From MV Require Export C12.Modes C12.Impl_DES C12.Impl_AES.
Local Open Scope N_scope.

Definition le32 (n : N) : list N :=
  [N.land n 255; N.land (N.shiftr n 8) 255; N.land (N.shiftr n 16) 255; N.land (N.shiftr n 24) 255].
Definition ks_bytes (ks : list (N * N)) : list N := flat_map (fun k => le32 (fst k) ++ le32 (snd k)) ks.
Definition is_dec (o : op) : bool := match o with OpDec => true | _ => false end.

(* muggle_des_set_key: ECB/CBC use op, the stream modes always MUGGLE_ENCRYPT *)
Definition impl_des_ctx_bytes (o : op) (m : mode) (key : list N) : list N :=
  ks_bytes (impl_gen_subkeys (match m with ECB | CBC => is_dec o | _ => false end) key).

(* muggle_tdes_set_key: ctx1, ctx2, ctx3 *)
Definition impl_tdes_ctx_bytes (o : op) (m : mode) (k1 k2 k3 : list N) : list N :=
  match m with
  | ECB | CBC =>
    if is_enc o then ks_bytes (impl_gen_subkeys false k1) ++ ks_bytes (impl_gen_subkeys true k2) ++ ks_bytes (impl_gen_subkeys false k3)
    else ks_bytes (impl_gen_subkeys true k3) ++ ks_bytes (impl_gen_subkeys false k2) ++ ks_bytes (impl_gen_subkeys true k1)
  | _ => ks_bytes (impl_gen_subkeys false k1) ++ ks_bytes (impl_gen_subkeys true k2) ++ ks_bytes (impl_gen_subkeys false k3)
  end.

(* muggle_aes_set_key: ctx->sk.rd_key viewed as bytes, (rounds + 1) * 16 of them (the uint64_t words of
   openssl_key_expansion in memory order) *)
Definition impl_aes_ctx_bytes (bits : N) (key : list N) : list N :=
  match impl_aes_set_key bits key with
  | Some sk => flat_map le64 (fst sk)
  | None => []
  end.
