(* C12 — DES / TDEA: decryption (same network, sub-keys reversed) inverts
   encryption, through a generic Feistel lemma; IP / IP^-1 are mutually inverse
   (checked on 64 symbolic positions); bytes <-> bits conversions round-trip. *)
From Coq Require Import Lia Arith PeanoNat.
From MV Require Import C12.Modes C12.Proofs_Modes.
Local Open Scope N_scope.

(* ---------- xor on bit lists ---------- *)
Lemma xorbl_length : forall a b, length a = length b -> length (xorbl a b) = length a.
Proof. induction a; destruct b; cbn; intros; try discriminate; auto. Qed.
Lemma xorbl_cancel_r : forall a b, length a = length b -> xorbl (xorbl a b) b = a.
Proof.
  induction a; destruct b; cbn; intros; try discriminate; auto.
  rewrite IHa by auto. f_equal. destruct a, b; reflexivity.
Qed.

(* ---------- the generic Feistel lemma ---------- *)
Section Feistel.
  Variable f : list bool -> list bool -> list bool.
  Variable n : nat.
  Hypothesis f_len : forall r k, length (f r k) = n.

  Definition swap (lr : list bool * list bool) := (snd lr, fst lr).
  Definition halves (lr : list bool * list bool) := length (fst lr) = n /\ length (snd lr) = n.

  Lemma round_halves : forall lr k, halves lr -> halves (feistel_round f lr k).
  Proof. intros [l r] k [Hl Hr]. split; cbn in *; auto. rewrite xorbl_length; rewrite ?f_len; auto. Qed.

  Lemma feistel_halves : forall ks lr, halves lr -> halves (feistel f ks lr).
  Proof. induction ks; intros lr H; cbn; auto. apply IHks, round_halves, H. Qed.

  Lemma round_undo : forall lr k, halves lr ->
    feistel_round f (swap (feistel_round f lr k)) k = swap lr.
  Proof.
    intros [l r] k [Hl Hr]. unfold feistel_round, swap. cbn [fst snd] in *.
    rewrite xorbl_cancel_r; [reflexivity|]. rewrite f_len. exact Hl.
  Qed.

  (* running the network with the keys reversed on the swapped output undoes it *)
  Theorem feistel_inverse : forall ks lr, halves lr ->
    swap (feistel f (rev ks) (swap (feistel f ks lr))) = lr.
  Proof.
    intros ks. induction ks as [|k ks IH] using rev_ind; intros lr H.
    - destruct lr; reflexivity.
    - unfold feistel in *. rewrite fold_left_app. cbn [fold_left].
      rewrite rev_app_distr. cbn [rev app fold_left].
      rewrite round_undo by (apply feistel_halves; exact H).
      apply IH, H.
  Qed.
End Feistel.

(* ---------- IP and IP^-1 ---------- *)
Tactic Notation "destruct_len" ident(x) ident(H) integer(k) :=
  do k (destruct x as [|? x]; [discriminate H|]); destruct x; [|discriminate H].

Lemma FP_IP : forall x, length x = 64%nat -> permute FP (permute IP x) = x.
Proof. intros x H. destruct_len x H 64. reflexivity. Qed.
Lemma IP_FP : forall x, length x = 64%nat -> permute IP (permute FP x) = x.
Proof. intros x H. destruct_len x H 64. reflexivity. Qed.

Lemma permute_length : forall t x, length (permute t x) = length t.
Proof. intros. apply map_length. Qed.

Lemma des_f_length : forall r k, length (des_f r k) = 32%nat.
Proof. intros. unfold des_f. rewrite permute_length. reflexivity. Qed.

Lemma des_block_length : forall ks x, length (des_block ks x) = 64%nat.
Proof. intros. unfold des_block. rewrite permute_length. reflexivity. Qed.

(* the 64-bit block algorithm: K16..K1 undoes K1..K16 (any number of rounds, any sub-keys) *)
Theorem des_block_inverse : forall ks x, length x = 64%nat ->
  des_block (rev ks) (des_block ks x) = x.
Proof.
  intros ks x Hx. unfold des_block.
  set (y := permute IP x).
  assert (Hy : length y = 64%nat) by apply permute_length.
  set (lr0 := (firstn 32 y, skipn 32 y)).
  assert (H0 : halves 32 lr0).
  { unfold halves, lr0. cbn [fst snd]. rewrite firstn_length, skipn_length. lia. }
  pose proof (feistel_halves des_f 32 des_f_length ks lr0 H0) as HH.
  pose proof (feistel_inverse des_f 32 des_f_length ks lr0 H0) as Hinv.
  set (lr := feistel des_f ks lr0) in *. destruct HH as [Hl Hr].
  rewrite IP_FP by (rewrite app_length; lia).
  rewrite (firstn_app_exact _ _ _ _ Hr), (skipn_app_exact _ _ _ _ Hr).
  change (snd lr, fst lr) with (swap lr).
  destruct (feistel des_f (rev ks) (swap lr)) as [a b]. unfold swap in Hinv. cbn [fst snd] in *.
  pose proof (f_equal fst Hinv) as Ha. pose proof (f_equal snd Hinv) as Hb.
  unfold lr0 in Ha, Hb. cbn [fst snd] in Ha, Hb. rewrite Ha, Hb, firstn_skipn. apply FP_IP, Hx.
Qed.

(* ---------- bytes <-> bits ---------- *)
Lemma sweep256 : forall P : N -> bool,
  forallb P (map N.of_nat (seq 0 256)) = true -> forall b, b < 256 -> P b = true.
Proof.
  intros P H b Hb. rewrite forallb_forall in H. apply H.
  rewrite <- (N2Nat.id b). apply in_map. apply in_seq. lia.
Qed.

Lemma byte_bits_roundtrip : forall b, b < 256 -> byte_of_bits (bits_of_byte b) = b.
Proof.
  intros b Hb. apply N.eqb_eq. revert b Hb.
  apply (sweep256 (fun b => byte_of_bits (bits_of_byte b) =? b)). vm_compute. reflexivity.
Qed.

Lemma bits_byte_roundtrip : forall l, length l = 8%nat -> bits_of_byte (byte_of_bits l) = l.
Proof.
  intros l H. destruct_len l H 8.
  repeat match goal with b : bool |- _ => destruct b end; vm_compute; reflexivity.
Qed.

Lemma bits_of_bytes_length : forall l, length (bits_of_bytes l) = (8 * length l)%nat.
Proof. induction l; cbn [bits_of_bytes flat_map length]; [reflexivity|]. rewrite app_length. fold (bits_of_bytes l). rewrite IHl. cbn. lia. Qed.

Lemma bytes_bits_roundtrip : forall l, bytes l -> bytes_of_bits (length l) (bits_of_bytes l) = l.
Proof.
  induction l as [|b l IH]; intros H; [reflexivity|]. inversion H; subst.
  cbn [length bytes_of_bits bits_of_bytes flat_map].
  rewrite (firstn_app_exact _ _ _ 8%nat), (skipn_app_exact _ _ _ 8%nat) by reflexivity.
  rewrite byte_bits_roundtrip by assumption. f_equal. apply IH. assumption.
Qed.

Lemma bits_bytes_roundtrip : forall n l, length l = (8 * n)%nat -> bits_of_bytes (bytes_of_bits n l) = l.
Proof.
  induction n; intros l H.
  - destruct l; [reflexivity|discriminate].
  - cbn [bytes_of_bits bits_of_bytes flat_map]. fold (bits_of_bytes (bytes_of_bits n (skipn 8 l))).
    rewrite bits_byte_roundtrip by (rewrite firstn_length; lia).
    rewrite IHn by (rewrite skipn_length; lia). apply firstn_skipn.
Qed.

Lemma byte_of_bits_bound : forall l acc,
  fold_left (fun a (x : bool) => N.double a + (if x then 1 else 0)) l acc < (acc + 1) * 2 ^ N.of_nat (length l).
Proof.
  induction l as [|x l IH]; intros acc.
  - cbn. lia.
  - cbn [fold_left length]. eapply N.lt_le_trans; [apply IH|].
    rewrite Nat2N.inj_succ, N.pow_succ_r'. rewrite N.double_spec. destruct x; nia.
Qed.

Lemma bytes_of_bits_wf : forall n l, length (bytes_of_bits n l) = n /\ bytes (bytes_of_bits n l).
Proof.
  induction n; intros l; cbn [bytes_of_bits]; [split; [reflexivity|constructor]|].
  destruct (IHn (skipn 8 l)) as [Hl Hb]. split; [cbn [length]; rewrite Hl; reflexivity|].
  constructor; [|exact Hb]. unfold byte, byte_of_bits.
  eapply N.lt_le_trans; [apply byte_of_bits_bound|].
  replace (0 + 1) with 1 by reflexivity. rewrite N.mul_1_l. change 256 with (2 ^ 8).
  apply N.pow_le_mono_r; [lia|]. pose proof (firstn_le_length 8 l). lia.
Qed.

(* ---------- byte-level DES ---------- *)
Lemma des_crypt_wf : forall ks blk, wfb 8 (des_crypt ks blk).
Proof. intros. unfold des_crypt. apply bytes_of_bits_wf. Qed.

Theorem des_crypt_inverse : forall ks blk, wfb 8 blk ->
  des_crypt (rev ks) (des_crypt ks blk) = blk.
Proof.
  intros ks blk [Hl Hb]. unfold des_crypt.
  rewrite bits_bytes_roundtrip by (rewrite des_block_length; reflexivity).
  rewrite des_block_inverse by (rewrite bits_of_bytes_length, Hl; reflexivity).
  rewrite <- Hl at 1. apply bytes_bits_roundtrip, Hb.
Qed.

Corollary des_crypt_inverse' : forall ks blk, wfb 8 blk ->
  des_crypt ks (des_crypt (rev ks) blk) = blk.
Proof. intros. rewrite <- (rev_involutive ks) at 1. apply des_crypt_inverse. assumption. Qed.

Local Opaque des_subkeys des_crypt.

(* the library's contexts: a context keyed for MUGGLE_DECRYPT inverts one keyed for MUGGLE_ENCRYPT *)
Theorem des_dec_enc_blk : forall key blk, wfb 8 blk ->
  des_crypt (des_gen_subkeys OpDec key) (des_crypt (des_gen_subkeys OpEnc key) blk) = blk.
Proof. intros. cbn [des_gen_subkeys]. apply des_crypt_inverse. assumption. Qed.

Theorem tdes_dec_enc_blk : forall m k1 k2 k3 ce cd blk, (m = ECB \/ m = CBC) ->
  tdes_set_key true true true true OpEnc m k1 k2 k3 = (OK, Some ce) ->
  tdes_set_key true true true true OpDec m k1 k2 k3 = (OK, Some cd) ->
  wfb 8 blk -> tdes_blk cd (tdes_blk ce blk) = blk.
Proof.
  intros m k1 k2 k3 ce cd blk Hm He Hd Hw.
  unfold tdes_set_key in He, Hd. cbn [first_err op_valid is_enc inv_op] in He, Hd.
  assert (He' : ce = {| t_op := OpEnc; t_mode := m; t_ks1 := des_gen_subkeys OpEnc k1;
                        t_ks2 := des_gen_subkeys OpDec k2; t_ks3 := des_gen_subkeys OpEnc k3 |})
    by (destruct Hm; subst m; injection He; auto).
  assert (Hd' : cd = {| t_op := OpDec; t_mode := m; t_ks1 := des_gen_subkeys OpDec k3;
                        t_ks2 := des_gen_subkeys OpEnc k2; t_ks3 := des_gen_subkeys OpDec k1 |})
    by (destruct Hm; subst m; injection Hd; auto).
  subst ce cd. unfold tdes_blk. cbn [t_ks1 t_ks2 t_ks3 des_gen_subkeys].
  rewrite (des_crypt_inverse (des_subkeys k3)) by apply des_crypt_wf.
  rewrite (des_crypt_inverse' (des_subkeys k2)) by apply des_crypt_wf.
  apply des_crypt_inverse; assumption.
Qed.

Lemma tdes_blk_wf : forall c blk, wfb 8 (tdes_blk c blk).
Proof. intros. unfold tdes_blk. apply des_crypt_wf. Qed.
