(* C12 — theorems about the mode loops of Modes.v, generic over ANY block
   primitive E with an inverse D on well-formed blocks. *)
From Coq Require Import Lia Arith PeanoNat.
From MV Require Import C12.Modes.
Local Open Scope N_scope.

Definition byte (x : N) : Prop := x < 256.
Definition bytes (l : list N) : Prop := Forall byte l.

(* ---------- small facts ---------- *)
Lemma lxor_cancel_r : forall a b, N.lxor (N.lxor a b) b = a.
Proof. intros. rewrite N.lxor_assoc, N.lxor_nilpotent, N.lxor_0_r. reflexivity. Qed.

Lemma lxor_byte : forall a b, byte a -> byte b -> byte (N.lxor a b).
Proof.
  unfold byte. intros a b Ha Hb.
  destruct (N.eq_dec (N.lxor a b) 0) as [->|Hz]; [reflexivity|].
  apply N.log2_lt_pow2 with (b := 8); [lia|].
  eapply N.le_lt_trans; [apply N.log2_lxor|].
  apply N.max_lub_lt.
  - destruct (N.eq_dec a 0) as [->|]; [reflexivity|]. apply N.log2_lt_pow2; [lia|exact Ha].
  - destruct (N.eq_dec b 0) as [->|]; [reflexivity|]. apply N.log2_lt_pow2; [lia|exact Hb].
Qed.

Lemma xorl_length : forall a b, length a = length b -> length (xorl a b) = length a.
Proof. induction a; destruct b; cbn; intros; try discriminate; auto. Qed.

Lemma xorl_bytes : forall a b, bytes a -> bytes b -> bytes (xorl a b).
Proof.
  unfold bytes. induction a; destruct b; cbn; intros Ha Hb; try constructor.
  - inversion Ha; inversion Hb; subst. apply lxor_byte; assumption.
  - inversion Ha; inversion Hb; subst. apply IHa; assumption.
Qed.

Lemma xorl_cancel_r : forall a b, length a = length b -> xorl (xorl a b) b = a.
Proof. induction a; destruct b; cbn; intros; try discriminate; auto. rewrite lxor_cancel_r, IHa; auto. Qed.

Lemma xorl_cancel_l : forall a b, length a = length b -> xorl (xorl a b) a = b.
Proof.
  induction a; destruct b; cbn; intros; try discriminate; auto.
  rewrite (N.lxor_comm a n), lxor_cancel_r, IHa; auto.
Qed.

Lemma firstn_app_exact : forall (A : Type) (a b : list A) n, length a = n -> firstn n (a ++ b) = a.
Proof. intros. subst. rewrite firstn_app, Nat.sub_diag, firstn_all. cbn. apply app_nil_r. Qed.
Lemma skipn_app_exact : forall (A : Type) (a b : list A) n, length a = n -> skipn n (a ++ b) = b.
Proof. intros. subst. rewrite skipn_app, Nat.sub_diag, skipn_all. reflexivity. Qed.

Lemma In_firstn' : forall (A : Type) n (l : list A) x, In x (firstn n l) -> In x l.
Proof. induction n; destruct l; cbn; intros; auto. contradiction. destruct H; auto. Qed.
Lemma bytes_firstn : forall n l, bytes l -> bytes (firstn n l).
Proof. unfold bytes. intros. apply Forall_forall. intros x Hx. eapply Forall_forall in H; eauto. eapply In_firstn'; eauto. Qed.
Lemma In_skipn : forall (A : Type) n (l : list A) x, In x (skipn n l) -> In x l.
Proof. induction n; destruct l; cbn; intros; auto. Qed.
Lemma bytes_skipn : forall n l, bytes l -> bytes (skipn n l).
Proof. unfold bytes. intros. apply Forall_forall. intros x Hx. eapply Forall_forall in H; eauto. eapply In_skipn; eauto. Qed.
Lemma firstn_app_le : forall (A : Type) (a b : list A) n, (n <= length a)%nat -> firstn n (a ++ b) = firstn n a.
Proof. intros. rewrite firstn_app. replace (n - length a)%nat with O by lia. cbn. apply app_nil_r. Qed.
Lemma skipn_app_le : forall (A : Type) (a b : list A) n, (n <= length a)%nat -> skipn n (a ++ b) = skipn n a ++ b.
Proof. intros. rewrite skipn_app. replace (n - length a)%nat with O by lia. reflexivity. Qed.
Lemma bytes_app : forall a b, bytes a -> bytes b -> bytes (a ++ b).
Proof. unfold bytes. intros. apply Forall_app. auto. Qed.

(* ================================================================= *)
Section Generic.
  Variable bs : nat.
  Variables E D : list N -> list N.
  Variable nwords : nat.
  Variable incr : list N -> list N.

  (* a well-formed block: bs bytes *)
  Definition wfb (b : list N) : Prop := length b = bs /\ bytes b.

  Hypothesis E_wf : forall b, wfb b -> wfb (E b).
  Hypothesis DE : forall b, wfb b -> D (E b) = b.

  Lemma wfb_firstn : forall m n, length m = (S n * bs)%nat -> bytes m -> wfb (firstn bs m).
  Proof. intros. split. rewrite firstn_length. cbn in H. lia. apply bytes_firstn; auto. Qed.
  Lemma skipn_len : forall (m : list N) n, length m = (S n * bs)%nat -> length (skipn bs m) = (n * bs)%nat.
  Proof. intros. rewrite skipn_length. cbn in H. lia. Qed.

  (* ---------- ECB ---------- *)
  Lemma ecb_length : forall n m, length m = (n * bs)%nat -> bytes m ->
    length (ecb_loop bs E n m) = (n * bs)%nat /\ bytes (ecb_loop bs E n m).
  Proof.
    induction n; intros m Hl Hb; cbn [ecb_loop].
    - split; [reflexivity|constructor].
    - destruct (E_wf _ (wfb_firstn _ _ Hl Hb)) as [He Hbe].
      destruct (IHn (skipn bs m) (skipn_len _ _ Hl) (bytes_skipn _ _ Hb)) as [Hr Hbr].
      split. rewrite app_length, He, Hr. cbn. lia. apply bytes_app; auto.
  Qed.

  Theorem ecb_dec_enc_gen : forall n m, length m = (n * bs)%nat -> bytes m ->
    ecb_loop bs D n (ecb_loop bs E n m) = m.
  Proof.
    induction n; intros m Hl Hb; cbn [ecb_loop].
    - destruct m; [reflexivity|discriminate].
    - pose proof (wfb_firstn _ _ Hl Hb) as Hw. destruct (E_wf _ Hw) as [He _].
      rewrite (firstn_app_exact _ _ _ _ He), (skipn_app_exact _ _ _ _ He), (DE _ Hw).
      rewrite (IHn _ (skipn_len _ _ Hl) (bytes_skipn _ _ Hb)). apply firstn_skipn.
  Qed.

  (* ---------- CBC ---------- *)
  Theorem cbc_dec_enc_gen : forall n iv m, wfb iv -> length m = (n * bs)%nat -> bytes m ->
    cbc_dec_loop bs D n iv (snd (cbc_enc_loop bs E n iv m)) = (fst (cbc_enc_loop bs E n iv m), m).
  Proof.
    induction n; intros iv m Hiv Hl Hb; cbn [cbc_enc_loop cbc_dec_loop].
    - destruct m; [reflexivity|discriminate].
    - pose proof (wfb_firstn _ _ Hl Hb) as [Hfl Hfb]. destruct Hiv as [Hil Hib].
      assert (Hx : wfb (xorl iv (firstn bs m))).
      { split. rewrite xorl_length; congruence. apply xorl_bytes; auto. }
      pose proof (E_wf _ Hx) as Ho. destruct Ho as [Hol Hob].
      specialize (IHn (E (xorl iv (firstn bs m))) (skipn bs m) (conj Hol Hob) (skipn_len _ _ Hl) (bytes_skipn _ _ Hb)).
      destruct (cbc_enc_loop bs E n (E (xorl iv (firstn bs m))) (skipn bs m)) as [iv' out] eqn:Henc.
      cbn [fst snd] in *.
      rewrite (firstn_app_exact _ _ _ _ Hol), (skipn_app_exact _ _ _ _ Hol), IHn, (DE _ Hx).
      rewrite xorl_cancel_l by congruence. rewrite firstn_skipn. reflexivity.
  Qed.

  (* ---------- CFB / OFB / CTR: decryption is the same keystream (no hypothesis on E) ---------- *)
  Theorem cfb_dec_enc_gen : forall m iv off,
    let '(iv', off', c) := cfb_loop bs E true iv off m in
    cfb_loop bs E false iv off c = (iv', off', m).
  Proof.
    induction m as [|x r IH]; intros iv off; cbn [cfb_loop]; [reflexivity|].
    set (iv1 := if off =? 0 then E iv else iv).
    set (o := N.lxor x (nth (N.to_nat off) iv1 0)).
    specialize (IH (upd (N.to_nat off) o iv1) (N.land (off + 1) (mask bs))).
    destruct (cfb_loop bs E true (upd (N.to_nat off) o iv1) (N.land (off + 1) (mask bs)) r) as [[iv3 off3] out].
    cbn [cfb_loop]. fold iv1. rewrite IH. unfold o. rewrite lxor_cancel_r. reflexivity.
  Qed.

  Theorem ofb_dec_enc_gen : forall m iv off,
    let '(iv', off', c) := ofb_loop bs E iv off m in
    ofb_loop bs E iv off c = (iv', off', m).
  Proof.
    induction m as [|x r IH]; intros iv off; cbn [ofb_loop]; [reflexivity|].
    set (iv1 := if off =? 0 then E iv else iv).
    specialize (IH iv1 (N.land (off + 1) (mask bs))).
    destruct (ofb_loop bs E iv1 (N.land (off + 1) (mask bs)) r) as [[iv3 off3] out].
    cbn [ofb_loop]. fold iv1. rewrite IH, lxor_cancel_r. reflexivity.
  Qed.

  Theorem ctr_dec_enc_gen : forall m w off sb,
    let '(w', off', sb', c) := ctr_loop bs E incr w off sb m in
    ctr_loop bs E incr w off sb c = (w', off', sb', m).
  Proof.
    induction m as [|x r IH]; intros w off sb; cbn [ctr_loop]; [reflexivity|].
    set (w1 := if off =? 0 then incr w else w).
    set (sb1 := if off =? 0 then E (bytes_of_words w1) else sb).
    specialize (IH w1 (N.land (off + 1) (mask bs)) sb1).
    destruct (ctr_loop bs E incr w1 (N.land (off + 1) (mask bs)) sb1 r) as [[[w3 off3] sb3] out].
    cbn [ctr_loop]. fold w1. fold sb1. rewrite IH, lxor_cancel_r. reflexivity.
  Qed.

  (* ---------- chunking: two calls carrying the state = one call ---------- *)
  Theorem cfb_chunking_gen : forall enc m1 m2 iv off,
    cfb_loop bs E enc iv off (m1 ++ m2) =
    let '(iv1, off1, o1) := cfb_loop bs E enc iv off m1 in
    let '(iv2, off2, o2) := cfb_loop bs E enc iv1 off1 m2 in (iv2, off2, o1 ++ o2).
  Proof.
    induction m1 as [|x r IH]; intros m2 iv off; cbn [cfb_loop app].
    - destruct (cfb_loop bs E enc iv off m2) as [[a b] c]. reflexivity.
    - rewrite IH.
      destruct (cfb_loop bs E enc _ (N.land (off + 1) (mask bs)) r) as [[iv1 off1] o1].
      destruct (cfb_loop bs E enc iv1 off1 m2) as [[iv2 off2] o2]. reflexivity.
  Qed.

  Theorem ofb_chunking_gen : forall m1 m2 iv off,
    ofb_loop bs E iv off (m1 ++ m2) =
    let '(iv1, off1, o1) := ofb_loop bs E iv off m1 in
    let '(iv2, off2, o2) := ofb_loop bs E iv1 off1 m2 in (iv2, off2, o1 ++ o2).
  Proof.
    induction m1 as [|x r IH]; intros m2 iv off; cbn [ofb_loop app].
    - destruct (ofb_loop bs E iv off m2) as [[a b] c]. reflexivity.
    - rewrite IH.
      destruct (ofb_loop bs E _ (N.land (off + 1) (mask bs)) r) as [[iv1 off1] o1].
      destruct (ofb_loop bs E iv1 off1 m2) as [[iv2 off2] o2]. reflexivity.
  Qed.

  Theorem ctr_chunking_gen : forall m1 m2 w off sb,
    ctr_loop bs E incr w off sb (m1 ++ m2) =
    let '(w1, off1, sb1, o1) := ctr_loop bs E incr w off sb m1 in
    let '(w2, off2, sb2, o2) := ctr_loop bs E incr w1 off1 sb1 m2 in (w2, off2, sb2, o1 ++ o2).
  Proof.
    induction m1 as [|x r IH]; intros m2 w off sb; cbn [ctr_loop app].
    - destruct (ctr_loop bs E incr w off sb m2) as [[[a b] c] d]. reflexivity.
    - rewrite IH.
      destruct (ctr_loop bs E incr _ (N.land (off + 1) (mask bs)) _ r) as [[[w1 off1] sb1] o1].
      destruct (ctr_loop bs E incr w1 off1 sb1 m2) as [[[w2 off2] sb2] o2]. reflexivity.
  Qed.

  (* CBC also chains through iv: whole blocks in two calls = one call *)
  Theorem cbc_enc_chunking_gen : forall n1 n2 m1 m2 iv, length m1 = (n1 * bs)%nat ->
    cbc_enc_loop bs E (n1 + n2) iv (m1 ++ m2) =
    let '(iv1, o1) := cbc_enc_loop bs E n1 iv m1 in
    let '(iv2, o2) := cbc_enc_loop bs E n2 iv1 m2 in (iv2, o1 ++ o2).
  Proof.
    induction n1; intros n2 m1 m2 iv Hl; cbn [cbc_enc_loop Nat.add].
    - destruct m1; [|discriminate]. cbn. destruct (cbc_enc_loop bs E n2 iv m2). reflexivity.
    - assert (Hf : (bs <= length m1)%nat) by (cbn in Hl; lia).
      rewrite (firstn_app_le _ _ _ _ Hf), (skipn_app_le _ _ _ _ Hf).
      rewrite (IHn1 n2 (skipn bs m1) m2 _ (skipn_len _ _ Hl)).
      destruct (cbc_enc_loop bs E n1 _ (skipn bs m1)) as [iv1 o1].
      destruct (cbc_enc_loop bs E n2 iv1 m2) as [iv2 o2]. rewrite app_assoc. reflexivity.
  Qed.
  Theorem cbc_dec_chunking_gen : forall n1 n2 m1 m2 iv, length m1 = (n1 * bs)%nat ->
    cbc_dec_loop bs D (n1 + n2) iv (m1 ++ m2) =
    let '(iv1, o1) := cbc_dec_loop bs D n1 iv m1 in
    let '(iv2, o2) := cbc_dec_loop bs D n2 iv1 m2 in (iv2, o1 ++ o2).
  Proof.
    induction n1; intros n2 m1 m2 iv Hl; cbn [cbc_dec_loop Nat.add].
    - destruct m1; [|discriminate]. cbn. destruct (cbc_dec_loop bs D n2 iv m2). reflexivity.
    - assert (Hf : (bs <= length m1)%nat) by (cbn in Hl; lia).
      rewrite (firstn_app_le _ _ _ _ Hf), (skipn_app_le _ _ _ _ Hf).
      rewrite (IHn1 n2 (skipn bs m1) m2 _ (skipn_len _ _ Hl)).
      destruct (cbc_dec_loop bs D n1 _ (skipn bs m1)) as [iv1 o1].
      destruct (cbc_dec_loop bs D n2 iv1 m2) as [iv2 o2]. rewrite app_assoc. reflexivity.
  Qed.

  (* ---------- any partition (induction on the list of chunks) ---------- *)
  Fixpoint cfb_calls (enc : bool) (iv : list N) (off : N) (chunks : list (list N)) : list N * N * list N :=
    match chunks with
    | [] => (iv, off, [])
    | c :: r => let '(iv1, off1, o1) := cfb_loop bs E enc iv off c in
                let '(iv2, off2, o2) := cfb_calls enc iv1 off1 r in (iv2, off2, o1 ++ o2)
    end.
  Theorem cfb_any_partition_gen : forall enc chunks iv off,
    cfb_calls enc iv off chunks = cfb_loop bs E enc iv off (concat chunks).
  Proof.
    induction chunks as [|c r IH]; intros iv off; cbn [cfb_calls concat]; [reflexivity|].
    rewrite cfb_chunking_gen. destruct (cfb_loop bs E enc iv off c) as [[iv1 off1] o1]. rewrite IH. reflexivity.
  Qed.

  Fixpoint ofb_calls (iv : list N) (off : N) (chunks : list (list N)) : list N * N * list N :=
    match chunks with
    | [] => (iv, off, [])
    | c :: r => let '(iv1, off1, o1) := ofb_loop bs E iv off c in
                let '(iv2, off2, o2) := ofb_calls iv1 off1 r in (iv2, off2, o1 ++ o2)
    end.
  Theorem ofb_any_partition_gen : forall chunks iv off,
    ofb_calls iv off chunks = ofb_loop bs E iv off (concat chunks).
  Proof.
    induction chunks as [|c r IH]; intros iv off; cbn [ofb_calls concat]; [reflexivity|].
    rewrite ofb_chunking_gen. destruct (ofb_loop bs E iv off c) as [[iv1 off1] o1]. rewrite IH. reflexivity.
  Qed.

  Fixpoint ctr_calls (w : list N) (off : N) (sb : list N) (chunks : list (list N)) : list N * N * list N * list N :=
    match chunks with
    | [] => (w, off, sb, [])
    | c :: r => let '(w1, off1, sb1, o1) := ctr_loop bs E incr w off sb c in
                let '(w2, off2, sb2, o2) := ctr_calls w1 off1 sb1 r in (w2, off2, sb2, o1 ++ o2)
    end.
  Theorem ctr_any_partition_gen : forall chunks w off sb,
    ctr_calls w off sb chunks = ctr_loop bs E incr w off sb (concat chunks).
  Proof.
    induction chunks as [|c r IH]; intros w off sb; cbn [ctr_calls concat]; [reflexivity|].
    rewrite ctr_chunking_gen. destruct (ctr_loop bs E incr w off sb c) as [[[w1 off1] sb1] o1]. rewrite IH. reflexivity.
  Qed.

  (* ---------- the offset stays below the block size (so the next call's check passes) ---------- *)
  Hypothesis mask_lt : forall x, N.land x (mask bs) < N.of_nat bs.

  Lemma cfb_off_lt : forall enc m iv off, off < N.of_nat bs ->
    snd (fst (cfb_loop bs E enc iv off m)) < N.of_nat bs.
  Proof.
    induction m as [|x r IH]; intros iv off Ho; cbn [cfb_loop]; [exact Ho|].
    match goal with |- context [cfb_loop bs E enc ?a ?b r] => specialize (IH a b (mask_lt _)); destruct (cfb_loop bs E enc a b r) as [[? ?] ?] end.
    exact IH.
  Qed.
  Lemma ofb_off_lt : forall m iv off, off < N.of_nat bs ->
    snd (fst (ofb_loop bs E iv off m)) < N.of_nat bs.
  Proof.
    induction m as [|x r IH]; intros iv off Ho; cbn [ofb_loop]; [exact Ho|].
    match goal with |- context [ofb_loop bs E ?a ?b r] => specialize (IH a b (mask_lt _)); destruct (ofb_loop bs E a b r) as [[? ?] ?] end.
    exact IH.
  Qed.
  Lemma ctr_off_lt : forall m w off sb, off < N.of_nat bs ->
    snd (fst (fst (ctr_loop bs E incr w off sb m))) < N.of_nat bs.
  Proof.
    induction m as [|x r IH]; intros w off sb Ho; cbn [ctr_loop]; [exact Ho|].
    match goal with |- context [ctr_loop bs E incr ?a ?b ?c r] => specialize (IH a b c (mask_lt _)); destruct (ctr_loop bs E incr a b c r) as [[[? ?] ?] ?] end.
    exact IH.
  Qed.
End Generic.

(* ---------- the counter as coded is a little-endian 128-bit (AES) / 64-bit (DES) counter ---------- *)
Theorem ctr_counter_carry_aes : forall n0 n1, n0 < two64 -> n1 < two64 ->
  let v := (n0 + two64 * n1 + 1) mod (two64 * two64) in
  incr_aes [n0; n1] = [v mod two64; v / two64].
Proof.
  intros n0 n1 H0 H1 v. unfold incr_aes.
  assert (T : two64 <> 0) by (unfold two64; lia).
  destruct (N.eq_dec (n0 + 1) two64) as [Hc|Hc].
  - (* carry *)
    replace ((n0 + 1) mod two64) with 0 by (rewrite Hc, N.mod_same; auto).
    cbn [N.eqb].
    assert (Hv : v = (two64 * (n1 + 1)) mod (two64 * two64)) by (unfold v; f_equal; lia).
    rewrite N.mul_mod_distr_l in Hv by auto.
    rewrite Hv. rewrite N.mul_comm at 1. rewrite N.mod_mul by auto.
    rewrite N.mul_comm, N.div_mul by auto. reflexivity.
  - assert (Hlt : n0 + 1 < two64) by lia.
    rewrite (N.mod_small (n0 + 1)) by auto.
    destruct (N.eqb_spec (n0 + 1) 0); [lia|].
    assert (Hv : v = (n0 + 1) + n1 * two64).
    { unfold v. rewrite N.mod_small; [lia|]. nia. }
    rewrite Hv. rewrite N.mod_add by auto. rewrite N.mod_small by auto.
    rewrite N.div_add by auto. rewrite N.div_small by auto. reflexivity.
Qed.

Theorem ctr_counter_des : forall n, incr_des [n] = [(n + 1) mod two64].
Proof. reflexivity. Qed.
