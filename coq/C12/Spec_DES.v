(* C12 — specification layer, DES: an executable transcription of FIPS 46-3
   (IP, IP^-1, E, P, S1..S8, PC-1, PC-2, the left-shift schedule, the 16-round
   Feistel network).  A block is a list of 64 booleans, bit 1 of the standard
   first (= most significant bit of the first byte); tables are 1-based as in
   the standard.  Definitions only (vectors in KAT_DES.v, proofs in
   Proofs_DES.v). *)
From Coq Require Export List NArith Bool.
Export ListNotations.
Local Open Scope N_scope.

Definition IP : list nat :=
  [58;50;42;34;26;18;10;2;60;52;44;36;28;20;12;4;62;54;46;38;30;22;14;6;64;56;48;40;32;24;16;8;57;49;41;33;25;17;9;1;59;51;43;35;27;19;11;3;61;53;45;37;29;21;13;5;63;55;47;39;31;23;15;7]%nat.
Definition FP : list nat :=
  [40;8;48;16;56;24;64;32;39;7;47;15;55;23;63;31;38;6;46;14;54;22;62;30;37;5;45;13;53;21;61;29;36;4;44;12;52;20;60;28;35;3;43;11;51;19;59;27;34;2;42;10;50;18;58;26;33;1;41;9;49;17;57;25]%nat.
Definition E_tab : list nat :=
  [32;1;2;3;4;5;4;5;6;7;8;9;8;9;10;11;12;13;12;13;14;15;16;17;16;17;18;19;20;21;20;21;22;23;24;25;24;25;26;27;28;29;28;29;30;31;32;1]%nat.
Definition P_tab : list nat :=
  [16;7;20;21;29;12;28;17;1;15;23;26;5;18;31;10;2;8;24;14;32;27;3;9;19;13;30;6;22;11;4;25]%nat.
Definition PC1 : list nat :=
  [57;49;41;33;25;17;9;1;58;50;42;34;26;18;10;2;59;51;43;35;27;19;11;3;60;52;44;36;63;55;47;39;31;23;15;7;62;54;46;38;30;22;14;6;61;53;45;37;29;21;13;5;28;20;12;4]%nat.
Definition PC2 : list nat :=
  [14;17;11;24;1;5;3;28;15;6;21;10;23;19;12;4;26;8;16;7;27;20;13;2;41;52;31;37;47;55;30;40;51;45;33;48;44;49;39;56;34;53;46;42;50;36;29;32]%nat.
Definition shifts : list nat :=
  [1;1;2;2;2;2;2;2;1;2;2;2;2;2;2;1]%nat.
Definition S_boxes : list (list (list N)) :=
  [ [ [14;4;13;1;2;15;11;8;3;10;6;12;5;9;0;7];
      [0;15;7;4;14;2;13;1;10;6;12;11;9;5;3;8];
      [4;1;14;8;13;6;2;11;15;12;9;7;3;10;5;0];
      [15;12;8;2;4;9;1;7;5;11;3;14;10;0;6;13] ];
    [ [15;1;8;14;6;11;3;4;9;7;2;13;12;0;5;10];
      [3;13;4;7;15;2;8;14;12;0;1;10;6;9;11;5];
      [0;14;7;11;10;4;13;1;5;8;12;6;9;3;2;15];
      [13;8;10;1;3;15;4;2;11;6;7;12;0;5;14;9] ];
    [ [10;0;9;14;6;3;15;5;1;13;12;7;11;4;2;8];
      [13;7;0;9;3;4;6;10;2;8;5;14;12;11;15;1];
      [13;6;4;9;8;15;3;0;11;1;2;12;5;10;14;7];
      [1;10;13;0;6;9;8;7;4;15;14;3;11;5;2;12] ];
    [ [7;13;14;3;0;6;9;10;1;2;8;5;11;12;4;15];
      [13;8;11;5;6;15;0;3;4;7;2;12;1;10;14;9];
      [10;6;9;0;12;11;7;13;15;1;3;14;5;2;8;4];
      [3;15;0;6;10;1;13;8;9;4;5;11;12;7;2;14] ];
    [ [2;12;4;1;7;10;11;6;8;5;3;15;13;0;14;9];
      [14;11;2;12;4;7;13;1;5;0;15;10;3;9;8;6];
      [4;2;1;11;10;13;7;8;15;9;12;5;6;3;0;14];
      [11;8;12;7;1;14;2;13;6;15;0;9;10;4;5;3] ];
    [ [12;1;10;15;9;2;6;8;0;13;3;4;14;7;5;11];
      [10;15;4;2;7;12;9;5;6;1;13;14;0;11;3;8];
      [9;14;15;5;2;8;12;3;7;0;4;10;1;13;11;6];
      [4;3;2;12;9;5;15;10;11;14;1;7;6;0;8;13] ];
    [ [4;11;2;14;15;0;8;13;3;12;9;7;5;10;6;1];
      [13;0;11;7;4;9;1;10;14;3;5;12;2;15;8;6];
      [1;4;11;13;12;3;7;14;10;15;6;8;0;5;9;2];
      [6;11;13;8;1;4;10;7;9;5;0;15;14;2;3;12] ];
    [ [13;2;8;4;6;15;11;1;10;9;3;14;5;0;12;7];
      [1;15;13;8;10;3;7;4;12;5;6;11;0;14;9;2];
      [7;11;4;1;9;12;14;2;0;6;10;13;15;3;5;8];
      [2;1;14;7;4;10;8;13;15;12;9;0;3;5;6;11] ] ].

Definition permute (tbl : list nat) (x : list bool) : list bool :=
  map (fun i => nth (i - 1) x false) tbl.

Fixpoint xorbl (a b : list bool) : list bool :=
  match a, b with
  | x :: a', y :: b' => xorb x y :: xorbl a' b'
  | _, _ => []
  end.

(* ---- bytes <-> bits (bit 1 = most significant bit of byte 1) ---- *)
Definition bits_of_byte (b : N) : list bool :=
  [N.testbit b 7; N.testbit b 6; N.testbit b 5; N.testbit b 4;
   N.testbit b 3; N.testbit b 2; N.testbit b 1; N.testbit b 0].
Definition byte_of_bits (l : list bool) : N :=
  fold_left (fun acc (x : bool) => N.double acc + (if x then 1 else 0)) l 0.
Definition bits_of_bytes (l : list N) : list bool := flat_map bits_of_byte l.
Fixpoint bytes_of_bits (n : nat) (l : list bool) : list N :=
  match n with
  | O => []
  | S m => byte_of_bits (firstn 8 l) :: bytes_of_bits m (skipn 8 l)
  end.

(* ---- key schedule ---- *)
Definition rotl (s : nat) (l : list bool) : list bool := skipn s l ++ firstn s l.

Fixpoint ks_rounds (sh : list nat) (c d : list bool) : list (list bool) :=
  match sh with
  | [] => []
  | s :: r => let c' := rotl s c in let d' := rotl s d in
              permute PC2 (c' ++ d') :: ks_rounds r c' d'
  end.
(* K1 .. K16 from the 64-bit key *)
Definition des_subkeys_bits (key : list bool) : list (list bool) :=
  let cd := permute PC1 key in ks_rounds shifts (firstn 28 cd) (skipn 28 cd).

(* ---- the cipher function f(R, K) = P(S(E(R) xor K)) ---- *)
Definition b2n (b : bool) (w : nat) : nat := if b then w else O.
Definition sbox_apply (s : list (list N)) (x : list bool) : list bool :=
  match x with
  | [b1;b2;b3;b4;b5;b6] =>
    let row := (b2n b1 2 + b2n b6 1)%nat in
    let col := (b2n b2 8 + b2n b3 4 + b2n b4 2 + b2n b5 1)%nat in
    let v := nth col (nth row s []) 0 in
    [N.testbit v 3; N.testbit v 2; N.testbit v 1; N.testbit v 0]
  | _ => [false;false;false;false]
  end.
Fixpoint sbox_layer (ss : list (list (list N))) (x : list bool) : list bool :=
  match ss with
  | [] => []
  | s :: r => sbox_apply s (firstn 6 x) ++ sbox_layer r (skipn 6 x)
  end.
Definition des_f (r k : list bool) : list bool :=
  permute P_tab (sbox_layer S_boxes (xorbl (permute E_tab r) k)).

(* ---- Feistel network: L' = R, R' = L xor f(R, K) ---- *)
Definition feistel_round (f : list bool -> list bool -> list bool) (lr : list bool * list bool) (k : list bool)
  : list bool * list bool :=
  (snd lr, xorbl (fst lr) (f (snd lr) k)).
Definition feistel (f : list bool -> list bool -> list bool) (ks : list (list bool)) (lr : list bool * list bool)
  : list bool * list bool :=
  fold_left (feistel_round f) ks lr.

(* the complete algorithm on 64 bits: IP, 16 rounds, pre-output R16 L16, IP^-1 *)
Definition des_block (ks : list (list bool)) (x : list bool) : list bool :=
  let y := permute IP x in
  let lr := feistel des_f ks (firstn 32 y, skipn 32 y) in
  permute FP (snd lr ++ fst lr).

(* ---- byte-level interface ---- *)
Definition des_subkeys (key : list N) : list (list bool) := des_subkeys_bits (bits_of_bytes key).
(* encipher with ks = K1..K16, decipher with the same function and K16..K1 *)
Definition des_crypt (ks : list (list bool)) (blk : list N) : list N :=
  bytes_of_bits 8 (des_block ks (bits_of_bytes blk)).
