(* C12 — implementation layer, DES: muggle/c/crypt/openssl/openssl_des.c as it is coded
   (the code that runs when MUGGLE_CRYPT_OPTIMIZATION is on), written in the word-level
   language of Bitvec.v: C2L loads, the PERM_OP / HPERM_OP / ROTATE macros, IP and FP as
   PERM_OP sequences, D_ENCRYPT with the SP tables, DES_set_key_unchecked with the skb
   tables, DES_encrypt1 / encrypt2, the sub-key swap for decryption and the EDE chain of
   muggle_openssl_tdes_crypt.  The tables, the PERM_OP argument lists, the lookup order of
   D_ENCRYPT and the shift schedule come from coq/gen/Params_C12.v, regenerated from the
   source on every run.  uint32_t variables; the little-endian union reads/writes
   (u32.l / u32.h, memcpy of a uint32_t) are modelled as C2L-style byte composition.
   Definitions only. *)
From Coq Require Export List NArith Bool.
Export ListNotations.
From MV Require Export C12.Bitvec gen.Params_C12.
Local Open Scope N_scope.

(* tables 0..7 = openssl_des_sptrans, 8..15 = openssl_des_skb *)
Definition des_tabs : list (list N) := des_sptrans ++ des_skb.

Definition M32 : N := 0xffffffff.

(* ---- macros ---- *)
(* MUGGLE_OPENSSL_DES_PERM_OP(a,b,t,n,m): t = ((a >> n) ^ b) & m;  b ^= t;  a ^= t << n;   (uint32_t) *)
Definition perm_op (va vb vt : nat) (n : nat) (m : N) : prog :=
  [ (vt, Trunc 32 (And (Xor (Shr (Var va) n) (Var vb)) (Cst m)));
    (vb, Xor (Var vb) (Var vt));
    (va, Xor (Var va) (Shl 32 (Var vt) n)) ].
(* MUGGLE_OPENSSL_DES_HPERM_OP(a,t,n,m) with k = 16-n: t = ((a << k) ^ a) & m;  a = a ^ t ^ (t >> k) *)
Definition hperm_op (va vt : nat) (k : nat) (m : N) : prog :=
  [ (vt, Trunc 32 (And (Xor (Shl 32 (Var va) k) (Var va)) (Cst m)));
    (va, Xor (Xor (Var va) (Var vt)) (Shr (Var vt) k)) ].
(* MUGGLE_OPENSSL_DES_ROTATE(v,n) = (v >> n) + (v << (32 - n))   (uint32_t arithmetic) *)
Definition rotate (e : exp) (n : nat) : exp := Add 32 (Shr e n) (Shl 32 e (32 - n)).
(* the four bytes at p as a uint32_t (little-endian host; MUGGLE_OPENSSL_C2L) *)
Definition c2l (b0 b1 b2 b3 : nat) : exp :=
  Or (Or (Or (And (Var b0) (Cst 0xff)) (And (Shl 32 (Var b1) 8) (Cst 0xff00)))
         (And (Shl 32 (Var b2) 16) (Cst 0xff0000)))
     (And (Shl 32 (Var b3) 24) (Cst 0xff000000)).
(* byte k of a uint32_t stored in memory *)
Definition byte_of (v : nat) (k : nat) : exp := And (Shr (Var v) (8 * k)) (Cst 0xff).

(* ---- variables of the block functions ---- *)
Definition vL : nat := 8.     (* uint32_t l *)
Definition vR : nat := 9.     (* uint32_t r *)
Definition vTT : nat := 10.   (* tt / t of the macros *)
Definition vU : nat := 11.    (* u of D_ENCRYPT *)
Definition vK0 : nat := 12.   (* ks_u32[idx] *)
Definition vK1 : nat := 13.   (* ks_u32[idx+1] *)
Definition vO : nat := 14.    (* output bytes 14..21 *)

(* MUGGLE_OPENSSL_DES_IP(l,r) / _FP(l,r): the PERM_OP list of Params, "true" = first argument is the macro's r *)
Definition perm_seq (ml mr : nat) (ops : list (bool * nat * N)) : prog :=
  flat_map (fun o => match o with (a_is_r, n, m) =>
                       if a_is_r : bool then perm_op mr ml vTT n m else perm_op ml mr vTT n m end) ops.

(* DES_encrypt1 before the rounds: r = input->u32.l; l = input->u32.h; IP(r,l); r = ROTATE(r,29); l = ROTATE(l,29) *)
Definition enc1_pre : prog :=
  [ (vR, c2l 0 1 2 3); (vL, c2l 4 5 6 7) ] ++
  perm_seq vR vL des_ip_ops ++
  [ (vR, And (rotate (Var vR) 29) (Cst M32)); (vL, And (rotate (Var vL) 29) (Cst M32)) ].
(* DES_encrypt2 (no IP): r = input->u32.l; l = input->u32.h; rotate *)
Definition enc2_pre : prog :=
  [ (vR, c2l 0 1 2 3); (vL, c2l 4 5 6 7);
    (vR, And (rotate (Var vR) 29) (Cst M32)); (vL, And (rotate (Var vL) 29) (Cst M32)) ].

(* MUGGLE_OPENSSL_D_ENCRYPT(l, r, ks, idx): u = r ^ ks[idx]; t = r ^ ks[idx+1]; t = ROTATE(t,4);
   l ^= sptrans[0][(u>>2)&0x3f] ^ sptrans[2][(u>>10)&0x3f] ^ ... (order of Params) *)
Definition lookup_exp (o : nat * bool * nat) : exp :=
  match o with (tab, from_t, sh) => Tab tab (And (Shr (Var (if from_t : bool then vTT else vU)) sh) (Cst 0x3f)) end.
Definition xor_chain (l : list exp) : exp :=
  match l with [] => Cst 0 | e :: r => fold_left Xor r e end.
Definition d_enc_idx (vr : nat) : prog :=
  [ (vU, Xor (Var vr) (Var vK0));
    (vTT, Xor (Var vr) (Var vK1));
    (vTT, rotate (Var vTT) 4) ].
Definition d_enc_f : exp := xor_chain (map lookup_exp des_round_lookups).
Definition d_encrypt (vl vr : nat) : prog := d_enc_idx vr ++ [ (vl, Xor (Var vl) d_enc_f) ].

(* after the rounds (encrypt1): l = ROTATE(l,3); r = ROTATE(r,3); FP(r,l); output->u32.l = l; output->u32.h = r *)
Definition store_out (lo hi : nat) : prog :=
  [ (vO, byte_of lo 0); (vO + 1, byte_of lo 1); (vO + 2, byte_of lo 2); (vO + 3, byte_of lo 3);
    (vO + 4, byte_of hi 0); (vO + 5, byte_of hi 1); (vO + 6, byte_of hi 2); (vO + 7, byte_of hi 3) ]%nat.
Definition enc1_post : prog :=
  [ (vL, And (rotate (Var vL) 3) (Cst M32)); (vR, And (rotate (Var vR) 3) (Cst M32)) ] ++
  perm_seq vR vL des_fp_ops ++ store_out vL vR.
Definition enc2_post : prog :=
  [ (vL, And (rotate (Var vL) 3) (Cst M32)); (vR, And (rotate (Var vR) 3) (Cst M32)) ] ++ store_out vL vR.

(* The temporaries (tt, u, t) are written before they are read in every macro, so each stage is run on
   a fresh environment holding only its live variables. *)
Definition env_blk (blk : list N) : list N := firstn 8 (blk ++ repeat 0 8).
Definition env_lr (l r k0 k1 : N) : list N := [0;0;0;0;0;0;0;0; l; r; 0; 0; k0; k1].
Definition get_lr (env : list N) : N * N := (nth vL env 0, nth vR env 0).
Definition out_bytes (env : list N) : list N := map (fun k => nth (vO + k)%nat env 0) (seq 0 8).

Definition d_enc_lr (lr k : N * N) : N * N :=
  get_lr (run des_tabs (env_lr (fst lr) (snd lr) (fst k) (snd k)) (d_encrypt vL vR)).
Definition d_enc_rl (lr k : N * N) : N * N :=
  get_lr (run des_tabs (env_lr (fst lr) (snd lr) (fst k) (snd k)) (d_encrypt vR vL)).

(* the 16 D_ENCRYPT invocations: (l,r) with ks[0..1], (r,l) with ks[2..3], ... *)
Fixpoint rounds (ks : list (N * N)) (lr : N * N) : N * N :=
  match ks with
  | k1 :: k2 :: rest => rounds rest (d_enc_rl (d_enc_lr lr k1) k2)
  | _ => lr
  end.

Definition load_with (p : prog) (blk : list N) : N * N := get_lr (run des_tabs (env_blk blk) p).
Definition store_with (p : prog) (lr : N * N) : list N := out_bytes (run des_tabs (env_lr (fst lr) (snd lr) 0 0) p).

(* muggle_openssl_encrypt1 / encrypt2 on the 8 bytes of a block *)
Definition impl_encrypt1 (ks : list (N * N)) (blk : list N) : list N :=
  store_with enc1_post (rounds ks (load_with enc1_pre blk)).
Definition impl_encrypt2 (ks : list (N * N)) (blk : list N) : list N :=
  store_with enc2_post (rounds ks (load_with enc2_pre blk)).

(* ---- muggle_openssl_des_set_key_unchecked ---- *)
Definition vC : nat := 8.     (* uint32_t c *)
Definition vD : nat := 9.     (* uint32_t d *)
Definition vT : nat := 10.    (* t *)
Definition vS : nat := 11.    (* s *)
Definition vT2 : nat := 12.   (* t2 *)
Definition vKS : nat := 20.   (* ks->sk[i].bytes[0..3] as a word: 20 + 2i, bytes[4..7]: 21 + 2i *)

Definition pc1_prog : prog :=
  [ (vC, c2l 0 1 2 3); (vD, c2l 4 5 6 7) ] ++
  flat_map (fun o => match o with
                     | inl (a_is_d, n, m) => if a_is_d : bool then perm_op vD vC vT n m else perm_op vC vD vT n m
                     | inr (a_is_d, k, m) => hperm_op (if a_is_d : bool then vD else vC) vT k m
                     end) des_pc1_ops ++
  (* d = (((d & 0xff) << 16) | (d & 0xff00) | ((d & 0xff0000) >> 16) | ((c & 0xf0000000) >> 4));  c &= 0x0fffffff; *)
  [ (vD, Trunc 32 (Or (Or (Or (Shl 64 (And (Var vD) (Cst 0xff)) 16) (And (Var vD) (Cst 0xff00)))
                          (Shr (And (Var vD) (Cst 0xff0000)) 16))
                      (Shr (And (Var vC) (Cst 0xf0000000)) 4)));
    (vC, And (Var vC) (Cst 0x0fffffff)) ].

Definition skb (k : nat) (idx : exp) : exp := Tab (8 + k) idx.
(* one iteration of the 16-round loop, i-th round, shifts1[i] = s1, shifts2[i] = s2 *)
Definition ks_iter (i s1 s2 : nat) : prog :=
  [ (vC, Or (Shr (Var vC) s1) (Shl 32 (Var vC) s2));
    (vD, Or (Shr (Var vD) s1) (Shl 32 (Var vD) s2));
    (vC, And (Var vC) (Cst 0x0fffffff));
    (vD, And (Var vD) (Cst 0x0fffffff));
    (vS, Or (Or (Or (skb 0 (And (Var vC) (Cst 0x3f)))
                    (skb 1 (Or (And (Shr (Var vC) 6) (Cst 0x03)) (And (Shr (Var vC) 7) (Cst 0x3c)))))
                (skb 2 (Or (And (Shr (Var vC) 13) (Cst 0x0f)) (And (Shr (Var vC) 14) (Cst 0x30)))))
            (skb 3 (Or (Or (And (Shr (Var vC) 20) (Cst 0x01)) (And (Shr (Var vC) 21) (Cst 0x06)))
                       (And (Shr (Var vC) 22) (Cst 0x38)))));
    (vT, Or (Or (Or (skb 4 (And (Var vD) (Cst 0x3f)))
                    (skb 5 (Or (And (Shr (Var vD) 7) (Cst 0x03)) (And (Shr (Var vD) 8) (Cst 0x3c)))))
                (skb 6 (And (Shr (Var vD) 15) (Cst 0x3f))))
            (skb 7 (Or (And (Shr (Var vD) 21) (Cst 0x0f)) (And (Shr (Var vD) 22) (Cst 0x30)))));
    (* t2 = ((t << 16L) | (s & 0x0000ffffL)) & 0xffffffffL;  t2 = ROTATE(t2, 30) & 0xffffffffL; *)
    (vT2, Trunc 32 (And (Or (Shl 64 (Var vT) 16) (And (Var vS) (Cst 0xffff))) (Cst M32)));
    (vKS + 2 * i, And (rotate (Var vT2) 30) (Cst M32));
    (* t2 = ((s >> 16L) | (t & 0xffff0000L));  t2 = ROTATE(t2, 26) & 0xffffffffL; *)
    (vT2, Trunc 32 (Or (Shr (Var vS) 16) (And (Var vT) (Cst 0xffff0000))));
    (vKS + 2 * i + 1, And (rotate (Var vT2) 26) (Cst M32)) ]%nat.

Fixpoint ks_loop (i : nat) (s1 s2 : list nat) : prog :=
  match s1, s2 with
  | a :: r1, b :: r2 => ks_iter i a b ++ ks_loop (S i) r1 r2
  | _, _ => []
  end.
Definition set_key_prog : prog := pc1_prog ++ ks_loop 0 des_shifts1 des_shifts2.

Definition impl_set_key (key : list N) : list (N * N) :=
  let env := run des_tabs (env_blk key) set_key_prog in
  map (fun i => (nth (vKS + 2 * i)%nat env 0, nth (vKS + 2 * i + 1)%nat env 0)) (seq 0 16).

(* muggle_openssl_des_gen_subkeys(op, key, subkeys): sk[i] <-> sk[15-i] when op == MUGGLE_DECRYPT *)
Definition impl_gen_subkeys (decrypt : bool) (key : list N) : list (N * N) :=
  if decrypt then rev (impl_set_key key) else impl_set_key key.

(* muggle_openssl_des_crypt *)
Definition impl_des_crypt (ks : list (N * N)) (blk : list N) : list N := impl_encrypt1 ks blk.

(* muggle_openssl_tdes_crypt: l = input->u32.l; r = input->u32.h; IP(l,r); three encrypt2; FP(r,l) on the result *)
Definition tdes_pre : prog :=
  [ (vL, c2l 0 1 2 3); (vR, c2l 4 5 6 7) ] ++ perm_seq vL vR des_ip_ops ++ store_out vL vR.
Definition tdes_post : prog :=
  [ (vL, c2l 0 1 2 3); (vR, c2l 4 5 6 7) ] ++ perm_seq vR vL des_fp_ops ++ store_out vL vR.
Definition run_bytes (p : prog) (blk : list N) : list N :=
  out_bytes (run des_tabs (env_blk blk) p).
Definition impl_tdes_crypt (ks1 ks2 ks3 : list (N * N)) (blk : list N) : list N :=
  run_bytes tdes_post (impl_encrypt2 ks3 (impl_encrypt2 ks2 (impl_encrypt2 ks1 (run_bytes tdes_pre blk)))).
