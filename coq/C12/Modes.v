(* C12 — code layer: the mode loops and parameter checks of
   muggle/c/crypt/aes.c, des.c, tdes.c transcribed step by step.
   The block primitive is a Section variable; it is instantiated with the
   specification layer (Spec_AES / Spec_DES) at the end of the file.
   Buffers are lists of bytes (N < 256).  A "pointer is non-NULL" flag
   accompanies every pointer parameter so that the order of the
   MUGGLE_CHECK_RET chain is part of the model.  Caller buffers are distinct
   (input, output, iv never alias), as in the library's documented use.
   Definitions only. *)
From MV Require Export C12.Spec_AES C12.Spec_DES.
From Coq Require Import ZArith.
Local Open Scope N_scope.

(* MUGGLE_OK / MUGGLE_ERR_NULL_PARAM / MUGGLE_ERR_INVALID_PARAM / MUGGLE_ERR_CRYPT_KEY_SIZE *)
Inductive err := OK | E_NULL | E_INVALID | E_KEYSIZE.
(* MUGGLE_DECRYPT / MUGGLE_ENCRYPT / any other int *)
Inductive op := OpDec | OpEnc | OpBad.
(* MUGGLE_BLOCK_CIPHER_MODE_* / any other int *)
Inductive mode := ECB | CBC | CFB | OFB | CTR | ModeBad.

Definition op_valid (o : op) : bool := match o with OpBad => false | _ => true end.
Definition mode_valid (m : mode) : bool := match m with ModeBad => false | _ => true end.
Definition mode_eqb (a b : mode) : bool :=
  match a, b with
  | ECB, ECB | CBC, CBC | CFB, CFB | OFB, OFB | CTR, CTR => true
  | _, _ => false
  end.
Definition is_enc (o : op) : bool := match o with OpEnc => true | _ => false end.

(* the MUGGLE_CHECK_RET chain: first failing condition decides *)
Fixpoint first_err (l : list (bool * err)) : err :=
  match l with
  | [] => OK
  | (c, e) :: r => if c then first_err r else e
  end.

Fixpoint upd (i : nat) (x : N) (l : list N) : list N :=
  match l, i with
  | [], _ => []
  | _ :: r, O => x :: r
  | a :: r, S j => a :: upd j x r
  end.

(* uint64_t <-> its 8 bytes in memory (little-endian host, mugglec_config.h) *)
Definition le64 (n : N) : list N :=
  [N.land n 255; N.land (N.shiftr n 8) 255; N.land (N.shiftr n 16) 255; N.land (N.shiftr n 24) 255;
   N.land (N.shiftr n 32) 255; N.land (N.shiftr n 40) 255; N.land (N.shiftr n 48) 255; N.land (N.shiftr n 56) 255].
Definition of_le (l : list N) : N := fold_right (fun b acc => b + 256 * acc) 0 l.
Fixpoint words_of_bytes (n : nat) (l : list N) : list N :=
  match n with
  | O => []
  | S m => of_le (firstn 8 l) :: words_of_bytes m (skipn 8 l)
  end.
Definition bytes_of_words (w : list N) : list N := flat_map le64 w.
Definition two64 : N := 18446744073709551616.

(* aes.c muggle_aes_ctr:  nonce[0] += 1; if (nonce[0] == 0) nonce[1] += 1;   (uint64_t) *)
Definition incr_aes (w : list N) : list N :=
  match w with
  | [n0; n1] => let n0' := (n0 + 1) mod two64 in
                [n0'; if n0' =? 0 then (n1 + 1) mod two64 else n1]
  | _ => w
  end.
(* des.c / tdes.c muggle_*_ctr:  *nonce += 1;   (uint64_t) *)
Definition incr_des (w : list N) : list N :=
  match w with
  | [n] => [(n + 1) mod two64]
  | _ => w
  end.

(* caller-held chaining state: iv (CBC/CFB/OFB) or the nonce's memory image (CTR),
   *iv_offset / *nonce_offset, stream_block *)
Record st := { s_iv : list N; s_off : N; s_sb : list N }.
(* result of one call: error code, output bytes (None = output buffer not written), state after *)
Record cres := { r_err : err; r_out : option (list N); r_st : st }.
(* which pointer arguments are non-NULL *)
Record ptrs := { p_ctx : bool; p_in : bool; p_out : bool; p_iv : bool; p_off : bool; p_sb : bool }.
Definition all_ptrs : ptrs := {| p_ctx := true; p_in := true; p_out := true; p_iv := true; p_off := true; p_sb := true |}.

Definition fail (e : err) (s : st) : cres := {| r_err := e; r_out := None; r_st := s |}.

Section Loops.
  Variable bs : nat.                      (* block size in bytes: 16 / 8 *)
  Variable blk : list N -> list N.        (* the block primitive called by the loop *)
  Variable nwords : nat.                  (* CTR: number of uint64_t in the nonce: 2 / 1 *)
  Variable incr : list N -> list N.       (* CTR: the counter increment as coded *)

  Definition mask : N := N.of_nat bs - 1.  (* & 0x0f, & 0x07 *)

  (* for (i = 0; i < len; ++i) crypt(input + offset, output + offset); offset += bs *)
  Fixpoint ecb_loop (nblocks : nat) (inp : list N) : list N :=
    match nblocks with
    | O => []
    | S n => blk (firstn bs inp) ++ ecb_loop n (skipn bs inp)
    end.

  (* encrypt: iv ^= input_block; crypt(iv -> output_block); iv = output_block *)
  Fixpoint cbc_enc_loop (nblocks : nat) (iv inp : list N) : list N * list N :=
    match nblocks with
    | O => (iv, [])
    | S n => let o := blk (xorl iv (firstn bs inp)) in
             let (iv', out) := cbc_enc_loop n o (skipn bs inp) in (iv', o ++ out)
    end.
  (* decrypt: crypt(input_block -> output_block); output_block ^= iv; iv = input_block *)
  Fixpoint cbc_dec_loop (nblocks : nat) (iv inp : list N) : list N * list N :=
    match nblocks with
    | O => (iv, [])
    | S n => let b := firstn bs inp in
             let o := xorl (blk b) iv in
             let (iv', out) := cbc_dec_loop n b (skipn bs inp) in (iv', o ++ out)
    end.

  (* for each byte: if (offset == 0) iv = E(iv); output[i] = input[i] ^ iv[offset];
     iv[offset] = encrypt ? output[i] : input[i]; offset = (offset + 1) & mask *)
  Fixpoint cfb_loop (enc : bool) (iv : list N) (off : N) (inp : list N) : list N * N * list N :=
    match inp with
    | [] => (iv, off, [])
    | x :: r =>
      let iv1 := if off =? 0 then blk iv else iv in
      let o := N.lxor x (nth (N.to_nat off) iv1 0) in
      let iv2 := upd (N.to_nat off) (if enc then o else x) iv1 in
      let '(iv3, off3, out) := cfb_loop enc iv2 (N.land (off + 1) mask) r in
      (iv3, off3, o :: out)
    end.

  (* for each byte: if (offset == 0) iv = E(iv); output[i] = input[i] ^ iv[offset]; offset = (offset + 1) & mask *)
  Fixpoint ofb_loop (iv : list N) (off : N) (inp : list N) : list N * N * list N :=
    match inp with
    | [] => (iv, off, [])
    | x :: r =>
      let iv1 := if off =? 0 then blk iv else iv in
      let o := N.lxor x (nth (N.to_nat off) iv1 0) in
      let '(iv3, off3, out) := ofb_loop iv1 (N.land (off + 1) mask) r in
      (iv3, off3, o :: out)
    end.

  (* for each byte: if (offset == 0) { increment nonce; stream_block = E(bytes of nonce); }
     output[i] = input[i] ^ stream_block[offset]; offset = (offset + 1) & mask *)
  Fixpoint ctr_loop (nonce : list N) (off : N) (sb : list N) (inp : list N) : list N * N * list N * list N :=
    match inp with
    | [] => (nonce, off, sb, [])
    | x :: r =>
      let nonce1 := if off =? 0 then incr nonce else nonce in
      let sb1 := if off =? 0 then blk (bytes_of_words nonce1) else sb in
      let o := N.lxor x (nth (N.to_nat off) sb1 0) in
      let '(nonce3, off3, sb3, out) := ctr_loop nonce1 (N.land (off + 1) mask) sb1 r in
      (nonce3, off3, sb3, o :: out)
    end.

  (* MUGGLE_ROUND_UP_POW_OF_2_MUL(num_bytes, bs) == num_bytes  (bs a power of two, num_bytes the
     length of a buffer in memory, far below 2^32 - bs) *)
  Definition len_ok (inp : list N) : bool := Nat.eqb (Nat.modulo (length inp) bs) 0.
  Definition off_ok (s : st) : bool := s_off s <? N.of_nat bs.

  Definition run_ecb (s : st) (inp : list N) : cres :=
    {| r_err := OK; r_out := Some (ecb_loop (Nat.div (length inp) bs) inp); r_st := s |}.
  Definition run_cbc (enc : bool) (s : st) (inp : list N) : cres :=
    let (iv', out) := (if enc then cbc_enc_loop else cbc_dec_loop) (Nat.div (length inp) bs) (s_iv s) inp in
    {| r_err := OK; r_out := Some out; r_st := {| s_iv := iv'; s_off := s_off s; s_sb := s_sb s |} |}.
  Definition run_cfb (enc : bool) (s : st) (inp : list N) : cres :=
    let '(iv', off', out) := cfb_loop enc (s_iv s) (s_off s) inp in
    {| r_err := OK; r_out := Some out; r_st := {| s_iv := iv'; s_off := off'; s_sb := s_sb s |} |}.
  Definition run_ofb (s : st) (inp : list N) : cres :=
    let '(iv', off', out) := ofb_loop (s_iv s) (s_off s) inp in
    {| r_err := OK; r_out := Some out; r_st := {| s_iv := iv'; s_off := off'; s_sb := s_sb s |} |}.
  Definition run_ctr (s : st) (inp : list N) : cres :=
    let '(w', off', sb', out) := ctr_loop (words_of_bytes nwords (s_iv s)) (s_off s) (s_sb s) inp in
    {| r_err := OK; r_out := Some out; r_st := {| s_iv := bytes_of_words w'; s_off := off'; s_sb := sb' |} |}.
End Loops.

(* ======================= AES (aes.c) ======================= *)
Record aes_ctx := { a_op : op; a_mode : mode; a_rk : list (list N) }.

(* muggle_aes_crypt(op, in, sk, out) -> muggle_openssl_aes_encrypt / _decrypt *)
Definition aes_crypt (o : op) (rk : list (list N)) : list N -> list N :=
  if is_enc o then cipher rk else inv_cipher rk.

(* muggle_aes_set_key; None = the context is not (completely) initialised *)
Definition aes_set_key (pkey pctx : bool) (o : op) (m : mode) (bits : N) (key : list N) : err * option aes_ctx :=
  match first_err [(op_valid o, E_INVALID); (mode_valid m, E_INVALID); (pkey, E_NULL); (pctx, E_NULL)] with
  | OK => match aes_round_keys bits key with
          | Some rk => (OK, Some {| a_op := o; a_mode := m; a_rk := rk |})
          | None => (E_KEYSIZE, None)
          end
  | e => (e, None)
  end.

(* The key size is a C int: muggle_aes_set_key(op, mode, key, int bits, ctx) hands it unchanged to
   muggle_openssl_aes_set_key, whose chain
     if (bits == 128) rounds = 10; else if (bits == 192) rounds = 12; else if (bits == 256) rounds = 14;
     else return MUGGLE_ERR_CRYPT_KEY_SIZE;
   compares the int itself (no division, no narrowing), so no negative, odd or large value is taken for a key
   size; the key schedule (rounds + 1 round keys from bits / 32 key words) is built only behind it. *)
Definition aes_rounds_of_bits (bits : Z) : option Z :=
  if (bits =? 128)%Z then Some 10%Z
  else if (bits =? 192)%Z then Some 12%Z
  else if (bits =? 256)%Z then Some 14%Z
  else None.
Definition aes_set_key_int (pkey pctx : bool) (o : op) (m : mode) (bits : Z) (key : list N) : err * option aes_ctx :=
  match first_err [(op_valid o, E_INVALID); (mode_valid m, E_INVALID); (pkey, E_NULL); (pctx, E_NULL)] with
  | OK => match aes_rounds_of_bits bits with
          | Some _ => aes_set_key pkey pctx o m (Z.to_N bits) key
          | None => (E_KEYSIZE, None)
          end
  | e => (e, None)
  end.

Definition aes_ecb (p : ptrs) (c : aes_ctx) (s : st) (inp : list N) : cres :=
  match first_err [(p_ctx p, E_NULL); (mode_eqb (a_mode c) ECB, E_INVALID); (p_in p, E_NULL);
                   (len_ok 16 inp, E_INVALID); (p_out p, E_NULL)] with
  | OK => run_ecb 16 (aes_crypt (a_op c) (a_rk c)) s inp
  | e => fail e s
  end.
Definition aes_cbc (p : ptrs) (c : aes_ctx) (s : st) (inp : list N) : cres :=
  match first_err [(p_ctx p, E_NULL); (mode_eqb (a_mode c) CBC, E_INVALID); (p_in p, E_NULL);
                   (len_ok 16 inp, E_INVALID); (p_iv p, E_NULL); (p_out p, E_NULL);
                   (op_valid (a_op c), E_INVALID)] with
  | OK => run_cbc 16 (aes_crypt (a_op c) (a_rk c)) (is_enc (a_op c)) s inp
  | e => fail e s
  end.
Definition aes_cfb128 (p : ptrs) (c : aes_ctx) (s : st) (inp : list N) : cres :=
  match first_err [(p_ctx p, E_NULL); (mode_eqb (a_mode c) CFB, E_INVALID); (p_in p, E_NULL);
                   (p_iv p, E_NULL); (p_off p, E_NULL); (off_ok 16 s, E_INVALID); (p_out p, E_NULL);
                   (op_valid (a_op c), E_INVALID)] with
  | OK => run_cfb 16 (cipher (a_rk c)) (is_enc (a_op c)) s inp
  | e => fail e s
  end.
Definition aes_ofb128 (p : ptrs) (c : aes_ctx) (s : st) (inp : list N) : cres :=
  match first_err [(p_ctx p, E_NULL); (mode_eqb (a_mode c) OFB, E_INVALID); (p_in p, E_NULL);
                   (p_iv p, E_NULL); (p_off p, E_NULL); (off_ok 16 s, E_INVALID); (p_out p, E_NULL);
                   (op_valid (a_op c), E_INVALID)] with
  | OK => run_ofb 16 (cipher (a_rk c)) s inp
  | e => fail e s
  end.
Definition aes_ctr (p : ptrs) (c : aes_ctx) (s : st) (inp : list N) : cres :=
  match first_err [(p_ctx p, E_NULL); (mode_eqb (a_mode c) CTR, E_INVALID); (p_in p, E_NULL);
                   (p_iv p, E_NULL); (p_off p, E_NULL); (off_ok 16 s, E_INVALID); (p_sb p, E_NULL);
                   (p_out p, E_NULL); (op_valid (a_op c), E_INVALID)] with
  | OK => run_ctr 16 (cipher (a_rk c)) 2 incr_aes s inp
  | e => fail e s
  end.

(* ======================= DES (des.c) ======================= *)
Record des_ctx := { d_op : op; d_mode : mode; d_ks : list (list bool) }.

(* muggle_openssl_des_gen_subkeys: K1..K16, reversed when op == MUGGLE_DECRYPT *)
Definition des_gen_subkeys (o : op) (key : list N) : list (list bool) :=
  match o with OpDec => rev (des_subkeys key) | _ => des_subkeys key end.

Definition des_set_key (pkey pctx : bool) (o : op) (m : mode) (key : list N) : err * option des_ctx :=
  match first_err [(op_valid o, E_INVALID); (pkey, E_NULL); (pctx, E_NULL)] with
  | OK => match m with
          | ECB | CBC => (OK, Some {| d_op := o; d_mode := m; d_ks := des_gen_subkeys o key |})
          | CFB | OFB | CTR => (OK, Some {| d_op := o; d_mode := m; d_ks := des_gen_subkeys OpEnc key |})
          | ModeBad => (E_INVALID, None)
          end
  | e => (e, None)
  end.

Section DesLike.
  (* des.c and tdes.c have the same mode functions over a different block primitive *)
  Variable blk : list N -> list N.
  Variable c_op : op.
  Variable c_mode : mode.

  Definition d_ecb (p : ptrs) (s : st) (inp : list N) : cres :=
    match first_err [(p_ctx p, E_NULL); (mode_eqb c_mode ECB, E_INVALID); (p_in p, E_NULL);
                     (len_ok 8 inp, E_INVALID); (p_out p, E_NULL)] with
    | OK => run_ecb 8 blk s inp
    | e => fail e s
    end.
  Definition d_cbc (p : ptrs) (s : st) (inp : list N) : cres :=
    match first_err [(p_ctx p, E_NULL); (mode_eqb c_mode CBC, E_INVALID); (p_in p, E_NULL);
                     (len_ok 8 inp, E_INVALID); (p_iv p, E_NULL); (p_out p, E_NULL);
                     (op_valid c_op, E_INVALID)] with
    | OK => run_cbc 8 blk (is_enc c_op) s inp
    | e => fail e s
    end.
  Definition d_cfb64 (p : ptrs) (s : st) (inp : list N) : cres :=
    match first_err [(p_ctx p, E_NULL); (mode_eqb c_mode CFB, E_INVALID); (p_in p, E_NULL);
                     (p_iv p, E_NULL); (p_off p, E_NULL); (off_ok 8 s, E_INVALID); (p_out p, E_NULL);
                     (op_valid c_op, E_INVALID)] with
    | OK => run_cfb 8 blk (is_enc c_op) s inp
    | e => fail e s
    end.
  Definition d_ofb64 (p : ptrs) (s : st) (inp : list N) : cres :=
    match first_err [(p_ctx p, E_NULL); (mode_eqb c_mode OFB, E_INVALID); (p_in p, E_NULL);
                     (p_iv p, E_NULL); (p_off p, E_NULL); (off_ok 8 s, E_INVALID); (p_out p, E_NULL)] with
    | OK => run_ofb 8 blk s inp
    | e => fail e s
    end.
  Definition d_ctr (p : ptrs) (s : st) (inp : list N) : cres :=
    match first_err [(p_ctx p, E_NULL); (mode_eqb c_mode CTR, E_INVALID); (p_in p, E_NULL);
                     (p_iv p, E_NULL); (p_off p, E_NULL); (off_ok 8 s, E_INVALID); (p_sb p, E_NULL);
                     (p_out p, E_NULL)] with
    | OK => run_ctr 8 blk 1 incr_des s inp
    | e => fail e s
    end.
End DesLike.

Definition des_blk (c : des_ctx) : list N -> list N := des_crypt (d_ks c).
Definition des_ecb (p : ptrs) (c : des_ctx) := d_ecb (des_blk c) (d_mode c) p.
Definition des_cbc (p : ptrs) (c : des_ctx) := d_cbc (des_blk c) (d_op c) (d_mode c) p.
Definition des_cfb64 (p : ptrs) (c : des_ctx) := d_cfb64 (des_blk c) (d_op c) (d_mode c) p.
Definition des_ofb64 (p : ptrs) (c : des_ctx) := d_ofb64 (des_blk c) (d_mode c) p.
Definition des_ctr (p : ptrs) (c : des_ctx) := d_ctr (des_blk c) (d_mode c) p.

(* ======================= Triple-DES (tdes.c) ======================= *)
Record tdes_ctx := { t_op : op; t_mode : mode;
                     t_ks1 : list (list bool); t_ks2 : list (list bool); t_ks3 : list (list bool) }.

Definition inv_op (o : op) : op := match o with OpEnc => OpDec | _ => OpEnc end.

(* muggle_tdes_set_key: the three DES contexts, in the order the block function applies them *)
Definition tdes_set_key (pk1 pk2 pk3 pctx : bool) (o : op) (m : mode) (k1 k2 k3 : list N) : err * option tdes_ctx :=
  match first_err [(op_valid o, E_INVALID); (pk1, E_NULL); (pk2, E_NULL); (pk3, E_NULL); (pctx, E_NULL)] with
  | OK => match m with
          | ECB | CBC =>
            if is_enc o then
              (OK, Some {| t_op := o; t_mode := m; t_ks1 := des_gen_subkeys o k1;
                           t_ks2 := des_gen_subkeys (inv_op o) k2; t_ks3 := des_gen_subkeys o k3 |})
            else
              (OK, Some {| t_op := o; t_mode := m; t_ks1 := des_gen_subkeys o k3;
                           t_ks2 := des_gen_subkeys (inv_op o) k2; t_ks3 := des_gen_subkeys o k1 |})
          | CFB | OFB | CTR =>
            (OK, Some {| t_op := o; t_mode := m; t_ks1 := des_gen_subkeys OpEnc k1;
                         t_ks2 := des_gen_subkeys OpDec k2; t_ks3 := des_gen_subkeys OpEnc k3 |})
          | ModeBad => (E_INVALID, None)
          end
  | e => (e, None)
  end.

(* muggle_tdes_crypt(ks1, ks2, ks3): the three 16-round passes in sequence *)
Definition tdes_blk (c : tdes_ctx) (b : list N) : list N :=
  des_crypt (t_ks3 c) (des_crypt (t_ks2 c) (des_crypt (t_ks1 c) b)).
Definition tdes_ecb (p : ptrs) (c : tdes_ctx) := d_ecb (tdes_blk c) (t_mode c) p.
Definition tdes_cbc (p : ptrs) (c : tdes_ctx) := d_cbc (tdes_blk c) (t_op c) (t_mode c) p.
Definition tdes_cfb64 (p : ptrs) (c : tdes_ctx) := d_cfb64 (tdes_blk c) (t_op c) (t_mode c) p.
Definition tdes_ofb64 (p : ptrs) (c : tdes_ctx) := d_ofb64 (tdes_blk c) (t_mode c) p.
Definition tdes_ctr (p : ptrs) (c : tdes_ctx) := d_ctr (tdes_blk c) (t_mode c) p.
