(* C12 — validation of the AES specification layer against the standard's own
   vectors (FIPS-197 Appendix A, B, C) by vm_compute.  Tests, not theorems. *)
From Coq Require Import String Ascii.
From MV Require Import C12.Spec_AES.
Local Open Scope N_scope.

Definition nib (c : ascii) : N :=
  let n := N_of_ascii c in
  if (48 <=? n) && (n <=? 57) then n - 48
  else if (97 <=? n) && (n <=? 102) then n - 87
  else if (65 <=? n) && (n <=? 70) then n - 55 else 0.
Fixpoint hex (s : string) : list N :=
  match s with
  | String a (String b r) => (16 * nib a + nib b) :: hex r
  | _ => []
  end.

Definition rk128 := round_keys (hex "2b7e151628aed2a6abf7158809cf4f3c") 4 10.
Definition rk192 := round_keys (hex "8e73b0f7da0e6452c810f32b809079e562f8ead2522c6b7b") 6 12.
Definition rk256 := round_keys (hex "603deb1015ca71be2b73aef0857d77811f352c073b6108d72d9810a30914dff4") 8 14.

(* Appendix A: key expansion, first generated word and last word *)
Example A1_w4 : nth 4 (key_expansion (hex "2b7e151628aed2a6abf7158809cf4f3c") 4 10) [] = hex "a0fafe17".
Proof. vm_compute. reflexivity. Qed.
Example A1_w43 : nth 43 (key_expansion (hex "2b7e151628aed2a6abf7158809cf4f3c") 4 10) [] = hex "b6630ca6".
Proof. vm_compute. reflexivity. Qed.
Example A2_w6 : nth 6 (key_expansion (hex "8e73b0f7da0e6452c810f32b809079e562f8ead2522c6b7b") 6 12) [] = hex "fe0c91f7".
Proof. vm_compute. reflexivity. Qed.
Example A2_w51 : nth 51 (key_expansion (hex "8e73b0f7da0e6452c810f32b809079e562f8ead2522c6b7b") 6 12) [] = hex "01002202".
Proof. vm_compute. reflexivity. Qed.
Example A3_w8 : nth 8 (key_expansion (hex "603deb1015ca71be2b73aef0857d77811f352c073b6108d72d9810a30914dff4") 8 14) [] = hex "9ba35411".
Proof. vm_compute. reflexivity. Qed.
Example A3_w59 : nth 59 (key_expansion (hex "603deb1015ca71be2b73aef0857d77811f352c073b6108d72d9810a30914dff4") 8 14) [] = hex "706c631e".
Proof. vm_compute. reflexivity. Qed.
Example A_lengths : (length rk128, length rk192, length rk256) = (11, 13, 15)%nat.
Proof. vm_compute. reflexivity. Qed.

(* Appendix B *)
Example B_cipher : cipher rk128 (hex "3243f6a8885a308d313198a2e0370734") = hex "3925841d02dc09fbdc118597196a0b32".
Proof. vm_compute. reflexivity. Qed.
Example B_inv : inv_cipher rk128 (hex "3925841d02dc09fbdc118597196a0b32") = hex "3243f6a8885a308d313198a2e0370734".
Proof. vm_compute. reflexivity. Qed.
(* Appendix B, round 1 intermediate values *)
Example B_round1_sub : sub_bytes (hex "193de3bea0f4e22b9ac68d2ae9f84808") = hex "d42711aee0bf98f1b8b45de51e415230".
Proof. vm_compute. reflexivity. Qed.
Example B_round1_shift : shift_rows (hex "d42711aee0bf98f1b8b45de51e415230") = hex "d4bf5d30e0b452aeb84111f11e2798e5".
Proof. vm_compute. reflexivity. Qed.
Example B_round1_mix : mix_columns (hex "d4bf5d30e0b452aeb84111f11e2798e5") = hex "046681e5e0cb199a48f8d37a2806264c".
Proof. vm_compute. reflexivity. Qed.

(* Appendix C.1 - C.3 *)
Definition c_pt := hex "00112233445566778899aabbccddeeff".
Example C1 : cipher (round_keys (hex "000102030405060708090a0b0c0d0e0f") 4 10) c_pt = hex "69c4e0d86a7b0430d8cdb78070b4c55a".
Proof. vm_compute. reflexivity. Qed.
Example C1_inv : inv_cipher (round_keys (hex "000102030405060708090a0b0c0d0e0f") 4 10) (hex "69c4e0d86a7b0430d8cdb78070b4c55a") = c_pt.
Proof. vm_compute. reflexivity. Qed.
Example C2 : cipher (round_keys (hex "000102030405060708090a0b0c0d0e0f1011121314151617") 6 12) c_pt = hex "dda97ca4864cdfe06eaf70a0ec0d7191".
Proof. vm_compute. reflexivity. Qed.
Example C2_inv : inv_cipher (round_keys (hex "000102030405060708090a0b0c0d0e0f1011121314151617") 6 12) (hex "dda97ca4864cdfe06eaf70a0ec0d7191") = c_pt.
Proof. vm_compute. reflexivity. Qed.
Example C3 : cipher (round_keys (hex "000102030405060708090a0b0c0d0e0f101112131415161718191a1b1c1d1e1f") 8 14) c_pt = hex "8ea2b7ca516745bfeafc49904b496089".
Proof. vm_compute. reflexivity. Qed.
Example C3_inv : inv_cipher (round_keys (hex "000102030405060708090a0b0c0d0e0f101112131415161718191a1b1c1d1e1f") 8 14) (hex "8ea2b7ca516745bfeafc49904b496089") = c_pt.
Proof. vm_compute. reflexivity. Qed.
(* C.1 round[1].start .. InvCipher equivalents are covered by the whole-cipher vectors above. *)

(* all of the above as one proposition (an obligation of Properties_C12.v) *)
Definition fips197_vectors_hold : Prop :=
  (nth 4 (key_expansion (hex "2b7e151628aed2a6abf7158809cf4f3c") 4 10) [] = hex "a0fafe17") /\
  (nth 43 (key_expansion (hex "2b7e151628aed2a6abf7158809cf4f3c") 4 10) [] = hex "b6630ca6") /\
  (nth 6 (key_expansion (hex "8e73b0f7da0e6452c810f32b809079e562f8ead2522c6b7b") 6 12) [] = hex "fe0c91f7") /\
  (nth 51 (key_expansion (hex "8e73b0f7da0e6452c810f32b809079e562f8ead2522c6b7b") 6 12) [] = hex "01002202") /\
  (nth 8 (key_expansion (hex "603deb1015ca71be2b73aef0857d77811f352c073b6108d72d9810a30914dff4") 8 14) [] = hex "9ba35411") /\
  (nth 59 (key_expansion (hex "603deb1015ca71be2b73aef0857d77811f352c073b6108d72d9810a30914dff4") 8 14) [] = hex "706c631e") /\
  ((length rk128, length rk192, length rk256) = (11, 13, 15)%nat) /\
  (cipher rk128 (hex "3243f6a8885a308d313198a2e0370734") = hex "3925841d02dc09fbdc118597196a0b32") /\
  (inv_cipher rk128 (hex "3925841d02dc09fbdc118597196a0b32") = hex "3243f6a8885a308d313198a2e0370734") /\
  (sub_bytes (hex "193de3bea0f4e22b9ac68d2ae9f84808") = hex "d42711aee0bf98f1b8b45de51e415230") /\
  (shift_rows (hex "d42711aee0bf98f1b8b45de51e415230") = hex "d4bf5d30e0b452aeb84111f11e2798e5") /\
  (mix_columns (hex "d4bf5d30e0b452aeb84111f11e2798e5") = hex "046681e5e0cb199a48f8d37a2806264c") /\
  (cipher (round_keys (hex "000102030405060708090a0b0c0d0e0f") 4 10) c_pt = hex "69c4e0d86a7b0430d8cdb78070b4c55a") /\
  (inv_cipher (round_keys (hex "000102030405060708090a0b0c0d0e0f") 4 10) (hex "69c4e0d86a7b0430d8cdb78070b4c55a") = c_pt) /\
  (cipher (round_keys (hex "000102030405060708090a0b0c0d0e0f1011121314151617") 6 12) c_pt = hex "dda97ca4864cdfe06eaf70a0ec0d7191") /\
  (inv_cipher (round_keys (hex "000102030405060708090a0b0c0d0e0f1011121314151617") 6 12) (hex "dda97ca4864cdfe06eaf70a0ec0d7191") = c_pt) /\
  (cipher (round_keys (hex "000102030405060708090a0b0c0d0e0f101112131415161718191a1b1c1d1e1f") 8 14) c_pt = hex "8ea2b7ca516745bfeafc49904b496089") /\
  (inv_cipher (round_keys (hex "000102030405060708090a0b0c0d0e0f101112131415161718191a1b1c1d1e1f") 8 14) (hex "8ea2b7ca516745bfeafc49904b496089") = c_pt).
Lemma fips197_vectors_ok : fips197_vectors_hold.
Proof. exact (conj A1_w4 (conj A1_w43 (conj A2_w6 (conj A2_w51 (conj A3_w8 (conj A3_w59 (conj A_lengths (conj B_cipher (conj B_inv (conj B_round1_sub (conj B_round1_shift (conj B_round1_mix (conj C1 (conj C1_inv (conj C2 (conj C2_inv (conj C3 C3_inv))))))))))))))))). Qed.
