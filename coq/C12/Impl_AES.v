(* C12 — implementation layer, AES: muggle/c/crypt/openssl/openssl_aes.c (the constant-time code that
   runs when MUGGLE_CRYPT_OPTIMIZATION is on) as it is coded.
   Straight-line circuits - openssl_sub_u64, openssl_inv_sub_u64, openssl_sub_u32, openssl_xtime_u64,
   openssl_xtime_u32 and one iteration of the column loops of openssl_mix_columns / openssl_inv_mix_columns
   (union byte views and the xtime calls expanded in place) - are translated statement by statement from
   the C source on every run (coq/gen/Params_C12.v, lib/props/c12.py) into the word-level language of
   Bitvec.v; variable 0 is the word on entry.  The control structure around them (the two-word state, the
   byte loops of shift_row, the round loops, the key expansion loop) is transcribed by hand below.
   uint64_t state[2] is viewed as its 16 bytes in memory, little-endian host.  Definitions only. *)
From Coq Require Export List NArith Bool.
Export ListNotations.
From MV Require Export C12.Bitvec gen.Params_C12 C12.Modes.
Local Open Scope N_scope.

(* run a circuit: variable 0 = *w on entry, variable out = the value stored to *w *)
Definition circ (p : prog) (out : nat) (x : N) : N := nth out (run [] [x] p) 0.

Definition impl_sub_u64 : N -> N := circ aes_sub_u64_prog aes_sub_u64_out.
Definition impl_inv_sub_u64 : N -> N := circ aes_inv_sub_u64_prog aes_inv_sub_u64_out.
Definition impl_sub_u32 : N -> N := circ aes_sub_u32_prog aes_sub_u32_out.
Definition impl_xtime_u64 : N -> N := circ aes_xtime_u64_prog aes_xtime_u64_out.
Definition impl_xtime_u32 : N -> N := circ aes_xtime_u32_prog aes_xtime_u32_out.
(* body of  for (c = 0; c < 2; c++)  in openssl_mix_columns / openssl_inv_mix_columns, on state[c] *)
Definition impl_mix_word : N -> N := circ aes_mix_columns_prog aes_mix_columns_out.
Definition impl_inv_mix_word : N -> N := circ aes_inv_mix_columns_prog aes_inv_mix_columns_out.

(* uint64_t state[2] / a round key w[2i], w[2i+1] *)
Definition state := (N * N)%type.
Definition load16 (b : list N) : state := (of_le (firstn 8 b), of_le (skipn 8 b)).   (* memcpy(state, in, 16) *)
Definition store16 (s : state) : list N := le64 (fst s) ++ le64 (snd s).              (* memcpy(out, state, 16) *)

(* openssl_sub_u64(&state[0]); openssl_sub_u64(&state[1]); *)
Definition impl_sub_state (s : state) : state := (impl_sub_u64 (fst s), impl_sub_u64 (snd s)).
Definition impl_inv_sub_state (s : state) : state := (impl_inv_sub_u64 (fst s), impl_inv_sub_u64 (snd s)).

(* openssl_shift_row: for r in 0..3: s[c] = s0[c*4+r]; s0[c*4+r] = s[(r+c) % 4] *)
Definition four : list nat := [0;1;2;3]%nat.
Definition shift_row_bytes (s0 : list N) : list N :=
  fold_left (fun st (r : nat) =>
     let s := map (fun c : nat => nth (Nat.add (Nat.mul c 4) r) st 0) four in
     fold_left (fun st' (c : nat) => upd (Nat.add (Nat.mul c 4) r) (nth (Nat.modulo (Nat.add r c) 4) s 0) st') four st) four s0.
(* openssl_inv_shift_row: s0[c*4+r] = s[(4+c-r) % 4] *)
Definition inv_shift_row_bytes (s0 : list N) : list N :=
  fold_left (fun st (r : nat) =>
     let s := map (fun c : nat => nth (Nat.add (Nat.mul c 4) r) st 0) four in
     fold_left (fun st' (c : nat) => upd (Nat.add (Nat.mul c 4) r) (nth (Nat.modulo (Nat.sub (Nat.add 4 c) r) 4) s 0) st') four st) four s0.
Definition impl_shift_row (s : state) : state := load16 (shift_row_bytes (store16 s)).
Definition impl_inv_shift_row (s : state) : state := load16 (inv_shift_row_bytes (store16 s)).

Definition impl_mix_columns (s : state) : state := (impl_mix_word (fst s), impl_mix_word (snd s)).
Definition impl_inv_mix_columns (s : state) : state := (impl_inv_mix_word (fst s), impl_inv_mix_word (snd s)).

(* openssl_add_round_key(state, w): state[0] ^= w[0]; state[1] ^= w[1]; *)
Definition impl_add_round_key (s w : state) : state := (N.lxor (fst s) (fst w), N.lxor (snd s) (snd w)).

(* w + i*2 in the array of uint64_t round-key words *)
Definition rk_at (w : list N) (i : nat) : state := (nth (2 * i)%nat w 0, nth (2 * i + 1)%nat w 0).

(* openssl_cipher(in, out, w, nr) *)
Definition impl_cipher (w : list N) (nr : nat) (inp : list N) : list N :=
  let st := impl_add_round_key (load16 inp) (rk_at w 0) in
  let st := fold_left (fun st i =>
              impl_add_round_key (impl_mix_columns (impl_shift_row (impl_sub_state st))) (rk_at w i))
            (seq 1 (nr - 1)) st in
  store16 (impl_add_round_key (impl_shift_row (impl_sub_state st)) (rk_at w nr)).

(* openssl_inv_cipher(in, out, w, nr):  for (i = nr - 1; i > 0; i--) *)
Definition impl_inv_cipher (w : list N) (nr : nat) (inp : list N) : list N :=
  let st := impl_add_round_key (load16 inp) (rk_at w nr) in
  let st := fold_left (fun st i =>
              impl_inv_mix_columns (impl_add_round_key (impl_inv_sub_state (impl_inv_shift_row st)) (rk_at w i)))
            (rev (seq 1 (nr - 1))) st in
  store16 (impl_add_round_key (impl_inv_sub_state (impl_inv_shift_row st)) (rk_at w 0)).

(* ---- openssl_key_expansion(key, w, nr, nk) ---- *)
Definition two32 : N := 4294967296.
Definition lo32 (d : N) : N := N.land d 0xffffffff.                 (* prev.w[0] *)
Definition hi32 (d : N) : N := N.shiftr d 32.                       (* prev.w[1] *)
Definition mk64 (lo hi : N) : N := lo + two32 * hi.
(* openssl_rot_word: the four bytes of the word move down by one (little-endian: a right rotation by 8) *)
Definition rot_word_prog : prog := [ (1%nat, Or (Shr (Var 0) 8) (Shl 32 (Var 0) 24)) ].
Definition impl_rot_word : N -> N := circ rot_word_prog 1.

(* one iteration of  for (i = n; i < (nr+1)*2; i++);  st = (w so far, rcon, prev.d) *)
Definition kx_step (nk n : nat) (st : list N * N * N) (i : nat) : list N * N * N :=
  let w := fst (fst st) in let rcon := snd (fst st) in let prev := snd st in
  let temp := hi32 prev in
  let tr :=
    if Nat.eqb (Nat.modulo i n) 0 then (N.lxor (impl_sub_u32 (impl_rot_word temp)) rcon, impl_xtime_u32 rcon)
    else if Nat.ltb 6 nk && Nat.eqb (Nat.modulo i n) 2 then (impl_sub_u32 temp, rcon)
    else (temp, rcon) in
  let prev' := nth (Nat.sub i n) w 0 in
  let p0 := N.lxor (lo32 prev') (fst tr) in
  let p1 := N.lxor (hi32 prev') p0 in
  (w ++ [mk64 p0 p1], snd tr, mk64 p0 p1).
Fixpoint words64 (n : nat) (key : list N) : list N :=      (* memcpy(w, key, nk*4) *)
  match n with O => [] | S m => of_le (firstn 8 key) :: words64 m (skipn 8 key) end.
Definition impl_key_expansion (key : list N) (nk nr : nat) : list N :=
  let n := Nat.div nk 2 in
  let w0 := words64 n key in
  fst (fst (fold_left (kx_step nk n) (seq n (Nat.sub (Nat.mul (Nat.add nr 1) 2) n)) (w0, 1, nth (Nat.sub n 1) w0 0))).

(* muggle_openssl_aes_set_key + muggle_openssl_aes_encrypt / _decrypt *)
Definition impl_aes_set_key (bits : N) (key : list N) : option (list N * nat) :=
  match aes_params bits with
  | Some (nk, nr) => Some (impl_key_expansion key nk nr, nr)
  | None => None
  end.
Definition impl_aes_encrypt (sk : list N * nat) (blk : list N) : list N := impl_cipher (fst sk) (snd sk) blk.
Definition impl_aes_decrypt (sk : list N * nat) (blk : list N) : list N := impl_inv_cipher (fst sk) (snd sk) blk.
