(* C12 — implementation layer, AES: the constant-time bitsliced S-box circuits of
   muggle/c/crypt/openssl/openssl_aes.c (openssl_sub_u64, openssl_inv_sub_u64, openssl_sub_u32),
   translated statement by statement from the C source on every run (coq/gen/Params_C12.v,
   lib/props/c12.py) into the word-level language of Bitvec.v.  Variable 0 is *w on entry.
   Definitions only. *)
From Coq Require Export List NArith Bool.
Export ListNotations.
From MV Require Export C12.Bitvec gen.Params_C12.
Local Open Scope N_scope.

(* run a circuit: variable 0 = *w on entry, variable out = the value stored to *w *)
Definition circ (p : prog) (out : nat) (x : N) : N := nth out (run [] [x] p) 0.

Definition impl_sub_u64 : N -> N := circ aes_sub_u64_prog aes_sub_u64_out.
Definition impl_inv_sub_u64 : N -> N := circ aes_inv_sub_u64_prog aes_inv_sub_u64_out.
Definition impl_sub_u32 : N -> N := circ aes_sub_u32_prog aes_sub_u32_out.
