(* C12 — the DES code that runs (Impl_DES.v = crypt/openssl/openssl_des.c as coded, tables
   re-extracted on every run) computes the FIPS 46-3 specification (Spec_DES.v) on all inputs. *)
From Coq Require Import Lia Arith PeanoNat Ring.
From MV Require Import C12.Spec_DES C12.Impl_DES C12.Modes C12.Proofs_Modes C12.Proofs_DES.
Local Open Scope N_scope.

(* a 32-bit half block in the representation of the implementation: after IP and the rotation by 3,
   bit i of the word is position (i + 29) mod 32 of the half block (0 = first bit of FIPS 46-3) *)
Definition rho (i : nat) : nat := ((i + 29) mod 32)%nat.
Definition wbits (L : list bool) : list bool := map (fun i => nth (rho i) L false) (seq 0 32).
Definition word_of (L : list bool) : N := N_of_bits (wbits L).

Tactic Notation "destruct_list" ident(x) ident(H) integer(k) :=
  do k (destruct x as [|? x]; [discriminate H|]); destruct x; [clear H|discriminate H].

Lemma bits_of_byte_N_of_bits : forall c0 c1 c2 c3 c4 c5 c6 c7,
  bits_of_byte (N_of_bits [c0;c1;c2;c3;c4;c5;c6;c7]) = [c7;c6;c5;c4;c3;c2;c1;c0].
Proof. intros. destruct c0, c1, c2, c3, c4, c5, c6, c7; vm_compute; reflexivity. Qed.

(* a block / key given by the bits of its 8 bytes, least significant bit of each byte first *)
Definition bytes8 (bs : list (list bool)) : Prop := length bs = 8%nat /\ Forall (fun l => length l = 8%nat) bs.

Ltac destruct_bytes8 bs H :=
  let Hl := fresh "Hl" in let Hf := fresh "Hf" in
  destruct H as [Hl Hf];
  destruct_list bs Hl 8;
  repeat match goal with
         | Hf : Forall _ (_ :: _) |- _ => inversion Hf; clear Hf; subst
         | Hf : Forall _ [] |- _ => clear Hf
         end;
  repeat match goal with
         | Hx : length ?l = 8%nat |- _ => destruct_list l Hx 8
         end.

Lemma wbits_length : forall L, length (wbits L) = 32%nat.
Proof. intros. unfold wbits. rewrite map_length, seq_length. reflexivity. Qed.

(* rewrite every variable read from the run of p on inputs given as bit lists of widths ws *)
Ltac run_bits_rewrite tabs ws bl p :=
  let r := eval vm_compute in (arun tabs (init_aenv ws) p) in
  match r with
  | Some ?ae =>
    let E := fresh "E" in let HW := fresh "HW" in let aev := fresh "ae" in
    pose (aev := ae);
    assert (E : arun tabs (init_aenv ws) p = Some aev) by (vm_compute; reflexivity);
    assert (HW : map (@length bool) bl = ws) by (cbn [map length]; rewrite ?wbits_length; reflexivity);
    rewrite !(fun u => run_bits_ws tabs ws bl p aev u HW eq_refl E); clear E HW
  end.

(* ---------- S1: load + IP + rotate = the halves of the spec's IP ---------- *)
Lemma enc1_load_spec : forall bs, bytes8 bs ->
  let y := permute IP (bits_of_bytes (map N_of_bits bs)) in
  load_with enc1_pre (map N_of_bits bs) = (word_of (firstn 32 y), word_of (skipn 32 y)).
Proof.
  intros bs H. destruct_bytes8 bs H.
  unfold load_with, get_lr.
  match goal with |- context [run des_tabs (env_blk (map N_of_bits ?bl)) _] =>
    change (env_blk (map N_of_bits bl)) with (map N_of_bits bl);
    run_bits_rewrite des_tabs [8;8;8;8;8;8;8;8]%nat bl enc1_pre end.
  cbn [map bits_of_bytes flat_map app]. rewrite !bits_of_byte_N_of_bits. cbn [app].
  unfold word_of. rewrite <- (N_of_bits_pad (wbits _) 32), <- (N_of_bits_pad (wbits (skipn _ _)) 32).
  f_equal; f_equal; vm_compute; reflexivity.
Qed.

Lemma byte_msb : forall b0 b1 b2 b3 b4 b5 b6 b7,
  byte_of_bits [b7;b6;b5;b4;b3;b2;b1;b0] = N_of_bits ([b0;b1;b2;b3;b4;b5;b6;b7] ++ repeat false 56).
Proof. intros. destruct b0, b1, b2, b3, b4, b5, b6, b7; vm_compute; reflexivity. Qed.

(* ---------- S4: rotate back + FP + store = the spec's IP^-1 of (R16, L16) ---------- *)
Definition ws_lr : list nat := [0;0;0;0;0;0;0;0;32;32;0;0;32;32]%nat.
Lemma env_lr_bits : forall a b c d,
  env_lr (N_of_bits a) (N_of_bits b) (N_of_bits c) (N_of_bits d) = map N_of_bits [[];[];[];[];[];[];[];[]; a; b; []; []; c; d].
Proof. reflexivity. Qed.

Lemma enc1_store_spec : forall L R, length L = 32%nat -> length R = 32%nat ->
  store_with enc1_post (word_of L, word_of R) = bytes_of_bits 8 (permute FP (R ++ L)).
Proof.
  intros L R HL HR.
  unfold store_with, out_bytes, word_of. cbn [fst snd map seq].
  change 0 with (N_of_bits (wbits [])) at 1 2. rewrite env_lr_bits.
  run_bits_rewrite des_tabs ws_lr [@nil bool;[];[];[];[];[];[];[]; wbits L; wbits R; []; []; wbits []; wbits []] enc1_post.
  destruct_list L HL 32. destruct_list R HR 32.
  cbv -[byte_of_bits N_of_bits]. rewrite !byte_msb. reflexivity.
Qed.

(* ---------- S2: one D_ENCRYPT = one Feistel round of the specification ---------- *)
Lemma nth_firstn_b : forall w (l : list bool) i, nth i (firstn w l) false = if Nat.ltb i w then nth i l false else false.
Proof.
  induction w; intros l i.
  - cbn [firstn]. destruct i; reflexivity.
  - destruct l as [|a l].
    + cbn [firstn]. destruct (Nat.ltb i (S w)); destruct i; reflexivity.
    + destruct i; cbn [firstn nth]; [reflexivity|]. rewrite IHw. reflexivity.
Qed.
Lemma nth_skipn_b : forall k (l : list bool) i, nth i (skipn k l) false = nth (i + k) l false.
Proof.
  induction k; intros l i; [rewrite Nat.add_0_r; reflexivity|].
  destruct l; [destruct i; reflexivity|]. cbn [skipn]. rewrite IHk, Nat.add_succ_r. reflexivity.
Qed.

Lemma land_shiftr_bits : forall l k, N.land (N.shiftr (N_of_bits l) (N.of_nat k)) 63 = N_of_bits (firstn 6 (skipn k l)).
Proof.
  intros l k. apply N_of_bits_inj_bits. intro i.
  rewrite N.land_spec, N.shiftr_spec by lia. replace (N.of_nat i + N.of_nat k) with (N.of_nat (i + k)) by lia.
  rewrite testbit_N_of_bits, nth_firstn_b, nth_skipn_b. change 63 with (N.ones (N.of_nat 6)). rewrite ones_testbit.
  destruct (Nat.ltb i 6); [apply andb_true_r|apply andb_false_r].
Qed.

(* S-box j of the specification, its 4 output bits placed at positions 4j..4j+3, through P *)
Definition place (j : nat) (y : list bool) : list bool := repeat false (4 * j) ++ y ++ repeat false (28 - 4 * j).
Definition sp_spec (j : nat) (c : list bool) : list bool := permute P_tab (place j (sbox_apply (nth j S_boxes []) c)).

(* every entry of the eight SP tables of the implementation is S-box + P of the standard (512-entry sweep) *)
Lemma sp_lookup : forall j c, (j < 8)%nat -> length c = 6%nat ->
  nth (N.to_nat (N_of_bits c)) (nth j des_tabs []) 0 = word_of (sp_spec j c).
Proof.
  intros j c Hj Hc. destruct_list c Hc 6.
  do 8 (destruct j as [|j]; [repeat match goal with b : bool |- _ => destruct b end; vm_compute; reflexivity|]). lia.
Qed.

(* the two key words of a round as the implementation stores them: sub-key bit 6j+b of the standard sits at
   bit (4j+2+b) mod 32 of word (j mod 2); the other 8 bits of each word are zero *)
Definition kw (par : nat) (K : list bool) : list bool :=
  map (fun p => match find (fun m => Nat.eqb ((m / 6) mod 2) par && Nat.eqb ((4 * (m / 6) + 2 + m mod 6) mod 32) p) (seq 0 48) with
                | Some m => nth m K false
                | None => false
                end) (seq 0 32).
Definition kwpair (K : list bool) : N * N := (N_of_bits (kw 0 K), N_of_bits (kw 1 K)).
Lemma kw_length : forall par K, length (kw par K) = 32%nat.
Proof. intros. unfold kw. rewrite map_length, seq_length. reflexivity. Qed.

Lemma run_app1 : forall tabs env p s, run tabs env (p ++ [s]) = step tabs (run tabs env p) s.
Proof. intros. unfold run. rewrite fold_left_app. reflexivity. Qed.


Lemma word_of_xor : forall A B, length A = 32%nat -> length B = 32%nat ->
  N.lxor (word_of A) (word_of B) = word_of (xorbl A B).
Proof.
  intros A B HA HB. unfold word_of. apply N_of_bits_inj_bits. intro i.
  rewrite N.lxor_spec, !testbit_N_of_bits.
  destruct_list A HA 32. destruct_list B HB 32.
  do 32 (destruct i as [|i]; [reflexivity|]). destruct i; reflexivity.
Qed.

Lemma sp_spec_length : forall j c, length (sp_spec j c) = 32%nat.
Proof. intros. unfold sp_spec. rewrite permute_length. reflexivity. Qed.
Lemma xorbl_len32 : forall A B, length A = 32%nat -> length B = 32%nat -> length (xorbl A B) = 32%nat.
Proof. intros. rewrite xorbl_length; congruence. Qed.
Lemma sbox_apply_length : forall s x, length (sbox_apply s x) = 4%nat.
Proof. intros s x. unfold sbox_apply. do 7 (destruct x as [|? x]; try reflexivity). Qed.

Lemma sbox_layer_decomp : forall X, length X = 48%nat ->
  sbox_layer S_boxes X =
  concat (map (fun j => sbox_apply (nth j S_boxes []) (firstn 6 (skipn (6 * j) X))) (seq 0 8)).
Proof. intros X H. destruct_list X H 48. reflexivity. Qed.

Notation PP := (permute P_tab).
Lemma F_lists : forall y0 y1 y2 y3 y4 y5 y6 y7,
  length y0 = 4%nat -> length y1 = 4%nat -> length y2 = 4%nat -> length y3 = 4%nat ->
  length y4 = 4%nat -> length y5 = 4%nat -> length y6 = 4%nat -> length y7 = 4%nat ->
  xorbl (xorbl (xorbl (xorbl (xorbl (xorbl (xorbl (PP (place 0 y0)) (PP (place 2 y2))) (PP (place 4 y4))) (PP (place 6 y6)))
                             (PP (place 1 y1))) (PP (place 3 y3))) (PP (place 5 y5))) (PP (place 7 y7))
  = PP (y0 ++ y1 ++ y2 ++ y3 ++ y4 ++ y5 ++ y6 ++ y7 ++ []).
Proof.
  intros y0 y1 y2 y3 y4 y5 y6 y7 H0 H1 H2 H3 H4 H5 H6 H7.
  destruct_list y0 H0 4. destruct_list y1 H1 4. destruct_list y2 H2 4. destruct_list y3 H3 4.
  destruct_list y4 H4 4. destruct_list y5 H5 4. destruct_list y6 H6 4. destruct_list y7 H7 4.
  cbv -[xorb]. rewrite ?xorb_false_r, ?xorb_false_l. reflexivity.
Qed.

Ltac round_tail L R K HL HR HK :=
  rewrite !land_shiftr_bits;
  rewrite !sp_lookup by (first [lia | vm_compute; reflexivity]);
  rewrite !word_of_xor by (repeat first [apply sp_spec_length | apply xorbl_len32]);
  unfold des_f;
  match goal with |- context [sbox_layer S_boxes ?X] =>
    let HX := fresh "HX" in
    assert (HX : length X = 48%nat) by (rewrite xorbl_length; rewrite permute_length; [reflexivity|symmetry; exact HK]);
    rewrite (sbox_layer_decomp _ HX); clear HX end;
  destruct_list L HL 32; destruct_list R HR 32; destruct_list K HK 48.

Ltac round_finish :=
  f_equal; f_equal;
  cbn [concat map seq];
  repeat match goal with |- context [firstn 6 ?x] =>
    let v := eval vm_compute in (firstn 6 x) in change (firstn 6 x) with v end;
  unfold sp_spec; apply F_lists; apply sbox_apply_length.

(* D_ENCRYPT(l, r, ks, i):  l ^= f(r, K) *)
Lemma d_enc_lr_spec : forall L R K, length L = 32%nat -> length R = 32%nat -> length K = 48%nat ->
  d_enc_lr (word_of L, word_of R) (kwpair K) = (word_of (xorbl L (des_f R K)), word_of R).
Proof.
  intros L R K HL HR HK. unfold d_enc_lr, get_lr, kwpair. cbn [fst snd].
  unfold d_encrypt. rewrite run_app1. unfold step. cbn [fst snd].
  rewrite !nth_set_nth. change (Nat.eqb vL vL) with true. change (Nat.eqb vR vL) with false. cbn iota.
  cbn [eval d_enc_f xor_chain map lookup_exp des_round_lookups fold_left].
  unfold word_of at 1 2 3 4. rewrite env_lr_bits.
  run_bits_rewrite des_tabs ws_lr [@nil bool;[];[];[];[];[];[];[]; wbits L; wbits R; []; []; kw 0 K; kw 1 K] (d_enc_idx vR).
  round_tail L R K HL HR HK.
  match goal with |- (N.lxor (N_of_bits ?XL) _, N_of_bits ?XR) = (word_of (xorbl ?LL _), word_of ?RR) =>
     replace (N_of_bits XL) with (word_of LL) by (unfold word_of; f_equal; vm_compute; reflexivity);
     replace (N_of_bits XR) with (word_of RR) by (unfold word_of; f_equal; vm_compute; reflexivity) end.
  rewrite word_of_xor by (first [reflexivity | repeat first [apply sp_spec_length | apply xorbl_len32]]).
  f_equal. round_finish.
Qed.

(* D_ENCRYPT(r, l, ks, i):  r ^= f(l, K) *)
Lemma d_enc_rl_spec : forall L R K, length L = 32%nat -> length R = 32%nat -> length K = 48%nat ->
  d_enc_rl (word_of L, word_of R) (kwpair K) = (word_of L, word_of (xorbl R (des_f L K))).
Proof.
  intros L R K HL HR HK. unfold d_enc_rl, get_lr, kwpair. cbn [fst snd].
  unfold d_encrypt. rewrite run_app1. unfold step. cbn [fst snd].
  rewrite !nth_set_nth. change (Nat.eqb vR vR) with true. change (Nat.eqb vL vR) with false. cbn iota.
  cbn [eval d_enc_f xor_chain map lookup_exp des_round_lookups fold_left].
  unfold word_of at 1 2 3 4. rewrite env_lr_bits.
  run_bits_rewrite des_tabs ws_lr [@nil bool;[];[];[];[];[];[];[]; wbits L; wbits R; []; []; kw 0 K; kw 1 K] (d_enc_idx vL).
  round_tail R L K HR HL HK.
  match goal with |- (N_of_bits ?XL, N.lxor (N_of_bits ?XR) _) = (word_of ?LL, word_of (xorbl ?RR _)) =>
     replace (N_of_bits XL) with (word_of LL) by (unfold word_of; f_equal; vm_compute; reflexivity);
     replace (N_of_bits XR) with (word_of RR) by (unfold word_of; f_equal; vm_compute; reflexivity) end.
  rewrite word_of_xor by (first [reflexivity | repeat first [apply sp_spec_length | apply xorbl_len32]]).
  f_equal. round_finish.
Qed.

(* ---------- S3: the 16 rounds ---------- *)
Definition len48 (K : list bool) : Prop := length K = 48%nat.

Lemma rounds_spec : forall n ks L R, length ks = (2 * n)%nat -> Forall len48 ks ->
  length L = 32%nat -> length R = 32%nat ->
  rounds (map kwpair ks) (word_of L, word_of R) =
  (word_of (fst (feistel des_f ks (L, R))), word_of (snd (feistel des_f ks (L, R)))).
Proof.
  induction n; intros ks L R Hlen Hk HL HR.
  - destruct ks; [reflexivity|discriminate].
  - destruct ks as [|K1 [|K2 rest]]; try (cbn in Hlen; lia).
    inversion Hk as [|? ? H1 Hk']; subst. inversion Hk' as [|? ? H2 Hk'']; subst.
    cbn [map rounds]. rewrite d_enc_lr_spec by assumption.
    assert (HL1 : length (xorbl L (des_f R K1)) = 32%nat) by (apply xorbl_len32; [assumption|apply des_f_length]).
    rewrite d_enc_rl_spec by assumption.
    assert (HR1 : length (xorbl R (des_f (xorbl L (des_f R K1)) K2)) = 32%nat) by (apply xorbl_len32; [assumption|apply des_f_length]).
    rewrite (IHn rest _ _) by (try assumption; cbn in Hlen; lia).
    reflexivity.
Qed.

Lemma bytes8_length : forall bs, bytes8 bs -> length (bits_of_bytes (map N_of_bits bs)) = 64%nat.
Proof. intros bs [H _]. rewrite bits_of_bytes_length, map_length, H. reflexivity. Qed.

(* ---------- DES_encrypt1 = the block algorithm of FIPS 46-3, given the same sub-keys ---------- *)
Theorem encrypt1_spec : forall n ks bs, length ks = (2 * n)%nat -> Forall len48 ks -> bytes8 bs ->
  impl_encrypt1 (map kwpair ks) (map N_of_bits bs) = des_crypt ks (map N_of_bits bs).
Proof.
  intros n ks bs Hlen Hk Hb. unfold impl_encrypt1. rewrite (enc1_load_spec bs Hb). cbv zeta.
  set (y := permute IP (bits_of_bytes (map N_of_bits bs))).
  assert (Hy : length y = 64%nat) by apply permute_length.
  assert (H1 : length (firstn 32 y) = 32%nat) by (rewrite firstn_length; lia).
  assert (H2 : length (skipn 32 y) = 32%nat) by (rewrite skipn_length; lia).
  rewrite (rounds_spec n ks _ _ Hlen Hk H1 H2).
  pose proof (feistel_halves des_f 32 des_f_length ks (firstn 32 y, skipn 32 y) (conj H1 H2)) as [H3 H4].
  rewrite enc1_store_spec by assumption.
  unfold des_crypt, des_block. reflexivity.
Qed.

Definition kwpair' (K : list bool) : N * N := (N_of_bits (kw 0 K ++ repeat false 32), N_of_bits (kw 1 K ++ repeat false 32)).
Lemma kwpair_pad : forall K, kwpair K = kwpair' K.
Proof. intros. unfold kwpair, kwpair'. rewrite !N_of_bits_pad. reflexivity. Qed.

(* ---------- S5: DES_set_key_unchecked = the key schedule of FIPS 46-3 in the implementation's word layout ---------- *)
Theorem set_key_spec : forall bs, bytes8 bs ->
  impl_set_key (map N_of_bits bs) = map kwpair (des_subkeys (map N_of_bits bs)).
Proof.
  intros bs H. destruct_bytes8 bs H.
  unfold impl_set_key. cbv zeta.
  match goal with |- context [run des_tabs (env_blk (map N_of_bits ?bl)) _] =>
    change (env_blk (map N_of_bits bl)) with (map N_of_bits bl);
    set (ENV := map N_of_bits bl) at 1; cbn [map seq]; subst ENV;
    run_bits_rewrite des_tabs [8;8;8;8;8;8;8;8]%nat bl set_key_prog end.
  unfold des_subkeys. cbn [map bits_of_bytes flat_map app]. rewrite !bits_of_byte_N_of_bits. cbn [app].
  rewrite (map_ext kwpair kwpair' kwpair_pad).
  cbv -[N_of_bits]. reflexivity.
Qed.

(* ---------- bytes as bit lists ---------- *)
Definition lsb8 (b : N) : list bool := map (fun i => N.testbit b (N.of_nat i)) (seq 0 8).
Lemma byte_lsb8 : forall b, b < 256 -> b = N_of_bits (lsb8 b).
Proof.
  intros b Hb. apply N_of_bits_inj_bits. intro i. unfold lsb8.
  destruct (Nat.ltb_spec i 8).
  - rewrite nth_indep with (d' := (fun i => N.testbit b (N.of_nat i)) 0%nat) by (rewrite map_length, seq_length; lia).
    rewrite (map_nth (fun i => N.testbit b (N.of_nat i)) (seq 0 8) 0%nat i), seq_nth by lia. reflexivity.
  - rewrite nth_overflow by (rewrite map_length, seq_length; lia).
    destruct (N.eq_dec b 0) as [->|Hz]; [apply N.bits_0|].
    apply N.bits_above_log2. change 256 with (2 ^ 8) in Hb. apply N.log2_lt_pow2 in Hb; lia.
Qed.
Lemma wfb8_bits : forall blk, wfb 8 blk -> exists bs, bytes8 bs /\ blk = map N_of_bits bs.
Proof.
  intros blk [Hl Hb]. exists (map lsb8 blk). split.
  - split; [rewrite map_length; exact Hl|]. apply Forall_forall. intros l Hin. apply in_map_iff in Hin.
    destruct Hin as (b & <- & _). reflexivity.
  - rewrite map_map. rewrite <- (map_id blk) at 1. apply map_ext_in. intros b Hin.
    apply byte_lsb8. unfold bytes in Hb. rewrite Forall_forall in Hb. apply Hb. exact Hin.
Qed.

Lemma ks_rounds_shape : forall sh c d, length (ks_rounds sh c d) = length sh /\ Forall len48 (ks_rounds sh c d).
Proof.
  induction sh as [|s r IH]; intros c d; cbn [ks_rounds]; [split; [reflexivity|constructor]|].
  destruct (IH (rotl s c) (rotl s d)) as [H1 H2]. split; [cbn [length]; rewrite H1; reflexivity|].
  constructor; [apply permute_length|exact H2].
Qed.
Lemma des_subkeys_shape : forall key, length (des_subkeys key) = 16%nat /\ Forall len48 (des_subkeys key).
Proof. intros. unfold des_subkeys, des_subkeys_bits. apply (ks_rounds_shape shifts). Qed.

(* ========== DES as coded (key schedule + block function, both directions) = FIPS 46-3 ========== *)
Theorem des_impl_spec : forall (dec : bool) key blk, wfb 8 key -> wfb 8 blk ->
  impl_des_crypt (impl_gen_subkeys dec key) blk =
  des_crypt (if dec then rev (des_subkeys key) else des_subkeys key) blk.
Proof.
  intros dec key blk Hk Hb.
  destruct (wfb8_bits key Hk) as (kb & Hkb & ->). destruct (wfb8_bits blk Hb) as (bb & Hbb & ->).
  destruct (des_subkeys_shape (map N_of_bits kb)) as [Hl Hf].
  unfold impl_des_crypt, impl_gen_subkeys. rewrite (set_key_spec kb Hkb).
  destruct dec.
  - rewrite <- map_rev. apply (encrypt1_spec 8); [rewrite rev_length; exact Hl|apply Forall_rev; exact Hf|exact Hbb].
  - apply (encrypt1_spec 8); assumption.
Qed.

(* ---------- Triple-DES: muggle_openssl_tdes_crypt ---------- *)
Definition ws8x64 : list nat := [64;64;64;64;64;64;64;64]%nat.

(* IP once, stored; DES_encrypt2 reloads and rotates: the same halves as DES_encrypt1's prologue *)
Lemma tdes_load_spec : forall bs, bytes8 bs ->
  let y := permute IP (bits_of_bytes (map N_of_bits bs)) in
  load_with enc2_pre (run_bytes tdes_pre (map N_of_bits bs)) = (word_of (firstn 32 y), word_of (skipn 32 y)).
Proof.
  intros bs H. destruct_bytes8 bs H.
  unfold run_bytes, out_bytes.
  match goal with |- context [run des_tabs (env_blk (map N_of_bits ?bl)) tdes_pre] =>
    change (env_blk (map N_of_bits bl)) with (map N_of_bits bl);
    set (ENV := map N_of_bits bl) at 1; cbn [map seq]; subst ENV;
    run_bits_rewrite des_tabs [8;8;8;8;8;8;8;8]%nat bl tdes_pre end.
  unfold load_with, get_lr.
  match goal with |- context [env_blk [N_of_bits ?l0; N_of_bits ?l1; N_of_bits ?l2; N_of_bits ?l3; N_of_bits ?l4; N_of_bits ?l5; N_of_bits ?l6; N_of_bits ?l7]] =>
    change (env_blk [N_of_bits l0; N_of_bits l1; N_of_bits l2; N_of_bits l3; N_of_bits l4; N_of_bits l5; N_of_bits l6; N_of_bits l7])
      with (map N_of_bits [l0;l1;l2;l3;l4;l5;l6;l7]);
    run_bits_rewrite des_tabs ws8x64 [l0;l1;l2;l3;l4;l5;l6;l7] enc2_pre end.
  cbn [bits_of_bytes flat_map app]. rewrite !bits_of_byte_N_of_bits. cbn [app].
  unfold word_of. rewrite <- (N_of_bits_pad (wbits _) 32), <- (N_of_bits_pad (wbits (skipn _ _)) 32).
  f_equal; f_equal; vm_compute; reflexivity.
Qed.

(* DES_encrypt2's epilogue followed by the next DES_encrypt2's prologue: the halves change places *)
Lemma enc2_chain_spec : forall A B, length A = 32%nat -> length B = 32%nat ->
  load_with enc2_pre (store_with enc2_post (word_of A, word_of B)) = (word_of B, word_of A).
Proof.
  intros A B HA HB.
  unfold store_with, out_bytes, word_of. cbn [fst snd].
  change 0 with (N_of_bits (wbits [])) at 1 2. rewrite env_lr_bits.
  match goal with |- context [run des_tabs (map N_of_bits ?bl) enc2_post] =>
    set (ENV := map N_of_bits bl) at 1; cbn [map seq]; subst ENV;
    run_bits_rewrite des_tabs ws_lr bl enc2_post end.
  unfold load_with, get_lr.
  match goal with |- context [env_blk [N_of_bits ?l0; N_of_bits ?l1; N_of_bits ?l2; N_of_bits ?l3; N_of_bits ?l4; N_of_bits ?l5; N_of_bits ?l6; N_of_bits ?l7]] =>
    change (env_blk [N_of_bits l0; N_of_bits l1; N_of_bits l2; N_of_bits l3; N_of_bits l4; N_of_bits l5; N_of_bits l6; N_of_bits l7])
      with (map N_of_bits [l0;l1;l2;l3;l4;l5;l6;l7]);
    run_bits_rewrite des_tabs ws8x64 [l0;l1;l2;l3;l4;l5;l6;l7] enc2_pre end.
  rewrite <- (N_of_bits_pad (wbits B) 32), <- (N_of_bits_pad (wbits A) 32).
  destruct_list A HA 32. destruct_list B HB 32.
  f_equal; f_equal; vm_compute; reflexivity.
Qed.

(* the last DES_encrypt2's epilogue followed by FP(r,l) *)
Lemma tdes_store_spec : forall L R, length L = 32%nat -> length R = 32%nat ->
  run_bytes tdes_post (store_with enc2_post (word_of L, word_of R)) = bytes_of_bits 8 (permute FP (R ++ L)).
Proof.
  intros L R HL HR.
  unfold store_with, out_bytes, word_of. cbn [fst snd].
  change 0 with (N_of_bits (wbits [])) at 1 2. rewrite env_lr_bits.
  match goal with |- context [run des_tabs (map N_of_bits ?bl) enc2_post] =>
    set (ENV := map N_of_bits bl) at 1; cbn [map seq]; subst ENV;
    run_bits_rewrite des_tabs ws_lr bl enc2_post end.
  unfold run_bytes, out_bytes.
  match goal with |- context [env_blk [N_of_bits ?l0; N_of_bits ?l1; N_of_bits ?l2; N_of_bits ?l3; N_of_bits ?l4; N_of_bits ?l5; N_of_bits ?l6; N_of_bits ?l7]] =>
    change (env_blk [N_of_bits l0; N_of_bits l1; N_of_bits l2; N_of_bits l3; N_of_bits l4; N_of_bits l5; N_of_bits l6; N_of_bits l7])
      with (map N_of_bits [l0;l1;l2;l3;l4;l5;l6;l7]);
    set (ENV := map N_of_bits [l0;l1;l2;l3;l4;l5;l6;l7]) at 1; cbn [map seq]; subst ENV;
    run_bits_rewrite des_tabs ws8x64 [l0;l1;l2;l3;l4;l5;l6;l7] tdes_post end.
  destruct_list L HL 32. destruct_list R HR 32.
  cbv -[byte_of_bits N_of_bits]. rewrite !byte_msb. reflexivity.
Qed.

Definition spec_init (blk : list N) : list bool * list bool :=
  let y := permute IP (bits_of_bytes blk) in (firstn 32 y, skipn 32 y).
Definition spec_fin (lr : list bool * list bool) : list N := bytes_of_bits 8 (permute FP (snd lr ++ fst lr)).
Lemma des_crypt_as : forall ks blk, des_crypt ks blk = spec_fin (feistel des_f ks (spec_init blk)).
Proof. reflexivity. Qed.
Lemma init_fin : forall lr, halves 32 lr -> spec_init (spec_fin lr) = (snd lr, fst lr).
Proof.
  intros [l r] [Hl Hr]. cbn [fst snd] in *. unfold spec_init, spec_fin. cbn [fst snd].
  rewrite bits_bytes_roundtrip by (rewrite permute_length; reflexivity).
  rewrite IP_FP by (rewrite app_length; lia).
  rewrite (firstn_app_exact _ _ _ _ Hr), (skipn_app_exact _ _ _ _ Hr). reflexivity.
Qed.
Lemma init_halves : forall blk, halves 32 (spec_init blk).
Proof.
  intros. unfold spec_init, halves. cbn [fst snd].
  rewrite firstn_length, skipn_length, permute_length. split; reflexivity.
Qed.

Theorem tdes_core_spec : forall n1 n2 n3 k1 k2 k3 bs,
  length k1 = (2 * n1)%nat -> length k2 = (2 * n2)%nat -> length k3 = (2 * n3)%nat ->
  Forall len48 k1 -> Forall len48 k2 -> Forall len48 k3 -> bytes8 bs ->
  impl_tdes_crypt (map kwpair k1) (map kwpair k2) (map kwpair k3) (map N_of_bits bs) =
  des_crypt k3 (des_crypt k2 (des_crypt k1 (map N_of_bits bs))).
Proof.
  intros n1 n2 n3 k1 k2 k3 bs L1 L2 L3 F1 F2 F3 Hb.
  rewrite !des_crypt_as.
  pose proof (init_halves (map N_of_bits bs)) as H0.
  pose proof (feistel_halves des_f 32 des_f_length k1 _ H0) as H1.
  rewrite (init_fin _ H1).
  assert (H1' : halves 32 (snd (feistel des_f k1 (spec_init (map N_of_bits bs))), fst (feistel des_f k1 (spec_init (map N_of_bits bs)))))
    by (destruct H1; split; assumption).
  pose proof (feistel_halves des_f 32 des_f_length k2 _ H1') as H2.
  rewrite (init_fin _ H2).
  assert (H2' : halves 32 (snd (feistel des_f k2 (snd (feistel des_f k1 (spec_init (map N_of_bits bs))), fst (feistel des_f k1 (spec_init (map N_of_bits bs))))),
                           fst (feistel des_f k2 (snd (feistel des_f k1 (spec_init (map N_of_bits bs))), fst (feistel des_f k1 (spec_init (map N_of_bits bs)))))))
    by (destruct H2; split; assumption).
  pose proof (feistel_halves des_f 32 des_f_length k3 _ H2') as H3.
  unfold impl_tdes_crypt, impl_encrypt2.
  rewrite (tdes_load_spec bs Hb). cbv zeta. fold (spec_init (map N_of_bits bs)).
  destruct H0 as [A0 B0]. unfold spec_init in A0, B0 |- *. cbn [fst snd] in *.
  rewrite (rounds_spec n1 k1 _ _ L1 F1 A0 B0).
  destruct H1 as [A1 B1]. unfold spec_init in A1, B1. cbn [fst snd] in *.
  rewrite (enc2_chain_spec _ _ A1 B1).
  rewrite (rounds_spec n2 k2 _ _ L2 F2 B1 A1).
  destruct H2 as [A2 B2]. unfold spec_init in A2, B2. cbn [fst snd] in *.
  rewrite (enc2_chain_spec _ _ A2 B2).
  rewrite (rounds_spec n3 k3 _ _ L3 F3 B2 A2).
  destruct H3 as [A3 B3]. unfold spec_init in A3, B3. cbn [fst snd] in *.
  rewrite (tdes_store_spec _ _ A3 B3). reflexivity.
Qed.

Definition sel_keys (dec : bool) (key : list N) : list (list bool) := if dec then rev (des_subkeys key) else des_subkeys key.
Lemma gen_subkeys_spec : forall dec key, wfb 8 key ->
  impl_gen_subkeys dec key = map kwpair (sel_keys dec key) /\ length (sel_keys dec key) = (2 * 8)%nat /\ Forall len48 (sel_keys dec key).
Proof.
  intros dec key Hk. destruct (wfb8_bits key Hk) as (kb & Hkb & ->).
  destruct (des_subkeys_shape (map N_of_bits kb)) as [Hl Hf].
  unfold impl_gen_subkeys, sel_keys. rewrite (set_key_spec kb Hkb). destruct dec.
  - split; [symmetry; apply map_rev|]. split; [rewrite rev_length; exact Hl|apply Forall_rev; exact Hf].
  - split; [reflexivity|]. split; assumption.
Qed.

(* ========== Triple-DES as coded = E/D/E chain of FIPS 46-3 DES with the given three key schedules ========== *)
Theorem tdes_impl_spec : forall d1 d2 d3 key1 key2 key3 blk, wfb 8 key1 -> wfb 8 key2 -> wfb 8 key3 -> wfb 8 blk ->
  impl_tdes_crypt (impl_gen_subkeys d1 key1) (impl_gen_subkeys d2 key2) (impl_gen_subkeys d3 key3) blk =
  des_crypt (sel_keys d3 key3) (des_crypt (sel_keys d2 key2) (des_crypt (sel_keys d1 key1) blk)).
Proof.
  intros d1 d2 d3 key1 key2 key3 blk H1 H2 H3 Hb.
  destruct (gen_subkeys_spec d1 key1 H1) as (E1 & L1 & F1). destruct (gen_subkeys_spec d2 key2 H2) as (E2 & L2 & F2).
  destruct (gen_subkeys_spec d3 key3 H3) as (E3 & L3 & F3). destruct (wfb8_bits blk Hb) as (bb & Hbb & ->).
  rewrite E1, E2, E3. apply (tdes_core_spec 8 8 8); assumption.
Qed.

(* ---------- in the vocabulary of the code layer (Modes.v) ---------- *)
Definition op_is_dec (o : op) : bool := match o with OpDec => true | _ => false end.

Theorem des_impl_equals_spec_thm : forall o key blk, wfb 8 key -> wfb 8 blk ->
  impl_des_crypt (impl_gen_subkeys (op_is_dec o) key) blk = des_crypt (des_gen_subkeys o key) blk.
Proof. intros o key blk Hk Hb. rewrite (des_impl_spec (op_is_dec o) key blk Hk Hb). destruct o; reflexivity. Qed.

Theorem tdes_impl_equals_spec_thm : forall o1 o2 o3 k1 k2 k3 blk, wfb 8 k1 -> wfb 8 k2 -> wfb 8 k3 -> wfb 8 blk ->
  impl_tdes_crypt (impl_gen_subkeys (op_is_dec o1) k1) (impl_gen_subkeys (op_is_dec o2) k2) (impl_gen_subkeys (op_is_dec o3) k3) blk =
  des_crypt (des_gen_subkeys o3 k3) (des_crypt (des_gen_subkeys o2 k2) (des_crypt (des_gen_subkeys o1 k1) blk)).
Proof.
  intros o1 o2 o3 k1 k2 k3 blk H1 H2 H3 Hb.
  rewrite (tdes_impl_spec _ _ _ k1 k2 k3 blk H1 H2 H3 Hb). destruct o1, o2, o3; reflexivity.
Qed.

(* non-vacuity: the implementation model reproduces the classic vector (and is not the spec by definition) *)
Example des_impl_vector :
  impl_des_crypt (impl_gen_subkeys false [0x13;0x34;0x57;0x79;0x9b;0xbc;0xdf;0xf1]) [0x01;0x23;0x45;0x67;0x89;0xab;0xcd;0xef]
  = [0x85;0xe8;0x13;0x54;0x0f;0x0a;0xb4;0x05].
Proof. vm_compute. reflexivity. Qed.

Corollary set_key_spec_bytes : forall key, wfb 8 key -> impl_set_key key = map kwpair (des_subkeys key).
Proof. intros key Hk. destruct (wfb8_bits key Hk) as (kb & Hkb & ->). apply set_key_spec. exact Hkb. Qed.
