(* C12 — AES: InvCipher inverts Cipher for every well-formed key schedule and
   block.  S-box inverse by a 256-sweep; InvMixColumns o MixColumns = id from
   sweeps of the additivity of the six constant multiplications (256 x 256) and
   of the 16 entries of the matrix product (256 each), lifted by lemmas. *)
From Coq Require Import Lia Arith PeanoNat Ring.
From MV Require Import C12.Modes C12.Proofs_Modes C12.Proofs_DES.
Local Open Scope N_scope.

Definition range256 : list N := map N.of_nat (seq 0 256).

Lemma sweep256x256 : forall P : N -> N -> bool,
  forallb (fun a => forallb (P a) range256) range256 = true ->
  forall a b, a < 256 -> b < 256 -> P a b = true.
Proof.
  intros P H a b Ha Hb.
  assert (Ha' : forallb (P a) range256 = true).
  { apply (sweep256 (fun a => forallb (P a) range256)); assumption. }
  apply (sweep256 (P a)); assumption.
Qed.

(* xor is associative-commutative: decided bitwise by the boolean ring *)
Ltac xor_ac :=
  apply N.bits_inj; intro; repeat rewrite N.lxor_spec; rewrite ?N.bits_0; ring.

(* ---------- S-box ---------- *)
Lemma inv_sbox_sbox : forall b, byte b -> inv_sbox (sbox b) = b.
Proof.
  intros b Hb. apply N.eqb_eq. revert b Hb.
  apply (sweep256 (fun b => inv_sbox (sbox b) =? b)). vm_compute. reflexivity.
Qed.
Lemma sbox_byte : forall b, byte b -> byte (sbox b).
Proof.
  intros b Hb. apply N.ltb_lt. revert b Hb.
  apply (sweep256 (fun b => sbox b <? 256)). vm_compute. reflexivity.
Qed.
Lemma inv_sbox_byte : forall b, byte b -> byte (inv_sbox b).
Proof.
  intros b Hb. apply N.ltb_lt. revert b Hb.
  apply (sweep256 (fun b => inv_sbox b <? 256)). vm_compute. reflexivity.
Qed.

(* ---------- GF(2^8) constant multiplications ---------- *)
Lemma mul_bytes : forall b, byte b ->
  byte (m2 b) /\ byte (m3 b) /\ byte (m9 b) /\ byte (mb b) /\ byte (md b) /\ byte (me b).
Proof.
  intros b Hb.
  assert (H : ((m2 b <? 256) && (m3 b <? 256) && (m9 b <? 256) && (mb b <? 256) && (md b <? 256) && (me b <? 256))%bool = true).
  { revert b Hb. apply (sweep256 (fun b => ((m2 b <? 256) && (m3 b <? 256) && (m9 b <? 256) && (mb b <? 256) && (md b <? 256) && (me b <? 256))%bool)).
    vm_compute. reflexivity. }
  repeat (apply andb_prop in H; destruct H as [H ?]).
  unfold byte. repeat split; apply N.ltb_lt; assumption.
Qed.

Definition additive (f : N -> N) : Prop :=
  forall a b, byte a -> byte b -> f (N.lxor a b) = N.lxor (f a) (f b).

Lemma additive_sweep : forall f,
  forallb (fun a => forallb (fun b => f (N.lxor a b) =? N.lxor (f a) (f b)) range256) range256 = true -> additive f.
Proof.
  intros f H a b Ha Hb. apply N.eqb_eq.
  apply (sweep256x256 (fun a b => f (N.lxor a b) =? N.lxor (f a) (f b))); assumption.
Qed.

Lemma m2_add : additive m2. Proof. apply additive_sweep. vm_compute. reflexivity. Qed.
Lemma m3_add : additive m3. Proof. apply additive_sweep. vm_compute. reflexivity. Qed.
Lemma m9_add : additive m9. Proof. apply additive_sweep. vm_compute. reflexivity. Qed.
Lemma mb_add : additive mb. Proof. apply additive_sweep. vm_compute. reflexivity. Qed.
Lemma md_add : additive md. Proof. apply additive_sweep. vm_compute. reflexivity. Qed.
Lemma me_add : additive me. Proof. apply additive_sweep. vm_compute. reflexivity. Qed.

Lemma x4_byte : forall a b c d, byte a -> byte b -> byte c -> byte d -> byte (x4 a b c d).
Proof. intros. unfold x4. repeat apply lxor_byte; assumption. Qed.

Lemma additive_x4 : forall f, additive f -> forall a b c d, byte a -> byte b -> byte c -> byte d ->
  f (x4 a b c d) = x4 (f a) (f b) (f c) (f d).
Proof.
  intros f Hf a b c d Ha Hb Hc Hd. unfold x4.
  rewrite Hf by (repeat apply lxor_byte; assumption).
  rewrite Hf by (repeat apply lxor_byte; assumption).
  rewrite Hf by assumption. reflexivity.
Qed.

Lemma x4_transpose : forall t00 t01 t02 t03 t10 t11 t12 t13 t20 t21 t22 t23 t30 t31 t32 t33,
  x4 (x4 t00 t01 t02 t03) (x4 t10 t11 t12 t13) (x4 t20 t21 t22 t23) (x4 t30 t31 t32 t33) =
  x4 (x4 t00 t10 t20 t30) (x4 t01 t11 t21 t31) (x4 t02 t12 t22 t32) (x4 t03 t13 t23 t33).
Proof. intros. unfold x4. xor_ac. Qed.

Lemma x4_unit0 : forall a, x4 a 0 0 0 = a. Proof. intros. unfold x4. rewrite !N.lxor_0_r. reflexivity. Qed.
Lemma x4_unit1 : forall a, x4 0 a 0 0 = a. Proof. intros. unfold x4. rewrite !N.lxor_0_r. apply N.lxor_0_l. Qed.
Lemma x4_unit2 : forall a, x4 0 0 a 0 = a. Proof. intros. unfold x4. rewrite !N.lxor_0_r. apply N.lxor_0_l. Qed.
Lemma x4_unit3 : forall a, x4 0 0 0 a = a. Proof. intros. unfold x4. apply N.lxor_0_l. Qed.

(* the 16 entries of (InvMixColumns matrix) x (MixColumns matrix) = identity, as functions on bytes *)
Definition prod_entries (a : N) : list N :=
  [ x4 (me (m2 a)) (mb a) (md a) (m9 (m3 a));  x4 (me (m3 a)) (mb (m2 a)) (md a) (m9 a);
    x4 (me a) (mb (m3 a)) (md (m2 a)) (m9 a);  x4 (me a) (mb a) (md (m3 a)) (m9 (m2 a));
    x4 (m9 (m2 a)) (me a) (mb a) (md (m3 a));  x4 (m9 (m3 a)) (me (m2 a)) (mb a) (md a);
    x4 (m9 a) (me (m3 a)) (mb (m2 a)) (md a);  x4 (m9 a) (me a) (mb (m3 a)) (md (m2 a));
    x4 (md (m2 a)) (m9 a) (me a) (mb (m3 a));  x4 (md (m3 a)) (m9 (m2 a)) (me a) (mb a);
    x4 (md a) (m9 (m3 a)) (me (m2 a)) (mb a);  x4 (md a) (m9 a) (me (m3 a)) (mb (m2 a));
    x4 (mb (m2 a)) (md a) (m9 a) (me (m3 a));  x4 (mb (m3 a)) (md (m2 a)) (m9 a) (me a);
    x4 (mb a) (md (m3 a)) (m9 (m2 a)) (me a);  x4 (mb a) (md a) (m9 (m3 a)) (me (m2 a)) ].
Definition identity_entries (a : N) : list N := [a;0;0;0; 0;a;0;0; 0;0;a;0; 0;0;0;a].

Fixpoint list_eqb (a b : list N) : bool :=
  match a, b with
  | [], [] => true
  | x :: a', y :: b' => (x =? y) && list_eqb a' b'
  | _, _ => false
  end.
Lemma list_eqb_eq : forall a b, list_eqb a b = true -> a = b.
Proof.
  induction a; destruct b; cbn; intros H; try discriminate; auto.
  apply andb_prop in H. destruct H as [H1 H2]. apply N.eqb_eq in H1. subst. f_equal. auto.
Qed.

Lemma matrix_product : forall a, byte a -> prod_entries a = identity_entries a.
Proof.
  intros a Ha. apply list_eqb_eq. revert a Ha.
  apply (sweep256 (fun a => list_eqb (prod_entries a) (identity_entries a))). vm_compute. reflexivity.
Qed.

Local Opaque m2 m3 m9 mb md me x4.

Lemma inv_mix_mix_col : forall a0 a1 a2 a3, byte a0 -> byte a1 -> byte a2 -> byte a3 ->
  inv_mix_col (x4 (m2 a0) (m3 a1) a2 a3) (x4 a0 (m2 a1) (m3 a2) a3)
              (x4 a0 a1 (m2 a2) (m3 a3)) (x4 (m3 a0) a1 a2 (m2 a3)) = [a0; a1; a2; a3].
Proof.
  intros a0 a1 a2 a3 H0 H1 H2 H3.
  destruct (mul_bytes a0 H0) as (?&?&?&?&?&?). destruct (mul_bytes a1 H1) as (?&?&?&?&?&?).
  destruct (mul_bytes a2 H2) as (?&?&?&?&?&?). destruct (mul_bytes a3 H3) as (?&?&?&?&?&?).
  pose proof (matrix_product a0 H0) as P0. pose proof (matrix_product a1 H1) as P1.
  pose proof (matrix_product a2 H2) as P2. pose proof (matrix_product a3 H3) as P3.
  unfold prod_entries, identity_entries in P0, P1, P2, P3.
  unfold inv_mix_col.
  rewrite !(additive_x4 me me_add), !(additive_x4 mb mb_add), !(additive_x4 md md_add), !(additive_x4 m9 m9_add)
    by assumption.
  injection P0 as E00 E01 E02 E03 E10 E11 E12 E13 E20 E21 E22 E23 E30 E31 E32 E33.
  injection P1 as F00 F01 F02 F03 F10 F11 F12 F13 F20 F21 F22 F23 F30 F31 F32 F33.
  injection P2 as G00 G01 G02 G03 G10 G11 G12 G13 G20 G21 G22 G23 G30 G31 G32 G33.
  injection P3 as K00 K01 K02 K03 K10 K11 K12 K13 K20 K21 K22 K23 K30 K31 K32 K33.
  f_equal; [|f_equal; [|f_equal; [|f_equal]]]; rewrite x4_transpose.
  - rewrite E00, F01, G02, K03. apply x4_unit0.
  - rewrite E10, F11, G12, K13. apply x4_unit1.
  - rewrite E20, F21, G22, K23. apply x4_unit2.
  - rewrite E30, F31, G32, K33. apply x4_unit3.
Qed.

Lemma mix_col_bytes : forall a0 a1 a2 a3, byte a0 -> byte a1 -> byte a2 -> byte a3 -> bytes (mix_col a0 a1 a2 a3).
Proof.
  intros a0 a1 a2 a3 H0 H1 H2 H3.
  destruct (mul_bytes a0 H0) as (?&?&?&?&?&?). destruct (mul_bytes a1 H1) as (?&?&?&?&?&?).
  destruct (mul_bytes a2 H2) as (?&?&?&?&?&?). destruct (mul_bytes a3 H3) as (?&?&?&?&?&?).
  unfold mix_col, bytes. repeat constructor; apply x4_byte; assumption.
Qed.
Lemma inv_mix_col_bytes : forall a0 a1 a2 a3, byte a0 -> byte a1 -> byte a2 -> byte a3 -> bytes (inv_mix_col a0 a1 a2 a3).
Proof.
  intros a0 a1 a2 a3 H0 H1 H2 H3.
  destruct (mul_bytes a0 H0) as (?&?&?&?&?&?). destruct (mul_bytes a1 H1) as (?&?&?&?&?&?).
  destruct (mul_bytes a2 H2) as (?&?&?&?&?&?). destruct (mul_bytes a3 H3) as (?&?&?&?&?&?).
  unfold inv_mix_col, bytes. repeat constructor; apply x4_byte; assumption.
Qed.

(* ---------- the four transformations on well-formed states ---------- *)
Notation wf16 := (wfb 16).

Ltac destruct16 s Hl :=
  do 16 (destruct s as [|? s]; [discriminate Hl|]); destruct s; [|discriminate Hl].
Ltac inv_forall :=
  repeat match goal with H : Forall _ (_ :: _) |- _ => inversion H; clear H; subst end.

Lemma shift_rows_wf : forall s, wf16 s -> wf16 (shift_rows s).
Proof. intros s [Hl Hb]. destruct16 s Hl. unfold bytes in *. inv_forall. split; [reflexivity|]. cbn. repeat constructor; assumption. Qed.
Lemma inv_shift_rows_wf : forall s, wf16 s -> wf16 (inv_shift_rows s).
Proof. intros s [Hl Hb]. destruct16 s Hl. unfold bytes in *. inv_forall. split; [reflexivity|]. cbn. repeat constructor; assumption. Qed.
Lemma inv_shift_shift : forall s, length s = 16%nat -> inv_shift_rows (shift_rows s) = s.
Proof. intros s Hl. destruct16 s Hl. reflexivity. Qed.

Lemma sub_bytes_wf : forall s, wf16 s -> wf16 (sub_bytes s).
Proof.
  intros s [Hl Hb]. split; unfold sub_bytes; [rewrite map_length; exact Hl|].
  unfold bytes in *. apply Forall_forall. intros x Hx. apply in_map_iff in Hx. destruct Hx as (y & <- & Hy).
  apply sbox_byte. eapply Forall_forall in Hb; eauto.
Qed.
Lemma inv_sub_bytes_wf : forall s, wf16 s -> wf16 (inv_sub_bytes s).
Proof.
  intros s [Hl Hb]. split; unfold inv_sub_bytes; [rewrite map_length; exact Hl|].
  unfold bytes in *. apply Forall_forall. intros x Hx. apply in_map_iff in Hx. destruct Hx as (y & <- & Hy).
  apply inv_sbox_byte. eapply Forall_forall in Hb; eauto.
Qed.
Lemma inv_sub_sub : forall s, bytes s -> inv_sub_bytes (sub_bytes s) = s.
Proof.
  unfold inv_sub_bytes, sub_bytes, bytes. induction s as [|x s IH]; intros H; [reflexivity|].
  inversion H; subst. cbn [map]. rewrite inv_sbox_sbox by assumption. f_equal. apply IH. assumption.
Qed.

Lemma mix_columns_wf : forall s, wf16 s -> wf16 (mix_columns s).
Proof.
  intros s [Hl Hb]. destruct16 s Hl. unfold bytes in *. inv_forall. split; [reflexivity|].
  unfold mix_columns. repeat apply bytes_app; apply mix_col_bytes; assumption.
Qed.
Lemma inv_mix_columns_wf : forall s, wf16 s -> wf16 (inv_mix_columns s).
Proof.
  intros s [Hl Hb]. destruct16 s Hl. unfold bytes in *. inv_forall. split; [reflexivity|].
  unfold inv_mix_columns. repeat apply bytes_app; apply inv_mix_col_bytes; assumption.
Qed.
Lemma inv_mix_mix : forall s, wf16 s -> inv_mix_columns (mix_columns s) = s.
Proof.
  intros s [Hl Hb]. destruct16 s Hl. unfold bytes in *. inv_forall.
  unfold mix_columns, mix_col. cbn [app]. unfold inv_mix_columns.
  rewrite !inv_mix_mix_col by assumption. reflexivity.
Qed.

Lemma add_round_key_wf : forall k s, wf16 k -> wf16 s -> wf16 (add_round_key k s).
Proof.
  intros k s [Hkl Hkb] [Hsl Hsb]. unfold add_round_key. split.
  - rewrite xorl_length; congruence.
  - apply xorl_bytes; assumption.
Qed.
Lemma add_add : forall k s, wf16 k -> wf16 s -> add_round_key k (add_round_key k s) = s.
Proof. intros k s [Hkl _] [Hsl _]. unfold add_round_key. apply xorl_cancel_r. congruence. Qed.

(* ---------- rounds ---------- *)
Definition F (s : list N) := shift_rows (sub_bytes s).
Definition G (s : list N) := inv_sub_bytes (inv_shift_rows s).

Lemma F_wf : forall s, wf16 s -> wf16 (F s).
Proof. intros. apply shift_rows_wf, sub_bytes_wf. assumption. Qed.
Lemma G_F : forall s, wf16 s -> G (F s) = s.
Proof.
  intros s H. unfold G, F. destruct (sub_bytes_wf s H) as [Hl _].
  rewrite inv_shift_shift by exact Hl. apply inv_sub_sub. apply H.
Qed.

Lemma enc_round_wf : forall k s, wf16 k -> wf16 s -> wf16 (enc_round k s).
Proof. intros. unfold enc_round. apply add_round_key_wf; [assumption|]. apply mix_columns_wf, F_wf. assumption. Qed.

Lemma dec_enc_round : forall k s, wf16 k -> wf16 s -> dec_round k (F (enc_round k s)) = F s.
Proof.
  intros k s Hk Hs. unfold dec_round. fold (G (F (enc_round k s))).
  rewrite G_F by (apply enc_round_wf; assumption).
  unfold enc_round. fold (F s).
  rewrite add_add by (try assumption; apply mix_columns_wf, F_wf; assumption).
  apply inv_mix_mix, F_wf. assumption.
Qed.

Definition enc_fold (mid : list (list N)) (s : list N) := fold_left (fun s k => enc_round k s) mid s.
Definition dec_fold (mid : list (list N)) (s : list N) := fold_left (fun s k => dec_round k s) mid s.

Lemma enc_fold_wf : forall mid s, Forall wf16 mid -> wf16 s -> wf16 (enc_fold mid s).
Proof.
  induction mid as [|k mid IH]; intros s Hm Hs; [exact Hs|]. inversion Hm; subst.
  cbn. apply IH; [assumption|]. apply enc_round_wf; assumption.
Qed.

Lemma dec_fold_enc_fold : forall mid s, Forall wf16 mid -> wf16 s ->
  dec_fold (rev mid) (F (enc_fold mid s)) = F s.
Proof.
  induction mid as [|k mid IH] using rev_ind; intros s Hm Hs; [reflexivity|].
  apply Forall_app in Hm. destruct Hm as [Hm Hk]. inversion Hk; subst.
  unfold enc_fold, dec_fold in *. rewrite fold_left_app, rev_app_distr. cbn [fold_left rev app].
  rewrite dec_enc_round by (try assumption; apply enc_fold_wf; assumption).
  apply IH; assumption.
Qed.

Lemma enc_tail_app : forall mid kn s, enc_tail (mid ++ [kn]) s = enc_final kn (enc_fold mid s).
Proof.
  induction mid as [|k mid IH]; intros kn s; [reflexivity|].
  cbn [app enc_tail]. destruct (mid ++ [kn]) eqn:E; [destruct mid; discriminate|].
  rewrite <- E, IH. reflexivity.
Qed.
Lemma dec_tail_app : forall mid k0 s, dec_tail (mid ++ [k0]) s = dec_final k0 (dec_fold mid s).
Proof.
  induction mid as [|k mid IH]; intros k0 s; [reflexivity|].
  cbn [app dec_tail]. destruct (mid ++ [k0]) eqn:E; [destruct mid; discriminate|].
  rewrite <- E, IH. reflexivity.
Qed.

(* InvCipher(Cipher(in)) = in for every schedule of at least two well-formed round keys *)
Theorem inv_cipher_cipher : forall rks blk, (2 <= length rks)%nat -> Forall wf16 rks -> wf16 blk ->
  inv_cipher rks (cipher rks blk) = blk.
Proof.
  intros rks blk Hlen Hk Hb.
  destruct rks as [|k0 rest]; [cbn in Hlen; lia|].
  destruct (exists_last (l := rest)) as (mid & kn & ->); [destruct rest; [cbn in Hlen; lia|discriminate]|].
  inversion Hk as [|? ? Hk0 Hrest]; subst. apply Forall_app in Hrest. destruct Hrest as [Hmid Hkn].
  inversion Hkn as [|? ? Hkn' _]; subst.
  unfold inv_cipher, cipher. cbn [rev]. rewrite rev_app_distr. cbn [rev app].
  rewrite enc_tail_app, dec_tail_app.
  assert (Hs0 : wf16 (add_round_key k0 blk)) by (apply add_round_key_wf; assumption).
  assert (Hsm : wf16 (enc_fold mid (add_round_key k0 blk))) by (apply enc_fold_wf; assumption).
  unfold enc_final. fold (F (enc_fold mid (add_round_key k0 blk))).
  rewrite add_add by (try assumption; apply F_wf; assumption).
  rewrite dec_fold_enc_fold by assumption.
  unfold dec_final. fold (G (F (add_round_key k0 blk))). rewrite G_F by assumption.
  apply add_add; assumption.
Qed.

Lemma enc_final_wf : forall k s, wf16 k -> wf16 s -> wf16 (enc_final k s).
Proof. intros. unfold enc_final. apply add_round_key_wf; [assumption|]. apply F_wf. assumption. Qed.

Lemma cipher_wf : forall rks blk, (2 <= length rks)%nat -> Forall wf16 rks -> wf16 blk -> wf16 (cipher rks blk).
Proof.
  intros rks blk Hlen Hk Hb.
  destruct rks as [|k0 rest]; [cbn in Hlen; lia|].
  destruct (exists_last (l := rest)) as (mid & kn & ->); [destruct rest; [cbn in Hlen; lia|discriminate]|].
  inversion Hk as [|? ? Hk0 Hrest]; subst. apply Forall_app in Hrest. destruct Hrest as [Hmid Hkn].
  inversion Hkn as [|? ? Hkn' _]; subst.
  unfold cipher. rewrite enc_tail_app. apply enc_final_wf; [assumption|].
  apply enc_fold_wf; [assumption|]. apply add_round_key_wf; assumption.
Qed.
