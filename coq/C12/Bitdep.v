(* C12 — a second symbolic evaluator for the word-level language of Bitvec.v: for every bit of
   every variable, either "known zero" or the set of input bits the bit may depend on.  Sound
   for two runs at once: two inputs that agree on the dependency set of a bit agree on that bit.
   Used for the constant-time bitsliced AES S-box (openssl_sub_u64 etc.): the analysis shows that
   the circuit works byte lane by byte lane, so a 256-value sweep per lane covers all 2^64 inputs. *)
From Coq Require Import List NArith Bool Lia Arith PeanoNat Setoid.
From MV Require Import C12.Bitvec.
Import ListNotations.
Local Open Scope N_scope.

Inductive dbit := DZ | DD (s : list nat).
Definition dword := list dbit.

Definition insert (i : nat) (s : list nat) : list nat := if mem i s then s else i :: s.
Definition union (s t : list nat) : list nat := fold_right insert t s.

Definition dxor (a b : dbit) : dbit :=
  match a, b with DZ, _ => b | _, DZ => a | DD s, DD t => DD (union s t) end.
Definition dand (a b : dbit) : dbit :=
  match a, b with DZ, _ => DZ | _, DZ => DZ | DD s, DD t => DD (union s t) end.

Fixpoint dzip (f : dbit -> dbit -> dbit) (a b : dword) : dword :=
  match a with
  | [] => map (f DZ) b
  | x :: a' => match b with [] => f x DZ :: dzip f a' [] | y :: b' => f x y :: dzip f a' b' end
  end.

Definition dbits_of_const (c : N) : dword := map (fun i => if N.testbit c (N.of_nat i) then DD [] else DZ) (seq 0 64).

Fixpoint deval (denv : list dword) (e : exp) : option dword :=
  match e with
  | Var v => Some (nth v denv [])
  | Cst c => if c <? 2 ^ 64 then Some (dbits_of_const c) else None
  | Xor a b | Or a b => match deval denv a, deval denv b with Some x, Some y => Some (dzip dxor x y) | _, _ => None end
  | And a b => match deval denv a, deval denv b with Some x, Some y => Some (dzip dand x y) | _, _ => None end
  | Shl w a k => option_map (fun x => firstn w (repeat DZ k ++ x)) (deval denv a)
  | Shr a k => option_map (skipn k) (deval denv a)
  | Trunc w a => option_map (firstn w) (deval denv a)
  | Add _ _ _ | Tab _ _ | Sub _ _ _ => None
  end.
Definition dstep (denv : option (list dword)) (s : stmt) : option (list dword) :=
  match denv with
  | Some de => match deval de (snd s) with Some w => Some (set_nth [] (fst s) w de) | None => None end
  | None => None
  end.
Definition drun (denv : list dword) (p : prog) : option (list dword) := fold_left dstep p (Some denv).

Section Sound.
  Variables X X' : nat -> bool.        (* the input bits of the two runs *)
  Variable tabs : list (list N).

  Definition agree (s : list nat) : Prop := forall j, In j s -> X j = X' j.
  Definition dsem (a : dbit) (t t' : bool) : Prop :=
    match a with DZ => t = false /\ t' = false | DD s => agree s -> t = t' end.
  Definition drel (aw : dword) (n n' : N) : Prop :=
    forall i : nat, dsem (nth i aw DZ) (N.testbit n (N.of_nat i)) (N.testbit n' (N.of_nat i)).

  Lemma mem_In : forall i s, mem i s = true <-> In i s.
  Proof.
    induction s as [|j r IH]; cbn [mem In]; [split; [discriminate|contradiction]|].
    rewrite orb_true_iff, IH, Nat.eqb_eq. split; intros [H|H]; auto.
  Qed.
  Lemma In_insert : forall i j s, In j (insert i s) <-> j = i \/ In j s.
  Proof.
    intros i j s. unfold insert. destruct (mem i s) eqn:E.
    - split; [auto|]. intros [->|H]; [apply mem_In; exact E|exact H].
    - cbn [In]. split; intros [H|H]; auto.
  Qed.
  Lemma In_union : forall s t j, In j (union s t) <-> In j s \/ In j t.
  Proof.
    induction s as [|i r IH]; intros t j; cbn [union fold_right].
    - split; [auto|intros [[]|H]; exact H].
    - fold (union r t). rewrite In_insert, IH. cbn. split; [intros [->|[H|H]]; auto|intros [[<-|H]|H]; auto].
  Qed.
  Lemma agree_union : forall s t, agree (union s t) -> agree s /\ agree t.
  Proof. intros s t H. split; intros j Hj; apply H; apply In_union; auto. Qed.

  Lemma dsem_xor : forall a b t t' u u', dsem a t t' -> dsem b u u' -> dsem (dxor a b) (xorb t u) (xorb t' u').
  Proof.
    intros [|s] [|r] t t' u u' Ha Hb; cbn in *.
    - destruct Ha as [-> ->], Hb as [-> ->]. auto.
    - destruct Ha as [-> ->]. intro H. rewrite (Hb H). reflexivity.
    - destruct Hb as [-> ->]. intro H. rewrite (Ha H). reflexivity.
    - intro H. destruct (agree_union _ _ H) as [H1 H2]. rewrite (Ha H1), (Hb H2). reflexivity.
  Qed.
  Lemma dsem_or : forall a b t t' u u', dsem a t t' -> dsem b u u' -> dsem (dxor a b) (orb t u) (orb t' u').
  Proof.
    intros [|s] [|r] t t' u u' Ha Hb; cbn in *.
    - destruct Ha as [-> ->], Hb as [-> ->]. auto.
    - destruct Ha as [-> ->]. intro H. rewrite (Hb H). reflexivity.
    - destruct Hb as [-> ->]. intro H. rewrite (Ha H), !orb_false_r. reflexivity.
    - intro H. destruct (agree_union _ _ H) as [H1 H2]. rewrite (Ha H1), (Hb H2). reflexivity.
  Qed.
  Lemma dsem_and : forall a b t t' u u', dsem a t t' -> dsem b u u' -> dsem (dand a b) (andb t u) (andb t' u').
  Proof.
    intros [|s] [|r] t t' u u' Ha Hb; cbn in *.
    - destruct Ha as [-> ->]. auto.
    - destruct Ha as [-> ->]. auto.
    - destruct Hb as [-> ->]. rewrite !andb_false_r. auto.
    - intro H. destruct (agree_union _ _ H) as [H1 H2]. rewrite (Ha H1), (Hb H2). reflexivity.
  Qed.

  Lemma nth_nil_z : forall i, nth i (@nil dbit) DZ = DZ. Proof. destruct i; reflexivity. Qed.

  Lemma dzip_nth : forall f, f DZ DZ = DZ -> forall a b i, nth i (dzip f a b) DZ = f (nth i a DZ) (nth i b DZ).
  Proof.
    intros f Hf. induction a as [|x a IH]; intros b i.
    - cbn [dzip]. rewrite nth_nil_z. destruct (Nat.ltb_spec i (length b)).
      + rewrite nth_indep with (d' := f DZ DZ) by (rewrite map_length; lia). apply (map_nth (f DZ) b DZ i).
      + rewrite !nth_overflow by (rewrite ?map_length; lia). symmetry. exact Hf.
    - destruct b as [|y b]; cbn [dzip]; destruct i; cbn [nth]; try reflexivity.
      + rewrite IH, nth_nil_z. reflexivity.
      + apply IH.
  Qed.

  Lemma nth_firstn_d : forall w (l : dword) i, nth i (firstn w l) DZ = if Nat.ltb i w then nth i l DZ else DZ.
  Proof.
    induction w; intros l i.
    - cbn [firstn]. rewrite nth_nil_z. reflexivity.
    - destruct l as [|a l].
      + cbn [firstn]. rewrite !nth_nil_z. destruct (Nat.ltb i (S w)); reflexivity.
      + destruct i; cbn [firstn nth]; [reflexivity|]. rewrite IHw. reflexivity.
  Qed.
  Lemma nth_skipn_d : forall k (l : dword) i, nth i (skipn k l) DZ = nth (i + k) l DZ.
  Proof.
    induction k; intros l i; [rewrite Nat.add_0_r; reflexivity|].
    destruct l; [rewrite !nth_nil_z; reflexivity|]. cbn [skipn]. rewrite IHk, Nat.add_succ_r. reflexivity.
  Qed.
  Lemma nth_shl_d : forall k (l : dword) i, nth i (repeat DZ k ++ l) DZ = if Nat.ltb i k then DZ else nth (i - k) l DZ.
  Proof.
    induction k; intros l i; [rewrite Nat.sub_0_r; reflexivity|].
    destruct i; cbn [repeat app nth]; [reflexivity|]. rewrite IHk. reflexivity.
  Qed.

  Definition drel_env (denv : list dword) (env env' : list N) : Prop :=
    forall v, drel (nth v denv []) (nth v env 0) (nth v env' 0).

  Lemma dsem_zero : dsem DZ false false. Proof. split; reflexivity. Qed.

  Theorem deval_sound : forall denv env env' e dw, drel_env denv env env' -> deval denv e = Some dw ->
    drel dw (eval tabs env e) (eval tabs env' e).
  Proof.
    intros denv env env' e. induction e; intros dw Henv H; cbn [deval eval] in *; try discriminate.
    - injection H as <-. apply Henv.
    - destruct (N.ltb_spec c (2 ^ 64)); [|discriminate]. injection H as <-. intro i. unfold dbits_of_const.
      destruct (Nat.ltb_spec i 64).
      + rewrite nth_indep with (d' := (fun i => if N.testbit c (N.of_nat i) then DD [] else DZ) 0%nat) by (rewrite map_length, seq_length; lia).
        rewrite (map_nth (fun i => if N.testbit c (N.of_nat i) then DD [] else DZ) (seq 0 64) 0%nat i), seq_nth by lia. cbn [Nat.add].
        destruct (N.testbit c (N.of_nat i)); cbn; auto.
      + rewrite nth_overflow by (rewrite map_length, seq_length; lia).
        rewrite (high_bits_zero c i) by assumption. apply dsem_zero.
    - destruct (deval denv e1) as [x1|]; [|discriminate]. destruct (deval denv e2) as [x2|]; [|discriminate]. injection H as <-.
      intro i. rewrite !N.lxor_spec, (dzip_nth dxor eq_refl). apply dsem_xor; [apply (IHe1 _ Henv eq_refl)|apply (IHe2 _ Henv eq_refl)].
    - destruct (deval denv e1) as [x1|]; [|discriminate]. destruct (deval denv e2) as [x2|]; [|discriminate]. injection H as <-.
      intro i. rewrite !N.land_spec, (dzip_nth dand eq_refl). apply dsem_and; [apply (IHe1 _ Henv eq_refl)|apply (IHe2 _ Henv eq_refl)].
    - destruct (deval denv e1) as [x1|]; [|discriminate]. destruct (deval denv e2) as [x2|]; [|discriminate]. injection H as <-.
      intro i. rewrite !N.lor_spec, (dzip_nth dxor eq_refl). apply dsem_or; [apply (IHe1 _ Henv eq_refl)|apply (IHe2 _ Henv eq_refl)].
    - destruct (deval denv e) as [x1|]; [|discriminate]. cbn [option_map] in H. injection H as <-.
      specialize (IHe _ Henv eq_refl). intro i.
      rewrite !N.land_spec, ones_testbit, nth_firstn_d, nth_shl_d.
      destruct (Nat.ltb_spec i w); [rewrite !andb_true_r|rewrite !andb_false_r; apply dsem_zero].
      destruct (Nat.ltb_spec i k).
      + rewrite !N.shiftl_spec_low by lia. apply dsem_zero.
      + rewrite !N.shiftl_spec_high by lia. replace (N.of_nat i - N.of_nat k) with (N.of_nat (i - k)) by lia. apply IHe.
    - destruct (deval denv e) as [x1|]; [|discriminate]. cbn [option_map] in H. injection H as <-.
      specialize (IHe _ Henv eq_refl). intro i.
      rewrite !N.shiftr_spec by lia. rewrite nth_skipn_d. replace (N.of_nat i + N.of_nat k) with (N.of_nat (i + k)) by lia. apply IHe.
    - destruct (deval denv e) as [x1|]; [|discriminate]. cbn [option_map] in H. injection H as <-.
      specialize (IHe _ Henv eq_refl). intro i.
      rewrite !N.land_spec, ones_testbit, nth_firstn_d.
      destruct (Nat.ltb i w); [rewrite !andb_true_r; apply IHe|rewrite !andb_false_r; apply dsem_zero].
  Qed.

  Theorem drun_sound : forall p denv env env' denv', drel_env denv env env' -> drun denv p = Some denv' ->
    drel_env denv' (run tabs env p) (run tabs env' p).
  Proof.
    unfold drun, run. induction p as [|[v e] p IH]; intros denv env env' denv' Henv H; cbn [fold_left] in *.
    - injection H as <-. exact Henv.
    - cbn [dstep fst snd] in H. destruct (deval denv e) as [w|] eqn:E.
      + apply (IH _ _ _ _) with (2 := H). intro u. unfold step. cbn [fst snd].
        pose proof (nth_set_nth dword [] v w denv u) as Q1.
        pose proof (nth_set_nth N 0 v (eval tabs env e) env u) as Q2.
        pose proof (nth_set_nth N 0 v (eval tabs env' e) env' u) as Q3.
        unfold dword in *. rewrite Q1, Q2, Q3.
        destruct (Nat.eqb u v); [apply (deval_sound _ _ _ _ _ Henv E)|apply Henv].
      + exfalso. clear -H. induction p; cbn in H; [discriminate|auto].
  Qed.
End Sound.
