(* C08 — the `ready` hand-over (C08/ModelAttach.v): under every interleaving of the creating and the attaching
   process, whenever muggle_shm_ringbuf_is_ready answers true the attacher reads the geometry the creator wrote
   (not the zero-filled segment) and every such read is covered by its view, provided the store of ready is a
   release and the load of it an acquire.  With either of them relaxed the model has an uncovered read. *)
From MV Require Import C08.Model C08.ModelConc C08.ModelAttach.
Local Open Scope Z_scope.

Record AInv (n : Z) (s : asys) : Prop := {
  ai_n : a_n s = n;
  ai_init : a_cpc s <> CInit -> a_geo s = n /\ a_magic s = MAGIC /\ a_cseen s = a_gver s;
  ai_nrdy : a_cpc s = CInit \/ a_cpc s = CStore -> a_ready s = 0;
  ai_rdy : a_ready s = 1 -> (a_gver s <= a_rstamp s)%nat /\ a_cpc s <> CInit;
  ai_rv : a_ready s = 0 \/ a_ready s = 1;
  ai_at : match a_apc s with
          | ASegMid rdy | ALoadMagic rdy | ASegCheck rdy _ => rdy = 1 -> (a_gver s <= a_aseen s)%nat /\ a_ready s = 1
          | _ => True
          end;
  ai_uncov : a_uncov s = 0%nat;
  ai_got : Forall (fun g => g = n) (a_got s);
}.

Ltac asimpl := cbn [a_n a_geo a_magic a_ready a_gver a_rstamp a_cpc a_cseen a_apc a_aseen a_tries a_got a_uncov aset] in *.

Lemma ainit_inv n tries : AInv n (ainit n tries).
Proof.
  unfold ainit. constructor; asimpl; auto; try (intros H; congruence); try (intros H; exfalso; apply H; reflexivity).
Qed.

Lemma astep_inv P n s t c s' l : mo_attach_sufficient P = true -> AInv n s -> astep P s t c = Some (s', l) -> AInv n s'.
Proof.
  intros Hmo I H. unfold mo_attach_sufficient in Hmo. apply andb_prop in Hmo as [Mr Ma].
  destruct I as [In Ii Inr Ir Irv Iat Iu Ig]. unfold astep in H.
  destruct (Nat.eqb t 0).
  - (* creator *)
    unfold cr_step in H. destruct (a_cpc s) eqn:Ec; inversion H; subst s' l; clear H.
    + (* the plain initialisation: ready is still 0 *)
      pose proof (Inr (or_introl eq_refl)) as R0.
      constructor; asimpl; auto;
        try solve [ intros _; rewrite In; auto
                  | intros R1; rewrite R0 in R1; discriminate
                  | destruct (a_apc s); auto; intros R1; destruct (Iat R1) as (_ & R2); rewrite R0 in R2; discriminate ].
    + (* the store of ready: a release publishes the creator's view *)
      destruct (Ii ltac:(discriminate)) as (G1 & G2 & G3). pose proof (Inr (or_intror eq_refl)) as R0.
      constructor; asimpl; auto;
        try solve [ intros [X|X]; discriminate
                  | intros _; unfold rel_stamp; rewrite Mr, G3; split; [lia|discriminate]
                  | destruct (a_apc s); auto; intros R1; destruct (Iat R1) as (A1 & A2); rewrite R0 in A2; discriminate ].
    + constructor; asimpl; auto;
        try solve [ intros _; apply Ii; discriminate | intros [X|X]; discriminate
                  | intros R1; destruct (Ir R1) as (A1 & _); split; [exact A1|discriminate] ].
    + constructor; asimpl; auto;
        try solve [ intros _; apply Ii; discriminate | intros [X|X]; discriminate
                  | intros R1; destruct (Ir R1) as (A1 & _); split; [exact A1|discriminate] ].
  - destruct (Nat.eqb t 1); [|discriminate].
    unfold at_step in H. destruct (a_apc s) eqn:Ea.
    + inversion H; subst s' l; clear H. constructor; asimpl; auto.
    + (* the load of ready: an acquire joins the published view *)
      inversion H; subst s' l; clear H. constructor; asimpl; auto.
      intros R1. split; [|exact R1]. destruct (Ir R1) as (A1 & _). unfold acq_join. rewrite Ma. lia.
    + inversion H; subst s' l; clear H. constructor; asimpl; auto.
    + inversion H; subst s' l; clear H. constructor; asimpl; auto.
    + destruct ((mg =? MAGIC) && (rdy =? 1)) eqn:T; inversion H; subst s' l; clear H.
      * apply andb_prop in T as [_ T]. apply Z.eqb_eq in T. destruct (Iat T) as (A1 & A2).
        destruct (Ir A2) as (_ & B2). destruct (Ii B2) as (G1 & _).
        constructor; asimpl; auto.
        -- replace (Nat.leb (a_gver s) (a_aseen s)) with true by (symmetry; apply Nat.leb_le; exact A1). exact Iu.
        -- apply Forall_app. split; [exact Ig|]. constructor; [exact G1|constructor].
      * constructor; asimpl; auto.
    + inversion H; subst s' l; clear H. constructor; asimpl; auto.
    + destruct (a_tries s) as [|[|k]]; inversion H; subst s' l; clear H; constructor; asimpl; auto.
    + inversion H; subst s' l; clear H. constructor; asimpl; auto.
    + discriminate.
Qed.

Theorem attach_reads_initialised_geometry P n tries sched : mo_attach_sufficient P = true ->
  let s := exec asys (astep P) (ainit n tries) sched in
  a_uncov s = 0%nat /\ Forall (fun g => g = n) (a_got s).
Proof.
  intros Hmo s. assert (I : AInv n s).
  { subst s. apply (inv_exec asys (astep P) (AInv n)).
    - intros s0 t c s' l I H. apply (astep_inv P n s0 t c s' l Hmo I H).
    - apply ainit_inv. }
  destruct I. auto.
Qed.

(* ---- concrete executions ---- *)
Definition AP_code : aparams := {| mo_open_store_ready := Rel; mo_ready_load := Acq; mo_magic_load := Rlx |}.
Definition AP_weak_store : aparams := {| mo_open_store_ready := Rlx; mo_ready_load := Acq; mo_magic_load := Rlx |}.
Definition AP_weak_load : aparams := {| mo_open_store_ready := Rel; mo_ready_load := Rlx; mo_magic_load := Rlx |}.
Definition arr (k : nat) (t : nat) : list (nat * nat) := repeat (t, 0%nat) k.

(* the attacher polls once before the creator has stored ready, then sees it: it reads the creator's geometry *)
Example attach_nonvacuous :
  let s := exec asys (astep AP_code) (ainit 64 5) (arr 1 0 ++ arr 7 1 ++ arr 1 0 ++ arr 6 1 ++ arr 3 0 ++ arr 8 1) in
  a_got s = [64] /\ a_uncov s = 0%nat /\ a_apc s = ADone /\ a_cpc s = CDone /\ a_tries s = 4%nat.
Proof. vm_compute. repeat split; reflexivity. Qed.
(* with the store (or the load) relaxed the same schedule reads the geometry without the creator's writes in view *)
Example attach_orders_necessary :
  let sc := arr 1 0 ++ arr 7 1 ++ arr 1 0 ++ arr 6 1 ++ arr 3 0 ++ arr 8 1 in
  (0 < a_uncov (exec asys (astep AP_weak_store) (ainit 64 5) sc))%nat /\
  (0 < a_uncov (exec asys (astep AP_weak_load) (ainit 64 5) sc))%nat /\
  mo_attach_sufficient AP_weak_store = false /\ mo_attach_sufficient AP_weak_load = false /\
  mo_attach_sufficient AP_code = true.
Proof. vm_compute. repeat split; auto. Qed.
