(* C08 — interleaving model (stub, replaced below) *)
From MV Require Export Lib.Conc.
Record params := {
  mo_w_load_r : memorder; mo_w_store_wrap : memorder; mo_w_store_commit : memorder;
  mo_r_load_w : memorder; mo_r_store_wrap : memorder; mo_r_store_move : memorder;
  mo_lock_tas : memorder; mo_lock_clear : memorder }.
