(* C08 — interleaving model of the shared-memory ring buffer at the granularity of
   harness/vsched: thread 0 is the reader (loop: r_fetch, r_move), threads 1..nw are writers
   (per message: [lock], w_alloc_bytes, fill, w_move, [unlock], bounded retries on FULL).
   Every atomic operation (load/store of the cursors, test-and-set/clear of the write lock),
   every sched_yield and every harness yield point is one step producing the logged event;
   every plain segment between two of them is one step producing the driver's notes.
   The data lines are abstract: per line the two header words (n_bytes, n_cachelines), the
   payload tag of the message whose header is at that line, and a version for the
   release/acquire view discipline of Lib/Conc.v (a payload poisons the header words of the
   lines it covers).  Memory orders are parameters (gen/Params_C08.v).  Ghost fields record the
   committed / unread / delivered messages and the monitors (uncovered read, overlap). *)
From MV Require Export Lib.Conc.
From MV Require Import C08.Model.
Local Open Scope Z_scope.

Record params := {
  mo_w_load_r : memorder;        (* update_cached_remain: load read_cursor *)
  mo_w_store_wrap : memorder;    (* update_cached_remain: store write_cursor 0 *)
  mo_w_store_commit : memorder;  (* w_move: store write_cursor *)
  mo_r_load_w : memorder;        (* r_fetch: load write_cursor *)
  mo_r_store_wrap : memorder;    (* r_fetch: store read_cursor 0 *)
  mo_r_store_move : memorder;    (* r_move: store read_cursor *)
  mo_lock_tas : memorder;        (* muggle_spinlock_lock *)
  mo_lock_clear : memorder;      (* muggle_spinlock_unlock *)
}.

Definition acq_join (mo : memorder) (seen stamp : nat) : nat :=
  if is_acq mo then Nat.max seen stamp else seen.
Definition rel_stamp (mo : memorder) (seen : nat) : nat :=
  if is_rel mo then seen else 0%nat.
Definition rmw_stamp (mo : memorder) (seen stamp : nat) : nat :=
  if is_rel mo then Nat.max stamp seen else stamp.

(* cells and notes as named by the driver *)
Definition cell_w : nat := 0%nat.
Definition cell_r : nat := 1%nat.
Definition cell_lock : nat := 2%nat.
Definition cell_ridle : nat := 3%nat.
Definition cell_wretry : nat := 4%nat.
Definition n_sent : nat := 1%nat.
Definition n_full : nat := 2%nat.
Definition n_drop : nat := 3%nat.
Definition n_wdone : nat := 4%nat.
Definition n_glen : nat := 5%nat.
Definition n_goff : nat := 6%nat.
Definition n_gtag : nat := 7%nat.
Definition n_idle : nat := 8%nat.
Definition n_rdone : nat := 9%nat.

Inductive rpc :=
  | RSeg0 | RLoadW | RSegFetch (w_obs : Z) | RStoreWrap | RSegFetch2 | RStoreMove (v : Z)
  | RIdle | RFin | RDone.
Inductive wpc :=
  | WSeg0 | WTas | WSegY | WYield | WSegT | WSegAlloc | WLoadR | WSegUpd (r_obs : Z)
  | WStoreWrap (left : Z) | WSegWrapped (left : Z) | WStoreCommit (a need : Z)
  | WSegC (off : Z) | WClear (sent : bool) (off : Z) | WSegFull | WRetry | WKilled | WFin | WDone.

Record rthread := { r_pc : rpc; r_done : bool; r_seen : nat }.
Record wthread := {
  w_pc : wpc;
  w_script : list (Z * Z);       (* (n_bytes, tag) still to send *)
  w_tries : nat;                 (* attempts left for the current message *)
  w_pend : list (nat * Z);       (* notes printed at the start of the next segment *)
  w_seen : nat;
  w_ev : nat;                    (* atomic operations performed (for the kill switch) *)
}.

Record csys := {
  c_n : Z; c_locked : bool; c_nw : nat; c_tries : nat; c_kill : option nat;
  c_w : Z; c_wstamp : nat;
  c_r : Z;
  c_lock : Z; c_lstamp : nat;
  c_crem : Z;
  c_hN : Z -> Z; c_hC : Z -> Z; c_body : Z -> Z; c_ver : Z -> nat; c_gver : nat;
  c_wdone : nat;
  c_committed : list (Z * Z * Z);   (* ghost: (line, n_bytes, tag) in commit order *)
  c_unread : list (Z * Z * Z);      (* ghost: committed, not yet consumed *)
  c_delivered : list (Z * Z * Z);   (* ghost: what the reader was given: (line, n_bytes, tag) *)
  c_uncov : nat;                    (* ghost: plain reads not covered by the reader's view *)
  c_overlap : nat;                  (* ghost: writer stores into a line of an unread message *)
  c_rd : rthread;
  c_wr : nat -> wthread;
  (* ghost, read-before-overwrite coverage (the reader -> writer direction of the hand-over): *)
  c_repoch : nat;                   (* number of plain read segments of the reader so far *)
  c_rver : Z -> nat;                (* epoch of the reader's latest plain read of a line (0 = never) *)
  c_rstamp : nat;                   (* reads published on read_cursor (by its latest store) *)
  c_lrstamp : nat;                  (* reads known to the previous lock holder, published on the write lock *)
  c_wrseen : nat -> nat;            (* per writer: reads it knows to be complete (joined at its loads of read_cursor / the lock) *)
  c_rrace : nat;                    (* writer stores into a line whose latest read is not known to it to be complete *)
}.

Definition fupd {A} (f : Z -> A) (l : Z) (v : A) : Z -> A := fun x => if x =? l then v else f x.
Definition frange {A} (f : Z -> A) (a b : Z) (v : A) : Z -> A :=
  fun x => if (a <=? x) && (x <? b) then v else f x.

Definition cinit (n : Z) (locked : bool) (tries : nat) (kill : option nat)
           (scripts : list (list (Z * Z))) : csys :=
  {| c_n := n; c_locked := locked; c_nw := length scripts; c_tries := tries; c_kill := kill;
     c_w := 0; c_wstamp := 0; c_r := 0; c_lock := 0; c_lstamp := 0; c_crem := n - 1;
     c_hN := fun _ => -1; c_hC := fun _ => -1; c_body := fun _ => -1; c_ver := fun _ => 0%nat; c_gver := 0;
     c_wdone := 0; c_committed := []; c_unread := []; c_delivered := []; c_uncov := 0; c_overlap := 0;
     c_rd := {| r_pc := RSeg0; r_done := false; r_seen := 0 |};
     c_wr := fun t => {| w_pc := WSeg0; w_script := nth (Nat.pred t) scripts []; w_tries := tries;
                         w_pend := []; w_seen := 0; w_ev := 0 |};
     c_repoch := 0; c_rver := fun _ => 0%nat; c_rstamp := 0; c_lrstamp := 0; c_wrseen := fun _ => 0%nat; c_rrace := 0 |}.

(* ---- record updates ---- *)
Definition set_rd (s : csys) (x : rthread) : csys :=
  {| c_n := c_n s; c_locked := c_locked s; c_nw := c_nw s; c_tries := c_tries s; c_kill := c_kill s;
     c_w := c_w s; c_wstamp := c_wstamp s; c_r := c_r s; c_lock := c_lock s; c_lstamp := c_lstamp s;
     c_crem := c_crem s; c_hN := c_hN s; c_hC := c_hC s; c_body := c_body s; c_ver := c_ver s; c_gver := c_gver s;
     c_wdone := c_wdone s; c_committed := c_committed s; c_unread := c_unread s; c_delivered := c_delivered s;
     c_uncov := c_uncov s; c_overlap := c_overlap s; c_rd := x; c_wr := c_wr s;
     c_repoch := c_repoch s; c_rver := c_rver s; c_rstamp := c_rstamp s; c_lrstamp := c_lrstamp s;
     c_wrseen := c_wrseen s; c_rrace := c_rrace s |}.
Definition set_wr (s : csys) (t : nat) (x : wthread) : csys :=
  {| c_n := c_n s; c_locked := c_locked s; c_nw := c_nw s; c_tries := c_tries s; c_kill := c_kill s;
     c_w := c_w s; c_wstamp := c_wstamp s; c_r := c_r s; c_lock := c_lock s; c_lstamp := c_lstamp s;
     c_crem := c_crem s; c_hN := c_hN s; c_hC := c_hC s; c_body := c_body s; c_ver := c_ver s; c_gver := c_gver s;
     c_wdone := c_wdone s; c_committed := c_committed s; c_unread := c_unread s; c_delivered := c_delivered s;
     c_uncov := c_uncov s; c_overlap := c_overlap s; c_rd := c_rd s; c_wr := upd (c_wr s) t x;
     c_repoch := c_repoch s; c_rver := c_rver s; c_rstamp := c_rstamp s; c_lrstamp := c_lrstamp s;
     c_wrseen := c_wrseen s; c_rrace := c_rrace s |}.
Definition set_wcur (s : csys) (v : Z) (st : nat) : csys :=
  {| c_n := c_n s; c_locked := c_locked s; c_nw := c_nw s; c_tries := c_tries s; c_kill := c_kill s;
     c_w := v; c_wstamp := st; c_r := c_r s; c_lock := c_lock s; c_lstamp := c_lstamp s;
     c_crem := c_crem s; c_hN := c_hN s; c_hC := c_hC s; c_body := c_body s; c_ver := c_ver s; c_gver := c_gver s;
     c_wdone := c_wdone s; c_committed := c_committed s; c_unread := c_unread s; c_delivered := c_delivered s;
     c_uncov := c_uncov s; c_overlap := c_overlap s; c_rd := c_rd s; c_wr := c_wr s;
     c_repoch := c_repoch s; c_rver := c_rver s; c_rstamp := c_rstamp s; c_lrstamp := c_lrstamp s;
     c_wrseen := c_wrseen s; c_rrace := c_rrace s |}.
Definition set_rcur (s : csys) (v : Z) : csys :=
  {| c_n := c_n s; c_locked := c_locked s; c_nw := c_nw s; c_tries := c_tries s; c_kill := c_kill s;
     c_w := c_w s; c_wstamp := c_wstamp s; c_r := v; c_lock := c_lock s; c_lstamp := c_lstamp s;
     c_crem := c_crem s; c_hN := c_hN s; c_hC := c_hC s; c_body := c_body s; c_ver := c_ver s; c_gver := c_gver s;
     c_wdone := c_wdone s; c_committed := c_committed s; c_unread := c_unread s; c_delivered := c_delivered s;
     c_uncov := c_uncov s; c_overlap := c_overlap s; c_rd := c_rd s; c_wr := c_wr s;
     c_repoch := c_repoch s; c_rver := c_rver s; c_rstamp := c_rstamp s; c_lrstamp := c_lrstamp s;
     c_wrseen := c_wrseen s; c_rrace := c_rrace s |}.
Definition set_lock (s : csys) (v : Z) (st : nat) : csys :=
  {| c_n := c_n s; c_locked := c_locked s; c_nw := c_nw s; c_tries := c_tries s; c_kill := c_kill s;
     c_w := c_w s; c_wstamp := c_wstamp s; c_r := c_r s; c_lock := v; c_lstamp := st;
     c_crem := c_crem s; c_hN := c_hN s; c_hC := c_hC s; c_body := c_body s; c_ver := c_ver s; c_gver := c_gver s;
     c_wdone := c_wdone s; c_committed := c_committed s; c_unread := c_unread s; c_delivered := c_delivered s;
     c_uncov := c_uncov s; c_overlap := c_overlap s; c_rd := c_rd s; c_wr := c_wr s;
     c_repoch := c_repoch s; c_rver := c_rver s; c_rstamp := c_rstamp s; c_lrstamp := c_lrstamp s;
     c_wrseen := c_wrseen s; c_rrace := c_rrace s |}.
Definition set_crem (s : csys) (c : Z) : csys :=
  {| c_n := c_n s; c_locked := c_locked s; c_nw := c_nw s; c_tries := c_tries s; c_kill := c_kill s;
     c_w := c_w s; c_wstamp := c_wstamp s; c_r := c_r s; c_lock := c_lock s; c_lstamp := c_lstamp s;
     c_crem := c; c_hN := c_hN s; c_hC := c_hC s; c_body := c_body s; c_ver := c_ver s; c_gver := c_gver s;
     c_wdone := c_wdone s; c_committed := c_committed s; c_unread := c_unread s; c_delivered := c_delivered s;
     c_uncov := c_uncov s; c_overlap := c_overlap s; c_rd := c_rd s; c_wr := c_wr s;
     c_repoch := c_repoch s; c_rver := c_rver s; c_rstamp := c_rstamp s; c_lrstamp := c_lrstamp s;
     c_wrseen := c_wrseen s; c_rrace := c_rrace s |}.
Definition set_wdone (s : csys) (d : nat) : csys :=
  {| c_n := c_n s; c_locked := c_locked s; c_nw := c_nw s; c_tries := c_tries s; c_kill := c_kill s;
     c_w := c_w s; c_wstamp := c_wstamp s; c_r := c_r s; c_lock := c_lock s; c_lstamp := c_lstamp s;
     c_crem := c_crem s; c_hN := c_hN s; c_hC := c_hC s; c_body := c_body s; c_ver := c_ver s; c_gver := c_gver s;
     c_wdone := d; c_committed := c_committed s; c_unread := c_unread s; c_delivered := c_delivered s;
     c_uncov := c_uncov s; c_overlap := c_overlap s; c_rd := c_rd s; c_wr := c_wr s;
     c_repoch := c_repoch s; c_rver := c_rver s; c_rstamp := c_rstamp s; c_lrstamp := c_lrstamp s;
     c_wrseen := c_wrseen s; c_rrace := c_rrace s |}.
(* a plain write segment of the writer: header words / payload / versions, ghost overlap count *)
Definition set_data (s : csys) (hN hC body : Z -> Z) (ver : Z -> nat) (gver : nat) (ovl : nat) : csys :=
  {| c_n := c_n s; c_locked := c_locked s; c_nw := c_nw s; c_tries := c_tries s; c_kill := c_kill s;
     c_w := c_w s; c_wstamp := c_wstamp s; c_r := c_r s; c_lock := c_lock s; c_lstamp := c_lstamp s;
     c_crem := c_crem s; c_hN := hN; c_hC := hC; c_body := body; c_ver := ver; c_gver := gver;
     c_wdone := c_wdone s; c_committed := c_committed s; c_unread := c_unread s; c_delivered := c_delivered s;
     c_uncov := c_uncov s; c_overlap := ovl; c_rd := c_rd s; c_wr := c_wr s;
     c_repoch := c_repoch s; c_rver := c_rver s; c_rstamp := c_rstamp s; c_lrstamp := c_lrstamp s;
     c_wrseen := c_wrseen s; c_rrace := c_rrace s |}.
Definition set_ghost (s : csys) (com unr del : list (Z * Z * Z)) (uncov : nat) : csys :=
  {| c_n := c_n s; c_locked := c_locked s; c_nw := c_nw s; c_tries := c_tries s; c_kill := c_kill s;
     c_w := c_w s; c_wstamp := c_wstamp s; c_r := c_r s; c_lock := c_lock s; c_lstamp := c_lstamp s;
     c_crem := c_crem s; c_hN := c_hN s; c_hC := c_hC s; c_body := c_body s; c_ver := c_ver s; c_gver := c_gver s;
     c_wdone := c_wdone s; c_committed := com; c_unread := unr; c_delivered := del;
     c_uncov := uncov; c_overlap := c_overlap s; c_rd := c_rd s; c_wr := c_wr s;
     c_repoch := c_repoch s; c_rver := c_rver s; c_rstamp := c_rstamp s; c_lrstamp := c_lrstamp s;
     c_wrseen := c_wrseen s; c_rrace := c_rrace s |}.

Definition set_rc (s : csys) (ep : nat) (rver : Z -> nat) (rst lrst : nat) (wrs : nat -> nat) (race : nat) : csys :=
  {| c_n := c_n s; c_locked := c_locked s; c_nw := c_nw s; c_tries := c_tries s; c_kill := c_kill s;
     c_w := c_w s; c_wstamp := c_wstamp s; c_r := c_r s; c_lock := c_lock s; c_lstamp := c_lstamp s;
     c_crem := c_crem s; c_hN := c_hN s; c_hC := c_hC s; c_body := c_body s; c_ver := c_ver s; c_gver := c_gver s;
     c_wdone := c_wdone s; c_committed := c_committed s; c_unread := c_unread s; c_delivered := c_delivered s;
     c_uncov := c_uncov s; c_overlap := c_overlap s; c_rd := c_rd s; c_wr := c_wr s;
     c_repoch := ep; c_rver := rver; c_rstamp := rst; c_lrstamp := lrst; c_wrseen := wrs; c_rrace := race |}.

Definition wset (x : wthread) (p : wpc) : wthread :=
  {| w_pc := p; w_script := w_script x; w_tries := w_tries x; w_pend := w_pend x; w_seen := w_seen x; w_ev := w_ev x |}.
Definition wset_pend (x : wthread) (p : wpc) (pend : list (nat * Z)) : wthread :=
  {| w_pc := p; w_script := w_script x; w_tries := w_tries x; w_pend := pend; w_seen := w_seen x; w_ev := w_ev x |}.
Definition wset_seen (x : wthread) (p : wpc) (seen : nat) : wthread :=
  {| w_pc := p; w_script := w_script x; w_tries := w_tries x; w_pend := w_pend x; w_seen := seen; w_ev := w_ev x |}.

(* does the line range [a, b) touch an unread message's footprint ? (ghost monitor) *)
Definition touches (unread : list (Z * Z * Z)) (a b : Z) : bool :=
  existsb (fun m => let '(l, nb, _) := m in (l <? b) && (a <? l + cal_cachelines nb)) unread.

(* lines whose header words a payload of nb bytes at line a overwrites: a < l, 64 l < 64 a + 8 + nb *)
Definition pay_end (a nb : Z) : Z := a + (HDR + nb - 1) / CL + 1.

(* w_alloc tail: header, payload, then w_move's plain part (cached_remain -= n); next: commit store *)
Definition w_finish (s : csys) (t : nat) (x : wthread) (notes : list (nat * Z)) : csys * label :=
  match w_script x with
  | [] => (s, LPlain notes)
  | (nb, tag) :: _ =>
    let a := c_w s in let need := cal_cachelines nb in
    let gv := S (c_gver s) in
    let hN := fupd (frange (c_hN s) (a + 1) (pay_end a nb) (-1)) a nb in
    let hC := fupd (frange (c_hC s) (a + 1) (pay_end a nb) (-1)) a need in
    let body := fupd (c_body s) a tag in
    let ver := frange (c_ver s) a (pay_end a nb) gv in
    let ovl := if touches (c_unread s) a (pay_end a nb) then S (c_overlap s) else c_overlap s in
    let s1 := set_data s hN hC body ver gv ovl in
    let s2 := set_crem s1 (u32 (c_crem s - need)) in
    (set_wr s2 t (wset_seen (wset_pend x (WStoreCommit a need) []) (WStoreCommit a need) gv), LPlain notes)
  end.

(* alloc returned NULL: [unlock], note full, yield point *)
Definition w_fail (s : csys) (t : nat) (x : wthread) (notes : list (nat * Z)) : csys * label :=
  if c_locked s then (set_wr s t (wset_pend x (WClear false 0) []), LPlain notes)
  else (set_wr s t (wset_pend x WRetry []), LPlain (notes ++ [(n_full, 0)])).

(* w_alloc_bytes up to its first atomic operation (or to the commit store) *)
Definition w_alloc1 (s : csys) (t : nat) (x : wthread) (notes : list (nat * Z)) : csys * label :=
  match w_script x with
  | [] => (s, LPlain notes)
  | (nb, _) :: _ =>
    if c_crem s <? cal_cachelines nb then (set_wr s t (wset_pend x WLoadR []), LPlain notes)
    else w_finish s t x notes
  end.

Definition is_atomic (o : opk) : bool :=
  match o with OLoad | OStore | OTas | OClear => true | _ => false end.

(* the kill switch: writer 1 stops for good right after its k-th atomic operation; with several writer threads
   (under the write lock) the writer PROCESS has died at that instant: every other writer thread stops right after
   its own next atomic operation (wherever it is: spinning on the lock its dead sibling holds, inside
   update_cached_remain, ...) *)
Definition proc_dead (s : csys) : bool :=
  match c_kill s with Some k => Nat.leb k (w_ev (c_wr s 1%nat)) | None => false end.
Definition kill_check (s : csys) (t : nat) (r : csys * label) : csys * label :=
  match r with
  | (s', LEv e) =>
    if negb (Nat.eqb t 1) && is_atomic (e_op e) && proc_dead s then
      (set_wdone (set_wr s' t (wset_pend (c_wr s' t) WKilled [])) (S (c_wdone s')), LEv e)
    else
    if Nat.eqb t 1 && is_atomic (e_op e) then
      let x := c_wr s' t in
      let ev := S (w_ev (c_wr s t)) in
      let x' := {| w_pc := w_pc x; w_script := w_script x; w_tries := w_tries x; w_pend := w_pend x;
                   w_seen := w_seen x; w_ev := ev |} in
      match c_kill s with
      | Some k => if Nat.eqb k ev then
                    (set_wdone (set_wr s' t (wset_pend x' WKilled [])) (S (c_wdone s')), LEv e)
                  else (set_wr s' t x', LEv e)
      | None => (set_wr s' t x', LEv e)
      end
    else r
  | _ => r
  end.

Definition covered (s : csys) (seen : nat) (a b : Z) : bool :=
  forallb (fun i => Nat.leb (c_ver s (a + Z.of_nat i)) seen) (seq 0 (Z.to_nat (b - a))).

(* reader: got a message whose header is at line l: notes, ghost delivery, next = r_move's store *)
Definition r_got (s : csys) (x : rthread) (l : Z) : csys * label :=
  let nb := c_hN s l in let tag := c_body s l in
  let cov := covered s (r_seen x) l (pay_end l nb) in
  let s1 := set_ghost s (c_committed s) (c_unread s) (c_delivered s ++ [(l, nb, tag)])
                      (if cov then c_uncov s else S (c_uncov s)) in
  (set_rd s1 {| r_pc := RStoreMove (u32 (c_r s + c_hC s l)); r_done := r_done x; r_seen := r_seen x |},
   LPlain [(n_glen, nb); (n_goff, CL * l + HDR); (n_gtag, tag)]).
(* reader: fetch returned NULL *)
Definition r_null (s : csys) (x : rthread) : csys * label :=
  if r_done x then (set_rd s {| r_pc := RFin; r_done := true; r_seen := r_seen x |}, LPlain [(n_rdone, 0)])
  else (set_rd s {| r_pc := RIdle; r_done := false; r_seen := r_seen x |}, LPlain [(n_idle, 0)]).

Definition rstep (P : params) (s : csys) : option (csys * label) :=
  let x := c_rd s in
  match r_pc x with
  | RSeg0 =>
    Some (set_rd s {| r_pc := RLoadW; r_done := Nat.eqb (c_wdone s) (c_nw s); r_seen := r_seen x |}, LPlain [])
  | RLoadW =>
    let mo := mo_r_load_w P in
    Some (set_rd s {| r_pc := RSegFetch (c_w s); r_done := r_done x; r_seen := acq_join mo (r_seen x) (c_wstamp s) |},
          LEv (Ev OLoad cell_w mo (c_w s) 0 0))
  | RSegFetch w_obs =>
    if w_obs =? c_r s then Some (r_null s x)
    else
      let cov := Nat.leb (c_ver s (c_r s)) (r_seen x) in
      let s0 := if cov then s else set_ghost s (c_committed s) (c_unread s) (c_delivered s) (S (c_uncov s)) in
      if negb (c_hN s (c_r s) =? 0) then Some (r_got s0 x (c_r s))
      else if w_obs =? 0 then Some (r_null s0 x)
      else Some (set_rd s0 {| r_pc := RStoreWrap; r_done := r_done x; r_seen := r_seen x |}, LPlain [])
  | RStoreWrap =>
    let mo := mo_r_store_wrap P in
    Some (set_rd (set_rcur s 0) {| r_pc := RSegFetch2; r_done := r_done x; r_seen := r_seen x |},
          LEv (Ev OStore cell_r mo 0 0 0))
  | RSegFetch2 =>
    let cov := Nat.leb (c_ver s 0) (r_seen x) in
    let s0 := if cov then s else set_ghost s (c_committed s) (c_unread s) (c_delivered s) (S (c_uncov s)) in
    if negb (c_hN s 0 =? 0) then Some (r_got s0 x 0) else Some (r_null s0 x)
  | RStoreMove v =>
    let mo := mo_r_store_move P in
    let s1 := set_ghost (set_rcur s v) (c_committed s) (tl (c_unread s)) (c_delivered s) (c_uncov s) in
    Some (set_rd s1 {| r_pc := RSeg0; r_done := r_done x; r_seen := r_seen x |},
          LEv (Ev OStore cell_r mo v 0 0))
  | RIdle => Some (set_rd s {| r_pc := RSeg0; r_done := r_done x; r_seen := r_seen x |},
                   LEv (Ev OPlain cell_ridle MoNone 0 0 0))
  | RFin => Some (set_rd s {| r_pc := RDone; r_done := r_done x; r_seen := r_seen x |}, LExit)
  | RDone => None
  end.

(* advance to the next message / next attempt *)
Definition w_next_msg (s : csys) (x : wthread) (pend : list (nat * Z)) : wthread :=
  {| w_pc := WSeg0; w_script := tl (w_script x); w_tries := c_tries s; w_pend := pend; w_seen := w_seen x; w_ev := w_ev x |}.

Definition wstep (P : params) (s : csys) (t : nat) : option (csys * label) :=
  let x := c_wr s t in
  match w_pc x with
  | WSeg0 =>
    if (Nat.eqb t 1) && (match c_kill s with Some O => true | _ => false end) && Nat.eqb (w_ev x) 0 then
      (* killed before its first operation *)
      Some (set_wdone (set_wr s t (wset x WFin)) (S (c_wdone s)), LPlain [])
    else
    match w_script x with
    | [] => Some (set_wdone (set_wr s t (wset_pend x WFin [])) (S (c_wdone s)), LPlain (w_pend x ++ [(n_wdone, 0)]))
    | _ :: _ =>
      if c_locked s then Some (set_wr s t (wset_pend x WTas []), LPlain (w_pend x))
      else Some (w_alloc1 s t x (w_pend x))
    end
  | WTas =>
    let mo := mo_lock_tas P in
    let prev := c_lock s in
    let x' := wset_seen x (if prev =? 0 then WSegAlloc else WSegY) (acq_join mo (w_seen x) (c_lstamp s)) in
    Some (set_wr (set_lock s 1 (rmw_stamp mo (w_seen x) (c_lstamp s))) t x', LEv (Ev OTas cell_lock mo prev 0 0))
  | WSegY => Some (set_wr s t (wset x WYield), LPlain [])
  | WYield => Some (set_wr s t (wset x WSegT), LEv (Ev OYield 0%nat MoNone 0 0 0))
  | WSegT => Some (set_wr s t (wset x WTas), LPlain [])
  | WSegAlloc => Some (w_alloc1 s t x [])
  | WLoadR =>
    let mo := mo_w_load_r P in
    Some (set_wr s t (wset x (WSegUpd (c_r s))), LEv (Ev OLoad cell_r mo (c_r s) 0 0))
  | WSegUpd r_obs =>
    match w_script x with
    | [] => None
    | (nb, _) :: _ =>
      let need := cal_cachelines nb in
      if r_obs >? c_w s then
        let s1 := set_crem s (u32 (r_obs - c_w s - 1)) in
        if c_crem s1 <? need then Some (w_fail s1 t x []) else Some (w_finish s1 t x [])
      else
        let right := u32 (c_n s - c_w s - 1) in
        let lft := s32 r_obs - 1 in
        if right >=? need then Some (w_finish (set_crem s right) t x [])
        else if lft >=? s32 need then
          (* marker at w *)
          let gv := S (c_gver s) in
          let ovl := if touches (c_unread s) (c_w s) (c_w s + 1) then S (c_overlap s) else c_overlap s in
          let s1 := set_data s (fupd (c_hN s) (c_w s) 0) (fupd (c_hC s) (c_w s) 0) (c_body s)
                             (fupd (c_ver s) (c_w s) gv) gv ovl in
          Some (set_wr s1 t (wset_seen x (WStoreWrap lft) gv), LPlain [])
        else Some (w_fail s t x [])
    end
  | WStoreWrap lft =>
    let mo := mo_w_store_wrap P in
    Some (set_wr (set_wcur s 0 (rel_stamp mo (w_seen x))) t (wset x (WSegWrapped lft)),
          LEv (Ev OStore cell_w mo 0 0 0))
  | WSegWrapped lft =>
    match w_script x with
    | [] => None
    | (nb, _) :: _ =>
      let s1 := set_crem s (u32 lft) in
      if c_crem s1 <? cal_cachelines nb then Some (w_fail s1 t x []) else Some (w_finish s1 t x [])
    end
  | WStoreCommit a need =>
    let mo := mo_w_store_commit P in
    match w_script x with
    | [] => None
    | (nb, tag) :: _ =>
      let v := u32 (c_w s + need) in
      let s1 := set_ghost (set_wcur s v (rel_stamp mo (w_seen x)))
                          (c_committed s ++ [(a, nb, tag)]) (c_unread s ++ [(a, nb, tag)]) (c_delivered s) (c_uncov s) in
      let off := CL * a + HDR in
      if c_locked s then Some (set_wr s1 t (wset x (WSegC off)), LEv (Ev OStore cell_w mo v 0 0))
      else Some (set_wr s1 t (w_next_msg s x [(n_sent, off)]), LEv (Ev OStore cell_w mo v 0 0))
    end
  | WSegC off => Some (set_wr s t (wset x (WClear true off)), LPlain [])
  | WClear sent off =>
    let mo := mo_lock_clear P in
    let s1 := set_lock s 0 (rel_stamp mo (w_seen x)) in
    Some (set_wr s1 t (if sent then w_next_msg s x [(n_sent, off)] else wset x WSegFull),
          LEv (Ev OClear cell_lock mo 0 0 0))
  | WSegFull => Some (set_wr s t (wset x WRetry), LPlain [(n_full, 0)])
  | WRetry =>
    let x' := match w_tries x with
              | S (S k) => {| w_pc := WSeg0; w_script := w_script x; w_tries := S k; w_pend := [];
                              w_seen := w_seen x; w_ev := w_ev x |}
              | _ => w_next_msg s x [(n_drop, 0)]
              end in
    Some (set_wr s t x', LEv (Ev OPlain cell_wretry MoNone 0 0 0))
  | WKilled => Some (set_wr s t (wset x WFin), LPlain [])
  | WFin => Some (set_wr s t (wset x WDone), LExit)
  | WDone => None
  end.

Definition cstep0 (P : params) (s : csys) (t ch : nat) : option (csys * label) :=
  if Nat.eqb t 0 then rstep P s
  else if Nat.leb t (c_nw s) && (c_locked s || Nat.eqb t 1) then
    match wstep P s t with
    | Some r => Some (kill_check s t r)
    | None => None
    end
  else None.

(* ---- read-before-overwrite coverage (ghost layer on top of the step above) ----
   The reader's plain reads of a message (header + payload) must be complete before the writer stores
   into those lines again.  Each plain read segment of the reader is a new epoch, recorded on the lines
   it reads.  A store of read_cursor with order >= release publishes the epochs so far on that cell
   (a relaxed store publishes nothing); the store of read_cursor := 0 in r_fetch is executed only if the
   header just read is the wrap marker (control dependency), so the one read that precedes it is ordered
   before it whatever its order: it is counted as published (observation, see TRUSTED_BASE: C11 itself would
   want release there as well).  A writer learns the published epoch when it loads read_cursor (the code's
   load is relaxed: accepted as the acquiring side because the writer's later stores are control-dependent
   on the value loaded; C11 formally wants acquire - same TRUSTED_BASE note) and through the write lock
   (acquire / release, as for the write views).  A store of the writer into a line (its version changes)
   is read-covered iff the epoch of the latest read of that line is known to this writer; otherwise
   c_rrace counts it. *)
Definition rc_read (s : csys) (a b : Z) : csys :=
  set_rc s (S (c_repoch s)) (frange (c_rver s) a b (S (c_repoch s))) (c_rstamp s) (c_lrstamp s) (c_wrseen s) (c_rrace s).
Definition rc_publish (s : csys) (st : nat) : csys :=
  set_rc s (c_repoch s) (c_rver s) st (c_lrstamp s) (c_wrseen s) (c_rrace s).

(* reader step s -> s' of the base layer: which lines it read / what it published *)
Definition ghost_r (P : params) (s s' : csys) : csys :=
  match r_pc (c_rd s) with
  | RSegFetch w_obs =>
    if w_obs =? c_r s then s'
    else if negb (c_hN s (c_r s) =? 0) then rc_read s' (c_r s) (pay_end (c_r s) (c_hN s (c_r s)))
    else rc_read s' (c_r s) (c_r s + 1)
  | RSegFetch2 =>
    if negb (c_hN s 0 =? 0) then rc_read s' 0 (pay_end 0 (c_hN s 0)) else rc_read s' 0 1
  | RStoreWrap => rc_publish s' (c_repoch s)
  | RStoreMove _ => rc_publish s' (rel_stamp (mo_r_store_move P) (c_repoch s))
  | _ => s'
  end.

(* lines of [0, n) the step stored into (version changed) whose latest read is not known to the storer *)
Definition unread_overwritten (s s' : csys) (rseen : nat) : bool :=
  existsb (fun i => let l := Z.of_nat i in
                    negb (Nat.eqb (c_ver s' l) (c_ver s l)) && negb (Nat.leb (c_rver s l) rseen))
          (seq 0 (Z.to_nat (c_n s))).

Definition ghost_w (P : params) (s : csys) (t : nat) (s' : csys) : csys :=
  let rs := c_wrseen s t in
  let race := if unread_overwritten s s' rs then S (c_rrace s) else c_rrace s in
  match w_pc (c_wr s t) with
  | WLoadR =>
    set_rc s' (c_repoch s) (c_rver s) (c_rstamp s) (c_lrstamp s) (upd (c_wrseen s) t (Nat.max rs (c_rstamp s))) race
  | WTas =>
    let mo := mo_lock_tas P in
    set_rc s' (c_repoch s) (c_rver s) (c_rstamp s) (rmw_stamp mo rs (c_lrstamp s))
           (upd (c_wrseen s) t (acq_join mo rs (c_lrstamp s))) race
  | WClear _ _ =>
    set_rc s' (c_repoch s) (c_rver s) (c_rstamp s) (rel_stamp (mo_lock_clear P) rs) (c_wrseen s) race
  | _ => set_rc s' (c_repoch s) (c_rver s) (c_rstamp s) (c_lrstamp s) (c_wrseen s) race
  end.

Definition cstep (P : params) (s : csys) (t ch : nat) : option (csys * label) :=
  match cstep0 P s t ch with
  | Some (s', l) => Some (if Nat.eqb t 0 then ghost_r P s s' else ghost_w P s t s', l)
  | None => None
  end.

(* orders that make the hand-over of plain data sound: both stores of write_cursor release, the
   reader's load of it acquire; with several writers the lock must be acquire / release; and, for the
   other direction (the reader's reads complete before the writer reuses the lines), the reader's store of
   read_cursor in r_move release *)
Definition mo_sufficient (P : params) : bool :=
  is_rel (mo_w_store_wrap P) && is_rel (mo_w_store_commit P) && is_acq (mo_r_load_w P) &&
  is_acq (mo_lock_tas P) && is_rel (mo_lock_clear P) && is_rel (mo_r_store_move P).
